(* The Condorcet-runoff hybrids (Model/Hybrids.v): the pairwise dictionary of a ranked profile as a
   weighted sum of per-ballot coefficients, restriction of the ballots = restriction of the dictionary,
   Condorcet winner elected at once, Smith containment. *)
From Coq Require Import ZArith QArith List Bool Arith Lia Permutation.
From VL Require Import Prelude.Sx Prelude.PyDict Prelude.GDict Model.GetNBest Model.Convert Model.STV Model.Condorcet Model.Hybrids.
From VL Require Import Proofs.Condorcet_proofs Proofs.Smith_proofs Proofs.GetNBest_proofs Proofs.JR_proofs Proofs.QOrd
  Proofs.STV_psc_proofs Proofs.STV_elim_proofs.
Import ListNotations.
Open Scope Z_scope.

(* ------------------------------------------------------------------ counting *)
Definition cnt (a : C) (l : list C) : Z := fold_right (fun x acc => (if ceqb a x then 1 else 0) + acc) 0 l.
Definition pcount (p : pair) (l : list pair) : Z := fold_right (fun q acc => (if peqb p q then 1 else 0) + acc) 0 l.

Lemma ceqb_eq a b : ceqb a b = true <-> a = b.
Proof. apply Pos.eqb_eq. Qed.
Lemma ceqb_refl a : ceqb a a = true.
Proof. apply Pos.eqb_refl. Qed.
Lemma cmem_iff x l : cmem x l = true <-> In x l.
Proof.
  induction l as [|y l IH]; simpl; [split; [discriminate|intros []]|].
  rewrite orb_true_iff, IH, ceqb_eq. split; intros [H|H]; auto.
Qed.
Lemma cmem_false x l : cmem x l = false <-> ~ In x l.
Proof. rewrite <- cmem_iff. destruct (cmem x l); split; congruence. Qed.

Lemma cnt_app a l m : cnt a (l ++ m) = cnt a l + cnt a m.
Proof. induction l as [|x l IH]; simpl; [reflexivity|]. rewrite IH. lia. Qed.
Lemma cnt_nonneg a l : 0 <= cnt a l.
Proof. induction l as [|x l IH]; simpl; [lia|]. destruct (ceqb a x); lia. Qed.
Lemma cnt_pos a l : 0 < cnt a l <-> In a l.
Proof.
  induction l as [|x l IH]; simpl; [split; [lia|intros []]|].
  pose proof (cnt_nonneg a l). destruct (ceqb a x) eqn:E.
  - apply ceqb_eq in E. subst. split; [auto|lia].
  - split; [intros H1; right; apply IH; lia|intros [->|H1]; [rewrite ceqb_refl in E; discriminate|apply IH in H1; lia]].
Qed.
Lemma cnt_notin a l : ~ In a l -> cnt a l = 0.
Proof. intros H. pose proof (cnt_nonneg a l). pose proof (cnt_pos a l). destruct (Z.eq_dec (cnt a l) 0); [assumption|]. exfalso. apply H, H1. lia. Qed.
Lemma cnt_cons a x l : cnt a (x :: l) = (if ceqb a x then 1 else 0) + cnt a l.
Proof. reflexivity. Qed.
Lemma cnt_filter f a l : cnt a (filter f l) = if f a then cnt a l else 0.
Proof.
  induction l as [|x l IH]; [simpl; destruct (f a); reflexivity|].
  cbn [filter]. rewrite cnt_cons. destruct (f x) eqn:Ef.
  - rewrite cnt_cons, IH. destruct (f a) eqn:Ea; [reflexivity|]. destruct (ceqb a x) eqn:E; [|lia].
    apply ceqb_eq in E. subst x. congruence.
  - rewrite IH. destruct (ceqb a x) eqn:E; [|destruct (f a); lia].
    apply ceqb_eq in E. subst x. rewrite Ef. reflexivity.
Qed.
Lemma cnt_nodup a l : NoDup l -> cnt a l = if cmem a l then 1 else 0.
Proof.
  induction 1 as [|x l Hx Hl IH]; simpl; [reflexivity|]. rewrite IH. destruct (ceqb a x) eqn:E; simpl; [|reflexivity].
  apply ceqb_eq in E. subst. apply cmem_false in Hx. rewrite Hx. reflexivity.
Qed.

Lemma pcount_cons p q l : pcount p (q :: l) = (if peqb p q then 1 else 0) + pcount p l.
Proof. reflexivity. Qed.
Lemma pcount_app p l m : pcount p (l ++ m) = pcount p l + pcount p m.
Proof. induction l as [|x l IH]; simpl; [reflexivity|]. rewrite IH. lia. Qed.
Lemma pcount_nonneg p l : 0 <= pcount p l.
Proof. induction l as [|x l IH]; simpl; [lia|]. destruct (peqb p x); lia. Qed.
Lemma pcount_pos p l : 0 < pcount p l <-> In p l.
Proof.
  induction l as [|x l IH]; simpl; [split; [lia|intros []]|].
  pose proof (pcount_nonneg p l). destruct (peqb p x) eqn:E.
  - apply peqb_eq in E. subst. split; [auto|lia].
  - split; [intros H1; right; apply IH; lia|intros [->|H1]; [|apply IH in H1; lia]].
    assert (peqb p p = true) by (apply peqb_eq; reflexivity). congruence.
Qed.
Lemma pcount_cross a b (X Y : list C) :
  pcount (a, b) (flat_map (fun u => map (fun l => (u, l)) X) Y) = cnt a Y * cnt b X.
Proof.
  induction Y as [|y Y IH]; simpl; [reflexivity|]. rewrite pcount_app, IH.
  assert (H : pcount (a, b) (map (fun l => (y, l)) X) = (if ceqb a y then 1 else 0) * cnt b X).
  { clear. induction X as [|x X IH]; [cbn [map pcount fold_right cnt]; lia|]. cbn [map]. rewrite pcount_cons, IH, cnt_cons.
    unfold peqb. cbn [fst snd]. destruct (ceqb a y), (ceqb b x); cbn [andb]; lia. }
  rewrite H. lia.
Qed.

(* ------------------------------------------------------------------ the ballot image as pairs *)
Fixpoint pairs_from (r : ranked) : list pair :=
  match r with
  | [] => []
  | i :: t => flat_map (fun u => map (fun l => (u, l)) (flatten t)) (members i) ++ pairs_from t
  end.

Lemma dec_cross (X Y : list C) :
  flat_map (fun kc : sx * Q => dec_pair (fst kc)) (flat_map (fun u => map (fun l => (L [kc u; kc l], 1%Q)) X) Y)
  = flat_map (fun u => map (fun l => (u, l)) X) Y.
Proof.
  induction Y as [|y Y IH]; simpl; [reflexivity|]. rewrite flat_map_app, IH. f_equal.
  clear. induction X as [|x X IH]; simpl; [reflexivity|]. rewrite IH. reflexivity.
Qed.

Lemma ballot_pairs_eq cs r :
  ballot_pairs cs r = pairs_from r ++ flat_map (fun u => map (fun l => (u, l)) (set_diff cs (flatten r))) (flatten r).
Proof.
  unfold ballot_pairs, img_condorcet. rewrite flat_map_app, dec_cross. f_equal.
  induction r as [|i t IH]; simpl; [reflexivity|]. rewrite flat_map_app, dec_cross, IH. reflexivity.
Qed.

Fixpoint above (r : ranked) (a b : C) : Z :=
  match r with
  | [] => 0
  | i :: t => cnt a (members i) * cnt b (flatten t) + above t a b
  end.
Definition coef (cs : list C) (r : ranked) (a b : C) : Z :=
  above r a b + cnt a (flatten r) * cnt b (set_diff cs (flatten r)).

Lemma pcount_pairs_from r a b : pcount (a, b) (pairs_from r) = above r a b.
Proof. induction r as [|i t IH]; simpl; [reflexivity|]. rewrite pcount_app, pcount_cross, IH. reflexivity. Qed.

Lemma pcount_ballot cs r a b : pcount (a, b) (ballot_pairs cs r) = coef cs r a b.
Proof. rewrite ballot_pairs_eq, pcount_app, pcount_pairs_from, pcount_cross. reflexivity. Qed.

Lemma above_nonneg r a b : 0 <= above r a b.
Proof. induction r as [|i t IH]; simpl; [lia|]. pose proof (cnt_nonneg a (members i)). pose proof (cnt_nonneg b (flatten t)). nia. Qed.

(* ------------------------------------------------------------------ padd / pairwise *)
Lemma peqb_refl p : peqb p p = true.
Proof. apply peqb_eq. reflexivity. Qed.

Lemma pget0_padd v p n q : pget0 (padd v p n) q = pget0 v q + (if peqb q p then n else 0).
Proof.
  unfold pget0. induction v as [|[p' n'] v IH]; simpl.
  - destruct (peqb q p); lia.
  - destruct (peqb p p') eqn:E; simpl.
    + apply peqb_eq in E. subst p'. destruct (peqb q p); lia.
    + destruct (peqb q p') eqn:E2; [|exact IH].
      assert (peqb q p = false) as ->; [|lia].
      apply not_true_iff_false. intros H. apply peqb_eq in H. apply peqb_eq in E2. subst. rewrite peqb_refl in E. discriminate.
Qed.

Lemma padd_keys v p n q : In q (map fst (padd v p n)) <-> q = p \/ In q (map fst v).
Proof.
  induction v as [|[p' n'] v IH]; simpl; [intuition|].
  destruct (peqb p p') eqn:E; simpl.
  - apply peqb_eq in E. subst. intuition.
  - rewrite IH. intuition.
Qed.
Lemma padd_nodup v p n : NoDup (map fst v) -> NoDup (map fst (padd v p n)).
Proof.
  induction v as [|[p' n'] v IH]; simpl; intros H; [constructor; [intros []|constructor]|].
  inversion H as [|? ? Hn Hd]; subst. destruct (peqb p p') eqn:E; simpl; [constructor; assumption|].
  constructor; [|apply IH, Hd]. rewrite padd_keys. intros [->|H1]; [rewrite peqb_refl in E; discriminate|exact (Hn H1)].
Qed.
Lemma padd_nonneg v p n : 0 <= n -> (forall q m, In (q, m) v -> 0 <= m) -> forall q m, In (q, m) (padd v p n) -> 0 <= m.
Proof.
  intros Hn. induction v as [|[p' n'] v IH]; simpl; intros Hv q m.
  - intros [[= <- <-]|[]]. exact Hn.
  - destruct (peqb p p'); simpl.
    + intros [[= <- <-]|H]; [pose proof (Hv p' n' (or_introl eq_refl)); lia|apply (Hv q m); right; exact H].
    + intros [[= <- <-]|H]; [apply (Hv p' n'); left; reflexivity|]. apply (IH (fun q m H => Hv q m (or_intror H)) q m H).
Qed.

Definition wsum (f : ranked -> Z) (votes : rvotes) : Z := fold_right (fun bw acc => snd bw * f (fst bw) + acc) 0 votes.

Lemma wsum_ext f g votes : (forall b w, In (b, w) votes -> f b = g b) -> wsum f votes = wsum g votes.
Proof.
  induction votes as [|[b w] votes IH]; simpl; intros H; [reflexivity|].
  rewrite (H b w (or_introl eq_refl)), IH; [reflexivity|]. intros b' w' H'. apply (H b' w'). right. exact H'.
Qed.

Definition pw_from (cs : list C) (votes : rvotes) (acc : pvotes) : pvotes :=
  fold_left (fun acc bw => fold_left (fun acc p => padd acc p (snd bw)) (ballot_pairs cs (fst bw)) acc) votes acc.

Lemma fold_padd_get l w : forall acc q, pget0 (fold_left (fun acc p => padd acc p w) l acc) q = pget0 acc q + w * pcount q l.
Proof.
  induction l as [|p l IH]; intros acc q; simpl; [lia|]. rewrite IH, pget0_padd. destruct (peqb q p); lia.
Qed.
Lemma fold_padd_keys l w : forall acc q, In q (map fst (fold_left (fun acc p => padd acc p w) l acc)) <-> In q l \/ In q (map fst acc).
Proof.
  induction l as [|p l IH]; intros acc q; simpl; [intuition|]. rewrite IH, padd_keys. intuition.
Qed.
Lemma fold_padd_nodup l w : forall acc, NoDup (map fst acc) -> NoDup (map fst (fold_left (fun acc p => padd acc p w) l acc)).
Proof. induction l as [|p l IH]; intros acc H; simpl; [exact H|]. apply IH, padd_nodup, H. Qed.
Lemma fold_padd_nonneg l w : 0 <= w -> forall acc, (forall q m, In (q, m) acc -> 0 <= m) ->
  forall q m, In (q, m) (fold_left (fun acc p => padd acc p w) l acc) -> 0 <= m.
Proof. intros Hw. induction l as [|p l IH]; intros acc H; simpl; [exact H|]. apply IH. apply padd_nonneg; assumption. Qed.

Lemma pw_from_cons cs r w votes acc :
  pw_from cs ((r, w) :: votes) acc = pw_from cs votes (fold_left (fun acc p => padd acc p w) (ballot_pairs cs r) acc).
Proof. reflexivity. Qed.
Lemma wsum_cons f r w votes : wsum f ((r, w) :: votes) = w * f r + wsum f votes.
Proof. reflexivity. Qed.

Lemma pw_from_get cs votes : forall acc a b,
  pget0 (pw_from cs votes acc) (a, b) = pget0 acc (a, b) + wsum (fun r => coef cs r a b) votes.
Proof.
  induction votes as [|[r w] votes IH]; intros acc a b; [cbn; lia|].
  rewrite pw_from_cons, IH, fold_padd_get, pcount_ballot, wsum_cons. lia.
Qed.
Lemma pw_from_keys cs votes : forall acc q,
  In q (map fst (pw_from cs votes acc)) <-> (exists r w, In (r, w) votes /\ In q (ballot_pairs cs r)) \/ In q (map fst acc).
Proof.
  induction votes as [|[r w] votes IH]; intros acc q.
  - cbn. split; [auto|intros [(r & w & [] & _)|H]; exact H].
  - rewrite pw_from_cons, IH, fold_padd_keys. split.
    + intros [(r' & w' & H1 & H2)|[H|H]]; [left; exists r', w'; split; [right; exact H1|exact H2]|left; exists r, w; split; [left; reflexivity|exact H]|auto].
    + intros [(r' & w' & [[= <- <-]|H1] & H2)|H]; [right; left; exact H2|left; exists r', w'; auto|auto].
Qed.
Lemma pw_from_nodup cs votes : forall acc, NoDup (map fst acc) -> NoDup (map fst (pw_from cs votes acc)).
Proof. induction votes as [|[r w] votes IH]; intros acc H; [exact H|]. rewrite pw_from_cons. apply IH, fold_padd_nodup, H. Qed.
Lemma pw_from_nonneg cs votes : (forall r w, In (r, w) votes -> 0 <= w) -> forall acc, (forall q m, In (q, m) acc -> 0 <= m) ->
  forall q m, In (q, m) (pw_from cs votes acc) -> 0 <= m.
Proof.
  induction votes as [|[r w] votes IH]; intros Hw acc H; [exact H|]. rewrite pw_from_cons.
  apply IH; [intros r' w' H'; apply (Hw r' w'); right; exact H'|].
  apply fold_padd_nonneg; [apply (Hw r w); left; reflexivity|exact H].
Qed.

Definition cands_of (votes : rvotes) : list C := cands_ranked (qv votes).

Lemma pairwise_unfold votes : pairwise votes = pw_from (cands_of votes) votes [].
Proof. reflexivity. Qed.

Lemma pairwise_get votes a b : pget0 (pairwise votes) (a, b) = wsum (fun r => coef (cands_of votes) r a b) votes.
Proof. rewrite pairwise_unfold, pw_from_get. reflexivity. Qed.
Lemma pairwise_keys votes q :
  In q (map fst (pairwise votes)) <-> exists r w, In (r, w) votes /\ In q (ballot_pairs (cands_of votes) r).
Proof. rewrite pairwise_unfold, pw_from_keys. simpl. split; [intros [H|[]]; exact H|auto]. Qed.
Lemma pairwise_nodup votes : NoDup (map fst (pairwise votes)).
Proof. rewrite pairwise_unfold. apply pw_from_nodup. constructor. Qed.

(* ------------------------------------------------------------------ well-formed profiles *)
Fixpoint nodupb (l : list C) : bool :=
  match l with [] => true | x :: t => negb (cmem x t) && nodupb t end.
(* no candidate twice on a ballot, no negative weight *)
Definition wf_votes (votes : rvotes) : bool :=
  forallb (fun bw : ranked * Z => nodupb (flatten (fst bw)) && (0 <=? snd bw)) votes.

Lemma nodupb_iff l : nodupb l = true <-> NoDup l.
Proof.
  induction l as [|x l IH]; simpl; [split; [constructor|reflexivity]|].
  rewrite andb_true_iff, negb_true_iff, cmem_false, IH. split; [intros [H1 H2]; constructor; assumption|intros H; inversion H; auto].
Qed.
Lemma wf_votes_spec votes : wf_votes votes = true <-> forall r w, In (r, w) votes -> NoDup (flatten r) /\ 0 <= w.
Proof.
  unfold wf_votes. rewrite forallb_forall. split.
  - intros H r w Hin. specialize (H _ Hin). cbn [fst snd] in H. apply andb_true_iff in H. destruct H as [H1 H2].
    apply nodupb_iff in H1. apply Z.leb_le in H2. auto.
  - intros H [r w] Hin. destruct (H r w Hin) as [H1 H2]. cbn [fst snd]. apply andb_true_iff. split; [apply nodupb_iff, H1|apply Z.leb_le, H2].
Qed.

Lemma pairwise_nonneg votes : wf_votes votes = true -> forall q m, In (q, m) (pairwise votes) -> 0 <= m.
Proof.
  intros Hwf. rewrite pairwise_unfold. apply pw_from_nonneg; [|intros q m []].
  intros r w H. apply (proj1 (wf_votes_spec votes) Hwf r w H).
Qed.

Lemma cands_of_spec votes x : In x (cands_of votes) <-> exists r w, In (r, w) votes /\ In x (flatten r).
Proof.
  unfold cands_of, cands_ranked, qv. rewrite (proj2 (canon_set_spec _)), in_flat_map. split.
  - intros ([r q] & Hin & Hx). apply in_map_iff in Hin. destruct Hin as ([r' w] & [= <- _] & Hin). exists r', w. auto.
  - intros (r & w & Hin & Hx). exists (r, inject_Z w). split; [|exact Hx]. apply in_map_iff. exists (r, w). auto.
Qed.
Lemma cands_of_nodup votes : NoDup (cands_of votes).
Proof. apply canon_set_spec. Qed.

Lemma flatten_app r1 r2 : flatten (r1 ++ r2) = flatten r1 ++ flatten r2.
Proof. apply flat_map_app. Qed.
Lemma flatten_cons i t : flatten (i :: t) = members i ++ flatten t.
Proof. reflexivity. Qed.

Lemma cross_in (X Y : list C) u l : In (u, l) (flat_map (fun u => map (fun l => (u, l)) X) Y) <-> In u Y /\ In l X.
Proof.
  rewrite in_flat_map. split.
  - intros (y & Hy & H). apply in_map_iff in H. destruct H as (x & [= <- <-] & Hx). auto.
  - intros [Hu Hl]. exists u. split; [exact Hu|]. apply in_map_iff. exists l. auto.
Qed.

Lemma pairs_from_in r u l :
  In (u, l) (pairs_from r) <-> exists r1 i r2, r = r1 ++ i :: r2 /\ In u (members i) /\ In l (flatten r2).
Proof.
  induction r as [|i t IH]; cbn [pairs_from].
  - split; [intros []|intros (r1 & i & r2 & H & _)]. destruct r1; discriminate.
  - rewrite in_app_iff, cross_in, IH. split.
    + intros [[Hu Hl]|(r1 & j & r2 & -> & Hu & Hl)]; [exists [], i, t; auto|exists (i :: r1), j, r2; auto].
    + intros (r1 & j & r2 & E & Hu & Hl). destruct r1 as [|i0 r1]; cbn [app] in E; injection E as -> ->; [left; auto|].
      right. exists r1, j, r2. auto.
Qed.

Lemma nodup_app_disj {X} (a b : list X) x : NoDup (a ++ b) -> In x a -> In x b -> False.
Proof.
  induction a as [|y a IH]; cbn [app]; intros H Ha Hb; [destruct Ha|]. inversion H as [|? ? Hn Hd]; subst.
  destruct Ha as [->|Ha]; [apply Hn, in_or_app; right; exact Hb|exact (IH Hd Ha Hb)].
Qed.

Lemma nodup_app_r {X} (a b : list X) : NoDup (a ++ b) -> NoDup b.
Proof. induction a as [|y a IH]; cbn [app]; intros H; [exact H|]. inversion H; auto. Qed.
Lemma nodup_app_l {X} (a b : list X) : NoDup (a ++ b) -> NoDup a.
Proof.
  induction a as [|y a IH]; cbn [app]; intros H; [constructor|]. inversion H as [|? ? Hn Hd]; subst.
  constructor; [intros Hy; apply Hn, in_or_app; left; exact Hy|exact (IH Hd)].
Qed.

Lemma set_diff_in cs l x : In x (set_diff cs l) <-> In x cs /\ ~ In x l.
Proof. unfold set_diff. rewrite filter_In, negb_true_iff, cmem_false. reflexivity. Qed.

Lemma ballot_pairs_in cs r u l : In (u, l) (ballot_pairs cs r) ->
  In u (flatten r) /\ (In l (flatten r) \/ In l cs) /\ (NoDup (flatten r) -> u <> l).
Proof.
  rewrite ballot_pairs_eq, in_app_iff, pairs_from_in, cross_in, set_diff_in.
  intros [(r1 & i & r2 & -> & Hu & Hl)|(Hu & Hl & Hn)].
  - rewrite flatten_app, flatten_cons. split; [|split].
    + apply in_or_app. right. apply in_or_app. left. exact Hu.
    + left. apply in_or_app. right. apply in_or_app. right. exact Hl.
    + intros Hnd E. subst l. apply nodup_app_r in Hnd. exact (nodup_app_disj _ _ u Hnd Hu Hl).
  - split; [exact Hu|]. split; [right; exact Hl|]. intros _ E. subst l. exact (Hn Hu).
Qed.

Lemma key_cands votes r w a b : In (r, w) votes -> In (a, b) (ballot_pairs (cands_of votes) r) ->
  In a (candidates (pairwise votes)) /\ In b (candidates (pairwise votes)).
Proof.
  intros Hin Hp. assert (Hk : In (a, b) (map fst (pairwise votes))) by (apply pairwise_keys; exists r, w; auto).
  apply in_map_iff in Hk. destruct Hk as ([q n] & E & Hk). cbn [fst] in E. subst q.
  split; apply (candidates_spec (pairwise votes)); exists (a, b), n; cbn [fst snd]; auto.
Qed.

Lemma candidates_pairwise_in votes c : In c (candidates (pairwise votes)) -> In c (cands_of votes).
Proof.
  intros H. apply (candidates_spec (pairwise votes)) in H. destruct H as ([u l] & n & Hin & Hc). cbn [fst snd] in Hc.
  assert (Hk : In (u, l) (map fst (pairwise votes))) by (apply in_map_iff; exists ((u, l), n); auto).
  apply pairwise_keys in Hk. destruct Hk as (r & w & Hr & Hp). apply ballot_pairs_in in Hp. destruct Hp as (Hu & Hl & _).
  destruct Hc as [->| ->].
  - apply cands_of_spec. exists r, w. auto.
  - destruct Hl as [Hl|Hl]; [apply cands_of_spec; exists r, w; auto|exact Hl].
Qed.

Lemma two_in_length {X} (L : list X) u l : In u L -> In l L -> u <> l -> (2 <= length L)%nat.
Proof.
  destruct L as [|a [|b t]]; cbn [length]; intros Hu Hl Hne; [destruct Hu| |lia].
  destruct Hu as [<-|[]], Hl as [<-|[]]. congruence.
Qed.

Lemma pairwise_two votes : wf_votes votes = true -> pairwise votes <> [] -> (2 <= length (candidates (pairwise votes)))%nat.
Proof.
  intros Hwf Hne. destruct (pairwise votes) as [|[[u l] n] t] eqn:E; [congruence|].
  assert (Hk : In (u, l) (map fst (pairwise votes))) by (rewrite E; left; reflexivity).
  apply pairwise_keys in Hk. destruct Hk as (r & w & Hr & Hp).
  destruct (key_cands votes r w u l Hr Hp) as [Hu Hl]. rewrite E in Hu, Hl.
  apply ballot_pairs_in in Hp. destruct Hp as (_ & _ & Hd).
  apply (two_in_length _ u l Hu Hl). apply Hd. apply (proj1 (wf_votes_spec votes) Hwf r w Hr).
Qed.

Lemma pairwise_cands_two votes c : wf_votes votes = true -> In c (candidates (pairwise votes)) ->
  (2 <= length (candidates (pairwise votes)))%nat.
Proof. intros Hwf Hc. apply pairwise_two; [exact Hwf|]. intros E. rewrite E in Hc. exact Hc. Qed.

(* every candidate of a profile whose pairwise dictionary is not empty is a candidate of the dictionary *)
Lemma cands_in_pairwise votes x : wf_votes votes = true -> pairwise votes <> [] -> In x (cands_of votes) ->
  In x (candidates (pairwise votes)).
Proof.
  intros Hwf Hne Hx. destruct (pairwise votes) as [|[[u l] n] t] eqn:E; [congruence|]. rewrite <- E. clear Hne.
  assert (Hk : In (u, l) (map fst (pairwise votes))) by (rewrite E; left; reflexivity).
  apply pairwise_keys in Hk. destruct Hk as (r0 & w0 & Hr & Hp).
  set (cs := cands_of votes) in *.
  assert (Hsuff : forall a b, In (a, b) (ballot_pairs cs r0) -> x = a \/ x = b -> In x (candidates (pairwise votes))).
  { intros a b Hab [->| ->]; apply (key_cands votes r0 w0 _ _ Hr Hab). }
  pose proof (ballot_pairs_in cs r0 u l Hp) as (Hu & _ & _).
  destruct (in_dec Pos.eq_dec x (flatten r0)) as [Hin|Hout].
  - rewrite ballot_pairs_eq, in_app_iff, pairs_from_in, cross_in, set_diff_in in Hp.
    destruct Hp as [(r1 & i & r2 & Er & Hui & Hl)|(_ & Hl & Hn)].
    + subst r0. rewrite flatten_app, flatten_cons in Hin. apply in_app_or in Hin. destruct Hin as [Hin|Hin].
      * unfold flatten in Hin. apply in_flat_map in Hin. destruct Hin as (j & Hj & Hxj).
        apply in_split in Hj. destruct Hj as (r1a & r1b & ->).
        apply (Hsuff x u); [|left; reflexivity]. rewrite ballot_pairs_eq. apply in_or_app. left. apply pairs_from_in.
        exists r1a, j, (r1b ++ i :: r2). split; [rewrite <- app_assoc; reflexivity|]. split; [exact Hxj|].
        rewrite flatten_app, flatten_cons. apply in_or_app. right. apply in_or_app. left. exact Hui.
      * apply in_app_or in Hin. destruct Hin as [Hin|Hin].
        -- apply (Hsuff x l); [|left; reflexivity]. rewrite ballot_pairs_eq. apply in_or_app. left. apply pairs_from_in.
           exists r1, i, r2. auto.
        -- apply (Hsuff u x); [|right; reflexivity]. rewrite ballot_pairs_eq. apply in_or_app. left. apply pairs_from_in.
           exists r1, i, r2. auto.
    + apply (Hsuff x l); [|left; reflexivity]. rewrite ballot_pairs_eq. apply in_or_app. right. apply cross_in. split; [exact Hin|].
      apply set_diff_in. auto.
  - apply (Hsuff u x); [|right; reflexivity]. rewrite ballot_pairs_eq. apply in_or_app. right. apply cross_in. split; [exact Hu|].
    apply set_diff_in. auto.
Qed.

(* ------------------------------------------------------------------ ballot equality (tuples with frozensets) *)
Lemma item_eqb_mem i j : item_eqb i j = true -> forall x, In x (members i) <-> In x (members j).
Proof.
  destruct i as [c|l], j as [d|m]; cbn [item_eqb members]; try discriminate.
  - intros H x. apply ceqb_eq in H. subst. reflexivity.
  - intros H x. apply andb_true_iff in H. destruct H as [H1 H2]. rewrite forallb_forall in H1, H2.
    split; intros Hx; [apply cmem_iff, H1, Hx|apply cmem_iff, H2, Hx].
Qed.
Lemma item_eqb_refl i : item_eqb i i = true.
Proof.
  destruct i as [c|l]; cbn [item_eqb]; [apply ceqb_refl|].
  assert (H : forallb (fun c => cmem c l) l = true) by (apply forallb_forall; intros x Hx; apply cmem_iff, Hx).
  rewrite H. reflexivity.
Qed.
Lemma ballot_eqb_refl b : ballot_eqb b b = true.
Proof. induction b as [|i b IH]; cbn [ballot_eqb]; [reflexivity|]. rewrite item_eqb_refl, IH. reflexivity. Qed.

Lemma ballot_eqb_mem : forall b b', ballot_eqb b b' = true -> forall x, In x (flatten b) <-> In x (flatten b').
Proof.
  induction b as [|i b IH]; intros [|j b'] H x; cbn [ballot_eqb] in H; try discriminate; [reflexivity|].
  apply andb_true_iff in H. destruct H as [H1 H2]. rewrite !flatten_cons, !in_app_iff, (item_eqb_mem i j H1 x), (IH b' H2 x). reflexivity.
Qed.

Lemma cmem_ext l m y : (forall x, In x l <-> In x m) -> cmem y l = cmem y m.
Proof.
  intros H. destruct (cmem y m) eqn:E.
  - apply cmem_iff. apply H. apply cmem_iff. exact E.
  - apply cmem_false. intros Hy. apply H in Hy. apply cmem_iff in Hy. congruence.
Qed.
Lemma cnt_ext l m y : NoDup l -> NoDup m -> (forall x, In x l <-> In x m) -> cnt y l = cnt y m.
Proof. intros Hl Hm H. rewrite (cnt_nodup y l Hl), (cnt_nodup y m Hm), (cmem_ext l m y H). reflexivity. Qed.

Lemma ballot_eqb_above : forall b b', ballot_eqb b b' = true -> NoDup (flatten b) -> NoDup (flatten b') ->
  forall x y, above b x y = above b' x y.
Proof.
  induction b as [|i b IH]; intros [|j b'] H Hn Hn' x y; cbn [ballot_eqb] in H; try discriminate; [reflexivity|].
  apply andb_true_iff in H. destruct H as [H1 H2]. rewrite flatten_cons in Hn, Hn'. cbn [above].
  rewrite (IH b' H2 (nodup_app_r _ _ Hn) (nodup_app_r _ _ Hn') x y).
  rewrite (cnt_ext (members i) (members j) x (nodup_app_l _ _ Hn) (nodup_app_l _ _ Hn') (item_eqb_mem i j H1)).
  rewrite (cnt_ext (flatten b) (flatten b') y (nodup_app_r _ _ Hn) (nodup_app_r _ _ Hn') (ballot_eqb_mem b b' H2)).
  reflexivity.
Qed.

Lemma ballot_eqb_coef b b' : ballot_eqb b b' = true -> NoDup (flatten b) -> NoDup (flatten b') ->
  forall cs x y, coef cs b x y = coef cs b' x y.
Proof.
  intros H Hn Hn' cs x y. unfold coef. rewrite (ballot_eqb_above b b' H Hn Hn' x y).
  rewrite (cnt_ext (flatten b) (flatten b') x Hn Hn' (ballot_eqb_mem b b' H)).
  unfold set_diff. rewrite !cnt_filter, (cmem_ext (flatten b) (flatten b') y (ballot_eqb_mem b b' H)). reflexivity.
Qed.

(* ------------------------------------------------------------------ RankedSubsetter.subset *)
Definition sub_item (S : list C) (i : item) : list item :=
  match i with
  | IP c => if cmem c S then [IP c] else []
  | IS l => match filter (fun c => cmem c S) l with
            | [] => []
            | [c] => [IP c]
            | l' => [IS l']
            end
  end.
Lemma sub_ranked_cons S i t : sub_ranked S (i :: t) = sub_item S i ++ sub_ranked S t.
Proof. reflexivity. Qed.

Lemma sub_item_cases S i :
  (sub_item S i = [] /\ filter (fun c => cmem c S) (members i) = []) \/
  (exists i', sub_item S i = [i'] /\ members i' = filter (fun c => cmem c S) (members i)).
Proof.
  destruct i as [c|l]; cbn [sub_item members filter].
  - destruct (cmem c S); [right; exists (IP c); auto|left; auto].
  - destruct (filter (fun c => cmem c S) l) as [|c [|d t]]; [left; auto|right; exists (IP c); auto|right; exists (IS (c :: d :: t)); auto].
Qed.

Lemma flatten_sub S r : flatten (sub_ranked S r) = filter (fun c => cmem c S) (flatten r).
Proof.
  induction r as [|i t IH]; [reflexivity|]. rewrite sub_ranked_cons, flatten_app, flatten_cons, filter_app, IH. f_equal.
  destruct (sub_item_cases S i) as [[E1 E2]|(i' & E1 & E2)]; rewrite E1; [rewrite E2; reflexivity|].
  cbn [flatten flat_map]. rewrite app_nil_r. exact E2.
Qed.

Lemma above_sub S r a b : cmem a S = true -> cmem b S = true -> above (sub_ranked S r) a b = above r a b.
Proof.
  intros Ha Hb. induction r as [|i t IH]; [reflexivity|]. rewrite sub_ranked_cons. cbn [above].
  assert (Hc : cnt a (filter (fun c => cmem c S) (members i)) = cnt a (members i)) by (rewrite cnt_filter, Ha; reflexivity).
  destruct (sub_item_cases S i) as [[E1 E2]|(i' & E1 & E2)]; rewrite E1; cbn [app above].
  - rewrite E2 in Hc. cbn in Hc. rewrite <- Hc, IH. lia.
  - rewrite E2, Hc, IH, flatten_sub, cnt_filter, Hb. reflexivity.
Qed.

Lemma nodup_filter {X} (f : X -> bool) l : NoDup l -> NoDup (filter f l).
Proof. apply NoDup_filter. Qed.

(* ------------------------------------------------------------------ SubsettedVotes.convert *)
Lemma wsum_vadd f v b w :
  (forall b' w', In (b', w') v -> ballot_eqb b b' = true -> f b' = f b) -> wsum f (vadd v b w) = wsum f v + w * f b.
Proof.
  induction v as [|[b' w'] v IH]; intros H; cbn [vadd]; [cbn; lia|].
  destruct (ballot_eqb b b') eqn:E.
  - rewrite !wsum_cons, (H b' w' (or_introl eq_refl) E). lia.
  - rewrite !wsum_cons, IH; [lia|]. intros b2 w2 H2. apply (H b2 w2). right. exact H2.
Qed.
Lemma vadd_keys v b w k : In k (map fst (vadd v b w)) -> k = b \/ In k (map fst v).
Proof.
  induction v as [|[b' w'] v IH]; cbn [vadd]; [intros [<-|[]]; auto|].
  destruct (ballot_eqb b b'); cbn [map fst]; [auto|]. intros [<-|H]; [right; left; reflexivity|]. destruct (IH H); [auto|right; right; assumption].
Qed.
Lemma vadd_keys_mono v b w k : In k (map fst v) -> In k (map fst (vadd v b w)).
Proof.
  induction v as [|[b' w'] v IH]; cbn [vadd]; [intros []|]. destruct (ballot_eqb b b'); cbn [map fst]; [auto|].
  intros [<-|H]; [left; reflexivity|right; apply IH, H].
Qed.
Lemma vadd_keys_has v b w : exists k, In k (map fst (vadd v b w)) /\ ballot_eqb b k = true.
Proof.
  induction v as [|[b' w'] v IH]; cbn [vadd]; [exists b; split; [left; reflexivity|apply ballot_eqb_refl]|].
  destruct (ballot_eqb b b') eqn:E; [exists b'; split; [left; reflexivity|exact E]|].
  destruct IH as (k & Hk & Ek). exists k. split; [right; exact Hk|exact Ek].
Qed.
Lemma vadd_weights v b w : 0 <= w -> (forall k w', In (k, w') v -> 0 <= w') -> forall k w', In (k, w') (vadd v b w) -> 0 <= w'.
Proof.
  intros Hw. induction v as [|[b' w0] v IH]; cbn [vadd]; intros Hv k w'.
  - intros [[= <- <-]|[]]. exact Hw.
  - destruct (ballot_eqb b b').
    + intros [[= <- <-]|H]; [pose proof (Hv b' w0 (or_introl eq_refl)); lia|apply (Hv k w'); right; exact H].
    + intros [[= <- <-]|H]; [apply (Hv b' w0); left; reflexivity|]. apply (IH (fun k w' H => Hv k w' (or_intror H)) k w' H).
Qed.

Definition sub_from (S : list C) (votes acc : rvotes) : rvotes :=
  fold_left (fun acc bw => vadd acc (sub_ranked S (fst bw)) (snd bw)) votes acc.
Lemma sub_from_cons S r w votes acc : sub_from S ((r, w) :: votes) acc = sub_from S votes (vadd acc (sub_ranked S r) w).
Proof. reflexivity. Qed.
Lemma subset_votes_unfold S votes : subset_votes S votes = sub_from S votes [].
Proof. reflexivity. Qed.

Lemma sub_from_keys S votes : forall acc k, In k (map fst (sub_from S votes acc)) ->
  In k (map fst acc) \/ exists r w, In (r, w) votes /\ k = sub_ranked S r.
Proof.
  induction votes as [|[r w] votes IH]; intros acc k H; [left; exact H|]. rewrite sub_from_cons in H.
  destruct (IH _ _ H) as [H1|(r' & w' & H1 & H2)]; [|right; exists r', w'; split; [right; exact H1|exact H2]].
  destruct (vadd_keys _ _ _ _ H1) as [->|H2]; [right; exists r, w; split; [left; reflexivity|reflexivity]|left; exact H2].
Qed.
Lemma sub_from_keys_mono S votes : forall acc k, In k (map fst acc) -> In k (map fst (sub_from S votes acc)).
Proof. induction votes as [|[r w] votes IH]; intros acc k H; [exact H|]. rewrite sub_from_cons. apply IH, vadd_keys_mono, H. Qed.
Lemma sub_from_keys_has S votes : forall acc r w, In (r, w) votes ->
  exists k, In k (map fst (sub_from S votes acc)) /\ ballot_eqb (sub_ranked S r) k = true.
Proof.
  induction votes as [|[r0 w0] votes IH]; intros acc r w H; [destruct H|]. rewrite sub_from_cons. destruct H as [[= -> ->]|H].
  - destruct (vadd_keys_has acc (sub_ranked S r) w) as (k & Hk & Ek). exists k. split; [apply sub_from_keys_mono, Hk|exact Ek].
  - apply (IH _ r w H).
Qed.
Lemma sub_from_weights S votes : (forall r w, In (r, w) votes -> 0 <= w) -> forall acc, (forall k w', In (k, w') acc -> 0 <= w') ->
  forall k w', In (k, w') (sub_from S votes acc) -> 0 <= w'.
Proof.
  induction votes as [|[r w] votes IH]; intros Hw acc H; [exact H|]. rewrite sub_from_cons.
  apply IH; [intros r' w' H'; apply (Hw r' w'); right; exact H'|]. apply vadd_weights; [apply (Hw r w); left; reflexivity|exact H].
Qed.

(* f respects ballot equality among the ballots satisfying G *)
Lemma sub_from_wsum (G : ranked -> Prop) f S votes :
  (forall b b', G b -> G b' -> ballot_eqb b b' = true -> f b' = f b) ->
  (forall r w, In (r, w) votes -> G (sub_ranked S r)) ->
  forall acc, (forall k, In k (map fst acc) -> G k) ->
  wsum f (sub_from S votes acc) = wsum f acc + wsum (fun r => f (sub_ranked S r)) votes.
Proof.
  intros Hf. induction votes as [|[r w] votes IH]; intros HG acc Hacc.
  { change (sub_from S [] acc) with acc. change (wsum (fun r => f (sub_ranked S r)) []) with 0. lia. }
  rewrite sub_from_cons, IH.
  - rewrite wsum_vadd, wsum_cons; [lia|]. intros b' w' Hin E. apply Hf; [apply (HG r w); left; reflexivity| |exact E].
    apply Hacc. apply in_map_iff. exists (b', w'). auto.
  - intros r' w' H'. apply (HG r' w'). right. exact H'.
  - intros k Hk. destruct (vadd_keys _ _ _ _ Hk) as [->|H]; [apply (HG r w); left; reflexivity|apply Hacc, H].
Qed.

Lemma subset_wf S votes : wf_votes votes = true -> wf_votes (subset_votes S votes) = true.
Proof.
  intros Hwf. apply wf_votes_spec. intros k w' Hin. pose proof (proj1 (wf_votes_spec votes) Hwf) as Hv. split.
  - assert (Hk : In k (map fst (subset_votes S votes))) by (apply in_map_iff; exists (k, w'); auto).
    rewrite subset_votes_unfold in Hk. destruct (sub_from_keys _ _ _ _ Hk) as [[]|(r & w & Hr & ->)].
    rewrite flatten_sub. apply nodup_filter. apply (Hv r w Hr).
  - rewrite subset_votes_unfold in Hin. revert Hin. apply sub_from_weights; [intros r w Hr; apply (Hv r w Hr)|intros ? ? []].
Qed.

Lemma subset_cands S votes x : In x (cands_of (subset_votes S votes)) <-> In x S /\ In x (cands_of votes).
Proof.
  rewrite !cands_of_spec. split.
  - intros (k & w' & Hin & Hx).
    assert (Hk : In k (map fst (subset_votes S votes))) by (apply in_map_iff; exists (k, w'); auto).
    rewrite subset_votes_unfold in Hk. destruct (sub_from_keys _ _ _ _ Hk) as [[]|(r & w & Hr & ->)].
    rewrite flatten_sub, filter_In, cmem_iff in Hx. destruct Hx as [Hx HS]. split; [exact HS|exists r, w; auto].
  - intros (HS & r & w & Hr & Hx). destruct (sub_from_keys_has S votes [] r w Hr) as (k & Hk & Ek).
    apply in_map_iff in Hk. destruct Hk as ([k' w'] & E & Hk). cbn [fst] in E. subst k'.
    exists k, w'. split; [exact Hk|]. apply (ballot_eqb_mem _ _ Ek). rewrite flatten_sub, filter_In, cmem_iff. auto.
Qed.

(* restricting the ballots to a set of candidates restricts the pairwise dictionary to that set *)
Theorem subset_restriction S votes a b : wf_votes votes = true -> In a S -> In b S ->
  pget0 (pairwise (subset_votes S votes)) (a, b) = pget0 (pairwise votes) (a, b).
Proof.
  intros Hwf Ha Hb. rewrite !pairwise_get. set (cs' := cands_of (subset_votes S votes)). set (cs := cands_of votes).
  pose proof (proj1 (wf_votes_spec votes) Hwf) as Hv.
  rewrite subset_votes_unfold, (sub_from_wsum (fun k => NoDup (flatten k)) (fun r => coef cs' r a b) S votes).
  - cbn [wsum fold_right]. rewrite Z.add_0_l. apply wsum_ext. intros r w Hr. unfold coef.
    apply cmem_iff in Ha, Hb. rewrite (above_sub S r a b Ha Hb), flatten_sub. unfold set_diff. rewrite !cnt_filter, Ha.
    assert (E1 : cmem b (filter (fun c => cmem c S) (flatten r)) = cmem b (flatten r)).
    { destruct (cmem b (flatten r)) eqn:E.
      - apply cmem_iff. apply filter_In. split; [apply cmem_iff, E|exact Hb].
      - apply cmem_false. intros H. apply filter_In in H. destruct H as [H _]. apply cmem_iff in H. congruence. }
    rewrite E1. destruct (negb (cmem b (flatten r))); [|reflexivity]. f_equal.
    rewrite (cnt_nodup b cs' (cands_of_nodup _)), (cnt_nodup b cs (cands_of_nodup _)).
    assert (E2 : cmem b cs' = cmem b cs).
    { destruct (cmem b cs) eqn:E.
      - apply cmem_iff. apply subset_cands. split; [apply cmem_iff, Hb|apply cmem_iff, E].
      - apply cmem_false. intros H. apply subset_cands in H. destruct H as [_ H]. apply cmem_iff in H. unfold cs in E. congruence. }
    rewrite E2. reflexivity.
  - intros k k' Hk Hk' E. symmetry. apply ballot_eqb_coef; assumption.
  - intros r w Hr. rewrite flatten_sub. apply nodup_filter, (Hv r w Hr).
  - intros k [].
Qed.

(* ------------------------------------------------------------------ a Condorcet winner is elected at once *)
Lemma pairwise_cw_winner votes c : wf_votes votes = true -> is_cw (pairwise votes) c -> condorcet_winner (pairwise votes) = [c].
Proof.
  intros Hwf Hcw. pose proof Hcw as [Hc _].
  apply (cw_spec (pairwise votes) (pairwise_nodup votes) (pairwise_nonneg votes Hwf) (pairwise_cands_two votes c Hwf Hc)). exact Hcw.
Qed.

Lemma firstn_in {X} (l : list X) : forall n x, In x (firstn n l) -> In x l.
Proof. induction l as [|y l IH]; intros [|n] x H; cbn [firstn] in H; try destruct H as [<-|H]; try (left; reflexivity); try destruct H. right. exact (IH n x H). Qed.
Lemma firstn_nodup {X} (l : list X) : forall n, NoDup l -> NoDup (firstn n l).
Proof.
  induction l as [|x l IH]; intros [|n] H; cbn [firstn]; try constructor.
  - inversion H as [|? ? Hn Hd]; subst. intros Hx. apply Hn. apply (firstn_in l n). exact Hx.
  - inversion H; subst. apply IH. assumption.
Qed.
Lemma smith_nodup v : NoDup (smith_schwartz v true).
Proof. destruct (smith_schwartz_closed v true) as (-> & _). apply firstn_nodup, order_nodup. Qed.

Lemma smith_cw votes c : wf_votes votes = true -> is_cw (pairwise votes) c -> smith_schwartz (pairwise votes) true = [c].
Proof.
  intros Hwf Hcw. pose proof Hcw as [Hc Hall]. pose proof (pairwise_cands_two votes c Hwf Hc) as H2.
  destruct (smith_dominating (pairwise votes) H2) as [Hne _].
  assert (Hincl : incl (smith_schwartz (pairwise votes) true) [c]).
  { apply (smith_minimal (pairwise votes) (pairwise_nonneg votes Hwf) H2 [c]); [discriminate|].
    intros a b [<-|[]] Hb Hnb. apply Hall; [exact Hb|]. intros ->. apply Hnb. left. reflexivity. }
  pose proof (smith_nodup (pairwise votes)) as Hnd.
  destruct (smith_schwartz (pairwise votes) true) as [|x [|y t]]; [congruence| |].
  - destruct (Hincl x (or_introl eq_refl)) as [<-|[]]. reflexivity.
  - destruct (Hincl x (or_introl eq_refl)) as [<-|[]]. destruct (Hincl y (or_intror (or_introl eq_refl))) as [<-|[]].
    inversion Hnd as [|? ? Hn _]; subst. exfalso. apply Hn. left. reflexivity.
Qed.

Lemma tideman_tier_unfold fx sc f round : round <> [] ->
  tideman_tier fx sc (S f) round =
  match winner_set sc round with
  | [w] => inl (Cand w)
  | sset =>
      let round1 := subset_votes sset round in
      match eliminate_one round1 with
      | None => inr H_index
      | Some rem =>
          if fx && has_tie rem then inr H_nie
          else match rem with
               | [r] => inl r
               | _ => tideman_tier fx sc f (subset_votes (plain rem) round1)
               end
      end
  end.
Proof. destruct round; [congruence|reflexivity]. Qed.

(* with a pairwise contest the winner set is the Smith set, whether or not the fallback is there *)
Lemma winner_set_smith sc round : smith_schwartz (pairwise round) true <> [] ->
  winner_set sc round = smith_schwartz (pairwise round) true.
Proof. unfold winner_set. destruct (smith_schwartz (pairwise round) true); [congruence|reflexivity]. Qed.

Lemma smith_nonempty votes : wf_votes votes = true -> pairwise votes <> [] -> smith_schwartz (pairwise votes) true <> [].
Proof. intros Hwf Hne. exact (proj1 (smith_dominating (pairwise votes) (pairwise_two votes Hwf Hne))). Qed.

Lemma winner_set_contest sc round : wf_votes round = true -> pairwise round <> [] ->
  winner_set sc round = smith_schwartz (pairwise round) true.
Proof. intros Hwf Hne. apply winner_set_smith, smith_nonempty; assumption. Qed.

Lemma qv_in votes r w : In (r, w) votes -> In (r, inject_Z w) (qv votes).
Proof. intros H. unfold qv. apply in_map_iff. exists (r, w). auto. Qed.

Lemma cands_all_ranked votes x : In x (cands_of votes) -> In x (all_ranked_candidates (qv votes)).
Proof.
  intros H. apply cands_of_spec in H. destruct H as (r & w & Hr & Hx). unfold flatten in Hx. apply in_flat_map in Hx.
  destruct Hx as (it & Hit & Hx). exact (all_ranked_in (qv votes) r (inject_Z w) it x (qv_in votes r w Hr) Hit Hx).
Qed.

(* ------------------------------------------------------------------ all_ranked_candidates *)
Lemma nodup_snoc {X} (l : list X) c : NoDup l -> ~ In c l -> NoDup (l ++ [c]).
Proof.
  induction l as [|x l IH]; cbn [app]; intros Hn Hc; [constructor; [intros []|constructor]|].
  inversion Hn as [|? ? Hx Hl]; subst. constructor.
  - intros H. apply in_app_or in H. destruct H as [H|[<-|[]]]; [exact (Hx H)|apply Hc; left; reflexivity].
  - apply IH; [exact Hl|]. intros H. apply Hc. right. exact H.
Qed.
Section ARC.
  Variable votes : list (ballot * Q).
  Definition ranked_somewhere (x : C) : Prop := exists b w it, In (b, w) votes /\ In it b /\ In x (members it).
  Definition arc_good (acc : list C) : Prop := NoDup acc /\ forall x, In x acc -> ranked_somewhere x.

  Lemma addall_good l : forall acc, arc_good acc -> (forall x, In x l -> ranked_somewhere x) ->
    arc_good (fold_left (fun acc c => if cmem c acc then acc else acc ++ [c]) l acc).
  Proof.
    induction l as [|c l IH]; intros acc Hg Hl; cbn [fold_left]; [exact Hg|].
    apply IH; [|intros x Hx; apply Hl; right; exact Hx].
    destruct (cmem c acc) eqn:E; [exact Hg|]. destruct Hg as [Hn Hr]. split.
    - apply nodup_snoc; [exact Hn|apply cmem_false, E].
    - intros x Hx. apply in_app_or in Hx. destruct Hx as [Hx|[<-|[]]]; [apply Hr, Hx|apply Hl; left; reflexivity].
  Qed.

  Lemma mid_good i (vs : list (ballot * Q)) : incl vs votes -> forall acc, arc_good acc ->
    arc_good (fold_left (fun acc (bw : ballot * Q) => match nth_error (fst bw) i with
                 | Some it => fold_left (fun acc c => if cmem c acc then acc else acc ++ [c]) (members it) acc
                 | None => acc end) vs acc).
  Proof.
    induction vs as [|[b w] vs IH]; intros Hi acc Hg; cbn [fold_left]; [exact Hg|].
    apply IH; [intros y Hy; apply Hi; right; exact Hy|]. cbn [fst].
    destruct (nth_error b i) as [it|] eqn:E; [|exact Hg]. apply addall_good; [exact Hg|].
    intros x Hx. exists b, w, it. split; [apply Hi; left; reflexivity|]. split; [apply (nth_error_In _ _ E)|exact Hx].
  Qed.

  Lemma arc_good_all : arc_good (all_ranked_candidates votes).
  Proof.
    unfold all_ranked_candidates. cbv zeta.
    assert (H : forall idx acc, arc_good acc -> arc_good (fold_left (fun acc i =>
      fold_left (fun acc (bw : ballot * Q) => match nth_error (fst bw) i with
                 | Some it => fold_left (fun acc c => if cmem c acc then acc else acc ++ [c]) (members it) acc
                 | None => acc end) votes acc) idx acc)).
    { induction idx as [|i idx IH]; intros acc Hg; cbn [fold_left]; [exact Hg|]. apply IH. apply mid_good; [apply incl_refl|exact Hg]. }
    apply H. split; [constructor|intros x []].
  Qed.
End ARC.

Lemma arc_nodup votes : NoDup (all_ranked_candidates (qv votes)).
Proof. apply (arc_good_all (qv votes)). Qed.

Lemma arc_iff votes x : In x (all_ranked_candidates (qv votes)) <-> In x (cands_of votes).
Proof.
  split; [|apply cands_all_ranked]. intros H. apply (proj2 (arc_good_all (qv votes))) in H.
  destruct H as (b & w & it & Hb & Hit & Hx). apply cands_of_spec. unfold qv in Hb. apply in_map_iff in Hb.
  destruct Hb as ([b' w'] & [= <- _] & Hb). exists b', w'. split; [exact Hb|]. unfold flatten. apply in_flat_map. exists it. auto.
Qed.

(* a pairwise contest needs two candidates on the ballots *)
Lemma arc_two votes : wf_votes votes = true -> pairwise votes <> [] -> (2 <= length (all_ranked_candidates (qv votes)))%nat.
Proof.
  intros Hwf Hne. etransitivity; [exact (pairwise_two votes Hwf Hne)|].
  apply NoDup_incl_length; [apply candidates_NoDup|]. intros x Hx. apply arc_iff, candidates_pairwise_in, Hx.
Qed.

(* Benham.get_condorcet_winner with two or more candidates on the ballots: CondorcetWinner's answer, repaired or not *)
Lemma benham_cw_two sc cur : (2 <= length (all_ranked_candidates (qv cur)))%nat -> benham_cw sc cur = condorcet_winner (pairwise cur).
Proof. unfold benham_cw. destruct (all_ranked_candidates (qv cur)) as [|x [|y t]]; cbn [length]; intros H; try lia; reflexivity. Qed.

Theorem cw_benham fx sc votes c : wf_votes votes = true -> is_cw (pairwise votes) c -> benham fx sc votes = H_ok [Cand c].
Proof.
  intros Hwf Hcw. pose proof Hcw as [Hc _].
  assert (Hne : pairwise votes <> []) by (intros E; rewrite E in Hc; exact Hc).
  unfold benham. cbn [benham_loop]. rewrite (benham_cw_two sc votes (arc_two votes Hwf Hne)), (pairwise_cw_winner votes c Hwf Hcw). reflexivity.
Qed.

Theorem cw_tideman fx sc tr votes c : wf_votes votes = true -> is_cw (pairwise votes) c -> tideman_alt fx sc tr votes 1 = H_ok [Cand c].
Proof.
  intros Hwf Hcw. pose proof Hcw as [Hc _]. unfold tideman_alt. cbn [tideman_loop]. unfold tier_fuel_of.
  assert (Hne : votes <> []) by (intros ->; exact Hc).
  assert (Hne2 : pairwise votes <> []) by (intros E; rewrite E in Hc; exact Hc).
  rewrite (tideman_tier_unfold fx sc _ votes Hne), (winner_set_contest sc votes Hwf Hne2), (smith_cw votes c Hwf Hcw).
  assert (Hm : cmem c (all_ranked_candidates (qv votes)) = true).
  { apply cmem_iff, cands_all_ranked, candidates_pairwise_in, Hc. }
  rewrite Hm. reflexivity.
Qed.

(* ------------------------------------------------------------------ eliminate_one *)
Lemma qv_nonneg votes : wf_votes votes = true -> forall b w, In (b, w) (qv votes) -> (0 <= w)%Q.
Proof.
  intros Hwf b w H. unfold qv in H. apply in_map_iff in H. destruct H as ([b' w'] & [= <- <-] & H).
  destruct (proj1 (wf_votes_spec votes) Hwf b' w' H) as [_ Hw]. change 0%Q with (inject_Z 0). rewrite <- Zle_Qle. exact Hw.
Qed.

Lemma totals_keys votes : wf_votes votes = true ->
  map fst (some_totals (totals (initial_allocation (qv votes)))) = all_ranked_candidates (qv votes).
Proof.
  intros Hwf. change (some_totals (totals (initial_allocation (qv votes)))) with (in_play (initial_allocation (qv votes))).
  rewrite in_play_keys.
  assert (Hne : [1%positive] <> []) by discriminate.
  exact (proj1 (proj2 (proj2 (initial_psc [1%positive] (qv votes) [] Hne (qv_nonneg votes Hwf))))).
Qed.

Lemma plain_map_cand l : plain (map Cand l) = l.
Proof. induction l as [|x l IH]; cbn; [reflexivity|]. f_equal. exact IH. Qed.
Lemma has_tie_app (a b : list (res C)) : has_tie (a ++ b) = has_tie a || has_tie b.
Proof. unfold has_tie. apply existsb_app. Qed.

Lemma gnb_plain (tot : list (C * Q)) n : NoDup (map fst tot) -> (1 <= n)%nat -> (n < length tot)%nat ->
  has_tie (get_n_best Qle_bool tot n) = false ->
  exists R, get_n_best Qle_bool tot n = map Cand R /\ NoDup R /\ incl R (map fst tot) /\ length R = n.
Proof.
  intros Hnd H1 Hlt Ht.
  destruct (get_n_best_spec Qle_bool Qle_bool_total Qle_bool_trans tot n H1) as [_ H]. specialize (H Hlt).
  destruct H as (above & level & below & thr & Hperm & _ & _ & _ & _ & Hpos & Heq & Htie).
  destruct (Nat.eq_dec (length above + length level) n) as [E|E].
  - specialize (Heq E). exists (map fst (above ++ level)). split; [rewrite Heq, map_map; reflexivity|].
    assert (Hp : Permutation (map fst ((above ++ level) ++ below)) (map fst tot)) by (apply Permutation_map; rewrite <- app_assoc; exact Hperm).
    rewrite map_app in Hp. split; [|split].
    + apply (nodup_app_l _ (map fst below)). apply (Permutation_NoDup (Permutation_sym Hp)). exact Hnd.
    + intros x Hx. apply (Permutation_in _ Hp). apply in_or_app. left. exact Hx.
    + rewrite map_length, app_length. exact E.
  - exfalso. assert (Hgt : (n < length above + length level)%nat) by lia. specialize (Htie Hgt). rewrite Htie, has_tie_app in Ht.
    destruct (n - length above)%nat as [|k] eqn:Ek; [lia|]. cbn [repeat has_tie existsb] in Ht. rewrite orb_true_r in Ht. discriminate.
Qed.

Lemma elim_spec cur rem : wf_votes cur = true -> eliminate_one cur = Some rem -> has_tie rem = false ->
  exists R, rem = map Cand R /\ NoDup R /\ incl R (all_ranked_candidates (qv cur)) /\
            length R = (length (all_ranked_candidates (qv cur)) - 1)%nat.
Proof.
  intros Hwf He Ht. unfold eliminate_one in He. pose proof (totals_keys cur Hwf) as Hk.
  set (K := all_ranked_candidates (qv cur)) in *. set (tot := some_totals (totals (initial_allocation (qv cur)))) in *.
  destruct (length K) as [|[|m]] eqn:El; [discriminate| |].
  - injection He as <-. exists []. repeat split; [constructor|intros x []].
  - injection He as <-.
    assert (Hlen : length tot = S (S m)) by (rewrite <- El, <- Hk, map_length; reflexivity).
    destruct (gnb_plain tot (S m)) as (R & E1 & E2 & E3 & E4); [rewrite Hk; apply arc_nodup|lia|lia|exact Ht|].
    exists R. split; [exact E1|]. split; [exact E2|]. split; [rewrite <- Hk; exact E3|]. rewrite E4. lia.
Qed.

(* at most one candidate is dropped *)
Lemma drop_one (R K : list C) x y : NoDup R -> incl R K -> (length R = length K - 1)%nat ->
  In x K -> In y K -> ~ In x R -> ~ In y R -> x = y.
Proof.
  intros Hn Hi Hl Hx Hy Hnx Hny. destruct (Pos.eq_dec x y) as [E|E]; [exact E|exfalso].
  assert (Hn2 : NoDup (x :: y :: R)).
  { constructor; [intros [H|H]; [exact (E (eq_sym H))|exact (Hnx H)]|]. constructor; assumption. }
  assert (Hi2 : incl (x :: y :: R) K) by (intros z [<-|[<-|Hz]]; auto).
  pose proof (NoDup_incl_length Hn2 Hi2) as H. cbn [length] in H. destruct K; [destruct Hx|]. cbn [length] in *. lia.
Qed.

(* ------------------------------------------------------------------ Tideman alternative stays inside the Smith set *)
Lemma smith_in_cands v x : In x (smith_schwartz v true) -> In x (candidates v).
Proof.
  destruct (le_lt_dec 2 (length (candidates v))) as [H2|H2]; [apply (smith_subset v H2)|].
  assert (Hc : complete v = []).
  { unfold complete. destruct (candidates v) as [|c [|d t]]; [reflexivity| |cbn [length] in H2; lia].
    cbn [flat_map]. rewrite ceqb_refl. reflexivity. }
  unfold smith_schwartz. rewrite Hc. cbn. intros [].
Qed.

Lemma smith_empty : smith_schwartz [] true = [].
Proof. reflexivity. Qed.

(* the winner set of a round consists of candidates of the round *)
Lemma winner_set_cands sc round x : In x (winner_set sc round) -> In x (cands_of round).
Proof.
  unfold winner_set. destruct (smith_schwartz (pairwise round) true) as [|s t] eqn:E.
  - destruct sc; [apply arc_iff|intros []].
  - intros H. apply candidates_pairwise_in, smith_in_cands. rewrite E. exact H.
Qed.

Lemma tier_step_in fx sc T f round w : wf_votes round = true ->
  tideman_tier fx sc (S f) round = inl (Cand w) ->
  (forall x, In x (winner_set sc round) -> In x T) ->
  (forall round', wf_votes round' = true -> (forall x, In x (cands_of round') -> In x T) ->
                  tideman_tier fx sc f round' = inl (Cand w) -> In w T) ->
  In w T.
Proof.
  intros Hwf H HS IH.
  assert (Hne : round <> []) by (intros ->; discriminate H).
  rewrite (tideman_tier_unfold fx sc f round Hne) in H.
  set (sset := winner_set sc round) in *.
  assert (Hcase : (exists s, sset = [s]) \/ (forall s, sset <> [s])).
  { destruct sset as [|s [|s2 ss]]; [right; intros s; discriminate|left; exists s; reflexivity|right; intros s0; discriminate]. }
  destruct Hcase as [(s & Es)|Hn].
  - rewrite Es in H. injection H as <-. apply HS. rewrite Es. left. reflexivity.
  - set (round1 := subset_votes sset round) in *.
    assert (H' : match eliminate_one round1 with
                 | None => inr H_index
                 | Some rem => if fx && has_tie rem then inr H_nie
                               else match rem with [r] => inl r | _ => tideman_tier fx sc f (subset_votes (plain rem) round1) end
                 end = @inl (res C) hres (Cand w)).
    { destruct sset as [|s [|s2 ss]]; [exact H|exfalso; apply (Hn s); reflexivity|exact H]. }
    clear H. pose proof (subset_wf sset round Hwf) as Hwf1. fold round1 in Hwf1.
    assert (HT1 : forall x, In x (cands_of round1) -> In x T).
    { intros x Hx. apply subset_cands in Hx. apply HS. apply Hx. }
    destruct (eliminate_one round1) as [rem|] eqn:Ee; [|discriminate].
    destruct (fx && has_tie rem); [discriminate|].
    destruct rem as [|r [|r2 rr]].
    + refine (IH _ (subset_wf _ _ Hwf1) _ H'). intros x Hx. apply subset_cands in Hx. apply HT1, Hx.
    + injection H' as ->. destruct (elim_spec round1 [Cand w] Hwf1 Ee eq_refl) as (R & E1 & _ & E3 & _).
      destruct R as [|x [|y R]]; try discriminate. injection E1 as <-. apply HT1. apply arc_iff. apply E3. left. reflexivity.
    + refine (IH _ (subset_wf _ _ Hwf1) _ H'). intros x Hx. apply subset_cands in Hx. apply HT1, Hx.
Qed.

Lemma tier_in fx sc T : forall fuel round w, wf_votes round = true -> (forall x, In x (cands_of round) -> In x T) ->
  tideman_tier fx sc fuel round = inl (Cand w) -> In w T.
Proof.
  induction fuel as [|f IH]; intros round w Hwf HT H.
  - destruct round; discriminate H.
  - apply (tier_step_in fx sc T f round w Hwf H).
    + intros x Hx. apply HT. apply (winner_set_cands sc round x Hx).
    + intros round' Hwf' HT' H'. exact (IH round' w Hwf' HT' H').
Qed.

(* the winner of a tier belongs to the winner set of the tier's first round *)
Lemma tier_in_winner_set fx sc fuel round w : wf_votes round = true ->
  tideman_tier fx sc fuel round = inl (Cand w) -> In w (winner_set sc round).
Proof.
  intros Hwf H. destruct fuel as [|f]; [destruct round; discriminate H|].
  apply (tier_step_in fx sc _ f round w Hwf H); [auto|].
  intros round' Hwf' HT' H'. exact (tier_in fx sc _ f round' w Hwf' HT' H').
Qed.

Lemma tier_not_ok fx sc : forall fuel round r, tideman_tier fx sc fuel round <> inr (H_ok r).
Proof.
  induction fuel as [|f IH]; intros round r; [destruct round; discriminate|].
  destruct round as [|bw t]; [discriminate|]. rewrite tideman_tier_unfold by discriminate.
  set (round := bw :: t) in *. clearbody round.
  assert (Hgen : forall sset, match eliminate_one (subset_votes sset round) with
                 | None => inr H_index
                 | Some rem => if fx && has_tie rem then inr H_nie
                               else match rem with [r0] => inl r0 | _ => tideman_tier fx sc f (subset_votes (plain rem) (subset_votes sset round)) end
                 end <> inr (H_ok r)).
  { intros sset. destruct (eliminate_one (subset_votes sset round)) as [rem|]; [|discriminate].
    destruct (fx && has_tie rem); [discriminate|]. destruct rem as [|r0 [|r1 rr]]; [apply IH|discriminate|apply IH]. }
  destruct (winner_set sc round) as [|s [|s2 ss]]; [apply Hgen|discriminate|apply Hgen].
Qed.

(* ------------------------------------------------------------------ the tier loop of TidemanAlternative.evaluate *)
Lemma tideman_loop_S fx sc tr k tv elig n acc : tideman_loop fx sc tr (S k) tv elig n acc =
  match tideman_tier fx sc (tier_fuel_of tv) tv with
  | inr e => e
  | inl (TieR _) => H_key
  | inl (Cand w) =>
      if cmem w elig then
        if Nat.eqb (length (acc ++ [Cand w])) n || (match filter (fun c => negb (ceqb c w)) elig with [] => true | _ => false end)
        then H_ok (acc ++ [Cand w])
        else if tr then tideman_loop fx sc tr k (subset_votes (filter (fun c => negb (ceqb c w)) elig) tv)
                                      (filter (fun c => negb (ceqb c w)) elig) n (acc ++ [Cand w])
        else H_type
      else H_key
  end.
Proof. reflexivity. Qed.

(* an answer extends the winners already listed *)
Lemma tideman_loop_prefix fx sc tr n : forall k tv elig acc r,
  tideman_loop fx sc tr k tv elig n acc = H_ok r -> exists r', r = acc ++ r'.
Proof.
  induction k as [|k IH]; intros tv elig acc r H; [discriminate H|]. rewrite tideman_loop_S in H.
  destruct (tideman_tier fx sc (tier_fuel_of tv) tv) as [[w|l]|e] eqn:Et.
  - destruct (cmem w elig); [|discriminate].
    destruct (Nat.eqb _ n || _).
    + injection H as <-. exists [Cand w]. reflexivity.
    + destruct tr; [|discriminate]. destruct (IH _ _ _ _ H) as (r' & ->). exists (Cand w :: r'). rewrite <- app_assoc. reflexivity.
  - discriminate.
  - subst e. destruct (tier_not_ok fx sc _ _ _ Et).
Qed.

(* the first entry of an answer is the winner of the first tier *)
Lemma tideman_first fx sc tr votes n r : tideman_alt fx sc tr votes n = H_ok r ->
  exists w rest, r = Cand w :: rest /\ tideman_tier fx sc (tier_fuel_of votes) votes = inl (Cand w).
Proof.
  unfold tideman_alt. rewrite tideman_loop_S. intros H.
  destruct (tideman_tier fx sc (tier_fuel_of votes) votes) as [[w|l]|e] eqn:Et.
  - destruct (cmem w _); [|discriminate]. destruct (Nat.eqb _ n || _).
    + injection H as <-. exists w, []. split; reflexivity.
    + destruct tr; [|discriminate]. destruct (tideman_loop_prefix _ _ _ _ _ _ _ _ _ H) as (r' & ->). exists w, r'. split; reflexivity.
  - discriminate.
  - subst e. destruct (tier_not_ok fx sc _ _ _ Et).
Qed.

(* whatever repairs the code has and however many seats are asked for: the first winner lies in the Smith set of the profile *)
Theorem smith_tideman fx sc tr votes n c rest : wf_votes votes = true -> pairwise votes <> [] ->
  tideman_alt fx sc tr votes n = H_ok (Cand c :: rest) -> In c (smith_schwartz (pairwise votes) true).
Proof.
  intros Hwf Hne H. destruct (tideman_first fx sc tr votes n _ H) as (w & rest' & E & Et). injection E as <- _.
  rewrite <- (winner_set_contest sc votes Hwf Hne). exact (tier_in_winner_set fx sc _ votes c Hwf Et).
Qed.

(* ------------------------------------------------------------------ Benham (with the elimination tie refused) is Smith-efficient *)
Lemma pos_key (v : pvotes) a b : 0 < pget0 v (a, b) -> In a (candidates v) /\ In b (candidates v).
Proof.
  unfold pget0. destruct (pget v (a, b)) as [n|] eqn:E; [|lia]. intros _. apply pget_In in E.
  split; apply (candidates_spec v); exists (a, b), n; cbn [fst snd]; auto.
Qed.

Lemma cw_head cur c0 l : wf_votes cur = true -> condorcet_winner (pairwise cur) = c0 :: l -> is_cw (pairwise cur) c0.
Proof.
  intros Hwf E.
  assert (Hne : pairwise cur <> []) by (intros E0; rewrite E0 in E; discriminate E).
  destruct (cw_spec (pairwise cur) (pairwise_nodup cur) (pairwise_nonneg cur Hwf) (pairwise_two cur Hwf Hne)) as [H1 H2].
  destruct H2 as [H2|(c' & H2)]; [congruence|]. apply H1. rewrite H2 in E. injection E as <- _. exact H2.
Qed.

Lemma benham_loop_S fx sc f v0 cur : benham_loop fx sc (S f) v0 cur =
  match benham_cw sc cur with
  | c :: _ => H_ok [Cand c]
  | [] => match eliminate_one cur with
          | None => H_index
          | Some remains =>
              match remains with
              | [_] => H_ok remains
              | _ => if fx && has_tie remains then H_nie else benham_loop fx sc f v0 (subset_votes (plain remains) v0)
              end
          end
  end.
Proof. reflexivity. Qed.
Lemma benham_loop_0 fx sc v0 cur : benham_loop fx sc 0 v0 cur =
  match benham_cw sc cur with c :: _ => H_ok [Cand c] | [] => H_fuel end.
Proof. reflexivity. Qed.

Section BENHAM.
  Variable votes : rvotes.
  Hypothesis Hwf : wf_votes votes = true.
  Hypothesis Hne : pairwise votes <> [].
  Let P := pairwise votes.
  Let Sm := smith_schwartz P true.
  Let K (cur : rvotes) := all_ranked_candidates (qv cur).

  Definition binv (cur : rvotes) : Prop :=
    wf_votes cur = true /\
    (forall x, In x (K cur) -> In x (cands_of votes)) /\
    (forall a b, In a (K cur) -> In b (K cur) -> pget0 (pairwise cur) (a, b) = pget0 P (a, b)) /\
    (exists s, In s Sm /\ In s (K cur)) /\
    (exists x y, In x (K cur) /\ In y (K cur) /\ x <> y).

  Lemma P_two : (2 <= length (candidates P))%nat.
  Proof. apply pairwise_two; assumption. Qed.
  Lemma P_nonneg p : 0 <= pget0 P p.
  Proof. apply (pget0_nonneg P (pairwise_nonneg votes Hwf)). Qed.
  Lemma K_in_P cur x : binv cur -> In x (K cur) -> In x (candidates P).
  Proof. intros (_ & HK & _) Hx. apply cands_in_pairwise; [exact Hwf|exact Hne|apply HK, Hx]. Qed.
  Lemma candP_in_K cur x : In x (candidates (pairwise cur)) -> In x (K cur).
  Proof. intros H. apply arc_iff, candidates_pairwise_in, H. Qed.

  Lemma binv_start : binv votes.
  Proof.
    split; [exact Hwf|]. split; [intros x Hx; apply arc_iff, Hx|]. split; [reflexivity|].
    destruct (smith_dominating P P_two) as [HneS _]. split.
    - fold Sm in HneS. destruct Sm as [|s t] eqn:E; [congruence|]. exists s. split; [left; reflexivity|].
      apply candP_in_K. apply (smith_subset P P_two). fold Sm. rewrite E. left. reflexivity.
    - pose proof P_two as H2. pose proof (candidates_NoDup P) as Hnd.
      destruct (candidates P) as [|x [|y t]] eqn:E; cbn [length] in H2; try lia.
      exists x, y. split; [apply candP_in_K; fold P; rewrite E; left; reflexivity|].
      split; [apply candP_in_K; fold P; rewrite E; right; left; reflexivity|].
      intros ->. inversion Hnd as [|? ? Hn _]; subst. apply Hn. left. reflexivity.
  Qed.

  Lemma cw_in_smith cur c : binv cur -> is_cw (pairwise cur) c -> In c Sm.
  Proof.
    intros Hb [Hc Hall]. pose proof Hb as (Hwfc & HK & Hpw & (s & Hs & HsK) & _).
    destruct (in_dec Pos.eq_dec c Sm) as [Hin|Hout]; [exact Hin|exfalso].
    pose proof (candP_in_K cur c Hc) as HcK.
    assert (Hsc : s <> c) by (intros ->; exact (Hout Hs)).
    destruct (smith_dominating P P_two) as [_ Hdom].
    assert (Hb1 : beats P s c) by (apply Hdom; [exact Hs|apply (K_in_P cur c Hb HcK)|exact Hout]).
    unfold beats in Hb1. rewrite <- (Hpw s c HsK HcK), <- (Hpw c s HcK HsK) in Hb1.
    assert (Hpos : 0 < pget0 (pairwise cur) (s, c)).
    { pose proof (P_nonneg (c, s)) as H0. rewrite <- (Hpw c s HcK HsK) in H0. lia. }
    destruct (pos_key _ _ _ Hpos) as [HsC _].
    pose proof (Hall s HsC Hsc) as Hb2. unfold beats in Hb2. lia.
  Qed.

  Lemma survive cur R : binv cur -> condorcet_winner (pairwise cur) = [] ->
    NoDup R -> incl R (K cur) -> length R = (length (K cur) - 1)%nat -> exists s', In s' Sm /\ In s' R.
  Proof.
    intros Hb Hcw Hn Hi Hl. pose proof Hb as (Hwfc & HK & Hpw & (s & Hs & HsK) & (x0 & y0 & Hx0 & Hy0 & Hxy)).
    destruct (in_dec Pos.eq_dec s R) as [HsR|HsR]; [exists s; auto|].
    destruct (existsb (fun x => cmem x Sm) R) eqn:Ex.
    { apply existsb_exists in Ex. destruct Ex as (x & Hx & Hm). exists x. split; [apply cmem_iff, Hm|exact Hx]. }
    exfalso.
    assert (Hall : forall x, In x (K cur) -> x <> s -> beats (pairwise cur) s x).
    { intros x Hx Hxs.
      assert (HxR : In x R).
      { destruct (in_dec Pos.eq_dec x R) as [H|H]; [exact H|exfalso]. apply Hxs. exact (drop_one R (K cur) x s Hn Hi Hl Hx HsK H HsR). }
      assert (HxS : ~ In x Sm).
      { intros H. assert (existsb (fun x => cmem x Sm) R = true); [|congruence]. apply existsb_exists. exists x. split; [exact HxR|apply cmem_iff, H]. }
      destruct (smith_dominating P P_two) as [_ Hdom].
      pose proof (Hdom s x Hs (K_in_P cur x Hb Hx) HxS) as Hb1. unfold beats in *.
      rewrite (Hpw s x HsK Hx), (Hpw x s Hx HsK). exact Hb1. }
    (* somebody else is there, so s is a candidate of the current dictionary and its Condorcet winner *)
    assert (Hother : exists x1, In x1 (K cur) /\ x1 <> s).
    { destruct (Pos.eq_dec x0 s) as [E|E]; [exists y0; split; [exact Hy0|intros E2; apply Hxy; congruence]|exists x0; auto]. }
    destruct Hother as (x1 & Hx1 & Hx1s).
    pose proof (Hall x1 Hx1 Hx1s) as Hb1. unfold beats in Hb1.
    assert (Hpos : 0 < pget0 (pairwise cur) (s, x1)).
    { pose proof (P_nonneg (x1, s)) as H0. rewrite <- (Hpw x1 s Hx1 HsK) in H0. lia. }
    destruct (pos_key _ _ _ Hpos) as [HsC _].
    assert (Hne2 : pairwise cur <> []) by (intros E; rewrite E in HsC; exact HsC).
    assert (Hiscw : is_cw (pairwise cur) s).
    { split; [exact HsC|]. intros x Hx Hxs. apply Hall; [apply candP_in_K, Hx|exact Hxs]. }
    apply (cw_spec (pairwise cur) (pairwise_nodup cur) (pairwise_nonneg cur Hwfc) (pairwise_two cur Hwfc Hne2)) in Hiscw.
    congruence.
  Qed.

  Lemma binv_next cur R : binv cur -> NoDup R -> incl R (K cur) -> (exists s', In s' Sm /\ In s' R) -> (2 <= length R)%nat ->
    binv (subset_votes R votes).
  Proof.
    intros Hb Hn Hi (s' & Hs' & Hs'R) H2. pose proof Hb as (_ & HK & _).
    assert (HK' : forall x, In x (K (subset_votes R votes)) <-> In x R /\ In x (cands_of votes)).
    { intros x. unfold K. rewrite arc_iff. apply subset_cands. }
    split; [apply subset_wf, Hwf|]. split; [intros x Hx; apply HK' in Hx; tauto|]. split; [|split].
    - intros a b Ha Hb'. apply HK' in Ha, Hb'. apply subset_restriction; [exact Hwf|tauto|tauto].
    - exists s'. split; [exact Hs'|]. apply HK'. split; [exact Hs'R|apply HK, Hi, Hs'R].
    - destruct R as [|x [|y t]]; cbn [length] in H2; try lia. exists x, y.
      split; [apply HK'; split; [left; reflexivity|apply HK, Hi; left; reflexivity]|].
      split; [apply HK'; split; [right; left; reflexivity|apply HK, Hi; right; left; reflexivity]|].
      intros ->. inversion Hn as [|? ? Hx _]; subst. apply Hx. left. reflexivity.
  Qed.

  Lemma binv_two cur : binv cur -> (2 <= length (K cur))%nat.
  Proof. intros (_ & _ & _ & _ & (x0 & y0 & Hx0 & Hy0 & Hxy)). exact (two_in_length _ x0 y0 Hx0 Hy0 Hxy). Qed.

  Lemma benham_smith_loop sc : forall fuel cur c, binv cur -> benham_loop true sc fuel votes cur = H_ok [Cand c] -> In c Sm.
  Proof.
    induction fuel as [|f IH]; intros cur c Hb H; pose proof Hb as (Hwfc & _ & _ & _ & _); pose proof (binv_two cur Hb) as HlenK.
    - rewrite benham_loop_0, (benham_cw_two sc cur HlenK) in H. destruct (condorcet_winner (pairwise cur)) as [|c0 l] eqn:Ec; [discriminate|].
      injection H as <-. exact (cw_in_smith cur c0 Hb (cw_head cur c0 l Hwfc Ec)).
    - rewrite benham_loop_S, (benham_cw_two sc cur HlenK) in H. destruct (condorcet_winner (pairwise cur)) as [|c0 l] eqn:Ec.
      2:{ injection H as <-. exact (cw_in_smith cur c0 Hb (cw_head cur c0 l Hwfc Ec)). }
      destruct (eliminate_one cur) as [rem|] eqn:Ee; [|discriminate].
      destruct rem as [|r [|r2 rr]].
      + destruct (elim_spec cur [] Hwfc Ee eq_refl) as (R & E1 & _ & _ & E4). destruct R; [|discriminate]. cbn [length] in E4. fold (K cur) in E4. lia.
      + injection H as ->. destruct (elim_spec cur [Cand c] Hwfc Ee eq_refl) as (R & E1 & E2 & E3 & E4).
        destruct R as [|x [|y R]]; try discriminate. injection E1 as <-.
        destruct (survive cur [c] Hb Ec E2 E3 E4) as (s' & Hs' & [<-|[]]). exact Hs'.
      + cbn [andb] in H. destruct (has_tie (r :: r2 :: rr)) eqn:Et; [discriminate|].
        destruct (elim_spec cur _ Hwfc Ee Et) as (R & E1 & E2 & E3 & E4). rewrite E1, plain_map_cand in H.
        assert (H2 : (2 <= length R)%nat).
        { assert (El : length (r :: r2 :: rr) = length R) by (rewrite E1, map_length; reflexivity). cbn [length] in El. lia. }
        apply (IH _ c (binv_next cur R Hb E2 E3 (survive cur R Hb Ec E2 E3 E4) H2) H).
  Qed.

  Theorem smith_benham_sec sc c : benham true sc votes = H_ok [Cand c] -> In c Sm.
  Proof. intros H. exact (benham_smith_loop sc _ votes c binv_start H). Qed.
End BENHAM.

Theorem smith_benham sc votes c : wf_votes votes = true -> pairwise votes <> [] ->
  benham true sc votes = H_ok [Cand c] -> In c (smith_schwartz (pairwise votes) true).
Proof. intros Hwf Hne. exact (smith_benham_sec votes Hwf Hne sc c). Qed.

(* ------------------------------------------------------------------ the fuel of the elimination loops suffices *)
Lemma gnb_length (tot : list (C * Q)) n : (1 <= n)%nat -> (n < length tot)%nat -> length (get_n_best Qle_bool tot n) = n.
Proof.
  intros H1 Hlt.
  destruct (get_n_best_spec Qle_bool Qle_bool_total Qle_bool_trans tot n H1) as [_ H]. specialize (H Hlt).
  destruct H as (above & level & below & thr & _ & _ & _ & _ & _ & Hpos & Heq & Htie).
  destruct (Nat.eq_dec (length above + length level) n) as [E|E].
  - rewrite (Heq E), map_length, app_length. exact E.
  - assert (Hgt : (n < length above + length level)%nat) by lia. rewrite (Htie Hgt), app_length, map_length, repeat_length. lia.
Qed.
Lemma plain_length (r : list (res C)) : (length (plain r) <= length r)%nat.
Proof. unfold plain. induction r as [|[c|l] r IH]; simpl; lia. Qed.

Lemma elim_length cur rem : wf_votes cur = true -> eliminate_one cur = Some rem ->
  (length (plain rem) < length (all_ranked_candidates (qv cur)))%nat.
Proof.
  intros Hwf He. unfold eliminate_one in He. pose proof (totals_keys cur Hwf) as Hk.
  set (K := all_ranked_candidates (qv cur)) in *. set (tot := some_totals (totals (initial_allocation (qv cur)))) in *.
  destruct (length K) as [|[|m]] eqn:El; [discriminate| |].
  - injection He as <-. cbn. lia.
  - injection He as <-.
    assert (Hlen : length tot = S (S m)) by (rewrite <- El, <- Hk, map_length; reflexivity).
    pose proof (plain_length (get_n_best Qle_bool tot (S m))) as Hp. rewrite (gnb_length tot (S m)) in Hp; lia.
Qed.

Lemma arc_subset_le S votes (L : list C) : (forall x, In x S -> In x (cands_of votes) -> In x L) ->
  (length (all_ranked_candidates (qv (subset_votes S votes))) <= length L)%nat.
Proof.
  intros H. apply NoDup_incl_length; [apply arc_nodup|]. intros x Hx. apply arc_iff, subset_cands in Hx. apply H; tauto.
Qed.

Lemma benham_loop_fuel fx sc votes0 : wf_votes votes0 = true -> forall fuel cur, wf_votes cur = true ->
  (length (all_ranked_candidates (qv cur)) < fuel)%nat -> benham_loop fx sc fuel votes0 cur <> H_fuel.
Proof.
  intros Hwf0. induction fuel as [|f IH]; intros cur Hwf Hlt; [lia|].
  rewrite benham_loop_S. destruct (benham_cw sc cur); [|discriminate].
  destruct (eliminate_one cur) as [rem|] eqn:Ee; [|discriminate].
  pose proof (elim_length cur rem Hwf Ee) as Hl.
  assert (Hnext : benham_loop fx sc f votes0 (subset_votes (plain rem) votes0) <> H_fuel).
  { apply IH; [apply subset_wf, Hwf0|].
    pose proof (arc_subset_le (plain rem) votes0 (plain rem) (fun x H _ => H)). lia. }
  destruct rem as [|r [|r2 rr]]; [|discriminate|]; (destruct (fx && has_tie _); [discriminate|exact Hnext]).
Qed.

Theorem benham_fuel fx sc votes : wf_votes votes = true -> benham fx sc votes <> H_fuel.
Proof. intros Hwf. unfold benham. apply benham_loop_fuel; [exact Hwf|exact Hwf|lia]. Qed.

Lemma tier_fuel fx sc : forall fuel round, wf_votes round = true ->
  (length (all_ranked_candidates (qv round)) < fuel)%nat -> tideman_tier fx sc fuel round <> inr H_fuel.
Proof.
  induction fuel as [|f IH]; intros round Hwf Hlt; [lia|].
  destruct round as [|bw t]; [discriminate|]. set (round := bw :: t) in *.
  assert (Hne : round <> []) by (unfold round; discriminate). clearbody round.
  assert (Hgen : forall sset, match eliminate_one (subset_votes sset round) with
                 | None => inr H_index
                 | Some rem => if fx && has_tie rem then inr H_nie
                               else match rem with [r0] => inl r0 | _ => tideman_tier fx sc f (subset_votes (plain rem) (subset_votes sset round)) end
                 end <> @inr (res C) hres H_fuel).
  { intros sset. set (round1 := subset_votes sset round). pose proof (subset_wf sset round Hwf) as Hwf1. fold round1 in Hwf1.
    destruct (eliminate_one round1) as [rem|] eqn:Ee; [|discriminate].
    pose proof (elim_length round1 rem Hwf1 Ee) as Hl.
    assert (Hle1 : (length (all_ranked_candidates (qv round1)) <= length (all_ranked_candidates (qv round)))%nat).
    { apply arc_subset_le. intros x _ Hx. apply arc_iff, Hx. }
    assert (Hnext : tideman_tier fx sc f (subset_votes (plain rem) round1) <> inr H_fuel).
    { apply IH; [apply subset_wf, Hwf1|]. pose proof (arc_subset_le (plain rem) round1 (plain rem) (fun x H _ => H)). lia. }
    destruct (fx && has_tie rem); [discriminate|]. destruct rem as [|r0 [|r1 rr]]; [exact Hnext|discriminate|exact Hnext]. }
  rewrite (tideman_tier_unfold fx sc f round Hne).
  destruct (winner_set sc round) as [|s [|s2 ss]]; [apply Hgen|discriminate|apply Hgen].
Qed.

Lemma tier_fuel_of_ok fx sc round : wf_votes round = true -> tideman_tier fx sc (tier_fuel_of round) round <> inr H_fuel.
Proof. intros Hwf. apply tier_fuel; [exact Hwf|unfold tier_fuel_of; lia]. Qed.

(* removing an eligible candidate shortens the eligible list *)
Lemma filter_le {X} (f : X -> bool) (l : list X) : (length (filter f l) <= length l)%nat.
Proof. induction l as [|x l IH]; cbn [filter length]; [lia|]. destruct (f x); cbn [length]; lia. Qed.

Lemma remove_length (w : C) (l : list C) : In w l -> (length (filter (fun c => negb (ceqb c w)) l) < length l)%nat.
Proof.
  induction l as [|x l IH]; intros H; [destruct H|]. cbn [filter length]. destruct (ceqb x w) eqn:E; cbn [negb].
  - pose proof (filter_le (fun c => negb (ceqb c w)) l). lia.
  - destruct H as [->|H]; [rewrite ceqb_refl in E; discriminate|]. cbn [length]. specialize (IH H). lia.
Qed.

Lemma tideman_loop_fuel fx sc tr n : forall k tv elig acc, wf_votes tv = true -> (length elig < k)%nat ->
  tideman_loop fx sc tr k tv elig n acc <> H_fuel.
Proof.
  induction k as [|k IH]; intros tv elig acc Hwf Hlt; [lia|]. rewrite tideman_loop_S.
  destruct (tideman_tier fx sc (tier_fuel_of tv) tv) as [[w|l]|e] eqn:Et.
  - destruct (cmem w elig) eqn:Em; [|discriminate]. destruct (Nat.eqb _ n || _); [discriminate|]. destruct tr; [|discriminate].
    apply IH; [apply subset_wf, Hwf|]. apply cmem_iff in Em. pose proof (remove_length w elig Em). lia.
  - discriminate.
  - intros ->. exact (tier_fuel_of_ok fx sc tv Hwf Et).
Qed.

Theorem tideman_fuel fx sc tr votes n : wf_votes votes = true -> tideman_alt fx sc tr votes n <> H_fuel.
Proof. intros Hwf. unfold tideman_alt. apply tideman_loop_fuel; [exact Hwf|lia]. Qed.
