(* The Condorcet-runoff hybrids (Model/Hybrids.v): the pairwise dictionary of a ranked profile as a
   weighted sum of per-ballot coefficients, restriction of the ballots = restriction of the dictionary,
   Condorcet winner elected at once, Smith containment. *)
From Coq Require Import ZArith QArith List Bool Arith Lia Permutation.
From VL Require Import Prelude.Sx Prelude.PyDict Prelude.GDict Model.GetNBest Model.Convert Model.STV Model.Condorcet Model.Hybrids.
From VL Require Import Proofs.Condorcet_proofs Proofs.Smith_proofs Proofs.GetNBest_proofs Proofs.JR_proofs Proofs.QOrd
  Proofs.STV_psc_proofs Proofs.STV_elim_proofs.
Import ListNotations.
Open Scope Z_scope.

(* ------------------------------------------------------------------ counting *)
Definition cnt (a : C) (l : list C) : Z := fold_right (fun x acc => (if ceqb a x then 1 else 0) + acc) 0 l.
Definition pcount (p : pair) (l : list pair) : Z := fold_right (fun q acc => (if peqb p q then 1 else 0) + acc) 0 l.

Lemma ceqb_eq a b : ceqb a b = true <-> a = b.
Proof. apply Pos.eqb_eq. Qed.
Lemma ceqb_refl a : ceqb a a = true.
Proof. apply Pos.eqb_refl. Qed.
Lemma cmem_iff x l : cmem x l = true <-> In x l.
Proof.
  induction l as [|y l IH]; simpl; [split; [discriminate|intros []]|].
  rewrite orb_true_iff, IH, ceqb_eq. split; intros [H|H]; auto.
Qed.
Lemma cmem_false x l : cmem x l = false <-> ~ In x l.
Proof. rewrite <- cmem_iff. destruct (cmem x l); split; congruence. Qed.

Lemma cnt_app a l m : cnt a (l ++ m) = cnt a l + cnt a m.
Proof. induction l as [|x l IH]; simpl; [reflexivity|]. rewrite IH. lia. Qed.
Lemma cnt_nonneg a l : 0 <= cnt a l.
Proof. induction l as [|x l IH]; simpl; [lia|]. destruct (ceqb a x); lia. Qed.
Lemma cnt_pos a l : 0 < cnt a l <-> In a l.
Proof.
  induction l as [|x l IH]; simpl; [split; [lia|intros []]|].
  pose proof (cnt_nonneg a l). destruct (ceqb a x) eqn:E.
  - apply ceqb_eq in E. subst. split; [auto|lia].
  - split; [intros H1; right; apply IH; lia|intros [->|H1]; [rewrite ceqb_refl in E; discriminate|apply IH in H1; lia]].
Qed.
Lemma cnt_notin a l : ~ In a l -> cnt a l = 0.
Proof. intros H. pose proof (cnt_nonneg a l). pose proof (cnt_pos a l). destruct (Z.eq_dec (cnt a l) 0); [assumption|]. exfalso. apply H, H1. lia. Qed.
Lemma cnt_cons a x l : cnt a (x :: l) = (if ceqb a x then 1 else 0) + cnt a l.
Proof. reflexivity. Qed.
Lemma cnt_filter f a l : cnt a (filter f l) = if f a then cnt a l else 0.
Proof.
  induction l as [|x l IH]; [simpl; destruct (f a); reflexivity|].
  cbn [filter]. rewrite cnt_cons. destruct (f x) eqn:Ef.
  - rewrite cnt_cons, IH. destruct (f a) eqn:Ea; [reflexivity|]. destruct (ceqb a x) eqn:E; [|lia].
    apply ceqb_eq in E. subst x. congruence.
  - rewrite IH. destruct (ceqb a x) eqn:E; [|destruct (f a); lia].
    apply ceqb_eq in E. subst x. rewrite Ef. reflexivity.
Qed.
Lemma cnt_nodup a l : NoDup l -> cnt a l = if cmem a l then 1 else 0.
Proof.
  induction 1 as [|x l Hx Hl IH]; simpl; [reflexivity|]. rewrite IH. destruct (ceqb a x) eqn:E; simpl; [|reflexivity].
  apply ceqb_eq in E. subst. apply cmem_false in Hx. rewrite Hx. reflexivity.
Qed.

Lemma pcount_cons p q l : pcount p (q :: l) = (if peqb p q then 1 else 0) + pcount p l.
Proof. reflexivity. Qed.
Lemma pcount_app p l m : pcount p (l ++ m) = pcount p l + pcount p m.
Proof. induction l as [|x l IH]; simpl; [reflexivity|]. rewrite IH. lia. Qed.
Lemma pcount_nonneg p l : 0 <= pcount p l.
Proof. induction l as [|x l IH]; simpl; [lia|]. destruct (peqb p x); lia. Qed.
Lemma pcount_pos p l : 0 < pcount p l <-> In p l.
Proof.
  induction l as [|x l IH]; simpl; [split; [lia|intros []]|].
  pose proof (pcount_nonneg p l). destruct (peqb p x) eqn:E.
  - apply peqb_eq in E. subst. split; [auto|lia].
  - split; [intros H1; right; apply IH; lia|intros [->|H1]; [|apply IH in H1; lia]].
    assert (peqb p p = true) by (apply peqb_eq; reflexivity). congruence.
Qed.
Lemma pcount_cross a b (X Y : list C) :
  pcount (a, b) (flat_map (fun u => map (fun l => (u, l)) X) Y) = cnt a Y * cnt b X.
Proof.
  induction Y as [|y Y IH]; simpl; [reflexivity|]. rewrite pcount_app, IH.
  assert (H : pcount (a, b) (map (fun l => (y, l)) X) = (if ceqb a y then 1 else 0) * cnt b X).
  { clear. induction X as [|x X IH]; [cbn [map pcount fold_right cnt]; lia|]. cbn [map]. rewrite pcount_cons, IH, cnt_cons.
    unfold peqb. cbn [fst snd]. destruct (ceqb a y), (ceqb b x); cbn [andb]; lia. }
  rewrite H. lia.
Qed.

(* ------------------------------------------------------------------ the ballot image as pairs *)
Fixpoint pairs_from (r : ranked) : list pair :=
  match r with
  | [] => []
  | i :: t => flat_map (fun u => map (fun l => (u, l)) (flatten t)) (members i) ++ pairs_from t
  end.

Lemma dec_cross (X Y : list C) :
  flat_map (fun kc : sx * Q => dec_pair (fst kc)) (flat_map (fun u => map (fun l => (L [kc u; kc l], 1%Q)) X) Y)
  = flat_map (fun u => map (fun l => (u, l)) X) Y.
Proof.
  induction Y as [|y Y IH]; simpl; [reflexivity|]. rewrite flat_map_app, IH. f_equal.
  clear. induction X as [|x X IH]; simpl; [reflexivity|]. rewrite IH. reflexivity.
Qed.

Lemma ballot_pairs_eq cs r :
  ballot_pairs cs r = pairs_from r ++ flat_map (fun u => map (fun l => (u, l)) (set_diff cs (flatten r))) (flatten r).
Proof.
  unfold ballot_pairs, img_condorcet. rewrite flat_map_app, dec_cross. f_equal.
  induction r as [|i t IH]; simpl; [reflexivity|]. rewrite flat_map_app, dec_cross, IH. reflexivity.
Qed.

Fixpoint above (r : ranked) (a b : C) : Z :=
  match r with
  | [] => 0
  | i :: t => cnt a (members i) * cnt b (flatten t) + above t a b
  end.
Definition coef (cs : list C) (r : ranked) (a b : C) : Z :=
  above r a b + cnt a (flatten r) * cnt b (set_diff cs (flatten r)).

Lemma pcount_pairs_from r a b : pcount (a, b) (pairs_from r) = above r a b.
Proof. induction r as [|i t IH]; simpl; [reflexivity|]. rewrite pcount_app, pcount_cross, IH. reflexivity. Qed.

Lemma pcount_ballot cs r a b : pcount (a, b) (ballot_pairs cs r) = coef cs r a b.
Proof. rewrite ballot_pairs_eq, pcount_app, pcount_pairs_from, pcount_cross. reflexivity. Qed.

Lemma above_nonneg r a b : 0 <= above r a b.
Proof. induction r as [|i t IH]; simpl; [lia|]. pose proof (cnt_nonneg a (members i)). pose proof (cnt_nonneg b (flatten t)). nia. Qed.

(* ------------------------------------------------------------------ padd / pairwise *)
Lemma peqb_refl p : peqb p p = true.
Proof. apply peqb_eq. reflexivity. Qed.

Lemma pget0_padd v p n q : pget0 (padd v p n) q = pget0 v q + (if peqb q p then n else 0).
Proof.
  unfold pget0. induction v as [|[p' n'] v IH]; simpl.
  - destruct (peqb q p); lia.
  - destruct (peqb p p') eqn:E; simpl.
    + apply peqb_eq in E. subst p'. destruct (peqb q p); lia.
    + destruct (peqb q p') eqn:E2; [|exact IH].
      assert (peqb q p = false) as ->; [|lia].
      apply not_true_iff_false. intros H. apply peqb_eq in H. apply peqb_eq in E2. subst. rewrite peqb_refl in E. discriminate.
Qed.

Lemma padd_keys v p n q : In q (map fst (padd v p n)) <-> q = p \/ In q (map fst v).
Proof.
  induction v as [|[p' n'] v IH]; simpl; [intuition|].
  destruct (peqb p p') eqn:E; simpl.
  - apply peqb_eq in E. subst. intuition.
  - rewrite IH. intuition.
Qed.
Lemma padd_nodup v p n : NoDup (map fst v) -> NoDup (map fst (padd v p n)).
Proof.
  induction v as [|[p' n'] v IH]; simpl; intros H; [constructor; [intros []|constructor]|].
  inversion H as [|? ? Hn Hd]; subst. destruct (peqb p p') eqn:E; simpl; [constructor; assumption|].
  constructor; [|apply IH, Hd]. rewrite padd_keys. intros [->|H1]; [rewrite peqb_refl in E; discriminate|exact (Hn H1)].
Qed.
Lemma padd_nonneg v p n : 0 <= n -> (forall q m, In (q, m) v -> 0 <= m) -> forall q m, In (q, m) (padd v p n) -> 0 <= m.
Proof.
  intros Hn. induction v as [|[p' n'] v IH]; simpl; intros Hv q m.
  - intros [[= <- <-]|[]]. exact Hn.
  - destruct (peqb p p'); simpl.
    + intros [[= <- <-]|H]; [pose proof (Hv p' n' (or_introl eq_refl)); lia|apply (Hv q m); right; exact H].
    + intros [[= <- <-]|H]; [apply (Hv p' n'); left; reflexivity|]. apply (IH (fun q m H => Hv q m (or_intror H)) q m H).
Qed.

Definition wsum (f : ranked -> Z) (votes : rvotes) : Z := fold_right (fun bw acc => snd bw * f (fst bw) + acc) 0 votes.

Lemma wsum_ext f g votes : (forall b w, In (b, w) votes -> f b = g b) -> wsum f votes = wsum g votes.
Proof.
  induction votes as [|[b w] votes IH]; simpl; intros H; [reflexivity|].
  rewrite (H b w (or_introl eq_refl)), IH; [reflexivity|]. intros b' w' H'. apply (H b' w'). right. exact H'.
Qed.

Definition pw_from (cs : list C) (votes : rvotes) (acc : pvotes) : pvotes :=
  fold_left (fun acc bw => fold_left (fun acc p => padd acc p (snd bw)) (ballot_pairs cs (fst bw)) acc) votes acc.

Lemma fold_padd_get l w : forall acc q, pget0 (fold_left (fun acc p => padd acc p w) l acc) q = pget0 acc q + w * pcount q l.
Proof.
  induction l as [|p l IH]; intros acc q; simpl; [lia|]. rewrite IH, pget0_padd. destruct (peqb q p); lia.
Qed.
Lemma fold_padd_keys l w : forall acc q, In q (map fst (fold_left (fun acc p => padd acc p w) l acc)) <-> In q l \/ In q (map fst acc).
Proof.
  induction l as [|p l IH]; intros acc q; simpl; [intuition|]. rewrite IH, padd_keys. intuition.
Qed.
Lemma fold_padd_nodup l w : forall acc, NoDup (map fst acc) -> NoDup (map fst (fold_left (fun acc p => padd acc p w) l acc)).
Proof. induction l as [|p l IH]; intros acc H; simpl; [exact H|]. apply IH, padd_nodup, H. Qed.
Lemma fold_padd_nonneg l w : 0 <= w -> forall acc, (forall q m, In (q, m) acc -> 0 <= m) ->
  forall q m, In (q, m) (fold_left (fun acc p => padd acc p w) l acc) -> 0 <= m.
Proof. intros Hw. induction l as [|p l IH]; intros acc H; simpl; [exact H|]. apply IH. apply padd_nonneg; assumption. Qed.

Lemma pw_from_cons cs r w votes acc :
  pw_from cs ((r, w) :: votes) acc = pw_from cs votes (fold_left (fun acc p => padd acc p w) (ballot_pairs cs r) acc).
Proof. reflexivity. Qed.
Lemma wsum_cons f r w votes : wsum f ((r, w) :: votes) = w * f r + wsum f votes.
Proof. reflexivity. Qed.

Lemma pw_from_get cs votes : forall acc a b,
  pget0 (pw_from cs votes acc) (a, b) = pget0 acc (a, b) + wsum (fun r => coef cs r a b) votes.
Proof.
  induction votes as [|[r w] votes IH]; intros acc a b; [cbn; lia|].
  rewrite pw_from_cons, IH, fold_padd_get, pcount_ballot, wsum_cons. lia.
Qed.
Lemma pw_from_keys cs votes : forall acc q,
  In q (map fst (pw_from cs votes acc)) <-> (exists r w, In (r, w) votes /\ In q (ballot_pairs cs r)) \/ In q (map fst acc).
Proof.
  induction votes as [|[r w] votes IH]; intros acc q.
  - cbn. split; [auto|intros [(r & w & [] & _)|H]; exact H].
  - rewrite pw_from_cons, IH, fold_padd_keys. split.
    + intros [(r' & w' & H1 & H2)|[H|H]]; [left; exists r', w'; split; [right; exact H1|exact H2]|left; exists r, w; split; [left; reflexivity|exact H]|auto].
    + intros [(r' & w' & [[= <- <-]|H1] & H2)|H]; [right; left; exact H2|left; exists r', w'; auto|auto].
Qed.
Lemma pw_from_nodup cs votes : forall acc, NoDup (map fst acc) -> NoDup (map fst (pw_from cs votes acc)).
Proof. induction votes as [|[r w] votes IH]; intros acc H; [exact H|]. rewrite pw_from_cons. apply IH, fold_padd_nodup, H. Qed.
Lemma pw_from_nonneg cs votes : (forall r w, In (r, w) votes -> 0 <= w) -> forall acc, (forall q m, In (q, m) acc -> 0 <= m) ->
  forall q m, In (q, m) (pw_from cs votes acc) -> 0 <= m.
Proof.
  induction votes as [|[r w] votes IH]; intros Hw acc H; [exact H|]. rewrite pw_from_cons.
  apply IH; [intros r' w' H'; apply (Hw r' w'); right; exact H'|].
  apply fold_padd_nonneg; [apply (Hw r w); left; reflexivity|exact H].
Qed.

Definition cands_of (votes : rvotes) : list C := cands_ranked (qv votes).

Lemma pairwise_unfold votes : pairwise votes = pw_from (cands_of votes) votes [].
Proof. reflexivity. Qed.

Lemma pairwise_get votes a b : pget0 (pairwise votes) (a, b) = wsum (fun r => coef (cands_of votes) r a b) votes.
Proof. rewrite pairwise_unfold, pw_from_get. reflexivity. Qed.
Lemma pairwise_keys votes q :
  In q (map fst (pairwise votes)) <-> exists r w, In (r, w) votes /\ In q (ballot_pairs (cands_of votes) r).
Proof. rewrite pairwise_unfold, pw_from_keys. simpl. split; [intros [H|[]]; exact H|auto]. Qed.
Lemma pairwise_nodup votes : NoDup (map fst (pairwise votes)).
Proof. rewrite pairwise_unfold. apply pw_from_nodup. constructor. Qed.

(* ------------------------------------------------------------------ well-formed profiles *)
Fixpoint nodupb (l : list C) : bool :=
  match l with [] => true | x :: t => negb (cmem x t) && nodupb t end.
(* no candidate twice on a ballot, no negative weight *)
Definition wf_votes (votes : rvotes) : bool :=
  forallb (fun bw : ranked * Z => nodupb (flatten (fst bw)) && (0 <=? snd bw)) votes.

Lemma nodupb_iff l : nodupb l = true <-> NoDup l.
Proof.
  induction l as [|x l IH]; simpl; [split; [constructor|reflexivity]|].
  rewrite andb_true_iff, negb_true_iff, cmem_false, IH. split; [intros [H1 H2]; constructor; assumption|intros H; inversion H; auto].
Qed.
Lemma wf_votes_spec votes : wf_votes votes = true <-> forall r w, In (r, w) votes -> NoDup (flatten r) /\ 0 <= w.
Proof.
  unfold wf_votes. rewrite forallb_forall. split.
  - intros H r w Hin. specialize (H _ Hin). cbn [fst snd] in H. apply andb_true_iff in H. destruct H as [H1 H2].
    apply nodupb_iff in H1. apply Z.leb_le in H2. auto.
  - intros H [r w] Hin. destruct (H r w Hin) as [H1 H2]. cbn [fst snd]. apply andb_true_iff. split; [apply nodupb_iff, H1|apply Z.leb_le, H2].
Qed.

Lemma pairwise_nonneg votes : wf_votes votes = true -> forall q m, In (q, m) (pairwise votes) -> 0 <= m.
Proof.
  intros Hwf. rewrite pairwise_unfold. apply pw_from_nonneg; [|intros q m []].
  intros r w H. apply (proj1 (wf_votes_spec votes) Hwf r w H).
Qed.

Lemma cands_of_spec votes x : In x (cands_of votes) <-> exists r w, In (r, w) votes /\ In x (flatten r).
Proof.
  unfold cands_of, cands_ranked, qv. rewrite (proj2 (canon_set_spec _)), in_flat_map. split.
  - intros ([r q] & Hin & Hx). apply in_map_iff in Hin. destruct Hin as ([r' w] & [= <- _] & Hin). exists r', w. auto.
  - intros (r & w & Hin & Hx). exists (r, inject_Z w). split; [|exact Hx]. apply in_map_iff. exists (r, w). auto.
Qed.
Lemma cands_of_nodup votes : NoDup (cands_of votes).
Proof. apply canon_set_spec. Qed.

Lemma flatten_app r1 r2 : flatten (r1 ++ r2) = flatten r1 ++ flatten r2.
Proof. apply flat_map_app. Qed.
Lemma flatten_cons i t : flatten (i :: t) = members i ++ flatten t.
Proof. reflexivity. Qed.

Lemma cross_in (X Y : list C) u l : In (u, l) (flat_map (fun u => map (fun l => (u, l)) X) Y) <-> In u Y /\ In l X.
Proof.
  rewrite in_flat_map. split.
  - intros (y & Hy & H). apply in_map_iff in H. destruct H as (x & [= <- <-] & Hx). auto.
  - intros [Hu Hl]. exists u. split; [exact Hu|]. apply in_map_iff. exists l. auto.
Qed.

Lemma pairs_from_in r u l :
  In (u, l) (pairs_from r) <-> exists r1 i r2, r = r1 ++ i :: r2 /\ In u (members i) /\ In l (flatten r2).
Proof.
  induction r as [|i t IH]; cbn [pairs_from].
  - split; [intros []|intros (r1 & i & r2 & H & _)]. destruct r1; discriminate.
  - rewrite in_app_iff, cross_in, IH. split.
    + intros [[Hu Hl]|(r1 & j & r2 & -> & Hu & Hl)]; [exists [], i, t; auto|exists (i :: r1), j, r2; auto].
    + intros (r1 & j & r2 & E & Hu & Hl). destruct r1 as [|i0 r1]; cbn [app] in E; injection E as -> ->; [left; auto|].
      right. exists r1, j, r2. auto.
Qed.

Lemma nodup_app_disj {X} (a b : list X) x : NoDup (a ++ b) -> In x a -> In x b -> False.
Proof.
  induction a as [|y a IH]; cbn [app]; intros H Ha Hb; [destruct Ha|]. inversion H as [|? ? Hn Hd]; subst.
  destruct Ha as [->|Ha]; [apply Hn, in_or_app; right; exact Hb|exact (IH Hd Ha Hb)].
Qed.

Lemma nodup_app_r {X} (a b : list X) : NoDup (a ++ b) -> NoDup b.
Proof. induction a as [|y a IH]; cbn [app]; intros H; [exact H|]. inversion H; auto. Qed.
Lemma nodup_app_l {X} (a b : list X) : NoDup (a ++ b) -> NoDup a.
Proof.
  induction a as [|y a IH]; cbn [app]; intros H; [constructor|]. inversion H as [|? ? Hn Hd]; subst.
  constructor; [intros Hy; apply Hn, in_or_app; left; exact Hy|exact (IH Hd)].
Qed.

Lemma set_diff_in cs l x : In x (set_diff cs l) <-> In x cs /\ ~ In x l.
Proof. unfold set_diff. rewrite filter_In, negb_true_iff, cmem_false. reflexivity. Qed.

Lemma ballot_pairs_in cs r u l : In (u, l) (ballot_pairs cs r) ->
  In u (flatten r) /\ (In l (flatten r) \/ In l cs) /\ (NoDup (flatten r) -> u <> l).
Proof.
  rewrite ballot_pairs_eq, in_app_iff, pairs_from_in, cross_in, set_diff_in.
  intros [(r1 & i & r2 & -> & Hu & Hl)|(Hu & Hl & Hn)].
  - rewrite flatten_app, flatten_cons. split; [|split].
    + apply in_or_app. right. apply in_or_app. left. exact Hu.
    + left. apply in_or_app. right. apply in_or_app. right. exact Hl.
    + intros Hnd E. subst l. apply nodup_app_r in Hnd. exact (nodup_app_disj _ _ u Hnd Hu Hl).
  - split; [exact Hu|]. split; [right; exact Hl|]. intros _ E. subst l. exact (Hn Hu).
Qed.

Lemma key_cands votes r w a b : In (r, w) votes -> In (a, b) (ballot_pairs (cands_of votes) r) ->
  In a (candidates (pairwise votes)) /\ In b (candidates (pairwise votes)).
Proof.
  intros Hin Hp. assert (Hk : In (a, b) (map fst (pairwise votes))) by (apply pairwise_keys; exists r, w; auto).
  apply in_map_iff in Hk. destruct Hk as ([q n] & E & Hk). cbn [fst] in E. subst q.
  split; apply (candidates_spec (pairwise votes)); exists (a, b), n; cbn [fst snd]; auto.
Qed.

Lemma candidates_pairwise_in votes c : In c (candidates (pairwise votes)) -> In c (cands_of votes).
Proof.
  intros H. apply (candidates_spec (pairwise votes)) in H. destruct H as ([u l] & n & Hin & Hc). cbn [fst snd] in Hc.
  assert (Hk : In (u, l) (map fst (pairwise votes))) by (apply in_map_iff; exists ((u, l), n); auto).
  apply pairwise_keys in Hk. destruct Hk as (r & w & Hr & Hp). apply ballot_pairs_in in Hp. destruct Hp as (Hu & Hl & _).
  destruct Hc as [->| ->].
  - apply cands_of_spec. exists r, w. auto.
  - destruct Hl as [Hl|Hl]; [apply cands_of_spec; exists r, w; auto|exact Hl].
Qed.

Lemma two_in_length {X} (L : list X) u l : In u L -> In l L -> u <> l -> (2 <= length L)%nat.
Proof.
  destruct L as [|a [|b t]]; cbn [length]; intros Hu Hl Hne; [destruct Hu| |lia].
  destruct Hu as [<-|[]], Hl as [<-|[]]. congruence.
Qed.

Lemma pairwise_two votes : wf_votes votes = true -> pairwise votes <> [] -> (2 <= length (candidates (pairwise votes)))%nat.
Proof.
  intros Hwf Hne. destruct (pairwise votes) as [|[[u l] n] t] eqn:E; [congruence|].
  assert (Hk : In (u, l) (map fst (pairwise votes))) by (rewrite E; left; reflexivity).
  apply pairwise_keys in Hk. destruct Hk as (r & w & Hr & Hp).
  destruct (key_cands votes r w u l Hr Hp) as [Hu Hl]. rewrite E in Hu, Hl.
  apply ballot_pairs_in in Hp. destruct Hp as (_ & _ & Hd).
  apply (two_in_length _ u l Hu Hl). apply Hd. apply (proj1 (wf_votes_spec votes) Hwf r w Hr).
Qed.

Lemma pairwise_cands_two votes c : wf_votes votes = true -> In c (candidates (pairwise votes)) ->
  (2 <= length (candidates (pairwise votes)))%nat.
Proof. intros Hwf Hc. apply pairwise_two; [exact Hwf|]. intros E. rewrite E in Hc. exact Hc. Qed.

(* every candidate of a profile whose pairwise dictionary is not empty is a candidate of the dictionary *)
Lemma cands_in_pairwise votes x : wf_votes votes = true -> pairwise votes <> [] -> In x (cands_of votes) ->
  In x (candidates (pairwise votes)).
Proof.
  intros Hwf Hne Hx. destruct (pairwise votes) as [|[[u l] n] t] eqn:E; [congruence|]. rewrite <- E. clear Hne.
  assert (Hk : In (u, l) (map fst (pairwise votes))) by (rewrite E; left; reflexivity).
  apply pairwise_keys in Hk. destruct Hk as (r0 & w0 & Hr & Hp).
  set (cs := cands_of votes) in *.
  assert (Hsuff : forall a b, In (a, b) (ballot_pairs cs r0) -> x = a \/ x = b -> In x (candidates (pairwise votes))).
  { intros a b Hab [->| ->]; apply (key_cands votes r0 w0 _ _ Hr Hab). }
  pose proof (ballot_pairs_in cs r0 u l Hp) as (Hu & _ & _).
  destruct (in_dec Pos.eq_dec x (flatten r0)) as [Hin|Hout].
  - rewrite ballot_pairs_eq, in_app_iff, pairs_from_in, cross_in, set_diff_in in Hp.
    destruct Hp as [(r1 & i & r2 & Er & Hui & Hl)|(_ & Hl & Hn)].
    + subst r0. rewrite flatten_app, flatten_cons in Hin. apply in_app_or in Hin. destruct Hin as [Hin|Hin].
      * unfold flatten in Hin. apply in_flat_map in Hin. destruct Hin as (j & Hj & Hxj).
        apply in_split in Hj. destruct Hj as (r1a & r1b & ->).
        apply (Hsuff x u); [|left; reflexivity]. rewrite ballot_pairs_eq. apply in_or_app. left. apply pairs_from_in.
        exists r1a, j, (r1b ++ i :: r2). split; [rewrite <- app_assoc; reflexivity|]. split; [exact Hxj|].
        rewrite flatten_app, flatten_cons. apply in_or_app. right. apply in_or_app. left. exact Hui.
      * apply in_app_or in Hin. destruct Hin as [Hin|Hin].
        -- apply (Hsuff x l); [|left; reflexivity]. rewrite ballot_pairs_eq. apply in_or_app. left. apply pairs_from_in.
           exists r1, i, r2. auto.
        -- apply (Hsuff u x); [|right; reflexivity]. rewrite ballot_pairs_eq. apply in_or_app. left. apply pairs_from_in.
           exists r1, i, r2. auto.
    + apply (Hsuff x l); [|left; reflexivity]. rewrite ballot_pairs_eq. apply in_or_app. right. apply cross_in. split; [exact Hin|].
      apply set_diff_in. auto.
  - apply (Hsuff u x); [|right; reflexivity]. rewrite ballot_pairs_eq. apply in_or_app. right. apply cross_in. split; [exact Hu|].
    apply set_diff_in. auto.
Qed.

(* ------------------------------------------------------------------ ballot equality (tuples with frozensets) *)
Lemma item_eqb_mem i j : item_eqb i j = true -> forall x, In x (members i) <-> In x (members j).
Proof.
  destruct i as [c|l], j as [d|m]; cbn [item_eqb members]; try discriminate.
  - intros H x. apply ceqb_eq in H. subst. reflexivity.
  - intros H x. apply andb_true_iff in H. destruct H as [H1 H2]. rewrite forallb_forall in H1, H2.
    split; intros Hx; [apply cmem_iff, H1, Hx|apply cmem_iff, H2, Hx].
Qed.
Lemma item_eqb_refl i : item_eqb i i = true.
Proof.
  destruct i as [c|l]; cbn [item_eqb]; [apply ceqb_refl|].
  assert (H : forallb (fun c => cmem c l) l = true) by (apply forallb_forall; intros x Hx; apply cmem_iff, Hx).
  rewrite H. reflexivity.
Qed.
Lemma ballot_eqb_refl b : ballot_eqb b b = true.
Proof. induction b as [|i b IH]; cbn [ballot_eqb]; [reflexivity|]. rewrite item_eqb_refl, IH. reflexivity. Qed.

Lemma ballot_eqb_mem : forall b b', ballot_eqb b b' = true -> forall x, In x (flatten b) <-> In x (flatten b').
Proof.
  induction b as [|i b IH]; intros [|j b'] H x; cbn [ballot_eqb] in H; try discriminate; [reflexivity|].
  apply andb_true_iff in H. destruct H as [H1 H2]. rewrite !flatten_cons, !in_app_iff, (item_eqb_mem i j H1 x), (IH b' H2 x). reflexivity.
Qed.

Lemma cmem_ext l m y : (forall x, In x l <-> In x m) -> cmem y l = cmem y m.
Proof.
  intros H. destruct (cmem y m) eqn:E.
  - apply cmem_iff. apply H. apply cmem_iff. exact E.
  - apply cmem_false. intros Hy. apply H in Hy. apply cmem_iff in Hy. congruence.
Qed.
Lemma cnt_ext l m y : NoDup l -> NoDup m -> (forall x, In x l <-> In x m) -> cnt y l = cnt y m.
Proof. intros Hl Hm H. rewrite (cnt_nodup y l Hl), (cnt_nodup y m Hm), (cmem_ext l m y H). reflexivity. Qed.

Lemma ballot_eqb_above : forall b b', ballot_eqb b b' = true -> NoDup (flatten b) -> NoDup (flatten b') ->
  forall x y, above b x y = above b' x y.
Proof.
  induction b as [|i b IH]; intros [|j b'] H Hn Hn' x y; cbn [ballot_eqb] in H; try discriminate; [reflexivity|].
  apply andb_true_iff in H. destruct H as [H1 H2]. rewrite flatten_cons in Hn, Hn'. cbn [above].
  rewrite (IH b' H2 (nodup_app_r _ _ Hn) (nodup_app_r _ _ Hn') x y).
  rewrite (cnt_ext (members i) (members j) x (nodup_app_l _ _ Hn) (nodup_app_l _ _ Hn') (item_eqb_mem i j H1)).
  rewrite (cnt_ext (flatten b) (flatten b') y (nodup_app_r _ _ Hn) (nodup_app_r _ _ Hn') (ballot_eqb_mem b b' H2)).
  reflexivity.
Qed.

Lemma ballot_eqb_coef b b' : ballot_eqb b b' = true -> NoDup (flatten b) -> NoDup (flatten b') ->
  forall cs x y, coef cs b x y = coef cs b' x y.
Proof.
  intros H Hn Hn' cs x y. unfold coef. rewrite (ballot_eqb_above b b' H Hn Hn' x y).
  rewrite (cnt_ext (flatten b) (flatten b') x Hn Hn' (ballot_eqb_mem b b' H)).
  unfold set_diff. rewrite !cnt_filter, (cmem_ext (flatten b) (flatten b') y (ballot_eqb_mem b b' H)). reflexivity.
Qed.

(* ------------------------------------------------------------------ RankedSubsetter.subset *)
Definition sub_item (S : list C) (i : item) : list item :=
  match i with
  | IP c => if cmem c S then [IP c] else []
  | IS l => match filter (fun c => cmem c S) l with
            | [] => []
            | [c] => [IP c]
            | l' => [IS l']
            end
  end.
Lemma sub_ranked_cons S i t : sub_ranked S (i :: t) = sub_item S i ++ sub_ranked S t.
Proof. reflexivity. Qed.

Lemma sub_item_cases S i :
  (sub_item S i = [] /\ filter (fun c => cmem c S) (members i) = []) \/
  (exists i', sub_item S i = [i'] /\ members i' = filter (fun c => cmem c S) (members i)).
Proof.
  destruct i as [c|l]; cbn [sub_item members filter].
  - destruct (cmem c S); [right; exists (IP c); auto|left; auto].
  - destruct (filter (fun c => cmem c S) l) as [|c [|d t]]; [left; auto|right; exists (IP c); auto|right; exists (IS (c :: d :: t)); auto].
Qed.

Lemma flatten_sub S r : flatten (sub_ranked S r) = filter (fun c => cmem c S) (flatten r).
Proof.
  induction r as [|i t IH]; [reflexivity|]. rewrite sub_ranked_cons, flatten_app, flatten_cons, filter_app, IH. f_equal.
  destruct (sub_item_cases S i) as [[E1 E2]|(i' & E1 & E2)]; rewrite E1; [rewrite E2; reflexivity|].
  cbn [flatten flat_map]. rewrite app_nil_r. exact E2.
Qed.

Lemma above_sub S r a b : cmem a S = true -> cmem b S = true -> above (sub_ranked S r) a b = above r a b.
Proof.
  intros Ha Hb. induction r as [|i t IH]; [reflexivity|]. rewrite sub_ranked_cons. cbn [above].
  assert (Hc : cnt a (filter (fun c => cmem c S) (members i)) = cnt a (members i)) by (rewrite cnt_filter, Ha; reflexivity).
  destruct (sub_item_cases S i) as [[E1 E2]|(i' & E1 & E2)]; rewrite E1; cbn [app above].
  - rewrite E2 in Hc. cbn in Hc. rewrite <- Hc, IH. lia.
  - rewrite E2, Hc, IH, flatten_sub, cnt_filter, Hb. reflexivity.
Qed.

Lemma nodup_filter {X} (f : X -> bool) l : NoDup l -> NoDup (filter f l).
Proof. apply NoDup_filter. Qed.

(* ------------------------------------------------------------------ SubsettedVotes.convert *)
Lemma wsum_vadd f v b w :
  (forall b' w', In (b', w') v -> ballot_eqb b b' = true -> f b' = f b) -> wsum f (vadd v b w) = wsum f v + w * f b.
Proof.
  induction v as [|[b' w'] v IH]; intros H; cbn [vadd]; [cbn; lia|].
  destruct (ballot_eqb b b') eqn:E.
  - rewrite !wsum_cons, (H b' w' (or_introl eq_refl) E). lia.
  - rewrite !wsum_cons, IH; [lia|]. intros b2 w2 H2. apply (H b2 w2). right. exact H2.
Qed.
Lemma vadd_keys v b w k : In k (map fst (vadd v b w)) -> k = b \/ In k (map fst v).
Proof.
  induction v as [|[b' w'] v IH]; cbn [vadd]; [intros [<-|[]]; auto|].
  destruct (ballot_eqb b b'); cbn [map fst]; [auto|]. intros [<-|H]; [right; left; reflexivity|]. destruct (IH H); [auto|right; right; assumption].
Qed.
Lemma vadd_keys_mono v b w k : In k (map fst v) -> In k (map fst (vadd v b w)).
Proof.
  induction v as [|[b' w'] v IH]; cbn [vadd]; [intros []|]. destruct (ballot_eqb b b'); cbn [map fst]; [auto|].
  intros [<-|H]; [left; reflexivity|right; apply IH, H].
Qed.
Lemma vadd_keys_has v b w : exists k, In k (map fst (vadd v b w)) /\ ballot_eqb b k = true.
Proof.
  induction v as [|[b' w'] v IH]; cbn [vadd]; [exists b; split; [left; reflexivity|apply ballot_eqb_refl]|].
  destruct (ballot_eqb b b') eqn:E; [exists b'; split; [left; reflexivity|exact E]|].
  destruct IH as (k & Hk & Ek). exists k. split; [right; exact Hk|exact Ek].
Qed.
Lemma vadd_weights v b w : 0 <= w -> (forall k w', In (k, w') v -> 0 <= w') -> forall k w', In (k, w') (vadd v b w) -> 0 <= w'.
Proof.
  intros Hw. induction v as [|[b' w0] v IH]; cbn [vadd]; intros Hv k w'.
  - intros [[= <- <-]|[]]. exact Hw.
  - destruct (ballot_eqb b b').
    + intros [[= <- <-]|H]; [pose proof (Hv b' w0 (or_introl eq_refl)); lia|apply (Hv k w'); right; exact H].
    + intros [[= <- <-]|H]; [apply (Hv b' w0); left; reflexivity|]. apply (IH (fun k w' H => Hv k w' (or_intror H)) k w' H).
Qed.

Definition sub_from (S : list C) (votes acc : rvotes) : rvotes :=
  fold_left (fun acc bw => vadd acc (sub_ranked S (fst bw)) (snd bw)) votes acc.
Lemma sub_from_cons S r w votes acc : sub_from S ((r, w) :: votes) acc = sub_from S votes (vadd acc (sub_ranked S r) w).
Proof. reflexivity. Qed.
Lemma subset_votes_unfold S votes : subset_votes S votes = sub_from S votes [].
Proof. reflexivity. Qed.

Lemma sub_from_keys S votes : forall acc k, In k (map fst (sub_from S votes acc)) ->
  In k (map fst acc) \/ exists r w, In (r, w) votes /\ k = sub_ranked S r.
Proof.
  induction votes as [|[r w] votes IH]; intros acc k H; [left; exact H|]. rewrite sub_from_cons in H.
  destruct (IH _ _ H) as [H1|(r' & w' & H1 & H2)]; [|right; exists r', w'; split; [right; exact H1|exact H2]].
  destruct (vadd_keys _ _ _ _ H1) as [->|H2]; [right; exists r, w; split; [left; reflexivity|reflexivity]|left; exact H2].
Qed.
Lemma sub_from_keys_mono S votes : forall acc k, In k (map fst acc) -> In k (map fst (sub_from S votes acc)).
Proof. induction votes as [|[r w] votes IH]; intros acc k H; [exact H|]. rewrite sub_from_cons. apply IH, vadd_keys_mono, H. Qed.
Lemma sub_from_keys_has S votes : forall acc r w, In (r, w) votes ->
  exists k, In k (map fst (sub_from S votes acc)) /\ ballot_eqb (sub_ranked S r) k = true.
Proof.
  induction votes as [|[r0 w0] votes IH]; intros acc r w H; [destruct H|]. rewrite sub_from_cons. destruct H as [[= -> ->]|H].
  - destruct (vadd_keys_has acc (sub_ranked S r) w) as (k & Hk & Ek). exists k. split; [apply sub_from_keys_mono, Hk|exact Ek].
  - apply (IH _ r w H).
Qed.
Lemma sub_from_weights S votes : (forall r w, In (r, w) votes -> 0 <= w) -> forall acc, (forall k w', In (k, w') acc -> 0 <= w') ->
  forall k w', In (k, w') (sub_from S votes acc) -> 0 <= w'.
Proof.
  induction votes as [|[r w] votes IH]; intros Hw acc H; [exact H|]. rewrite sub_from_cons.
  apply IH; [intros r' w' H'; apply (Hw r' w'); right; exact H'|]. apply vadd_weights; [apply (Hw r w); left; reflexivity|exact H].
Qed.

(* f respects ballot equality among the ballots satisfying G *)
Lemma sub_from_wsum (G : ranked -> Prop) f S votes :
  (forall b b', G b -> G b' -> ballot_eqb b b' = true -> f b' = f b) ->
  (forall r w, In (r, w) votes -> G (sub_ranked S r)) ->
  forall acc, (forall k, In k (map fst acc) -> G k) ->
  wsum f (sub_from S votes acc) = wsum f acc + wsum (fun r => f (sub_ranked S r)) votes.
Proof.
  intros Hf. induction votes as [|[r w] votes IH]; intros HG acc Hacc.
  { change (sub_from S [] acc) with acc. change (wsum (fun r => f (sub_ranked S r)) []) with 0. lia. }
  rewrite sub_from_cons, IH.
  - rewrite wsum_vadd, wsum_cons; [lia|]. intros b' w' Hin E. apply Hf; [apply (HG r w); left; reflexivity| |exact E].
    apply Hacc. apply in_map_iff. exists (b', w'). auto.
  - intros r' w' H'. apply (HG r' w'). right. exact H'.
  - intros k Hk. destruct (vadd_keys _ _ _ _ Hk) as [->|H]; [apply (HG r w); left; reflexivity|apply Hacc, H].
Qed.

Lemma subset_wf S votes : wf_votes votes = true -> wf_votes (subset_votes S votes) = true.
Proof.
  intros Hwf. apply wf_votes_spec. intros k w' Hin. pose proof (proj1 (wf_votes_spec votes) Hwf) as Hv. split.
  - assert (Hk : In k (map fst (subset_votes S votes))) by (apply in_map_iff; exists (k, w'); auto).
    rewrite subset_votes_unfold in Hk. destruct (sub_from_keys _ _ _ _ Hk) as [[]|(r & w & Hr & ->)].
    rewrite flatten_sub. apply nodup_filter. apply (Hv r w Hr).
  - rewrite subset_votes_unfold in Hin. revert Hin. apply sub_from_weights; [intros r w Hr; apply (Hv r w Hr)|intros ? ? []].
Qed.

Lemma subset_cands S votes x : In x (cands_of (subset_votes S votes)) <-> In x S /\ In x (cands_of votes).
Proof.
  rewrite !cands_of_spec. split.
  - intros (k & w' & Hin & Hx).
    assert (Hk : In k (map fst (subset_votes S votes))) by (apply in_map_iff; exists (k, w'); auto).
    rewrite subset_votes_unfold in Hk. destruct (sub_from_keys _ _ _ _ Hk) as [[]|(r & w & Hr & ->)].
    rewrite flatten_sub, filter_In, cmem_iff in Hx. destruct Hx as [Hx HS]. split; [exact HS|exists r, w; auto].
  - intros (HS & r & w & Hr & Hx). destruct (sub_from_keys_has S votes [] r w Hr) as (k & Hk & Ek).
    apply in_map_iff in Hk. destruct Hk as ([k' w'] & E & Hk). cbn [fst] in E. subst k'.
    exists k, w'. split; [exact Hk|]. apply (ballot_eqb_mem _ _ Ek). rewrite flatten_sub, filter_In, cmem_iff. auto.
Qed.

(* restricting the ballots to a set of candidates restricts the pairwise dictionary to that set *)
Theorem subset_restriction S votes a b : wf_votes votes = true -> In a S -> In b S ->
  pget0 (pairwise (subset_votes S votes)) (a, b) = pget0 (pairwise votes) (a, b).
Proof.
  intros Hwf Ha Hb. rewrite !pairwise_get. set (cs' := cands_of (subset_votes S votes)). set (cs := cands_of votes).
  pose proof (proj1 (wf_votes_spec votes) Hwf) as Hv.
  rewrite subset_votes_unfold, (sub_from_wsum (fun k => NoDup (flatten k)) (fun r => coef cs' r a b) S votes).
  - cbn [wsum fold_right]. rewrite Z.add_0_l. apply wsum_ext. intros r w Hr. unfold coef.
    apply cmem_iff in Ha, Hb. rewrite (above_sub S r a b Ha Hb), flatten_sub. unfold set_diff. rewrite !cnt_filter, Ha.
    assert (E1 : cmem b (filter (fun c => cmem c S) (flatten r)) = cmem b (flatten r)).
    { destruct (cmem b (flatten r)) eqn:E.
      - apply cmem_iff. apply filter_In. split; [apply cmem_iff, E|exact Hb].
      - apply cmem_false. intros H. apply filter_In in H. destruct H as [H _]. apply cmem_iff in H. congruence. }
    rewrite E1. destruct (negb (cmem b (flatten r))); [|reflexivity]. f_equal.
    rewrite (cnt_nodup b cs' (cands_of_nodup _)), (cnt_nodup b cs (cands_of_nodup _)).
    assert (E2 : cmem b cs' = cmem b cs).
    { destruct (cmem b cs) eqn:E.
      - apply cmem_iff. apply subset_cands. split; [apply cmem_iff, Hb|apply cmem_iff, E].
      - apply cmem_false. intros H. apply subset_cands in H. destruct H as [_ H]. apply cmem_iff in H. unfold cs in E. congruence. }
    rewrite E2. reflexivity.
  - intros k k' Hk Hk' E. symmetry. apply ballot_eqb_coef; assumption.
  - intros r w Hr. rewrite flatten_sub. apply nodup_filter, (Hv r w Hr).
  - intros k [].
Qed.
