(* Lemmas about the stable sorts and get_n_best (Model/GetNBest.v). *)
From Coq Require Import List Arith Bool Lia Permutation Sorted.
From VL Require Import Model.GetNBest.
Import ListNotations.

Section P.
  Context {C V : Type}.
  Variable leb : V -> V -> bool.
  Hypothesis leb_total : forall a b, leb a b = true \/ leb b a = true.
  Hypothesis leb_trans : forall a b c, leb a b = true -> leb b c = true -> leb a c = true.

  Notation eqv := (@eqv V leb).
  Notation ltb := (@ltb V leb).
  Notation sort_desc := (@sort_desc C V leb).
  Notation insert_desc := (@insert_desc C V leb).

  Lemma leb_refl a : leb a a = true.
  Proof. destruct (leb_total a a); assumption. Qed.

  Lemma eqv_refl a : eqv a a = true.
  Proof. unfold GetNBest.eqv. rewrite leb_refl. reflexivity. Qed.

  Lemma ltb_leb a b : ltb a b = true -> leb a b = true.
  Proof.
    unfold GetNBest.ltb. intros H. destruct (leb_total a b) as [H1|H1]; [assumption|].
    rewrite H1 in H. discriminate.
  Qed.

  Lemma ltb_not_eqv a b : ltb a b = true -> eqv a b = false.
  Proof.
    unfold GetNBest.ltb, GetNBest.eqv. intros H. destruct (leb b a); [discriminate|].
    apply andb_false_r.
  Qed.

  Lemma ltb_not_eqv' a b : ltb a b = true -> eqv b a = false.
  Proof.
    unfold GetNBest.ltb, GetNBest.eqv. intros H. destruct (leb b a); [discriminate|].
    reflexivity.
  Qed.

  Lemma trichotomy a b : ltb a b = true \/ eqv a b = true \/ ltb b a = true.
  Proof.
    unfold GetNBest.ltb, GetNBest.eqv.
    destruct (leb a b) eqn:E1, (leb b a) eqn:E2; simpl; auto.
  Qed.

  Lemma ltb_leb_trans a b c : ltb a b = true -> leb b c = true -> ltb a c = true.
  Proof.
    unfold GetNBest.ltb. intros H1 H2. destruct (leb c a) eqn:E; [|reflexivity].
    rewrite (leb_trans _ _ _ H2 E) in H1. discriminate.
  Qed.

  Lemma leb_ltb_trans a b c : leb a b = true -> ltb b c = true -> ltb a c = true.
  Proof.
    unfold GetNBest.ltb. intros H1 H2. destruct (leb c a) eqn:E; [|reflexivity].
    rewrite (leb_trans _ _ _ E H1) in H2. discriminate.
  Qed.

  (* value order on items: a before b is fine when snd b <= snd a *)
  Definition ge_item (a b : C * V) : Prop := leb (snd b) (snd a) = true.
  Definition sorted_desc (l : list (C * V)) : Prop := StronglySorted ge_item l.

  Lemma insert_desc_perm x l : Permutation (insert_desc x l) (x :: l).
  Proof.
    induction l as [|y t IH]; simpl; [reflexivity|].
    destruct (leb (snd y) (snd x)); [reflexivity|].
    rewrite IH. apply perm_swap.
  Qed.

  Lemma sort_desc_perm l : Permutation (sort_desc l) l.
  Proof.
    induction l as [|x t IH]; simpl; [reflexivity|].
    rewrite insert_desc_perm. constructor. exact IH.
  Qed.

  Lemma sort_desc_length l : length (sort_desc l) = length l.
  Proof. apply Permutation_length, sort_desc_perm. Qed.

  Lemma insert_desc_sorted x l : sorted_desc l -> sorted_desc (insert_desc x l).
  Proof.
    unfold sorted_desc. induction l as [|y t IH]; simpl; intros Hs.
    - constructor; constructor.
    - destruct (leb (snd y) (snd x)) eqn:E.
      + constructor; [assumption|]. constructor; [exact E|].
        inversion Hs as [|? ? Hs' Hall]; subst.
        eapply Forall_impl; [|exact Hall]. intros z Hz. unfold ge_item in *.
        eapply leb_trans; eassumption.
      + inversion Hs as [|? ? Hs' Hall]; subst.
        constructor; [apply IH; assumption|].
        assert (Hp := insert_desc_perm x t).
        eapply Permutation_Forall; [apply Permutation_sym; exact Hp|].
        constructor; [|assumption]. unfold ge_item.
        destruct (leb_total (snd x) (snd y)); [assumption|congruence].
  Qed.

  Lemma sort_desc_sorted l : sorted_desc (sort_desc l).
  Proof.
    induction l as [|x t IH]; simpl; [constructor|]. apply insert_desc_sorted, IH.
  Qed.

  (* ---- the ascending stable sort *)
  Definition le_item (a b : C * V) : Prop := leb (snd a) (snd b) = true.
  Definition sorted_asc (l : list (C * V)) : Prop := StronglySorted le_item l.

  Lemma insert_asc_perm x l : Permutation (@insert_asc C V leb x l) (x :: l).
  Proof.
    induction l as [|y t IH]; simpl; [reflexivity|].
    destruct (leb (snd x) (snd y)); [reflexivity|]. rewrite IH. apply perm_swap.
  Qed.
  Lemma sort_asc_perm l : Permutation (@sort_asc C V leb l) l.
  Proof.
    induction l as [|x t IH]; simpl; [reflexivity|]. rewrite insert_asc_perm. constructor. exact IH.
  Qed.
  Lemma insert_asc_sorted x l : sorted_asc l -> sorted_asc (@insert_asc C V leb x l).
  Proof.
    unfold sorted_asc. induction l as [|y t IH]; simpl; intros Hs.
    - constructor; constructor.
    - inversion Hs as [|? ? Hs' Hall]; subst.
      destruct (leb (snd x) (snd y)) eqn:E.
      + constructor; [assumption|]. constructor; [exact E|].
        eapply Forall_impl; [|exact Hall]. intros z Hz. unfold le_item in *. eapply leb_trans; eassumption.
      + constructor; [apply IH; assumption|].
        eapply Permutation_Forall; [apply Permutation_sym, insert_asc_perm|].
        constructor; [|assumption]. unfold le_item.
        destruct (leb_total (snd x) (snd y)); [congruence|assumption].
  Qed.
  Lemma sort_asc_sorted l : sorted_asc (@sort_asc C V leb l).
  Proof. induction l as [|x t IH]; simpl; [constructor|]. apply insert_asc_sorted, IH. Qed.

  (* ---- three-way split of a descending list around a value *)
  Definition f_above (thr : V) (it : C * V) := ltb thr (snd it).
  Definition f_level (thr : V) (it : C * V) := eqv (snd it) thr.
  Definition f_below (thr : V) (it : C * V) := ltb (snd it) thr.

  Lemma filter_none {X} (f : X -> bool) l : Forall (fun x => f x = false) l -> filter f l = [].
  Proof.
    induction 1 as [|x t Hx _ IH]; simpl; [reflexivity|]. rewrite Hx. exact IH.
  Qed.

  Lemma filter_all {X} (f : X -> bool) l : Forall (fun x => f x = true) l -> filter f l = l.
  Proof.
    induction 1 as [|x t Hx _ IH]; simpl; [reflexivity|]. rewrite Hx, IH. reflexivity.
  Qed.

  Lemma split3 thr s : sorted_desc s ->
    s = filter (f_above thr) s ++ filter (f_level thr) s ++ filter (f_below thr) s.
  Proof.
    unfold sorted_desc. induction 1 as [|x t Hs IH Hall]; [reflexivity|].
    simpl. unfold f_above at 1, f_level at 1, f_below at 1.
    destruct (trichotomy thr (snd x)) as [H|[H|H]].
    - rewrite H, (ltb_not_eqv' _ _ H).
      assert (ltb (snd x) thr = false) as ->.
      { unfold GetNBest.ltb. rewrite (ltb_leb _ _ H). reflexivity. }
      simpl. f_equal. exact IH.
    - assert (Hx : eqv (snd x) thr = true).
      { unfold GetNBest.eqv in *. rewrite andb_comm. exact H. }
      rewrite Hx.
      assert (ltb thr (snd x) = false) as ->.
      { unfold GetNBest.ltb, GetNBest.eqv in *. apply andb_true_iff in Hx. destruct Hx as [-> _]. reflexivity. }
      assert (ltb (snd x) thr = false) as ->.
      { unfold GetNBest.ltb, GetNBest.eqv in *. apply andb_true_iff in H. destruct H as [-> _]. reflexivity. }
      assert (filter (f_above thr) t = []) as Ha.
      { apply filter_none. eapply Forall_impl; [|exact Hall]. intros z Hz. unfold ge_item in Hz.
        unfold f_above, GetNBest.ltb. apply negb_false_iff.
        apply andb_true_iff in Hx. destruct Hx as [Hx _]. eapply leb_trans; eassumption. }
      rewrite Ha in *. simpl in *. f_equal. exact IH.
    - rewrite H.
      assert (ltb thr (snd x) = false) as ->.
      { unfold GetNBest.ltb. rewrite (ltb_leb _ _ H). reflexivity. }
      rewrite (ltb_not_eqv _ _ H).
      assert (Hb : Forall (fun z => f_below thr z = true) t).
      { eapply Forall_impl; [|exact Hall]. intros z Hz. unfold ge_item in Hz. unfold f_below.
        eapply leb_ltb_trans; eassumption. }
      assert (filter (f_above thr) t = []) as ->.
      { apply filter_none. eapply Forall_impl; [|exact Hb]. intros z Hz. unfold f_below, f_above in *.
        unfold GetNBest.ltb. rewrite (ltb_leb _ _ Hz). reflexivity. }
      assert (filter (f_level thr) t = []) as ->.
      { apply filter_none. eapply Forall_impl; [|exact Hb]. intros z Hz. unfold f_below, f_level in *.
        apply ltb_not_eqv. exact Hz. }
      rewrite (filter_all _ _ Hb). reflexivity.
  Qed.

  Lemma filter_Forall {X} (f : X -> bool) l : Forall (fun x => f x = true) (filter f l).
  Proof. apply Forall_forall. intros x Hx. apply filter_In in Hx. tauto. Qed.

  Lemma sorted_app_l (a b : list (C * V)) : sorted_desc (a ++ b) -> sorted_desc a.
  Proof.
    unfold sorted_desc. induction a as [|x t IH]; simpl; intros H; [constructor|].
    inversion H as [|? ? Hs Hall]; subst. constructor; [apply IH; assumption|].
    apply Forall_app in Hall. tauto.
  Qed.

  Lemma first_eq_index_app thr a l :
    Forall (fun it => eqv (snd it) thr = false) a ->
    (exists x t, l = x :: t /\ eqv (snd x) thr = true) ->
    @first_eq_index C V leb thr (a ++ l) = length a.
  Proof.
    intros Ha (x & t & -> & Hx). induction Ha as [|y a' Hy _ IH]; simpl.
    - rewrite Hx. reflexivity.
    - rewrite Hy. f_equal. exact IH.
  Qed.

  Lemma nth_error_app3 {X} (a b c : list X) k x :
    nth_error (a ++ b ++ c) k = Some x ->
    (k < length a /\ In x a) \/
    (length a <= k < length a + length b /\ In x b) \/
    (length a + length b <= k /\ In x c).
  Proof.
    intros H. destruct (Nat.lt_ge_cases k (length a)) as [Hk|Hk].
    - left. split; [assumption|]. rewrite nth_error_app1 in H by assumption. eapply nth_error_In; eassumption.
    - rewrite nth_error_app2 in H by assumption.
      destruct (Nat.lt_ge_cases (k - length a) (length b)) as [Hk2|Hk2].
      + right; left. split; [lia|]. rewrite nth_error_app1 in H by assumption. eapply nth_error_In; eassumption.
      + right; right. split; [lia|]. rewrite nth_error_app2 in H by assumption. eapply nth_error_In; eassumption.
  Qed.

  Definition cand_of (it : C * V) : res C := Cand (fst it).

  Theorem get_n_best_spec votes n : 1 <= n ->
    let r := @get_n_best C V leb votes n in
    (length votes <= n ->
       exists s, Permutation s votes /\ sorted_desc s /\ r = map cand_of s) /\
    (n < length votes ->
       exists above level below thr,
         Permutation (above ++ level ++ below) votes /\
         sorted_desc above /\
         Forall (fun it => ltb thr (snd it) = true) above /\
         Forall (fun it => eqv (snd it) thr = true) level /\
         Forall (fun it => ltb (snd it) thr = true) below /\
         length above < n <= length above + length level /\
         (length above + length level = n -> r = map cand_of (above ++ level)) /\
         (n < length above + length level ->
            r = map cand_of above ++ repeat (TieR (map fst level)) (n - length above))).
  Proof.
    intros Hn r. subst r. unfold get_n_best.
    pose proof (sort_desc_perm votes) as Hperm.
    pose proof (sort_desc_sorted votes) as Hsorted.
    pose proof (sort_desc_length votes) as Hlen.
    set (s := sort_desc votes) in *.
    split.
    - intros Hle. exists s. split; [assumption|]. split; [assumption|].
      assert (Nat.ltb n (length s) = false) as -> by (apply Nat.ltb_ge; lia).
      reflexivity.
    - intros Hlt.
      assert (Nat.ltb n (length s) = true) as -> by (apply Nat.ltb_lt; lia).
      destruct (nth_error s (n - 1)) as [[c1 thr]|] eqn:E1;
        [|apply nth_error_None in E1; lia].
      destruct (nth_error s n) as [[c2 nxt]|] eqn:E2;
        [|apply nth_error_None in E2; lia].
      pose proof (split3 thr s Hsorted) as Hsplit.
      set (above := filter (f_above thr) s) in *.
      set (level := filter (f_level thr) s) in *.
      set (below := filter (f_below thr) s) in *.
      assert (Ha : Forall (fun it => ltb thr (snd it) = true) above) by apply filter_Forall.
      assert (Hl : Forall (fun it => eqv (snd it) thr = true) level) by apply filter_Forall.
      assert (Hb : Forall (fun it => ltb (snd it) thr = true) below) by apply filter_Forall.
      (* position of n-1 : inside level *)
      assert (Hpos : length above < n <= length above + length level).
      { rewrite Hsplit in E1. apply nth_error_app3 in E1.
        destruct E1 as [[Hk Hin]|[[Hk Hin]|[Hk Hin]]].
        - rewrite Forall_forall in Ha. specialize (Ha _ Hin). simpl in Ha.
          unfold GetNBest.ltb in Ha. rewrite leb_refl in Ha. discriminate.
        - lia.
        - rewrite Forall_forall in Hb. specialize (Hb _ Hin). simpl in Hb.
          unfold GetNBest.ltb in Hb. rewrite leb_refl in Hb. discriminate. }
      assert (Hnxt : eqv nxt thr = true <-> n < length above + length level).
      { rewrite Hsplit in E2. apply nth_error_app3 in E2.
        destruct E2 as [[Hk Hin]|[[Hk Hin]|[Hk Hin]]].
        - lia.
        - rewrite Forall_forall in Hl. specialize (Hl _ Hin). simpl in Hl. rewrite Hl. split; [lia|reflexivity].
        - rewrite Forall_forall in Hb. specialize (Hb _ Hin). simpl in Hb.
          rewrite (ltb_not_eqv _ _ Hb). split; [discriminate|lia]. }
      exists above, level, below, thr.
      split; [rewrite <- Hsplit; exact Hperm|].
      split; [rewrite Hsplit in Hsorted; eapply sorted_app_l; exact Hsorted|].
      split; [exact Ha|]. split; [exact Hl|]. split; [exact Hb|]. split; [exact Hpos|].
      split.
      + intros Heq. destruct (eqv nxt thr) eqn:En.
        * assert (n < length above + length level) by (apply Hnxt; reflexivity). lia.
        * rewrite Hsplit. rewrite app_assoc, firstn_app.
          rewrite app_length.
          replace (n - (length above + length level)) with 0 by lia. simpl.
          rewrite app_nil_r. rewrite firstn_all2 by (rewrite app_length; lia). reflexivity.
      + intros Hgt. apply Hnxt in Hgt. rewrite Hgt.
        fold (f_level thr). fold level.
        assert (Hidx : @first_eq_index C V leb thr s = length above).
        { rewrite Hsplit. rewrite first_eq_index_app; [reflexivity| |].
          - eapply Forall_impl; [|exact Ha]. intros z Hz. apply ltb_not_eqv'. exact Hz.
          - destruct level as [|x t] eqn:El; [simpl in Hpos; lia|].
            exists x, (t ++ below). split; [reflexivity|]. inversion Hl; assumption. }
        rewrite Hidx. rewrite Hsplit at 1. rewrite firstn_app, firstn_all, Nat.sub_diag. simpl.
        rewrite app_nil_r. reflexivity.
  Qed.


  (* ---- stability: candidates level with thr keep their input order *)
  Lemma eqv_leb_l a b c : eqv a c = true -> eqv b c = true -> leb a b = true.
  Proof.
    unfold GetNBest.eqv. intros H1 H2. apply andb_true_iff in H1, H2.
    destruct H1 as [H1 _], H2 as [_ H2]. eapply leb_trans; eassumption.
  Qed.

  Lemma insert_desc_filter_level thr x l :
    filter (f_level thr) (insert_desc x l) = filter (f_level thr) (x :: l).
  Proof.
    induction l as [|y t IH]; [reflexivity|].
    simpl. destruct (leb (snd y) (snd x)) eqn:E; [reflexivity|].
    simpl. rewrite IH. simpl.
    destruct (f_level thr x) eqn:Fx, (f_level thr y) eqn:Fy; try reflexivity.
    unfold f_level in *. rewrite (eqv_leb_l _ _ _ Fy Fx) in E. discriminate.
  Qed.

  Lemma sort_desc_filter_level thr l :
    filter (f_level thr) (sort_desc l) = filter (f_level thr) l.
  Proof.
    induction l as [|x t IH]; [reflexivity|].
    simpl sort_desc. rewrite insert_desc_filter_level. simpl. rewrite IH. reflexivity.
  Qed.

  (* the tie group of get_n_best, read off the *input* list *)
  Theorem get_n_best_tie_members votes n T :
    In (TieR T) (@get_n_best C V leb votes n) ->
    exists thr, T = map fst (filter (fun it => eqv (snd it) thr) votes) /\
                (exists c, In (c, thr) votes).
  Proof.
    unfold get_n_best. intros H.
    destruct (Nat.ltb n (length (sort_desc votes))).
    2:{ apply in_map_iff in H. destruct H as (? & H & _). discriminate. }
    destruct (nth_error (sort_desc votes) (n - 1)) as [[c1 thr]|] eqn:E1; [|destruct H].
    destruct (nth_error (sort_desc votes) n) as [[c2 nxt]|]; [|destruct H].
    destruct (eqv nxt thr).
    2:{ apply in_map_iff in H. destruct H as (? & H & _). discriminate. }
    apply in_app_or in H. destruct H as [H|H].
    { apply in_map_iff in H. destruct H as (? & H & _). discriminate. }
    apply repeat_spec in H. injection H as ->.
    exists thr. split.
    - f_equal. apply (sort_desc_filter_level thr).
    - exists c1. apply nth_error_In in E1.
      eapply Permutation_in; [apply sort_desc_perm|exact E1].
  Qed.

  (* ---- nobody with fewer votes is elected instead of one with more *)
  Theorem get_n_best_no_inversion votes n : 1 <= n -> NoDup (map fst votes) ->
    forall c v c' v', In (c, v) votes -> In (c', v') votes -> ltb v v' = true ->
    In (Cand c) (@get_n_best C V leb votes n) -> In (Cand c') (@get_n_best C V leb votes n).
  Proof.
    intros Hn Hnd c v c' v' Hin Hin' Hlt Hel.
    assert (Hval : forall l, Permutation l votes -> forall w, In (c, w) l -> w = v).
    { intros l Hp w Hw. apply (Permutation_in _ Hp) in Hw.
      clear - Hnd Hw Hin. induction votes as [|[k u] t IH]; [destruct Hin|].
      simpl in Hnd. inversion Hnd as [|? ? Hk Hnd']; subst.
      destruct Hin as [Hin|Hin], Hw as [Hw|Hw].
      - congruence.
      - injection Hin as -> ->. exfalso. apply Hk. apply in_map_iff. exists (c, w). split; [reflexivity|assumption].
      - injection Hw as -> ->. exfalso. apply Hk. apply in_map_iff. exists (c, v). split; [reflexivity|assumption].
      - apply IH; assumption. }
    destruct (get_n_best_spec votes n Hn) as [Hsmall Hbig].
    destruct (Nat.le_gt_cases (length votes) n) as [Hle|Hgt].
    - destruct (Hsmall Hle) as (s & Hp & _ & Hr). rewrite Hr.
      apply in_map_iff. exists (c', v'). split; [reflexivity|].
      eapply Permutation_in; [apply Permutation_sym; exact Hp|exact Hin'].
    - destruct (Hbig Hgt) as (above & level & below & thr & Hp & _ & Ha & Hl & Hb & Hpos & Heq & Htie).
      assert (Hin2 : In (c', v') (above ++ level ++ below)).
      { eapply Permutation_in; [apply Permutation_sym; exact Hp|exact Hin']. }
      assert (Habove : ltb thr v = true \/ (length above + length level = n /\ leb thr v = true)).
      { destruct (Nat.eq_dec (length above + length level) n) as [He|Hne].
        - rewrite (Heq He) in Hel. apply in_map_iff in Hel. destruct Hel as ([c0 v0] & Hc0 & Hin0).
          unfold cand_of in Hc0. simpl in Hc0. injection Hc0 as ->.
          assert (v0 = v) as ->.
          { apply (Hval _ Hp). rewrite app_assoc. apply in_or_app. left. exact Hin0. }
          apply in_app_or in Hin0. destruct Hin0 as [H|H].
          + left. rewrite Forall_forall in Ha. apply (Ha _ H).
          + right. split; [exact He|]. rewrite Forall_forall in Hl. specialize (Hl _ H). simpl in Hl.
            unfold GetNBest.eqv in Hl. apply andb_true_iff in Hl. tauto.
        - rewrite Htie in Hel by lia. apply in_app_or in Hel. destruct Hel as [H|H].
          + apply in_map_iff in H. destruct H as ([c0 v0] & Hc0 & Hin0).
            unfold cand_of in Hc0. simpl in Hc0. injection Hc0 as ->.
            assert (v0 = v) as ->.
            { apply (Hval _ Hp). apply in_or_app. left. exact Hin0. }
            left. rewrite Forall_forall in Ha. apply (Ha _ Hin0).
          + apply repeat_spec in H. discriminate. }
      assert (Hv' : ltb thr v' = true).
      { destruct Habove as [H|[_ H]].
        - eapply ltb_leb_trans; [exact H|apply ltb_leb; exact Hlt].
        - eapply leb_ltb_trans; eassumption. }
      assert (Hina : In (c', v') above).
      { apply in_app_or in Hin2. destruct Hin2 as [H|H]; [exact H|]. exfalso.
        apply in_app_or in H. destruct H as [H|H].
        - rewrite Forall_forall in Hl. specialize (Hl _ H). simpl in Hl.
          rewrite (ltb_not_eqv' _ _ Hv') in Hl. discriminate.
        - rewrite Forall_forall in Hb. specialize (Hb _ H). simpl in Hb.
          apply ltb_leb in Hb. unfold GetNBest.ltb in Hv'. rewrite Hb in Hv'. discriminate. }
      destruct (Nat.eq_dec (length above + length level) n) as [He|Hne].
      + rewrite (Heq He). apply in_map_iff. exists (c', v'). split; [reflexivity|].
        apply in_or_app. left. exact Hina.
      + rewrite Htie by lia. apply in_or_app. left. apply in_map_iff. exists (c', v'). split; [reflexivity|exact Hina].
  Qed.

  (* ---- a strict unique maximum wins the single seat outright *)
  Hypothesis Cdec : forall a b : C, {a = b} + {a <> b}.
  Theorem get_n_best_unique_max votes c v : NoDup (map fst votes) -> In (c, v) votes ->
    (forall c' v', In (c', v') votes -> c' <> c -> ltb v' v = true) ->
    @get_n_best C V leb votes 1 = [Cand c].
  Proof.
    intros Hnd Hin Hmax.
    destruct (get_n_best_spec votes 1 (le_n 1)) as [Hsmall Hbig].
    destruct (Nat.le_gt_cases (length votes) 1) as [Hle|Hgt].
    - destruct (Hsmall Hle) as (s & Hp & _ & ->).
      destruct votes as [|x [|y t]]; simpl in *; [destruct Hin| |lia].
      destruct Hin as [->|[]]. apply Permutation_sym, Permutation_length_1_inv in Hp. subst s. reflexivity.
    - destruct (Hbig Hgt) as (above & level & below & thr & Hp & _ & Ha & Hl & Hb & Hpos & Heq & Htie).
      assert (above = []) as -> by (destruct above; [reflexivity|simpl in Hpos; lia]).
      simpl in *.
      assert (Hin2 : In (c, v) (level ++ below)) by (eapply Permutation_in; [apply Permutation_sym, Hp|exact Hin]).
      assert (Hnd2 : NoDup (map fst (level ++ below))).
      { eapply Permutation_NoDup; [apply Permutation_map, Permutation_sym, Hp|exact Hnd]. }
      (* every element of level has value == thr; c is the strict maximum, so level = [(c, v)] *)
      assert (Hlevel : forall y w, In (y, w) level -> y = c).
      { intros y w Hy. destruct (Cdec y c) as [E|E]; [exact E|exfalso].
        assert (Hyv : In (y, w) votes) by (eapply Permutation_in; [exact Hp|apply in_or_app; left; exact Hy]).
        pose proof (Hmax y w Hyv E) as Hlt.
        rewrite Forall_forall in Hl. pose proof (Hl _ Hy) as Hw. simpl in Hw.
        (* c sits in level or below: its value is <= thr == w < v *)
        apply in_app_or in Hin2. destruct Hin2 as [Hc|Hc].
        - pose proof (Hl _ Hc) as Hv. simpl in Hv.
          assert (leb v w = true) by (eapply eqv_leb_l; eassumption).
          unfold GetNBest.ltb in Hlt. rewrite H in Hlt. discriminate.
        - rewrite Forall_forall in Hb. pose proof (Hb _ Hc) as Hv. simpl in Hv.
          assert (leb v w = true).
          { apply ltb_leb in Hv. unfold GetNBest.eqv in Hw. apply andb_true_iff in Hw. destruct Hw as [_ Hw].
            eapply leb_trans; eassumption. }
          unfold GetNBest.ltb in Hlt. rewrite H in Hlt. discriminate. }
      assert (Hone : level = [(c, v)] \/ (2 <= length level)%nat \/ level = []).
      { destruct level as [|[y w] [|z t]]; [right; right; reflexivity| |right; left; simpl; lia].
        left. pose proof (Hlevel y w (or_introl eq_refl)) as ->. f_equal. f_equal.
        assert (Hyv : In (c, w) votes) by (eapply Permutation_in; [exact Hp|left; reflexivity]).
        clear - Hnd Hin Hyv. induction votes as [|[k u] t IH]; [destruct Hin|].
        simpl in Hnd. inversion Hnd as [|? ? Hk Hnd']; subst.
        destruct Hin as [Hin|Hin], Hyv as [Hy|Hy].
        - congruence.
        - injection Hin as -> ->. exfalso. apply Hk. apply in_map_iff. exists (c, w). auto.
        - injection Hy as -> ->. exfalso. apply Hk. apply in_map_iff. exists (c, v). auto.
        - apply IH; assumption. }
      destruct Hone as [ -> | [ H2 | -> ] ].
      + rewrite Heq by reflexivity. reflexivity.
      + exfalso. destruct level as [|[y w] [|[z u] t]]; simpl in H2; try lia.
        pose proof (Hlevel y w (or_introl eq_refl)). pose proof (Hlevel z u (or_intror (or_introl eq_refl))). subst.
        simpl in Hnd2. inversion Hnd2 as [|? ? Hk _]. apply Hk. left. reflexivity.
      + simpl in Hpos. lia.
  Qed.

  (* conversely: a plain single winner is a strict maximum *)
  Theorem get_n_best_1_cand votes c rest : NoDup (map fst votes) ->
    @get_n_best C V leb votes 1 = Cand c :: rest ->
    rest = [] /\ exists v, In (c, v) votes /\
      forall c' v', In (c', v') votes -> c' <> c -> ltb v' v = true.
  Proof.
    intros Hnd Hr.
    destruct (get_n_best_spec votes 1 (le_n 1)) as [Hsmall Hbig].
    destruct (Nat.le_gt_cases (length votes) 1) as [Hle|Hgt].
    - destruct (Hsmall Hle) as (s & Hp & _ & Hs). rewrite Hr in Hs.
      destruct votes as [|[c0 v0] [|y t]]; simpl in Hle; try lia.
      + apply Permutation_sym, Permutation_nil in Hp. subst s. discriminate.
      + apply Permutation_sym, Permutation_length_1_inv in Hp. subst s. simpl in Hs. injection Hs as -> ->.
        split; [reflexivity|]. exists v0. split; [left; reflexivity|].
        intros c' v' [H|[]] Hne. injection H as -> _. congruence.
    - destruct (Hbig Hgt) as (above & level & below & thr & Hp & _ & Ha & Hl & Hb & Hpos & Heq & Htie).
      assert (above = []) as -> by (destruct above; [reflexivity|simpl in Hpos; lia]).
      simpl in *.
      destruct level as [|[c0 v0] [|y t]].
      + simpl in Hpos. lia.
      + rewrite (Heq eq_refl) in Hr. simpl in Hr. injection Hr as -> <-. split; [reflexivity|].
        exists v0. split; [eapply Permutation_in; [exact Hp|left; reflexivity]|].
        intros c' v' Hin Hne.
        assert (Hin2 : In (c', v') ((c, v0) :: below)) by (eapply Permutation_in; [apply Permutation_sym, Hp|exact Hin]).
        destruct Hin2 as [H|H]; [injection H as -> _; congruence|].
        rewrite Forall_forall in Hb. pose proof (Hb _ H) as Hlt. simpl in Hlt.
        inversion Hl as [|? ? Hv0 _]; subst. simpl in Hv0.
        unfold GetNBest.eqv in Hv0. apply andb_true_iff in Hv0. destruct Hv0 as [_ Hv0].
        eapply ltb_leb_trans; eassumption.
      + rewrite Htie in Hr by (simpl; lia). simpl in Hr. discriminate.
  Qed.
End P.
