(* C10, ballot order for MajorityJudgment (Model/Cardinal.v, both tie-breakers): the same error, or [res_equiv] selections,
   whatever the insertion order of the score profile.  Built on Proofs/ScoreOrder_proofs.v (the corrected score counts of the
   two runs have the same lookups, candidate by candidate): the medians are == ; the two first-stage selections have the same
   shape (the same number of plain winners - a permutation -, the same number of tie seats, the same tie members); the
   candidates of the tie carry == medians, so MJ+ counts the same proponents; the default tie-breaker removes the same number of
   median grades from dictionaries with the same lookups, round by round. *)
From Coq Require Import ZArith QArith Qround Qabs Qreduction List Bool Arith Lia Lqa Permutation Sorted Setoid.
From VL Require Import Prelude.PyDict Model.GetNBest Model.Convert Model.Cardinal Proofs.Dict_proofs Proofs.GetNBest_proofs Proofs.QOrd
     Proofs.LRScale_proofs Proofs.MJ_proofs Proofs.MJ_removal_proofs Proofs.Order_proofs Proofs.GnbSim_proofs
     Proofs.CondorcetOrder_proofs Proofs.QDOrder_proofs Proofs.STVOrder_proofs Proofs.Shape2_proofs Proofs.PAVRename_proofs
     Proofs.ApprovalOrder_proofs Proofs.ScoreOrder_proofs.
Import ListNotations.
Open Scope Q_scope.

(* ------------------------------------------------------------------ normal form of a selection *)
Definition nf (cs T : list C) (k : nat) : list (res C) := map Cand cs ++ repeat (TieR T) k.

Lemma gnb_orelD_shape (d d' : list (C * Q)) n : orelD Qeq d d' -> (1 <= n)%nat ->
  exists cs cs' T T' k, get_n_best Qle_bool d n = nf cs T k /\ get_n_best Qle_bool d' n = nf cs' T' k /\
    Permutation cs cs' /\ ((1 <= k)%nat -> Permutation T T').
Proof.
  intros (N & N' & E) Hn. rewrite <- (gnb_nrm d n), <- (gnb_nrm d' n).
  assert (P : Permutation (nrm d) (nrm d')).
  { apply nrm_perm; [exact N|exact N'| |].
    - intros c. rewrite <- !dmem_In. unfold dmem. specialize (E c). destruct (dget d c), (dget d' c); try contradiction; tauto.
    - intros c. unfold dget_or. specialize (E c). destruct (dget d c), (dget d' c); try contradiction; [exact E|reflexivity]. }
  assert (Nn : NoDup (map fst (nrm d))) by (rewrite nrm_keys; exact N).
  destruct (gnb_perm_shape (nrm d) (nrm d') n Hn Nn P) as (cs & cs' & T & T' & k & E1 & E2 & Pcs & _ & PT).
  exists cs, cs', T, T', k. repeat split; assumption.
Qed.

Lemma nf_count_tie cs T k : count_tie (nf cs T k) = k.
Proof. apply count_tie_nf. Qed.
Lemma nf_untied cs T k : length (filter (fun r : res C => match r with Cand _ => true | _ => false end) (nf cs T k)) = length cs.
Proof.
  unfold nf. rewrite filter_app, app_length.
  assert (H1 : filter (fun r : res C => match r with Cand _ => true | _ => false end) (map Cand cs) = map Cand cs)
    by (induction cs as [|c cs IH]; [reflexivity|cbn [map filter]; rewrite IH; reflexivity]).
  assert (H2 : filter (fun r : res C => match r with Cand _ => true | _ => false end) (repeat (TieR T) k) = [])
    by (induction k as [|k IH]; [reflexivity|exact IH]).
  rewrite H1, H2, map_length. cbn. lia.
Qed.
Lemma nf_firstn cs T k : firstn (length cs) (nf cs T k) = map Cand cs.
Proof. unfold nf. rewrite <- (map_length Cand cs), firstn_app, Nat.sub_diag, firstn_all. cbn. apply app_nil_r. Qed.
Lemma nf_firstn' cs T k m : length cs = m -> firstn m (nf cs T k) = map Cand cs.
Proof. intros <-. apply nf_firstn. Qed.
Lemma nf_length cs T k : length (nf cs T k) = (length cs + k)%nat.
Proof. unfold nf. rewrite app_length, map_length, repeat_length. reflexivity. Qed.
Lemma cands_of_map (cs : list C) : flat_map (fun r : res C => match r with Cand c => [c] | _ => [] end) (map Cand cs) = cs.
Proof. induction cs as [|c cs IH]; [reflexivity|]. cbn [map flat_map app]. rewrite IH. reflexivity. Qed.
Lemma rev_repeat {A} (x : A) k : rev (repeat x k) = repeat x k.
Proof.
  induction k as [|k IH]; [reflexivity|]. cbn [repeat rev]. rewrite IH. clear IH.
  induction k as [|k IH]; [reflexivity|]. cbn [repeat app]. rewrite IH. reflexivity.
Qed.
Lemma nf_last_tie cs T k : last_tie (nf cs T k) = match k with O => None | S _ => Some T end.
Proof.
  unfold last_tie, nf. rewrite rev_app_distr, rev_repeat. destruct k as [|k]; [|reflexivity]. cbn [repeat app].
  rewrite <- map_rev. destruct (rev cs); reflexivity.
Qed.

(* ------------------------------------------------------------------ res_equiv constructions *)
Lemma res_equiv_app_cands cs cs' X X' : Permutation cs cs' -> res_equiv X X' -> res_equiv (map Cand cs ++ X) (map Cand cs' ++ X').
Proof.
  intros P [F S]. split.
  - apply Forall2_app; [|exact F]. pose proof (Permutation_length P) as L. clear P. revert cs' L.
    induction cs as [|c cs IH]; intros [|c' cs'] L; try discriminate; cbn [map]; constructor; [exact I|]. apply IH. injection L as L. exact L.
  - intros c. rewrite !in_app_iff, !in_map_iff, S. split; intros [(x & [= ->] & Hx)|H]; try (right; exact H); left; exists c; (split; [reflexivity|]).
    + apply (Permutation_in _ P Hx).
    + apply (Permutation_in _ (Permutation_sym P) Hx).
Qed.
Lemma res_equiv_repeat T T' k : Permutation T T' -> res_equiv (repeat (TieR T) k) (repeat (TieR T') k).
Proof.
  intros P. split.
  - induction k; cbn [repeat]; constructor; [exact P|assumption].
  - intros c. split; intros H; apply repeat_spec in H; discriminate.
Qed.
Lemma res_equiv_nil : res_equiv [] [].
Proof. split; [constructor|]. intros c. reflexivity. Qed.
Lemma res_equiv_nf cs cs' T T' k : Permutation cs cs' -> ((1 <= k)%nat -> Permutation T T') -> res_equiv (nf cs T k) (nf cs' T' k).
Proof.
  intros P PT. unfold nf. apply res_equiv_app_cands; [exact P|]. destruct k as [|k]; [apply res_equiv_nil|]. apply res_equiv_repeat, PT. lia.
Qed.

(* ------------------------------------------------------------------ dictionaries: filters, keyed maps, exact content *)
Lemma orelD_filter {X} (RV : X -> X -> Prop) (P P' : C -> bool) (D D' : list (C * X)) : (forall c, P c = P' c) -> orelD RV D D' ->
  orelD RV (filter (fun cd => P (fst cd)) D) (filter (fun cd => P' (fst cd)) D').
Proof.
  intros HP (N & N' & E). split; [apply filter_keys_NoDup_gen, N|]. split; [apply filter_keys_NoDup_gen, N'|].
  intros c. rewrite !dget_filter_keys, <- (HP c). destruct (P c); [apply E|exact I].
Qed.

Lemma dget_mapk {X Y} (F : C -> X -> Y) (D : list (C * X)) c :
  dget (map (fun cd : C * X => (fst cd, F (fst cd) (snd cd))) D) c = option_map (F c) (dget D c).
Proof.
  induction D as [|[k x] D IH]; cbn [map dget fst snd]; [reflexivity|].
  destruct (ceqb c k) eqn:E; [apply ceqb_eq in E; subst; reflexivity|exact IH].
Qed.
Lemma orelD_mapk {X Y} (RV : X -> X -> Prop) (RW : Y -> Y -> Prop) (F F' : C -> X -> Y) D D' :
  (forall c x y, RV x y -> RW (F c x) (F' c y)) -> orelD RV D D' ->
  orelD RW (map (fun cd : C * X => (fst cd, F (fst cd) (snd cd))) D) (map (fun cd : C * X => (fst cd, F' (fst cd) (snd cd))) D').
Proof.
  intros HF (N & N' & E). split; [rewrite map_map; exact N|]. split; [rewrite map_map; exact N'|].
  intros c. rewrite !dget_mapk. specialize (E c). destruct (dget D c), (dget D' c); cbn [option_map]; try contradiction; [apply HF, E|exact I].
Qed.

Lemma dget_In' {X} (D : list (C * X)) c x : dget D c = Some x -> In (c, x) D.
Proof. apply dget_In. Qed.

Lemma orelD_eq_perm {X} (D D' : list (C * X)) : orelD eq D D' -> Permutation D D'.
Proof.
  intros (N & N' & E). apply NoDup_Permutation; [apply (NoDup_map_inv fst), N|apply (NoDup_map_inv fst), N'|].
  intros [c x]. split; intros H.
  - pose proof (In_dget D c x N H) as G. specialize (E c). rewrite G in E. destruct (dget D' c) as [y|] eqn:G'; [|contradiction]. subst y. apply dget_In', G'.
  - pose proof (In_dget D' c x N' H) as G. specialize (E c). rewrite G in E. destruct (dget D c) as [y|] eqn:G'; [|contradiction]. subst y. apply dget_In', G'.
Qed.

Lemma orelD_nil_r {X} (RV : X -> X -> Prop) (D' : list (C * X)) : orelD RV [] D' -> D' = [].
Proof.
  intros (_ & _ & E). destruct D' as [|[c x] t]; [reflexivity|]. specialize (E c). cbn [dget] in E. rewrite ceqb_refl in E. contradiction.
Qed.

(* functions of the values that are equal on related values: the lists of values are permutations of each other *)
Lemma vals_perm {X} (RV : X -> X -> Prop) (F F' : C -> X -> Z) (D D' : list (C * X)) : (forall c x y, RV x y -> F c x = F' c y) -> orelD RV D D' ->
  Permutation (map (fun cd => F (fst cd) (snd cd)) D) (map (fun cd => F' (fst cd) (snd cd)) D').
Proof.
  intros HF H. pose proof (orelD_eq_perm _ _ (orelD_mapk RV eq F F' D D' HF H)) as P.
  apply (Permutation_map snd) in P. rewrite !map_map in P. exact P.
Qed.

Lemma zmax_fold_perm l l' : Permutation l l' -> forall a, fold_left Z.max l a = fold_left Z.max l' a.
Proof.
  induction 1 as [|x l l' _ IH|x y l|l l' l'' _ IH1 _ IH2]; intros a; simpl; [reflexivity|apply IH| |rewrite IH1; apply IH2].
  f_equal. lia.
Qed.
Lemma zadd_fold_perm l l' : Permutation l l' -> forall a, fold_left Z.add l a = fold_left Z.add l' a.
Proof.
  induction 1 as [|x l l' _ IH|x y l|l l' l'' _ IH1 _ IH2]; intros a; simpl; [reflexivity|apply IH| |rewrite IH1; apply IH2].
  f_equal. lia.
Qed.
Definition lmin (l : list Z) : Z := match l with [] => 0%Z | x :: t => fold_left Z.min t x end.
Lemma fold_zmin_spec t : forall x, let m := fold_left Z.min t x in (m = x \/ In m t) /\ (m <= x)%Z /\ forall z, In z t -> (m <= z)%Z.
Proof.
  induction t as [|y t IH]; intros x; cbn [fold_left]; cbv zeta; [split; [left; reflexivity|split; [lia|intros z []]]|].
  destruct (IH (Z.min x y)) as (H1 & H2 & H3). cbv zeta in H1, H2, H3. split; [|split].
  - destruct H1 as [H1|H1]; [|right; right; exact H1]. destruct (Z.min_spec x y) as [[_ E]|[_ E]]; [left; rewrite H1; exact E|right; left; rewrite H1, E; reflexivity].
  - lia.
  - intros z [<-|Hz]; [lia|apply H3, Hz].
Qed.
Lemma lmin_perm l l' : Permutation l l' -> lmin l = lmin l'.
Proof.
  intros P. assert (S : forall a, a <> [] -> In (lmin a) a /\ forall z, In z a -> (lmin a <= z)%Z).
  { intros [|x t] Hne; [congruence|]. cbn [lmin]. destruct (fold_zmin_spec t x) as (H1 & H2 & H3). cbv zeta in H1, H2, H3. split.
    - destruct H1 as [->|H1]; [left; reflexivity|right; exact H1].
    - intros z [<-|Hz]; [exact H2|apply H3, Hz]. }
  destruct l as [|x t].
  - apply Permutation_nil in P. subst. reflexivity.
  - assert (Hne' : l' <> []) by (intros ->; apply Permutation_sym, Permutation_nil in P; discriminate).
    destruct (S (x :: t) ltac:(discriminate)) as [I1 L1]. destruct (S l' Hne') as [I2 L2].
    apply Z.le_antisymm; [apply L1, (Permutation_in _ (Permutation_sym P) I2)|apply L2, (Permutation_in _ P I1)].
Qed.

(* ------------------------------------------------------------------ sums of counts selected by the score *)
Lemma filter_sum_gsum (p : Q -> bool) (d : cscores) :
  fold_left Z.add (map snd (filter (fun sn : Q * Z => p (fst sn)) d)) 0%Z = gsum (fun s n => if p s then n else 0%Z) d.
Proof.
  assert (G : forall (l : list Z) a, fold_left Z.add l a = (a + fold_right Z.add 0 l)%Z).
  { induction l as [|x l IH]; intros a; simpl; [lia|]. rewrite IH. lia. }
  rewrite G. unfold gsum. induction d as [|[s n] d IH]; [reflexivity|]. cbn [filter fst snd fold_right].
  destruct (p s); cbn [map fold_right snd]; lia.
Qed.
Lemma filter_sum_resp (p p' : Q -> bool) d d' : (forall a b, a == b -> p a = p' b) -> cse d d' ->
  fold_left Z.add (map snd (filter (fun sn : Q * Z => p (fst sn)) d)) 0%Z = fold_left Z.add (map snd (filter (fun sn : Q * Z => p' (fst sn)) d')) 0%Z.
Proof.
  intros Hp H. rewrite !filter_sum_gsum.
  transitivity (gsum (fun s n => if p s then n else 0%Z) d').
  - apply gsum_eq; [|exact H]. intros a b k Hab. rewrite (Hp a b Hab), <- (Hp b b (Qeq_refl b)). reflexivity.
  - unfold gsum. clear H. induction d' as [|[s n] t IH]; [reflexivity|]. cbn [fold_right fst snd]. rewrite IH, (Hp s s (Qeq_refl s)). reflexivity.
Qed.

Lemma counts_over_resp d d' thr thr' : cse d d' -> thr == thr' -> counts_over d thr = counts_over d' thr'.
Proof.
  intros H Ht. unfold counts_over. apply (filter_sum_resp (fun s => Qle_bool thr s) (fun s => Qle_bool thr' s)); [|exact H].
  intros a b Hab. apply Qle_bool_resp; assumption.
Qed.

(* ------------------------------------------------------------------ the tie members of a selection carry == values *)
Lemma eqv_Qeq a b : eqv Qle_bool a b = true -> a == b.
Proof. unfold eqv. rewrite andb_true_iff, !Qle_bool_iff. intros [H1 H2]. apply Qle_antisym; assumption. Qed.

Lemma gnb_tie_eqv (d : list (C * Q)) n T : (1 <= n)%nat -> NoDup (map fst d) -> In (TieR T) (get_n_best Qle_bool d n) ->
  forall c1 c2, In c1 T -> In c2 T -> dget_or d c1 0 == dget_or d c2 0.
Proof.
  intros Hn Hnd Hi.
  destruct (get_n_best_spec Qle_bool Qle_bool_total Qle_bool_trans d n Hn) as [Hsmall Hbig]. cbv zeta in Hsmall, Hbig.
  assert (Hno : forall l : list (C * Q), ~ In (TieR T) (map (@cand_of C Q) l)).
  { intros l H. apply in_map_iff in H. destruct H as (x & Hx & _). discriminate. }
  destruct (Nat.le_gt_cases (length d) n) as [Hle|Hgt].
  - destruct (Hsmall Hle) as (s & _ & _ & Hr). rewrite Hr in Hi. exfalso. exact (Hno _ Hi).
  - destruct (Hbig Hgt) as (above & level & below & thr & Hp & _ & _ & Hlev & _ & Hlen & Hex & Htie).
    destruct (Nat.eq_dec (length above + length level) n) as [He|Hne].
    + rewrite (Hex He) in Hi. exfalso. exact (Hno _ Hi).
    + rewrite (Htie ltac:(lia)) in Hi. apply in_app_or in Hi. destruct Hi as [Hi|Hi]; [exfalso; exact (Hno _ Hi)|].
      apply repeat_spec in Hi. injection Hi as ->.
      assert (Hv : forall c, In c (map fst level) -> dget_or d c 0 == thr).
      { intros c Hc. apply in_map_iff in Hc. destruct Hc as ([c0 v] & <- & Hcv). cbn [fst].
        rewrite Forall_forall in Hlev. pose proof (Hlev _ Hcv) as Hev. cbn [snd] in Hev.
        rewrite (In_dget_or d c0 v Hnd); [apply eqv_Qeq, Hev|]. apply (Permutation_in _ Hp). apply in_or_app. right. apply in_or_app. left. exact Hcv. }
      intros c1 c2 H1 H2. rewrite (Hv c1 H1), (Hv c2 H2). reflexivity.
Qed.

(* ------------------------------------------------------------------ MJ+ *)
Lemma mj_plus_resp sub sub' n : orelD cse sub sub' ->
  (forall c d c' d', In (c, d) sub -> In (c', d') sub' -> orel Qeq (aggregate_one FMedianLow d) (aggregate_one FMedianLow d')) ->
  orel res_equiv (mj_plus sub n) (mj_plus sub' n).
Proof.
  intros H Hmed. unfold mj_plus. destruct sub as [|[c0 d0] sub1].
  - rewrite (orelD_nil_r _ _ H). reflexivity.
  - destruct sub' as [|[c0' d0'] sub1'].
    { exfalso. destruct H as (_ & _ & E). specialize (E c0). cbn [dget] in E. rewrite ceqb_refl in E. exact E. }
    pose proof (Hmed c0 d0 c0' d0' (or_introl eq_refl) (or_introl eq_refl)) as Hm.
    destruct (aggregate_one FMedianLow d0) as [med|e], (aggregate_one FMedianLow d0') as [med'|e']; cbn [orel] in Hm; try contradiction; [|exact Hm].
    cbn [orel]. apply gnb_orelD.
    apply (orelD_mapk cse Qeq (fun _ d => inject_Z (counts_over d med)) (fun _ d => inject_Z (counts_over d med'))); [|exact H].
    intros c x y Hxy. rewrite (counts_over_resp x y med med' Hxy Hm). reflexivity.
Qed.

(* ------------------------------------------------------------------ the default tie-breaker *)
Lemma closest_change_resp sub sub' med med' : orelD cse sub sub' -> orelD Qeq med med' -> closest_change sub med = closest_change sub' med'.
Proof.
  intros H Hm. unfold closest_change. cbv zeta.
  match goal with |- match map ?F sub with _ => _ end = match map ?F' sub' with _ => _ end =>
    change (lmin (map F sub) = lmin (map F' sub')); apply lmin_perm;
    apply (vals_perm cse (fun c d => F (c, d)) (fun c d => F' (c, d)) sub sub'); [|exact H] end.
  intros c x y Hxy. cbn [fst snd].
  assert (Em : dget_or med c 0 == dget_or med' c 0).
  { destruct Hm as (_ & _ & E). specialize (E c). unfold dget_or. destruct (dget med c), (dget med' c); try contradiction; [exact E|reflexivity]. }
  rewrite (cse_total x y Hxy).
  rewrite (filter_sum_resp (fun s => Qle_bool (dget_or med c 0) s) (fun s => Qle_bool (dget_or med' c 0) s) x y)
    by (exact Hxy || (intros a b Hab; apply Qle_bool_resp; assumption)).
  rewrite (filter_sum_resp (fun s => negb (Qle_bool s (dget_or med c 0))) (fun s => negb (Qle_bool s (dget_or med' c 0))) x y)
    by (exact Hxy || (intros a b Hab; f_equal; apply Qle_bool_resp; assumption)).
  reflexivity.
Qed.

Lemma totals_perm sub sub' : orelD cse sub sub' ->
  Permutation (map (fun cd : C * cscores => cs_total (snd cd)) sub) (map (fun cd : C * cscores => cs_total (snd cd)) sub').
Proof. intros H. apply (vals_perm cse (fun _ d => cs_total d) (fun _ d => cs_total d) sub sub'); [|exact H]. intros c x y Hxy. apply cse_total, Hxy. Qed.

Lemma cmem_perm_eq T T' : Permutation T T' -> forall c, cmem c T = cmem c T'.
Proof. intros P c. apply cmem_perm, P. Qed.

Lemma mj_default_resp fuel : forall sub sub' n, orelD cse sub sub' -> orel res_equiv (mj_default fuel sub n) (mj_default fuel sub' n).
Proof.
  induction fuel as [|fu IH]; intros sub sub' n H; [reflexivity|]. cbn [mj_default]. cbv zeta.
  rewrite (zmax_fold_perm _ _ (totals_perm sub sub' H) 0%Z).
  destruct (fold_left Z.max (map (fun cd : C * cscores => cs_total (snd cd)) sub') 0 <=? 0)%Z; [reflexivity|].
  pose proof (aggregate_resp FMedianLow sub sub' H) as Ha.
  destruct (aggregate FMedianLow sub) as [med|e], (aggregate FMedianLow sub') as [med'|e']; cbn [orel] in Ha; try contradiction; [|exact Ha].
  destruct n as [|n].
  { rewrite !STVOrder_proofs.gnb_zero. cbn. apply res_equiv_nil. }
  destruct (gnb_orelD_shape med med' (S n) Ha ltac:(lia)) as (cs & cs' & T & T' & k & E1 & E2 & Pcs & PT).
  rewrite E1, E2, !nf_count_tie, !nf_untied, <- (Permutation_length Pcs).
  destruct k as [|k].
  { cbn [Nat.eqb orel]. apply res_equiv_nf; [exact Pcs|exact PT]. }
  cbn [Nat.eqb]. specialize (PT ltac:(lia)).
  destruct (Nat.ltb 0 (length cs)) eqn:Hlt.
  - rewrite (nf_firstn' cs T (S k) (length cs) eq_refl), (nf_firstn' cs' T' (S k) (length cs) (eq_sym (Permutation_length Pcs))), !cands_of_map.
    assert (Hf : orelD cse (filter (fun cd : C * cscores => negb (cmem (fst cd) cs)) sub) (filter (fun cd : C * cscores => negb (cmem (fst cd) cs')) sub')).
    { apply (orelD_filter cse (fun c => negb (cmem c cs)) (fun c => negb (cmem c cs'))); [|exact H]. intros c. rewrite (cmem_perm_eq cs cs' Pcs c). reflexivity. }
    pose proof (IH _ _ (S n - length cs)%nat Hf) as Hr.
    destruct (mj_default fu _ (S n - length cs)) as [r|e], (mj_default fu _ (S n - length cs)) as [r'|e']; cbn [orel] in Hr; try contradiction; [|exact Hr].
    cbn [orel]. apply res_equiv_app_cands; assumption.
  - apply Nat.ltb_ge in Hlt. destruct cs as [|c0 cs0]; [|cbn in Hlt; lia]. apply Permutation_nil in Pcs. subst cs'.
    unfold nf. cbn [map app repeat].
    assert (Hf : orelD cse (filter (fun cd : C * cscores => cmem (fst cd) T) sub) (filter (fun cd : C * cscores => cmem (fst cd) T') sub')).
    { apply (orelD_filter cse (fun c => cmem c T) (fun c => cmem c T')); [|exact H]. apply cmem_perm_eq, PT. }
    rewrite (closest_change_resp _ _ med med' Hf Ha).
    set (ch := if (closest_change _ med' =? 0)%Z then 1%Z else closest_change _ med').
    apply IH.
    apply (orelD_mapk cse cse
             (fun c d => cs_set d (dget_or med c 0%Q) (match cs_get d (dget_or med c 0%Q) with Some k0 => k0 | None => 0%Z end - ch)%Z)
             (fun c d => cs_set d (dget_or med' c 0%Q) (match cs_get d (dget_or med' c 0%Q) with Some k0 => k0 | None => 0%Z end - ch)%Z)); [|exact Hf].
    intros c x y Hxy.
    assert (Em : dget_or med c 0 == dget_or med' c 0).
    { destruct Ha as (_ & _ & E). specialize (E c). unfold dget_or. destruct (dget med c), (dget med' c); try contradiction; [exact E|reflexivity]. }
    rewrite <- (proj2 (proj2 Hxy) (dget_or med' c 0)), <- (cs_get_key x _ _ Em). apply cse_set; assumption.
Qed.

(* ------------------------------------------------------------------ MajorityJudgment *)
Lemma aggregate_lookup fn sc med : aggregate fn sc = inl med -> forall c d, In (c, d) sc -> NoDup (map fst sc) ->
  exists m, aggregate_one fn d = inl m /\ dget med c = Some m.
Proof.
  unfold aggregate. intros E c d Hi N. apply sequence_inl in E.
  assert (G : dget (map (fun cd : C * cscores => (fst cd, aggregate_one fn (snd cd))) sc) c = Some (aggregate_one fn d))
    by (rewrite dget_map_vals, (In_dget sc c d N Hi); reflexivity).
  rewrite E, (dget_map_vals (@inl Q serr)) in G. destruct (dget med c) as [m|]; [|discriminate]. cbn [option_map] in G. injection G as G.
  exists m. split; [symmetry; exact G|reflexivity].
Qed.

Theorem majority_judgment_order plus cf votes votes' n : Permutation votes votes' ->
  orel res_equiv (majority_judgment plus cf votes n) (majority_judgment plus cf votes' n).
Proof.
  intros Hp. unfold majority_judgment. pose proof (corrected_scores_order cf votes votes' Hp) as Hc.
  destruct (corrected_scores cf votes) as [sc|e], (corrected_scores cf votes') as [sc'|e']; cbn [orel] in Hc; try contradiction; [|exact Hc].
  pose proof (aggregate_resp FMedianLow sc sc' Hc) as Ha.
  destruct (aggregate FMedianLow sc) as [med|e] eqn:Am, (aggregate FMedianLow sc') as [med'|e'] eqn:Am'; cbn [orel] in Ha; try contradiction; [|exact Ha].
  cbv zeta. destruct n as [|n].
  { rewrite !STVOrder_proofs.gnb_zero. cbn. apply res_equiv_nil. }
  destruct (gnb_orelD_shape med med' (S n) Ha ltac:(lia)) as (cs & cs' & T & T' & k & E1 & E2 & Pcs & PT).
  pose proof E1 as E1'. pose proof E2 as E2'. rewrite E1, E2, !nf_last_tie.
  destruct k as [|k]; [cbn [orel]; apply res_equiv_nf; [exact Pcs|exact PT]|]. specialize (PT ltac:(lia)).
  rewrite !nf_count_tie, !nf_length.
  replace (length cs + S k - S k)%nat with (length cs) by lia. replace (length cs' + S k - S k)%nat with (length cs') by lia.
  rewrite !nf_firstn.
  assert (Hf : orelD cse (filter (fun cd : C * cscores => cmem (fst cd) T) sc) (filter (fun cd : C * cscores => cmem (fst cd) T') sc')).
  { apply (orelD_filter cse (fun c => cmem c T) (fun c => cmem c T')); [|exact Hc]. apply cmem_perm_eq, PT. }
  set (sub := filter _ sc) in *. set (sub' := filter _ sc') in *.
  assert (Hr : orel res_equiv
            (if plus then mj_plus sub (S k) else mj_default (Z.to_nat (fold_left Z.add (map (fun cd : C * cscores => cs_total (snd cd)) sub) 0%Z) + 2) sub (S k))
            (if plus then mj_plus sub' (S k) else mj_default (Z.to_nat (fold_left Z.add (map (fun cd : C * cscores => cs_total (snd cd)) sub') 0%Z) + 2) sub' (S k))).
  { destruct plus.
    - apply mj_plus_resp; [exact Hf|]. intros c d c' d' Hi Hi'.
      unfold sub in Hi. unfold sub' in Hi'. apply filter_In in Hi, Hi'. destruct Hi as [Hi Hc1], Hi' as [Hi' Hc2]. cbn [fst] in Hc1, Hc2.
      destruct Hc as (N & N' & Ec).
      destruct (aggregate_lookup _ _ _ Am c d Hi N) as (m & Em & Gm). destruct (aggregate_lookup _ _ _ Am' c' d' Hi' N') as (m' & Em' & Gm').
      rewrite Em, Em'. cbn [orel].
      assert (Hc2' : In c' T) by (apply cmem_In; rewrite (cmem_perm_eq T T' PT c'); exact Hc2).
      apply cmem_In in Hc1.
      assert (Ht : In (TieR T) (get_n_best Qle_bool med (S n))) by (rewrite E1'; unfold nf; apply in_or_app; right; left; reflexivity).
      pose proof (gnb_tie_eqv med (S n) T ltac:(lia) (proj1 Ha) Ht c c' Hc1 Hc2') as Hv.
      unfold dget_or in Hv. rewrite Gm in Hv. destruct Ha as (_ & _ & Ea). specialize (Ea c'). rewrite Gm' in Ea.
      destruct (dget med c') as [mc'|]; [|contradiction]. rewrite Hv. exact Ea.
    - rewrite (zadd_fold_perm _ _ (totals_perm sub sub' Hf) 0%Z). apply mj_default_resp, Hf. }
  destruct (if plus then mj_plus sub (S k) else _) as [r|e], (if plus then mj_plus sub' (S k) else _) as [r'|e']; cbn [orel] in Hr; try contradiction; [|exact Hr].
  cbn [orel]. apply res_equiv_app_cands; assumption.
Qed.
