(* The built-in divisor sequences are positive and non-decreasing (in fact
   strictly increasing) on seat counts >= 0. *)
From Coq Require Import ZArith QArith Lia Lqa.
From VL Require Import Model.Divisor.
Open Scope Z_scope.

Definition divisor_ok (d : Z -> Q) : Prop :=
  (forall k, 0 <= k -> (0 < d k)%Q) /\ (forall k, 0 <= k -> (d k <= d (k + 1)%Z)%Q).
Definition divisor_strict (d : Z -> Q) : Prop :=
  forall k, 0 <= k -> (d k < d (k + 1)%Z)%Q.

Lemma inj_lt a b : a < b -> (inject_Z a < inject_Z b)%Q.
Proof. intros H. rewrite <- Zlt_Qlt. exact H. Qed.
Lemma inj_le a b : a <= b -> (inject_Z a <= inject_Z b)%Q.
Proof. intros H. rewrite <- Zle_Qle. exact H. Qed.

Lemma d_hondt_ok : divisor_ok d_hondt /\ divisor_strict d_hondt.
Proof.
  unfold divisor_ok, divisor_strict, d_hondt. repeat split; intros k Hk.
  - apply (inj_lt 0). lia.
  - apply inj_le. lia.
  - apply inj_lt. lia.
Qed.
Lemma sainte_lague_ok : divisor_ok sainte_lague /\ divisor_strict sainte_lague.
Proof.
  unfold divisor_ok, divisor_strict, sainte_lague. repeat split; intros k Hk.
  - apply (inj_lt 0). lia.
  - apply inj_le. lia.
  - apply inj_lt. lia.
Qed.
Lemma danish_ok : divisor_ok danish /\ divisor_strict danish.
Proof.
  unfold divisor_ok, divisor_strict, danish. repeat split; intros k Hk.
  - apply (inj_lt 0). lia.
  - apply inj_le. lia.
  - apply inj_lt. lia.
Qed.
Lemma imperiali_ok : divisor_ok imperiali /\ divisor_strict imperiali.
Proof.
  unfold divisor_ok, divisor_strict, imperiali. repeat split; intros k Hk.
  - unfold Qlt. simpl. lia.
  - unfold Qle. simpl. lia.
  - unfold Qlt. simpl. lia.
Qed.
Lemma macau_ok : divisor_ok macau /\ divisor_strict macau.
Proof.
  unfold divisor_ok, divisor_strict, macau. repeat split; intros k Hk.
  - apply (inj_lt 0). apply Z.pow_pos_nonneg; lia.
  - apply inj_le. apply Z.pow_le_mono_r; lia.
  - apply inj_lt. apply Z.pow_lt_mono_r; lia.
Qed.

Lemma builtin_ok i : divisor_ok (divisor_by_id i).
Proof.
  unfold divisor_by_id.
  destruct (i =? 1); [apply d_hondt_ok|]. destruct (i =? 2); [apply sainte_lague_ok|].
  destruct (i =? 3); [apply imperiali_ok|]. destruct (i =? 4); [apply danish_ok|apply macau_ok].
Qed.

(* modified_first_coef keeps the conditions when 0 < c <= f 1 *)
Lemma modified_ok f c : divisor_ok f -> (0 < c)%Q -> (c <= f 1%Z)%Q ->
  divisor_ok (modified_first_coef f c).
Proof.
  intros [Hp Hm] Hc Hc1. unfold divisor_ok, modified_first_coef. split; intros k Hk.
  - destruct (0 <? k) eqn:E; [apply Hp; exact Hk|exact Hc].
  - destruct (0 <? k) eqn:E.
    + assert (0 <? k + 1 = true) as -> by (apply Z.ltb_lt; lia). apply Hm. exact Hk.
    + apply Z.ltb_ge in E. assert (k = 0) by lia. subst k. simpl. exact Hc1.
Qed.
