(* Scale invariance (C11): multiplying every vote count by the same positive rational leaves the
   outcome of get_n_best, of the highest-averages loop and of the win/loss based Condorcet
   evaluators unchanged.  Everything is exact arithmetic in Q / Z: there is no magnitude at which
   the statements stop holding. *)
From Coq Require Import ZArith QArith List Bool Lia Lqa Permutation.
From VL Require Import Prelude.PyDict Model.GetNBest Model.HighestAverages Model.Condorcet
     Proofs.Dict_proofs Proofs.GetNBest_proofs Proofs.QOrd.
Import ListNotations.

(* ---------------------------------------------------------------- get_n_best under an order embedding *)
Section GNBmap.
  Context {C V W : Type}.
  Variable leb : V -> V -> bool.
  Variable leb' : W -> W -> bool.
  Variable g : V -> W.
  Hypothesis g_emb : forall a b, leb' (g a) (g b) = leb a b.

  Definition mapv (l : list (C * V)) : list (C * W) := map (fun cv => (fst cv, g (snd cv))) l.

  Lemma insert_desc_map x l : insert_desc leb' (fst x, g (snd x)) (mapv l) = mapv (insert_desc leb x l).
  Proof.
    induction l as [|y l IH]; simpl; [reflexivity|]. rewrite g_emb.
    destruct (leb (snd y) (snd x)); simpl; [reflexivity|]. rewrite IH. reflexivity.
  Qed.

  Lemma sort_desc_map l : sort_desc leb' (mapv l) = mapv (sort_desc leb l).
  Proof. induction l as [|x l IH]; simpl; [reflexivity|]. rewrite IH. apply insert_desc_map. Qed.

  Lemma eqv_map a b : eqv leb' (g a) (g b) = eqv leb a b.
  Proof. unfold eqv. rewrite !g_emb. reflexivity. Qed.

  Lemma first_eq_index_map thr l : first_eq_index leb' (g thr) (mapv l) = first_eq_index leb thr l.
  Proof. induction l as [|y l IH]; simpl; [reflexivity|]. rewrite eqv_map, IH. reflexivity. Qed.

  Lemma filter_level_map thr l :
    map fst (filter (fun it => eqv leb' (snd it) (g thr)) (mapv l)) = map fst (filter (fun it => eqv leb (snd it) thr) l).
  Proof.
    induction l as [|y l IH]; simpl; [reflexivity|]. rewrite eqv_map.
    destruct (eqv leb (snd y) thr); simpl; rewrite IH; reflexivity.
  Qed.

  Lemma map_cand_mapv (l : list (C * V)) :
    map (fun it : C * W => Cand (fst it)) (mapv l) = map (fun it : C * V => Cand (fst it)) l.
  Proof. unfold mapv. rewrite map_map. reflexivity. Qed.

  Lemma firstn_mapv n l : firstn n (mapv l) = mapv (firstn n l).
  Proof. unfold mapv. apply firstn_map. Qed.

  Lemma nth_error_mapv l n : nth_error (mapv l) n = option_map (fun cv => (fst cv, g (snd cv))) (nth_error l n).
  Proof. unfold mapv. apply nth_error_map. Qed.

  Theorem get_n_best_map votes n : get_n_best leb' (mapv votes) n = get_n_best leb votes n.
  Proof.
    unfold get_n_best. rewrite sort_desc_map. set (s := sort_desc leb votes).
    unfold mapv at 1. rewrite map_length. fold (mapv s).
    destruct (Nat.ltb n (length s)); [|apply map_cand_mapv].
    rewrite !nth_error_mapv.
    destruct (nth_error s (n - 1)) as [[c1 thr]|]; simpl; [|reflexivity].
    destruct (nth_error s n) as [[c2 nxt]|]; simpl; [|reflexivity].
    rewrite eqv_map. destruct (eqv leb nxt thr).
    - rewrite first_eq_index_map, firstn_mapv, map_cand_mapv, filter_level_map. reflexivity.
    - rewrite firstn_mapv, map_cand_mapv. reflexivity.
  Qed.
End GNBmap.

Definition scaleq (k : Q) (votes : list (C * Q)) : list (C * Q) := mapv (Qmult k) votes.

Lemma Qle_bool_scale k a b : (0 < k)%Q -> Qle_bool (k * a) (k * b) = Qle_bool a b.
Proof.
  intros Hk. destruct (Qle_bool a b) eqn:E.
  - apply Qle_bool_iff. apply Qle_bool_iff in E. rewrite !(Qmult_comm k). apply Qmult_le_compat_r; lra.
  - apply not_true_iff_false. intros H. apply Qle_bool_iff in H. apply not_true_iff_false in E. apply E.
    apply Qle_bool_iff. rewrite !(Qmult_comm k) in H. apply Qmult_le_r in H; assumption.
Qed.

Theorem get_n_best_scale (k : Q) votes n : (0 < k)%Q ->
  get_n_best Qle_bool (scaleq k votes) n = get_n_best Qle_bool votes n.
Proof. intros Hk. apply get_n_best_map. intros a b. apply Qle_bool_scale, Hk. Qed.

(* ---------------------------------------------------------------- highest averages *)
Section HAscale.
  Variable d : Z -> Q.
  Variable k : Q.
  Hypothesis Hk : (0 < k)%Q.
  Variable votes : list (C * Q).
  Variable caps : list (C * Z).
  Variable n : Z.
  Notation votes' := (scaleq k votes).

  (* related quotient items: same party, quotient multiplied by k (as rationals) *)
  Definition irel (a b : qitem) : Prop := fst a = fst b /\ (snd b == k * snd a)%Q.
  Definition qrel (l l' : list qitem) : Prop := Forall2 irel l l'.

  Lemma irel_le a b a' b' : irel a a' -> irel b b' -> Qle_bool (snd a') (snd b') = Qle_bool (snd a) (snd b).
  Proof.
    intros [_ Ha] [_ Hb]. rewrite <- (Qle_bool_scale k (snd a) (snd b) Hk).
    destruct (Qle_bool (k * snd a) (k * snd b)) eqn:E.
    - apply Qle_bool_iff. apply Qle_bool_iff in E. rewrite Ha, Hb. exact E.
    - apply not_true_iff_false. intros H. apply Qle_bool_iff in H. apply not_true_iff_false in E. apply E.
      apply Qle_bool_iff. rewrite <- Ha, <- Hb. exact H.
  Qed.

  Lemma irel_eq a m a' m' : irel a a' -> (m' == k * m)%Q -> Qeq_bool (snd a') m' = Qeq_bool (snd a) m.
  Proof.
    intros [_ Ha] Hm. destruct (Qeq_bool (snd a) m) eqn:E.
    - apply Qeq_bool_iff. apply Qeq_bool_iff in E. rewrite Ha, Hm, E. reflexivity.
    - apply not_true_iff_false. intros H. apply Qeq_bool_iff in H. apply not_true_iff_false in E. apply E.
      apply Qeq_bool_iff. rewrite Ha, Hm in H. apply Qmult_inj_l in H; [exact H|lra].
  Qed.

  Lemma qrel_keys l l' : qrel l l' -> map fst l = map fst l'.
  Proof. induction 1 as [|a b l l' [Hf _] _ IH]; simpl; [reflexivity|]. rewrite Hf, IH. reflexivity. Qed.

  Lemma qrel_length l l' : qrel l l' -> length l = length l'.
  Proof. induction 1; simpl; congruence. Qed.

  Lemma qrel_app a a' b b' : qrel a a' -> qrel b b' -> qrel (a ++ b) (a' ++ b').
  Proof. apply Forall2_app. Qed.

  Lemma qrel_rev l l' : qrel l l' -> qrel (rev l) (rev l').
  Proof.
    induction 1 as [|a b l l' H _ IH]; simpl; [constructor|].
    apply qrel_app; [exact IH|constructor; [exact H|constructor]].
  Qed.

  Lemma qrel_firstn j l l' : qrel l l' -> qrel (firstn j l) (firstn j l').
  Proof.
    intros H. revert j. induction H as [|a b l l' Hab _ IH]; intros j; destruct j; simpl; try constructor; auto.
    apply IH.
  Qed.

  Lemma insert_after_ge_rel x x' l l' : irel x x' -> qrel l l' ->
    qrel (insert_after_ge x l) (insert_after_ge x' l').
  Proof.
    intros Hx H. induction H as [|a b l l' Hab Hl IH]; simpl; [constructor; [exact Hx|constructor]|].
    rewrite (irel_le x a x' b Hx Hab).
    destruct (Qle_bool (snd x) (snd a)); constructor; auto.
  Qed.

  Lemma insert_asc_rel x x' l l' : irel x x' -> qrel l l' ->
    qrel (insert_asc Qle_bool x l) (insert_asc Qle_bool x' l').
  Proof.
    intros Hx H. induction H as [|a b l l' Hab Hl IH]; simpl; [constructor; [exact Hx|constructor]|].
    rewrite (irel_le x a x' b Hx Hab).
    destruct (Qle_bool (snd x) (snd a)); constructor; auto.
  Qed.

  Lemma sort_asc_rel l l' : qrel l l' -> qrel (sort_asc Qle_bool l) (sort_asc Qle_bool l').
  Proof. induction 1 as [|a b l l' Hab _ IH]; simpl; [constructor|]. apply insert_asc_rel; assumption. Qed.

  Lemma run_length_rel m m' l l' : (m' == k * m)%Q -> qrel l l' -> run_length m' l' = run_length m l.
  Proof.
    intros Hm H. induction H as [|a b l l' Hab _ IH]; simpl; [reflexivity|].
    rewrite (irel_eq a m b m' Hab Hm). destruct (Qeq_bool (snd a) m); [rewrite IH|]; reflexivity.
  Qed.

  Lemma dget_scale c : dget votes' c = option_map (Qmult k) (dget votes c).
  Proof.
    unfold scaleq, mapv. induction votes as [|[c0 v] vs IH]; simpl; [reflexivity|].
    destruct (ceqb c c0); [reflexivity|exact IH].
  Qed.

  Lemma quot_scale v t : ((k * v) / d t == k * (v / d t))%Q.
  Proof. unfold Qdiv. ring. Qed.

  Lemma pop_reinsert_rel totals : forall j qs qs', qrel qs qs' ->
    qrel (pop_reinsert d votes caps n totals j qs) (pop_reinsert d votes' caps n totals j qs').
  Proof.
    induction j as [|j IH]; intros qs qs' H; simpl; [exact H|].
    destruct H as [|[c x] [c' x'] rest rest' [Hc _] Hrest]; [constructor|]. simpl in Hc. subst c'.
    apply IH. destruct (dget_or totals c 0 <? cap_of caps n c)%Z; [|exact Hrest].
    rewrite dget_scale. destruct (dget votes c) as [v|]; simpl; [|exact Hrest].
    apply insert_after_ge_rel; [|exact Hrest]. split; [reflexivity|]. simpl. apply quot_scale.
  Qed.

  (* related states: identical except that every quotient is multiplied by k *)
  Definition srel (s s' : state) : Prop :=
    qrel (st_qs s) (st_qs s') /\ st_totals s = st_totals s' /\ st_rem s = st_rem s' /\
    st_tie s = st_tie s' /\ qrel (st_awards s) (st_awards s').

  Lemma step_rel s s' : srel s s' -> srel (step d votes caps n s) (step d votes' caps n s').
  Proof.
    intros (Hq & Ht & Hr & Hti & Ha). unfold step.
    remember (st_qs s) as q0 eqn:E0. remember (st_qs s') as q0' eqn:E0'.
    destruct Hq as [|[c0 m] [c0' m'] qs qs' Hhd Htl].
    - unfold srel. rewrite <- E0, <- E0'. repeat split; auto. constructor.
    - cbv zeta.
      assert (Hqq : qrel (@cons qitem (c0, m) qs) (@cons qitem (c0', m') qs')) by (constructor; assumption).
      assert (Hm : (m' == k * m)%Q) by (destruct Hhd as [_ Hm]; exact Hm).
      rewrite (run_length_rel m m' _ _ Hm Hqq).
      set (j := run_length m (@cons qitem (c0, m) qs)).
      rewrite <- Hr, <- Ht.
      pose proof (qrel_firstn j _ _ Hqq) as Hb.
      pose proof (qrel_rev _ _ Hb) as Hrb.
      rewrite <- (qrel_keys _ _ Hrb).
      destruct (Z.of_nat j <=? st_rem s)%Z; unfold srel; cbn [st_qs st_totals st_rem st_tie st_awards].
      + split; [apply pop_reinsert_rel; exact Hqq|]. repeat split; auto. apply qrel_app; assumption.
      + split; [apply pop_reinsert_rel; exact Hqq|]. repeat split; auto.
  Qed.

  Lemma loop_rel fuel : forall s s', srel s s' ->
    srel (loop d votes caps n fuel s) (loop d votes' caps n fuel s').
  Proof.
    induction fuel as [|f IH]; intros s s' H; simpl; [exact H|].
    destruct H as (Hq & Ht & Hr & Hti & Ha). rewrite <- Hr.
    assert (Hempty : match st_qs s' with [] => true | _ => false end = match st_qs s with [] => true | _ => false end).
    { destruct Hq; reflexivity. }
    rewrite Hempty.
    destruct ((0 <? st_rem s)%Z && negb match st_qs s with [] => true | _ => false end).
    - apply IH, step_rel. repeat split; assumption.
    - repeat split; assumption.
  Qed.

  Lemma initial_rel prev : qrel (initial_quotients d votes prev caps n) (initial_quotients d votes' prev caps n).
  Proof.
    unfold initial_quotients. apply qrel_rev, sort_asc_rel.
    unfold scaleq, mapv. induction votes as [|[c v] vs IH]; simpl; [constructor|].
    destruct (Qle_bool (d (dget_or prev c 0%Z)) 0); [exact IH|].
    destruct (dget_or prev c 0 <? cap_of caps n c)%Z; [|exact IH].
    simpl. constructor; [|exact IH]. split; [reflexivity|]. simpl. apply quot_scale.
  Qed.

  Lemma final_rel prev : srel (final_state d votes n prev caps) (final_state d votes' n prev caps).
  Proof.
    unfold final_state. cbn [init_state st_rem]. apply loop_rel.
    unfold init_state, srel. cbn [st_qs st_totals st_rem st_tie st_awards].
    split; [apply initial_rel|]. repeat split; auto. constructor.
  Qed.

  Theorem ha_scale prev : evaluate d votes' n prev caps = evaluate d votes n prev caps.
  Proof.
    unfold evaluate. pose proof (initial_rel prev) as Hi. pose proof (final_rel prev) as (_ & Ht & _ & Hti & _).
    destruct Hi as [|a b l l' _ _]; [reflexivity|]. rewrite <- Ht, <- Hti. reflexivity.
  Qed.
End HAscale.

(* ---------------------------------------------------------------- win/loss based Condorcet evaluators *)
Definition scalez (k : Z) (v : pvotes) : pvotes := map (fun pn => (fst pn, (k * snd pn)%Z)) v.

Section PWscale.
  Variable k : Z.
  Hypothesis Hk : (0 < k)%Z.

  Lemma pget_scale v p : pget (scalez k v) p = option_map (Z.mul k) (pget v p).
  Proof.
    unfold scalez. induction v as [|[p0 m] v IH]; simpl; [reflexivity|].
    destruct (peqb p p0); [reflexivity|exact IH].
  Qed.

  Lemma pget0_scale v p : pget0 (scalez k v) p = (k * pget0 v p)%Z.
  Proof. unfold pget0. rewrite pget_scale. destruct (pget v p); simpl; lia. Qed.

  Lemma candidates_scale v : candidates (scalez k v) = candidates v.
  Proof.
    unfold candidates, scalez. generalize (@nil C) as acc.
    induction v as [|[p m] v IH]; intros acc; simpl; [reflexivity|]. apply IH.
  Qed.

  Lemma filter_map_fst {X Y} (g : X * Y -> X * Y) (f f' : X * Y -> bool) (l : list (X * Y)) :
    (forall x, f (g x) = f' x) -> (forall x, fst (g x) = fst x) ->
    map fst (filter f (map g l)) = map fst (filter f' l).
  Proof.
    intros Hf Hg. induction l as [|x l IH]; [reflexivity|]. cbn [map filter]. rewrite Hf.
    destruct (f' x); cbn [map]; rewrite IH; [rewrite Hg|]; reflexivity.
  Qed.

  Definition winf (v0 : pvotes) (ties : bool) (pn : pair * Z) : bool :=
    let anti := pget0 v0 (swap (fst pn)) in (anti <? snd pn)%Z || (ties && (anti =? snd pn)%Z).

  Lemma winf_scale v0 ties pn : winf (scalez k v0) ties (fst pn, (k * snd pn)%Z) = winf v0 ties pn.
  Proof.
    destruct pn as [p m]. unfold winf. cbn [fst snd]. rewrite pget0_scale.
    assert (E1 : (k * pget0 v0 (swap p) <? k * m)%Z = (pget0 v0 (swap p) <? m)%Z).
    { destruct (pget0 v0 (swap p) <? m)%Z eqn:E; [apply Z.ltb_lt in E; apply Z.ltb_lt; nia|apply Z.ltb_ge in E; apply Z.ltb_ge; nia]. }
    assert (E2 : (k * pget0 v0 (swap p) =? k * m)%Z = (pget0 v0 (swap p) =? m)%Z).
    { destruct (pget0 v0 (swap p) =? m)%Z eqn:E; [apply Z.eqb_eq in E; apply Z.eqb_eq; nia|apply Z.eqb_neq in E; apply Z.eqb_neq; nia]. }
    rewrite E1, E2. reflexivity.
  Qed.

  Theorem pairwise_wins_scale v ties : pairwise_wins (scalez k v) ties = pairwise_wins v ties.
  Proof.
    unfold pairwise_wins. change (map fst (filter (winf (scalez k v) ties) (scalez k v)) = map fst (filter (winf v ties) v)).
    unfold scalez at 2. apply filter_map_fst; [intros x; apply winf_scale|reflexivity].
  Qed.

  Theorem condorcet_winner_scale v : condorcet_winner (scalez k v) = condorcet_winner v.
  Proof. unfold condorcet_winner, beat_counts. rewrite pairwise_wins_scale, candidates_scale. reflexivity. Qed.

  Theorem copeland_scale so v n : copeland so (scalez k v) n = copeland so v n.
  Proof. unfold copeland. rewrite pairwise_wins_scale, candidates_scale. reflexivity. Qed.

  Lemma map_flat_map_l {X Y Z0} (g : Y -> Z0) (f : X -> list Y) (l : list X) :
    map g (flat_map f l) = flat_map (fun x => map g (f x)) l.
  Proof. induction l as [|x l IH]; simpl; [reflexivity|]. rewrite map_app, IH. reflexivity. Qed.

  Lemma complete_scale v : complete (scalez k v) = scalez k (complete v).
  Proof.
    unfold complete. rewrite candidates_scale. set (cs := candidates v).
    unfold scalez at 2. rewrite map_flat_map_l. apply flat_map_ext. intros c1.
    rewrite map_flat_map_l. apply flat_map_ext. intros c2.
    destruct (ceqb c1 c2); simpl; [reflexivity|]. rewrite pget0_scale. reflexivity.
  Qed.

  Theorem smith_schwartz_scale v ties : smith_schwartz (scalez k v) ties = smith_schwartz v ties.
  Proof. unfold smith_schwartz. rewrite complete_scale, pairwise_wins_scale. reflexivity. Qed.
End PWscale.

(* ---------------------------------------------------------------- exact comparison at the cut *)
Lemma qeqv_iff a b : eqv Qle_bool a b = true <-> (a == b)%Q.
Proof.
  unfold eqv. rewrite andb_true_iff, !Qle_bool_iff. split; [intros [H1 H2]; lra|intros H; rewrite H; split; lra].
Qed.

Lemma nodup_value {X} (l : list (C * X)) c v v' : NoDup (map fst l) -> In (c, v) l -> In (c, v') l -> v = v'.
Proof.
  induction l as [|[c0 v0] l IH]; simpl; [tauto|]. intros Hnd H1 H2. inversion Hnd as [|? ? Hc Hn]; subst.
  destruct H1 as [H1|H1], H2 as [H2|H2].
  - congruence.
  - injection H1 as -> ->. exfalso. apply Hc. apply in_map_iff. exists (c, v'). auto.
  - injection H2 as -> ->. exfalso. apply Hc. apply in_map_iff. exists (c, v). auto.
  - apply IH; assumption.
Qed.

Lemma tie_member_level (votes : list (C * Q)) thr c v : NoDup (map fst votes) -> In (c, v) votes ->
  (In c (map fst (filter (fun it => eqv Qle_bool (snd it) thr) votes)) <-> (v == thr)%Q).
Proof.
  intros Hnd Hin. rewrite <- qeqv_iff. split.
  - intros H. apply in_map_iff in H. destruct H as ([c' v'] & Hf & Hin'). simpl in Hf. subst c'.
    apply filter_In in Hin'. destruct Hin' as [Hin' He]. simpl in He.
    rewrite (nodup_value votes c v v' Hnd Hin Hin'). exact He.
  - intros H. apply in_map_iff. exists (c, v). split; [reflexivity|]. apply filter_In. split; assumption.
Qed.
