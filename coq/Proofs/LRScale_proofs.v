(* Scale invariance (C11) of the quota family: QuotaDistributor.evaluate, _subtract_overaward and
   LargestRemainder.evaluate give the same seats for votes and for k * votes (k > 0 rational) whenever the
   quota function is homogeneous (quota (k v) n == k quota v n): Hare, Hagenbach-Bischoff, Imperiali.
   The rounded quotas (Droop, *_rounded, *_ceil) are not homogeneous and are genuinely not scale-free.
   The proof is a simulation through every branch of the model, including the recursive cap branch and
   the over-award subtraction, and rests on a relational version of get_n_best's order-embedding lemma. *)
From Coq Require Import ZArith QArith Qround List Bool Lia Lqa Qfield.
From VL Require Import Prelude.PyDict Model.GetNBest Model.Quota Model.QuotaDistributor
     Proofs.Dict_proofs Proofs.GetNBest_proofs Proofs.QOrd Proofs.QD_proofs.
Import ListNotations.

(* ---------------------------------------------------------------- get_n_best under a value relation *)
Section GNBrel.
  Context {K V W : Type}.
  Variable leb : V -> V -> bool.
  Variable leb' : W -> W -> bool.
  Variable R : V -> W -> Prop.
  Hypothesis R_emb : forall a a' b b', R a a' -> R b b' -> leb' a' b' = leb a b.

  Definition prel (x : K * V) (y : K * W) : Prop := fst x = fst y /\ R (snd x) (snd y).
  Definition lrel : list (K * V) -> list (K * W) -> Prop := Forall2 prel.

  Lemma insert_desc_rel x x' l l' : prel x x' -> lrel l l' ->
    lrel (insert_desc leb x l) (insert_desc leb' x' l').
  Proof.
    intros Hx Hl. induction Hl as [|y y' l l' Hy Hl IH]; simpl.
    - constructor; [exact Hx|constructor].
    - rewrite (R_emb _ _ _ _ (proj2 Hy) (proj2 Hx)).
      destruct (leb (snd y) (snd x)).
      + constructor; [exact Hx|]. constructor; assumption.
      + constructor; assumption.
  Qed.

  Lemma sort_desc_rel l l' : lrel l l' -> lrel (sort_desc leb l) (sort_desc leb' l').
  Proof.
    intros Hl. induction Hl as [|y y' l l' Hy Hl IH]; simpl; [constructor|].
    apply insert_desc_rel; assumption.
  Qed.

  Lemma eqv_rel a a' b b' : R a a' -> R b b' -> eqv leb' a' b' = eqv leb a b.
  Proof. intros Ha Hb. unfold eqv. rewrite (R_emb _ _ _ _ Ha Hb), (R_emb _ _ _ _ Hb Ha). reflexivity. Qed.

  Lemma lrel_length l l' : lrel l l' -> length l' = length l.
  Proof. intros H. induction H; simpl; congruence. Qed.

  Lemma lrel_nth l l' n : lrel l l' ->
    match nth_error l n, nth_error l' n with
    | Some x, Some y => prel x y
    | None, None => True
    | _, _ => False
    end.
  Proof.
    intros H. revert n. induction H as [|y y' l l' Hy Hl IH]; intros [|n]; simpl; auto.
    apply IH.
  Qed.

  Lemma first_eq_index_rel thr thr' l l' : R thr thr' -> lrel l l' ->
    first_eq_index leb' thr' l' = first_eq_index leb thr l.
  Proof.
    intros Ht Hl. induction Hl as [|y y' l l' Hy Hl IH]; simpl; [reflexivity|].
    rewrite (eqv_rel _ _ _ _ (proj2 Hy) Ht), IH. reflexivity.
  Qed.

  Lemma filter_level_rel thr thr' l l' : R thr thr' -> lrel l l' ->
    map fst (filter (fun it => eqv leb' (snd it) thr') l') = map fst (filter (fun it => eqv leb (snd it) thr) l).
  Proof.
    intros Ht Hl. induction Hl as [|y y' l l' Hy Hl IH]; simpl; [reflexivity|].
    rewrite (eqv_rel _ _ _ _ (proj2 Hy) Ht).
    destruct (eqv leb (snd y) thr); simpl; rewrite IH; [rewrite (proj1 Hy)|]; reflexivity.
  Qed.

  Lemma map_cand_rel l l' : lrel l l' ->
    map (fun it : K * W => Cand (fst it)) l' = map (fun it : K * V => Cand (fst it)) l.
  Proof.
    intros Hl. induction Hl as [|y y' l l' Hy Hl IH]; simpl; [reflexivity|].
    rewrite IH, (proj1 Hy). reflexivity.
  Qed.

  Lemma lrel_firstn n l l' : lrel l l' -> lrel (firstn n l) (firstn n l').
  Proof.
    intros Hl. revert n. induction Hl as [|y y' l l' Hy Hl IH]; intros [|n]; simpl; try constructor; auto.
    apply IH.
  Qed.

  Theorem get_n_best_rel votes votes' n : lrel votes votes' ->
    get_n_best leb' votes' n = get_n_best leb votes n.
  Proof.
    intros Hl. unfold get_n_best.
    pose proof (sort_desc_rel _ _ Hl) as Hs.
    set (s := sort_desc leb votes) in *. set (s' := sort_desc leb' votes') in *.
    rewrite (lrel_length _ _ Hs).
    destruct (Nat.ltb n (length s)); [|apply map_cand_rel; exact Hs].
    pose proof (lrel_nth _ _ (n - 1) Hs) as H1. pose proof (lrel_nth _ _ n Hs) as H2.
    destruct (nth_error s (n - 1)) as [[c1 thr]|], (nth_error s' (n - 1)) as [[c1' thr']|]; try contradiction; [|reflexivity].
    destruct (nth_error s n) as [[c2 nxt]|], (nth_error s' n) as [[c2' nxt']|]; try contradiction; [|reflexivity].
    destruct H1 as [_ H1], H2 as [_ H2]. simpl in H1, H2.
    rewrite (eqv_rel _ _ _ _ H2 H1). destruct (eqv leb nxt thr).
    - rewrite (first_eq_index_rel _ _ _ _ H1 Hs), (filter_level_rel _ _ _ _ H1 Hs).
      rewrite (map_cand_rel _ _ (lrel_firstn _ _ _ Hs)). reflexivity.
    - apply map_cand_rel, lrel_firstn, Hs.
  Qed.
End GNBrel.

(* ---------------------------------------------------------------- rational facts *)
Lemma Qle_bool_Qeq a a' b b' : (a' == a)%Q -> (b' == b)%Q -> Qle_bool a' b' = Qle_bool a b.
Proof.
  intros Ha Hb. destruct (Qle_bool a b) eqn:E.
  - apply Qle_bool_iff. apply Qle_bool_iff in E. rewrite Ha, Hb. exact E.
  - apply not_true_iff_false. intros H. apply Qle_bool_iff in H. apply not_true_iff_false in E. apply E.
    apply Qle_bool_iff. rewrite <- Ha, <- Hb. exact H.
Qed.

Lemma Qeq_bool_Qeq a a' b b' : (a' == a)%Q -> (b' == b)%Q -> Qeq_bool a' b' = Qeq_bool a b.
Proof.
  intros Ha Hb. destruct (Qeq_bool a b) eqn:E.
  - apply Qeq_bool_iff. apply Qeq_bool_iff in E. rewrite Ha, Hb. exact E.
  - apply not_true_iff_false. intros H. apply Qeq_bool_iff in H. apply not_true_iff_false in E. apply E.
    apply Qeq_bool_iff. rewrite <- Ha, <- Hb. exact H.
Qed.

Lemma py_trunc_opp x : py_trunc (- x) = (- py_trunc x)%Z.
Proof. unfold py_trunc. destruct x as [n d]. simpl. apply Z.quot_opp_l. lia. Qed.

Lemma py_trunc_Qeq x y : (x == y)%Q -> py_trunc x = py_trunc y.
Proof.
  intros H. destruct (Qlt_le_dec x 0) as [Hn|Hp].
  - assert (Hx : (0 <= - x)%Q) by lra. assert (Hy : (0 <= - y)%Q) by lra.
    pose proof (py_trunc_floor _ Hx) as E1. pose proof (py_trunc_floor _ Hy) as E2.
    rewrite py_trunc_opp in E1, E2.
    assert (E : Qfloor (- x) = Qfloor (- y)) by (apply Qfloor_comp; rewrite H; reflexivity).
    lia.
  - rewrite (py_trunc_floor x Hp), (py_trunc_floor y) by lra. apply Qfloor_comp, H.
Qed.

Section QScale.
  Variable k : Q.
  Hypothesis Hk : (0 < k)%Q.

  Definition qsc (a a' : Q) : Prop := (a' == k * a)%Q.

  Lemma qsc_le a a' b b' : qsc a a' -> qsc b b' -> Qle_bool a' b' = Qle_bool a b.
  Proof.
    unfold qsc. intros Ha Hb. rewrite (Qle_bool_Qeq _ _ _ _ Ha Hb).
    destruct (Qle_bool a b) eqn:E.
    - apply Qle_bool_iff. apply Qle_bool_iff in E. rewrite !(Qmult_comm k). apply Qmult_le_compat_r; lra.
    - apply not_true_iff_false. intros H. apply Qle_bool_iff in H. apply not_true_iff_false in E. apply E.
      apply Qle_bool_iff. rewrite !(Qmult_comm k) in H. apply Qmult_le_r in H; assumption.
  Qed.

  Lemma qsc_eq a a' b b' : qsc a a' -> qsc b b' -> Qeq_bool a' b' = Qeq_bool a b.
  Proof.
    unfold qsc. intros Ha Hb. rewrite (Qeq_bool_Qeq _ _ _ _ Ha Hb).
    destruct (Qeq_bool a b) eqn:E.
    - apply Qeq_bool_iff. apply Qeq_bool_iff in E. rewrite E. reflexivity.
    - apply not_true_iff_false. intros H. apply Qeq_bool_iff in H. apply not_true_iff_false in E. apply E.
      apply Qeq_bool_iff. apply Qmult_inj_l in H; [exact H|lra].
  Qed.

  Lemma qsc_div v v' q q' : qsc v v' -> qsc q q' -> (v' / q' == v / q)%Q.
  Proof.
    unfold qsc. intros Hv Hq. rewrite Hv, Hq.
    destruct (Qeq_dec q 0) as [E|E].
    - rewrite E. assert (Z0 : (k * 0 == 0)%Q) by ring. rewrite Z0. unfold Qdiv. assert (I0 : (/ 0 == 0)%Q) by reflexivity. rewrite I0. ring.
    - field. split; [exact E|lra].
  Qed.

  (* vote dicts related by the scaling (up to == on the values) *)
  Definition vrel : list (C * Q) -> list (C * Q) -> Prop := lrel (K := C) qsc.

  Lemma vrel_keys l l' : vrel l l' -> map fst l' = map fst l.
  Proof. intros H. induction H as [|y y' l l' Hy Hl IH]; simpl; [reflexivity|]. rewrite IH, (proj1 Hy). reflexivity. Qed.

  Lemma qsumv_acc l l' : vrel l l' -> forall a a', qsc a a' ->
    qsc (fold_left Qplus (map snd l) a) (fold_left Qplus (map snd l') a').
  Proof.
    intros H. induction H as [|y y' l l' Hy Hl IH]; intros a a' Ha; simpl; [exact Ha|].
    apply IH. unfold qsc in *. destruct Hy as [_ Hy]. rewrite Ha, Hy. ring.
  Qed.

  Lemma qsumv_rel l l' : vrel l l' -> qsc (qsumv l) (qsumv l').
  Proof. intros H. unfold qsumv. apply qsumv_acc; [exact H|]. unfold qsc. ring. Qed.

  Lemma dget_or_rel l l' c : vrel l l' -> qsc (dget_or l c 0%Q) (dget_or l' c 0%Q).
  Proof.
    intros H. unfold dget_or. induction H as [|[c1 v1] [c1' v1'] l l' Hy Hl IH]; simpl.
    - unfold qsc. ring.
    - destruct Hy as [Hc Hv]. simpl in Hc, Hv. subst c1'. destruct (ceqb c c1); [exact Hv|exact IH].
  Qed.

  Lemma vrel_filter (f : C -> bool) l l' : vrel l l' ->
    vrel (filter (fun cv => f (fst cv)) l) (filter (fun cv => f (fst cv)) l').
  Proof.
    intros H. induction H as [|y y' l l' Hy Hl IH]; simpl; [constructor|].
    rewrite <- (proj1 Hy). destruct (f (fst y)); [constructor; assumption|exact IH].
  Qed.

  Section WithQuota.
    Variable quota : Q -> Z -> Q.
    Variable accept_equal : bool.
    Variable pol : policy.
    Hypothesis quota_homog : forall v v' n, qsc v v' -> qsc (quota v n) (quota v' n).

    Notation fulfills := (fulfills accept_equal).

    Lemma fulfills_rel v v' q q' : qsc v v' -> qsc q q' -> fulfills v' q' = fulfills v q.
    Proof. intros Hv Hq. unfold QuotaDistributor.fulfills. rewrite (qsc_le _ _ _ _ Hv Hq), (qsc_eq _ _ _ _ Hv Hq). reflexivity. Qed.

    Lemma scan_rel q q' prev caps : qsc q q' -> forall l l', vrel l l' -> forall sel,
      scan accept_equal l' q' prev caps sel = scan accept_equal l q prev caps sel.
    Proof.
      intros Hq l l' H. induction H as [|[c v] [c' v'] l l' Hy Hl IH]; intros sel; simpl; [reflexivity|].
      destruct Hy as [Hc Hv]. simpl in Hc, Hv. subst c'.
      rewrite (fulfills_rel _ _ _ _ Hv Hq), (py_trunc_Qeq _ _ (qsc_div _ _ _ _ Hv Hq)). apply IH.
    Qed.

    Lemma existsb_fulfills_rel q q' l l' : qsc q q' -> vrel l l' ->
      existsb (fun cv : C * Q => fulfills (snd cv) q') l' = existsb (fun cv : C * Q => fulfills (snd cv) q) l.
    Proof.
      intros Hq H. induction H as [|y y' l l' Hy Hl IH]; simpl; [reflexivity|].
      rewrite (fulfills_rel _ _ _ _ (proj2 Hy) Hq), IH. reflexivity.
    Qed.

    Lemma ksubtract_rel votes votes' q q' prev : vrel votes votes' -> qsc q q' -> forall fuel sel over,
      ksubtract fuel votes' q' prev sel over = ksubtract fuel votes q prev sel over.
    Proof.
      intros Hv Hq fuel. induction fuel as [|f IH]; intros sel over; cbn [ksubtract]; [reflexivity|].
      destruct (over <=? 0)%Z; [reflexivity|].
      match goal with |- match get_n_best _ ?r' 1 with _ => _ end = match get_n_best _ ?r 1 with _ => _ end =>
        assert (E : get_n_best Qle_bool r' 1 = get_n_best Qle_bool r 1) end.
      { apply (get_n_best_rel Qle_bool Qle_bool qsc qsc_le).
        induction sel as [|[ky s] sel IHs]; cbn [map]; constructor; [|exact IHs].
        split; [reflexivity|]. unfold krem. cbn [fst snd]. destruct ky as [c|l].
        - pose proof (dget_or_rel _ _ c Hv) as Hd. unfold qsc in *. rewrite Hd, Hq. ring.
        - unfold qsc in *. rewrite Hq. ring. }
      rewrite E. clear E. destruct (get_n_best Qle_bool _ 1) as [|[ky|ks] rest]; [reflexivity|apply IH|].
      destruct (all_plain ks); [|reflexivity]. destruct (kmem sel _); apply IH.
    Qed.

    Lemma subtract_rel votes votes' q q' prev : vrel votes votes' -> qsc q q' -> forall fuel sel over,
      subtract fuel votes' q' prev sel over = subtract fuel votes q prev sel over.
    Proof.
      intros Hv Hq fuel. induction fuel as [|f IH]; intros sel over; simpl; [reflexivity|].
      destruct (over <=? 0)%Z; [reflexivity|].
      match goal with |- match get_n_best _ ?r' 1 with _ => _ end = match get_n_best _ ?r 1 with _ => _ end =>
        assert (E : get_n_best Qle_bool r' 1 = get_n_best Qle_bool r 1) end.
      { apply (get_n_best_rel Qle_bool Qle_bool qsc qsc_le).
        induction sel as [|[c s] sel IHs]; simpl; constructor; [|exact IHs].
        split; [reflexivity|]. simpl. pose proof (dget_or_rel _ _ c Hv) as Hd. unfold qsc in *.
        rewrite Hd, Hq. ring. }
      rewrite E. clear E. destruct (get_n_best Qle_bool _ 1) as [|[c|l] rest]; [reflexivity|apply IH|].
      destruct (over - 1 <=? 0)%Z; [reflexivity|]. apply ksubtract_rel; assumption.
    Qed.

    Theorem qd_evaluate_rel votes votes' n prev caps : vrel votes votes' ->
      qd_evaluate quota accept_equal pol votes' n prev caps = qd_evaluate quota accept_equal pol votes n prev caps.
    Proof.
      intros Hv. unfold qd_evaluate.
      pose proof (quota_homog _ _ n (qsumv_rel _ _ Hv)) as Hq.
      set (q := quota (qsumv votes) n) in *. set (q' := quota (qsumv votes') n) in *.
      assert (Hz : Qeq_bool q' 0 = Qeq_bool q 0).
      { apply qsc_eq; [exact Hq|]. unfold qsc. ring. }
      rewrite Hz, (existsb_fulfills_rel _ _ _ _ Hq Hv).
      destruct (Qeq_bool q 0 && existsb (fun cv : C * Q => fulfills (snd cv) q) votes); [reflexivity|].
      rewrite (scan_rel _ _ prev caps Hq _ _ Hv).
      destruct (n <? _)%Z; [|reflexivity].
      destruct pol; try reflexivity. apply subtract_rel; assumption.
    Qed.

    Theorem lr_evaluate_rel votes votes' n prev caps : vrel votes votes' ->
      lr_evaluate quota accept_equal pol votes' n prev caps = lr_evaluate quota accept_equal pol votes n prev caps.
    Proof.
      intros Hv. unfold lr_evaluate. rewrite (qd_evaluate_rel _ _ n prev caps Hv).
      destruct (qd_evaluate quota accept_equal pol votes n prev caps) as [qe| | | | |]; try reflexivity.
      destruct (existsb _ qe); [reflexivity|].
      pose proof (quota_homog _ _ n (qsumv_rel _ _ Hv)) as Hq.
      set (q := quota (qsumv votes) n) in *. set (q' := quota (qsumv votes') n) in *.
      assert (Hz : Qeq_bool q' 0 = Qeq_bool q 0).
      { apply qsc_eq; [exact Hq|]. unfold qsc. ring. }
      rewrite Hz. destruct (Qeq_bool q 0); [reflexivity|].
      destruct (_ <=? 0)%Z; [reflexivity|].
      match goal with |- LR_ok (fold_left _ (get_n_best _ ?r' ?m) _) = LR_ok (fold_left _ (get_n_best _ ?r ?m) _) =>
        assert (E : get_n_best Qle_bool r' m = get_n_best Qle_bool r m) end.
      { apply (get_n_best_rel Qle_bool Qle_bool Qeq (fun a a' b b' Ha Hb => Qle_bool_Qeq a a' b b' (Qeq_sym _ _ Ha) (Qeq_sym _ _ Hb))).
        clearbody q q'. clear -Hv Hq Hk. induction Hv as [|[c v] [c' v'] l l' Hy Hl IHl]; simpl; [constructor|].
        destruct Hy as [Hc Hvv]. simpl in Hc, Hvv. subst c'.
        assert (Hp : prel (K := C) Qeq (c, (v / q - inject_Z (dget_or (add_dict
                     (flat_map (fun kv : key * Z => match fst kv with K c0 => [(c0, snd kv)] | KT _ => [] end) qe) prev) c 0%Z))%Q)
                     (c, (v' / q' - inject_Z (dget_or (add_dict
                     (flat_map (fun kv : key * Z => match fst kv with K c0 => [(c0, snd kv)] | KT _ => [] end) qe) prev) c 0%Z))%Q)).
        { split; [reflexivity|]. simpl. rewrite (qsc_div _ _ _ _ Hvv Hq). reflexivity. }
        destruct (dget caps c) as [m|].
        - destruct (_ <? m)%Z; [|exact IHl]. apply Forall2_app; [|exact IHl]. constructor; [exact Hp|constructor].
        - apply Forall2_app; [|exact IHl]. constructor; [exact Hp|constructor]. }
      rewrite E. reflexivity.
    Qed.
  End WithQuota.

  (* ------------------------------------------------------------ the homogeneous quota functions *)
  Lemma hare_homog v v' n : qsc v v' -> qsc (hare v n) (hare v' n).
  Proof. unfold qsc, hare. intros H. rewrite H. unfold Qdiv. ring. Qed.
  Lemma hb_homog v v' n : qsc v v' -> qsc (hagenbach_bischoff v n) (hagenbach_bischoff v' n).
  Proof. unfold qsc, hagenbach_bischoff. intros H. rewrite H. unfold Qdiv. ring. Qed.
  Lemma imperiali_homog v v' n : qsc v v' -> qsc (imperiali v n) (imperiali v' n).
  Proof. unfold qsc, imperiali. intros H. rewrite H. unfold Qdiv. ring. Qed.

  Lemma vrel_scale votes : vrel votes (map (fun cv : C * Q => (fst cv, (k * snd cv)%Q)) votes).
  Proof. induction votes as [|y l IH]; simpl; constructor; [|exact IH]. split; [reflexivity|]. simpl. unfold qsc. reflexivity. Qed.
End QScale.

Definition homogeneous_quota (i : Z) : bool := ((i =? 1) || (i =? 4) || (i =? 7))%Z.

Lemma quota_fn_homog k i : homogeneous_quota i = true ->
  forall v v' n, qsc k v v' -> qsc k (quota_fn (QNamed i) v n) (quota_fn (QNamed i) v' n).
Proof.
  intros Hi v v' n Hv. unfold homogeneous_quota in Hi. unfold quota_fn.
  destruct (i =? 1)%Z; [apply hare_homog, Hv|].
  destruct (i =? 2)%Z eqn:E2; [exfalso; apply Z.eqb_eq in E2; subst i; discriminate|].
  destruct (i =? 3)%Z eqn:E3; [exfalso; apply Z.eqb_eq in E3; subst i; discriminate|].
  destruct (i =? 4)%Z; [apply hb_homog, Hv|].
  destruct (i =? 5)%Z eqn:E5; [exfalso; apply Z.eqb_eq in E5; subst i; discriminate|].
  destruct (i =? 6)%Z eqn:E6; [exfalso; apply Z.eqb_eq in E6; subst i; discriminate|].
  simpl in Hi. apply imperiali_homog, Hv.
Qed.
