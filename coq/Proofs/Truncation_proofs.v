(* ScoreToSimpleVotes corrections (Model/Cardinal.v correct_scores) against their definition, by counting:
   - min_count: a candidate with fewer scores gets min_count copies of bottom_value;
   - unscored_value: (number of voters - number of scores) copies of the value are added;
   - truncation: _subtract_lowest over the ascending keys removes exactly the c lowest scores, over the descending
     keys exactly the c highest of what is left (c = the cut-off), all of them when there are not more than c.
   "Exactly the c lowest" is stated through counts: for EVERY threshold t the number of scores <= t drops by
   min(c, that number); likewise for the scores >= t in the second sweep. *)
From Coq Require Import ZArith QArith Qround List Bool Arith Lia Lqa Sorting.Sorted Permutation.
From VL Require Import Prelude.PyDict Model.GetNBest Model.Convert Model.Cardinal Proofs.QOrd Proofs.MJ_proofs
     Proofs.MJ_removal_proofs Proofs.ScoreDict_proofs.
Import ListNotations.
Open Scope Z_scope.

Definition gev (v y : Q) : bool := Qle_bool v y.             (* v <= y *)

(* ---- keys up to numeric equality *)
Lemma Qeq_bool_compat s s' x : (s == s')%Q -> Qeq_bool s x = Qeq_bool s' x.
Proof.
  intros H. destruct (Qeq_bool s x) eqn:E1, (Qeq_bool s' x) eqn:E2; try reflexivity.
  - apply Qeq_bool_iff in E1. assert (H2 : (s' == x)%Q) by (rewrite <- H; exact E1). apply Qeq_bool_iff in H2. congruence.
  - apply Qeq_bool_iff in E2. assert (H2 : (s == x)%Q) by (rewrite H; exact E2). apply Qeq_bool_iff in H2. congruence.
Qed.

Lemma cs_get_key d s n : cs_get d s = Some n -> exists s', In (s', n) d /\ (s == s')%Q.
Proof.
  induction d as [|[x k] t IH]; cbn [cs_get]; [discriminate|]. destruct (Qeq_bool s x) eqn:E.
  - intros [= <-]. exists x. split; [left; reflexivity|apply Qeq_bool_iff, E].
  - intros H. destruct (IH H) as (s' & Hin & He). exists s'. split; [right; exact Hin|exact He].
Qed.

Lemma cs_get_none d s : cs_get d s = None -> forall sn, In sn d -> ~ (s == fst sn)%Q.
Proof.
  induction d as [|[x k] t IH]; cbn [cs_get]; [intros _ ? []|]. destruct (Qeq_bool s x) eqn:E; [discriminate|].
  intros H sn [<-|Hin]; [cbn [fst]; intros He; apply Qeq_bool_iff in He; congruence|apply IH; assumption].
Qed.

Lemma cs_set_compat d s s' y n : (s == s')%Q -> cs_get d s = Some n -> cs_set d s y = cs_set d s' y.
Proof.
  intros H. induction d as [|[x k] t IH]; cbn [cs_set cs_get]; [discriminate|].
  rewrite <- (Qeq_bool_compat s s' x H). destruct (Qeq_bool s x); [reflexivity|]. intros Hg. rewrite (IH Hg). reflexivity.
Qed.

Lemma cs_del_compat d s s' : (s == s')%Q -> cs_del d s = cs_del d s'.
Proof. intros H. unfold cs_del. apply filter_ext. intros sn. rewrite (Qeq_bool_compat s s' _ H). reflexivity. Qed.

Lemma wcnt_none_all p d : (forall sn, In sn d -> p (fst sn) = false) -> wcnt p d = 0%nat.
Proof.
  induction d as [|sn d IH]; intros H; [reflexivity|]. rewrite wcnt_cons, (H sn (or_introl eq_refl)), IH; [reflexivity|].
  intros sn' Hin. apply H. right. exact Hin.
Qed.

Lemma filter_keep_all {X} (f : X -> bool) l : (forall x, In x l -> f x = true) -> filter f l = l.
Proof.
  induction l as [|x l IH]; intros H; [reflexivity|]. cbn [filter]. rewrite (H x (or_introl eq_refl)), IH; [reflexivity|].
  intros y Hy. apply H. right. exact Hy.
Qed.

Lemma wcnt_del p d s' n : cs_distinct d -> In (s', n) d ->
  (wcnt p (cs_del d s') + (if p s' then Z.to_nat n else 0) = wcnt p d)%nat.
Proof.
  induction d as [|[x k] t IH]; intros Hd Hin; [destruct Hin|]. cbn [cs_distinct fst] in Hd. destruct Hd as (Hhead & Ht).
  unfold cs_del. cbn [filter fst]. destruct Hin as [H|H].
  - injection H as -> ->. assert (E : Qeq_bool s' s' = true) by (apply Qeq_bool_iff; reflexivity). rewrite E. cbn [negb].
    rewrite filter_keep_all; [rewrite wcnt_cons; cbn [fst snd]; lia|].
    intros sn Hsn. apply negb_true_iff. destruct (Qeq_bool s' (fst sn)) eqn:E2; [|reflexivity].
    apply Qeq_bool_iff in E2. exfalso. apply (Hhead _ Hsn). symmetry. exact E2.
  - assert (E : Qeq_bool s' x = false).
    { destruct (Qeq_bool s' x) eqn:E2; [|reflexivity]. apply Qeq_bool_iff in E2. exfalso. apply (Hhead _ H). cbn [fst]. exact E2. }
    rewrite E. cbn [negb]. rewrite !wcnt_cons. cbn [fst snd]. fold (cs_del t s'). pose proof (IH Ht H). lia.
Qed.

Lemma cs_del_keys d s sn : In sn (cs_del d s) -> In sn d /\ ~ (s == fst sn)%Q.
Proof.
  unfold cs_del. intros H. apply filter_In in H. destruct H as (H1 & H2). split; [exact H1|].
  intros He. apply Qeq_bool_iff in He. rewrite He in H2. discriminate.
Qed.

(* ================================================================ one sweep of _subtract_lowest *)
Section Sweep.
  Variable inb : Q -> Q -> bool.               (* inb t s: the grade s is counted for the threshold t *)
  Hypothesis inb_compat : forall t x y, (x == y)%Q -> inb t x = inb t y.
  (* s is swept no later than s' *)
  Definition before (s s' : Q) : Prop := forall t, inb t s' = true -> inb t s = true.
  Definition covered (d : cscores) (keys : list Q) : Prop := forall sn, In sn d -> exists k, In k keys /\ (fst sn == k)%Q.

  Lemma sweep : forall keys d cutoff cut d',
    StronglySorted before keys -> cs_okd d -> covered d keys -> cut <= cutoff ->
    subtract_lowest d keys cutoff cut = Some d' ->
    cs_okd d' /\ (forall sn, In sn d' -> In (fst sn) (map fst d)) /\
    forall t, Z.of_nat (wcnt (inb t) d') = Z.max 0 (Z.of_nat (wcnt (inb t) d) - (cutoff - cut)).
  Proof.
    induction keys as [|s rest IH]; intros d cutoff cut d' Hs Hd Hcov Hcut; cbn [subtract_lowest].
    - intros [= <-]. split; [exact Hd|]. split; [intros sn Hsn; apply in_map, Hsn|].
      intros t. destruct d as [|sn d]; [cbn; lia|]. destruct (Hcov sn (or_introl eq_refl)) as (k & [] & _).
    - inversion Hs as [|? ? Hrest Hall]; subst. rewrite Forall_forall in Hall.
      (* a threshold the head key does not count for counts nothing at all *)
      assert (Hzero : forall t, inb t s = false -> wcnt (inb t) d = 0%nat).
      { intros t Ht. apply wcnt_none_all. intros sn Hsn. destruct (Hcov sn Hsn) as (k & [<-|Hk] & He).
        - rewrite (inb_compat t _ _ He). exact Ht.
        - rewrite (inb_compat t _ _ He). destruct (inb t k) eqn:Ek; [|reflexivity]. rewrite (Hall k Hk t Ek) in Ht. discriminate. }
      destruct (cs_get d s) as [n|] eqn:Eg.
      + destruct (cs_get_key d s n Eg) as (s' & Hin & Hss').
        pose proof (cs_get_nonneg d s n (proj1 Hd) Eg) as Hn0.
        destruct (n <=? cutoff - cut) eqn:En.
        * apply Z.leb_le in En. intros Hr.
          assert (Hcov' : covered (cs_del d s) rest).
          { intros sn Hsn. apply cs_del_keys in Hsn. destruct Hsn as (Hsn & Hne). destruct (Hcov sn Hsn) as (k & [<-|Hk] & He).
            - exfalso. apply Hne. symmetry. exact He.
            - exists k. split; assumption. }
          destruct (IH (cs_del d s) cutoff (cut + n) d' Hrest (cs_del_okd d s Hd) Hcov' ltac:(lia) Hr) as (Hok & Hkeys & Hcnt).
          split; [exact Hok|]. split.
          { intros sn Hsn. specialize (Hkeys sn Hsn). apply in_map_iff in Hkeys. destruct Hkeys as (sn0 & Hf & Hsn0).
            apply cs_del_keys in Hsn0. rewrite <- Hf. apply in_map, Hsn0. }
          intros t. rewrite (Hcnt t). pose proof (wcnt_del (inb t) d s' n (proj2 Hd) Hin) as Hdel.
          rewrite (cs_del_compat d s s' Hss'). rewrite <- (inb_compat t s s' Hss') in Hdel.
          destruct (inb t s) eqn:Et.
          -- lia.
          -- pose proof (Hzero t Et) as Hz. lia.
        * apply Z.leb_gt in En. intros [= <-].
          rewrite (cs_set_compat d s s' _ n Hss' Eg).
          destruct (cs_set_existing (fun _ => true) d s' n (n - (cutoff - cut)) (proj2 Hd) Hin) as (_ & _ & Hkeys & _).
          split; [apply cs_set_okd; [exact Hd|lia]|]. split.
          { intros sn Hsn. rewrite <- Hkeys. apply in_map, Hsn. }
          intros t. destruct (cs_set_existing (inb t) d s' n (n - (cutoff - cut)) (proj2 Hd) Hin) as (_ & Hc & _).
          rewrite <- (inb_compat t s s' Hss') in Hc. destruct (inb t s) eqn:Et.
          -- lia.
          -- pose proof (Hzero t Et) as Hz. lia.
      + (* a key of an earlier sweep that is gone: nothing to do *)
        intros Hr.
        assert (Hcov' : covered d rest).
        { intros sn Hsn. destruct (Hcov sn Hsn) as (k & [<-|Hk] & He).
          - exfalso. apply (cs_get_none d s Eg sn Hsn). symmetry. exact He.
          - exists k. split; assumption. }
        exact (IH d cutoff cut d' Hrest Hd Hcov' Hcut Hr).
  Qed.
End Sweep.

(* ================================================================ the two sweeps of the truncation *)
Lemma lev_compat t x y : (x == y)%Q -> lev t x = lev t y.
Proof.
  intros H. unfold lev. destruct (Qle_bool x t) eqn:E1, (Qle_bool y t) eqn:E2; try reflexivity.
  - apply Qle_bool_iff in E1. assert (H2 : (y <= t)%Q) by (rewrite <- H; exact E1). apply Qle_bool_iff in H2. congruence.
  - apply Qle_bool_iff in E2. assert (H2 : (x <= t)%Q) by (rewrite H; exact E2). apply Qle_bool_iff in H2. congruence.
Qed.
Lemma gev_compat t x y : (x == y)%Q -> gev t x = gev t y.
Proof.
  intros H. unfold gev. destruct (Qle_bool t x) eqn:E1, (Qle_bool t y) eqn:E2; try reflexivity.
  - apply Qle_bool_iff in E1. assert (H2 : (t <= y)%Q) by (rewrite <- H; exact E1). apply Qle_bool_iff in H2. congruence.
  - apply Qle_bool_iff in E2. assert (H2 : (t <= x)%Q) by (rewrite H; exact E2). apply Qle_bool_iff in H2. congruence.
Qed.

Lemma sorted_mono {X} (R R' : X -> X -> Prop) l : (forall a b, R a b -> R' a b) -> StronglySorted R l -> StronglySorted R' l.
Proof.
  intros H. induction 1 as [|x l Hs IH Hall]; constructor; [exact IH|]. eapply Forall_impl; [|exact Hall]. intros a. apply H.
Qed.

Lemma sorted_rev {X} (R : X -> X -> Prop) l : StronglySorted R l -> StronglySorted (fun a b => R b a) (rev l).
Proof.
  induction 1 as [|x l Hs IH Hall]; [constructor|]. cbn [rev].
  assert (Happ : forall a b : list X, StronglySorted (fun a b => R b a) a -> StronglySorted (fun a b => R b a) b ->
            (forall u v, In u a -> In v b -> R v u) -> StronglySorted (fun a b => R b a) (a ++ b)).
  { induction a as [|u a IHa]; intros b Ha Hb Hab; [exact Hb|]. cbn [app]. inversion Ha as [|? ? Ha' Hu]; subst. constructor.
    - apply IHa; [exact Ha'|exact Hb|]. intros u' v Hu' Hv. apply Hab; [right; exact Hu'|exact Hv].
    - apply Forall_forall. intros z Hz. apply in_app_or in Hz. destruct Hz as [Hz|Hz].
      + rewrite Forall_forall in Hu. apply Hu, Hz.
      + apply Hab; [left; reflexivity|exact Hz]. }
  apply Happ; [exact IH|constructor; [constructor|constructor]|].
  intros u v Hu [<-|[]]. rewrite Forall_forall in Hall. apply Hall. apply in_rev. exact Hu.
Qed.

Lemma insert_q_in_rev x l z : z = x \/ In z l -> In z (insert_q x l).
Proof.
  induction l as [|y t IH]; cbn [insert_q]; [intros [->|[]]; left; reflexivity|].
  destruct (Qle_bool x y); [intros [->|H]; [left; reflexivity|right; exact H]|].
  intros [->|[->|H]]; [right; apply IH; left; reflexivity|left; reflexivity|right; apply IH; right; exact H].
Qed.

Lemma sort_q_in_rev l z : In z l -> In z (sort_q l).
Proof.
  unfold sort_q. induction l as [|x l IH]; [intros []|]. cbn [fold_right]. intros [->|H]; apply insert_q_in_rev; [left; reflexivity|right; apply IH, H].
Qed.

Lemma subtract_lowest_some keys : forall d cutoff cut, exists d', subtract_lowest d keys cutoff cut = Some d'.
Proof.
  induction keys as [|s t IH]; intros d cutoff cut; cbn [subtract_lowest]; [eexists; reflexivity|].
  destruct (cs_get d s) as [n|]; [|apply IH]. destruct (n <=? cutoff - cut); [apply IH|eexists; reflexivity].
Qed.

(* truncation with cut-off c >= 0 on a well-formed dictionary: the first sweep (ascending keys) removes exactly the c lowest
   scores - for every t the number of scores <= t drops by min(c, that number) -, the second one (descending keys) exactly
   the c highest of the rest; no KeyError; the result is well formed *)
Theorem truncation_spec d c : cs_okd d -> 0 <= c ->
  let keys := sort_q (map fst d) in
  exists d2 d3, subtract_lowest d keys c 0 = Some d2 /\ subtract_lowest d2 (rev keys) c 0 = Some d3 /\ cs_okd d3 /\
    (forall t, Z.of_nat (wcnt (lev t) d2) = Z.max 0 (Z.of_nat (wcnt (lev t) d) - c)) /\
    (forall t, Z.of_nat (wcnt (gev t) d3) = Z.max 0 (Z.of_nat (wcnt (gev t) d2) - c)).
Proof.
  intros Hd Hc keys.
  destruct (subtract_lowest_some keys d c 0) as (d2 & E2). destruct (subtract_lowest_some (rev keys) d2 c 0) as (d3 & E3).
  exists d2, d3. split; [exact E2|]. split; [exact E3|].
  assert (Hasc : StronglySorted (before lev) keys).
  { apply (sorted_mono Qle); [|apply sort_q_sorted]. intros a b Hab t Ht. unfold lev in *. apply Qle_bool_iff in Ht. apply Qle_bool_iff.
    apply (Qle_trans _ b); assumption. }
  assert (Hdesc : StronglySorted (before gev) (rev keys)).
  { apply (sorted_mono (fun a b => Qle b a)); [|apply sorted_rev, sort_q_sorted]. intros a b Hab t Ht. unfold gev in *.
    apply Qle_bool_iff in Ht. apply Qle_bool_iff. apply (Qle_trans _ b); assumption. }
  assert (Hcov : covered d keys).
  { intros sn Hsn. exists (fst sn). split; [apply sort_q_in_rev, in_map, Hsn|reflexivity]. }
  destruct (sweep lev lev_compat keys d c 0 d2 Hasc Hd Hcov Hc E2) as (Hd2 & Hk2 & Hc2).
  assert (Hcov2 : covered d2 (rev keys)).
  { intros sn Hsn. exists (fst sn). split; [|reflexivity]. apply in_rev. rewrite rev_involutive. apply sort_q_in_rev, Hk2, Hsn. }
  destruct (sweep gev gev_compat (rev keys) d2 c 0 d3 Hdesc Hd2 Hcov2 Hc E3) as (Hd3 & _ & Hc3).
  split; [exact Hd3|]. split.
  - intros t. rewrite (Hc2 t). f_equal. lia.
  - intros t. rewrite (Hc3 t). f_equal. lia.
Qed.

(* ================================================================ correct_scores, clause by clause *)
Definition unscored_fill (cf : score_cfg) (d : cscores) (n_votes : Z) : cscores + serr :=
  match sc_unscored cf with
  | UNone => inl d
  | UConst v => inl (cs_set d v (n_votes - cs_total d + match cs_get d v with Some n => n | None => 0 end))
  | UMin => match list_min (expand d) with
            | Some v => inl (cs_set d v (n_votes - cs_total d + match cs_get d v with Some n => n | None => 0 end))
            | None => inr SE_value
            end
  end.
Definition trunc_cutoff (cf : score_cfg) (d : cscores) (n_votes : Z) : Z :=
  if Qle_bool 1 (sc_trunc cf) then Qfloor (sc_trunc cf)
  else Qfloor (inject_Z (if n_votes =? 0 then cs_total d else n_votes) * sc_trunc cf).

Lemma correct_scores_unfold cf d n_votes :
  correct_scores cf d n_votes =
  if cs_total d <? sc_min_count cf then inl [(sc_bottom cf, sc_min_count cf)] else
  match unscored_fill cf d n_votes with
  | inr e => inr e
  | inl d1 =>
      if Qle_bool (sc_trunc cf) 0 then inl d1 else
      match subtract_lowest d1 (sort_q (map fst d1)) (trunc_cutoff cf d n_votes) 0 with
      | None => inr SE_key
      | Some d2 => match subtract_lowest d2 (rev (sort_q (map fst d1))) (trunc_cutoff cf d n_votes) 0 with
                   | None => inr SE_key
                   | Some d3 => inl d3
                   end
      end
  end.
Proof. reflexivity. Qed.

(* adding k copies of the grade v *)
Lemma cs_set_new d v y : cs_get d v = None -> cs_set d v y = d ++ [(v, y)].
Proof.
  induction d as [|[x k] t IH]; cbn [cs_get cs_set app]; [reflexivity|]. destruct (Qeq_bool v x); [discriminate|].
  intros H. rewrite (IH H). reflexivity.
Qed.

Lemma wcnt_app p a b : wcnt p (a ++ b) = (wcnt p a + wcnt p b)%nat.
Proof. induction a as [|sn a IH]; [reflexivity|]. cbn [app]. rewrite !wcnt_cons, IH. lia. Qed.

Lemma fill_counts p d v k : (forall x y, (x == y)%Q -> p x = p y) -> cs_okd d -> 0 <= k ->
  wcnt p (cs_set d v (k + match cs_get d v with Some n => n | None => 0 end)) = (wcnt p d + (if p v then Z.to_nat k else 0))%nat.
Proof.
  intros Hp Hd Hk. destruct (cs_get d v) as [n|] eqn:Eg.
  - destruct (cs_get_key d v n Eg) as (v' & Hin & Hvv'). pose proof (cs_get_nonneg d v n (proj1 Hd) Eg) as Hn.
    rewrite (cs_set_compat d v v' _ n Hvv' Eg).
    destruct (cs_set_existing p d v' n (k + n) (proj2 Hd) Hin) as (_ & Hc & _). rewrite <- (Hp v v' Hvv') in Hc.
    destruct (p v); [rewrite Z2Nat.inj_add in Hc by lia; lia|lia].
  - rewrite (cs_set_new d v _ Eg), wcnt_app, wcnt_cons. cbn [fst snd]. change (wcnt p []) with 0%nat. rewrite Z.add_0_r. destruct (p v); lia.
Qed.

(* the corrections of one candidate's scores, as defined: [d] its raw score counts, [n_votes] the number of voters *)
Theorem correct_scores_spec cf d n_votes : cs_okd d -> cs_total d <= n_votes ->
  (* min_count *)
  (cs_total d < sc_min_count cf -> correct_scores cf d n_votes = inl [(sc_bottom cf, sc_min_count cf)]) /\
  (sc_min_count cf <= cs_total d ->
     (* unscored_value: the voters that did not score the candidate give it the configured value (or its lowest score) *)
     (forall d1, unscored_fill cf d n_votes = inl d1 ->
        cs_okd d1 /\
        forall p, (forall x y, (x == y)%Q -> p x = p y) ->
          wcnt p d1 = (wcnt p d + match sc_unscored cf with
                                  | UNone => 0
                                  | UConst v => if p v then Z.to_nat (n_votes - cs_total d) else 0
                                  | UMin => match list_min (expand d) with
                                            | Some v => if p v then Z.to_nat (n_votes - cs_total d) else 0
                                            | None => 0
                                            end
                                  end)%nat) /\
     (* no truncation *)
     (Qle_bool (sc_trunc cf) 0 = true -> correct_scores cf d n_votes = unscored_fill cf d n_votes) /\
     (* truncation: the c lowest and then the c highest scores are dropped *)
     (Qle_bool (sc_trunc cf) 0 = false -> 0 <= n_votes ->
        forall d1, unscored_fill cf d n_votes = inl d1 ->
          let c := trunc_cutoff cf d n_votes in
          0 <= c /\
          exists d2 d3, correct_scores cf d n_votes = inl d3 /\ cs_okd d3 /\
            (forall t, Z.of_nat (wcnt (lev t) d2) = Z.max 0 (Z.of_nat (wcnt (lev t) d1) - c)) /\
            (forall t, Z.of_nat (wcnt (gev t) d3) = Z.max 0 (Z.of_nat (wcnt (gev t) d2) - c)))).
Proof.
  intros Hd Hle. rewrite correct_scores_unfold. split.
  - intros Hlt. apply Z.ltb_lt in Hlt. rewrite Hlt. reflexivity.
  - intros Hge. assert (Em : (cs_total d <? sc_min_count cf) = false) by (apply Z.ltb_ge; exact Hge). rewrite Em.
    assert (Hfill : forall d1, unscored_fill cf d n_votes = inl d1 -> cs_okd d1).
    { intros d1 H1. apply (correct_scores_okd {| sc_fn := sc_fn cf; sc_unscored := sc_unscored cf; sc_min_count := sc_min_count cf; sc_trunc := 0%Q; sc_bottom := sc_bottom cf |} d n_votes d1 Hd);
        [right; exact Hle|]. rewrite correct_scores_unfold. cbn [sc_min_count sc_trunc]. rewrite Em.
      unfold unscored_fill in *. cbn [sc_unscored]. rewrite H1. reflexivity. }
    split; [|split].
    + intros d1 H1. split; [apply Hfill, H1|]. intros p Hp. unfold unscored_fill in H1.
      destruct (sc_unscored cf) as [|v|].
      * injection H1 as <-. lia.
      * injection H1 as <-. apply fill_counts; [exact Hp|exact Hd|lia].
      * destruct (list_min (expand d)) as [v|]; [|discriminate]. injection H1 as <-. apply fill_counts; [exact Hp|exact Hd|lia].
    + intros Ht. destruct (unscored_fill cf d n_votes) as [d1|e]; [rewrite Ht|]; reflexivity.
    + intros Ht Hnv d1 H1. rewrite H1, Ht. cbv zeta.
      assert (Hc : 0 <= trunc_cutoff cf d n_votes).
      { assert (Hpos : (0 < sc_trunc cf)%Q).
        { apply Qnot_le_lt. intros H. apply Qle_bool_iff in H. congruence. }
        assert (Hfl : forall x, (0 <= x)%Q -> 0 <= Qfloor x) by (intros x Hx; exact (Qfloor_resp_le 0 x Hx)).
        unfold trunc_cutoff. destruct (Qle_bool 1 (sc_trunc cf)); apply Hfl; [apply Qlt_le_weak, Hpos|].
        apply Qmult_le_0_compat; [|apply Qlt_le_weak, Hpos].
        pose proof (cs_total_nonneg d (proj1 Hd)) as Htot.
        destruct (n_votes =? 0); change 0%Q with (inject_Z 0); rewrite <- Zle_Qle; assumption. }
      split; [exact Hc|].
      pose proof (truncation_spec d1 (trunc_cutoff cf d n_votes) (Hfill d1 H1) Hc) as Hts. cbv zeta in Hts.
      destruct Hts as (d2 & d3 & E2 & E3 & Hd3 & Hc2 & Hc3).
      exists d2, d3. rewrite E2, E3. split; [reflexivity|]. split; [exact Hd3|split; assumption].
Qed.
