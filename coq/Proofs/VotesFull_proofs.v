(* Vote monotonicity of the highest-averages model in full (C17): party p gains votes, nobody else changes; then
     (i)  the seats p holds for certain do not drop, and
     (ii) "sure seats + the possible seat out of a reported tie" do not drop either,
   for every positive NON-DECREASING divisor (no strictness), votes >= 0 (zero-vote parties included), caps (p capped or
   others capped, caps exhausted), non-negative previous gains, and whatever way either run ends (tie reported or not).

   Proof: an invariant of run a RELATIVE to the final state fb of run b ([K]: p holds in a at most what it ends with in b),
   preserved by every step of a.  If a step of a lifted p above its final total j in b, the batch of a at that moment and
   the seats of b would, by a pigeonhole count over all open seats, name a party q <> p with more seats in b than in a at
   that moment; the optimality invariants of both runs then squeeze the quotients p_j (old and new votes), q's last seat in
   b and q's waiting quotient in a to ONE level, where the LAYER invariant [Inv4] decides: a party still waiting at a
   level has taken part in every batch at that level (without strictness a party can have several quotients at one level;
   [lam] counts them), so q cannot be a layer ahead of p in b and level with it in a. *)
From Coq Require Import ZArith QArith List Bool Lia Lqa Permutation.
From VL Require Import Prelude.PyDict Model.GetNBest Model.HighestAverages Proofs.Dict_proofs Proofs.HA_proofs
     Proofs.Mono_proofs Proofs.HAUnique_proofs Proofs.HAMinmax_proofs Proofs.HouseTie_proofs.
Import ListNotations.
Open Scope Z_scope.

(* ---------------------------------------------------------------- small facts *)
Lemma Qeq_bool_congr_l a b z : (a == b)%Q -> Qeq_bool a z = Qeq_bool b z.
Proof.
  intros H. destruct (Qeq_bool a z) eqn:E1, (Qeq_bool b z) eqn:E2; try reflexivity.
  - apply Qeq_bool_iff in E1. assert (Qeq_bool b z = true) by (apply Qeq_bool_iff; rewrite <- H; exact E1). congruence.
  - apply Qeq_bool_iff in E2. assert (Qeq_bool a z = true) by (apply Qeq_bool_iff; rewrite H; exact E2). congruence.
Qed.
Lemma Qeq_bool_congr_r a z z' : (z == z')%Q -> Qeq_bool a z = Qeq_bool a z'.
Proof.
  intros H. destruct (Qeq_bool a z) eqn:E1, (Qeq_bool a z') eqn:E2; try reflexivity.
  - apply Qeq_bool_iff in E1. assert (Qeq_bool a z' = true) by (apply Qeq_bool_iff; rewrite <- H; exact E1). congruence.
  - apply Qeq_bool_iff in E2. assert (Qeq_bool a z = true) by (apply Qeq_bool_iff; rewrite H; exact E2). congruence.
Qed.
Lemma Qeq_bool_sym_b a b : Qeq_bool a b = Qeq_bool b a.
Proof.
  destruct (Qeq_bool a b) eqn:E1, (Qeq_bool b a) eqn:E2; try reflexivity.
  - apply Qeq_bool_iff in E1. assert (Qeq_bool b a = true) by (apply Qeq_bool_iff; symmetry; exact E1). congruence.
  - apply Qeq_bool_iff in E2. assert (Qeq_bool a b = true) by (apply Qeq_bool_iff; symmetry; exact E2). congruence.
Qed.
Lemma Qeq_bool_false_iff a b : Qeq_bool a b = false <-> ~ (a == b)%Q.
Proof. rewrite <- Qeq_bool_iff. destruct (Qeq_bool a b); split; congruence. Qed.

Lemma quot_cancel (v v' a : Q) : (0 < a -> v / a == v' / a -> v == v')%Q.
Proof.
  intros Ha H. assert (E : (v / a * a == v' / a * a)%Q) by (rewrite H; reflexivity).
  unfold Qdiv in E. rewrite <- !Qmult_assoc, !(Qmult_comm (/ a) a), Qmult_inv_r in E by lra. lra.
Qed.

Lemma quot_proper (v v' a : Q) : (v == v' -> v / a == v' / a)%Q.
Proof. intros H. rewrite H. reflexivity. Qed.

(* more elements => some element occurs more often *)
Lemma length_pigeon (l1 l2 : list C) : (length l1 < length l2)%nat -> exists q, count q l1 < count q l2.
Proof.
  intros Hlen.
  destruct (existsb (fun q => count q l1 <? count q l2) l2) eqn:E.
  - apply existsb_exists in E. destruct E as (q & _ & Hq). exists q. apply Z.ltb_lt. exact Hq.
  - exfalso.
    assert (Hall : forall q, count q l2 <= count q l1).
    { intros q. destruct (in_dec Pos.eq_dec q l2) as [Hi|Hn].
      - destruct (Z.lt_ge_cases (count q l1) (count q l2)) as [Hlt|Hge]; [|lia].
        assert (existsb (fun q => count q l1 <? count q l2) l2 = true); [|congruence].
        apply existsb_exists. exists q. split; [exact Hi|apply Z.ltb_lt; exact Hlt].
      - rewrite (count_notin _ _ Hn). apply count_nonneg. }
    pose proof (submultiset_length 1%positive l2 l1 Hall) as H.
    specialize (Hall 1%positive). lia.
Qed.

Definition drop_c (p : C) (l : list C) : list C := filter (fun x => negb (ceqb p x)) l.
Lemma drop_c_length p l : Z.of_nat (length (drop_c p l)) = Z.of_nat (length l) - count p l.
Proof.
  induction l as [|x l IH]; [reflexivity|]. unfold drop_c in *. cbn [filter count length].
  destruct (ceqb p x); cbn [negb length]; lia.
Qed.
Lemma drop_c_count p q l : q <> p -> count q (drop_c p l) = count q l.
Proof.
  intros Hq. induction l as [|x l IH]; [reflexivity|]. unfold drop_c in *. cbn [filter count].
  destruct (ceqb p x) eqn:E; cbn [negb count].
  - apply ceqb_eq in E. subst x. assert (ceqb q p = false) as -> by (apply ceqb_neq; exact Hq). lia.
  - rewrite IH. reflexivity.
Qed.
Lemma drop_c_count_self p l : count p (drop_c p l) = 0.
Proof.
  apply count_notin. unfold drop_c. intros H. apply filter_In in H. destruct H as [_ H]. rewrite ceqb_refl in H. discriminate.
Qed.

Lemma count_pigeon_ne p l1 l2 :
  Z.of_nat (length l1) - count p l1 < Z.of_nat (length l2) - count p l2 -> exists q, q <> p /\ count q l1 < count q l2.
Proof.
  intros H. rewrite <- !drop_c_length in H.
  destruct (length_pigeon (drop_c p l1) (drop_c p l2)) as (q & Hq); [lia|].
  destruct (Pos.eq_dec q p) as [->|Hne]; [rewrite !drop_c_count_self in Hq; lia|].
  exists q. split; [exact Hne|]. rewrite !drop_c_count in Hq by exact Hne. exact Hq.
Qed.

Lemma count_app' c a b : count c (a ++ b) = count c a + count c b.
Proof. induction a as [|y a IH]; simpl; [reflexivity|]. rewrite IH. lia. Qed.

(* ---------------------------------------------------------------- quotients of one party at one level *)
Section Lam.
  Variable d : Z -> Q.

  (* the number of seat indices i in [lo, lo + len) with v / d i level with z *)
  Fixpoint lamn (v : Q) (lo : Z) (len : nat) (z : Q) : Z :=
    match len with
    | O => 0
    | S l => lamn v lo l z + (if Qeq_bool (v / d (lo + Z.of_nat l)) z then 1 else 0)
    end.
  Definition lam (v : Q) (lo hi : Z) (z : Q) : Z := lamn v lo (Z.to_nat (hi - lo)) z.

  Lemma lamn_nonneg v lo len z : 0 <= lamn v lo len z.
  Proof. induction len as [|l IH]; simpl; [lia|]. destruct (Qeq_bool _ _); lia. Qed.
  Lemma lam_nonneg v lo hi z : 0 <= lam v lo hi z.
  Proof. apply lamn_nonneg. Qed.

  Lemma lam_snoc v lo hi z : lo <= hi ->
    lam v lo (hi + 1) z = lam v lo hi z + (if Qeq_bool (v / d hi) z then 1 else 0).
  Proof.
    intros H. unfold lam. replace (Z.to_nat (hi + 1 - lo)) with (S (Z.to_nat (hi - lo))) by lia.
    cbn [lamn]. replace (lo + Z.of_nat (Z.to_nat (hi - lo))) with hi by lia. reflexivity.
  Qed.

  Lemma lamn_zero v lo len z :
    (forall i, lo <= i < lo + Z.of_nat len -> Qeq_bool (v / d i) z = false) -> lamn v lo len z = 0.
  Proof.
    induction len as [|l IH]; intros H; [reflexivity|]. cbn [lamn].
    rewrite IH by (intros i Hi; apply H; lia). rewrite H by lia. reflexivity.
  Qed.
  Lemma lam_zero v lo hi z : (forall i, lo <= i < hi -> Qeq_bool (v / d i) z = false) -> lam v lo hi z = 0.
  Proof. intros H. apply lamn_zero. intros i Hi. apply H. lia. Qed.

  Lemma lamn_le v lo l1 l2 z : (l1 <= l2)%nat -> lamn v lo l1 z <= lamn v lo l2 z.
  Proof.
    induction 1 as [|l2 _ IH]; [lia|]. cbn [lamn]. destruct (Qeq_bool _ _); lia.
  Qed.
  Lemma lam_mono v lo h1 h2 z : h1 <= h2 -> lam v lo h1 z <= lam v lo h2 z.
  Proof. intros H. apply lamn_le. lia. Qed.

  Lemma lam_strict v lo h1 h2 z : lo <= h1 < h2 -> (v / d h1 == z)%Q -> lam v lo h1 z + 1 <= lam v lo h2 z.
  Proof.
    intros [H1 H2] E. apply Qeq_bool_iff in E.
    transitivity (lam v lo (h1 + 1) z); [rewrite lam_snoc by exact H1; rewrite E; lia|apply lam_mono; lia].
  Qed.

  Lemma lamn_proper v v' lo len z z' : (v == v')%Q -> (z == z')%Q -> lamn v lo len z = lamn v' lo len z'.
  Proof.
    intros Hv Hz. induction len as [|l IH]; [reflexivity|]. cbn [lamn]. rewrite IH.
    rewrite (Qeq_bool_congr_l _ (v' / d (lo + Z.of_nat l)) z) by (apply quot_proper; exact Hv).
    rewrite (Qeq_bool_congr_r _ z z' Hz). reflexivity.
  Qed.
  Lemma lam_proper v v' lo hi z z' : (v == v')%Q -> (z == z')%Q -> lam v lo hi z = lam v' lo hi z'.
  Proof. intros Hv Hz. apply lamn_proper; assumption. Qed.
End Lam.

(* ---------------------------------------------------------------- the layer invariant of one run *)
Section Layers.
  Variable d : Z -> Q.
  Variable votes : list (C * Q).
  Variable caps : list (C * Z).
  Variable prev : list (C * Z).
  Variable n : Z.
  Hypothesis Hpos : forall k, 0 <= k -> (0 < d k)%Q.
  Hypothesis Hmono : forall k, 0 <= k -> (d k <= d (k + 1))%Q.
  Hypothesis Hvotes : forall c v, In (c, v) votes -> (0 <= v)%Q.
  Hypothesis Hnd : NoDup (map fst votes).
  Hypothesis Hprev : forall c, 0 <= dget_or prev c 0.

  Notation cap := (cap_of caps n).
  Notation Inv1 := (Inv d votes caps prev n).
  Notation Inv3 := (HAMinmax_proofs.Inv3 d votes prev).
  Notation pv c := (dget_or prev c 0).

  (* a party waiting at a level has taken part in every batch at that level *)
  Definition Inv4 (s : state) : Prop :=
    forall y vy c' v', In y (st_qs s) -> dget votes (fst y) = Some vy -> dget votes c' = Some v' ->
      lam d v' (pv c') (tot s c') (snd y) <= lam d vy (pv (fst y)) (tot s (fst y)) (snd y).

  (* an eligible party's current quotient is in the queue *)
  Lemma waits_in_queue s c v : Inv1 s -> In (c, v) votes -> tot s c < cap c -> In (c, (v / d (tot s c))%Q) (st_qs s).
  Proof.
    intros I Hc Hlt. pose proof (inv_complete _ _ _ _ _ _ I c v Hc Hlt) as Hk.
    apply in_map_iff in Hk. destruct Hk as ([c0 x] & Hc0 & Hy). simpl in Hc0. subst c0.
    pose proof (inv_items _ _ _ _ _ _ I) as Hit. rewrite Forall_forall in Hit. destruct (Hit _ Hy) as (v0 & Hv0 & Hx & _).
    simpl in Hv0, Hx. rewrite (In_dget _ _ _ Hnd Hc) in Hv0. injection Hv0 as <-. unfold tot. unfold tot_of in Hx. rewrite <- Hx. exact Hy.
  Qed.

  (* every awarded seat index of a party has a quotient at least as large as everything still waiting *)
  Lemma awarded_ge_waiting s c v i y : Inv1 s -> Inv3 s -> dget votes c = Some v -> pv c <= i < tot s c -> In y (st_qs s) ->
    (snd y <= v / d i)%Q.
  Proof.
    intros I I3 Hv Hi Hy. destruct (I3 c) as (v0 & Hv0 & Hlast); [lia|]. rewrite Hv in Hv0. injection Hv0 as <-.
    pose proof (inv_optimal _ _ _ _ _ _ I _ Hlast) as Ho. rewrite Forall_forall in Ho. specialize (Ho _ Hy). simpl in Ho.
    assert (H : (v / d (tot s c - 1) <= v / d i)%Q).
    { apply quot_mono; [apply (Hvotes c), dget_In, Hv|apply Hpos; specialize (Hprev c); lia|].
      apply divisor_mono_le; [exact Hmono|]. specialize (Hprev c). lia. }
    lra.
  Qed.

  Lemma step_inv4 s : Inv1 s -> Inv3 s -> Inv4 s -> 0 < st_rem s -> st_qs s <> [] -> Inv4 (step d votes caps n s).
  Proof.
    intros I I3 I4 Hrem Hne. pose proof I as I'. unfold step.
    destruct I as [Ind Iit Isorted Iopt Icaps Inn Icomp Irem Iacc Iaw Iracc Itie].
    destruct (st_qs s) as [|[c0 m] qs'] eqn:Eqs; [congruence|]. clear Hne. cbv zeta.
    remember (@cons qitem (c0, m) qs') as qs eqn:Eq0 in *.
    assert (Hk1 : (1 <= run_length m qs)%nat) by (rewrite Eq0; apply run_length_pos).
    assert (Hmax : Forall (fun y => (snd y <= m)%Q) qs).
    { pose proof Isorted as Hs0. rewrite Eq0 in Hs0. rewrite Eq0. exact (head_max c0 m qs' Hs0). }
    assert (Hhead : In (c0, m) qs) by (rewrite Eq0; left; reflexivity).
    destruct (run_split_ex m qs) as (batch & rest & Hqs & Hlen & Hfb & Hbm & Hrest0).
    rewrite Hfb. clear Hfb.
    remember (run_length m qs) as k eqn:Ek0 in *. clear Ek0.
    assert (Hs2 : sortedq (batch ++ rest)) by (rewrite <- Hqs; exact Isorted).
    assert (Hbne : batch <> []) by (intros E; rewrite E in Hlen; simpl in Hlen; lia).
    assert (Hrestlt : Forall (fun y => Qeq_bool (snd y) m = false) rest).
    { apply (rest_below m batch rest Hbne); [exact Hs2|exact Hbm|exact Hrest0]. }
    assert (Hnd2 : NoDup (map fst batch ++ map fst rest)).
    { pose proof Ind as Ind2. rewrite Hqs, map_app in Ind2. exact Ind2. }
    destruct (nodup_app_inv _ _ Hnd2) as (Hndb & Hndr & Hdisj).
    assert (Hitb : Forall (item_ok d votes caps n (st_totals s)) batch).
    { rewrite Hqs in Iit. apply Forall_app in Iit. tauto. }
    rewrite Forall_forall in Hitb, Hbm, Hrestlt, Hmax.
    destruct (Z.of_nat k <=? st_rem s) eqn:Ek.
    - (* the batch is elected *)
      set (t' := fold_left incr (map fst (rev batch)) (st_totals s)).
      assert (Htot' : forall c, tot_of t' c = tot_of (st_totals s) c + count c (map fst batch)).
      { intros c. unfold t'. rewrite tot_fold_incr, map_rev, count_rev. reflexivity. }
      assert (Hin_b : forall c, In c (map fst batch) -> tot_of t' c = tot_of (st_totals s) c + 1).
      { intros c Hc. rewrite Htot', (count_nodup _ _ Hndb Hc). reflexivity. }
      assert (Hnin_b : forall c, ~ In c (map fst batch) -> tot_of t' c = tot_of (st_totals s) c).
      { intros c Hc. rewrite Htot', (count_notin _ _ Hc). lia. }
      assert (Hnew_le : forall b, In b batch -> forall x, In x (newq d votes caps n t' b) -> (snd x <= m)%Q).
      { intros b Hb x Hx. destruct (Hitb b Hb) as (v & Hv & Hsnd & H0 & Hc).
        unfold newq in Hx. destruct (tot_of t' (fst b) <? cap (fst b)); [|destruct Hx].
        rewrite Hv in Hx. destruct Hx as [<-|[]]. simpl.
        rewrite (Hin_b (fst b)) by (apply in_map; exact Hb).
        specialize (Hbm b Hb). apply Qeq_bool_iff in Hbm.
        rewrite <- Hbm, Hsnd.
        apply quot_mono.
        - apply (Hvotes (fst b)). apply dget_In. exact Hv.
        - apply Hpos. exact H0.
        - apply Hmono. exact H0. }
      assert (Hpr : pop_reinsert d votes caps n t' k qs = reins d votes caps n t' batch rest).
      { rewrite Hqs at 1. rewrite <- Hlen. apply pop_reinsert_batch.
        intros b Hb x Hx. apply Forall_forall. intros y Hy.
        apply Qle_bool_iff. pose proof (Hnew_le b Hb x Hx) as H1.
        specialize (Hbm y Hy). apply Qeq_bool_iff in Hbm. lra. }
      rewrite Hpr.
      pose proof (reins_perm d votes caps n t' batch rest) as Hperm.
      (* the batch member's own level count rises by one at level m *)
      assert (Hb_lam : forall b vb z, In b batch -> dget votes (fst b) = Some vb ->
                lam d vb (pv (fst b)) (tot_of t' (fst b)) z
                = lam d vb (pv (fst b)) (tot_of (st_totals s) (fst b)) z + (if Qeq_bool m z then 1 else 0)).
      { intros b vb z Hb Hvb. rewrite (Hin_b (fst b)) by (apply in_map; exact Hb).
        destruct (Hitb b Hb) as (v & Hv & Hsnd & H0 & Hc). rewrite Hvb in Hv. injection Hv as <-.
        rewrite lam_snoc.
        - f_equal. specialize (Hbm b Hb). apply Qeq_bool_iff in Hbm. rewrite <- Hsnd. rewrite (Qeq_bool_congr_l _ _ z Hbm). reflexivity.
        - specialize (Iacc (fst b)). unfold tot in Iacc. unfold tot_of.
          pose proof (count_nonneg (fst b) (map fst (st_awards s))). lia. }
      (* anybody's level count rises by at most one, and only at level m *)
      assert (Hc_lam : forall c' v' z, dget votes c' = Some v' ->
                lam d v' (pv c') (tot_of t' c') z
                <= lam d v' (pv c') (tot_of (st_totals s) c') z + (if Qeq_bool m z then 1 else 0)).
      { intros c' v' z Hv'. destruct (in_dec Pos.eq_dec c' (map fst batch)) as [Hin|Hnin].
        - apply in_map_iff in Hin. destruct Hin as (b & <- & Hb). rewrite (Hb_lam b v' z Hb Hv'). lia.
        - rewrite (Hnin_b c' Hnin). destruct (Qeq_bool m z); lia. }
      intros y vy c' v' Hy Hvy Hv'. unfold tot. cbn [st_qs st_totals] in *.
      fold (tot_of t' c') (tot_of t' (fst y)).
      apply (Permutation_in _ Hperm) in Hy. apply in_app_or in Hy. destruct Hy as [Hy|Hy].
      + (* a re-inserted batch member *)
        apply in_flat_map in Hy. destruct Hy as (b & Hb & Hy).
        pose proof (Hnew_le b Hb y Hy) as Hyle.
        assert (Hfy : fst y = fst b).
        { unfold newq in Hy. destruct (tot_of t' (fst b) <? cap (fst b)); [|destruct Hy].
          destruct (dget votes (fst b)); [|destruct Hy]. destruct Hy as [<-|[]]. reflexivity. }
        rewrite Hfy in Hvy |- *.
        destruct (Qeq_bool m (snd y)) eqn:Ey.
        * (* still at level m: one layer further, like everybody else at most *)
          rewrite (Hb_lam b vy (snd y) Hb Hvy), Ey.
          pose proof (Hc_lam c' v' (snd y) Hv') as H1. rewrite Ey in H1.
          assert (Hb_qs : In b (st_qs s)) by (rewrite Eqs, Hqs; apply in_or_app; left; exact Hb).
          pose proof (I4 b vy c' v' Hb_qs Hvy Hv') as H2. unfold tot in H2. fold (tot_of (st_totals s) c') (tot_of (st_totals s) (fst b)) in H2.
          assert (Hlev : (snd b == snd y)%Q).
          { specialize (Hbm b Hb). apply Qeq_bool_iff in Hbm, Ey. rewrite Hbm. exact Ey. }
          rewrite (lam_proper d v' v' _ _ (snd b) (snd y) (Qeq_refl _) Hlev) in H2.
          rewrite (lam_proper d vy vy _ _ (snd b) (snd y) (Qeq_refl _) Hlev) in H2. lia.
        * (* strictly below m: nobody has a seat at that level *)
          assert (Hlt : (snd y < m)%Q).
          { apply Qeq_bool_false_iff in Ey. destruct (Qlt_le_dec (snd y) m) as [H|H]; [exact H|]. exfalso. apply Ey. lra. }
          rewrite (lam_zero d v' (pv c') (tot_of t' c') (snd y)); [apply lam_nonneg|].
          intros i Hi. apply Qeq_bool_false_iff. intros E.
          assert (Hge : (m <= v' / d i)%Q).
          { destruct (Z.lt_ge_cases i (tot_of (st_totals s) c')) as [Hold|Hnew].
            - assert (Hh : In (c0, m) (st_qs s)) by (rewrite Eqs; exact Hhead).
              apply (awarded_ge_waiting s c' v' i (c0, m) I' I3 Hv'); [unfold tot; unfold tot_of in Hold; lia|exact Hh].
            - destruct (in_dec Pos.eq_dec c' (map fst batch)) as [Hin|Hnin]; [|rewrite (Hnin_b c' Hnin) in Hi; lia].
              rewrite (Hin_b c' Hin) in Hi. assert (i = tot_of (st_totals s) c') by lia. subst i.
              apply in_map_iff in Hin. destruct Hin as (b' & <- & Hb').
              destruct (Hitb b' Hb') as (v & Hv & Hsnd & _). rewrite Hv' in Hv. injection Hv as <-.
              specialize (Hbm b' Hb'). apply Qeq_bool_iff in Hbm. rewrite <- Hsnd. lra. }
          lra.
      + (* an item that kept waiting: strictly below m, its own total unchanged *)
        specialize (Hrestlt y Hy). rewrite Qeq_bool_sym_b in Hrestlt.
        pose proof (Hc_lam c' v' (snd y) Hv') as H1. rewrite Hrestlt in H1.
        assert (Hnin : ~ In (fst y) (map fst batch)) by (intros Hc; apply (Hdisj _ Hc); apply in_map; exact Hy).
        rewrite (Hnin_b (fst y) Hnin).
        assert (Hy_qs : In y (st_qs s)) by (rewrite Eqs, Hqs; apply in_or_app; right; exact Hy).
        pose proof (I4 y vy c' v' Hy_qs Hvy Hv') as H2. unfold tot in H2. fold (tot_of (st_totals s) c') (tot_of (st_totals s) (fst y)) in H2. lia.
    - (* tie: the queue is permuted, totals unchanged *)
      assert (Hsame : flat_map (newq d votes caps n (st_totals s)) batch = batch).
      { apply flat_map_newq_same. apply Forall_forall. exact Hitb. }
      assert (Hpr : pop_reinsert d votes caps n (st_totals s) k qs = reins d votes caps n (st_totals s) batch rest).
      { rewrite Hqs at 1. rewrite <- Hlen. apply pop_reinsert_batch.
        intros b Hb x Hx. rewrite (newq_same _ _ _ _ _ _ (Hitb b Hb)) in Hx.
        destruct Hx as [<-|[]]. apply Forall_forall. intros y Hy. apply Qle_bool_iff.
        pose proof (Hbm b Hb) as H1. pose proof (Hbm y Hy) as H2.
        apply Qeq_bool_iff in H1, H2. lra. }
      rewrite Hpr.
      assert (Hperm : Permutation (reins d votes caps n (st_totals s) batch rest) qs).
      { rewrite (reins_perm d votes caps n (st_totals s) batch rest), Hsame, <- Hqs. reflexivity. }
      intros y vy c' v' Hy Hvy Hv'. unfold tot. cbn [st_qs st_totals] in *.
      apply (Permutation_in _ Hperm) in Hy. rewrite <- Eqs in Hy. exact (I4 y vy c' v' Hy Hvy Hv').
  Qed.

  Lemma init_inv4 : Inv4 (init_state d votes n prev caps).
  Proof.
    intros y vy c' v' _ _ _. unfold tot, init_state. cbn [st_totals]. unfold lam. rewrite !Z.sub_diag. simpl. lia.
  Qed.

  Lemma loop_inv134 fuel : forall s, Inv1 s -> Inv3 s -> Inv4 s ->
    Inv1 (loop d votes caps n fuel s) /\ Inv3 (loop d votes caps n fuel s) /\ Inv4 (loop d votes caps n fuel s).
  Proof.
    induction fuel as [|f IH]; intros s I I3 I4; simpl; [tauto|].
    destruct (0 <? st_rem s) eqn:E1; simpl; [|tauto].
    destruct (st_qs s) eqn:E2; simpl; [tauto|].
    assert (Hne : st_qs s <> []) by (rewrite E2; discriminate). apply Z.ltb_lt in E1.
    apply IH.
    - apply (step_inv d votes caps prev n Hpos Hmono Hvotes); assumption.
    - apply (step_inv3 d votes caps prev n); assumption.
    - apply step_inv4; assumption.
  Qed.

  Lemma final_inv4 : Inv4 (final_state d votes n prev caps).
  Proof.
    unfold final_state. apply loop_inv134; [apply init_inv; assumption|apply init_inv3|apply init_inv4].
  Qed.

  Lemma tie_nodup s T r : Inv1 s -> st_tie s = Some (T, r) -> NoDup T.
  Proof.
    intros I Et. destruct (inv_tie _ _ _ _ _ _ I T r Et) as (_ & _ & m & _ & _ & Hperm).
    apply (Permutation_NoDup (Permutation_sym Hperm)).
    pose proof (inv_nodup _ _ _ _ _ _ I) as Hq. clear -Hq.
    induction (st_qs s) as [|y q IH]; simpl; [constructor|].
    simpl in Hq. inversion Hq as [|? ? Hy Hq']; subst.
    destruct (Qeq_bool (snd y) m); [|apply IH, Hq'].
    simpl. constructor; [|apply IH, Hq'].
    intros Hin. apply Hy. apply in_map_iff in Hin. destruct Hin as (z & Hz & Hf). apply filter_In in Hf.
    apply in_map_iff. exists z. split; [exact Hz|apply Hf].
  Qed.
End Layers.

(* ---------------------------------------------------------------- two runs: party p gains votes *)
Definition tie_members (s : state) : list C := match st_tie s with Some (T, _) => T | None => [] end.
Definition possc (s : state) (c : C) : Z := count c (tie_members s).

Lemma count_nodup_01 c l : NoDup l -> count c l = if cmem c l then 1 else 0.
Proof.
  intros Hn. destruct (cmem c l) eqn:E.
  - apply cmem_In in E. apply count_nodup; assumption.
  - apply count_notin. intros H. apply cmem_In in H. congruence.
Qed.

Section VotesFull.
  Variable d : Z -> Q.
  Variables votes votes' : list (C * Q).
  Variable caps : list (C * Z).
  Variable prev : list (C * Z).
  Variable n : Z.
  Hypothesis Hpos : forall k, 0 <= k -> (0 < d k)%Q.
  Hypothesis Hmono : forall k, 0 <= k -> (d k <= d (k + 1))%Q.
  Hypothesis Hv : forall c v, In (c, v) votes -> (0 <= v)%Q.
  Hypothesis Hv' : forall c v, In (c, v) votes' -> (0 <= v)%Q.
  Hypothesis Hnd : NoDup (map fst votes).
  Hypothesis Hnd' : NoDup (map fst votes').
  Hypothesis Hprev : forall c, 0 <= dget_or prev c 0.
  (* votes' = votes except that party p has at least as many votes *)
  Variable p : C.
  Variables vp vp' : Q.
  Hypothesis Hp : dget votes p = Some vp.
  Hypothesis Hp' : dget votes' p = Some vp'.
  Hypothesis Hmore : (vp <= vp')%Q.
  Hypothesis Hothers : forall c, c <> p -> dget votes' c = dget votes c.

  Notation fa := (final_state d votes n prev caps).
  Notation fb := (final_state d votes' n prev caps).
  Notation cap := (cap_of caps n).
  Notation pv c := (dget_or prev c 0).
  Notation InvA := (Inv d votes caps prev n).
  Notation Inv4A := (Inv4 d votes prev).
  Notation NN := (n - zsum (map snd prev)).
  Notation Tb := (tie_members fb).

  Let Ib : Inv d votes' caps prev n fb := final_inv d votes' caps prev n Hpos Hmono Hv' Hnd' Hprev.
  Let I3b : HAMinmax_proofs.Inv3 d votes' prev fb := final_inv3 d votes' caps prev n Hpos Hmono Hv' Hnd' Hprev.
  Let I4b : Inv4 d votes' prev fb := final_inv4 d votes' caps prev n Hpos Hmono Hv' Hnd' Hprev.

  Lemma Tb_nodup : NoDup Tb.
  Proof.
    unfold tie_members. destruct (st_tie fb) as [[T r]|] eqn:Et; [|constructor].
    exact (tie_nodup d votes' caps prev n fb T r Ib Et).
  Qed.

  Lemma Tb_member q : In q Tb -> exists vq, dget votes' q = Some vq /\ In (q, (vq / d (tot fb q))%Q) (st_qs fb) /\
    tot fb q < cap q /\ forall y, In y (st_qs fb) -> (snd y <= vq / d (tot fb q))%Q.
  Proof.
    unfold tie_members. destruct (st_tie fb) as [[T r]|] eqn:Et; [|intros []]. intros HqT.
    destruct (inv_tie _ _ _ _ _ _ Ib T r Et) as (_ & _ & m & _ & Hmax & Hperm).
    apply (Permutation_in _ Hperm) in HqT. apply in_map_iff in HqT. destruct HqT as ([q0 x] & Hq0 & Hy). simpl in Hq0. subst q0.
    apply filter_In in Hy. destruct Hy as [Hy Hxm]. simpl in Hxm. apply Qeq_bool_iff in Hxm.
    pose proof (inv_items _ _ _ _ _ _ Ib) as Hit. rewrite Forall_forall in Hit. destruct (Hit _ Hy) as (vq & Hvq & Hx & _ & Hc).
    simpl in Hvq, Hx, Hc. unfold tot_of in Hx, Hc. fold (tot fb q) in Hx, Hc.
    exists vq. split; [exact Hvq|]. split; [rewrite <- Hx; exact Hy|]. split; [exact Hc|].
    intros y Hyq. rewrite Forall_forall in Hmax. specialize (Hmax y Hyq). rewrite <- Hx. lra.
  Qed.

  Lemma Tb_level q vq y : In q Tb -> dget votes' q = Some vq -> In y (st_qs fb) -> (snd y == vq / d (tot fb q))%Q -> In (fst y) Tb.
  Proof.
    unfold tie_members. destruct (st_tie fb) as [[T r]|] eqn:Et; [|intros []]. intros HqT Hvq Hy Hlev.
    destruct (inv_tie _ _ _ _ _ _ Ib T r Et) as (_ & _ & m & _ & Hmax & Hperm).
    pose proof HqT as HqT'. apply (Permutation_in _ Hperm) in HqT'. apply in_map_iff in HqT'. destruct HqT' as ([q0 x] & Hq0 & Hyq). simpl in Hq0. subst q0.
    apply filter_In in Hyq. destruct Hyq as [Hyq Hxm]. simpl in Hxm. apply Qeq_bool_iff in Hxm.
    pose proof (inv_items _ _ _ _ _ _ Ib) as Hit. rewrite Forall_forall in Hit. destruct (Hit _ Hyq) as (vq0 & Hvq0 & Hx & _).
    simpl in Hvq0, Hx. rewrite Hvq in Hvq0. injection Hvq0 as <-. unfold tot_of in Hx. fold (tot fb q) in Hx.
    apply (Permutation_in _ (Permutation_sym Hperm)). apply in_map. apply filter_In. split; [exact Hy|].
    apply Qeq_bool_iff. rewrite Hlev, <- Hx. exact Hxm.
  Qed.

  (* the seats b has handed out, plus the members of its tie, cover all open seats - strictly more when a tie is reported *)
  Lemma fb_count : st_qs fb <> [] -> 0 < NN ->
    NN <= Z.of_nat (length (st_awards fb)) + Z.of_nat (length Tb) /\
    (Tb <> [] -> NN < Z.of_nat (length (st_awards fb)) + Z.of_nat (length Tb)).
  Proof.
    intros Hne HN. pose proof (inv_remacc _ _ _ _ _ _ Ib) as Hacc.
    assert (Hexit : st_rem fb <= 0).
    { destruct (loop_exit d votes' caps n (Z.to_nat (st_rem (init_state d votes' n prev caps))) (init_state d votes' n prev caps)) as [H|H];
        [lia|exact H|contradiction]. }
    unfold tie_members. destruct (st_tie fb) as [[T r]|] eqn:Et.
    - destruct (inv_tie _ _ _ _ _ _ Ib T r Et) as (Hr0 & Hr & _). split; [lia|]. intros _. lia.
    - destruct (inv_rem _ _ _ _ _ _ Ib) as [H|H].
      + split; [simpl; lia|]. intros H0. congruence.
      + rewrite H in Hacc. simpl in Hacc. lia.
  Qed.

  (* ---- the squeeze: p's item is at the head level m of a state s of run a, and p holds in s what it ends with in b *)
  Section Squeeze.
    Variable s : state.
    Variable m : Q.
    Variable xp : Q.
    Hypothesis Ia : InvA s.
    Hypothesis I4a : Inv4A s.
    Hypothesis Hmaxs : forall y, In y (st_qs s) -> (snd y <= m)%Q.
    Hypothesis Hpq : In (p, xp) (st_qs s).
    Hypothesis Hxp : (xp == m)%Q.
    Hypothesis Hj : tot s p = tot fb p.

    Lemma p_item : xp = (vp / d (tot s p))%Q /\ tot s p < cap p.
    Proof.
      pose proof (inv_items _ _ _ _ _ _ Ia) as Hit. rewrite Forall_forall in Hit. destruct (Hit _ Hpq) as (v & Hv0 & Hx & _ & Hc).
      simpl in Hv0, Hx, Hc. rewrite Hp in Hv0. injection Hv0 as <-. split; [exact Hx|exact Hc].
    Qed.

    Lemma p_waits_b : In (p, (vp' / d (tot fb p))%Q) (st_qs fb).
    Proof.
      destruct p_item as [_ Hc]. apply (waits_in_queue d votes' caps prev n Hnd' fb p vp' Ib (dget_In _ _ _ Hp')). lia.
    Qed.

    Lemma p_levels : (m == vp / d (tot fb p))%Q /\ (vp / d (tot fb p) <= vp' / d (tot fb p))%Q.
    Proof.
      destruct p_item as [Hx _]. split.
      - rewrite <- Hj, <- Hx. symmetry. exact Hxp.
      - apply quot_num_mono; [apply Hpos; rewrite <- Hj; apply (inv_nonneg _ _ _ _ _ _ Ia)|exact Hmore].
    Qed.

    Lemma prev_le_tot q : pv q <= tot s q.
    Proof. rewrite (inv_account _ _ _ _ _ _ Ia q). pose proof (count_nonneg q (map fst (st_awards s))). lia. Qed.

    (* nobody else can hold more seats in b than in s *)
    Lemma squeeze_more q : q <> p -> tot s q < tot fb q -> False.
    Proof.
      intros Hqp Hlt. pose proof (prev_le_tot q) as Hpq0.
      destruct (I3b q) as (vq & Hvq' & _); [lia|].
      assert (Hvq : dget votes q = Some vq) by (rewrite <- (Hothers q Hqp); exact Hvq').
      (* q's last seat in b against p's waiting quotient there *)
      pose proof (awarded_ge_waiting d votes' caps prev n Hpos Hmono Hv' Hprev fb q vq (tot fb q - 1) _ Ib I3b Hvq' ltac:(lia) p_waits_b) as H1.
      simpl in H1.
      (* q waits in s *)
      assert (Hcapq : tot s q < cap q).
      { destruct (inv_caps _ _ _ _ _ _ Ib q) as [H|H]; lia. }
      pose proof (waits_in_queue d votes caps prev n Hnd s q vq Ia (dget_In _ _ _ Hvq) Hcapq) as Hqs.
      pose proof (Hmaxs _ Hqs) as H2. simpl in H2.
      assert (H3 : (vq / d (tot fb q - 1) <= vq / d (tot s q))%Q).
      { pose proof (Hprev q) as Hpq1.
        apply quot_mono; [apply (Hv q), dget_In, Hvq|apply Hpos; lia|].
        apply divisor_mono_le; [exact Hmono|]. lia. }
      destruct p_levels as [E0 H0].
      (* everything is at one level *)
      assert (E1 : (vp / d (tot fb p) == vp' / d (tot fb p))%Q) by lra.
      assert (E2 : (vq / d (tot s q) == m)%Q) by lra.
      assert (E3 : (vp' / d (tot fb p) == m)%Q) by lra.
      assert (Evp : (vp == vp')%Q).
      { apply (quot_cancel vp vp' (d (tot fb p))); [apply Hpos; rewrite <- Hj; apply (inv_nonneg _ _ _ _ _ _ Ia)|exact E1]. }
      (* the layers *)
      pose proof (I4b _ vp' q vq p_waits_b Hp' Hvq') as L1. cbn [fst snd] in L1.
      rewrite (lam_proper d vq vq _ _ _ m (Qeq_refl _) E3), (lam_proper d vp' vp _ _ _ m (Qeq_sym _ _ Evp) E3) in L1.
      pose proof (I4a _ vq p vp Hqs Hvq Hp) as L2. cbn [fst snd] in L2.
      rewrite (lam_proper d vp vp _ _ _ m (Qeq_refl _) E2), (lam_proper d vq vq _ _ _ m (Qeq_refl _) E2) in L2.
      pose proof (lam_strict d vq (pv q) (tot s q) (tot fb q) m ltac:(lia) E2) as L3.
      rewrite Hj in L2. lia.
    Qed.

    (* a member of b's tie that holds the same in s: p is in the tie as well, and the member is level with p in s *)
    Lemma squeeze_tie q : q <> p -> In q Tb -> tot s q = tot fb q ->
      In p Tb /\ exists yq, In yq (st_qs s) /\ fst yq = q /\ (snd yq == m)%Q.
    Proof.
      intros Hqp HqT Heq. destruct (Tb_member q HqT) as (vq & Hvq' & Hqb & Hcq & Hmaxb).
      assert (Hvq : dget votes q = Some vq) by (rewrite <- (Hothers q Hqp); exact Hvq').
      assert (Hcapq : tot s q < cap q) by lia.
      pose proof (waits_in_queue d votes caps prev n Hnd s q vq Ia (dget_In _ _ _ Hvq) Hcapq) as Hqs.
      pose proof (Hmaxs _ Hqs) as H2. simpl in H2.
      pose proof (Hmaxb _ p_waits_b) as H1. simpl in H1.
      destruct p_levels as [E0 H0]. rewrite Heq in H2, Hqs.
      split.
      - apply (Tb_level q vq (p, (vp' / d (tot fb p))%Q) HqT Hvq' p_waits_b). simpl. lra.
      - exists (q, (vq / d (tot fb q))%Q). split; [exact Hqs|]. split; [reflexivity|]. simpl. lra.
    Qed.
  End Squeeze.

  Definition K (s : state) : Prop := tot s p <= tot fb p /\ tot s p + possc s p <= tot fb p + possc fb p.

  Lemma possc_nonneg s c : 0 <= possc s c.
  Proof. apply count_nonneg. Qed.

  Lemma step_keeps s : InvA s -> Inv4A s -> 0 < st_rem s -> st_qs s <> [] -> K s -> K (step d votes caps n s).
  Proof.
    intros I I4 Hrem Hne [K1 K2]. pose proof I as I'. unfold step.
    destruct I as [Ind Iit Isorted Iopt Icaps Inn Icomp Irem Iacc Iaw Iracc Itie].
    destruct (st_qs s) as [|[c0 m] qs'] eqn:Eqs; [congruence|]. clear Hne. cbv zeta.
    remember (@cons qitem (c0, m) qs') as qs eqn:Eq0 in *.
    assert (Hmax : Forall (fun y => (snd y <= m)%Q) qs).
    { pose proof Isorted as Hs0. rewrite Eq0 in Hs0. rewrite Eq0. exact (head_max c0 m qs' Hs0). }
    destruct (run_split_ex m qs) as (batch & rest & Hqs & Hlen & Hfb & Hbm & Hrest0).
    rewrite Hfb. clear Hfb.
    remember (run_length m qs) as k eqn:Ek0 in *. clear Ek0.
    assert (Hs2 : sortedq (batch ++ rest)) by (rewrite <- Hqs; exact Isorted).
    assert (Hk1 : (1 <= k)%nat).
    { rewrite <- Hlen. destruct batch as [|b0 batch]; [|simpl; lia]. exfalso. simpl in Hqs. subst rest.
      rewrite Eq0 in Hrest0. simpl in Hrest0. rewrite (Qeq_bool_refl m) in Hrest0. discriminate. }
    assert (Hbne : batch <> []) by (intros E; rewrite E in Hlen; simpl in Hlen; lia).
    assert (Hrestlt : Forall (fun y => Qeq_bool (snd y) m = false) rest).
    { apply (rest_below m batch rest Hbne); [exact Hs2|exact Hbm|exact Hrest0]. }
    assert (Hnd2 : NoDup (map fst batch ++ map fst rest)).
    { pose proof Ind as Ind2. rewrite Hqs, map_app in Ind2. exact Ind2. }
    destruct (nodup_app_inv _ _ Hnd2) as (Hndb & Hndr & Hdisj).
    rewrite Forall_forall in Hbm, Hrestlt, Hmax.
    (* no tie has been reported yet *)
    assert (Htie : st_tie s = None).
    { destruct (st_tie s) as [[T0 r0]|] eqn:Et; [|reflexivity]. destruct (Itie T0 r0 eq_refl) as (H0 & _). lia. }
    rewrite Htie in Iracc.
    assert (HN : 0 < NN) by lia.
    (* an item of the queue level with m is in the batch *)
    assert (Hlevel_batch : forall y, In y qs -> (snd y == m)%Q -> In y batch).
    { intros y Hy E. rewrite Hqs in Hy. apply in_app_or in Hy. destruct Hy as [Hy|Hy]; [exact Hy|].
      specialize (Hrestlt y Hy). apply Qeq_bool_false_iff in Hrestlt. contradiction. }
    (* what the squeeze needs, once p is in the batch and holds in s what it ends with in b *)
    assert (Hsq : In p (map fst batch) -> tot s p = tot fb p ->
              (forall q, q <> p -> tot s q < tot fb q -> False) /\
              (forall q, q <> p -> In q Tb -> tot s q = tot fb q -> In p Tb /\ In q (map fst batch)) /\
              st_qs fb <> []).
    { intros Hpb Hj. apply in_map_iff in Hpb. destruct Hpb as ([p0 xp] & Hp0 & Hb). simpl in Hp0. subst p0.
      assert (Hpq : In (p, xp) (st_qs s)) by (rewrite Eqs, Hqs; apply in_or_app; left; exact Hb).
      assert (Hxp : (xp == m)%Q) by (apply Qeq_bool_iff; exact (Hbm _ Hb)).
      assert (Hmaxs : forall y, In y (st_qs s) -> (snd y <= m)%Q) by (rewrite Eqs; exact Hmax).
      split; [|split].
      - intros q. apply (squeeze_more s m xp I' I4 Hmaxs Hpq Hxp Hj).
      - intros q Hqp HqT Heq. destruct (squeeze_tie s m xp I' Hmaxs Hpq Hxp Hj q Hqp HqT Heq) as (HpT & yq & Hyq & Hfy & Hlev).
        split; [exact HpT|]. rewrite Eqs in Hyq. rewrite <- Hfy. apply in_map. apply Hlevel_batch; assumption.
      - pose proof (p_waits_b s xp I' Hpq Hj) as Hw. intros E. rewrite E in Hw. destruct Hw. }
    pose proof Tb_nodup as HTn.
    destruct (Z.of_nat k <=? st_rem s) eqn:Ek.
    - (* ---- the batch is elected *)
      apply Z.leb_le in Ek. unfold K, tot, possc, tie_members. cbn [st_totals st_tie count].
      assert (Hnew : dget_or (fold_left incr (map fst (rev batch)) (st_totals s)) p 0 = tot s p + count p (map fst batch)).
      { unfold incr. rewrite dget_or_fold_incr, map_rev, count_rev. reflexivity. }
      rewrite Hnew. fold (tot fb p). fold (tie_members fb). fold (possc fb p).
      assert (Hgoal : tot s p + count p (map fst batch) <= tot fb p); [|pose proof (possc_nonneg fb p); lia].
      destruct (in_dec Pos.eq_dec p (map fst batch)) as [Hpb|Hpb]; [|rewrite (count_notin _ _ Hpb); lia].
      rewrite (count_nodup _ _ Hndb Hpb).
      destruct (Z.lt_ge_cases (tot s p) (tot fb p)) as [Hlt|Hge]; [lia|exfalso].
      assert (Hj : tot s p = tot fb p) by lia.
      destruct (Hsq Hpb Hj) as (Hmore_f & Htie_f & Hqb).
      destruct (fb_count Hqb HN) as [Hc1 Hc2].
      (* the count *)
      set (La := map fst (st_awards s) ++ map fst batch).
      set (Lb := map fst (st_awards fb) ++ Tb).
      assert (HcpA : count p La = tot s p - pv p + 1).
      { unfold La. rewrite count_app', (count_nodup _ _ Hndb Hpb). rewrite (Iacc p). lia. }
      assert (HcpB : count p Lb = tot fb p - pv p + count p Tb).
      { unfold Lb. rewrite count_app'. rewrite (inv_account _ _ _ _ _ _ Ib p). lia. }
      assert (HlenA : Z.of_nat (length La) <= NN).
      { unfold La. rewrite app_length, !map_length, Nat2Z.inj_add. unfold qitem in *. rewrite Hlen. lia. }
      assert (HlenB : Z.of_nat (length Lb) = Z.of_nat (length (st_awards fb)) + Z.of_nat (length Tb)).
      { unfold Lb. rewrite app_length, map_length. lia. }
      assert (HpT : count p Tb <= 1 /\ (Tb = [] -> count p Tb = 0)).
      { split; [apply count_nodup_le1, HTn|intros ->; reflexivity]. }
      assert (Hpig : Z.of_nat (length La) - count p La < Z.of_nat (length Lb) - count p Lb).
      { destruct Tb as [|t0 T0] eqn:ET.
        - destruct HpT as [_ H0]. rewrite (H0 eq_refl) in HcpB. simpl in HlenB, Hc1. lia.
        - assert (HH : NN < Z.of_nat (length (st_awards fb)) + Z.of_nat (length (t0 :: T0))) by (apply Hc2; discriminate).
          destruct HpT as [H1 _]. lia. }
      destruct (count_pigeon_ne p La Lb Hpig) as (q & Hqp & Hq).
      unfold La, Lb in Hq. rewrite !count_app' in Hq.
      pose proof (Iacc q) as Haq. pose proof (inv_account _ _ _ _ _ _ Ib q) as Hbq.
      destruct (Z.lt_ge_cases (tot s q) (tot fb q)) as [Hlq|Hgq]; [exact (Hmore_f q Hqp Hlq)|].
      pose proof (count_nonneg q (map fst batch)) as Hcb. pose proof (count_nodup_le1 q Tb HTn) as HcT.
      assert (HqT : In q Tb).
      { destruct (in_dec Pos.eq_dec q Tb) as [H|H]; [exact H|]. rewrite (count_notin _ _ H) in Hq. lia. }
      assert (Heq : tot s q = tot fb q) by lia.
      destruct (Htie_f q Hqp HqT Heq) as [_ Hqb']. pose proof (count_in_pos q _ Hqb'). lia.
    - (* ---- a tie is reported *)
      apply Z.leb_gt in Ek. unfold K, tot, possc, tie_members. cbn [st_totals st_tie].
      fold (tot s p). fold (tot fb p). fold (tie_members fb). fold (possc fb p).
      split; [exact K1|]. rewrite map_rev, count_rev. unfold qitem in *.
      destruct (in_dec Pos.eq_dec p (map fst batch)) as [Hpb|Hpb]; [|rewrite (count_notin _ _ Hpb); pose proof (possc_nonneg fb p); lia].
      rewrite (count_nodup _ _ Hndb Hpb).
      destruct (Z.lt_ge_cases (tot s p) (tot fb p)) as [Hlt|Hge]; [pose proof (possc_nonneg fb p); lia|].
      assert (Hj : tot s p = tot fb p) by lia.
      destruct (in_dec Pos.eq_dec p Tb) as [HpT|HpT]; [unfold possc; pose proof (count_in_pos p _ HpT); lia|exfalso].
      destruct (Hsq Hpb Hj) as (Hmore_f & Htie_f & Hqb).
      destruct (fb_count Hqb HN) as [Hc1 _].
      set (La := map fst (st_awards s)).
      set (Lb := map fst (st_awards fb) ++ Tb).
      assert (Hpig : Z.of_nat (length La) - count p La < Z.of_nat (length Lb) - count p Lb).
      { unfold La, Lb. rewrite count_app', app_length, !map_length, (count_notin _ _ HpT).
        pose proof (Iacc p) as H1. pose proof (inv_account _ _ _ _ _ _ Ib p) as H2. lia. }
      destruct (count_pigeon_ne p La Lb Hpig) as (q & Hqp & Hq).
      unfold La, Lb in Hq. rewrite !count_app' in Hq.
      pose proof (Iacc q) as Haq. pose proof (inv_account _ _ _ _ _ _ Ib q) as Hbq.
      destruct (Z.lt_ge_cases (tot s q) (tot fb q)) as [Hlq|Hgq]; [exact (Hmore_f q Hqp Hlq)|].
      pose proof (count_nodup_le1 q Tb HTn) as HcT.
      assert (HqT : In q Tb).
      { destruct (in_dec Pos.eq_dec q Tb) as [H|H]; [exact H|]. rewrite (count_notin _ _ H) in Hq. lia. }
      assert (Heq : tot s q = tot fb q) by lia.
      destruct (Htie_f q Hqp HqT Heq) as [HpT' _]. contradiction.
  Qed.

  Lemma loop_keeps fuel : forall s, InvA s -> HAMinmax_proofs.Inv3 d votes prev s -> Inv4A s -> K s -> K (loop d votes caps n fuel s).
  Proof.
    induction fuel as [|f IH]; intros s I I3 I4 HK; simpl; [exact HK|].
    destruct (0 <? st_rem s) eqn:E1; simpl; [|exact HK].
    destruct (st_qs s) eqn:E2; simpl; [exact HK|].
    assert (Hne : st_qs s <> []) by (rewrite E2; discriminate). apply Z.ltb_lt in E1.
    apply IH.
    - apply (step_inv d votes caps prev n Hpos Hmono Hv); assumption.
    - apply (step_inv3 d votes caps prev n); assumption.
    - apply (step_inv4 d votes caps prev n Hpos Hmono Hv Hprev); assumption.
    - apply step_keeps; assumption.
  Qed.

  Lemma init_keeps : K (init_state d votes n prev caps).
  Proof.
    assert (H0 : tot (init_state d votes n prev caps) p = pv p) by reflexivity.
    assert (H1 : possc (init_state d votes n prev caps) p = 0) by reflexivity.
    unfold K. rewrite H0, H1. pose proof (inv_account _ _ _ _ _ _ Ib p) as H2.
    pose proof (count_nonneg p (map fst (st_awards fb))). pose proof (possc_nonneg fb p). lia.
  Qed.

  Theorem votes_keeps : K fa.
  Proof.
    unfold final_state. apply loop_keeps; [apply init_inv; assumption|apply init_inv3|apply init_inv4|apply init_keeps].
  Qed.

  (* the theorem, with the possible tie seat written as in Proofs/HouseTie_proofs.v *)
  Theorem votes_monotone_full :
    tot fa p <= tot fb p /\ tot fa p + tie_seat fa p <= tot fb p + tie_seat fb p.
  Proof.
    destruct votes_keeps as [K1 K2]. split; [exact K1|].
    assert (Ha : possc fa p = tie_seat fa p).
    { unfold possc, tie_seat, tie_members. destruct (st_tie fa) as [[T r]|] eqn:Et; [|reflexivity].
      apply count_nodup_01. apply (tie_nodup d votes caps prev n fa T r); [|exact Et].
      apply final_inv; assumption. }
    assert (Hb : possc fb p = tie_seat fb p).
    { unfold possc, tie_seat. pose proof Tb_nodup as H. unfold tie_members in *. destruct (st_tie fb) as [[T r]|]; [|reflexivity].
      apply count_nodup_01, H. }
    rewrite <- Ha, <- Hb. exact K2.
  Qed.
End VotesFull.
