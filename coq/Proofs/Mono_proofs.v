(* Monotonicity of the highest-averages model (C17).
   Part A: house monotonicity, by simulation of the run for n+1 seats by the run for n seats:
   while the smaller run still has seats to give, both runs are in the same state except for
   the number of remaining seats.  No hypothesis on the divisor or the votes is needed; previous
   gains must be non-negative (then the default cap n / n+1 never distinguishes the two runs
   before the smaller one has stopped). *)
From Coq Require Import ZArith QArith List Bool Lia Permutation.
From VL Require Import Prelude.PyDict Model.GetNBest Model.HighestAverages Proofs.Dict_proofs.
Import ListNotations.
Open Scope Z_scope.

Lemma zsum_acc l : forall a, fold_left Z.add l a = a + zsum l.
Proof.
  unfold zsum. induction l as [|x l IH]; intros a; simpl; [lia|].
  rewrite IH, (IH x). lia.
Qed.
Lemma zsum_cons x l : zsum (x :: l) = x + zsum l.
Proof. unfold zsum at 1. simpl. rewrite zsum_acc. lia. Qed.

Lemma zsum_nonneg l : Forall (fun x => 0 <= x) l -> 0 <= zsum l.
Proof. induction 1 as [|x l Hx _ IH]; [unfold zsum; simpl; lia|rewrite zsum_cons; lia]. Qed.

Lemma dget_or_le_zsum (prev : list (C * Z)) c :
  Forall (fun cv => 0 <= snd cv) prev -> 0 <= dget_or prev c 0 <= zsum (map snd prev).
Proof.
  unfold dget_or. induction 1 as [|[k v] t Hk Ht IH]; simpl.
  - unfold zsum. simpl. lia.
  - rewrite zsum_cons. simpl in Hk.
    assert (0 <= zsum (map snd t)).
    { apply zsum_nonneg. rewrite Forall_map. exact Ht. }
    destruct (ceqb c k); lia.
Qed.

Lemma count_le_length c l : count c l <= Z.of_nat (length l).
Proof. induction l as [|x l IH]; simpl; [lia|]. destruct (ceqb c x); lia. Qed.

Section House.
  Variable d : Z -> Q.
  Variable votes : list (C * Q).
  Variable caps : list (C * Z).

  Definition tot_s (s : state) (c : C) : Z := dget_or (st_totals s) c 0.

  (* ---- totals only grow *)
  Lemma step_tot_mono n s c : tot_s s c <= tot_s (step d votes caps n s) c.
  Proof.
    unfold step. destruct (st_qs s) as [|[c0 m] qs'] eqn:E; [lia|]. cbv zeta.
    destruct (_ <=? _); unfold tot_s; cbn [st_totals]; [|lia].
    unfold incr. rewrite dget_or_fold_incr.
    match goal with |- context [count ?a ?l] => pose proof (count_nonneg a l) end. lia.
  Qed.

  Lemma loop_tot_mono n f : forall s c, tot_s s c <= tot_s (loop d votes caps n f s) c.
  Proof.
    induction f as [|f IH]; intros s c; simpl; [lia|].
    destruct (_ && _); [|lia]. etransitivity; [apply (step_tot_mono n)|apply IH].
  Qed.

  Lemma loop_stopped n f s : st_rem s <= 0 -> loop d votes caps n f s = s.
  Proof.
    destruct f; simpl; [reflexivity|]. intros H.
    assert (0 <? st_rem s = false) as -> by (apply Z.ltb_ge; exact H). reflexivity.
  Qed.

  (* ---- the two cap tests agree while every total is below n *)
  Lemma cap_agree n t c : t < n ->
    (t <? cap_of caps n c) = (t <? cap_of caps (n + 1) c).
  Proof.
    intros H. unfold cap_of, dget_or. destruct (dget caps c); [reflexivity|].
    assert (t <? n = true) as -> by (apply Z.ltb_lt; lia).
    symmetry. apply Z.ltb_lt. lia.
  Qed.

  Lemma pop_reinsert_agree n t : (forall c, dget_or t c 0 < n) ->
    forall k qs, pop_reinsert d votes caps n t k qs = pop_reinsert d votes caps (n + 1) t k qs.
  Proof.
    intros Ht. induction k as [|k IH]; intros qs; simpl; [reflexivity|].
    destruct qs as [|[c x] rest]; [reflexivity|].
    rewrite <- (cap_agree n _ c (Ht c)). apply IH.
  Qed.

  Lemma initial_quotients_agree n prev : (forall c, dget_or prev c 0 < n) ->
    initial_quotients d votes prev caps n = initial_quotients d votes prev caps (n + 1).
  Proof.
    intros Ht. unfold initial_quotients. f_equal. f_equal.
    induction votes as [|[c v] vs IH]; simpl; [reflexivity|].
    rewrite IH. rewrite <- (cap_agree n _ c (Ht c)). reflexivity.
  Qed.

  (* ---- the bound: totals + remaining seats never exceed the house *)
  Definition J (n : Z) (s : state) : Prop := 0 <= st_rem s /\ forall c, tot_s s c + st_rem s <= n.

  Lemma step_J n s : J n s -> J n (step d votes caps n s).
  Proof.
    intros [Hr Hb]. unfold step. destruct (st_qs s) as [|[c0 m] qs'] eqn:E; [split; assumption|]. cbv zeta.
    match goal with |- context [Z.of_nat ?x <=? _] => set (k := x) in * end.
    destruct (Z.of_nat k <=? st_rem s) eqn:Ek; unfold J, tot_s; cbn [st_totals st_rem].
    - apply Z.leb_le in Ek. split; [lia|]. intros c. unfold incr. rewrite dget_or_fold_incr.
      match goal with |- context [count ?a ?l] => pose proof (count_le_length a l) as Hc end.
      rewrite map_length, rev_length, firstn_length in Hc.
      specialize (Hb c). unfold tot_s in Hb. lia.
    - split; [lia|]. intros c. specialize (Hb c). unfold tot_s in Hb. lia.
  Qed.

  Lemma step_rem_dec n s : 0 < st_rem s -> st_qs s <> [] ->
    st_rem (step d votes caps n s) <= st_rem s - 1.
  Proof.
    intros Hr Hne. unfold step. destruct (st_qs s) as [|[c0 m] qs'] eqn:E; [congruence|]. cbv zeta.
    match goal with |- context [Z.of_nat ?x <=? _] => set (k := x) in * end.
    assert (Hk : (1 <= k)%nat).
    { unfold k. simpl. rewrite (Qeq_bool_refl m). lia. }
    clearbody k.
    destruct (_ <=? _) eqn:El; cbn [st_rem]; [apply Z.leb_le in El|]; lia.
  Qed.

  (* ---- the simulation *)
  Definition R (n : Z) (sa sb : state) : Prop :=
    st_totals sa = st_totals sb /\ st_rem sb = st_rem sa + 1 /\
    (0 < st_rem sa -> st_qs sa = st_qs sb) /\ J n sa.

  Lemma loop_sim n : forall f sa sb, R n sa sb -> st_rem sa <= Z.of_nat f ->
    forall c, tot_s (loop d votes caps n f sa) c <= tot_s (loop d votes caps (n + 1) (S f) sb) c.
  Proof.
    induction f as [|f IH]; intros sa sb (Ht & Hr & Hq & HJ) Hf c.
    - (* the smaller run has stopped *)
      change (loop d votes caps n 0 sa) with sa.
      etransitivity; [|apply loop_tot_mono]. unfold tot_s. rewrite Ht. lia.
    - change (loop d votes caps n (S f) sa) with
        (if (0 <? st_rem sa) && negb match st_qs sa with [] => true | _ => false end
         then loop d votes caps n f (step d votes caps n sa) else sa).
      change (loop d votes caps (n + 1) (S (S f)) sb) with
        (if (0 <? st_rem sb) && negb match st_qs sb with [] => true | _ => false end
         then loop d votes caps (n + 1) (S f) (step d votes caps (n + 1) sb) else sb).
      destruct ((0 <? st_rem sa) && negb match st_qs sa with [] => true | _ => false end) eqn:Eg.
      2:{ destruct ((0 <? st_rem sb) && negb match st_qs sb with [] => true | _ => false end).
          - etransitivity; [|apply loop_tot_mono]. etransitivity; [|apply (step_tot_mono (n + 1))]. unfold tot_s. rewrite Ht. lia.
          - unfold tot_s. rewrite Ht. lia. }
      apply andb_true_iff in Eg. destruct Eg as [Era Eqa]. apply Z.ltb_lt in Era.
      specialize (Hq Era).
      assert (Egb : (0 <? st_rem sb) && negb match st_qs sb with [] => true | _ => false end = true).
      { rewrite <- Hq, Eqa, andb_true_r. apply Z.ltb_lt. lia. }
      rewrite Egb.
      (* one step on both sides *)
      destruct (st_qs sa) as [|[c0 m] qs'] eqn:Eqs; [discriminate|].
      set (k := run_length m (@cons qitem (c0, m) qs')).
      destruct (Z.of_nat k <=? st_rem sa) eqn:Eka.
      + (* both runs award the batch *)
        pose proof Eka as Eka'. apply Z.leb_le in Eka.
        assert (Ekb : Z.of_nat k <=? st_rem sb = true) by (apply Z.leb_le; lia).
        apply IH.
        * pose proof (step_J n sa HJ) as HJ'.
          unfold step in *. rewrite <- Hq, Eqs in *. cbv zeta in *. fold k in HJ' |- *.
          rewrite Eka' in HJ'. rewrite Eka', Ekb. unfold R. cbn [st_totals st_rem st_qs] in *.
          rewrite <- Ht. split; [reflexivity|]. split; [lia|]. split; [|exact HJ'].
          intros Hpos. apply pop_reinsert_agree. intros c'.
          destruct HJ' as [_ Hb]. specialize (Hb c'). unfold tot_s in Hb. cbn [st_totals st_rem] in Hb. lia.
        * assert (Hne : st_qs sa <> []) by (rewrite Eqs; discriminate).
          pose proof (step_rem_dec n sa Era Hne). lia.
      + (* the smaller run reports a tie and stops; the larger one can only add seats *)
        apply Z.leb_gt in Eka.
        assert (Hstop : st_rem (step d votes caps n sa) = 0 /\ st_totals (step d votes caps n sa) = st_totals sa).
        { unfold step. rewrite Eqs. cbv zeta. fold k.
          assert (Z.of_nat k <=? st_rem sa = false) as -> by (apply Z.leb_gt; exact Eka).
          split; reflexivity. }
        destruct Hstop as [H0 Hsame].
        rewrite loop_stopped by lia.
        unfold tot_s at 1. rewrite Hsame, Ht. fold (tot_s sb c).
        etransitivity; [apply (step_tot_mono (n + 1))|apply loop_tot_mono].
  Qed.

  Theorem house_monotone n prev : Forall (fun cv => 0 <= snd cv) prev ->
    forall c, tot_s (final_state d votes n prev caps) c <= tot_s (final_state d votes (n + 1) prev caps) c.
  Proof.
    intros Hp c. unfold final_state.
    set (ra := n - zsum (map snd prev)).
    assert (Hrb : st_rem (init_state d votes (n + 1) prev caps) = ra + 1) by (unfold init_state, ra; cbn [st_rem]; lia).
    assert (Hra : st_rem (init_state d votes n prev caps) = ra) by reflexivity.
    rewrite Hrb, Hra.
    destruct (Z.lt_ge_cases ra 0) as [Hneg|Hge].
    - (* no seat open in the smaller house: it keeps the previous gains *)
      assert (Z.to_nat ra = 0%nat) as -> by lia. cbn [loop].
      etransitivity; [|apply loop_tot_mono]. unfold tot_s, init_state. cbn [st_totals]. lia.
    - replace (Z.to_nat (ra + 1)) with (S (Z.to_nat ra)) by lia.
      apply loop_sim; [|rewrite Hra; lia].
      unfold R, init_state. cbn [st_totals st_rem st_qs]. split; [reflexivity|]. split; [lia|].
      assert (Hb : forall c', dget_or prev c' 0 + ra <= n).
      { intros c'. pose proof (dget_or_le_zsum prev c' Hp). unfold ra. lia. }
      split.
      + fold ra. intros Hpos. apply initial_quotients_agree. intros c'. specialize (Hb c'). lia.
      + unfold J, tot_s. cbn [st_totals st_rem]. fold ra. split; [exact Hge|exact Hb].
  Qed.
End House.

(* ======================================================================
   Part B: vote monotonicity.  Declarative argument from the optimality invariant of
   Proofs/HA_proofs.v, strengthened by two further invariants that need a STRICTLY increasing
   divisor and positive votes: every waiting quotient is strictly below every awarded one, and
   the last seat of every party was awarded at its exact quotient. *)
From Coq Require Import Lqa.
From VL Require Import Proofs.HA_proofs.

Lemma quot_strict (v a b : Q) : (0 < v -> 0 < a -> a < b -> v / b < v / a)%Q.
Proof.
  intros Hv Ha Hab. assert (Hb : (0 < b)%Q) by lra.
  apply Qlt_shift_div_r; [exact Hb|].
  unfold Qdiv.
  assert (Hi : (0 < / a)%Q) by (apply Qinv_lt_0_compat; exact Ha).
  assert (Hone : (a * / a == 1)%Q) by (apply Qmult_inv_r; lra).
  set (i := (/ a)%Q) in *.
  assert (Hvi : (0 < v * i)%Q) by (apply Qmult_lt_0_compat; lra).
  assert (H2 : (v * i * a == v)%Q) by (rewrite <- Qmult_assoc, (Qmult_comm i a), Hone; ring).
  rewrite <- H2 at 1.
  rewrite !(Qmult_comm (v * i)).
  apply Qmult_lt_compat_r; assumption.
Qed.

Lemma quot_num_mono (v v' a : Q) : (0 < a -> v <= v' -> v / a <= v' / a)%Q.
Proof.
  intros Ha Hv. unfold Qdiv. apply Qmult_le_compat_r; [exact Hv|].
  apply Qlt_le_weak, Qinv_lt_0_compat, Ha.
Qed.

Lemma divisor_mono_le (d : Z -> Q) : (forall k, 0 <= k -> (d k <= d (k + 1)%Z)%Q) ->
  forall i j, 0 <= i <= j -> (d i <= d j)%Q.
Proof.
  intros Hm i j [Hi Hij].
  replace j with (i + Z.of_nat (Z.to_nat (j - i))) by lia.
  induction (Z.to_nat (j - i)) as [|k IH].
  - rewrite Z.add_0_r. lra.
  - replace (i + Z.of_nat (S k)) with (i + Z.of_nat k + 1) by lia.
    apply (Qle_trans _ _ _ IH). apply Hm. lia.
Qed.

(* sub-multiset => not longer; used to find a party that gained a seat *)
Lemma count_split c u x w : count c (u ++ x :: w) = count c (u ++ w) + (if ceqb c x then 1 else 0).
Proof. rewrite !count_app. simpl. lia. Qed.

Lemma submultiset_length p : forall l2 l1, (forall q, count q l2 <= count q l1) ->
  Z.of_nat (length l2) + (count p l1 - count p l2) <= Z.of_nat (length l1).
Proof.
  induction l2 as [|x l2 IH]; intros l1 H.
  - simpl. pose proof (count_le_length p l1). lia.
  - assert (Hx : In x l1).
    { destruct (in_dec Pos.eq_dec x l1) as [Hi|Hn]; [exact Hi|].
      specialize (H x). simpl in H. rewrite ceqb_refl in H. rewrite (count_notin _ _ Hn) in H.
      pose proof (count_nonneg x l2). lia. }
    destruct (in_split _ _ Hx) as (u & w & ->).
    specialize (IH (u ++ w)).
    assert (Hsub : forall q, count q l2 <= count q (u ++ w)).
    { intros q. specialize (H q). rewrite count_split in H. simpl in H. lia. }
    specialize (IH Hsub). rewrite count_split. cbn [count length]. rewrite !app_length in *. cbn [length].
    destruct (ceqb p x); lia.
Qed.

Lemma count_pigeon p l1 l2 : (length l1 <= length l2)%nat -> count p l2 < count p l1 ->
  exists q, count q l1 < count q l2.
Proof.
  intros Hlen Hp.
  destruct (existsb (fun q => count q l1 <? count q l2) l2) eqn:E.
  - apply existsb_exists in E. destruct E as (q & _ & Hq). exists q. apply Z.ltb_lt. exact Hq.
  - exfalso.
    assert (Hall : forall q, count q l2 <= count q l1).
    { intros q. destruct (in_dec Pos.eq_dec q l2) as [Hi|Hn].
      - destruct (Z.lt_ge_cases (count q l1) (count q l2)) as [Hlt|Hge]; [|lia].
        assert (existsb (fun q => count q l1 <? count q l2) l2 = true); [|congruence].
        apply existsb_exists. exists q. split; [exact Hi|apply Z.ltb_lt; exact Hlt].
      - rewrite (count_notin _ _ Hn). apply count_nonneg. }
    pose proof (submultiset_length p l2 l1 Hall). lia.
Qed.

Section Strict.
  Variable d : Z -> Q.
  Variable votes : list (C * Q).
  Variable caps : list (C * Z).
  Variable prev : list (C * Z).
  Variable n : Z.
  Hypothesis Hpos : forall k, 0 <= k -> (0 < d k)%Q.
  Hypothesis Hmono : forall k, 0 <= k -> (d k <= d (k + 1)%Z)%Q.
  Hypothesis Hstrict : forall k, 0 <= k -> (d k < d (k + 1)%Z)%Q.
  Hypothesis Hvpos : forall c v, In (c, v) votes -> (0 < v)%Q.
  Hypothesis Hnd : NoDup (map fst votes).
  Hypothesis Hprev : forall c, 0 <= dget_or prev c 0.

  Lemma Hvotes0 : forall c v, In (c, v) votes -> (0 <= v)%Q.
  Proof. intros c v H. apply Qlt_le_weak, (Hvpos c v H). Qed.

  Notation cap := (cap_of caps n).
  Notation Inv1 := (Inv d votes caps prev n).

  Definition Inv2 (s : state) : Prop :=
    (forall a y, In a (st_awards s) -> In y (st_qs s) -> (snd y < snd a)%Q) /\
    (forall c, dget_or prev c 0 < tot s c ->
       exists v, dget votes c = Some v /\ In (c, (v / d (tot s c - 1))%Q) (st_awards s)).

  Lemma step_inv2 s : Inv1 s -> Inv2 s -> 0 < st_rem s -> st_qs s <> [] ->
    Inv2 (step d votes caps n s).
  Proof.
    intros I [S1 S2] Hrem Hne. unfold step.
    destruct I as [Ind Iit Isorted Iopt Icaps Inn Icomp Irem Iacc Iaw Iracc Itie].
    destruct (st_qs s) as [|[c0 m] qs'] eqn:Eqs; [congruence|]. clear Hne. cbv zeta.
    remember (@cons qitem (c0, m) qs') as qs eqn:Eq0 in *.
    assert (Hk1 : (1 <= run_length m qs)%nat) by (rewrite Eq0; apply run_length_pos).
    assert (Hmax : Forall (fun y => (snd y <= m)%Q) qs).
    { pose proof Isorted as Hs0. rewrite Eq0 in Hs0. rewrite Eq0. exact (head_max c0 m qs' Hs0). }
    destruct (run_split_ex m qs) as (batch & rest & Hqs & Hlen & Hfb & Hbm & Hrest0).
    rewrite Hfb. clear Hfb.
    remember (run_length m qs) as k eqn:Ek0 in *. clear Ek0.
    assert (Hs2 : sortedq (batch ++ rest)) by (rewrite <- Hqs; exact Isorted).
    assert (Hbne : batch <> []) by (intros E; rewrite E in Hlen; simpl in Hlen; lia).
    assert (Hrestlt : Forall (fun y => Qeq_bool (snd y) m = false) rest).
    { apply (rest_below m batch rest Hbne); [exact Hs2|exact Hbm|exact Hrest0]. }
    assert (Hnd2 : NoDup (map fst batch ++ map fst rest)).
    { pose proof Ind as Ind2. rewrite Hqs, map_app in Ind2. exact Ind2. }
    destruct (nodup_app_inv _ _ Hnd2) as (Hndb & Hndr & Hdisj).
    assert (Hitb : Forall (item_ok d votes caps n (st_totals s)) batch).
    { rewrite Hqs in Iit. apply Forall_app in Iit. tauto. }
    destruct (Z.of_nat k <=? st_rem s) eqn:Ek.
    - (* the batch is elected *)
      set (t' := fold_left incr (map fst (rev batch)) (st_totals s)).
      assert (Htot' : forall c, tot_of t' c = tot_of (st_totals s) c + count c (map fst batch)).
      { intros c. unfold t'. rewrite tot_fold_incr, map_rev, count_rev. reflexivity. }
      assert (Hin_b : forall c, In c (map fst batch) -> tot_of t' c = tot_of (st_totals s) c + 1).
      { intros c Hc. rewrite Htot', (count_nodup _ _ Hndb Hc). reflexivity. }
      assert (Hnin_b : forall c, ~ In c (map fst batch) -> tot_of t' c = tot_of (st_totals s) c).
      { intros c Hc. rewrite Htot', (count_notin _ _ Hc). lia. }
      assert (Hnew_lt : forall b, In b batch -> forall x, In x (newq d votes caps n t' b) -> (snd x < m)%Q).
      { intros b Hb x Hx. rewrite Forall_forall in Hitb. destruct (Hitb b Hb) as (v & Hv & Hsnd & H0 & Hc).
        unfold newq in Hx. destruct (tot_of t' (fst b) <? cap (fst b)); [|destruct Hx].
        rewrite Hv in Hx. destruct Hx as [<-|[]]. simpl.
        rewrite (Hin_b (fst b)) by (apply in_map; exact Hb).
        rewrite Forall_forall in Hbm. specialize (Hbm b Hb). apply Qeq_bool_iff in Hbm.
        rewrite <- Hbm, Hsnd.
        apply quot_strict.
        - apply (Hvpos (fst b)). apply dget_In. exact Hv.
        - apply Hpos. exact H0.
        - apply Hstrict. exact H0. }
      assert (Hpr : pop_reinsert d votes caps n t' k qs = reins d votes caps n t' batch rest).
      { rewrite Hqs at 1. rewrite <- Hlen. apply pop_reinsert_batch.
        intros b Hb x Hx. apply Forall_forall. intros y Hy.
        apply Qle_bool_iff. pose proof (Hnew_lt b Hb x Hx) as H1.
        rewrite Forall_forall in Hbm. specialize (Hbm y Hy). apply Qeq_bool_iff in Hbm. lra. }
      rewrite Hpr.
      pose proof (reins_perm d votes caps n t' batch rest) as Hperm.
      split; cbn [st_awards st_qs st_totals].
      + intros a y Ha Hy.
        assert (Ham : (m <= snd a)%Q).
        { apply in_app_or in Ha. destruct Ha as [Ha|Ha].
          - specialize (Iopt a Ha). rewrite Forall_forall in Iopt. apply (Iopt (c0, m)). rewrite Eq0. left. reflexivity.
          - apply in_rev in Ha. rewrite Forall_forall in Hbm. specialize (Hbm a Ha).
            apply Qeq_bool_iff in Hbm. lra. }
        apply (Permutation_in _ Hperm) in Hy. apply in_app_or in Hy. destruct Hy as [Hy|Hy].
        * apply in_flat_map in Hy. destruct Hy as (b & Hb & Hy). pose proof (Hnew_lt b Hb y Hy). lra.
        * rewrite Forall_forall in Hmax, Hrestlt.
          assert (Hyq : In y qs) by (rewrite Hqs; apply in_or_app; right; exact Hy).
          specialize (Hmax y Hyq). specialize (Hrestlt y Hy).
          assert (~ (snd y == m)%Q) by (rewrite <- Qeq_bool_iff; congruence). lra.
      + intros c Hc. unfold tot in Hc |- *. cbn [st_totals] in Hc |- *. fold (tot_of t' c) in Hc |- *.
        destruct (in_dec Pos.eq_dec c (map fst batch)) as [Hin|Hnin].
        * apply in_map_iff in Hin. destruct Hin as ([c' x] & Hfst & Hb). simpl in Hfst. subst c'.
          rewrite Forall_forall in Hitb. destruct (Hitb _ Hb) as (v & Hv & Hsnd & _). simpl in Hv, Hsnd.
          exists v. split; [exact Hv|]. apply in_or_app. right. apply -> in_rev.
          rewrite (Hin_b c) by (apply in_map_iff; exists (c, x); split; [reflexivity|exact Hb]).
          replace (tot_of (st_totals s) c + 1 - 1) with (tot_of (st_totals s) c) by lia.
          rewrite <- Hsnd. exact Hb.
        * rewrite (Hnin_b c Hnin) in Hc |- *. destruct (S2 c Hc) as (v & Hv & Hin). exists v.
          split; [exact Hv|]. apply in_or_app. left. exact Hin.
    - (* tie *)
      assert (Hsame : flat_map (newq d votes caps n (st_totals s)) batch = batch) by (apply flat_map_newq_same; exact Hitb).
      assert (Hpr : pop_reinsert d votes caps n (st_totals s) k qs = reins d votes caps n (st_totals s) batch rest).
      { rewrite Hqs at 1. rewrite <- Hlen. apply pop_reinsert_batch.
        intros b Hb x Hx. rewrite Forall_forall in Hitb. rewrite (newq_same _ _ _ _ _ _ (Hitb b Hb)) in Hx.
        destruct Hx as [<-|[]]. apply Forall_forall. intros y Hy. apply Qle_bool_iff.
        rewrite Forall_forall in Hbm. pose proof (Hbm b Hb) as H1. pose proof (Hbm y Hy) as H2.
        apply Qeq_bool_iff in H1, H2. lra. }
      rewrite Hpr.
      assert (Hperm : Permutation (reins d votes caps n (st_totals s) batch rest) qs).
      { rewrite (reins_perm d votes caps n (st_totals s) batch rest), Hsame, <- Hqs. reflexivity. }
      split; cbn [st_awards st_qs st_totals].
      + intros a y Ha Hy. apply (S1 a y Ha). apply (Permutation_in _ Hperm). exact Hy.
      + exact S2.
  Qed.

  Lemma init_inv2 : Inv2 (init_state d votes n prev caps).
  Proof.
    split; unfold init_state; cbn [st_awards st_qs st_totals].
    - intros a y [].
    - intros c Hc. unfold tot in Hc. cbn [st_totals] in Hc. lia.
  Qed.

  Lemma loop_inv2 fuel : forall s, Inv1 s -> Inv2 s -> Inv2 (loop d votes caps n fuel s).
  Proof.
    induction fuel as [|f IH]; intros s I I2; simpl; [exact I2|].
    destruct (0 <? st_rem s) eqn:E1; simpl; [|exact I2].
    destruct (st_qs s) eqn:E2; simpl; [exact I2|].
    assert (Hne : st_qs s <> []) by (rewrite E2; discriminate).
    apply Z.ltb_lt in E1.
    apply IH.
    - apply (step_inv d votes caps prev n Hpos Hmono Hvotes0); assumption.
    - apply step_inv2; assumption.
  Qed.

  Lemma final_inv2 : Inv2 (final_state d votes n prev caps).
  Proof. unfold final_state. apply loop_inv2; [apply init_inv; assumption|apply init_inv2]. Qed.
End Strict.

Section Votes.
  Variable d : Z -> Q.
  Variables votes votes' : list (C * Q).
  Variable caps : list (C * Z).
  Variable prev : list (C * Z).
  Variable n : Z.
  Hypothesis Hpos : forall k, 0 <= k -> (0 < d k)%Q.
  Hypothesis Hstrict : forall k, 0 <= k -> (d k < d (k + 1)%Z)%Q.
  Hypothesis Hvpos : forall c v, In (c, v) votes -> (0 < v)%Q.
  Hypothesis Hvpos' : forall c v, In (c, v) votes' -> (0 < v)%Q.
  Hypothesis Hnd : NoDup (map fst votes).
  Hypothesis Hnd' : NoDup (map fst votes').
  Hypothesis Hprev : forall c, 0 <= dget_or prev c 0.
  (* votes' = votes except that party p has at least as many votes *)
  Variable p : C.
  Variables vp vp' : Q.
  Hypothesis Hp : dget votes p = Some vp.
  Hypothesis Hp' : dget votes' p = Some vp'.
  Hypothesis Hmore : (vp <= vp')%Q.
  Hypothesis Hothers : forall c, c <> p -> dget votes' c = dget votes c.

  Notation fa := (final_state d votes n prev caps).
  Notation fb := (final_state d votes' n prev caps).
  Notation cap := (cap_of caps n).

  Lemma Hmono_of_strict : forall k, 0 <= k -> (d k <= d (k + 1)%Z)%Q.
  Proof. intros k Hk. apply Qlt_le_weak, Hstrict, Hk. Qed.

  Theorem votes_monotone : st_tie fb = None -> st_rem fb <= 0 -> tot fa p <= tot fb p.
  Proof.
    intros Htie Hrem.
    pose proof Hmono_of_strict as Hmono.
    pose proof (final_inv d votes caps prev n Hpos Hmono (Hvotes0 votes Hvpos) Hnd Hprev) as Ia.
    pose proof (final_inv d votes' caps prev n Hpos Hmono (Hvotes0 votes' Hvpos') Hnd' Hprev) as Ib.
    pose proof (final_inv2 d votes caps prev n Hpos Hmono Hstrict Hvpos Hnd Hprev) as [S1a S2a].
    pose proof (final_inv2 d votes' caps prev n Hpos Hmono Hstrict Hvpos' Hnd' Hprev) as [S1b S2b].
    destruct (Z.lt_ge_cases (tot fb p) (tot fa p)) as [Hlt|Hge]; [exfalso|lia].
    (* p holds fewer seats in b: somebody else holds more *)
    pose proof (inv_account _ _ _ _ _ _ Ia) as Acca. pose proof (inv_account _ _ _ _ _ _ Ib) as Accb.
    assert (Hcp : count p (map fst (st_awards fb)) < count p (map fst (st_awards fa))).
    { rewrite (Acca p), (Accb p) in Hlt. lia. }
    assert (Hlen : (length (map fst (st_awards fa)) <= length (map fst (st_awards fb)))%nat).
    { rewrite !map_length.
      pose proof (inv_remacc _ _ _ _ _ _ Ia) as Ra. pose proof (inv_remacc _ _ _ _ _ _ Ib) as Rb.
      rewrite Htie in Rb.
      assert (Hrb : st_rem fb = 0).
      { destruct (inv_rem _ _ _ _ _ _ Ib) as [H|H]; [lia|].
        rewrite H in Hcp. simpl in Hcp. pose proof (count_nonneg p (map fst (st_awards fa))).
        rewrite H in Rb. simpl in Rb.
        destruct (inv_rem _ _ _ _ _ _ Ia) as [Ha|Ha].
        - destruct (st_tie fa) as [[T r]|] eqn:Et.
          + destruct (inv_tie _ _ _ _ _ _ Ia T r Et). lia.
          + lia.
        - rewrite Ha in Hcp. simpl in Hcp. lia. }
      assert (Hra : 0 <= st_rem fa).
      { destruct (inv_rem _ _ _ _ _ _ Ia) as [H|H]; [exact H|]. rewrite H in Hcp. simpl in Hcp.
        pose proof (count_nonneg p (map fst (st_awards fb))). lia. }
      destruct (st_tie fa) as [[T r]|] eqn:Et.
      - destruct (inv_tie _ _ _ _ _ _ Ia T r Et) as (_ & Hr & _). lia.
      - lia. }
    destruct (count_pigeon p _ _ Hlen Hcp) as (q & Hq).
    assert (Hqp : q <> p) by (intros ->; lia).
    assert (Htq : tot fa q < tot fb q) by (rewrite (Acca q), (Accb q); lia).
    (* facts about p *)
    pose proof (inv_nonneg _ _ _ _ _ _ Ia) as Nna. pose proof (inv_nonneg _ _ _ _ _ _ Ib) as Nnb.
    assert (Hpa : dget_or prev p 0 < tot fa p).
    { rewrite (Accb p) in Hlt. pose proof (count_nonneg p (map fst (st_awards fb))). lia. }
    destruct (S2a p Hpa) as (v1 & Hv1 & HawP). rewrite Hp in Hv1. injection Hv1 as <-.
    assert (Hqb : dget_or prev q 0 < tot fb q).
    { rewrite (Acca q) in Htq. pose proof (count_nonneg q (map fst (st_awards fa))). lia. }
    destruct (S2b q Hqb) as (vq & Hvq' & HawQ).
    assert (Hvq : dget votes q = Some vq) by (rewrite <- (Hothers q Hqp); exact Hvq').
    (* p is below its cap in b, q is below its cap in a *)
    assert (Hcapp : tot fb p < cap p).
    { destruct (inv_caps _ _ _ _ _ _ Ia p) as [H|H]; lia. }
    assert (Hcapq : tot fa q < cap q).
    { destruct (inv_caps _ _ _ _ _ _ Ib q) as [H|H]; lia. }
    (* q waits in a with a quotient strictly below p's last seat *)
    pose proof (inv_complete _ _ _ _ _ _ Ia q vq (dget_In _ _ _ Hvq) Hcapq) as Hkq.
    apply in_map_iff in Hkq. destruct Hkq as ([q' xq] & Hfq & Hyq). simpl in Hfq. subst q'.
    pose proof (inv_items _ _ _ _ _ _ Ia) as Ita. rewrite Forall_forall in Ita.
    destruct (Ita _ Hyq) as (vq2 & Hvq2 & Hsq & _). simpl in Hvq2, Hsq. rewrite Hvq in Hvq2. injection Hvq2 as <-.
    pose proof (S1a _ _ HawP Hyq) as Hstr. simpl in Hstr. rewrite Hsq in Hstr.
    (* p waits in b with a quotient at most q's last seat there *)
    pose proof (inv_complete _ _ _ _ _ _ Ib p vp' (dget_In _ _ _ Hp') Hcapp) as Hkp.
    apply in_map_iff in Hkp. destruct Hkp as ([p' xp] & Hfp & Hyp). simpl in Hfp. subst p'.
    pose proof (inv_items _ _ _ _ _ _ Ib) as Itb. rewrite Forall_forall in Itb.
    destruct (Itb _ Hyp) as (vp2 & Hvp2 & Hsp & _). simpl in Hvp2, Hsp. rewrite Hp' in Hvp2. injection Hvp2 as <-.
    pose proof (inv_optimal _ _ _ _ _ _ Ib _ HawQ) as Hopt. rewrite Forall_forall in Hopt.
    specialize (Hopt _ Hyp). simpl in Hopt. rewrite Hsp in Hopt.
    unfold tot_of in *. fold (tot fa q) in Hstr. fold (tot fb p) in Hopt.
    (* monotonicity of the quotients in the seat index and in the votes *)
    assert (Hvp0 : (0 < vp)%Q) by (apply (Hvpos p), dget_In, Hp).
    assert (Hvq0 : (0 < vq)%Q) by (apply (Hvpos q), dget_In, Hvq).
    assert (H1 : (vp / d (tot fa p - 1) <= vp / d (tot fb p))%Q).
    { apply quot_mono; [lra|apply Hpos, Nnb|]. apply divisor_mono_le; [exact Hmono|]. specialize (Nnb p). lia. }
    assert (H2 : (vp / d (tot fb p) <= vp' / d (tot fb p))%Q).
    { apply quot_num_mono; [apply Hpos, Nnb|exact Hmore]. }
    assert (H3 : (vq / d (tot fb q - 1) <= vq / d (tot fa q))%Q).
    { apply quot_mono; [lra|apply Hpos, Nna|]. apply divisor_mono_le; [exact Hmono|]. specialize (Nna q). lia. }
    lra.
  Qed.
End Votes.
