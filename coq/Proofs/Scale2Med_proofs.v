(* The low median of a (score -> count) dictionary by counting (for C11, majority judgment default tie-break):
   g is the low median of d iff  2 * #(scores < g) <= T - 1  and  T <= 2 * #(scores <= g)   (T = number of scores),
   plus the algebra of the two dictionary operations of the tie-break: adding a number to the count of one score
   ([adj]) and multiplying all counts ([scalec]). *)
From Coq Require Import ZArith QArith List Bool Arith Lia Lqa Sorted.
From VL Require Import Prelude.PyDict Model.Cardinal Proofs.LRScale_proofs Proofs.Scale2Dup_proofs.
Import ListNotations.

(* ---------------------------------------------------------------- sort_q: sorted, same elements, same counts *)
Lemma count_insert_q (f : Q -> bool) a l : length (filter f (insert_q a l)) = length (filter f (a :: l)).
Proof.
  induction l as [|y t IH]; [reflexivity|]. cbn [insert_q]. destruct (Qle_bool a y); [reflexivity|].
  cbn [filter] in *. destruct (f y), (f a); cbn [length] in *; rewrite IH; reflexivity.
Qed.

Lemma count_sort_q (f : Q -> bool) l : length (filter f (sort_q l)) = length (filter f l).
Proof.
  induction l as [|x l IH]; [reflexivity|]. unfold sort_q in *. cbn [fold_right]. rewrite count_insert_q.
  cbn [filter]. destruct (f x); cbn [length]; rewrite IH; reflexivity.
Qed.

Lemma insert_q_In a l x : In x (insert_q a l) <-> x = a \/ In x l.
Proof.
  induction l as [|y t IH]; cbn [insert_q]; [simpl; intuition|].
  destruct (Qle_bool a y); cbn [In]; [intuition|]. rewrite IH. intuition.
Qed.

Lemma sort_q_In l x : In x (sort_q l) <-> In x l.
Proof.
  induction l as [|a l IH]; [reflexivity|]. unfold sort_q in *. cbn [fold_right]. rewrite insert_q_In, IH. cbn [In]. intuition.
Qed.

Definition qsorted : list Q -> Prop := StronglySorted (fun a b => (a <= b)%Q).

Lemma insert_q_sorted a l : qsorted l -> qsorted (insert_q a l).
Proof.
  induction 1 as [|y t Hs IH Hall]; cbn [insert_q]; [repeat constructor|].
  destruct (Qle_bool a y) eqn:E.
  - apply Qle_bool_iff in E. constructor; [constructor; assumption|]. constructor; [exact E|].
    eapply Forall_impl; [|exact Hall]. intros z Hz. cbv beta in *. lra.
  - assert (Hya : (y <= a)%Q). { destruct (Qlt_le_dec y a) as [H|H]; [lra|]. apply Qle_bool_iff in H. congruence. }
    constructor; [exact IH|]. apply Forall_forall. intros z Hz. apply insert_q_In in Hz. destruct Hz as [->|Hz]; [exact Hya|].
    rewrite Forall_forall in Hall. apply Hall, Hz.
Qed.

Lemma sort_q_sorted l : qsorted (sort_q l).
Proof. induction l as [|a l IH]; [constructor|]. unfold sort_q in *. cbn [fold_right]. apply insert_q_sorted, IH. Qed.

Definition qlt (x y : Q) : bool := negb (Qle_bool y x).

Lemma qlt_iff x y : qlt x y = true <-> (x < y)%Q.
Proof.
  unfold qlt. rewrite negb_true_iff. split; intros H.
  - apply Qnot_le_lt. intros Hle. apply Qle_bool_iff in Hle. congruence.
  - apply not_true_iff_false. intros Hle. apply Qle_bool_iff in Hle. lra.
Qed.

Lemma nth_sorted_bounds L : qsorted L -> forall i, (i < length L)%nat ->
  (length (filter (fun y => qlt y (nth i L 0%Q)) L) <= i)%nat /\
  (i < length (filter (fun y => Qle_bool y (nth i L 0%Q)) L))%nat.
Proof.
  induction 1 as [|a t Hs IH Hall]; intros i Hi; [simpl in Hi; lia|].
  rewrite Forall_forall in Hall. destruct i as [|j]; cbn [nth filter].
  - assert (E1 : qlt a a = false) by (apply not_true_iff_false; rewrite qlt_iff; lra).
    rewrite E1, Qle_bool_refl. cbn [length]. split; [|lia].
    assert (E : filter (fun y => qlt y a) t = []).
    { apply GetNBest_proofs.filter_none. apply Forall_forall. intros z Hz. apply not_true_iff_false. rewrite qlt_iff.
      specialize (Hall z Hz). cbv beta in Hall. lra. }
    rewrite E. simpl. lia.
  - cbn [length] in Hi. destruct (IH j ltac:(lia)) as [H1 H2].
    assert (Hax : (a <= nth j t 0%Q)%Q) by (apply Hall, nth_In; lia).
    assert (E2 : Qle_bool a (nth j t 0%Q) = true) by (apply Qle_bool_iff; exact Hax).
    rewrite E2. cbn [length]. split; [|lia]. destruct (qlt a (nth j t 0%Q)); cbn [length]; lia.
Qed.

(* ---------------------------------------------------------------- weighted counts over a dictionary *)
Definition sumf (f : Q -> bool) (d : cscores) : Z :=
  fold_right (fun sn acc => if f (fst sn) then (snd sn + acc)%Z else acc) 0%Z d.
Definition nonneg (d : cscores) : Prop := Forall (fun sn : Q * Z => (0 <= snd sn)%Z) d.
Definition below (d : cscores) (x : Q) : Z := sumf (fun s => qlt s x) d.
Definition atmost (d : cscores) (x : Q) : Z := sumf (fun s => Qle_bool s x) d.

Lemma fold_add_shiftZ (l : list Z) : forall a, fold_left Z.add l a = (a + fold_left Z.add l 0)%Z.
Proof. induction l as [|x l IH]; intros a; cbn [fold_left]; [lia|]. rewrite (IH (a + x)%Z), (IH (0 + x)%Z). lia. Qed.

Lemma cs_total_sumf d : cs_total d = sumf (fun _ => true) d.
Proof.
  unfold cs_total. induction d as [|[s n] d IH]; [reflexivity|]. cbn [map fold_left sumf fold_right fst snd].
  rewrite fold_add_shiftZ, IH. unfold sumf. lia.
Qed.

Lemma filter_repeat {X} (f : X -> bool) x n : filter f (repeat x n) = if f x then repeat x n else [].
Proof. induction n as [|n IH]; [destruct (f x); reflexivity|]. cbn [repeat filter]. rewrite IH. destruct (f x); reflexivity. Qed.

Lemma count_expand f d : nonneg d -> Z.of_nat (length (filter f (expand d))) = sumf f d.
Proof.
  induction 1 as [|[s n] d Hn _ IH]; [reflexivity|]. unfold expand in *. cbn [flat_map fst snd] in *.
  rewrite filter_app, app_length, Nat2Z.inj_add, IH, filter_repeat. cbn [sumf fold_right fst snd].
  destruct (f s); [rewrite repeat_length, Z2Nat.id by exact Hn; reflexivity|reflexivity].
Qed.

Lemma expand_length d : nonneg d -> Z.of_nat (length (expand d)) = cs_total d.
Proof.
  intros H. rewrite cs_total_sumf, <- (count_expand (fun _ => true) d H). f_equal.
  induction (expand d) as [|x l IH]; [reflexivity|]. cbn [filter length]. rewrite IH. reflexivity.
Qed.

Lemma expand_In d x : In x (expand d) -> In x (map fst d).
Proof.
  unfold expand. intros H. apply in_flat_map in H. destruct H as ([s n] & Hin & Hx). apply repeat_spec in Hx. subst x.
  apply in_map_iff. exists (s, n). auto.
Qed.

Lemma sumf_mono (f f' : Q -> bool) d : nonneg d -> (forall s, f s = true -> f' s = true) -> (sumf f d <= sumf f' d)%Z.
Proof.
  intros H Hf. induction H as [|[s n] d Hn _ IH]; [reflexivity|]. cbn [sumf fold_right fst snd] in *.
  destruct (f s) eqn:E; [rewrite (Hf s E); unfold sumf in *; lia|]. destruct (f' s); unfold sumf in *; lia.
Qed.

Lemma sumf_nonneg f d : nonneg d -> (0 <= sumf f d)%Z.
Proof.
  induction 1 as [|[s n] d Hn _ IH]; [reflexivity|]. cbn [sumf fold_right fst snd] in *. destruct (f s); unfold sumf in *; lia.
Qed.

(* ---------------------------------------------------------------- the low median by counting *)
Definition is_med (d : cscores) (g : Q) : Prop :=
  (2 * below d g <= cs_total d - 1)%Z /\ (cs_total d <= 2 * atmost d g)%Z.

Theorem median_spec d : nonneg d -> (0 < cs_total d)%Z ->
  exists g, aggregate_one FMedianLow d = inl g /\ In g (map fst d) /\ is_med d g.
Proof.
  intros Hnn HT. rewrite aggregate_one_list. pose proof (expand_length d Hnn) as Hlen.
  pose proof (count_expand (fun y => qlt y (nth 0 [] 0%Q)) d Hnn) as _.
  assert (Cnt : forall f, Z.of_nat (length (filter f (expand d))) = sumf f d) by (intros f; apply count_expand, Hnn).
  assert (HIn : forall x, In x (expand d) -> In x (map fst d)) by apply expand_In.
  remember (expand d) as l eqn:El. clear El.
  destruct l as [|x0 l0]; [simpl in Hlen; lia|]. cbn [agg_list]. cbv zeta. set (l := x0 :: l0) in *.
  set (L := sort_q l). set (n := length L).
  assert (Hn : n = length l) by apply sort_q_length.
  fold (med_index n). assert (Hn1 : (1 <= n)%nat) by lia. rewrite (med_index_eq n Hn1).
  set (i := ((n - 1) / 2)%nat). assert (Hi : (i < n)%nat).
  { unfold i. apply Nat.div_lt_upper_bound; lia. }
  exists (nth i L 0%Q). split; [reflexivity|]. split.
  { apply HIn. apply sort_q_In. apply nth_In. exact Hi. }
  destruct (nth_sorted_bounds L (sort_q_sorted l) i Hi) as [H1 H2]. set (g := nth i L 0%Q) in *.
  unfold L in H1, H2. rewrite count_sort_q in H1, H2.
  pose proof (Cnt (fun y => qlt y g)) as C1. pose proof (Cnt (fun y => Qle_bool y g)) as C2.
  unfold is_med, below, atmost. rewrite <- C1, <- C2, <- Hlen, <- Hn.
  pose proof (Nat.div_mod (n - 1) 2 ltac:(lia)) as D. pose proof (Nat.mod_upper_bound (n - 1) 2 ltac:(lia)) as B.
  fold i in D. split; lia.
Qed.

Lemma Qle_bool_false x y : Qle_bool x y = false <-> (y < x)%Q.
Proof.
  split; intros H.
  - apply Qnot_le_lt. intros Hle. apply Qle_bool_iff in Hle. congruence.
  - apply not_true_iff_false. intros Hle. apply Qle_bool_iff in Hle. lra.
Qed.

Theorem median_char d g : nonneg d -> (0 < cs_total d)%Z -> is_med d g ->
  exists g0, aggregate_one FMedianLow d = inl g0 /\ (g0 == g)%Q /\ In g0 (map fst d).
Proof.
  intros Hnn HT [G1 G2]. destruct (median_spec d Hnn HT) as (g0 & E & Hin & [M1 M2]).
  exists g0. split; [exact E|]. split; [|exact Hin].
  destruct (Q_dec g0 g) as [[Hlt|Hgt]|Heq]; [| |exact Heq]; exfalso.
  - assert (H : (atmost d g0 <= below d g)%Z).
    { apply sumf_mono; [exact Hnn|]. intros s Hs. apply Qle_bool_iff in Hs. apply qlt_iff. lra. }
    lia.
  - assert (H : (atmost d g <= below d g0)%Z).
    { apply sumf_mono; [exact Hnn|]. intros s Hs. apply Qle_bool_iff in Hs. apply qlt_iff. lra. }
    lia.
Qed.

(* ---------------------------------------------------------------- the two dictionary operations *)
Definition get0 (d : cscores) (s : Q) : Z := match cs_get d s with Some n => n | None => 0%Z end.
Definition adj (d : cscores) (s : Q) (delta : Z) : cscores :=
  map (fun sn : Q * Z => if Qeq_bool s (fst sn) then (fst sn, (snd sn + delta)%Z) else sn) d.
Definition scalec (k : Z) (d : cscores) : cscores := map (fun sn : Q * Z => (fst sn, (k * snd sn)%Z)) d.

(* keys pairwise different as rationals *)
Fixpoint keys_nd (l : list Q) : Prop :=
  match l with [] => True | s :: t => (forall s', In s' t -> ~ (s == s')%Q) /\ keys_nd t end.
Definition has (d : cscores) (s : Q) : Prop := exists key, In key (map fst d) /\ (s == key)%Q.

Lemma adj_keys d s delta : map fst (adj d s delta) = map fst d.
Proof. unfold adj. rewrite map_map. apply map_ext. intros [s0 n]. cbn [fst]. destruct (Qeq_bool s s0); reflexivity. Qed.

Lemma scalec_keys k d : map fst (scalec k d) = map fst d.
Proof. unfold scalec. rewrite map_map. reflexivity. Qed.

Lemma Qeq_bool_compat s s' key : (s == s')%Q -> Qeq_bool s key = Qeq_bool s' key.
Proof. intros H. apply Qeq_bool_Qeq; [exact H|reflexivity]. Qed.

Lemma adj_compat d s s' delta : (s == s')%Q -> adj d s delta = adj d s' delta.
Proof. intros H. unfold adj. apply map_ext. intros [s0 n]. cbn [fst]. rewrite (Qeq_bool_compat s s' s0 H). reflexivity. Qed.

Lemma adj_none d s delta : (forall key, In key (map fst d) -> ~ (s == key)%Q) -> adj d s delta = d.
Proof.
  intros H. unfold adj. induction d as [|[s0 n] d IH]; [reflexivity|]. cbn [map fst].
  destruct (Qeq_bool s s0) eqn:E; [apply Qeq_bool_iff in E; exfalso; apply (H s0); [left; reflexivity|exact E]|].
  f_equal. apply IH. intros key Hk. apply H. right. exact Hk.
Qed.

Lemma dec_adj d s delta : keys_nd (map fst d) -> has d s -> cs_set d s (get0 d s + delta) = adj d s delta.
Proof.
  unfold get0. induction d as [|[s0 n] d IH]; intros Hnd (key & Hk & Hs); [destruct Hk|].
  cbn [map fst keys_nd] in Hnd. destruct Hnd as [Hnd0 Hnd]. cbn [cs_get cs_set adj map fst snd].
  destruct (Qeq_bool s s0) eqn:E.
  - f_equal. symmetry. apply adj_none. intros key' Hk' Hs'. apply Qeq_bool_iff in E. apply (Hnd0 key' Hk'). rewrite <- E. exact Hs'.
  - f_equal. apply IH; [exact Hnd|]. destruct Hk as [<-|Hk]; [apply Qeq_bool_iff in Hs; cbn [fst] in Hs; congruence|].
    exists key. split; assumption.
Qed.

Lemma sumf_adj f d s delta : keys_nd (map fst d) -> has d s -> (forall a b, (a == b)%Q -> f a = f b) ->
  sumf f (adj d s delta) = (sumf f d + if f s then delta else 0)%Z.
Proof.
  intros Hnd (key & Hk & Hs) Hf. induction d as [|[s0 n] d IH]; [destruct Hk|].
  cbn [map fst keys_nd] in Hnd. destruct Hnd as [Hnd0 Hnd]. cbn [adj map fst snd].
  destruct (Qeq_bool s s0) eqn:E.
  - apply Qeq_bool_iff in E. fold (adj d s delta). rewrite adj_none.
    + cbn [sumf fold_right fst snd]. rewrite (Hf s s0 E). destruct (f s0); unfold sumf; lia.
    + intros key' Hk' Hs'. apply (Hnd0 key' Hk'). rewrite <- E. exact Hs'.
  - fold (adj d s delta). cbn [sumf fold_right fst snd]. fold (sumf f (adj d s delta)). fold (sumf f d).
    destruct Hk as [<-|Hk]; [apply Qeq_bool_iff in Hs; cbn [fst] in Hs; congruence|].
    rewrite (IH Hnd Hk). destruct (f s0), (f s); lia.
Qed.

Lemma sumf_scalec f k d : sumf f (scalec k d) = (k * sumf f d)%Z.
Proof.
  induction d as [|[s0 n] d IH]; [cbn; lia|]. cbn [scalec map sumf fold_right fst snd]. fold (scalec k d). fold (sumf f (scalec k d)). fold (sumf f d).
  rewrite IH. destruct (f s0); lia.
Qed.

Lemma qlt_compat_l a b x : (a == b)%Q -> qlt a x = qlt b x.
Proof. intros H. unfold qlt. f_equal. apply Qle_bool_Qeq; [reflexivity|exact H]. Qed.
Lemma qle_compat_l a b x : (a == b)%Q -> Qle_bool a x = Qle_bool b x.
Proof. intros H. apply Qle_bool_Qeq; [exact H|reflexivity]. Qed.

Lemma below_adj d s delta x : keys_nd (map fst d) -> has d s ->
  below (adj d s delta) x = (below d x + if qlt s x then delta else 0)%Z.
Proof. intros H1 H2. unfold below. apply (sumf_adj (fun s0 => qlt s0 x)); [exact H1|exact H2|]. intros a b E. apply qlt_compat_l, E. Qed.

Lemma atmost_adj d s delta x : keys_nd (map fst d) -> has d s ->
  atmost (adj d s delta) x = (atmost d x + if Qle_bool s x then delta else 0)%Z.
Proof. intros H1 H2. unfold atmost. apply (sumf_adj (fun s0 => Qle_bool s0 x)); [exact H1|exact H2|]. intros a b E. apply qle_compat_l, E. Qed.

Lemma total_adj d s delta : keys_nd (map fst d) -> has d s -> cs_total (adj d s delta) = (cs_total d + delta)%Z.
Proof. intros H1 H2. rewrite !cs_total_sumf. rewrite (sumf_adj (fun _ => true) d s delta H1 H2); [reflexivity|reflexivity]. Qed.

Lemma below_scalec k d x : below (scalec k d) x = (k * below d x)%Z.
Proof. apply sumf_scalec. Qed.
Lemma atmost_scalec k d x : atmost (scalec k d) x = (k * atmost d x)%Z.
Proof. apply sumf_scalec. Qed.
Lemma total_scalec k d : cs_total (scalec k d) = (k * cs_total d)%Z.
Proof. rewrite !cs_total_sumf. apply sumf_scalec. Qed.

Lemma cs_get_scalec k d s : cs_get (scalec k d) s = option_map (Z.mul k) (cs_get d s).
Proof. induction d as [|[s0 n] d IH]; [reflexivity|]. cbn [scalec map cs_get fst snd]. destruct (Qeq_bool s s0); [reflexivity|exact IH]. Qed.

Lemma get0_scalec k d s : get0 (scalec k d) s = (k * get0 d s)%Z.
Proof. unfold get0. rewrite cs_get_scalec. destruct (cs_get d s); cbn [option_map]; lia. Qed.

Lemma get0_adj d s delta s' : keys_nd (map fst d) -> has d s ->
  get0 (adj d s delta) s' = (get0 d s' + if Qeq_bool s s' then delta else 0)%Z.
Proof.
  unfold get0. intros Hnd (key & Hk & Hs). induction d as [|[s0 n] d IH]; [destruct Hk|].
  cbn [map fst keys_nd] in Hnd. destruct Hnd as [Hnd0 Hnd]. cbn [adj map fst snd]. fold (adj d s delta).
  destruct (Qeq_bool s s0) eqn:E.
  - apply Qeq_bool_iff in E. cbn [cs_get fst snd]. destruct (Qeq_bool s' s0) eqn:E'.
    + apply Qeq_bool_iff in E'. assert (Qeq_bool s s' = true) as -> by (apply Qeq_bool_iff; rewrite E, E'; reflexivity). reflexivity.
    + rewrite adj_none.
      * assert (Qeq_bool s s' = false) as ->; [|lia]. apply not_true_iff_false. intros H. apply Qeq_bool_iff in H.
        apply not_true_iff_false in E'. apply E'. apply Qeq_bool_iff. rewrite <- H, E. reflexivity.
      * intros key' Hk' Hs'. apply (Hnd0 key' Hk'). rewrite <- E. exact Hs'.
  - cbn [cs_get fst snd]. destruct (Qeq_bool s' s0) eqn:E'.
    + assert (Qeq_bool s s' = false) as ->; [|lia]. apply not_true_iff_false. intros H. apply Qeq_bool_iff in H, E'.
      apply not_true_iff_false in E. apply E. apply Qeq_bool_iff. rewrite H, E'. reflexivity.
    + destruct Hk as [<-|Hk]; [apply Qeq_bool_iff in Hs; cbn [fst] in Hs; congruence|]. apply IH; assumption.
Qed.

Lemma nonneg_adj d s delta : keys_nd (map fst d) -> has d s -> nonneg d -> (0 <= get0 d s + delta)%Z -> nonneg (adj d s delta).
Proof.
  unfold get0, nonneg. intros Hnd (key & Hk & Hs) Hnn Hge. induction d as [|[s0 n] d IH]; [constructor|].
  cbn [map fst keys_nd] in Hnd. destruct Hnd as [Hnd0 Hnd]. inversion Hnn as [|? ? Hn Hnn']; subst.
  cbn [adj map fst snd]. fold (adj d s delta). cbn [cs_get fst snd] in Hge. destruct (Qeq_bool s s0) eqn:E.
  - constructor; [exact Hge|]. rewrite adj_none; [exact Hnn'|]. apply Qeq_bool_iff in E.
    intros key' Hk' Hs'. apply (Hnd0 key' Hk'). rewrite <- E. exact Hs'.
  - constructor; [exact Hn|]. destruct Hk as [<-|Hk]; [apply Qeq_bool_iff in Hs; cbn [fst] in Hs; congruence|]. apply IH; assumption.
Qed.

Lemma nonneg_scalec k d : (0 <= k)%Z -> nonneg d -> nonneg (scalec k d).
Proof. intros Hk H. unfold nonneg, scalec. apply Forall_map. eapply Forall_impl; [|exact H]. intros [s n] Hn. cbn [snd] in *. nia. Qed.

(* the count of a score is what lies between "below" and "at most" *)
Lemma get0_cnt d g : keys_nd (map fst d) -> get0 d g = (atmost d g - below d g)%Z.
Proof.
  unfold get0, atmost, below. induction d as [|[s0 n] d IH]; intros Hnd; [reflexivity|].
  cbn [map fst keys_nd] in Hnd. destruct Hnd as [Hnd0 Hnd]. cbn [cs_get sumf fold_right fst snd].
  fold (sumf (fun s => Qle_bool s g) d). fold (sumf (fun s => qlt s g) d).
  destruct (Qeq_bool g s0) eqn:E.
  - apply Qeq_bool_iff in E. assert (Qle_bool s0 g = true) as -> by (apply Qle_bool_iff; rewrite E; apply Qle_refl).
    assert (qlt s0 g = false) as -> by (apply not_true_iff_false; rewrite qlt_iff; rewrite E; apply Qlt_irrefl).
    assert (H : forall f f', (forall s, In s (map fst d) -> f s = f' s) -> sumf f d = sumf f' d).
    { clear. intros f f' H. induction d as [|[s n] d IH]; [reflexivity|]. cbn [sumf fold_right fst snd].
      rewrite (H s) by (left; reflexivity). fold (sumf f d). fold (sumf f' d). rewrite IH; [reflexivity|]. intros s' Hs'. apply H. right. exact Hs'. }
    rewrite (H (fun s => Qle_bool s g) (fun s => qlt s g)); [lia|].
    intros s Hs. specialize (Hnd0 s Hs). unfold qlt. destruct (Qle_bool s g) eqn:E1, (Qle_bool g s) eqn:E2; try reflexivity.
    + apply Qle_bool_iff in E1, E2. exfalso. apply Hnd0. rewrite <- E. apply Qle_antisym; assumption.
    + apply Qle_bool_false in E1, E2. lra.
  - rewrite (IH Hnd). destruct (Qle_bool s0 g) eqn:E1, (qlt s0 g) eqn:E2; try lia.
    + apply Qle_bool_iff in E1. apply not_true_iff_false in E2. rewrite qlt_iff in E2. apply not_true_iff_false in E. exfalso. apply E.
      apply Qeq_bool_iff. apply Qle_antisym; [|exact E1]. apply Qnot_lt_le. exact E2.
    + apply qlt_iff in E2. apply Qle_bool_false in E1. lra.
Qed.

Lemma keys_nd_cs_set d s n : keys_nd (map fst d) -> keys_nd (map fst (cs_set d s n)).
Proof.
  induction d as [|[s0 n0] d IH]; intros Hnd; [cbn; tauto|]. cbn [map fst keys_nd] in Hnd. destruct Hnd as [Hnd0 Hnd].
  cbn [cs_set]. destruct (Qeq_bool s s0) eqn:E; cbn [map fst keys_nd]; [tauto|]. split; [|apply IH, Hnd].
  intros s' Hs'. assert (Hk : forall d0 : cscores, In s' (map fst (cs_set d0 s n)) -> s' = s \/ In s' (map fst d0)).
  { clear. induction d0 as [|[a b] d0 IH]; cbn [cs_set map fst In]; [intuition|]. destruct (Qeq_bool s a); cbn [map fst In]; intuition. }
  destruct (Hk d Hs') as [->|H]; [|apply Hnd0, H]. intros H. apply not_true_iff_false in E. apply E. apply Qeq_bool_iff. symmetry. exact H.
Qed.
