(* C10, renaming: sequential PAV, the score aggregation (ScoreToSimpleVotes incl. the truncation / unscored corrections),
   ScoreVoting and MajorityJudgment (both tie-breakers) of Model/Cardinal.v commute with every injective renaming of the
   candidates - EXACT equality.  None of them consults an order on candidates ([sort_q] sorts SCORES).
   ProportionalApproval ([pav]) is the one model of the family that does: it iterates the candidates in the canonical
   sorted order ([canon_set], standing for the iteration order of a frozenset) - see Proofs/PAVRename_proofs.v. *)
From Coq Require Import ZArith QArith Qround Qabs List Bool Arith Lia.
From VL Require Import Prelude.PyDict Model.GetNBest Model.Convert Model.Cardinal
     Proofs.Dict_proofs Proofs.Order_proofs Proofs.HARename_proofs Proofs.Equivariant.
Import ListNotations.

(* push a value-wise [map] through [renl f] (the mapped function keeps the key) *)
Ltac push_renl_map f :=
  match goal with
  | |- context [map ?F (renl f ?X)] =>
      let E := fresh "E" in
      assert (E : map F (renl f X) = renl f (map F X)) by (unfold renl; rewrite !map_map; reflexivity);
      rewrite E; clear E
  end.

Section KREN.
  Variable f : C -> C.
  Hypothesis f_inj : forall a b, f a = f b -> a = b.

  (* ---------------------------------------------------------------- approval profiles *)
  Definition rab (bw : list C * Q) : list C * Q := (map f (fst bw), snd bw).
  Definition renap (v : aprofile) : aprofile := map rab v.

  Lemma inter_size_ren a b : inter_size (map f a) (map f b) = inter_size a b.
  Proof.
    unfold inter_size. rewrite (filter_map_eqv f (fun c => cmem c b)) by (intros x; apply (cmem_ren f f_inj)). apply map_length.
  Qed.

  Lemma spav_round_ren votes elected : spav_round (renap votes) (map f elected) = renl f (spav_round votes elected).
  Proof.
    unfold spav_round. cbv zeta.
    match goal with |- filter _ ?X = renl f (filter _ ?Y) => assert (E : X = renl f Y) end.
    { unfold renap. apply (fold_left_eqv0 rab (renl f)); [|reflexivity].
      intros d [b w]. unfold rab. cbn [fst snd]. rewrite inter_size_ren.
      apply (fold_left_eqv f (renl f)). intros d0 c. rewrite (dget_or_ren f f_inj), (dset_ren f f_inj). reflexivity. }
    rewrite E.
    apply (renl_filter_keys f (fun c => negb (cmem c elected)) (fun c => negb (cmem c (map f elected)))).
    intros c. rewrite (cmem_ren f f_inj). reflexivity.
  Qed.

  Lemma spav_loop_ren votes n fuel : forall elected,
    spav_loop fuel (renap votes) n (map f elected) = option_map (map f) (spav_loop fuel votes n elected).
  Proof.
    induction fuel as [|fu IH]; intros elected.
    - cbn [spav_loop]. rewrite map_length. destruct (Nat.leb n (length elected)); reflexivity.
    - cbn [spav_loop]. rewrite map_length. destruct (Nat.leb n (length elected)); [reflexivity|].
      rewrite spav_round_ren, get_n_best_renl.
      destruct (get_n_best Qle_bool (spav_round votes elected) 1) as [|[c|l] r]; [reflexivity| |reflexivity].
      cbn [map ren_res]. change [f c] with (map f [c]). rewrite <- map_app. apply IH.
  Qed.

  Theorem spav_ren votes n : spav (renap votes) n = option_map (map f) (spav votes n).
  Proof. unfold spav. exact (spav_loop_ren votes n n []). Qed.

  (* ---------------------------------------------------------------- score profiles *)
  Definition rsb (bn : sballot * Z) : sballot * Z := (renl f (fst bn), snd bn).
  Definition rens (v : sprofile) : sprofile := map rsb v.
  Definition ren_inl {X} (r : list (C * X) + serr) : list (C * X) + serr := match r with inl d => inl (renl f d) | inr e => inr e end.
  Definition ren_rs (r : list (res C) + serr) : list (res C) + serr := match r with inl l => inl (map (ren_res f) l) | inr e => inr e end.

  Lemma raw_scores_ren votes : raw_scores (rens votes) = renl f (raw_scores votes).
  Proof.
    unfold raw_scores, rens. apply (fold_left_eqv0 rsb (renl f)); [|reflexivity].
    intros d [b k]. unfold rsb. cbn [fst snd]. unfold renl at 2.
    apply (fold_left_eqv (fun cv : C * Q => (f (fst cv), snd cv)) (renl f)). intros d0 [c s]. cbn [fst snd].
    rewrite (dget_ren f f_inj), (dset_ren f f_inj). reflexivity.
  Qed.

  Lemma sequence_ren {Y} (l : list (C * (Y + serr))) : sequence (renl f l) = ren_inl (sequence l).
  Proof.
    induction l as [|[c [y|e]] l IH]; [reflexivity| |reflexivity].
    change (renl f ((c, inl y) :: l)) with ((f c, @inl Y serr y) :: renl f l). cbn [sequence]. rewrite IH.
    destruct (sequence l); reflexivity.
  Qed.
  Lemma map_vals_renl {X Y} (g : X -> Y) (d : list (C * X)) :
    map (fun cd : C * X => (fst cd, g (snd cd))) (renl f d) = renl f (map (fun cd : C * X => (fst cd, g (snd cd))) d).
  Proof. unfold renl. rewrite !map_map. reflexivity. Qed.

  Lemma corrected_scores_ren cf votes : corrected_scores cf (rens votes) = ren_inl (corrected_scores cf votes).
  Proof.
    unfold corrected_scores. cbv zeta. rewrite raw_scores_ren.
    assert (E : map snd (rens votes) = map snd votes) by (unfold rens; rewrite map_map; reflexivity).
    rewrite E. push_renl_map f. apply sequence_ren.
  Qed.
  Lemma aggregate_ren fn sc : aggregate fn (renl f sc) = ren_inl (aggregate fn sc).
  Proof. unfold aggregate. push_renl_map f. apply sequence_ren. Qed.

  Theorem score_to_simple_ren cf votes : score_to_simple cf (rens votes) = ren_inl (score_to_simple cf votes).
  Proof.
    unfold score_to_simple. rewrite corrected_scores_ren. destruct (corrected_scores cf votes) as [sc|e]; [|reflexivity].
    apply aggregate_ren.
  Qed.

  Theorem score_voting_ren cf votes n : score_voting cf (rens votes) n = ren_rs (score_voting cf votes n).
  Proof.
    unfold score_voting. rewrite score_to_simple_ren. destruct (score_to_simple cf votes) as [agg|e]; [|reflexivity].
    cbn [ren_inl ren_rs]. rewrite get_n_best_renl. reflexivity.
  Qed.

  (* ---------------------------------------------------------------- majority judgment *)
  Lemma last_tie_ren order : last_tie (map (ren_res f) order) = option_map (map f) (last_tie order).
  Proof. unfold last_tie. rewrite <- map_rev. destruct (rev order) as [|[c|l] r]; reflexivity. Qed.
  Lemma count_tie_ren order : count_tie (map (ren_res f) order) = count_tie order.
  Proof.
    unfold count_tie. rewrite (filter_map_eqv (ren_res f) (fun r : res C => match r with TieR _ => true | _ => false end))
      by (intros [c|l]; reflexivity). apply map_length.
  Qed.

  Lemma mj_plus_ren sub n : mj_plus (renl f sub) n = ren_rs (mj_plus sub n).
  Proof.
    destruct sub as [|[c0 d0] sub]; [reflexivity|].
    change (renl f ((c0, d0) :: sub)) with ((f c0, d0) :: renl f sub). unfold mj_plus.
    destruct (aggregate_one FMedianLow d0) as [med|e]; [|reflexivity].
    change ((f c0, d0) :: renl f sub) with (renl f ((c0, d0) :: sub)).
    push_renl_map f. rewrite get_n_best_renl. reflexivity.
  Qed.

  Lemma closest_change_ren sub medians : closest_change (renl f sub) (renl f medians) = closest_change sub medians.
  Proof.
    unfold closest_change. cbv zeta.
    match goal with |- match map ?G' (renl f sub) with _ => _ end = match map ?G sub with _ => _ end =>
      assert (E : map G' (renl f sub) = map G sub) end.
    { apply (map_map_inv (fun cv : C * cscores => (f (fst cv), snd cv))). intros [c d]. cbn [fst snd].
      rewrite (dget_or_ren f f_inj). reflexivity. }
    rewrite E. reflexivity.
  Qed.

  Lemma untied_count_ren (best : list (res C)) :
    length (filter (fun r : res C => match r with Cand _ => true | _ => false end) (map (ren_res f) best))
    = length (filter (fun r : res C => match r with Cand _ => true | _ => false end) best).
  Proof.
    rewrite (filter_map_eqv (ren_res f) (fun r : res C => match r with Cand _ => true | _ => false end)) by (intros [c|l]; reflexivity).
    apply map_length.
  Qed.
  Lemma cands_res_ren' (r : list (res C)) :
    flat_map (fun x : res C => match x with Cand c => [c] | _ => [] end) (map (ren_res f) r)
    = map f (flat_map (fun x : res C => match x with Cand c => [c] | _ => [] end) r).
  Proof. apply flat_map_eqv. intros [c|l]; reflexivity. Qed.

  Lemma mj_default_ren fuel : forall sub n, mj_default fuel (renl f sub) n = ren_rs (mj_default fuel sub n).
  Proof.
    induction fuel as [|fu IH]; intros sub n; [reflexivity|].
    cbn [mj_default]. cbv zeta.
    assert (Em : map (fun cd : C * cscores => cs_total (snd cd)) (renl f sub) = map (fun cd : C * cscores => cs_total (snd cd)) sub)
      by (unfold renl; rewrite map_map; reflexivity).
    rewrite Em. destruct (fold_left Z.max _ 0%Z <=? 0)%Z; [reflexivity|].
    rewrite aggregate_ren. destruct (aggregate FMedianLow sub) as [medians|e]; [|reflexivity]. cbn [ren_inl].
    rewrite get_n_best_renl, count_tie_ren, untied_count_ren.
    set (best := get_n_best Qle_bool medians n).
    set (untied := length (filter _ best)).
    destruct (Nat.eqb (count_tie best) 0); [reflexivity|].
    destruct (Nat.ltb 0 untied).
    - rewrite firstn_map, cands_res_ren'.
      rewrite (renl_filter_keys f (fun c => negb (cmem c (flat_map (fun r : res C => match r with Cand c0 => [c0] | _ => [] end) (firstn untied best))))
                 (fun c => negb (cmem c (map f (flat_map (fun r : res C => match r with Cand c0 => [c0] | _ => [] end) (firstn untied best))))))
        by (intros c; rewrite (cmem_ren f f_inj); reflexivity).
      rewrite IH. destruct (mj_default fu _ (n - untied)) as [r|e]; [|reflexivity]. cbn [ren_rs]. rewrite map_app. reflexivity.
    - assert (Et : match map (ren_res f) best with TieR l :: _ => l | _ => [] end = map f (match best with TieR l :: _ => l | _ => [] end))
        by (destruct best as [|[c|l] r]; reflexivity).
      rewrite Et. set (tied := match best with TieR l :: _ => l | _ => [] end).
      rewrite (renl_filter_keys f (fun c => cmem c tied) (fun c => cmem c (map f tied))) by (intros c; apply (cmem_ren f f_inj)).
      rewrite closest_change_ren. set (sub1 := filter _ sub).
      set (ch := if (closest_change sub1 medians =? 0)%Z then 1%Z else closest_change sub1 medians).
      assert (Es : map (fun cd : C * cscores =>
                          (fst cd, cs_set (snd cd) (dget_or (renl f medians) (fst cd) 0%Q)
                                     (match cs_get (snd cd) (dget_or (renl f medians) (fst cd) 0%Q) with Some k => k | None => 0%Z end - ch)%Z)) (renl f sub1)
                   = renl f (map (fun cd : C * cscores =>
                          (fst cd, cs_set (snd cd) (dget_or medians (fst cd) 0%Q)
                                     (match cs_get (snd cd) (dget_or medians (fst cd) 0%Q) with Some k => k | None => 0%Z end - ch)%Z)) sub1)).
      { unfold renl at 3 4. rewrite !map_map. apply map_ext. intros [c d]. cbn [fst snd]. rewrite (dget_or_ren f f_inj). reflexivity. }
      rewrite Es. apply IH.
  Qed.

  Theorem majority_judgment_ren plus cf votes n :
    majority_judgment plus cf (rens votes) n = ren_rs (majority_judgment plus cf votes n).
  Proof.
    unfold majority_judgment. rewrite corrected_scores_ren. destruct (corrected_scores cf votes) as [sc|e]; [|reflexivity].
    cbn [ren_inl]. rewrite aggregate_ren. destruct (aggregate FMedianLow sc) as [med|e]; [|reflexivity]. cbn [ren_inl]. cbv zeta.
    rewrite get_n_best_renl, last_tie_ren. set (order := get_n_best Qle_bool med n).
    destruct (last_tie order) as [tied|]; [|reflexivity]. cbn [option_map].
    rewrite count_tie_ren, map_length.
    rewrite (renl_filter_keys f (fun c => cmem c tied) (fun c => cmem c (map f tied))) by (intros c; apply (cmem_ren f f_inj)).
    set (sub := filter _ sc).
    assert (Ef : map (fun cd : C * cscores => cs_total (snd cd)) (renl f sub) = map (fun cd : C * cscores => cs_total (snd cd)) sub)
      by (unfold renl; rewrite map_map; reflexivity).
    rewrite Ef, mj_plus_ren, mj_default_ren.
    destruct plus.
    - destruct (mj_plus sub (count_tie order)) as [r|e]; [|reflexivity]. cbn [ren_rs]. rewrite map_app, firstn_map. reflexivity.
    - destruct (mj_default _ sub (count_tie order)) as [r|e]; [|reflexivity]. cbn [ren_rs]. rewrite map_app, firstn_map. reflexivity.
  Qed.
End KREN.
