(* Scale invariance (C11) of the DEFAULT tie-break of majority judgment (Model/Cardinal.v mj_default) on BALANCED
   score dictionaries - every candidate has the same number of scores (complete ballots), counts nonnegative.
   The removal step of the loop is not homogeneous, so the k-fold run is not the k-fold of the original run; the
   proof goes through a one-score-at-a-time normal form (relation MJ):
     1. mj_default with enough fuel = MJ (a block of removals never passes the first change of a median);
     2. MJ on the k-fold dictionaries follows MJ on the original ones: each original removal is matched by k
        removals of which k - 1 find every candidate still level (no-op steps);
     3. MJ is deterministic. *)
From Coq Require Import ZArith QArith Qround Qabs List Bool Arith Lia Lqa Permutation.
From VL Require Import Prelude.PyDict Model.GetNBest Model.Convert Model.Cardinal
     Proofs.GetNBest_proofs Proofs.QOrd Proofs.Dict_proofs Proofs.LRScale_proofs Proofs.MJ_proofs
     Proofs.Scale2Dup_proofs Proofs.Scale2Med_proofs Proofs.Scale2Score_proofs.
Import ListNotations.

Definition state := list (C * cscores).
Definition mx (sub : state) : Z := fold_left Z.max (map (fun cd : C * cscores => cs_total (snd cd)) sub) 0%Z.
Definition is_cand (r : res C) : bool := match r with Cand _ => true | _ => false end.
Definition untied_of (best : list (res C)) : nat := length (filter is_cand best).
Definition winners_of (best : list (res C)) : list (res C) := firstn (untied_of best) best.
Definition wc_of (best : list (res C)) : list C := flat_map (fun r => match r with Cand c => [c] | _ => [] end) (winners_of best).
Definition rest_of (sub : state) (best : list (res C)) : state := filter (fun cd => negb (cmem (fst cd) (wc_of best))) sub.
Definition tied_of (best : list (res C)) : list C := match best with TieR l :: _ => l | _ => [] end.
Definition gnb (medians : list (C * Q)) (n : nat) : list (res C) := get_n_best Qle_bool medians n.

Lemma mj_default_unfold f sub n : mj_default (S f) sub n =
  if (mx sub <=? 0)%Z then inr SE_vse else
  match aggregate FMedianLow sub with
  | inr e => inr e
  | inl medians =>
      let best := gnb medians n in
      if Nat.eqb (count_tie best) 0 then inl best
      else if Nat.ltb 0 (untied_of best) then
        match mj_default f (rest_of sub best) (n - untied_of best) with
        | inl r => inl (winners_of best ++ r)
        | inr e => inr e
        end
      else mj_default f (mj_remove (mj_level sub (tied_of best)) medians (mj_ch (mj_level sub (tied_of best)) medians)) n
  end.
Proof. reflexivity. Qed.

(* ---------------------------------------------------------------- the one-score-at-a-time run *)
Inductive MJ : state -> nat -> list (res C) + serr -> Prop :=
| MJ_vse sub n : (mx sub <=? 0)%Z = true -> MJ sub n (inr SE_vse)
| MJ_err sub n e : (mx sub <=? 0)%Z = false -> aggregate FMedianLow sub = inr e -> MJ sub n (inr e)
| MJ_done sub n medians : (mx sub <=? 0)%Z = false -> aggregate FMedianLow sub = inl medians ->
    Nat.eqb (count_tie (gnb medians n)) 0 = true -> MJ sub n (inl (gnb medians n))
| MJ_win sub n medians r : (mx sub <=? 0)%Z = false -> aggregate FMedianLow sub = inl medians ->
    Nat.eqb (count_tie (gnb medians n)) 0 = false -> Nat.ltb 0 (untied_of (gnb medians n)) = true ->
    MJ (rest_of sub (gnb medians n)) (n - untied_of (gnb medians n)) r ->
    MJ sub n (match r with inl r => inl (winners_of (gnb medians n) ++ r) | inr e => inr e end)
| MJ_tie sub n medians r : (mx sub <=? 0)%Z = false -> aggregate FMedianLow sub = inl medians ->
    Nat.eqb (count_tie (gnb medians n)) 0 = false -> Nat.ltb 0 (untied_of (gnb medians n)) = false ->
    MJ (mj_remove (mj_level sub (tied_of (gnb medians n))) medians 1) n r ->
    MJ sub n r.

Theorem MJ_det sub n r : MJ sub n r -> forall r', MJ sub n r' -> r' = r.
Proof.
  induction 1 as [sub n Hm|sub n e Hm Ha|sub n med Hm Ha Hc|sub n med r Hm Ha Hc Hu H IH|sub n med r Hm Ha Hc Hu H IH];
    intros r' H'; inversion H'; subst; try congruence;
    try (match goal with Hx : aggregate FMedianLow ?s = inl ?m, Hy : aggregate FMedianLow ?s = inl ?m' |- _ =>
           assert_fails (constr_eq m m'); assert (m = m') by congruence; subst end); try congruence.
  - match goal with Hy : MJ (rest_of _ _) _ ?r0 |- _ => rewrite (IH _ Hy) end. reflexivity.
  - match goal with Hy : MJ (mj_remove _ _ _) _ _ |- _ => exact (IH _ Hy) end.
Qed.

(* ---------------------------------------------------------------- shape of the get_n_best answer *)
Lemma gnb_shape (medians : list (C * Q)) n : exists cs k tied, gnb medians n = map Cand cs ++ repeat (TieR tied) k.
Proof.
  unfold gnb, get_n_best. set (s := sort_desc Qle_bool medians).
  assert (H0 : forall l : list (C * Q), map (fun it => Cand (fst it)) l = map Cand (map fst l)) by (intros l; rewrite map_map; reflexivity).
  destruct (Nat.ltb n (length s)).
  - destruct (nth_error s (n - 1)) as [[c1 thr]|]; [|exists [], 0%nat, []; reflexivity].
    destruct (nth_error s n) as [[c2 nxt]|]; [|exists [], 0%nat, []; reflexivity].
    destruct (eqv Qle_bool nxt thr).
    + eexists _, _, _. rewrite H0. reflexivity.
    + eexists _, 0%nat, []. rewrite H0, app_nil_r. reflexivity.
  - eexists _, 0%nat, []. rewrite H0, app_nil_r. reflexivity.
Qed.

Section Shape.
  Variables (cs : list C) (k : nat) (tied : list C).
  Let best := map Cand cs ++ repeat (TieR tied) k.

  Lemma filter_cand_shape : filter is_cand best = map Cand cs.
  Proof.
    unfold best. rewrite filter_app. replace (filter is_cand (repeat (TieR tied) k)) with (@nil (res C)) by (rewrite filter_repeat; reflexivity).
    rewrite app_nil_r. induction cs as [|c l IH]; [reflexivity|]. cbn [map filter is_cand]. rewrite IH. reflexivity.
  Qed.

  Lemma untied_shape : untied_of best = length cs.
  Proof. unfold untied_of. rewrite filter_cand_shape, map_length. reflexivity. Qed.

  Lemma winners_shape : winners_of best = map Cand cs.
  Proof.
    unfold winners_of. rewrite untied_shape. unfold best. rewrite firstn_app, map_length, Nat.sub_diag. cbn [firstn].
    rewrite app_nil_r. rewrite <- (map_length Cand cs). apply firstn_all.
  Qed.

  Lemma wc_shape : wc_of best = cs.
  Proof. unfold wc_of. rewrite winners_shape. induction cs as [|c l IH]; [reflexivity|]. cbn [map flat_map app]. rewrite IH. reflexivity. Qed.

  Lemma count_tie_shape : count_tie best = k.
  Proof.
    unfold count_tie, best. rewrite filter_app.
    replace (filter (fun r : res C => match r with TieR _ => true | _ => false end) (map Cand cs)) with (@nil (res C)).
    - rewrite filter_repeat. cbn [app]. apply repeat_length.
    - induction cs as [|c l IH]; [reflexivity|]. cbn [map filter]. exact IH.
  Qed.
End Shape.

Lemma gnb_zero medians : gnb medians 0 = [].
Proof.
  unfold gnb, get_n_best. destruct (sort_desc Qle_bool medians) as [|[c1 thr] s]; [reflexivity|].
  cbn [length Nat.ltb Nat.leb Nat.sub nth_error]. unfold eqv. rewrite Qle_bool_refl. cbn [andb first_eq_index snd].
  unfold eqv. rewrite Qle_bool_refl. reflexivity.
Qed.

Lemma count_tie_cands (l : list C) : count_tie (map Cand l) = 0%nat.
Proof. pose proof (count_tie_shape l 0 []) as H. cbn [repeat] in H. rewrite app_nil_r in H. exact H. Qed.

Lemma map_cand_of (l : list (C * Q)) : map cand_of l = map Cand (map fst l).
Proof. rewrite map_map. reflexivity. Qed.

(* a tie in the first place: everybody level with the top, more of them than seats *)
Lemma gnb_tie0 medians n :
  Nat.eqb (count_tie (gnb medians n)) 0 = false -> Nat.ltb 0 (untied_of (gnb medians n)) = false ->
  (1 <= n)%nat /\ exists level below thr,
    Permutation (level ++ below) medians /\
    Forall (fun it : C * Q => eqv Qle_bool (snd it) thr = true) level /\
    Forall (fun it : C * Q => ltb Qle_bool (snd it) thr = true) below /\
    (n < length level)%nat /\ gnb medians n = repeat (TieR (map fst level)) n.
Proof.
  intros Hc Hu. apply Nat.eqb_neq in Hc. apply Nat.ltb_ge in Hu.
  assert (Hn : (1 <= n)%nat). { destruct n; [rewrite gnb_zero in Hc; cbn in Hc; lia|lia]. }
  split; [exact Hn|].
  destruct (get_n_best_spec Qle_bool Qle_bool_total Qle_bool_trans medians n Hn) as [H1 H2]. fold (gnb medians n) in H1, H2.
  destruct (Nat.le_gt_cases (length medians) n) as [Hle|Hgt].
  - destruct (H1 Hle) as (s & _ & _ & E). rewrite E, map_cand_of, count_tie_cands in Hc. lia.
  - destruct (H2 Hgt) as (above & level & below & thr & Hp & _ & _ & Hl & Hb & Hpos & Ea & Eb).
    destruct (Nat.eq_dec (length above + length level) n) as [E|E].
    + rewrite (Ea E), map_cand_of, count_tie_cands in Hc. lia.
    + assert (Hlt : (n < length above + length level)%nat) by lia. specialize (Eb Hlt).
      rewrite map_cand_of in Eb. rewrite Eb, untied_shape, map_length in Hu.
      destruct above as [|a above']; [|cbn in Hu; lia]. cbn [app map length Nat.sub] in *.
      exists level, below, thr. rewrite Nat.sub_0_r in Eb. repeat split; assumption.
Qed.

Lemma sort_desc_all_eq (l : list (C * Q)) :
  (forall x y, In x l -> In y l -> Qle_bool (snd x) (snd y) = true) -> sort_desc Qle_bool l = l.
Proof.
  induction l as [|x t IH]; intros H; [reflexivity|]. cbn [sort_desc]. rewrite IH by (intros a b Ha Hb; apply H; right; assumption).
  destruct t as [|y t']; [reflexivity|]. cbn [insert_desc]. rewrite (H y x) by (cbn; auto). reflexivity.
Qed.

Lemma gnb_all_eq (l : list (C * Q)) thr n :
  Forall (fun it : C * Q => eqv Qle_bool (snd it) thr = true) l -> (1 <= n < length l)%nat ->
  gnb l n = repeat (TieR (map fst l)) n.
Proof.
  intros Hl Hn. rewrite Forall_forall in Hl.
  assert (Hle : forall x y, In x l -> In y l -> Qle_bool (snd x) (snd y) = true).
  { intros x y Hx Hy. apply (eqv_leb_l Qle_bool Qle_bool_trans _ _ thr); [apply Hl, Hx|apply Hl, Hy]. }
  unfold gnb, get_n_best. rewrite (sort_desc_all_eq l Hle).
  assert (Nat.ltb n (length l) = true) as -> by (apply Nat.ltb_lt; lia).
  destruct (nth_error l (n - 1)) as [[c1 t1]|] eqn:E1; [|apply nth_error_None in E1; lia].
  destruct (nth_error l n) as [[c2 t2]|] eqn:E2; [|apply nth_error_None in E2; lia].
  apply nth_error_In in E1, E2.
  assert (Heq : forall x, In x l -> eqv Qle_bool (snd x) t1 = true).
  { intros x Hx. unfold eqv. pose proof (Hle x (c1, t1) Hx E1) as A. pose proof (Hle (c1, t1) x E1 Hx) as B.
    cbn [snd] in A, B. rewrite A, B. reflexivity. }
  pose proof (Heq _ E2) as H2. cbn [snd] in H2. rewrite H2.
  rewrite (filter_all (fun it : C * Q => eqv Qle_bool (snd it) t1) l) by (apply Forall_forall; exact Heq).
  destruct l as [|x t]; [destruct E1|]. cbn [first_eq_index]. rewrite (Heq x) by (left; reflexivity).
  cbn [firstn map app]. rewrite Nat.sub_0_r. reflexivity.
Qed.

(* ---------------------------------------------------------------- balanced states *)
Definition good (d : cscores) : Prop := keys_nd (map fst d) /\ nonneg d.
Definition Inv (S : state) (T : Z) : Prop :=
  NoDup (map fst S) /\ Forall (fun cd : C * cscores => good (snd cd) /\ cs_total (snd cd) = T) S.

Lemma Inv_filter (f : C * cscores -> bool) S T : Inv S T -> Inv (filter f S) T.
Proof.
  intros [H1 H2]. split; [apply filter_keys_NoDup_gen, H1|].
  apply Forall_forall. intros x Hx. apply filter_In in Hx. rewrite Forall_forall in H2. apply H2, Hx.
Qed.

Lemma mx_Inv S T : Inv S T -> (0 <= T)%Z -> mx S = match S with [] => 0%Z | _ => T end.
Proof.
  intros [_ H] HT. unfold mx.
  assert (G : forall a, (0 <= a)%Z -> fold_left Z.max (map (fun cd : C * cscores => cs_total (snd cd)) S) a = match S with [] => a | _ => Z.max a T end).
  { induction H as [|x S [_ Hx] _ IH]; intros a Ha; [reflexivity|]. cbn [map fold_left]. rewrite IH by lia. rewrite Hx. destruct S; lia. }
  rewrite (G 0%Z) by lia. destruct S; lia.
Qed.

Lemma mx_pos S T : Inv S T -> (0 <= T)%Z -> ((mx S <=? 0)%Z = false <-> S <> [] /\ (0 < T)%Z).
Proof.
  intros HI HT. rewrite (mx_Inv S T HI HT). destruct S as [|x S].
  - split; [discriminate|intros [H _]; congruence].
  - rewrite Z.leb_gt. split; [intros H; split; [discriminate|exact H]|tauto].
Qed.

Definition med_of (d : cscores) : Q := match aggregate_one FMedianLow d with inl g => g | inr _ => 0%Q end.

Lemma med_of_spec d T : good d -> cs_total d = T -> (0 < T)%Z ->
  aggregate_one FMedianLow d = inl (med_of d) /\ In (med_of d) (map fst d) /\ is_med d (med_of d).
Proof.
  intros [_ Hnn] Ht HT. destruct (median_spec d Hnn ltac:(lia)) as (g & E & Hin & Hm). unfold med_of. rewrite E. auto.
Qed.

Lemma aggregate_Inv S T : Inv S T -> (0 < T)%Z ->
  aggregate FMedianLow S = inl (map (fun cd : C * cscores => (fst cd, med_of (snd cd))) S).
Proof.
  intros [_ H] HT. unfold aggregate. induction H as [|[c d] S [Hg Ht] _ IH]; [reflexivity|].
  cbn [map sequence fst snd] in *. destruct (med_of_spec d T Hg Ht HT) as (E & _). rewrite E, IH. reflexivity.
Qed.

Lemma dget_or_own (S : state) c d : NoDup (map fst S) -> In (c, d) S ->
  dget_or (map (fun cd : C * cscores => (fst cd, med_of (snd cd))) S) c 0%Q = med_of d.
Proof.
  unfold dget_or. induction S as [|[c0 d0] S IH]; intros Hnd Hin; [destruct Hin|].
  cbn [map fst snd dget] in *. inversion Hnd as [|? ? Hc Hnd']; subst. destruct Hin as [Hin|Hin].
  - injection Hin as -> ->. unfold ceqb. rewrite Pos.eqb_refl. reflexivity.
  - destruct (ceqb c c0) eqn:E; [|apply IH; assumption].
    apply Pos.eqb_eq in E. subst c0. exfalso. apply Hc. apply in_map_iff. exists (c, d). auto.
Qed.

(* removal of r copies of every candidate's own median *)
Definition own_remove (S : state) (r : Z) : state :=
  map (fun cd : C * cscores => (fst cd, adj (snd cd) (med_of (snd cd)) (- r))) S.

Lemma has_In (d : cscores) s : In s (map fst d) -> has d s.
Proof. intros H. exists s. split; [exact H|reflexivity]. Qed.

Lemma mj_remove_own S T (f : C * cscores -> bool) r : Inv S T -> (0 < T)%Z ->
  mj_remove (filter f S) (map (fun cd : C * cscores => (fst cd, med_of (snd cd))) S) r = own_remove (filter f S) r.
Proof.
  intros [Hnd H] HT. unfold mj_remove, own_remove. apply map_ext_in. intros [c d] Hin. cbn [fst snd].
  apply filter_In in Hin. destruct Hin as [Hin _]. rewrite (dget_or_own S c d Hnd Hin).
  rewrite Forall_forall in H. destruct (H _ Hin) as [Hg Ht]. cbn [snd] in *.
  destruct (med_of_spec d T Hg Ht HT) as (_ & Hk & _). f_equal.
  change (match cs_get d (med_of d) with Some k => k | None => 0%Z end) with (get0 d (med_of d)).
  replace (get0 d (med_of d) - r)%Z with (get0 d (med_of d) + - r)%Z by lia.
  apply dec_adj; [exact (proj1 Hg)|apply has_In, Hk].
Qed.

(* ---- adj algebra *)
Lemma adj_adj_same d s a b : adj (adj d s a) s b = adj d s (a + b).
Proof.
  unfold adj. rewrite map_map. apply map_ext. intros [s0 n]. cbn [fst snd].
  destruct (Qeq_bool s s0) eqn:E; cbn [fst snd]; rewrite ?E; [f_equal; lia|reflexivity].
Qed.

Lemma adj_adj_comm d s a t b : adj (adj d s a) t b = adj (adj d t b) s a.
Proof.
  unfold adj. rewrite !map_map. apply map_ext. intros [s0 n]. cbn [fst snd].
  destruct (Qeq_bool s s0) eqn:E, (Qeq_bool t s0) eqn:E'; cbn [fst snd]; rewrite ?E, ?E'; try reflexivity. f_equal. lia.
Qed.

Lemma scalec_adj k d s a : scalec k (adj d s a) = adj (scalec k d) s (k * a).
Proof.
  unfold adj, scalec. rewrite !map_map. apply map_ext. intros [s0 n]. cbn [fst snd].
  destruct (Qeq_bool s s0); cbn [fst snd]; [f_equal; lia|reflexivity].
Qed.

Lemma adj_zero d s : adj d s 0 = d.
Proof.
  unfold adj. rewrite <- (map_id d) at 2. apply map_ext. intros [s0 n]. cbn [fst snd].
  destruct (Qeq_bool s s0); [f_equal; lia|reflexivity].
Qed.

Lemma good_adj d s delta : good d -> In s (map fst d) -> (0 <= get0 d s + delta)%Z -> good (adj d s delta).
Proof.
  intros [H1 H2] Hs Hge. split; [rewrite adj_keys; exact H1|apply nonneg_adj; try assumption; apply has_In, Hs].
Qed.

(* ---------------------------------------------------------------- a step on a level state *)
Definition level_at (S : state) (thr : Q) : Prop := forall c d, In (c, d) S -> (med_of d == thr)%Q.

Lemma eqv_of_Qeq a b : (a == b)%Q -> eqv Qle_bool a b = true.
Proof. intros H. unfold eqv. apply andb_true_iff. split; apply Qle_bool_iff; rewrite H; apply Qle_refl. Qed.

Lemma cmem_true c l : In c l -> cmem c l = true.
Proof. intros H. apply MJ_proofs.cmem_In. exact H. Qed.

Lemma mj_level_all (S : state) : mj_level S (map fst S) = S.
Proof.
  unfold mj_level. apply filter_all. apply Forall_forall. intros x Hx. apply cmem_true. apply in_map. exact Hx.
Qed.

Lemma filter_true {X} (l : list X) : filter (fun _ => true) l = l.
Proof. induction l as [|x l IH]; [reflexivity|]. cbn [filter]. rewrite IH. reflexivity. Qed.

Lemma tied_of_repeat L n : (1 <= n)%nat -> tied_of (repeat (TieR L) n) = L.
Proof. destruct n; [lia|reflexivity]. Qed.

Lemma repeat_tie_counts (L : list C) n : count_tie (repeat (TieR L) n) = n /\ untied_of (repeat (TieR L) n) = 0%nat.
Proof.
  pose proof (count_tie_shape [] n L) as H1. pose proof (untied_shape [] n L) as H2. cbn [map app length] in H1, H2. auto.
Qed.

Lemma NOOP S T thr n r : Inv S T -> (0 < T)%Z -> level_at S thr -> (1 <= n < length S)%nat ->
  MJ (own_remove S 1) n r -> MJ S n r.
Proof.
  intros HI HT Hl Hn H. set (meds := map (fun cd : C * cscores => (fst cd, med_of (snd cd))) S).
  assert (Hm : (mx S <=? 0)%Z = false).
  { apply (mx_pos S T HI ltac:(lia)). split; [destruct S; [simpl in Hn; lia|discriminate]|exact HT]. }
  assert (Ha : aggregate FMedianLow S = inl meds) by (apply (aggregate_Inv S T HI HT)).
  assert (Hb : gnb meds n = repeat (TieR (map fst S)) n).
  { replace (map fst S) with (map fst meds) by (unfold meds; rewrite map_map; reflexivity).
    apply (gnb_all_eq meds thr); [|unfold meds; rewrite map_length; exact Hn].
    apply Forall_forall. intros [c v] Hin. unfold meds in Hin. apply in_map_iff in Hin. destruct Hin as ([c0 d] & E & Hin).
    cbn [fst snd] in E. injection E as -> <-. cbn [snd]. apply eqv_of_Qeq. exact (Hl c d Hin). }
  destruct (repeat_tie_counts (map fst S) n) as [Hc Hu].
  apply (MJ_tie S n meds r Hm Ha).
  - rewrite Hb, Hc. apply Nat.eqb_neq. lia.
  - rewrite Hb, Hu. reflexivity.
  - rewrite Hb, tied_of_repeat by lia. unfold mj_level.
    rewrite (mj_remove_own S T _ 1 HI HT). fold (mj_level S (map fst S)). rewrite mj_level_all. exact H.
Qed.

(* ---------------------------------------------------------------- the block of removals of mj_default *)
Lemma fold_filter_sumf (f : Q -> bool) (d : cscores) :
  fold_left Z.add (map snd (filter (fun sn : Q * Z => f (fst sn)) d)) 0%Z = sumf f d.
Proof.
  induction d as [|[s n] d IH]; [reflexivity|]. cbn [filter fst sumf fold_right snd]. fold (sumf f d).
  destruct (f s); [|exact IH]. cbn [map fold_left snd]. rewrite fold_add_shiftZ, IH. lia.
Qed.

Lemma sumf_compl (f : Q -> bool) d : (sumf f d + sumf (fun s => negb (f s)) d = cs_total d)%Z.
Proof.
  rewrite cs_total_sumf. induction d as [|[s n] d IH]; [reflexivity|]. cbn [sumf fold_right fst snd].
  fold (sumf f d). fold (sumf (fun s => negb (f s)) d). fold (sumf (fun _ => true) d). destruct (f s); cbn [negb]; lia.
Qed.

Lemma lower_eq d m : sumf (fun s => Qle_bool m s) d = (cs_total d - below d m)%Z.
Proof. pose proof (sumf_compl (fun s => Qle_bool m s) d) as H. cbv beta in H. unfold below, qlt. lia. Qed.

Lemma upper_eq d m : sumf (fun s => negb (Qle_bool s m)) d = (cs_total d - atmost d m)%Z.
Proof. pose proof (sumf_compl (fun s => Qle_bool s m) d) as H. cbv beta in H. unfold atmost. lia. Qed.

Lemma ceil_half_bound (a l t : Z) : (inject_Z (a - 1) < inject_Z l - inject_Z t / 2)%Q -> (2 * a <= 2 * l - t + 1)%Z.
Proof.
  intros H. assert (H' : (inject_Z (2 * (a - 1)) < inject_Z (2 * l - t))%Q).
  { unfold Z.sub in *. rewrite !inject_Z_plus, !inject_Z_mult, !inject_Z_opp, ?inject_Z_plus.
    unfold Qdiv in H. change (/ 2)%Q with (1 # 2)%Q in H. rewrite inject_Z_plus, inject_Z_opp in H.
    change (inject_Z 2) with 2%Q. change (inject_Z 1) with 1%Q in *. change (inject_Z (- (1))) with (- (1))%Q. lra. }
  rewrite <- Zlt_Qlt in H'. lia.
Qed.

Lemma fold_min_le (l : list Z) : forall x, (fold_left Z.min l x <= x)%Z /\ forall y, In y l -> (fold_left Z.min l x <= y)%Z.
Proof.
  induction l as [|z l IH]; intros x; cbn [fold_left]; [split; [lia|intros y []]|].
  destruct (IH (Z.min x z)) as [H1 H2]. split; [lia|]. intros y [<-|Hy]; [lia|apply H2, Hy].
Qed.

(* the number removed in one block, against one level candidate whose median is m *)
Lemma ch_bound (sub : state) (medians : list (C * Q)) c d T :
  In (c, d) sub -> cs_total d = T -> is_med d (dget_or medians c 0%Q) ->
  let m := dget_or medians c 0%Q in
  let ch := mj_ch sub medians in
  (1 <= ch)%Z /\ (ch = 1%Z \/ ((2 * ch <= T - 2 * below d m + 1)%Z /\ (2 * ch <= 2 * atmost d m - T + 1)%Z)).
Proof.
  intros Hin Ht [M1 M2] m ch. split; [apply mj_ch_pos|]. unfold ch, mj_ch. cbv zeta.
  destruct (closest_change sub medians =? 0)%Z eqn:Ez; [left; reflexivity|right]. apply Z.eqb_neq in Ez.
  set (per := fun cd : C * cscores =>
         let m := dget_or medians (fst cd) 0%Q in
         let half := (inject_Z (cs_total (snd cd)) / 2)%Q in
         let lower := inject_Z (fold_left Z.add (map snd (filter (fun sn : Q * Z => Qle_bool m (fst sn)) (snd cd))) 0%Z) in
         let upper := inject_Z (fold_left Z.add (map snd (filter (fun sn : Q * Z => negb (Qle_bool (fst sn) m)) (snd cd))) 0%Z) in
         Z.min (Qceiling (Qabs (lower - half))) (Qceiling (Qabs (upper - half)))).
  assert (Hle : (closest_change sub medians <= per (c, d))%Z).
  { unfold closest_change. fold per. destruct sub as [|x sub']; [destruct Hin|]. cbn [map].
    destruct (fold_min_le (map per sub') (per x)) as [H1 H2]. destruct Hin as [->|Hin]; [exact H1|].
    apply H2. apply in_map. exact Hin. }
  unfold per in Hle. cbv zeta in Hle. cbn [fst snd] in Hle. fold m in Hle.
  rewrite (fold_filter_sumf (fun s => Qle_bool m s)), (fold_filter_sumf (fun s => negb (Qle_bool s m))) in Hle.
  rewrite lower_eq, upper_eq, Ht in Hle. fold m in M1, M2. rewrite Ht in M1, M2.
  set (A := Qceiling (Qabs (inject_Z (T - below d m) - inject_Z T / 2))) in *.
  set (B := Qceiling (Qabs (inject_Z (T - atmost d m) - inject_Z T / 2))) in *.
  assert (HA : (2 * A <= 2 * (T - below d m) - T + 1)%Z).
  { apply ceil_half_bound. unfold A.
    assert (Hp : (0 <= inject_Z (T - below d m) - inject_Z T / 2)%Q).
    { assert (Hz : (inject_Z T <= inject_Z (2 * (T - below d m)))%Q) by (rewrite <- Zle_Qle; lia).
      rewrite inject_Z_mult in Hz. change (inject_Z 2) with 2%Q in Hz. unfold Qdiv. change (/ 2)%Q with (1 # 2)%Q. lra. }
    rewrite (Qceiling_comp _ _ (Qabs_pos _ Hp)). apply Qceiling_lt. }
  assert (HB : (2 * B <= 2 * atmost d m - T + 1)%Z).
  { assert (Hp : (inject_Z (T - atmost d m) - inject_Z T / 2 <= 0)%Q).
    { assert (Hz : (inject_Z (2 * (T - atmost d m)) <= inject_Z T)%Q) by (rewrite <- Zle_Qle; lia).
      rewrite inject_Z_mult in Hz. change (inject_Z 2) with 2%Q in Hz. unfold Qdiv. change (/ 2)%Q with (1 # 2)%Q. lra. }
    assert (E : (- (inject_Z (T - atmost d m) - inject_Z T / 2) == inject_Z (atmost d m) - inject_Z T / 2)%Q).
    { unfold Zminus. rewrite inject_Z_plus, inject_Z_opp. unfold Qdiv. change (/ 2)%Q with (1 # 2)%Q.
      assert (E2 : (inject_Z T == 2 * (inject_Z T * (1 # 2)))%Q) by ring. lra. }
    unfold B. rewrite (Qceiling_comp _ _ (Qabs_neg _ Hp)), (Qceiling_comp _ _ E).
    pose proof (ceil_half_bound (Qceiling (inject_Z (atmost d m) - inject_Z T / 2)) (atmost d m) T (Qceiling_lt _)). lia. }
  lia.
Qed.

Lemma qlt_irrefl m : qlt m m = false.
Proof. unfold qlt. rewrite Qle_bool_refl. reflexivity. Qed.

Lemma block_numeric d T m ch : good d -> cs_total d = T -> In m (map fst d) -> is_med d m ->
  (1 <= ch)%Z -> (ch = 1%Z \/ ((2 * ch <= T - 2 * below d m + 1)%Z /\ (2 * ch <= 2 * atmost d m - T + 1)%Z)) ->
  (ch <= get0 d m)%Z /\ (get0 d m <= T)%Z /\
  forall j, (0 <= j < ch)%Z -> is_med (adj d m (- j)) m.
Proof.
  intros [Hk Hnn] Ht Hin [M1 M2] H1 Hb. rewrite Ht in M1, M2.
  pose proof (get0_cnt d m Hk) as Hg. pose proof (sumf_nonneg (fun s => qlt s m) d Hnn) as Hb0. fold (below d m) in Hb0.
  assert (Hat : (atmost d m <= T)%Z).
  { rewrite <- Ht, cs_total_sumf. apply sumf_mono; [exact Hnn|reflexivity]. }
  split; [lia|]. split; [lia|]. intros j Hj. unfold is_med.
  rewrite (total_adj d m (- j) Hk (has_In d m Hin)), (below_adj d m (- j) m Hk (has_In d m Hin)),
          (atmost_adj d m (- j) m Hk (has_In d m Hin)), qlt_irrefl, Qle_bool_refl, Ht. lia.
Qed.

Lemma count_level (S : state) (L : list C) : NoDup (map fst S) -> NoDup L -> incl L (map fst S) ->
  length (mj_level S L) = length L.
Proof.
  intros H1 H2 H3. rewrite <- (map_length fst (mj_level S L)). apply Permutation_length. apply NoDup_Permutation.
  - apply filter_keys_NoDup_gen, H1.
  - exact H2.
  - intros x. unfold mj_level. split.
    + intros H. apply in_map_iff in H. destruct H as ([c d] & <- & Hf). apply filter_In in Hf. cbn [fst] in *.
      apply MJ_proofs.cmem_In. tauto.
    + intros H. pose proof (H3 x H) as Hs. apply in_map_iff in Hs. destruct Hs as ([c d] & <- & Hs).
      apply in_map_iff. exists (c, d). split; [reflexivity|]. apply filter_In. split; [exact Hs|]. apply cmem_true. exact H.
Qed.

Lemma own_remove_keys S j : map fst (own_remove S j) = map fst S.
Proof. unfold own_remove. rewrite map_map. reflexivity. Qed.

Lemma own_remove_Inv S T j : Inv S T -> (0 < T)%Z ->
  (forall c d, In (c, d) S -> (j <= get0 d (med_of d))%Z) -> Inv (own_remove S j) (T - j).
Proof.
  intros [Hnd H] HT Hj. split; [rewrite own_remove_keys; exact Hnd|].
  unfold own_remove. apply Forall_map. apply Forall_forall. intros [c d] Hin. cbn [fst snd].
  rewrite Forall_forall in H. destruct (H _ Hin) as [Hg Ht]. cbn [snd] in *.
  destruct (med_of_spec d T Hg Ht HT) as (_ & Hk & _). split.
  - apply good_adj; [exact Hg|exact Hk|]. specialize (Hj c d Hin). lia.
  - rewrite (total_adj d _ _ (proj1 Hg) (has_In d _ Hk)), Ht. lia.
Qed.

Lemma med_of_char d T g : good d -> cs_total d = T -> (0 < T)%Z -> is_med d g -> (med_of d == g)%Q.
Proof.
  intros [_ Hnn] Ht HT Hm. destruct (median_char d g Hnn ltac:(lia) Hm) as (g0 & E & Hq & _). unfold med_of. rewrite E. exact Hq.
Qed.

(* after j removals every candidate still has its old median; one more removal is removal j + 1 *)
Lemma own_remove_step S T j thr : Inv S T -> (0 < T - j)%Z -> (0 <= j)%Z -> level_at S thr ->
  (forall c d, In (c, d) S -> (j <= get0 d (med_of d))%Z /\ is_med (adj d (med_of d) (- j)) (med_of d)) ->
  level_at (own_remove S j) thr /\ own_remove (own_remove S j) 1 = own_remove S (j + 1).
Proof.
  intros [Hnd H] HT Hj0 Hl Hall. rewrite Forall_forall in H.
  assert (Hmed : forall c d, In (c, d) S -> (med_of (adj d (med_of d) (- j)) == med_of d)%Q).
  { intros c d Hin. destruct (H _ Hin) as [Hg Ht]. cbn [snd] in *. destruct (Hall c d Hin) as [Hge Hm].
    destruct (med_of_spec d T Hg Ht ltac:(lia)) as (_ & Hk & _).
    apply (med_of_char _ (T - j)); [apply good_adj; [exact Hg|exact Hk|lia]| |exact HT|exact Hm].
    rewrite (total_adj d _ _ (proj1 Hg) (has_In d _ Hk)), Ht. lia. }
  split.
  - intros c d' Hin. unfold own_remove in Hin. apply in_map_iff in Hin. destruct Hin as ([c0 d] & E & Hin).
    cbn [fst snd] in E. injection E as -> <-. rewrite (Hmed c d Hin). exact (Hl c d Hin).
  - unfold own_remove. rewrite map_map. apply map_ext_in. intros [c d] Hin. cbn [fst snd]. f_equal.
    rewrite (adj_compat _ _ _ (- (1)) (Hmed c d Hin)), adj_adj_same. f_equal. lia.
Qed.

Lemma own_remove_length S j : length (own_remove S j) = length S.
Proof. unfold own_remove. apply map_length. Qed.

Lemma NoDup_app_left {X} (a b : list X) : NoDup (a ++ b) -> NoDup a.
Proof.
  induction a as [|x a IH]; intros H; [constructor|]. cbn [app] in H. inversion H as [|? ? Hx Hn]; subst.
  constructor; [intros Hin; apply Hx; apply in_or_app; left; exact Hin|apply IH, Hn].
Qed.

Lemma filter_len_le {X} (g : X -> bool) (l : list X) : (length (filter g l) <= length l)%nat.
Proof. induction l as [|y l IH]; [reflexivity|]. cbn [filter]. destruct (g y); cbn [length]; lia. Qed.

Lemma filter_length_drop {X} (g : X -> bool) (l : list X) x : In x l -> g x = false -> (length (filter g l) < length l)%nat.
Proof.
  induction l as [|y l IH]; intros Hin Hg; [destruct Hin|]. cbn [filter]. destruct Hin as [->|Hin].
  - rewrite Hg. pose proof (filter_len_le g l). cbn [length]. lia.
  - specialize (IH Hin Hg). destruct (g y); cbn [length]; lia.
Qed.

Section Block.
  Variables (S : state) (T : Z) (n : nat).
  Hypothesis HI : Inv S T.
  Hypothesis HT : (0 < T)%Z.
  Let medians := map (fun cd : C * cscores => (fst cd, med_of (snd cd))) S.
  Let best := gnb medians n.
  Hypothesis Hc : Nat.eqb (count_tie best) 0 = false.
  Hypothesis Hu : Nat.ltb 0 (untied_of best) = false.
  Let sub1 := mj_level S (tied_of best).
  Let ch := mj_ch sub1 medians.

  Lemma block_facts : exists thr,
    (1 <= n < length sub1)%nat /\ level_at sub1 thr /\ Inv sub1 T /\ (1 <= ch)%Z /\
    forall c d, In (c, d) sub1 ->
      (ch <= get0 d (med_of d))%Z /\ (get0 d (med_of d) <= T)%Z /\
      forall j, (0 <= j < ch)%Z -> is_med (adj d (med_of d) (- j)) (med_of d).
  Proof.
    destruct (gnb_tie0 medians n Hc Hu) as (Hn & level & below & thr & Hp & Hl & _ & Hlen & Eb).
    fold best in Eb. destruct HI as [Hnd Hall].
    assert (Hkeys : map fst medians = map fst S) by (unfold medians; rewrite map_map; reflexivity).
    assert (Htied : tied_of best = map fst level) by (rewrite Eb; apply tied_of_repeat, Hn).
    assert (Hndm : NoDup (map fst medians)) by (rewrite Hkeys; exact Hnd).
    assert (Hndl : NoDup (map fst level)).
    { apply (Permutation_NoDup (Permutation_sym (Permutation_map fst Hp))) in Hndm. rewrite map_app in Hndm.
      apply NoDup_app_left in Hndm. exact Hndm. }
    assert (Hincl : incl (map fst level) (map fst S)).
    { intros x Hx. rewrite <- Hkeys. apply (Permutation_in _ (Permutation_map fst Hp)). rewrite map_app. apply in_or_app. left. exact Hx. }
    assert (Hlen1 : length sub1 = length level).
    { unfold sub1. rewrite Htied, (count_level S _ Hnd Hndl Hincl). apply map_length. }
    assert (HI1 : Inv sub1 T) by (apply Inv_filter; split; assumption).
    assert (Hsub : forall c d, In (c, d) sub1 -> In (c, d) S /\ In c (map fst level)).
    { intros c d Hin. unfold sub1, mj_level in Hin. apply filter_In in Hin. cbn [fst] in Hin. rewrite Htied in Hin.
      split; [tauto|]. apply MJ_proofs.cmem_In. tauto. }
    assert (Hlev : level_at sub1 thr).
    { intros c d Hin. destruct (Hsub c d Hin) as [HinS Hc']. apply in_map_iff in Hc'. destruct Hc' as ([c0 v] & Ec & Hv).
      cbn [fst] in Ec. subst c0. rewrite Forall_forall in Hl. pose proof (Hl _ Hv) as He. cbn [snd] in He.
      assert (Hm1 : In (c, v) medians) by (apply (Permutation_in _ Hp); apply in_or_app; left; exact Hv).
      assert (Hm2 : In (c, med_of d) medians) by (unfold medians; apply in_map_iff; exists (c, d); auto).
      rewrite <- (NoDup_keys_val medians c v (med_of d) Hndm Hm1 Hm2). apply eqv_Qeq. exact He. }
    exists thr. split; [lia|]. split; [exact Hlev|]. split; [exact HI1|]. split; [apply mj_ch_pos|].
    intros c d Hin. destruct (Hsub c d Hin) as [HinS _]. rewrite Forall_forall in Hall. destruct (Hall _ HinS) as [Hg Ht]. cbn [snd] in *.
    destruct (med_of_spec d T Hg Ht HT) as (_ & Hk & Hm).
    pose proof (dget_or_own S c d Hnd HinS) as Hown. fold medians in Hown.
    assert (Hm' : is_med d (dget_or medians c 0%Q)) by (rewrite Hown; exact Hm).
    destruct (ch_bound sub1 medians c d T Hin Ht Hm') as [B1 B2]. rewrite Hown in B2. fold ch in B1, B2.
    exact (block_numeric d T (med_of d) ch Hg Ht Hk Hm B1 B2).
  Qed.

  Lemma block_chain r : MJ (own_remove sub1 ch) n r -> MJ S n r.
  Proof.
    destruct block_facts as (thr & Hn & Hlev & HI1 & Hch & Hall). intros H.
    assert (Hchain : forall i : nat, (Z.of_nat i < ch)%Z -> MJ (own_remove sub1 (ch - Z.of_nat i)) n r).
    { induction i as [|i IH]; intros Hi; [rewrite Z.sub_0_r; exact H|].
      assert (Hi' : (Z.of_nat i < ch)%Z) by lia. specialize (IH Hi').
      set (j := (ch - Z.of_nat (Datatypes.S i))%Z). assert (Hj : (1 <= j < ch)%Z) by lia.
      replace (ch - Z.of_nat i)%Z with (j + 1)%Z in IH by lia.
      assert (Hgt : (0 < T - j)%Z).
      { destruct sub1 as [|[c d] s1] eqn:E; [simpl in Hn; lia|]. destruct (Hall c d ltac:(left; reflexivity)) as (A1 & A2 & _). lia. }
      destruct (own_remove_step sub1 T j thr HI1 Hgt ltac:(lia) Hlev) as [Hlv Hst].
      { intros c d Hin. destruct (Hall c d Hin) as (A1 & _ & A3). split; [lia|apply A3; lia]. }
      rewrite <- Hst in IH.
      apply (NOOP (own_remove sub1 j) (T - j) thr n r); [|exact Hgt|exact Hlv|rewrite own_remove_length; exact Hn|exact IH].
      apply own_remove_Inv; [exact HI1|exact HT|]. intros c d Hin. destruct (Hall c d Hin) as (A1 & _). lia. }
    assert (H1 : MJ (own_remove sub1 1) n r).
    { specialize (Hchain (Z.to_nat (ch - 1))). rewrite Z2Nat.id in Hchain by lia.
      replace (ch - (ch - 1))%Z with 1%Z in Hchain by lia. apply Hchain. lia. }
    assert (Hm : (mx S <=? 0)%Z = false).
    { apply (mx_pos S T HI ltac:(lia)). split; [|exact HT]. intros E. unfold sub1 in Hn. rewrite E in Hn. simpl in Hn. lia. }
    apply (MJ_tie S n medians r Hm (aggregate_Inv S T HI HT) Hc Hu).
    fold best. fold sub1. unfold sub1 at 1, mj_level. rewrite (mj_remove_own S T _ 1 HI HT). exact H1.
  Qed.

  Lemma block_state : mj_remove sub1 medians ch = own_remove sub1 ch /\ Inv (own_remove sub1 ch) (T - ch) /\
                      (1 <= ch <= T)%Z /\ (length sub1 <= length S)%nat.
  Proof.
    destruct block_facts as (thr & Hn & Hlev & HI1 & Hch & Hall).
    split; [unfold sub1, mj_level; apply (mj_remove_own S T _ ch HI HT)|].
    split; [apply own_remove_Inv; [exact HI1|exact HT|]; intros c d Hin; destruct (Hall c d Hin) as (A1 & _); exact A1|].
    split.
    - destruct sub1 as [|[c d] s1] eqn:E; [simpl in Hn; lia|]. destruct (Hall c d ltac:(left; reflexivity)) as (A1 & A2 & _). lia.
    - unfold sub1, mj_level. apply filter_len_le.
  Qed.
End Block.

(* ---------------------------------------------------------------- mj_default with enough fuel is the one-step run *)
Theorem mj_default_MJ : forall fuel S n T, Inv S T -> (0 <= T)%Z -> (Z.to_nat T + length S < fuel)%nat ->
  MJ S n (mj_default fuel S n).
Proof.
  induction fuel as [|f IH]; intros S n T HI HT0 Hf; [lia|]. rewrite mj_default_unfold.
  destruct (mx S <=? 0)%Z eqn:Hm; [apply MJ_vse, Hm|].
  destruct (proj1 (mx_pos S T HI HT0) Hm) as [Hne HT].
  pose proof (aggregate_Inv S T HI HT) as Ha. rewrite Ha. cbv zeta.
  set (medians := map (fun cd : C * cscores => (fst cd, med_of (snd cd))) S) in *.
  destruct (Nat.eqb (count_tie (gnb medians n)) 0) eqn:Hc; [apply (MJ_done S n medians Hm Ha Hc)|].
  destruct (Nat.ltb 0 (untied_of (gnb medians n))) eqn:Hu.
  - apply (MJ_win S n medians _ Hm Ha Hc Hu). apply (IH _ _ T); [apply Inv_filter, HI|exact HT0|].
    assert (Hlt : (length (rest_of S (gnb medians n)) < length S)%nat).
    { destruct (gnb_shape medians n) as (cs & k & tied & E). apply Nat.ltb_lt in Hu. rewrite E, untied_shape in Hu.
      destruct cs as [|c0 cs']; [simpl in Hu; lia|].
      assert (Hin : In c0 (map fst S)).
      { replace (map fst S) with (map fst medians) by (unfold medians; rewrite map_map; reflexivity).
        apply (get_n_best_cand_in medians n). fold (gnb medians n). rewrite E. left. reflexivity. }
      apply in_map_iff in Hin. destruct Hin as ([c d] & Ec & Hin). cbn [fst] in Ec. subst c.
      unfold rest_of. apply (filter_length_drop _ _ (c0, d) Hin). cbn [fst]. rewrite E, wc_shape. cbn [cmem]. unfold ceqb. rewrite Pos.eqb_refl. reflexivity. }
    lia.
  - destruct (block_state S T n HI HT Hc Hu) as (E & HI' & Hch & Hlen). fold medians in E, HI', Hch, Hlen. rewrite E.
    apply (block_chain S T n HI HT Hc Hu). fold medians.
    set (ch := mj_ch (mj_level S (tied_of (gnb medians n))) medians) in *.
    apply (IH _ _ (T - ch)%Z); [exact HI'|lia|]. rewrite own_remove_length. lia.
Qed.

(* ================================================================ the k-fold run follows the original run *)
Lemma is_med_compat d g g' : (g == g')%Q -> is_med d g -> is_med d g'.
Proof.
  intros E [H1 H2]. unfold is_med, below, atmost in *.
  assert (E1 : sumf (fun s => qlt s g') d = sumf (fun s => qlt s g) d).
  { clear - E. induction d as [|[s n] d IH]; [reflexivity|]. cbn [sumf fold_right fst snd]. fold (sumf (fun s => qlt s g') d). fold (sumf (fun s => qlt s g) d).
    rewrite IH. unfold qlt. rewrite (Qle_bool_Qeq g g' s s) by (try reflexivity; symmetry; exact E). reflexivity. }
  assert (E2 : sumf (fun s => Qle_bool s g') d = sumf (fun s => Qle_bool s g) d).
  { clear - E. induction d as [|[s n] d IH]; [reflexivity|]. cbn [sumf fold_right fst snd]. fold (sumf (fun s => Qle_bool s g') d). fold (sumf (fun s => Qle_bool s g) d).
    rewrite IH. rewrite (Qle_bool_Qeq s s g g') by (try reflexivity; symmetry; exact E). reflexivity. }
  rewrite E1, E2. split; assumption.
Qed.

Lemma good_scalec k d : (0 <= k)%Z -> good d -> good (scalec k d).
Proof. intros Hk [H1 H2]. split; [rewrite scalec_keys; exact H1|apply nonneg_scalec; assumption]. Qed.

Lemma good_adj_add d s delta : good d -> In s (map fst d) -> (0 <= delta)%Z -> good (adj d s delta).
Proof.
  intros Hg Hs Hd. apply good_adj; [exact Hg|exact Hs|].
  assert (0 <= get0 d s)%Z; [|lia]. destruct Hg as [Hk Hnn]. rewrite (get0_cnt d s Hk).
  assert (below d s <= atmost d s)%Z; [|lia]. apply sumf_mono; [exact Hnn|]. intros x Hx. apply qlt_iff in Hx. apply Qle_bool_iff. lra.
Qed.

Section PerCand.
  Variable k : Z.
  Hypothesis Hk : (0 < k)%Z.
  Variables (d : cscores) (T : Z) (m : Q).
  Hypothesis Hg : good d.
  Hypothesis Ht : cs_total d = T.
  Hypothesis Hm : In m (map fst d).
  Hypothesis Hmed : is_med d m.

  Let Hkd : keys_nd (map fst d) := proj1 Hg.

  Lemma get0_med_pos : (1 <= get0 d m)%Z.
  Proof. pose proof Hmed as [M1 M2]. rewrite (get0_cnt d m Hkd). lia. Qed.

  (* counts of an adjusted k-fold dictionary *)
  Lemma total_sa s a : In s (map fst d) -> cs_total (adj (scalec k d) s a) = (k * T + a)%Z.
  Proof.
    intros Hs. rewrite total_adj, total_scalec, Ht; [reflexivity|rewrite scalec_keys; exact Hkd|apply has_In; rewrite scalec_keys; exact Hs].
  Qed.

  (* sync, odd total: j < k removals from the k-fold dictionary leave the median where it is *)
  Lemma sync_odd_med j : Z.odd T = true -> (0 <= j < k)%Z -> is_med (adj (scalec k d) m (- j)) m.
  Proof.
    intros Ho Hj. pose proof Hmed as [M1 M2]. rewrite Ht in M1, M2. unfold is_med.
    assert (Hks : keys_nd (map fst (scalec k d))) by (rewrite scalec_keys; exact Hkd).
    assert (Hhs : has (scalec k d) m) by (apply has_In; rewrite scalec_keys; exact Hm).
    rewrite (total_adj _ _ _ Hks Hhs), (below_adj _ _ _ m Hks Hhs), (atmost_adj _ _ _ m Hks Hhs), qlt_irrefl, Qle_bool_refl,
            total_scalec, below_scalec, atmost_scalec, Ht.
    pose proof Ho as Ho'. rewrite Z.odd_spec in Ho'. destruct Ho' as [t Et].
    assert (A1 : (0 <= k * (T - 1 - 2 * below d m))%Z) by (apply Z.mul_nonneg_nonneg; lia).
    assert (A2 : (0 <= k * (2 * atmost d m - T - 1))%Z) by (apply Z.mul_nonneg_nonneg; lia).
    lia.
  Qed.

  Lemma sync_good j : (0 <= j <= k)%Z -> good (adj (scalec k d) m (- j)).
  Proof.
    intros Hj. apply good_adj; [apply good_scalec; [lia|exact Hg]|rewrite scalec_keys; exact Hm|].
    rewrite get0_scalec. pose proof get0_med_pos. nia.
  Qed.

  (* the staircase between  k * (d - m)  and  k * d + (k-1) h *)
  Variable h : Q.
  Hypothesis Hh : In h (map fst d).
  Hypothesis Ho : Z.odd T = true.
  Hypothesis Hh1 : (2 * below d h <= T - 1)%Z.
  Hypothesis Hh2 : (T - 1 <= 2 * atmost d h)%Z.

  Definition stairB : cscores := scalec k (adj d m (- (1))).
  Definition stairZ (x y : Z) : cscores := adj (adj stairB h x) m y.

  Lemma stairB_keys : map fst stairB = map fst d.
  Proof. unfold stairB. rewrite scalec_keys, adj_keys. reflexivity. Qed.

  Lemma stair_good x y : (0 <= x)%Z -> (0 <= y)%Z -> good (stairZ x y).
  Proof.
    intros Hx Hy. unfold stairZ. apply good_adj_add; [apply good_adj_add|rewrite adj_keys, stairB_keys; exact Hm|exact Hy].
    - unfold stairB. apply good_scalec; [lia|]. apply good_adj; [exact Hg|exact Hm|]. pose proof get0_med_pos. lia.
    - rewrite stairB_keys. exact Hh.
    - exact Hx.
  Qed.

  Lemma h_le_m : (h <= m)%Q.
  Proof.
    destruct (Qlt_le_dec m h) as [Hlt|Hle]; [|exact Hle]. exfalso. pose proof Hmed as [M1 M2]. rewrite Ht in M1, M2.
    assert (H : (atmost d m <= below d h)%Z).
    { apply sumf_mono; [exact (proj2 Hg)|]. intros s Hs. apply Qle_bool_iff in Hs. apply qlt_iff. lra. }
    pose proof Ho as Ho'. rewrite Z.odd_spec in Ho'. destruct Ho' as [t Et]. lia.
  Qed.

  Lemma stair_counts x y g :
    cs_total (stairZ x y) = (k * (T - 1) + x + y)%Z /\
    below (stairZ x y) g = (k * (below d g - if qlt m g then 1 else 0) + (if qlt h g then x else 0) + (if qlt m g then y else 0))%Z /\
    atmost (stairZ x y) g = (k * (atmost d g - if Qle_bool m g then 1 else 0) + (if Qle_bool h g then x else 0) + (if Qle_bool m g then y else 0))%Z.
  Proof.
    assert (K0 : keys_nd (map fst stairB)) by (rewrite stairB_keys; exact Hkd).
    assert (K1 : keys_nd (map fst (adj stairB h x))) by (rewrite adj_keys; exact K0).
    assert (H0 : has stairB h) by (apply has_In; rewrite stairB_keys; exact Hh).
    assert (H1 : has (adj stairB h x) m) by (apply has_In; rewrite adj_keys, stairB_keys; exact Hm).
    assert (Hd : has d m) by (apply has_In; exact Hm).
    unfold stairZ. rewrite (total_adj _ _ _ K1 H1), (total_adj _ _ _ K0 H0), (below_adj _ _ _ g K1 H1), (below_adj _ _ _ g K0 H0),
      (atmost_adj _ _ _ g K1 H1), (atmost_adj _ _ _ g K0 H0).
    unfold stairB. rewrite total_scalec, below_scalec, atmost_scalec, (total_adj _ _ _ Hkd Hd), (below_adj _ _ _ g Hkd Hd), (atmost_adj _ _ _ g Hkd Hd), Ht.
    repeat split; destruct (qlt m g), (qlt h g), (Qle_bool m g), (Qle_bool h g); lia.
  Qed.

  Lemma stair_med_m x : (0 <= x <= k - 1)%Z -> is_med (stairZ x (x + 1)) m.
  Proof.
    intros Hx. pose proof Hmed as [M1 M2]. rewrite Ht in M1, M2. pose proof Ho as Ho'. rewrite Z.odd_spec in Ho'. destruct Ho' as [t Et].
    destruct (stair_counts x (x + 1) m) as (E1 & E2 & E3). unfold is_med. rewrite E1, E2, E3, qlt_irrefl, Qle_bool_refl.
    assert (A1 : (0 <= k * (T - 1 - 2 * below d m))%Z) by (apply Z.mul_nonneg_nonneg; lia).
    assert (A2 : (0 <= k * (2 * atmost d m - T - 1))%Z) by (apply Z.mul_nonneg_nonneg; lia).
    pose proof h_le_m as Hle.
    assert (B1 : Qle_bool h m = true) by (apply Qle_bool_iff; exact Hle). rewrite B1.
    destruct (qlt h m); lia.
  Qed.

  Lemma stair_med_h x : (1 <= x <= k - 1)%Z -> is_med (stairZ x x) h.
  Proof.
    intros Hx. pose proof Hmed as [M1 M2]. rewrite Ht in M1, M2. pose proof Ho as Ho'. rewrite Z.odd_spec in Ho'. destruct Ho' as [t Et].
    destruct (stair_counts x x h) as (E1 & E2 & E3). unfold is_med. rewrite E1, E2, E3, qlt_irrefl, Qle_bool_refl.
    pose proof h_le_m as Hle.
    assert (B0 : qlt m h = false) by (apply not_true_iff_false; rewrite qlt_iff; lra). rewrite B0.
    assert (A1 : (0 <= k * (T - 1 - 2 * below d h))%Z) by (apply Z.mul_nonneg_nonneg; lia).
    assert (A2 : (0 <= k * (2 * atmost d h - (T - 1)))%Z) by (apply Z.mul_nonneg_nonneg; lia).
    destruct (Qle_bool m h) eqn:B2; [|lia].
    (* h == m *)
    apply Qle_bool_iff in B2. assert (E : (m == h)%Q) by (apply Qle_antisym; assumption).
    assert (Hmh : is_med d h) by (apply (is_med_compat d m h E); split; rewrite Ht; assumption). destruct Hmh as [N1 N2]. rewrite Ht in N1, N2. assert (A3 : (0 <= k * (2 * atmost d h - T - 1))%Z) by (apply Z.mul_nonneg_nonneg; lia).
    lia.
  Qed.
End PerCand.

(* ---------------------------------------------------------------- states obtained candidate by candidate *)
Definition mapd (F : C -> cscores -> cscores) (U : state) : state :=
  map (fun cd : C * cscores => (fst cd, F (fst cd) (snd cd))) U.
Definition canon (U : state) : list (C * Q) := map (fun cd : C * cscores => (fst cd, med_of (snd cd))) U.

Lemma mapd_keys F U : map fst (mapd F U) = map fst U.
Proof. unfold mapd. rewrite map_map. reflexivity. Qed.

Lemma mapd_length F U : length (mapd F U) = length U.
Proof. apply map_length. Qed.

Lemma mapd_filter F (f : C -> bool) U :
  filter (fun cd : C * cscores => f (fst cd)) (mapd F U) = mapd F (filter (fun cd : C * cscores => f (fst cd)) U).
Proof.
  induction U as [|[c d] U IH]; [reflexivity|]. cbn [mapd map filter fst snd]. fold (mapd F U).
  destruct (f c); cbn [mapd map fst snd]; rewrite IH; reflexivity.
Qed.

Lemma mapd_mapd G F U : mapd G (mapd F U) = mapd (fun c d => G c (F c d)) U.
Proof. unfold mapd. rewrite map_map. reflexivity. Qed.

Lemma mapd_ext_in F G U : (forall c d, In (c, d) U -> F c d = G c d) -> mapd F U = mapd G U.
Proof. intros H. unfold mapd. apply map_ext_in. intros [c d] Hin. cbn [fst snd]. rewrite (H c d Hin). reflexivity. Qed.

Lemma mapd_In F U c d' : In (c, d') (mapd F U) -> exists d, In (c, d) U /\ d' = F c d.
Proof.
  intros H. unfold mapd in H. apply in_map_iff in H. destruct H as ([c0 d] & E & Hin). cbn [fst snd] in E. injection E as -> <-.
  exists d. auto.
Qed.

Lemma mapd_Inv F U T' : NoDup (map fst U) -> (forall c d, In (c, d) U -> good (F c d) /\ cs_total (F c d) = T') -> Inv (mapd F U) T'.
Proof.
  intros Hnd H. split; [rewrite mapd_keys; exact Hnd|]. apply Forall_forall. intros [c d'] Hin.
  destruct (mapd_In F U c d' Hin) as (d & HinU & ->). cbn [snd]. exact (H c d HinU).
Qed.

Lemma own_remove_mapd U r : own_remove U r = mapd (fun _ d => adj d (med_of d) (- r)) U.
Proof. reflexivity. Qed.

Lemma NOOP_mapd F F' (g : C -> cscores -> Q) U T' thr n r :
  NoDup (map fst U) -> (0 < T')%Z -> (1 <= n < length U)%nat ->
  (forall c d, In (c, d) U -> good (F c d) /\ cs_total (F c d) = T' /\ is_med (F c d) (g c d) /\ (g c d == thr)%Q /\
                              adj (F c d) (g c d) (- (1)) = F' c d) ->
  MJ (mapd F' U) n r -> MJ (mapd F U) n r.
Proof.
  intros Hnd HT Hn Hall H.
  assert (Hmed : forall c d, In (c, d) U -> (med_of (F c d) == g c d)%Q).
  { intros c d Hin. destruct (Hall c d Hin) as (A1 & A2 & A3 & _). exact (med_of_char _ T' _ A1 A2 HT A3). }
  apply (NOOP (mapd F U) T' thr n r).
  - apply mapd_Inv; [exact Hnd|]. intros c d Hin. destruct (Hall c d Hin) as (A1 & A2 & _). auto.
  - exact HT.
  - intros c d' Hin. destruct (mapd_In F U c d' Hin) as (d & HinU & ->). rewrite (Hmed c d HinU).
    destruct (Hall c d HinU) as (_ & _ & _ & A4 & _). exact A4.
  - rewrite mapd_length. exact Hn.
  - rewrite own_remove_mapd, mapd_mapd. rewrite (mapd_ext_in _ F' U); [exact H|].
    intros c d Hin. rewrite (adj_compat _ _ _ _ (Hmed c d Hin)). destruct (Hall c d Hin) as (_ & _ & _ & _ & A5). exact A5.
Qed.

Lemma gnb_mapd F U n : (forall c d, In (c, d) U -> (med_of (F c d) == med_of d)%Q) -> gnb (canon (mapd F U)) n = gnb (canon U) n.
Proof.
  intros H. unfold gnb.
  apply (get_n_best_rel Qle_bool Qle_bool (fun a a' : Q => (a' == a)%Q)); [intros a a' b b' Ha Hb; apply Qle_bool_Qeq; assumption|].
  unfold canon, mapd. rewrite map_map. cbn [fst snd]. induction U as [|[c d] U IH]; [constructor|].
  cbn [map fst snd]. constructor; [split; [reflexivity|apply (H c d); left; reflexivity]|]. apply IH. intros c' d' Hin. apply H. right. exact Hin.
Qed.

Lemma Inv_nonneg U T : Inv U T -> U <> [] -> (0 <= T)%Z.
Proof.
  intros [_ H] Hne. destruct U as [|[c d] U]; [congruence|]. inversion H as [|? ? [[_ Hnn] Ht] _]; subst. cbn [snd] in *.
  rewrite cs_total_sumf. apply sumf_nonneg, Hnn.
Qed.

(* the answer of one step on a candidate-wise image with the same medians (up to ==) *)
Lemma mx_mapd F U T T' : Inv U T -> Inv (mapd F U) T' -> ((0 < T)%Z <-> (0 < T')%Z) -> (mx (mapd F U) <=? 0)%Z = (mx U <=? 0)%Z.
Proof.
  intros HI HI' Hiff. destruct U as [|x U]; [reflexivity|].
  pose proof (Inv_nonneg _ _ HI ltac:(discriminate)) as H0. pose proof (Inv_nonneg _ _ HI' ltac:(discriminate)) as H0'.
  rewrite (mx_Inv _ _ HI H0), (mx_Inv _ _ HI' H0'). cbn [mapd map].
  destruct (T <=? 0)%Z eqn:E1, (T' <=? 0)%Z eqn:E2; try reflexivity.
  - apply Z.leb_le in E1. apply Z.leb_gt in E2. lia.
  - apply Z.leb_gt in E1. apply Z.leb_le in E2. lia.
Qed.

Lemma aggregate_canon U T medians : Inv U T -> (mx U <=? 0)%Z = false -> aggregate FMedianLow U = inl medians ->
  medians = canon U /\ (0 < T)%Z.
Proof.
  intros HI Hm Ha. destruct U as [|x U]; [discriminate|].
  pose proof (Inv_nonneg _ _ HI ltac:(discriminate)) as H0. destruct (proj1 (mx_pos _ _ HI H0) Hm) as [_ HT].
  rewrite (aggregate_Inv _ _ HI HT) in Ha. injection Ha as <-. auto.
Qed.

Section Follow.
  Variable k : Z.
  Hypothesis Hk : (0 < k)%Z.

  Definition Fsc : C -> cscores -> cscores := fun _ d => scalec k d.
  Definition Fp1 (hs : C -> Q) : C -> cscores -> cscores := fun c d => adj (scalec k d) (hs c) (k - 1).
  Definition p1_ok (hs : C -> Q) (h0 : Q) (U : state) (T : Z) : Prop :=
    forall c d, In (c, d) U ->
      In (hs c) (map fst d) /\ (hs c == h0)%Q /\ (2 * below d (hs c) <= T - 1)%Z /\ (T - 1 <= 2 * atmost d (hs c))%Z.

  Lemma crel_scalec d : crel k d (scalec k d).
  Proof.
    induction d as [|[s n] d IH]; [constructor|]. cbn [scalec map fst snd]. constructor; [|exact IH].
    split; [reflexivity|]. cbn [snd]. unfold zsc. reflexivity.
  Qed.

  Lemma med_of_scalec d : med_of (scalec k d) = med_of d.
  Proof. unfold med_of. rewrite (aggregate_one_eq k Hk FMedianLow d (scalec k d) ltac:(discriminate) (crel_scalec d)). reflexivity. Qed.

  (* what holds of one candidate of a balanced state *)
  Lemma cand_facts U T c d : Inv U T -> (0 < T)%Z -> In (c, d) U ->
    good d /\ cs_total d = T /\ In (med_of d) (map fst d) /\ is_med d (med_of d).
  Proof.
    intros [_ H] HT Hin. rewrite Forall_forall in H. destruct (H _ Hin) as [Hg Ht]. cbn [snd] in *.
    destruct (med_of_spec d T Hg Ht HT) as (_ & A & B). auto.
  Qed.

  Lemma stairZ_top d m h : stairZ k d m h (k - 1) k = adj (scalec k d) h (k - 1).
  Proof.
    unfold stairZ, stairB. rewrite scalec_adj, adj_adj_comm, adj_adj_same.
    replace (k * - (1) + k)%Z with 0%Z by lia. rewrite adj_zero. reflexivity.
  Qed.

  Lemma stairZ_zero d m h : stairZ k d m h 0 0 = scalec k (adj d m (- (1))).
  Proof. unfold stairZ, stairB. rewrite !adj_zero. reflexivity. Qed.

  Lemma stair_total d T m h x y : good d -> cs_total d = T -> In m (map fst d) -> In h (map fst d) ->
    cs_total (stairZ k d m h x y) = (k * (T - 1) + x + y)%Z.
  Proof.
    intros [Hkd _] Ht Hm Hh. unfold stairZ, stairB.
    assert (K0 : keys_nd (map fst (scalec k (adj d m (- (1)))))) by (rewrite scalec_keys, adj_keys; exact Hkd).
    rewrite total_adj, total_adj, total_scalec, total_adj, Ht; try lia; try assumption.
    - apply has_In, Hm.
    - apply has_In. rewrite scalec_keys, adj_keys. exact Hh.
    - rewrite adj_keys. exact K0.
    - apply has_In. rewrite adj_keys, scalec_keys, adj_keys. exact Hm.
  Qed.

  Lemma SC_Inv U T : Inv U T -> Inv (mapd Fsc U) (k * T).
  Proof.
    intros [Hnd H]. apply mapd_Inv; [exact Hnd|]. intros c d Hin. rewrite Forall_forall in H. destruct (H _ Hin) as [Hg Ht]. cbn [snd] in *.
    unfold Fsc. split; [apply good_scalec; [lia|exact Hg]|rewrite total_scalec, Ht; reflexivity].
  Qed.

  Lemma P1_cand hs h0 U T c d : Inv U T -> (0 < T)%Z -> Z.odd T = true -> p1_ok hs h0 U T -> In (c, d) U ->
    good (Fp1 hs c d) /\ cs_total (Fp1 hs c d) = (k * T + k - 1)%Z /\ is_med (Fp1 hs c d) (med_of d).
  Proof.
    intros HI HT Ho Hok Hin. destruct (cand_facts U T c d HI HT Hin) as (Hg & Ht & Hm & Hmed).
    destruct (Hok c d Hin) as (Hh & _ & Hh1 & Hh2). unfold Fp1. split; [|split].
    - apply good_adj_add; [apply good_scalec; [lia|exact Hg]|rewrite scalec_keys; exact Hh|lia].
    - rewrite (total_sa k d T Hg Ht _ _ Hh). lia.
    - rewrite <- (stairZ_top d (med_of d) (hs c)). replace k with (k - 1 + 1)%Z at 3 by lia.
      apply (stair_med_m k Hk d T (med_of d) Hg Ht Hm Hmed (hs c) Hh Ho Hh1). lia.
  Qed.

  Lemma P1_Inv hs h0 U T : Inv U T -> (0 < T)%Z -> Z.odd T = true -> p1_ok hs h0 U T -> Inv (mapd (Fp1 hs) U) (k * T + k - 1).
  Proof.
    intros HI HT Ho Hok. apply mapd_Inv; [exact (proj1 HI)|]. intros c d Hin.
    destruct (P1_cand hs h0 U T c d HI HT Ho Hok Hin) as (A & B & _). auto.
  Qed.

  Lemma p1_ok_filter hs h0 U T (f : C * cscores -> bool) : p1_ok hs h0 U T -> p1_ok hs h0 (filter f U) T.
  Proof. intros H c d Hin. apply filter_In in Hin. apply H. tauto. Qed.

  (* the simple rules are followed on any candidate-wise image with ==-equal medians *)
  Section Simple.
    Variables (F : C -> cscores -> cscores) (U : state) (T T' : Z).
    Hypothesis HI : Inv U T.
    Hypothesis HI' : Inv (mapd F U) T'.
    Hypothesis Hiff : (0 < T)%Z <-> (0 < T')%Z.
    Hypothesis Hmed : (0 < T)%Z -> forall c d, In (c, d) U -> (med_of (F c d) == med_of d)%Q.

    Lemma simple_mx : (mx (mapd F U) <=? 0)%Z = (mx U <=? 0)%Z.
    Proof. apply (mx_mapd F U T T' HI HI' Hiff). Qed.

    Lemma simple_agg : (mx U <=? 0)%Z = false ->
      (0 < T)%Z /\ aggregate FMedianLow U = inl (canon U) /\ aggregate FMedianLow (mapd F U) = inl (canon (mapd F U)) /\
      forall n, gnb (canon (mapd F U)) n = gnb (canon U) n.
    Proof.
      intros Hm. destruct U as [|x U'] eqn:EU; [discriminate|]. rewrite <- EU in *.
      assert (Hne : U <> []) by (rewrite EU; discriminate).
      destruct (proj1 (mx_pos U T HI (Inv_nonneg U T HI Hne)) Hm) as [_ HT].
      split; [exact HT|]. split; [apply (aggregate_Inv U T HI HT)|]. split; [apply (aggregate_Inv _ T' HI'); tauto|].
      intros n. apply gnb_mapd. exact (Hmed HT).
    Qed.
  End Simple.

  Lemma rest_of_mapd F U best : rest_of (mapd F U) best = mapd F (rest_of U best).
  Proof. unfold rest_of. apply (mapd_filter F (fun c => negb (cmem c (wc_of best)))). Qed.

  Lemma mj_level_mapd F U tied : mj_level (mapd F U) tied = mapd F (mj_level U tied).
  Proof. unfold mj_level. apply (mapd_filter F (fun c => cmem c tied)). Qed.

  (* the first removal on the image of a tied state *)
  Lemma tie_image F U T T' n r :
    Inv U T -> Inv (mapd F U) T' -> ((0 < T)%Z <-> (0 < T')%Z) ->
    (forall c d, In (c, d) U -> (med_of (F c d) == med_of d)%Q) ->
    (mx U <=? 0)%Z = false ->
    Nat.eqb (count_tie (gnb (canon U) n)) 0 = false -> Nat.ltb 0 (untied_of (gnb (canon U) n)) = false ->
    MJ (mapd (fun c d => adj (F c d) (med_of d) (- (1))) (mj_level U (tied_of (gnb (canon U) n)))) n r ->
    MJ (mapd F U) n r.
  Proof.
    intros HI HI' Hiff Hmed Hm Hc Hu H.
    destruct (simple_agg F U T T' HI HI' Hiff (fun _ => Hmed) Hm) as (HT & Ha & Ha' & Hg).
    assert (Hm' : (mx (mapd F U) <=? 0)%Z = false) by (rewrite (simple_mx F U T T' HI HI' Hiff); exact Hm).
    apply (MJ_tie (mapd F U) n (canon (mapd F U)) r Hm' Ha'); rewrite ?Hg; try assumption.
    pose proof (mj_remove_own (mapd F U) T' (fun cd : C * cscores => cmem (fst cd) (tied_of (gnb (canon U) n))) 1 HI' ltac:(tauto)) as E.
    change (mj_remove (mj_level (mapd F U) (tied_of (gnb (canon U) n))) (canon (mapd F U)) 1
            = own_remove (mj_level (mapd F U) (tied_of (gnb (canon U) n))) 1) in E.
    rewrite E, mj_level_mapd, own_remove_mapd, mapd_mapd.
    rewrite (mapd_ext_in _ (fun c d => adj (F c d) (med_of d) (- (1)))); [exact H|].
    intros c d Hin. unfold mj_level in Hin. apply filter_In in Hin. apply adj_compat. apply Hmed. tauto.
  Qed.

  Lemma follow_done F U T T' n : Inv U T -> Inv (mapd F U) T' -> ((0 < T)%Z <-> (0 < T')%Z) ->
    (forall c d, In (c, d) U -> (med_of (F c d) == med_of d)%Q) -> (mx U <=? 0)%Z = false ->
    Nat.eqb (count_tie (gnb (canon U) n)) 0 = true -> MJ (mapd F U) n (inl (gnb (canon U) n)).
  Proof.
    intros HI HI' Hiff Hmed Hm Hc.
    destruct (simple_agg F U T T' HI HI' Hiff (fun _ => Hmed) Hm) as (HT & Ha & Ha' & Hg).
    assert (Hm' : (mx (mapd F U) <=? 0)%Z = false) by (rewrite (simple_mx F U T T' HI HI' Hiff); exact Hm).
    rewrite <- (Hg n). apply (MJ_done (mapd F U) n (canon (mapd F U)) Hm' Ha'). rewrite Hg. exact Hc.
  Qed.

  Lemma follow_win F U T T' n r : Inv U T -> Inv (mapd F U) T' -> ((0 < T)%Z <-> (0 < T')%Z) ->
    (forall c d, In (c, d) U -> (med_of (F c d) == med_of d)%Q) -> (mx U <=? 0)%Z = false ->
    Nat.eqb (count_tie (gnb (canon U) n)) 0 = false -> Nat.ltb 0 (untied_of (gnb (canon U) n)) = true ->
    MJ (mapd F (rest_of U (gnb (canon U) n))) (n - untied_of (gnb (canon U) n)) r ->
    MJ (mapd F U) n (match r with inl r => inl (winners_of (gnb (canon U) n) ++ r) | inr e => inr e end).
  Proof.
    intros HI HI' Hiff Hmed Hm Hc Hu H.
    destruct (simple_agg F U T T' HI HI' Hiff (fun _ => Hmed) Hm) as (HT & Ha & Ha' & Hg).
    assert (Hm' : (mx (mapd F U) <=? 0)%Z = false) by (rewrite (simple_mx F U T T' HI HI' Hiff); exact Hm).
    rewrite <- (Hg n). apply (MJ_win (mapd F U) n (canon (mapd F U)) r Hm' Ha'); rewrite ?Hg; try assumption.
    rewrite rest_of_mapd. exact H.
  Qed.

  Lemma iff_sync T : (0 < T)%Z <-> (0 < k * T)%Z.
  Proof. split; nia. Qed.

  Lemma iff_p1 T : Z.odd T = true -> (0 <= T)%Z -> ((0 < T)%Z <-> (0 < k * T + k - 1)%Z).
  Proof. intros Ho H0. rewrite Z.odd_spec in Ho. destruct Ho as [t Et]. split; nia. Qed.

  Lemma sub_in U tied c d : In (c, d) (mj_level U tied) -> In (c, d) U.
  Proof. unfold mj_level. intros H. apply filter_In in H. tauto. Qed.

  Theorem MJ_follow U n r : MJ U n r -> forall T, Inv U T ->
    MJ (mapd Fsc U) n r /\
    (forall hs h0, Z.odd T = true -> p1_ok hs h0 U T -> MJ (mapd (Fp1 hs) U) n r).
  Proof.
    induction 1 as [U n Hm|U n e Hm Ha|U n med Hm Ha Hc|U n med r Hm Ha Hc Hu H IH|U n med r Hm Ha Hc Hu H IH]; intros T HI.
    - (* nobody has a score left *)
      split.
      + apply MJ_vse. rewrite (simple_mx Fsc U T (k * T) HI (SC_Inv U T HI) (iff_sync T)). exact Hm.
      + intros hs h0 Ho Hok. destruct U as [|x U']; [apply MJ_vse; reflexivity|]. exfalso.
        pose proof (Inv_nonneg _ _ HI ltac:(discriminate)) as H0. rewrite (mx_Inv _ _ HI H0) in Hm. apply Z.leb_le in Hm.
        rewrite Z.odd_spec in Ho. destruct Ho as [t Et]. lia.
    - exfalso. destruct U as [|x U']; [discriminate|].
      pose proof (Inv_nonneg _ _ HI ltac:(discriminate)) as H0. destruct (proj1 (mx_pos _ _ HI H0) Hm) as [_ HT].
      rewrite (aggregate_Inv _ _ HI HT) in Ha. discriminate.
    - destruct (aggregate_canon U T med HI Hm Ha) as [-> HT]. split.
      + apply (follow_done Fsc U T (k * T) n HI (SC_Inv U T HI) (iff_sync T)); try assumption.
        intros c d _. unfold Fsc. rewrite med_of_scalec. reflexivity.
      + intros hs h0 Ho Hok. apply (follow_done (Fp1 hs) U T (k * T + k - 1) n HI (P1_Inv hs h0 U T HI HT Ho Hok) (iff_p1 T Ho ltac:(lia))); try assumption.
        intros c d Hin. destruct (P1_cand hs h0 U T c d HI HT Ho Hok Hin) as (A & B & Cm).
        apply (med_of_char _ (k * T + k - 1)); [exact A|exact B| |exact Cm]. apply (iff_p1 T Ho ltac:(lia)). exact HT.
    - destruct (aggregate_canon U T med HI Hm Ha) as [-> HT].
      destruct (IH T (Inv_filter _ U T HI)) as [IHs IHp]. split.
      + apply (follow_win Fsc U T (k * T) n r HI (SC_Inv U T HI) (iff_sync T)); try assumption.
        intros c d _. unfold Fsc. rewrite med_of_scalec. reflexivity.
      + intros hs h0 Ho Hok. apply (follow_win (Fp1 hs) U T (k * T + k - 1) n r HI (P1_Inv hs h0 U T HI HT Ho Hok) (iff_p1 T Ho ltac:(lia))); try assumption.
        * intros c d Hin. destruct (P1_cand hs h0 U T c d HI HT Ho Hok Hin) as (A & B & Cm).
          apply (med_of_char _ (k * T + k - 1)); [exact A|exact B| |exact Cm]. apply (iff_p1 T Ho ltac:(lia)). exact HT.
        * apply (IHp hs h0 Ho). apply p1_ok_filter, Hok.
    - (* a tie in the first place: one removal in the original run, k in the k-fold run *)
      destruct (aggregate_canon U T med HI Hm Ha) as [-> HT].
      destruct (block_facts U T n HI HT Hc Hu) as (thr & Hn & Hlev & HI1 & _ & _). fold (canon U) in Hn, Hlev, HI1.
      set (sub1 := mj_level U (tied_of (gnb (canon U) n))) in *.
      pose proof (mj_remove_own U T (fun cd : C * cscores => cmem (fst cd) (tied_of (gnb (canon U) n))) 1 HI HT) as E.
      change (mj_remove sub1 (canon U) 1 = own_remove sub1 1) in E. rewrite E in H, IH. clear E.
      assert (Hcf : forall c d, In (c, d) sub1 -> good d /\ cs_total d = T /\ In (med_of d) (map fst d) /\ is_med d (med_of d) /\ (med_of d == thr)%Q).
      { intros c d Hin. destruct (cand_facts sub1 T c d HI1 HT Hin) as (A1 & A2 & A3 & A4). split; [exact A1|]. split; [exact A2|]. split; [exact A3|]. split; [exact A4|exact (Hlev c d Hin)]. }
      assert (HIU1 : Inv (own_remove sub1 1) (T - 1)).
      { apply own_remove_Inv; [exact HI1|exact HT|]. intros c d Hin. destruct (Hcf c d Hin) as (A1 & _ & _ & A4 & _). exact (get0_med_pos d _ A1 A4). }
      destruct (IH (T - 1)%Z HIU1) as [IHs IHp]. clear IH.
      assert (Hnd1 : NoDup (map fst sub1)) by exact (proj1 HI1).
      (* the k-fold image of the state after the original removal *)
      assert (IHs' : MJ (mapd (fun c d => adj (scalec k d) (med_of d) (- k)) sub1) n r).
      { rewrite own_remove_mapd, mapd_mapd in IHs. rewrite (mapd_ext_in _ (fun c d => adj (scalec k d) (med_of d) (- k))) in IHs; [exact IHs|].
        intros c d _. unfold Fsc. rewrite scalec_adj. f_equal. lia. }
      split.
      + apply (tie_image Fsc U T (k * T) n r HI (SC_Inv U T HI) (iff_sync T)); try assumption.
        { intros c d _. unfold Fsc. rewrite med_of_scalec. reflexivity. }
        fold sub1. unfold Fsc. destruct (Z.odd T) eqn:Ho.
        * (* odd total: k removals of the same median *)
          assert (Hchain : forall i : nat, (Z.of_nat i < k)%Z ->
                    MJ (mapd (fun c d => adj (scalec k d) (med_of d) (- (k - Z.of_nat i))) sub1) n r).
          { induction i as [|i IHi]; intros Hi; [rewrite Z.sub_0_r; exact IHs'|].
            specialize (IHi ltac:(lia)). set (j := (k - Z.of_nat (S i))%Z). assert (Hj : (1 <= j < k)%Z) by lia.
            replace (k - Z.of_nat i)%Z with (j + 1)%Z in IHi by lia.
            apply (NOOP_mapd _ (fun c d => adj (scalec k d) (med_of d) (- (j + 1))) (fun c d => med_of d) sub1 (k * T - j) thr n r Hnd1);
              [nia|exact Hn| |exact IHi].
            intros c d Hin. destruct (Hcf c d Hin) as (A1 & A2 & A3 & A4 & A5).
            split; [apply (sync_good k Hk d _ A1 A3 A4); lia|]. split; [rewrite (total_sa k d T A1 A2 _ _ A3); lia|].
            split; [apply (sync_odd_med k Hk d T _ A1 A2 A3 A4 j Ho); lia|]. split; [exact A5|].
            rewrite adj_adj_same. f_equal. lia. }
          specialize (Hchain (Z.to_nat (k - 1)) ltac:(lia)). rewrite Z2Nat.id in Hchain by lia.
          replace (k - (k - 1))%Z with 1%Z in Hchain by lia. exact Hchain.
        * (* even total: the k-fold run is now k - 1 scores ahead *)
          assert (Hev : exists t, T = (2 * t)%Z).
          { rewrite <- Z.negb_even in Ho. apply negb_false_iff in Ho. apply Z.even_spec in Ho. exact Ho. }
          destruct Hev as [t Et].
          assert (Ho1 : Z.odd (T - 1) = true) by (apply Z.odd_spec; exists (t - 1)%Z; lia).
          set (hs := fun c : C => dget_or (canon U) c 0%Q).
          assert (Hhs : forall c d, In (c, d) sub1 -> hs c = med_of d).
          { intros c d Hin. unfold hs, canon. apply (dget_or_own U c d (proj1 HI)). exact (sub_in U _ c d Hin). }
          assert (Hok1 : p1_ok hs thr (own_remove sub1 1) (T - 1)).
          { intros c d' Hin. rewrite own_remove_mapd in Hin. destruct (mapd_In _ sub1 c d' Hin) as (d & HinU & ->).
            destruct (Hcf c d HinU) as (A1 & A2 & A3 & [M1 M2] & A5). rewrite (Hhs c d HinU). rewrite A2 in M1, M2.
            split; [rewrite adj_keys; exact A3|]. split; [exact A5|].
            rewrite (below_adj d _ _ _ (proj1 A1) (has_In d _ A3)), (atmost_adj d _ _ _ (proj1 A1) (has_In d _ A3)), qlt_irrefl, Qle_bool_refl. lia. }
          specialize (IHp hs thr Ho1 Hok1). rewrite own_remove_mapd, mapd_mapd in IHp.
          rewrite (mapd_ext_in _ (fun c d => adj (scalec k d) (med_of d) (- (1)))) in IHp; [exact IHp|].
          intros c d Hin. unfold Fp1. rewrite (Hhs c d Hin), scalec_adj, adj_adj_same. f_equal. lia.
      + intros hs h0 Ho Hok.
        assert (H0T : (0 <= T)%Z) by lia.
        apply (tie_image (Fp1 hs) U T (k * T + k - 1) n r HI (P1_Inv hs h0 U T HI HT Ho Hok) (iff_p1 T Ho H0T)); try assumption.
        { intros c d Hin. destruct (P1_cand hs h0 U T c d HI HT Ho Hok Hin) as (A & B & Cm).
          apply (med_of_char _ (k * T + k - 1)); [exact A|exact B| |exact Cm]. apply (iff_p1 T Ho H0T). exact HT. }
        fold sub1.
        assert (Hh : forall c d, In (c, d) sub1 ->
                  In (hs c) (map fst d) /\ (hs c == h0)%Q /\ (2 * below d (hs c) <= T - 1)%Z /\ (T - 1 <= 2 * atmost d (hs c))%Z).
        { intros c d Hin. apply Hok. exact (sub_in U _ c d Hin). }
        (* the staircase: from  k * (d - m)  up to  k * (d - m) + (k-1) h + (k-1) m *)
        assert (Hstair : forall i : nat, (Z.of_nat i <= k - 1)%Z ->
                  MJ (mapd (fun c d => stairZ k d (med_of d) (hs c) (Z.of_nat i) (Z.of_nat i)) sub1) n r).
        { induction i as [|i IHi]; intros Hi.
          - rewrite (mapd_ext_in _ (fun c d => adj (scalec k d) (med_of d) (- k))); [exact IHs'|].
            intros c d _. cbn [Z.of_nat]. rewrite stairZ_zero, scalec_adj. f_equal. lia.
          - specialize (IHi ltac:(lia)). set (x := Z.of_nat i) in *. replace (Z.of_nat (S i)) with (x + 1)%Z by lia.
            assert (Hx : (0 <= x <= k - 2)%Z) by lia.
            assert (Hmid : MJ (mapd (fun c d => stairZ k d (med_of d) (hs c) x (x + 1)) sub1) n r).
            { apply (NOOP_mapd _ (fun c d => stairZ k d (med_of d) (hs c) x x) (fun c d => med_of d) sub1 (k * (T - 1) + x + (x + 1)) thr n r Hnd1);
                [nia|exact Hn| |exact IHi].
              intros c d Hin. destruct (Hcf c d Hin) as (A1 & A2 & A3 & A4 & A5). destruct (Hh c d Hin) as (B1 & B2 & B3 & B4).
              split; [apply (stair_good k Hk d _ A1 A3 A4 _ B1); lia|]. split; [apply (stair_total d T _ _ x (x + 1) A1 A2 A3 B1)|].
              split; [apply (stair_med_m k Hk d T _ A1 A2 A3 A4 _ B1 Ho B3); lia|]. split; [exact A5|].
              unfold stairZ. rewrite adj_adj_same. f_equal. lia. }
            apply (NOOP_mapd _ (fun c d => stairZ k d (med_of d) (hs c) x (x + 1)) (fun c d => hs c) sub1 (k * (T - 1) + (x + 1) + (x + 1)) h0 n r Hnd1);
              [nia|exact Hn| |exact Hmid].
            intros c d Hin. destruct (Hcf c d Hin) as (A1 & A2 & A3 & A4 & A5). destruct (Hh c d Hin) as (B1 & B2 & B3 & B4).
            split; [apply (stair_good k Hk d _ A1 A3 A4 _ B1); lia|]. split; [apply (stair_total d T _ _ (x + 1) (x + 1) A1 A2 A3 B1)|].
            split; [apply (stair_med_h k Hk d T _ A1 A2 A3 A4 _ B1 Ho B3 B4); lia|]. split; [exact B2|].
            unfold stairZ. rewrite (adj_adj_comm _ (med_of d) (x + 1) (hs c) (- (1))), adj_adj_same. f_equal. f_equal. lia. }
        specialize (Hstair (Z.to_nat (k - 1)) ltac:(lia)). rewrite Z2Nat.id in Hstair by lia.
        rewrite (mapd_ext_in _ (fun c d => stairZ k d (med_of d) (hs c) (k - 1) (k - 1))); [exact Hstair|].
        intros c d _. unfold Fp1. rewrite <- (stairZ_top d (med_of d) (hs c)). unfold stairZ. rewrite adj_adj_same. f_equal.
  Qed.
End Follow.

(* ================================================================ mj_default on k-fold balanced dictionaries *)
Section Glue.
  Variable k : Z.
  Hypothesis Hk : (0 < k)%Z.

  Lemma crel_eq d d' : crel k d d' -> d' = scalec k d.
  Proof.
    intros H. induction H as [|[s n] [s' n'] d d' [Hs Hn] _ IH]; [reflexivity|]. cbn [fst snd] in *. unfold zsc in Hn. subst s' n'.
    cbn [scalec map fst snd]. fold (scalec k d). rewrite IH. reflexivity.
  Qed.

  Lemma screl_eq sub sub' : screl k sub sub' -> sub' = mapd (Fsc k) sub.
  Proof.
    intros H. induction H as [|[c d] [c' d'] l l' [Hc Hd] _ IH]; [reflexivity|]. cbn [fst snd] in *. subst c'.
    cbn [mapd map fst snd]. fold (mapd (Fsc k) l). rewrite IH. unfold Fsc at 1. rewrite (crel_eq d d' Hd). reflexivity.
  Qed.

  Lemma sum_totals U T : Inv U T ->
    fold_left Z.add (map (fun cd : C * cscores => cs_total (snd cd)) U) 0%Z = (Z.of_nat (length U) * T)%Z.
  Proof.
    intros [_ H]. induction H as [|x U [_ Hx] _ IH]; [reflexivity|]. cbn [map fold_left length]. rewrite fold_add_shiftZ, IH, Hx. lia.
  Qed.

  Lemma mj_fuel_enough U T : Inv U T -> U <> [] -> (0 < T)%Z -> (Z.to_nat T + length U < mj_fuel U)%nat.
  Proof.
    intros HI Hne HT. unfold mj_fuel. rewrite (sum_totals U T HI).
    destruct U as [|x U']; [congruence|]. cbn [length]. set (s := length U').
    rewrite Nat2Z.inj_succ. rewrite Z2Nat.inj_mul by lia. rewrite Z2Nat.inj_succ, Nat2Z.id by lia.
    assert (1 <= Z.to_nat T)%nat by lia. nia.
  Qed.

  Theorem mj_default_balanced U T n : Inv U T ->
    mj_default (mj_fuel (mapd (Fsc k) U)) (mapd (Fsc k) U) n = mj_default (mj_fuel U) U n.
  Proof.
    intros HI. pose proof (SC_Inv k Hk U T HI) as HI'.
    pose proof (simple_mx (Fsc k) U T (k * T) HI HI' (iff_sync k Hk T)) as Emx.
    destruct (mx U <=? 0)%Z eqn:Hm.
    - unfold mj_fuel. rewrite !(Nat.add_comm _ 2). cbn [Nat.add]. rewrite !mj_default_unfold, Emx, Hm. reflexivity.
    - assert (Hne : U <> []) by (intros ->; discriminate).
      destruct (proj1 (mx_pos U T HI (Inv_nonneg U T HI Hne)) Hm) as [_ HT].
      assert (Hne' : mapd (Fsc k) U <> []) by (destruct U; [congruence|discriminate]).
      assert (HT' : (0 < k * T)%Z) by nia.
      pose proof (mj_default_MJ _ U n T HI ltac:(lia) (mj_fuel_enough U T HI Hne HT)) as M1.
      pose proof (mj_default_MJ _ (mapd (Fsc k) U) n (k * T) HI' ltac:(lia) (mj_fuel_enough _ _ HI' Hne' HT')) as M2.
      destruct (MJ_follow k Hk U n _ M1 T HI) as [M3 _].
      exact (MJ_det _ _ _ M3 _ M2).
  Qed.

  (* majority judgment with the default rule on a profile whose corrected score dictionaries are balanced *)
  Theorem mj_default_scale cf votes n : cfg_ok k cf (sp_total votes) ->
    (forall sc, corrected_scores cf votes = inl sc -> exists T, Inv sc T) ->
    majority_judgment false cf (scale_z k votes) n = majority_judgment false cf votes n.
  Proof.
    intros Hcf Hbal. apply (majority_judgment_rel k Hk false cf votes _ n Hcf (sprel_scale k votes)).
    intros _ sc tied sub' j Esc Hs. destruct (Hbal sc Esc) as [T HI].
    rewrite (screl_eq _ _ Hs). apply (mj_default_balanced _ T). apply Inv_filter, HI.
  Qed.
End Glue.
