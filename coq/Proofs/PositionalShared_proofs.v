(* Monotonicity of the positional (Borda-type) rules on ballots WITH shared ranks (C17).
   1. [additive_sole_winner_diff]: the additive theorem in difference form - ONE ballot is replaced by a ballot on which
      everybody else gains at most what the winner gains (Proofs/Additive_proofs.v [additive_sole_winner] is the special case
      "the winner gains >= 0 >= the others' gains"); needed where a changed ballot raises everybody (modified Borda: a ballot
      that gets one rank longer gives every ranked candidate one point more).
   2. [additive_added_ballot]: a ballot is ADDED on which nobody gets more than the winner; the positional instance
      [positional_added_ballot].
   3. RankedToPositionalVotes.convert (Model/Convert.v [img_positional]: every member of a shared rank gets the score of the
      rank's index, one score per item), the winner w
      (a) on a rank of its own moves up past plain or shared ranks           [positional_move_up_items],
      (b) LEAVES a shared rank for a place of its own above (one item more)  [positional_leave_shared], [.._single],
      (c) is not on the ballot and gets ranked (one item more)               [positional_rank_unranked];
      (b) and (c) compare the score lists of k and of k + 1 ranks: [grow_ok], proved for all six scorers [scorer_grow_ok].
   The hypotheses that are needed, with kernel-checked witnesses on the model (replayed on the implementation):
   no candidate twice on the changed ballot for (b), (c) and the added ballot; a non-negative new score of w for (c) and a
   non-negative top score for the added ballot (Borda with a negative base: [positional_rank_unranked_negative_refuted],
   [positional_added_ballot_negative_refuted]). *)
From Coq Require Import ZArith QArith Qpower List Bool Arith Lia Lqa.
From VL Require Import Prelude.Sx Prelude.PyDict Prelude.GDict Prelude.PyNum Model.GetNBest Model.Convert
     Proofs.GetNBest_proofs Proofs.QOrd Proofs.Convert_proofs Proofs.Dict_proofs Proofs.Additive_proofs Proofs.Scorers_proofs.
Import ListNotations.
Open Scope Q_scope.

(* ------------------------------------------------------------------ 1, 2: additive rules, any key type, any image *)
Section ADDD.
  Context {K : Type}.
  Variable keqb : K -> K -> bool.
  Hypothesis keqb_spec : forall a b, keqb a b = true <-> a = b.
  Context {B : Type}.
  Variable image : B -> list (K * Q).

  Notation conv := (conv keqb).
  Notation coef := (coef keqb).

  (* one ballot replaced; everybody else gains at most what the winner gains *)
  Theorem additive_sole_winner_diff pre post (b b' : B) (w : Q) (kw : K) :
    0 <= w ->
    (forall k, In k (map fst (image b')) -> k = kw \/ In k (map fst (image b))) ->
    In kw (map fst (image b')) ->
    (forall k, k <> kw -> coef (image b') k - coef (image b) k <= coef (image b') kw - coef (image b) kw) ->
    get_n_best Qle_bool (conv image (pre ++ (b, w) :: post)) 1 = [Cand kw] ->
    get_n_best Qle_bool (conv image (pre ++ (b', w) :: post)) 1 = [Cand kw].
  Proof.
    intros Hw Hkeys Hkw Hdiff Hwin.
    set (D := conv image (pre ++ (b, w) :: post)) in *.
    set (D' := conv image (pre ++ (b', w) :: post)).
    pose proof (conv_nodup keqb keqb_spec image (pre ++ (b, w) :: post)) as HndD. fold D in HndD.
    pose proof (conv_nodup keqb keqb_spec image (pre ++ (b', w) :: post)) as HndD'. fold D' in HndD'.
    destruct (get_n_best_1_cand Qle_bool Qle_bool_total Qle_bool_trans D kw [] HndD Hwin)
      as (_ & v & Hin & Hmax).
    assert (Hkw' : In kw (map fst D')).
    { apply (conv_keys keqb keqb_spec). exists (b', w). split; [apply in_or_app; right; left; reflexivity|exact Hkw]. }
    apply in_map_iff in Hkw'. destruct Hkw' as ([kw' v2] & Hf & Hin2). simpl in Hf. subst kw'.
    apply (get_n_best_unique_max Qle_bool Qle_bool_total Qle_bool_trans (Kdec keqb keqb_spec) D' kw v2 HndD' Hin2).
    intros c' v' Hin' Hne.
    assert (HcD : In c' (map fst D)).
    { assert (Hk : In c' (map fst D')) by (apply in_map_iff; exists (c', v'); auto).
      apply (conv_keys keqb keqb_spec) in Hk. destruct Hk as (bw & Hbw & Hk). apply (conv_keys keqb keqb_spec).
      apply in_app_or in Hbw. destruct Hbw as [Hbw|[<-|Hbw]].
      - exists bw. split; [apply in_or_app; left; exact Hbw|exact Hk].
      - simpl in Hk. destruct (Hkeys c' Hk) as [->|Hk2]; [congruence|].
        exists (b, w). split; [apply in_or_app; right; left; reflexivity|exact Hk2].
      - exists bw. split; [apply in_or_app; right; right; exact Hbw|exact Hk]. }
    apply in_map_iff in HcD. destruct HcD as ([c'' vold] & Hf & Hinold). simpl in Hf. subst c''.
    pose proof (Hmax c' vold Hinold Hne) as Hlt. apply qltb_iff in Hlt. apply qltb_iff.
    pose proof (gget_in keqb keqb_spec D c' vold HndD Hinold) as E1. pose proof (gget_in keqb keqb_spec D' c' v' HndD' Hin') as E2.
    pose proof (gget_in keqb keqb_spec D kw v HndD Hin) as E3. pose proof (gget_in keqb keqb_spec D' kw v2 HndD' Hin2) as E4.
    pose proof (conv_value keqb keqb_spec image (pre ++ (b, w) :: post) c') as V1.
    pose proof (conv_value keqb keqb_spec image (pre ++ (b', w) :: post) c') as V2.
    pose proof (conv_value keqb keqb_spec image (pre ++ (b, w) :: post) kw) as V3.
    pose proof (conv_value keqb keqb_spec image (pre ++ (b', w) :: post) kw) as V4.
    fold D in V1, V3. fold D' in V2, V4. rewrite E1 in V1. rewrite E2 in V2. rewrite E3 in V3. rewrite E4 in V4.
    rewrite total_mid in V1, V2, V3, V4. simpl in V1, V2, V3, V4.
    specialize (Hdiff c' Hne).
    assert (M : (coef (image b') c' - coef (image b) c') * w <= (coef (image b') kw - coef (image b) kw) * w).
    { apply Qmult_le_compat_r; assumption. }
    lra.
  Qed.

  (* a ballot with an empty image does not count *)
  Lemma conv_skip pre post (b : B) (w : Q) : image b = [] -> conv image (pre ++ (b, w) :: post) = conv image (pre ++ post).
  Proof. intros H. unfold GDict.conv. rewrite !fold_left_app. cbn [fold_left fst snd]. rewrite H. reflexivity. Qed.

  (* only the image of a ballot counts *)
  Lemma conv_image_ext pre post (b b' : B) (w : Q) : image b = image b' ->
    conv image (pre ++ (b, w) :: post) = conv image (pre ++ (b', w) :: post).
  Proof. intros H. unfold GDict.conv. rewrite !fold_left_app. cbn [fold_left fst snd]. rewrite H. reflexivity. Qed.

  (* a ballot is added; it names no new candidate and gives nobody more than the winner *)
  Theorem additive_added_ballot pre post (b' : B) (w : Q) (kw : K) :
    0 <= w ->
    (forall k, In k (map fst (image b')) -> In k (map fst (conv image (pre ++ post)))) ->
    (forall k, coef (image b') k <= coef (image b') kw) ->
    get_n_best Qle_bool (conv image (pre ++ post)) 1 = [Cand kw] ->
    get_n_best Qle_bool (conv image (pre ++ (b', w) :: post)) 1 = [Cand kw].
  Proof.
    intros Hw Hkeys Hle Hwin.
    set (D := conv image (pre ++ post)) in *.
    set (D' := conv image (pre ++ (b', w) :: post)).
    pose proof (conv_nodup keqb keqb_spec image (pre ++ post)) as HndD. fold D in HndD.
    pose proof (conv_nodup keqb keqb_spec image (pre ++ (b', w) :: post)) as HndD'. fold D' in HndD'.
    destruct (get_n_best_1_cand Qle_bool Qle_bool_total Qle_bool_trans D kw [] HndD Hwin)
      as (_ & v & Hin & Hmax).
    assert (Hsub : forall k, In k (map fst D') -> In k (map fst D)).
    { intros k Hk. apply (conv_keys keqb keqb_spec) in Hk. destruct Hk as (bw & Hbw & Hk).
      apply in_app_or in Hbw. destruct Hbw as [Hbw|[<-|Hbw]].
      - apply (conv_keys keqb keqb_spec). exists bw. split; [apply in_or_app; left; exact Hbw|exact Hk].
      - apply Hkeys. exact Hk.
      - apply (conv_keys keqb keqb_spec). exists bw. split; [apply in_or_app; right; exact Hbw|exact Hk]. }
    assert (Hkw' : In kw (map fst D')).
    { assert (Hk : In kw (map fst D)) by (apply in_map_iff; exists (kw, v); auto).
      apply (conv_keys keqb keqb_spec) in Hk. destruct Hk as (bw & Hbw & Hk). apply (conv_keys keqb keqb_spec).
      exists bw. split; [|exact Hk]. apply in_app_or in Hbw. apply in_or_app. destruct Hbw as [Hbw|Hbw]; [left; exact Hbw|right; right; exact Hbw]. }
    apply in_map_iff in Hkw'. destruct Hkw' as ([kw' v2] & Hf & Hin2). simpl in Hf. subst kw'.
    apply (get_n_best_unique_max Qle_bool Qle_bool_total Qle_bool_trans (Kdec keqb keqb_spec) D' kw v2 HndD' Hin2).
    intros c' v' Hin' Hne.
    assert (HcD : In c' (map fst D)) by (apply Hsub, in_map_iff; exists (c', v'); auto).
    apply in_map_iff in HcD. destruct HcD as ([c'' vold] & Hf & Hinold). simpl in Hf. subst c''.
    pose proof (Hmax c' vold Hinold Hne) as Hlt. apply qltb_iff in Hlt. apply qltb_iff.
    pose proof (gget_in keqb keqb_spec D c' vold HndD Hinold) as E1. pose proof (gget_in keqb keqb_spec D' c' v' HndD' Hin') as E2.
    pose proof (gget_in keqb keqb_spec D kw v HndD Hin) as E3. pose proof (gget_in keqb keqb_spec D' kw v2 HndD' Hin2) as E4.
    pose proof (conv_value keqb keqb_spec image (pre ++ post) c') as V1.
    pose proof (conv_value keqb keqb_spec image (pre ++ (b', w) :: post) c') as V2.
    pose proof (conv_value keqb keqb_spec image (pre ++ post) kw) as V3.
    pose proof (conv_value keqb keqb_spec image (pre ++ (b', w) :: post) kw) as V4.
    fold D in V1, V3. fold D' in V2, V4. rewrite E1 in V1. rewrite E2 in V2. rewrite E3 in V3. rewrite E4 in V4.
    rewrite total_mid in V2, V4. rewrite (total_app keqb image) in V1, V3. simpl in V2, V4.
    assert (M : coef (image b') c' * w <= coef (image b') kw * w).
    { apply Qmult_le_compat_r; [apply Hle|exact Hw]. }
    lra.
  Qed.
End ADDD.

(* ------------------------------------------------------------------ the positional image as a weighted sum *)
(* the image of a ballot [r] under the score list [sc] (Model/Convert.v img_positional) *)
Definition pimg (r : ranked) (sc : list Q) : list (sx * Q) :=
  flat_map (fun isc : item * Q => map (fun c => (kc c, snd isc)) (members (fst isc))) (combine r sc).

Lemma pos_img_some s n r sc : rank_scores s n (length r) = Some sc -> pos_img s n r = pimg r sc.
Proof. intros H. unfold pos_img, img_positional. rewrite H. reflexivity. Qed.

Lemma pos_img_none s n r : rank_scores s n (length r) = None -> pos_img s n r = [].
Proof. intros H. unfold pos_img, img_positional. rewrite H. reflexivity. Qed.

(* number of occurrences *)
Fixpoint occ (c : C) (l : list C) : Q :=
  match l with [] => 0 | x :: t => (if Pos.eqb c x then 1 else 0) + occ c t end.

Lemma occ_nonneg c l : 0 <= occ c l.
Proof. induction l as [|x t IH]; cbn [occ]; [lra|]. destruct (Pos.eqb c x); lra. Qed.

Lemma occ_app c a b : occ c (a ++ b) == occ c a + occ c b.
Proof. induction a as [|x t IH]; cbn [occ app]; [ring|]. rewrite IH. ring. Qed.

Lemma occ_absent c l : ~ In c l -> occ c l == 0.
Proof.
  induction l as [|x t IH]; cbn [occ]; intros H; [reflexivity|].
  destruct (Pos.eqb c x) eqn:E; [apply Pos.eqb_eq in E; subst; exfalso; apply H; left; reflexivity|].
  rewrite IH by (intros Hin; apply H; right; exact Hin). ring.
Qed.

Lemma occ_nodup c l : NoDup l -> occ c l <= 1.
Proof.
  induction 1 as [|x t Hx _ IH]; cbn [occ]; [lra|].
  destruct (Pos.eqb c x) eqn:E; [|lra]. apply Pos.eqb_eq in E. subst x. rewrite (occ_absent c t Hx). lra.
Qed.

Lemma occ_self c : occ c [c] == 1.
Proof. cbn [occ]. rewrite Pos.eqb_refl. ring. Qed.

Lemma occ_other c w : c <> w -> occ c [w] == 0.
Proof. intros H. apply occ_absent. intros [E|[]]. congruence. Qed.

Lemma sx_eqb_kc a b : sx_eqb (kc a) (kc b) = Pos.eqb a b.
Proof. reflexivity. Qed.

Lemma coef_members c q l : coef sx_eqb (map (fun c0 : C => (kc c0, q)) l) (kc c) == occ c l * q.
Proof.
  induction l as [|x t IH]; cbn [map occ]; [cbn; ring|]. rewrite coef_cons, IH, sx_eqb_kc.
  destruct (Pos.eqb c x); ring.
Qed.

(* sum over the items of r of (occurrences of c in the item) * (score at the item's index, counted from off) *)
Fixpoint wsum (f : nat -> Q) (c : C) (r : ranked) (off : nat) : Q :=
  match r with [] => 0 | i :: t => occ c (members i) * f off + wsum f c t (S off) end.

Lemma wsum_shift f c r : forall off, wsum f c r (S off) = wsum (fun i => f (S i)) c r off.
Proof. induction r as [|i t IH]; intros off; cbn [wsum]; [reflexivity|]. rewrite IH. reflexivity. Qed.

Lemma wsum_zero f c r : (forall i, f i == 0) -> forall off, wsum f c r off == 0.
Proof. intros H. induction r as [|i t IH]; intros off; cbn [wsum]; [reflexivity|]. rewrite IH, H. ring. Qed.

Lemma coef_pimg c : forall r sc, coef sx_eqb (pimg r sc) (kc c) == wsum (fun i => nth i sc 0) c r 0.
Proof.
  induction r as [|i t IH]; intros sc; [reflexivity|].
  destruct sc as [|q sc].
  - rewrite wsum_zero; [reflexivity|]. intros [|j]; reflexivity.
  - unfold pimg. cbn [combine flat_map fst snd]. fold (pimg t sc). rewrite coef_app, coef_members, IH.
    cbn [wsum]. rewrite wsum_shift. cbn [nth]. reflexivity.
Qed.

Lemma wsum_app f c r1 r2 : forall off, wsum f c (r1 ++ r2) off == wsum f c r1 off + wsum f c r2 (off + length r1).
Proof.
  induction r1 as [|i t IH]; intros off; cbn [wsum app length].
  - rewrite Nat.add_0_r. ring.
  - rewrite IH, Nat.add_succ_r. cbn [Nat.add]. ring.
Qed.

Lemma flatten_app a b : flatten (a ++ b) = flatten a ++ flatten b.
Proof. unfold flatten. apply flat_map_app. Qed.

Lemma wsum_absent f c r : ~ In c (flatten r) -> forall off, wsum f c r off == 0.
Proof.
  induction r as [|i t IH]; intros H off; cbn [wsum]; [reflexivity|].
  change (flatten (i :: t)) with (members i ++ flatten t) in H.
  rewrite IH by (intros Hin; apply H, in_or_app; right; exact Hin).
  rewrite occ_absent by (intros Hin; apply H, in_or_app; left; exact Hin). ring.
Qed.

(* the central estimate: if at every item the score under g exceeds the score under f by at most G, the sums differ by at most
   G * (number of occurrences of c on the ballot) *)
Lemma wsum_diff_le f g c G : forall r offf offg,
  (forall j, (j < length r)%nat -> g (offg + j)%nat - f (offf + j)%nat <= G) ->
  wsum g c r offg - wsum f c r offf <= G * occ c (flatten r).
Proof.
  induction r as [|i t IH]; intros offf offg H; cbn [wsum].
  - cbn. lra.
  - change (flatten (i :: t)) with (members i ++ flatten t). rewrite occ_app.
    assert (H0 : g offg - f offf <= G).
    { specialize (H 0%nat). rewrite !Nat.add_0_r in H. apply H. cbn [length]. lia. }
    assert (Ht : wsum g c t (S offg) - wsum f c t (S offf) <= G * occ c (flatten t)).
    { apply IH. intros j Hj. specialize (H (S j)). rewrite !Nat.add_succ_r in H. apply H. cbn [length]. lia. }
    pose proof (occ_nonneg c (members i)) as Ho.
    assert (M : (g offg - f offf) * occ c (members i) <= G * occ c (members i)).
    { apply Qmult_le_compat_r; assumption. }
    lra.
Qed.

Lemma wsum_eq f g c : forall r offf offg,
  (forall j, (j < length r)%nat -> g (offg + j)%nat == f (offf + j)%nat) ->
  wsum g c r offg == wsum f c r offf.
Proof.
  induction r as [|i t IH]; intros offf offg H; cbn [wsum]; [reflexivity|].
  assert (H0 : g offg == f offf).
  { specialize (H 0%nat). rewrite !Nat.add_0_r in H. apply H. cbn [length]. lia. }
  rewrite H0, (IH (S offf) (S offg)); [reflexivity|].
  intros j Hj. specialize (H (S j)). rewrite !Nat.add_succ_r in H. apply H. cbn [length]. lia.
Qed.

(* keys of the image *)
Lemma pimg_keys : forall r sc, length r = length sc -> map fst (pimg r sc) = map kc (flatten r).
Proof.
  induction r as [|i t IH]; intros [|q sc] H; cbn [length] in H; try discriminate; [reflexivity|].
  unfold pimg. cbn [combine flat_map fst snd]. fold (pimg t sc).
  change (flatten (i :: t)) with (members i ++ flatten t). rewrite !map_app, IH by lia.
  rewrite map_map. reflexivity.
Qed.

Lemma pimg_keys_kc : forall r sc k, In k (map fst (pimg r sc)) -> exists c, k = kc c.
Proof.
  induction r as [|i t IH]; intros [|q sc] k H; try (destruct H; fail).
  unfold pimg in H. cbn [combine flat_map fst snd] in H. fold (pimg t sc) in H. rewrite map_app, in_app_iff in H.
  destruct H as [H|H]; [|exact (IH sc k H)].
  rewrite map_map in H. apply in_map_iff in H. destruct H as (c & <- & _). exists c. reflexivity.
Qed.

Lemma coef_pimg_other k r sc : (forall c, k <> kc c) -> coef sx_eqb (pimg r sc) k = 0.
Proof. intros H. apply coef_absent. intros Hin. destruct (pimg_keys_kc r sc k Hin) as (c & E). exact (H c E). Qed.

Lemma sx_kc_cases (k : sx) : (exists c, k = kc c) \/ (forall c, k <> kc c).
Proof.
  destruct k as [z|l]; [|right; intros c; discriminate].
  destruct z as [|p|p]; [right; intros c; discriminate|left; exists p; reflexivity|right; intros c; discriminate].
Qed.

(* ballots with the same members item by item have the same image (a shared rank of one candidate = a plain rank) *)
Lemma pimg_members : forall r r' sc, map members r = map members r' -> pimg r sc = pimg r' sc.
Proof.
  induction r as [|i t IH]; intros [|i' t'] sc H; cbn [map] in H; try discriminate; [reflexivity|].
  injection H as Hi Ht. destruct sc as [|q sc]; [reflexivity|].
  unfold pimg. cbn [combine flat_map fst snd]. fold (pimg t sc) (pimg t' sc). rewrite Hi, (IH t' sc Ht). reflexivity.
Qed.

Lemma pos_img_members s n r r' : map members r = map members r' -> pos_img s n r = pos_img s n r'.
Proof.
  intros H. assert (Hl : length r = length r') by (rewrite <- (map_length members r), H; apply map_length).
  unfold pos_img, img_positional. rewrite <- Hl. destruct (rank_scores s n (length r)) as [sc|]; [|reflexivity].
  exact (pimg_members r r' sc H).
Qed.

(* ------------------------------------------------------------------ score lists: non-increasing along the ballot *)
Definition scorer_ok_b (s : scorer) : bool :=
  match s with Geometric base => (1 <=? base)%Z | SequenceBased sq => noninc0 sq | _ => true end.

Lemma scorer_ok_nonincreasing s n_cands : scorer_ok_b s = true -> scorer_nonincreasing s n_cands.
Proof.
  intros H k s_pre a b s_post. destruct s; cbn [scorer_ok_b] in H.
  - apply borda_nonincreasing.
  - apply dowdall_nonincreasing.
  - apply geometric_nonincreasing. apply Z.leb_le, H.
  - apply modified_borda_nonincreasing.
  - apply fixed_top_nonincreasing.
  - apply sequence_nonincreasing, H.
Qed.

Lemma scores_step s n k sc : scorer_nonincreasing s n -> rank_scores s n k = Some sc ->
  forall i, (S i < k)%nat -> nth (S i) sc 0 <= nth i sc 0.
Proof.
  intros Hs Hsc i Hi. pose proof (rank_scores_length _ _ _ _ Hsc) as Hl.
  destruct (list_split2 sc i) as (s_pre & a & b & s_post & E & Hpre); [lia|].
  destruct (list_nth_split _ _ _ _ _ E) as (Ha & Hb & _). rewrite Hpre in Ha, Hb. rewrite <- Ha, <- Hb.
  rewrite E in Hsc. exact (Hs _ _ _ _ _ Hsc).
Qed.

Lemma step_chain (f : nat -> Q) k : (forall i, (S i < k)%nat -> f (S i) <= f i) ->
  forall i j, (i <= j)%nat -> (j < k)%nat -> f j <= f i.
Proof.
  intros H i j Hij. induction Hij as [|j Hij IH]; intros Hj; [lra|].
  pose proof (H j Hj). pose proof (IH ltac:(lia)). lra.
Qed.

Lemma scores_chain s n k sc : scorer_nonincreasing s n -> rank_scores s n k = Some sc ->
  forall i j, (i <= j)%nat -> (j < k)%nat -> nth j sc 0 <= nth i sc 0.
Proof. intros Hs Hsc. apply (step_chain (fun i => nth i sc 0) k). exact (scores_step s n k sc Hs Hsc). Qed.

(* ------------------------------------------------------------------ 3 (a): the winner, on a rank of its own, moves up past items *)
Lemma flatten_cons i t : flatten (i :: t) = members i ++ flatten t.
Proof. reflexivity. Qed.

Ltac flat_in := repeat first [rewrite flatten_app | rewrite flatten_cons | rewrite in_app_iff].
Ltac flat_in_h H := repeat first [rewrite flatten_app in H | rewrite flatten_cons in H | rewrite in_app_iff in H].

(* Further occurrences of w in p1 or p3 (a malformed ballot) do not matter; the ballot may be too long for the scorer (Borda:
   both images are empty then). *)
Theorem positional_move_up_items (s : scorer) (n_cands : nat) pre_b post_b (p1 p2 p3 : ranked) (w : C) (wgt : Q) :
  0 <= wgt -> ~ In w (flatten p2) -> scorer_nonincreasing s n_cands ->
  get_n_best Qle_bool (dconv (pos_img s n_cands) (pre_b ++ (p1 ++ p2 ++ IP w :: p3, wgt) :: post_b)) 1 = [Cand (kc w)] ->
  get_n_best Qle_bool (dconv (pos_img s n_cands) (pre_b ++ (p1 ++ IP w :: p2 ++ p3, wgt) :: post_b)) 1 = [Cand (kc w)].
Proof.
  intros Hw Hnin Hs.
  assert (Hl : length (p1 ++ IP w :: p2 ++ p3) = length (p1 ++ p2 ++ IP w :: p3)).
  { rewrite !app_length. cbn [length]. rewrite !app_length. cbn [length]. lia. }
  destruct (rank_scores s n_cands (length (p1 ++ p2 ++ IP w :: p3))) as [sc|] eqn:Hsc.
  2: { intros H. rewrite <- H. f_equal.
       apply (conv_image_ext sx_eqb (pos_img s n_cands) pre_b post_b (p1 ++ IP w :: p2 ++ p3) (p1 ++ p2 ++ IP w :: p3) wgt).
       rewrite !pos_img_none; [reflexivity|exact Hsc|rewrite Hl; exact Hsc]. }
  pose proof (rank_scores_length _ _ _ _ Hsc) as Hlen.
  assert (Hk : length sc = S (length p1 + length p2 + length p3)).
  { rewrite Hlen, !app_length. cbn [length]. lia. }
  assert (I1 : pos_img s n_cands (p1 ++ p2 ++ IP w :: p3) = pimg (p1 ++ p2 ++ IP w :: p3) sc) by (apply pos_img_some, Hsc).
  assert (I2 : pos_img s n_cands (p1 ++ IP w :: p2 ++ p3) = pimg (p1 ++ IP w :: p2 ++ p3) sc).
  { apply pos_img_some. rewrite Hl. exact Hsc. }
  set (f := fun i => nth i sc 0).
  assert (C1 : forall c, coef sx_eqb (pimg (p1 ++ p2 ++ IP w :: p3) sc) (kc c) ==
            wsum f c p1 0 + (wsum f c p2 (length p1) + (occ c [w] * f (length p1 + length p2)%nat + wsum f c p3 (S (length p1 + length p2))))).
  { intros c. rewrite coef_pimg. fold f. rewrite !wsum_app. cbn [wsum members Nat.add]. ring. }
  assert (C2 : forall c, coef sx_eqb (pimg (p1 ++ IP w :: p2 ++ p3) sc) (kc c) ==
            wsum f c p1 0 + (occ c [w] * f (length p1) + (wsum f c p2 (S (length p1)) + wsum f c p3 (S (length p1 + length p2))))).
  { intros c. rewrite coef_pimg. fold f. rewrite wsum_app. cbn [wsum members]. rewrite wsum_app. cbn [Nat.add]. ring. }
  assert (Hstep : forall i, (S i < length sc)%nat -> f (S i) <= f i).
  { intros i Hi. apply (scores_step s n_cands _ sc Hs Hsc). rewrite <- Hlen. exact Hi. }
  apply (additive_sole_winner sx_eqb sx_eqb_spec (pos_img s n_cands)); [exact Hw| | | |].
  - intros k. rewrite I1, I2, !pimg_keys by (rewrite Hlen; auto). intros Hin. right. apply in_map_iff in Hin.
    destruct Hin as (c & E & Hc). apply in_map_iff. exists c. split; [exact E|]. flat_in_h Hc. flat_in. tauto.
  - rewrite I2, pimg_keys by (rewrite Hlen; auto). apply in_map. flat_in. right. left. left. reflexivity.
  - rewrite I1, I2, C1, C2, occ_self, !(wsum_absent f w p2 Hnin).
    assert (Hf : f (length p1 + length p2)%nat <= f (length p1)).
    { apply (step_chain f (length sc) Hstep); lia. }
    lra.
  - intros k Hne. destruct (sx_kc_cases k) as [(c & ->)|Hno].
    + assert (Hc : c <> w) by congruence.
      rewrite I1, I2, C1, C2, (occ_other c w Hc).
      pose proof (wsum_diff_le f f c 0 p2 (length p1) (S (length p1))) as Hd.
      assert (Hd' : wsum f c p2 (S (length p1)) - wsum f c p2 (length p1) <= 0 * occ c (flatten p2)).
      { apply Hd. intros j Hj. cbn [Nat.add]. pose proof (Hstep (length p1 + j)%nat ltac:(lia)). lra. }
      lra.
    + rewrite I1, I2, !coef_pimg_other by exact Hno. lra.
Qed.

(* ------------------------------------------------------------------ the score lists of k and of k + 1 ranks *)
(* [sc] scores a ballot of k items, [sc'] the ballot after it got one item longer:
   1. a score shifted one place down never gains;   2. a score that stays in place never loses;
   3. staying in place gains no more than any upward move (from place j' to place j <= j');
   4. ... and no more than any non-negative new score. *)
Definition grow_ok (sc sc' : list Q) : Prop :=
  (forall i, (i < length sc)%nat -> nth (S i) sc' 0 <= nth i sc 0) /\
  (forall i, (i < length sc)%nat -> nth i sc 0 <= nth i sc' 0) /\
  (forall i j j', (i < length sc)%nat -> (j <= j')%nat -> (j' < length sc)%nat ->
     nth i sc' 0 - nth i sc 0 <= nth j sc' 0 - nth j' sc 0) /\
  (forall i j, (i < length sc)%nat -> (j <= length sc)%nat -> 0 <= nth j sc' 0 -> nth i sc' 0 - nth i sc 0 <= nth j sc' 0).

(* the old list is a prefix of the new one, which is non-increasing *)
Lemma prefix_grow_ok sc sc' k : length sc = k ->
  (forall i, (i < k)%nat -> nth i sc' 0 == nth i sc 0) ->
  (forall i, (S i < S k)%nat -> nth (S i) sc' 0 <= nth i sc' 0) -> grow_ok sc sc'.
Proof.
  intros Hl Hp Hstep. pose proof (step_chain (fun i => nth i sc' 0) (S k) Hstep) as Hch. cbv beta in Hch.
  unfold grow_ok. rewrite Hl. repeat split.
  - intros i Hi. rewrite <- (Hp i Hi). apply Hstep. lia.
  - intros i Hi. rewrite (Hp i Hi). lra.
  - intros i j j' Hi Hj Hj'. rewrite <- (Hp i Hi), <- (Hp j' Hj'). pose proof (Hch j j' Hj ltac:(lia)). lra.
  - intros i j Hi Hj H0. rewrite (Hp i Hi). lra.
Qed.

Lemma nth_map_seq (F : nat -> Q) k i : (i < k)%nat -> nth i (map F (seq 0 k)) 0 = F i.
Proof.
  intros H. rewrite (nth_indep _ 0 (F 0%nat)) by (rewrite map_length, seq_length; exact H).
  rewrite map_nth, seq_nth by exact H. reflexivity.
Qed.

Lemma rank_scores_pred s n k sc' : rank_scores s n (S k) = Some sc' -> exists sc, rank_scores s n k = Some sc.
Proof.
  destruct s; unfold rank_scores; try (intros _; eexists; reflexivity).
  destruct (Nat.ltb n (S k)) eqn:E; [discriminate|]. apply Nat.ltb_ge in E.
  assert (Nat.ltb n k = false) as -> by (apply Nat.ltb_ge; lia). intros _. eexists. reflexivity.
Qed.

Lemma some_inj {X} (a b : X) : Some a = Some b -> a = b.
Proof. intros H. injection H as H. exact H. Qed.

Theorem scorer_grow_ok s n k sc sc' : scorer_ok_b s = true ->
  rank_scores s n k = Some sc -> rank_scores s n (S k) = Some sc' -> grow_ok sc sc'.
Proof.
  intros Hok Hsc Hsc'.
  pose proof (rank_scores_length _ _ _ _ Hsc) as Hl.
  pose proof (scores_step s n (S k) sc' (scorer_ok_nonincreasing s n Hok) Hsc') as Hstep'.
  destruct s.
  - apply (prefix_grow_ok sc sc' k Hl); [|exact Hstep'].
    unfold rank_scores in Hsc, Hsc'. destruct (Nat.ltb n (S k)) eqn:E'; [discriminate|]. destruct (Nat.ltb n k) eqn:E; [discriminate|].
    apply Nat.ltb_ge in E, E'. apply some_inj in Hsc, Hsc'. subst sc sc'.
    rewrite !select_padded_map_seq by lia. intros i Hi. rewrite !nth_map_seq by lia. reflexivity.
  - apply (prefix_grow_ok sc sc' k Hl); [|exact Hstep'].
    unfold rank_scores in Hsc, Hsc'. apply some_inj in Hsc, Hsc'. subst sc sc'.
    intros i Hi. rewrite !nth_map_seq by lia. reflexivity.
  - apply (prefix_grow_ok sc sc' k Hl); [|exact Hstep'].
    unfold rank_scores in Hsc, Hsc'. apply some_inj in Hsc, Hsc'. subst sc sc'.
    intros i Hi. rewrite !nth_map_seq by lia. reflexivity.
  - clear Hstep' Hl. unfold rank_scores in Hsc, Hsc'. apply some_inj in Hsc, Hsc'. subst sc sc'.
    unfold grow_ok. rewrite map_length, seq_length. repeat split.
    + intros i Hi. rewrite !nth_map_seq by lia. rewrite <- Zle_Qle. lia.
    + intros i Hi. rewrite !nth_map_seq by lia. rewrite <- Zle_Qle. lia.
    + intros i j j' Hi Hj Hj'. rewrite !nth_map_seq by lia. unfold Qminus.
      rewrite <- !inject_Z_opp, <- !inject_Z_plus, <- Zle_Qle. lia.
    + intros i j Hi Hj _. rewrite !nth_map_seq by lia. unfold Qminus.
      rewrite <- !inject_Z_opp, <- !inject_Z_plus, <- Zle_Qle. lia.
  - apply (prefix_grow_ok sc sc' k Hl); [|exact Hstep'].
    unfold rank_scores in Hsc, Hsc'. apply some_inj in Hsc, Hsc'. subst sc sc'.
    intros i Hi. rewrite !nth_map_seq by lia. reflexivity.
  - apply (prefix_grow_ok sc sc' k Hl); [|exact Hstep'].
    unfold rank_scores in Hsc, Hsc'. apply some_inj in Hsc, Hsc'. subst sc sc'.
    intros i Hi. rewrite !select_padded_nth by lia. reflexivity.
Qed.

Lemma occ_in c l : In c l -> 1 <= occ c l.
Proof.
  induction l as [|x t IH]; cbn [occ]; intros H; [destruct H|].
  pose proof (occ_nonneg c t). destruct (Pos.eqb c x) eqn:E; [lra|].
  destruct H as [->|H]; [rewrite Pos.eqb_refl in E; discriminate|]. specialize (IH H). lra.
Qed.

(* ------------------------------------------------------------------ 3 (b): the winner leaves a shared rank for a place of its own above *)
(* The ballot gets one item longer: [sc] scores the old ballot, [sc'] the new one.  No candidate twice on the ballot (see
   [positional_leave_shared_twice_refuted]). *)
Theorem positional_leave_shared_gen (s : scorer) (n_cands : nat) pre_b post_b (p1 p2 p3 : ranked) (la lb : list C) (w : C) (wgt : Q)
    (sc sc' : list Q) :
  0 <= wgt -> NoDup (flatten (p1 ++ p2 ++ IS (la ++ w :: lb) :: p3)) ->
  rank_scores s n_cands (length (p1 ++ p2 ++ IS (la ++ w :: lb) :: p3)) = Some sc ->
  rank_scores s n_cands (S (length (p1 ++ p2 ++ IS (la ++ w :: lb) :: p3))) = Some sc' ->
  grow_ok sc sc' ->
  get_n_best Qle_bool (dconv (pos_img s n_cands) (pre_b ++ (p1 ++ p2 ++ IS (la ++ w :: lb) :: p3, wgt) :: post_b)) 1 = [Cand (kc w)] ->
  get_n_best Qle_bool (dconv (pos_img s n_cands) (pre_b ++ (p1 ++ IP w :: p2 ++ IS (la ++ lb) :: p3, wgt) :: post_b)) 1 = [Cand (kc w)].
Proof.
  intros Hw Hnd Hsc Hsc' (K1 & K2 & K3 & _).
  assert (Hl : length (p1 ++ IP w :: p2 ++ IS (la ++ lb) :: p3) = S (length (p1 ++ p2 ++ IS (la ++ w :: lb) :: p3))).
  { rewrite !app_length. cbn [length]. rewrite !app_length. cbn [length]. lia. }
  pose proof (rank_scores_length _ _ _ _ Hsc) as Hlen. pose proof (rank_scores_length _ _ _ _ Hsc') as Hlen'.
  assert (Hk : length sc = S (length p1 + length p2 + length p3)).
  { rewrite Hlen, !app_length. cbn [length]. lia. }
  assert (I1 : pos_img s n_cands (p1 ++ p2 ++ IS (la ++ w :: lb) :: p3) = pimg (p1 ++ p2 ++ IS (la ++ w :: lb) :: p3) sc) by (apply pos_img_some, Hsc).
  assert (I2 : pos_img s n_cands (p1 ++ IP w :: p2 ++ IS (la ++ lb) :: p3) = pimg (p1 ++ IP w :: p2 ++ IS (la ++ lb) :: p3) sc').
  { apply pos_img_some. rewrite Hl. exact Hsc'. }
  set (f := fun i => nth i sc 0). set (g := fun i => nth i sc' 0).
  set (a := length p1) in *. set (m := length p2) in *.
  assert (C1 : forall c, coef sx_eqb (pimg (p1 ++ p2 ++ IS (la ++ w :: lb) :: p3) sc) (kc c) ==
            wsum f c p1 0 + (wsum f c p2 a + (occ c (la ++ w :: lb) * f (a + m)%nat + wsum f c p3 (S (a + m))))).
  { intros c. rewrite coef_pimg. fold f. rewrite !wsum_app. cbn [wsum members Nat.add]. fold a m. ring. }
  assert (C2 : forall c, coef sx_eqb (pimg (p1 ++ IP w :: p2 ++ IS (la ++ lb) :: p3) sc') (kc c) ==
            wsum g c p1 0 + (occ c [w] * g a + (wsum g c p2 (S a) + (occ c (la ++ lb) * g (S (a + m)) + wsum g c p3 (S (S (a + m))))))).
  { intros c. rewrite coef_pimg. fold g. rewrite wsum_app. cbn [wsum members]. rewrite wsum_app. cbn [wsum members Nat.add]. fold a m. ring. }
  (* the clauses of grow_ok about f and g *)
  assert (G1 : forall i, (i < length sc)%nat -> g (S i) <= f i) by exact K1.
  assert (G2 : forall i, (i < length sc)%nat -> f i <= g i) by exact K2.
  assert (G3 : forall i j j', (i < length sc)%nat -> (j <= j')%nat -> (j' < length sc)%nat -> g i - f i <= g j - f j') by exact K3.
  clear K1 K2 K3.
  (* no candidate twice *)
  assert (Hocc : forall c, occ c (flatten p1) + occ c (flatten p2) + (occ c (la ++ lb) + occ c [w]) + occ c (flatten p3) <= 1).
  { intros c. pose proof (occ_nodup c _ Hnd) as H. revert H. rewrite !flatten_app, flatten_cons. cbn [members].
    rewrite !occ_app. cbn [occ]. intros H. lra. }
  assert (Hw1 : ~ In w (flatten p1)).
  { intros Hin. apply occ_in in Hin. pose proof (Hocc w) as H. rewrite occ_self in H.
    pose proof (occ_nonneg w (flatten p2)). pose proof (occ_nonneg w (la ++ lb)). pose proof (occ_nonneg w (flatten p3)). lra. }
  assert (Hw2 : ~ In w (flatten p2)).
  { intros Hin. apply occ_in in Hin. pose proof (Hocc w) as H. rewrite occ_self in H.
    pose proof (occ_nonneg w (flatten p1)). pose proof (occ_nonneg w (la ++ lb)). pose proof (occ_nonneg w (flatten p3)). lra. }
  assert (Hw3 : ~ In w (flatten p3)).
  { intros Hin. apply occ_in in Hin. pose proof (Hocc w) as H. rewrite occ_self in H.
    pose proof (occ_nonneg w (flatten p1)). pose proof (occ_nonneg w (la ++ lb)). pose proof (occ_nonneg w (flatten p2)). lra. }
  assert (Hw4 : ~ In w (la ++ lb)).
  { intros Hin. apply occ_in in Hin. pose proof (Hocc w) as H. rewrite occ_self in H.
    pose proof (occ_nonneg w (flatten p1)). pose proof (occ_nonneg w (flatten p3)). pose proof (occ_nonneg w (flatten p2)). lra. }
  assert (Esplit : forall c, occ c (la ++ w :: lb) == occ c (la ++ lb) + occ c [w]).
  { intros c. rewrite !occ_app. cbn [occ]. ring. }
  (* what the ballot gives the winner: before, after *)
  assert (Ew1 : coef sx_eqb (pimg (p1 ++ p2 ++ IS (la ++ w :: lb) :: p3) sc) (kc w) == f (a + m)%nat).
  { rewrite C1, Esplit, occ_self, (occ_absent w (la ++ lb) Hw4), (wsum_absent f w p1 Hw1), (wsum_absent f w p2 Hw2), (wsum_absent f w p3 Hw3). ring. }
  assert (Ew2 : coef sx_eqb (pimg (p1 ++ IP w :: p2 ++ IS (la ++ lb) :: p3) sc') (kc w) == g a).
  { rewrite C2, occ_self, (occ_absent w (la ++ lb) Hw4), (wsum_absent g w p1 Hw1), (wsum_absent g w p2 Hw2), (wsum_absent g w p3 Hw3). ring. }
  assert (HG0 : 0 <= g a - f (a + m)%nat).
  { pose proof (G2 (a + m)%nat ltac:(lia)). pose proof (G3 (a + m)%nat a (a + m)%nat ltac:(lia) ltac:(lia) ltac:(lia)). lra. }
  apply (additive_sole_winner_diff sx_eqb sx_eqb_spec (pos_img s n_cands)); [exact Hw| | |].
  - intros k. rewrite I1, I2, !pimg_keys by (rewrite ?Hlen, ?Hlen', ?Hl; auto). intros Hin. right. apply in_map_iff in Hin.
    destruct Hin as (c & E & Hc). apply in_map_iff. exists c. split; [exact E|]. flat_in_h Hc. flat_in. cbn [members In] in *. rewrite ?in_app_iff in Hc. rewrite ?in_app_iff. cbn [In]. tauto.
  - rewrite I2, pimg_keys by (rewrite Hlen', Hl; auto). apply in_map. flat_in. right. left. left. reflexivity.
  - intros k Hne. rewrite I1, I2, Ew1, Ew2. destruct (sx_kc_cases k) as [(c & ->)|Hno].
    + assert (Hc : c <> w) by congruence.
      rewrite C1, C2, Esplit, (occ_other c w Hc).
      specialize (Hocc c). rewrite (occ_other c w Hc) in Hocc.
      remember (g a - f (a + m)%nat) as G eqn:EG.
      assert (D1 : wsum g c p1 0 - wsum f c p1 0 <= G * occ c (flatten p1)).
      { apply wsum_diff_le. intros j Hj. cbn [Nat.add]. fold a in Hj. rewrite EG. apply G3; lia. }
      assert (D2 : wsum g c p2 (S a) - wsum f c p2 a <= G * occ c (flatten p2)).
      { apply wsum_diff_le. intros j Hj. cbn [Nat.add]. fold m in Hj. pose proof (G1 (a + j)%nat ltac:(lia)). lra. }
      assert (D3 : (g (S (a + m)) - f (a + m)%nat) * occ c (la ++ lb) <= G * occ c (la ++ lb)).
      { apply Qmult_le_compat_r; [|apply occ_nonneg]. pose proof (G1 (a + m)%nat ltac:(lia)). lra. }
      assert (D4 : wsum g c p3 (S (S (a + m))) - wsum f c p3 (S (a + m)) <= G * occ c (flatten p3)).
      { apply wsum_diff_le. intros j Hj. cbn [Nat.add]. pose proof (G1 (S (a + m + j)) ltac:(lia)). lra. }
      assert (M : (occ c (flatten p1) + occ c (flatten p2) + (occ c (la ++ lb) + 0) + occ c (flatten p3)) * G <= 1 * G).
      { apply Qmult_le_compat_r; assumption. }
      lra.
    + rewrite !coef_pimg_other by exact Hno. lra.
Qed.

(* ... for the six scorers: the condition [scorer_ok_b] of the upward move suffices *)
Theorem positional_leave_shared (s : scorer) (n_cands : nat) pre_b post_b (p1 p2 p3 : ranked) (la lb : list C) (w : C) (wgt : Q) (sc' : list Q) :
  0 <= wgt -> NoDup (flatten (p1 ++ p2 ++ IS (la ++ w :: lb) :: p3)) -> scorer_ok_b s = true ->
  rank_scores s n_cands (S (length (p1 ++ p2 ++ IS (la ++ w :: lb) :: p3))) = Some sc' ->
  get_n_best Qle_bool (dconv (pos_img s n_cands) (pre_b ++ (p1 ++ p2 ++ IS (la ++ w :: lb) :: p3, wgt) :: post_b)) 1 = [Cand (kc w)] ->
  get_n_best Qle_bool (dconv (pos_img s n_cands) (pre_b ++ (p1 ++ IP w :: p2 ++ IS (la ++ lb) :: p3, wgt) :: post_b)) 1 = [Cand (kc w)].
Proof.
  intros Hw Hnd Hok Hsc'. destruct (rank_scores_pred _ _ _ _ Hsc') as (sc & Hsc).
  exact (positional_leave_shared_gen s n_cands pre_b post_b p1 p2 p3 la lb w wgt sc sc' Hw Hnd Hsc Hsc' (scorer_grow_ok s n_cands _ sc sc' Hok Hsc Hsc')).
Qed.

(* the rest of the shared rank is one candidate and is written as a plain rank: the same image *)
Theorem positional_leave_shared_single (s : scorer) (n_cands : nat) pre_b post_b (p1 p2 p3 : ranked) (la lb : list C) (w c : C) (wgt : Q) (sc' : list Q) :
  0 <= wgt -> NoDup (flatten (p1 ++ p2 ++ IS (la ++ w :: lb) :: p3)) -> scorer_ok_b s = true -> la ++ lb = [c] ->
  rank_scores s n_cands (S (length (p1 ++ p2 ++ IS (la ++ w :: lb) :: p3))) = Some sc' ->
  get_n_best Qle_bool (dconv (pos_img s n_cands) (pre_b ++ (p1 ++ p2 ++ IS (la ++ w :: lb) :: p3, wgt) :: post_b)) 1 = [Cand (kc w)] ->
  get_n_best Qle_bool (dconv (pos_img s n_cands) (pre_b ++ (p1 ++ IP w :: p2 ++ IP c :: p3, wgt) :: post_b)) 1 = [Cand (kc w)].
Proof.
  intros Hw Hnd Hok Hc Hsc' H.
  pose proof (positional_leave_shared s n_cands pre_b post_b p1 p2 p3 la lb w wgt sc' Hw Hnd Hok Hsc' H) as H1.
  rewrite <- H1. f_equal.
  apply (conv_image_ext sx_eqb (pos_img s n_cands) pre_b post_b). apply pos_img_members.
  rewrite Hc, !map_app. cbn [map members]. rewrite !map_app. reflexivity.
Qed.

(* ------------------------------------------------------------------ 3 (c): the winner is not on the ballot and gets ranked *)
(* An unranked candidate gets 0 from the ballot, so the new score of w must not be negative (see
   [positional_rank_unranked_negative_refuted]); no candidate twice on the ballot. *)
Theorem positional_rank_unranked_gen (s : scorer) (n_cands : nat) pre_b post_b (p1 p2 : ranked) (w : C) (wgt : Q) (sc sc' : list Q) :
  0 <= wgt -> ~ In w (flatten (p1 ++ p2)) -> NoDup (flatten (p1 ++ p2)) ->
  rank_scores s n_cands (length (p1 ++ p2)) = Some sc ->
  rank_scores s n_cands (S (length (p1 ++ p2))) = Some sc' ->
  grow_ok sc sc' -> 0 <= nth (length p1) sc' 0 ->
  get_n_best Qle_bool (dconv (pos_img s n_cands) (pre_b ++ (p1 ++ p2, wgt) :: post_b)) 1 = [Cand (kc w)] ->
  get_n_best Qle_bool (dconv (pos_img s n_cands) (pre_b ++ (p1 ++ IP w :: p2, wgt) :: post_b)) 1 = [Cand (kc w)].
Proof.
  intros Hw Hnin Hnd Hsc Hsc' (K1 & _ & _ & K4) Hpos.
  assert (Hl : length (p1 ++ IP w :: p2) = S (length (p1 ++ p2))).
  { rewrite !app_length. cbn [length]. lia. }
  pose proof (rank_scores_length _ _ _ _ Hsc) as Hlen. pose proof (rank_scores_length _ _ _ _ Hsc') as Hlen'.
  assert (Hk : length sc = (length p1 + length p2)%nat) by (rewrite Hlen, app_length; reflexivity).
  assert (I1 : pos_img s n_cands (p1 ++ p2) = pimg (p1 ++ p2) sc) by (apply pos_img_some, Hsc).
  assert (I2 : pos_img s n_cands (p1 ++ IP w :: p2) = pimg (p1 ++ IP w :: p2) sc').
  { apply pos_img_some. rewrite Hl. exact Hsc'. }
  set (f := fun i => nth i sc 0). set (g := fun i => nth i sc' 0).
  set (a := length p1) in *. set (m := length p2) in *.
  assert (C1 : forall c, coef sx_eqb (pimg (p1 ++ p2) sc) (kc c) == wsum f c p1 0 + wsum f c p2 a).
  { intros c. rewrite coef_pimg. fold f. rewrite wsum_app. cbn [Nat.add]. fold a. reflexivity. }
  assert (C2 : forall c, coef sx_eqb (pimg (p1 ++ IP w :: p2) sc') (kc c) == wsum g c p1 0 + (occ c [w] * g a + wsum g c p2 (S a))).
  { intros c. rewrite coef_pimg. fold g. rewrite wsum_app. cbn [wsum members Nat.add]. fold a. reflexivity. }
  assert (G1 : forall i, (i < length sc)%nat -> g (S i) <= f i) by exact K1.
  assert (G4 : forall i j, (i < length sc)%nat -> (j <= length sc)%nat -> 0 <= g j -> g i - f i <= g j) by exact K4.
  assert (Hpos' : 0 <= g a) by exact Hpos.
  clear K1 K4.
  rewrite flatten_app in Hnin, Hnd.
  assert (Hw1 : ~ In w (flatten p1)) by (intros Hin; apply Hnin, in_or_app; left; exact Hin).
  assert (Hw2 : ~ In w (flatten p2)) by (intros Hin; apply Hnin, in_or_app; right; exact Hin).
  assert (Ew1 : coef sx_eqb (pimg (p1 ++ p2) sc) (kc w) == 0).
  { rewrite C1, (wsum_absent f w p1 Hw1), (wsum_absent f w p2 Hw2). ring. }
  assert (Ew2 : coef sx_eqb (pimg (p1 ++ IP w :: p2) sc') (kc w) == g a).
  { rewrite C2, occ_self, (wsum_absent g w p1 Hw1), (wsum_absent g w p2 Hw2). ring. }
  apply (additive_sole_winner_diff sx_eqb sx_eqb_spec (pos_img s n_cands)); [exact Hw| | |].
  - intros k. rewrite I1, I2, !pimg_keys by (rewrite ?Hlen, ?Hlen', ?Hl; auto). intros Hin. apply in_map_iff in Hin.
    destruct Hin as (c & E & Hc). flat_in_h Hc. cbn [members In] in Hc.
    destruct Hc as [Hc|[[Hc|[]]|Hc]]; [right|left; subst; reflexivity|right]; apply in_map_iff; exists c; (split; [exact E|]); flat_in; tauto.
  - rewrite I2, pimg_keys by (rewrite Hlen', Hl; auto). apply in_map. flat_in. right. left. left. reflexivity.
  - intros k Hne. rewrite I1, I2, Ew1, Ew2. destruct (sx_kc_cases k) as [(c & ->)|Hno].
    + assert (Hc : c <> w) by congruence.
      rewrite C1, C2, (occ_other c w Hc).
      pose proof (occ_nodup c _ Hnd) as Hocc. rewrite occ_app in Hocc.
      remember (g a) as G eqn:EG.
      assert (D1 : wsum g c p1 0 - wsum f c p1 0 <= G * occ c (flatten p1)).
      { apply wsum_diff_le. intros j Hj. cbn [Nat.add]. fold a in Hj. rewrite EG. apply G4; [lia|lia|]. rewrite <- EG. exact Hpos'. }
      assert (D2 : wsum g c p2 (S a) - wsum f c p2 a <= G * occ c (flatten p2)).
      { apply wsum_diff_le. intros j Hj. cbn [Nat.add]. fold m in Hj. pose proof (G1 (a + j)%nat ltac:(lia)). lra. }
      assert (M : (occ c (flatten p1) + occ c (flatten p2)) * G <= 1 * G).
      { apply Qmult_le_compat_r; assumption. }
      lra.
    + rewrite !coef_pimg_other by exact Hno. lra.
Qed.

Theorem positional_rank_unranked (s : scorer) (n_cands : nat) pre_b post_b (p1 p2 : ranked) (w : C) (wgt : Q) (sc' : list Q) :
  0 <= wgt -> ~ In w (flatten (p1 ++ p2)) -> NoDup (flatten (p1 ++ p2)) -> scorer_ok_b s = true ->
  rank_scores s n_cands (S (length (p1 ++ p2))) = Some sc' -> 0 <= nth (length p1) sc' 0 ->
  get_n_best Qle_bool (dconv (pos_img s n_cands) (pre_b ++ (p1 ++ p2, wgt) :: post_b)) 1 = [Cand (kc w)] ->
  get_n_best Qle_bool (dconv (pos_img s n_cands) (pre_b ++ (p1 ++ IP w :: p2, wgt) :: post_b)) 1 = [Cand (kc w)].
Proof.
  intros Hw Hnin Hnd Hok Hsc' Hpos. destruct (rank_scores_pred _ _ _ _ Hsc') as (sc & Hsc).
  exact (positional_rank_unranked_gen s n_cands pre_b post_b p1 p2 w wgt sc sc' Hw Hnin Hnd Hsc Hsc'
           (scorer_grow_ok s n_cands _ sc sc' Hok Hsc Hsc') Hpos).
Qed.

(* ------------------------------------------------------------------ 2: a ballot is added with the winner on top *)
(* The candidates of the new ballot already occur in the profile (so the number of candidates does not change); no candidate
   twice on it; the score of its first rank is not negative - the candidates it leaves unranked get 0. *)
Theorem positional_added_ballot (s : scorer) (n_cands : nat) pre_b post_b (rest : ranked) (w : C) (wgt : Q) :
  0 <= wgt -> NoDup (w :: flatten rest) ->
  (forall c, In c (flatten rest) -> In (kc c) (map fst (dconv (pos_img s n_cands) (pre_b ++ post_b)))) ->
  scorer_nonincreasing s n_cands ->
  (forall sc', rank_scores s n_cands (S (length rest)) = Some sc' -> 0 <= nth 0 sc' 0) ->
  get_n_best Qle_bool (dconv (pos_img s n_cands) (pre_b ++ post_b)) 1 = [Cand (kc w)] ->
  get_n_best Qle_bool (dconv (pos_img s n_cands) (pre_b ++ (IP w :: rest, wgt) :: post_b)) 1 = [Cand (kc w)].
Proof.
  intros Hw Hnd Hcands Hs Htop Hwin.
  destruct (rank_scores s n_cands (length (IP w :: rest))) as [sc'|] eqn:Hsc'.
  2: { rewrite <- Hwin. f_equal. apply (conv_skip sx_eqb (pos_img s n_cands)). apply pos_img_none, Hsc'. }
  assert (I2 : pos_img s n_cands (IP w :: rest) = pimg (IP w :: rest) sc') by (apply pos_img_some, Hsc').
  pose proof (rank_scores_length _ _ _ _ Hsc') as Hlen'.
  specialize (Htop sc' Hsc').
  set (g := fun i => nth i sc' 0).
  assert (C2 : forall c, coef sx_eqb (pimg (IP w :: rest) sc') (kc c) == occ c [w] * g 0%nat + wsum g c rest 1).
  { intros c. rewrite coef_pimg. fold g. cbn [wsum members]. reflexivity. }
  assert (Hch : forall j, (j < S (length rest))%nat -> g j <= g 0%nat).
  { intros j Hj. apply (scores_chain s n_cands _ sc' Hs Hsc'); [lia|exact Hj]. }
  assert (Htop' : 0 <= g 0%nat) by exact Htop.
  inversion Hnd as [|? ? Hw_rest Hnd_rest]; subst.
  assert (Hwkey : In (kc w) (map fst (dconv (pos_img s n_cands) (pre_b ++ post_b)))).
  { destruct (get_n_best_1_cand Qle_bool Qle_bool_total Qle_bool_trans _ (kc w) []
                (conv_nodup sx_eqb sx_eqb_spec (pos_img s n_cands) (pre_b ++ post_b)) Hwin) as (_ & v & Hin & _).
    apply in_map_iff. exists (kc w, v). split; [reflexivity|exact Hin]. }
  assert (Ew : coef sx_eqb (pimg (IP w :: rest) sc') (kc w) == g 0%nat).
  { rewrite C2, occ_self, (wsum_absent g w rest Hw_rest). ring. }
  apply (additive_added_ballot sx_eqb sx_eqb_spec (pos_img s n_cands)); [exact Hw| | |exact Hwin].
  - intros k. rewrite I2, pimg_keys by (rewrite Hlen'; reflexivity). intros Hin. apply in_map_iff in Hin.
    destruct Hin as (c & <- & Hc). rewrite flatten_cons in Hc. cbn [members] in Hc. destruct Hc as [<-|Hc]; [exact Hwkey|exact (Hcands c Hc)].
  - intros k. rewrite I2, Ew. destruct (sx_kc_cases k) as [(c & ->)|Hno].
    + destruct (Pos.eq_dec c w) as [->|Hc]; [rewrite Ew; lra|].
      rewrite C2, (occ_other c w Hc).
      pose proof (wsum_diff_le (fun _ => 0) g c (g 0%nat) rest 0 1) as D.
      assert (D' : wsum g c rest 1 - wsum (fun _ => 0) c rest 0 <= g 0%nat * occ c (flatten rest)).
      { apply D. intros j Hj. cbn [Nat.add]. pose proof (Hch (S j) ltac:(lia)). lra. }
      rewrite (wsum_zero (fun _ => 0) c rest) in D' by (intros; reflexivity).
      pose proof (occ_nodup c _ Hnd_rest) as Hocc.
      assert (M : occ c (flatten rest) * g 0%nat <= 1 * g 0%nat) by (apply Qmult_le_compat_r; assumption).
      lra.
    + rewrite coef_pimg_other by exact Hno. exact Htop'.
Qed.

(* ------------------------------------------------------------------ the scores are non-negative, except for Borda with a negative base *)
Definition scorer_nonneg_b (s : scorer) : bool := match s with Borda base => (0 <=? base)%Z | _ => true end.

Lemma noninc0_nonneg l : noninc0 l = true -> forall i, 0 <= nth i l 0.
Proof.
  induction l as [|a t IH]; intros H i; [destruct i; cbn; lra|].
  destruct t as [|b t'].
  - cbn [noninc0] in H. apply Qle_bool_iff in H. destruct i as [|[|i]]; cbn; lra.
  - cbn [noninc0] in H. apply andb_true_iff in H. destruct H as [H1 H2]. apply Qle_bool_iff in H1.
    destruct i as [|i]; [|exact (IH H2 i)]. pose proof (IH H2 0%nat) as H0. cbn [nth] in *. lra.
Qed.

Theorem scores_nonneg s n k sc : scorer_ok_b s = true -> scorer_nonneg_b s = true ->
  rank_scores s n k = Some sc -> forall i, 0 <= nth i sc 0.
Proof.
  intros Hok Hnn Hsc i. pose proof (rank_scores_length _ _ _ _ Hsc) as Hl.
  destruct (Nat.lt_ge_cases i k) as [Hi|Hi]; [|rewrite nth_overflow by lia; lra].
  clear Hl. destruct s; cbn [scorer_ok_b scorer_nonneg_b] in Hok, Hnn; unfold rank_scores in Hsc.
  - destruct (Nat.ltb n k) eqn:E; [discriminate|]. apply Nat.ltb_ge in E. apply some_inj in Hsc. subst sc.
    rewrite select_padded_map_seq, nth_map_seq by lia. apply Z.leb_le in Hnn.
    change 0 with (inject_Z 0). rewrite <- Zle_Qle. lia.
  - apply some_inj in Hsc. subst sc. rewrite nth_map_seq by lia. unfold Qle. cbn [Qnum Qden]. lia.
  - apply some_inj in Hsc. subst sc. rewrite nth_map_seq by lia. apply Z.leb_le in Hok.
    apply Qinv_le_0_compat. change 0 with (inject_Z 0). rewrite <- Zle_Qle. apply Z.pow_nonneg. lia.
  - apply some_inj in Hsc. subst sc. rewrite nth_map_seq by lia. change 0 with (inject_Z 0). rewrite <- Zle_Qle. lia.
  - apply some_inj in Hsc. subst sc. rewrite nth_map_seq by lia. change 0 with (inject_Z 0). rewrite <- Zle_Qle. lia.
  - apply some_inj in Hsc. subst sc. rewrite select_padded_nth by lia. apply noninc0_nonneg, Hok.
Qed.

(* (c) and the added ballot for the six scorers, one boolean condition each *)
Corollary positional_rank_unranked_nonneg (s : scorer) (n_cands : nat) pre_b post_b (p1 p2 : ranked) (w : C) (wgt : Q) (sc' : list Q) :
  0 <= wgt -> ~ In w (flatten (p1 ++ p2)) -> NoDup (flatten (p1 ++ p2)) -> scorer_ok_b s = true -> scorer_nonneg_b s = true ->
  rank_scores s n_cands (S (length (p1 ++ p2))) = Some sc' ->
  get_n_best Qle_bool (dconv (pos_img s n_cands) (pre_b ++ (p1 ++ p2, wgt) :: post_b)) 1 = [Cand (kc w)] ->
  get_n_best Qle_bool (dconv (pos_img s n_cands) (pre_b ++ (p1 ++ IP w :: p2, wgt) :: post_b)) 1 = [Cand (kc w)].
Proof.
  intros Hw Hnin Hnd Hok Hnn Hsc'.
  exact (positional_rank_unranked s n_cands pre_b post_b p1 p2 w wgt sc' Hw Hnin Hnd Hok Hsc' (scores_nonneg s n_cands _ sc' Hok Hnn Hsc' _)).
Qed.

Corollary positional_added_ballot_nonneg (s : scorer) (n_cands : nat) pre_b post_b (rest : ranked) (w : C) (wgt : Q) :
  0 <= wgt -> NoDup (w :: flatten rest) ->
  (forall c, In c (flatten rest) -> In (kc c) (map fst (dconv (pos_img s n_cands) (pre_b ++ post_b)))) ->
  scorer_ok_b s = true -> scorer_nonneg_b s = true ->
  get_n_best Qle_bool (dconv (pos_img s n_cands) (pre_b ++ post_b)) 1 = [Cand (kc w)] ->
  get_n_best Qle_bool (dconv (pos_img s n_cands) (pre_b ++ (IP w :: rest, wgt) :: post_b)) 1 = [Cand (kc w)].
Proof.
  intros Hw Hnd Hc Hok Hnn.
  apply (positional_added_ballot s n_cands pre_b post_b rest w wgt Hw Hnd Hc (scorer_ok_nonincreasing s n_cands Hok)).
  intros sc' Hsc'. exact (scores_nonneg s n_cands _ sc' Hok Hnn Hsc' 0%nat).
Qed.

(* ------------------------------------------------------------------ the hypotheses are decidable; witnesses *)
Fixpoint nodupb (l : list C) : bool :=
  match l with [] => true | x :: t => negb (existsb (Pos.eqb x) t) && nodupb t end.

Lemma nodupb_spec l : nodupb l = true -> NoDup l.
Proof.
  induction l as [|x t IH]; cbn [nodupb]; intros H; [constructor|].
  apply andb_true_iff in H. destruct H as [H1 H2]. constructor; [|exact (IH H2)].
  intros Hin. apply negb_true_iff in H1. assert (E : existsb (Pos.eqb x) t = true).
  { apply existsb_exists. exists x. split; [exact Hin|apply Pos.eqb_refl]. }
  congruence.
Qed.

(* non-vacuity.  Candidates A..D = 1..4, the other ballots {(B,A,C,D): 2}; B = 2 is the sole winner and really moves.
   (a) Borda: ({D,C},A,B) -> (B,{D,C},A), past a shared rank: B 10 -> 12.
   (b) modified Borda: (A,{C,B,D}) -> (B,A,{C,D}): the ballot gets longer, A keeps its 2 points at a lower place, B 9 -> 11; also Borda.
   (b, single) modified Borda: (A,{B,C}) -> (B,A,C).
   (c) Borda, {(B,A,C,D): 4}: (D,A) -> (D,B,A): B 16 -> 19, A 15 -> 14.
   (2) Borda: the ballot (B,{A,C}) is added.  All five replayed on the implementation. *)
Example positional_shared_examples :
  let A := 1%positive in let B := 2%positive in let C := 3%positive in let D := 4%positive in
  let pre := [([IP B; IP A; IP C; IP D], 2)] in let pre4 := [([IP B; IP A; IP C; IP D], 4)] in
  let run s (v : list (ranked * Q)) := get_n_best Qle_bool (dconv (pos_img s 4) v) 1 in
  (scorer_ok_b (Borda 1) = true /\ scorer_ok_b ModifiedBorda = true /\ scorer_nonneg_b (Borda 1) = true /\ scorer_nonneg_b (Borda (-1)) = false) /\
  (run (Borda 1) (pre ++ ([] ++ [IS [D; C]; IP A] ++ IP B :: [], 1) :: []) = [Cand (kc B)] /\
   run (Borda 1) (pre ++ ([] ++ IP B :: [IS [D; C]; IP A] ++ [], 1) :: []) = [Cand (kc B)] /\
   dconv (pos_img (Borda 1) 4) (pre ++ ([] ++ [IS [D; C]; IP A] ++ IP B :: [], 1) :: []) = [(kc B, 10); (kc A, 9); (kc C, 8); (kc D, 6)] /\
   dconv (pos_img (Borda 1) 4) (pre ++ ([] ++ IP B :: [IS [D; C]; IP A] ++ [], 1) :: []) = [(kc B, 12); (kc A, 8); (kc C, 7); (kc D, 5)]) /\
  (nodupb (flatten ([] ++ [IP A] ++ IS ([C] ++ B :: [D]) :: [])) = true /\
   rank_scores ModifiedBorda 4 (S (length ([] ++ [IP A] ++ IS ([C] ++ B :: [D]) :: []))) = Some [3; 2; 1] /\
   run ModifiedBorda (pre ++ ([] ++ [IP A] ++ IS ([C] ++ B :: [D]) :: [], 1) :: []) = [Cand (kc B)] /\
   run ModifiedBorda (pre ++ ([] ++ IP B :: [IP A] ++ IS ([C] ++ [D]) :: [], 1) :: []) = [Cand (kc B)] /\
   dconv (pos_img ModifiedBorda 4) (pre ++ ([] ++ [IP A] ++ IS ([C] ++ B :: [D]) :: [], 1) :: []) = [(kc B, 9); (kc A, 8); (kc C, 5); (kc D, 3)] /\
   dconv (pos_img ModifiedBorda 4) (pre ++ ([] ++ IP B :: [IP A] ++ IS ([C] ++ [D]) :: [], 1) :: []) = [(kc B, 11); (kc A, 8); (kc C, 5); (kc D, 3)] /\
   run (Borda 1) (pre ++ ([] ++ [IP A] ++ IS ([C] ++ B :: [D]) :: [], 1) :: []) = [Cand (kc B)] /\
   run (Borda 1) (pre ++ ([] ++ IP B :: [IP A] ++ IS ([C] ++ [D]) :: [], 1) :: []) = [Cand (kc B)]) /\
  (nodupb (flatten ([] ++ [IP A] ++ IS ([] ++ B :: [C]) :: [])) = true /\
   run ModifiedBorda (pre ++ ([] ++ [IP A] ++ IS ([] ++ B :: [C]) :: [], 1) :: []) = [Cand (kc B)] /\
   run ModifiedBorda (pre ++ ([] ++ IP B :: [IP A] ++ IP C :: [], 1) :: []) = [Cand (kc B)]) /\
  (nodupb (flatten ([IP D] ++ [IP A])) = true /\
   rank_scores (Borda 1) 4 (S (length ([IP D] ++ [IP A]))) = Some [4; 3; 2] /\
   run (Borda 1) (pre4 ++ ([IP D] ++ [IP A], 1) :: []) = [Cand (kc B)] /\
   run (Borda 1) (pre4 ++ ([IP D] ++ IP B :: [IP A], 1) :: []) = [Cand (kc B)] /\
   dconv (pos_img (Borda 1) 4) (pre4 ++ ([IP D] ++ [IP A], 1) :: []) = [(kc B, 16); (kc A, 15); (kc C, 8); (kc D, 8)] /\
   dconv (pos_img (Borda 1) 4) (pre4 ++ ([IP D] ++ IP B :: [IP A], 1) :: []) = [(kc B, 19); (kc A, 14); (kc C, 8); (kc D, 8)]) /\
  (nodupb (B :: flatten [IS [A; C]]) = true /\
   run (Borda 1) (pre ++ []) = [Cand (kc B)] /\
   run (Borda 1) (pre ++ (IP B :: [IS [A; C]], 1) :: []) = [Cand (kc B)] /\
   dconv (pos_img (Borda 1) 4) (pre ++ (IP B :: [IS [A; C]], 1) :: []) = [(kc B, 12); (kc A, 9); (kc C, 7); (kc D, 2)]).
Proof. vm_compute. repeat split; reflexivity. Qed.

(* (c) without a non-negative new score: Borda(base = -5), three candidates (scores -3, -4, -5), {(A,B,C): 1, (B): 1}: A wins with
   -3 (C -5, B -7).  A is ranked FIRST on the second ballot, (B) -> (A,B): A -6, B -8, C -5 - C wins.  Replayed on the implementation. *)
Theorem positional_rank_unranked_negative_refuted :
  exists (s : scorer) (n_cands : nat) pre_b post_b (p1 p2 : ranked) (w : C) (wgt : Q) (sc' : list Q),
    0 <= wgt /\ ~ In w (flatten (p1 ++ p2)) /\ NoDup (flatten (p1 ++ p2)) /\ scorer_ok_b s = true /\
    rank_scores s n_cands (S (length (p1 ++ p2))) = Some sc' /\ nth (length p1) sc' 0 < 0 /\
    get_n_best Qle_bool (dconv (pos_img s n_cands) (pre_b ++ (p1 ++ p2, wgt) :: post_b)) 1 = [Cand (kc w)] /\
    get_n_best Qle_bool (dconv (pos_img s n_cands) (pre_b ++ (p1 ++ IP w :: p2, wgt) :: post_b)) 1 = [Cand (kc 3%positive)] /\
    w <> 3%positive.
Proof.
  exists (Borda (-5)), 3%nat, [([IP 1%positive; IP 2%positive; IP 3%positive], 1)], [], [], [IP 2%positive], 1%positive, 1, [-(3); -(4)].
  split; [discriminate|]. split; [cbn; intros [H|[]]; discriminate H|]. split; [apply nodupb_spec; reflexivity|].
  split; [reflexivity|]. split; [vm_compute; reflexivity|]. split; [vm_compute; reflexivity|].
  split; [vm_compute; reflexivity|]. split; [vm_compute; reflexivity|discriminate].
Qed.

(* the added ballot without a non-negative top score: Borda(base = -5), {(A,B): 1} (A -4, B -5), the bullet vote (A) is added:
   A -8, B -5.  Replayed on the implementation. *)
Theorem positional_added_ballot_negative_refuted :
  exists (s : scorer) (n_cands : nat) pre_b post_b (rest : ranked) (w : C) (wgt : Q),
    0 <= wgt /\ NoDup (w :: flatten rest) /\
    (forall c, In c (flatten rest) -> In (kc c) (map fst (dconv (pos_img s n_cands) (pre_b ++ post_b)))) /\
    scorer_ok_b s = true /\
    get_n_best Qle_bool (dconv (pos_img s n_cands) (pre_b ++ post_b)) 1 = [Cand (kc w)] /\
    get_n_best Qle_bool (dconv (pos_img s n_cands) (pre_b ++ (IP w :: rest, wgt) :: post_b)) 1 = [Cand (kc 2%positive)] /\
    w <> 2%positive.
Proof.
  exists (Borda (-5)), 2%nat, [([IP 1%positive; IP 2%positive], 1)], [], [], 1%positive, 1.
  split; [discriminate|]. split; [apply nodupb_spec; reflexivity|]. split; [intros c []|].
  split; [reflexivity|]. split; [vm_compute; reflexivity|]. split; [vm_compute; reflexivity|discriminate].
Qed.

(* a candidate twice on the changed ballot (not a ballot a voter can cast, but a tuple the converter accepts).
   Added ballot, Borda, {(A,B,C,D): 1}: the ballot (A,B,B,B) gives A 4 and B 3+2+1: B wins 9 : 8.
   Leaving a shared rank, modified Borda, {(B): 9/2, (A,A,{B,C}): 1}: B 11/2, A 5; (A,A,B,{C}): every score rises by one, A 7, B 13/2.
   Ranking an unranked winner, modified Borda, {(B): 7/2, (A,A): 1}: B 7/2, A 3; (A,A,B): A 5, B 9/2.  All replayed on the implementation. *)
Theorem positional_twice_refuted :
  let A := 1%positive in let B := 2%positive in let C := 3%positive in let D := 4%positive in
  let run s n (v : list (ranked * Q)) := get_n_best Qle_bool (dconv (pos_img s n) v) 1 in
  (run (Borda 1) 4%nat ([([IP A; IP B; IP C; IP D], 1)] ++ []) = [Cand (kc A)] /\
   run (Borda 1) 4%nat ([([IP A; IP B; IP C; IP D], 1)] ++ (IP A :: [IP B; IP B; IP B], 1) :: []) = [Cand (kc B)]) /\
  (run ModifiedBorda 3%nat ([([IP B], 9 # 2)] ++ ([IP A; IP A] ++ [] ++ IS ([] ++ B :: [C]) :: [], 1) :: []) = [Cand (kc B)] /\
   run ModifiedBorda 3%nat ([([IP B], 9 # 2)] ++ ([IP A; IP A] ++ IP B :: [] ++ IS ([] ++ [C]) :: [], 1) :: []) = [Cand (kc A)]) /\
  (run ModifiedBorda 2%nat ([([IP B], 7 # 2)] ++ ([IP A; IP A] ++ [], 1) :: []) = [Cand (kc B)] /\
   run ModifiedBorda 2%nat ([([IP B], 7 # 2)] ++ ([IP A; IP A] ++ IP B :: [], 1) :: []) = [Cand (kc A)]).
Proof. vm_compute. repeat split; reflexivity. Qed.

Print Assumptions additive_sole_winner_diff.
Print Assumptions additive_added_ballot.
Print Assumptions positional_move_up_items.
Print Assumptions scorer_grow_ok.
Print Assumptions positional_leave_shared_gen.
Print Assumptions positional_leave_shared.
Print Assumptions positional_leave_shared_single.
Print Assumptions positional_rank_unranked_gen.
Print Assumptions positional_rank_unranked.
Print Assumptions positional_rank_unranked_nonneg.
Print Assumptions positional_added_ballot.
Print Assumptions positional_added_ballot_nonneg.
Print Assumptions scores_nonneg.
Print Assumptions scorer_ok_nonincreasing.
Print Assumptions positional_shared_examples.
Print Assumptions positional_rank_unranked_negative_refuted.
Print Assumptions positional_added_ballot_negative_refuted.
Print Assumptions positional_twice_refuted.
