(* LevelOverhangByConstituency with highest-averages evaluators (Model/OverhangByC.v, lobc_calculate):
   the party-or-Tie key equality is an equivalence, the result dictionaries of the inner evaluator and of
   ByConstituency are well formed, so that the generic theorems of Proofs/OverhangByC_proofs.v apply to every
   divisor (D'Hondt, Sainte-Lague, ...) without further hypotheses on the evaluator. *)
From Coq Require Import ZArith QArith List Bool Lia Permutation.
From VL Require Import Prelude.PyDict Model.HighestAverages Model.OverhangByC
     Proofs.Dict_proofs Proofs.OverhangByC_proofs.
Import ListNotations.
Open Scope Z_scope.

(* ------------------------------------------------------------------ pk_eqb is an equivalence *)
Lemma cmem_In x l : cmem x l = true <-> In x l.
Proof.
  induction l as [|y t IH]; simpl; [split; [discriminate|tauto]|].
  rewrite orb_true_iff, IH. unfold ceqb. rewrite Pos.eqb_eq. split; intros [H|H]; auto.
Qed.
Lemma subl_incl a b : subl a b = true <-> incl a b.
Proof.
  unfold subl. rewrite forallb_forall. split; intros H x Hx.
  - apply cmem_In, H, Hx.
  - apply cmem_In, H, Hx.
Qed.
Lemma pk_eqb_refl a : pk_eqb a a = true.
Proof.
  destruct a as [c|l]; simpl; [apply Pos.eqb_refl|].
  assert (subl l l = true) as -> by (apply subl_incl, incl_refl). reflexivity.
Qed.
Lemma pk_eqb_sym a b : pk_eqb a b = pk_eqb b a.
Proof. destruct a, b; simpl; try reflexivity; [apply Pos.eqb_sym|apply andb_comm]. Qed.
Lemma pk_eqb_trans a b c : pk_eqb a b = true -> pk_eqb b c = true -> pk_eqb a c = true.
Proof.
  destruct a as [x|l], b as [y|m], c as [z|n]; simpl; try discriminate.
  - unfold ceqb. rewrite !Pos.eqb_eq. congruence.
  - rewrite !andb_true_iff, !subl_incl. intros [H1 H2] [H3 H4]. split; eapply incl_tran; eassumption.
Qed.

(* ------------------------------------------------------------------ result dictionaries of highest averages *)
Section DS.
  Context {X : Type}.
  Lemma dset_keys (t : list (C * X)) k v x : In x (map fst (dset t k v)) <-> x = k \/ In x (map fst t).
  Proof.
    induction t as [|[k' v'] t IH]; simpl; [intuition congruence|].
    destruct (ceqb k k') eqn:E; simpl.
    - apply ceqb_eq in E. subst k'. intuition congruence.
    - rewrite IH. intuition congruence.
  Qed.
  Lemma dset_nodup (t : list (C * X)) k v : NoDup (map fst t) -> NoDup (map fst (dset t k v)).
  Proof.
    induction t as [|[k' v'] t IH]; simpl; intros H.
    - constructor; [simpl; tauto|constructor].
    - inversion H as [|? ? Hk Hn]; subst. destruct (ceqb k k') eqn:E; simpl.
      + constructor; assumption.
      + constructor; [|apply IH, Hn]. rewrite dset_keys. intros [->|Hin]; [|contradiction].
        rewrite ceqb_refl in E. discriminate.
  Qed.
End DS.

Section HAW.
  Variable d : Z -> Q.
  Variable votes : list (C * Q).
  Variable caps : list (C * Z).
  Variable n : Z.

  Definition tot_wf (s : state) : Prop :=
    NoDup (map fst (st_totals s)) /\ forall T r, st_tie s = Some (T, r) -> 0 < r.

  Lemma fold_incr_nodup ks : forall t, NoDup (map fst t) -> NoDup (map fst (fold_left incr ks t)).
  Proof.
    induction ks as [|k ks IH]; intros t H; simpl; [exact H|]. apply IH. unfold incr, incr_t. apply dset_nodup, H.
  Qed.
  Lemma step_tot_wf s : 0 < st_rem s -> tot_wf s -> tot_wf (step d votes caps n s).
  Proof.
    intros Hr [H1 H2]. unfold step. destruct (st_qs s) as [|[c0 m] q]; [split; assumption|].
    destruct (Z.of_nat _ <=? st_rem s); split; simpl.
    - apply fold_incr_nodup, H1.
    - discriminate.
    - exact H1.
    - intros T r [= _ <-]. exact Hr.
  Qed.
  Lemma loop_tot_wf fuel : forall s, tot_wf s -> tot_wf (loop d votes caps n fuel s).
  Proof.
    induction fuel as [|f IH]; intros s H; simpl; [exact H|].
    destruct ((0 <? st_rem s) && negb match st_qs s with [] => true | _ :: _ => false end) eqn:E; [|exact H].
    apply andb_true_iff in E. destruct E as [E _]. apply Z.ltb_lt in E. apply IH, step_tot_wf; assumption.
  Qed.
End HAW.

Lemma final_tot_wf d votes n : tot_wf (final_state d votes n [] []).
Proof. unfold final_state. apply loop_tot_wf. split; simpl; [constructor|discriminate]. Qed.

Notation pknodup := (knodup pk_eqb).

Lemma gains_wf (gains : list (C * Z)) tp : NoDup (map fst gains) ->
  (tp = [] \/ exists l k, tp = [(PT l, k)]) ->
  pknodup (map (fun cs : C * Z => (PK (fst cs), snd cs)) gains ++ tp).
Proof.
  intros Hn Ht. induction gains as [|[c g] t IH]; simpl.
  - destruct Ht as [->|(l & k & ->)]; simpl; auto.
  - inversion Hn as [|? ? Hc Hn']; subst. split; [|apply IH, Hn'].
    unfold khas. rewrite existsb_app. apply orb_false_iff. split.
    + apply not_true_is_false. intros H. apply existsb_exists in H. destruct H as ([k v] & Hin & He).
      apply in_map_iff in Hin. destruct Hin as ([c' g'] & Heq & Hin). injection Heq as <- <-. simpl in He.
      apply ceqb_eq in He. subst c'. apply Hc. apply in_map_iff. exists (c, g'). auto.
    + destruct Ht as [->|(l & k & ->)]; reflexivity.
Qed.

Lemma flat_map_keys_nodup (f : C * Z -> list (C * Z)) (l : list (C * Z)) :
  (forall x y, In y (f x) -> fst y = fst x) -> (forall x, (length (f x) <= 1)%nat) ->
  NoDup (map fst l) -> NoDup (map fst (flat_map f l)).
Proof.
  intros Hk Hl. induction l as [|x t IH]; simpl; intros Hn; [constructor|].
  inversion Hn as [|? ? Hx Hn']; subst. rewrite map_app.
  assert (Hin : forall z, In z (map fst (flat_map f t)) -> In z (map fst t)).
  { intros z Hz. apply in_map_iff in Hz. destruct Hz as (y & <- & Hy). apply in_flat_map in Hy.
    destruct Hy as (x' & Hx' & Hy). rewrite (Hk _ _ Hy). apply in_map, Hx'. }
  pose proof (Hl x) as Hlen. destruct (f x) as [|y [|y' r]] eqn:E; simpl in *; [apply IH, Hn'| |lia].
  constructor; [|apply IH, Hn']. intros Hy. apply Hin in Hy.
  rewrite (Hk x y) in Hy by (rewrite E; left; reflexivity). contradiction.
Qed.

(* the inner evaluator answers with a dictionary without repeated keys and without negative entries *)
Theorem ha_eval_wf d votes n r : ha_eval d votes n = Ok r ->
  pknodup r /\ Forall (fun kv : pk * Z => 0 <= snd kv) r.
Proof.
  unfold ha_eval, evaluate. destruct (initial_quotients d votes [] [] n) as [|q0 qs]; [discriminate|].
  set (s := final_state d votes n [] []). intros [= <-].
  destruct (final_tot_wf d votes n) as [Hn Ht]. fold s in Hn, Ht.
  set (f := fun ct : C * Z => let (c, t) := ct in let g := t - dget_or [] c 0 in if 0 <? g then [(c, g)] else []).
  assert (Hkeys : NoDup (map fst (flat_map f (st_totals s)))).
  { apply flat_map_keys_nodup; [| |exact Hn].
    - intros [c t] y. unfold f. destruct (0 <? _); simpl; [intros [<-|[]]; reflexivity|tauto].
    - intros [c t]. unfold f. destruct (0 <? _); simpl; lia. }
  split.
  - apply gains_wf; [exact Hkeys|]. destruct (st_tie s) as [[l k]|]; [right; exists l, k; reflexivity|left; reflexivity].
  - apply Forall_app. split.
    + apply Forall_forall. intros [k v] Hin. apply in_map_iff in Hin. destruct Hin as ([c g] & [= <- <-] & Hin).
      apply in_flat_map in Hin. destruct Hin as ([c' t] & _ & Hin). unfold f in Hin.
      destruct (0 <? t - dget_or [] c' 0) eqn:E; [|destruct Hin]. destruct Hin as [[= <- <-]|[]].
      apply Z.ltb_lt in E. simpl. lia.
    + destruct (st_tie s) as [[l k]|] eqn:E; [|constructor]. constructor; [|constructor]. simpl.
      pose proof (Ht l k eq_refl). lia.
Qed.

(* ------------------------------------------------------------------ ByConstituency keeps that *)
Section BYCW.
  Context {K : Type}.
  Variable keqb : K -> K -> bool.
  Variable E : list (C * Q) -> Z -> eres (list (K * Z)).
  Variable P : list (K * Z) -> Prop.
  Hypothesis HE : forall v n r, E v n = Ok r -> P r.
  Hypothesis Hnil : P [].

  Lemma byc_districts_wf ap votes : forall l, byc_districts E ap votes = Ok l ->
    map fst l = map fst votes /\ Forall (fun cr => match snd cr with Some r => P r | None => True end) l.
  Proof.
    induction votes as [|[c dv] t IH]; simpl; intros l.
    - intros [= <-]. split; [reflexivity|constructor].
    - destruct (ap c =? 0).
      + destruct (byc_districts E ap t) as [l'| |]; simpl; try discriminate. intros [= <-].
        destruct (IH l' eq_refl) as [H1 H2]. split; [simpl; f_equal; exact H1|constructor; [exact I|exact H2]].
      + destruct (E dv (ap c)) as [r| |] eqn:Ee; simpl; try discriminate.
        destruct (byc_districts E ap t) as [l'| |]; simpl; try discriminate. intros [= <-].
        destruct (IH l' eq_refl) as [H1 H2]. split; [simpl; f_equal; exact H1|].
        constructor; [simpl; eapply HE; exact Ee|exact H2].
  Qed.

  Lemma byc_assemble_wf l res : byc_assemble l = Ok res ->
    Forall (fun cr => match snd cr with Some r => P r | None => True end) l ->
    Permutation (map fst res) (map fst l) /\ Forall (fun cd => P (snd cd)) res.
  Proof.
    unfold byc_assemble.
    set (results := flat_map (fun cr : Cty * option (list (K * Z)) => match snd cr with Some r => [(fst cr, r)] | None => [] end) l).
    set (novalue := flat_map (fun cr : Cty * option (list (K * Z)) => match snd cr with Some _ => [] | None => [(fst cr, @nil (K * Z))] end) l).
    intros Hres Hf.
    assert (Hperm : Permutation (map fst (results ++ novalue)) (map fst l) /\ Forall (fun cd => P (snd cd)) (results ++ novalue)).
    { subst results novalue. clear Hres. induction l as [|[c [r|]] t IH]; simpl.
      - split; [constructor|constructor].
      - inversion Hf as [|? ? H1 H2]; subst. destruct (IH H2) as [G1 G2]. split; [constructor; exact G1|].
        constructor; [exact H1|exact G2].
      - inversion Hf as [|? ? H1 H2]; subst. destruct (IH H2) as [G1 G2]. split.
        + rewrite map_app. simpl. eapply Permutation_trans; [apply Permutation_sym, Permutation_middle|].
          constructor. rewrite <- map_app. exact G1.
        + apply Forall_app in G2. destruct G2 as [G2 G3]. apply Forall_app. split; [exact G2|].
          constructor; [exact Hnil|exact G3]. }
    destruct results as [|x xs]; [discriminate|]. injection Hres as <-. exact Hperm.
  Qed.

  Theorem by_constituency_wf ap votes res : by_constituency E ap votes = Ok res -> NoDup (map fst votes) ->
    NoDup (map fst res) /\ incl (map fst res) (map fst votes) /\ Forall (fun cd => P (snd cd)) res.
  Proof.
    unfold by_constituency. destruct (byc_districts E ap votes) as [l| |] eqn:Ed; simpl; try discriminate.
    intros Ha Hn. destruct (byc_districts_wf ap votes l Ed) as [H1 H2].
    destruct (byc_assemble_wf l res Ha H2) as [H3 H4]. rewrite H1 in H3. split.
    - eapply Permutation_NoDup; [apply Permutation_sym, H3|exact Hn].
    - split; [|exact H4]. intros c Hc. eapply Permutation_in; [exact H3|exact Hc].
  Qed.

  Variable kof : C -> K.
  Theorem constituency_evaluator_wf a votes n res : constituency_evaluator keqb E kof a votes n = Ok res ->
    NoDup (map fst votes) ->
    NoDup (map fst res) /\ incl (map fst res) (map fst votes) /\ Forall (fun cd => P (snd cd)) res.
  Proof.
    unfold constituency_evaluator. destruct (apportion keqb E kof a votes n) as [ap| |]; simpl; try discriminate.
    apply by_constituency_wf.
  Qed.
End BYCW.

(* ------------------------------------------------------------------ the calculator with highest averages *)
Definition cty_list (votes : list (Cty * list (C * Q))) (prev : list (Cty * list (pk * Z))) : list Cty :=
  nodup Pos.eq_dec (map fst votes ++ map fst prev).
Lemma cty_list_nodup votes prev : NoDup (cty_list votes prev).
Proof. apply NoDup_nodup. Qed.
Lemma cty_list_votes votes prev : incl (map fst votes) (cty_list votes prev).
Proof. intros c Hc. apply nodup_In, in_app_iff. left. exact Hc. Qed.
Lemma cty_list_prev votes prev : incl (map fst prev) (cty_list votes prev).
Proof. intros c Hc. apply nodup_In, in_app_iff. right. exact Hc. Qed.

Lemma lobc_res_wf dc a votes n res :
  constituency_evaluator pk_eqb (ha_eval dc) PK a votes n = Ok res -> NoDup (map fst votes) ->
  wf_res pk_eqb res /\ nonneg_nested res /\ incl (map fst res) (map fst votes).
Proof.
  intros H Hn.
  destruct (constituency_evaluator_wf pk_eqb (ha_eval dc)
              (fun r => pknodup r /\ Forall (fun kv : pk * Z => 0 <= snd kv) r)
              (ha_eval_wf dc) (conj I (Forall_nil _)) PK a votes n res H Hn) as (H1 & H2 & H3).
  split; [split; [exact H1|]|split; [|exact H2]].
  - eapply Forall_impl; [|exact H3]. intros cd [Hd _]. exact Hd.
  - unfold nonneg_nested. eapply Forall_impl; [|exact H3]. intros cd [_ Hd]. exact Hd.
Qed.

(* every divisor, both kinds of apportioner, both kinds of overall evaluator *)
Theorem lobc_calculate_meaning dc a o fuel votes n prev r :
  NoDup (map fst votes) -> wf_prev pk_eqb prev ->
  lobc_calculate dc a o fuel votes n prev = BC_ok r ->
  exists res, constituency_evaluator pk_eqb (ha_eval dc) PK a votes n = Ok res /\
    0 <= r /\
    (exists pr, lobc_overall dc a o votes (n - drop_of pk_eqb res prev + r) = Ok pr /\
       forall k, tier pk_eqb res k = true -> need pk_eqb res prev (cty_list votes prev) k <= kget0 pk_eqb pr k) /\
    (forall x, 0 <= x < r -> exists ph, lobc_overall dc a o votes (n - drop_of pk_eqb res prev + x) = Ok ph /\
       exists k, tier pk_eqb res k = true /\ kget0 pk_eqb ph k < need pk_eqb res prev (cty_list votes prev) k).
Proof.
  intros Hn Hwp H. unfold lobc_calculate in H.
  destruct (bc_calculate_meaning pk_eqb pk_eqb_refl pk_eqb_sym pk_eqb_trans _ _ fuel n prev r (cty_list votes prev) H)
    as (res & Hc & Hr & Hrest).
  exists res. split; [exact Hc|]. split; [exact Hr|].
  destruct (lobc_res_wf dc a votes n res Hc Hn) as (Hw & _ & Hincl).
  apply Hrest; [exact Hw|exact Hwp|apply cty_list_nodup| |apply cty_list_prev].
  eapply incl_tran; [exact Hincl|apply cty_list_votes].
Qed.

(* zero adjustment: given overall evaluator *)
Theorem lobc_zero_given dc dn a fuel votes n prev res pr :
  NoDup (map fst votes) -> wf_prev pk_eqb prev ->
  constituency_evaluator pk_eqb (ha_eval dc) PK a votes n = Ok res ->
  no_overhang pk_eqb res prev ->
  ha_eval dn (qtotals votes) n = Ok pr ->
  (forall k, tier pk_eqb res k = true ->
     zsumf (fun c => share pk_eqb res c k) (cty_list votes prev) <= kget0 pk_eqb pr k) ->
  lobc_calculate dc a (Ov_given dn) fuel votes n prev = BC_ok 0.
Proof.
  intros Hn Hwp Hc Hno He Hcov. unfold lobc_calculate. rewrite Hc.
  destruct (lobc_res_wf dc a votes n res Hc Hn) as (Hw & Hnn & Hincl).
  apply (bc_calculate_zero pk_eqb pk_eqb_refl pk_eqb_sym pk_eqb_trans _ res fuel n prev pr (cty_list votes prev));
    try assumption; [apply cty_list_nodup| |apply cty_list_prev].
  eapply incl_tran; [exact Hincl|apply cty_list_votes].
Qed.

(* zero adjustment: default overall evaluator (the merged constituency results): no further condition *)
Theorem lobc_zero_default dc a fuel votes n prev res :
  NoDup (map fst votes) -> wf_prev pk_eqb prev ->
  constituency_evaluator pk_eqb (ha_eval dc) PK a votes n = Ok res ->
  no_overhang pk_eqb res prev ->
  lobc_calculate dc a Ov_default fuel votes n prev = BC_ok 0.
Proof.
  intros Hn Hwp Hc Hno. unfold lobc_calculate. rewrite Hc.
  destruct (lobc_res_wf dc a votes n res Hc Hn) as (Hw & Hnn & Hincl).
  assert (Hir : incl (map fst res) (cty_list votes prev)) by (eapply incl_tran; [exact Hincl|apply cty_list_votes]).
  apply (bc_calculate_zero pk_eqb pk_eqb_refl pk_eqb_sym pk_eqb_trans _ res fuel n prev
           (ktotals pk_eqb (map snd res)) (cty_list votes prev));
    try assumption; [apply cty_list_nodup|apply cty_list_prev| |].
  - unfold lobc_overall. rewrite Hc. reflexivity.
  - intros k _. rewrite (ktotals_share pk_eqb pk_eqb_sym pk_eqb_trans res (cty_list votes prev) k Hw (cty_list_nodup _ _) Hir). lia.
Qed.

(* out of fuel, and independence of the fuel *)
Theorem lobc_fuel_iff dc a o fuel votes n prev res :
  constituency_evaluator pk_eqb (ha_eval dc) PK a votes n = Ok res ->
  (lobc_calculate dc a o fuel votes n prev = BC_fuel <->
   forall x, 0 <= x <= Z.of_nat fuel ->
     exists ph, lobc_overall dc a o votes (n - drop_of pk_eqb res prev + x) = Ok ph /\
                ksatisfied pk_eqb (lowest_allowed pk_eqb res prev) ph = false).
Proof. intros Hc. unfold lobc_calculate. rewrite Hc. apply bc_calculate_fuel_iff. Qed.

Theorem lobc_fuel_mono dc a o fuel fuel' votes n prev : (fuel <= fuel')%nat ->
  lobc_calculate dc a o fuel votes n prev <> BC_fuel ->
  lobc_calculate dc a o fuel' votes n prev = lobc_calculate dc a o fuel votes n prev.
Proof. intros Hle. unfold lobc_calculate. apply bc_calculate_fuel_mono. exact Hle. Qed.

(* ------------------------------------------------------------------ AdjustedSeatCount with ByParty around the calculator *)
Lemma evaluate_gains_pos d v n p c gains tie :
  HighestAverages.evaluate d v n p c = HA_ok gains tie -> Forall (fun cs : C * Z => 0 < snd cs) gains.
Proof.
  unfold evaluate. destruct (initial_quotients d v p c n); [discriminate|]. intros [= <- _].
  apply Forall_forall. intros [k g] Hin. apply in_flat_map in Hin. destruct Hin as ([c' t] & _ & Hin).
  destruct (0 <? t - dget_or p c' 0) eqn:E; [|destruct Hin]. destruct Hin as [[= <- <-]|[]].
  apply Z.ltb_lt in E. exact E.
Qed.

Lemma bp_allocate_pos da votes prev overall : forall gains,
  bp_allocate da votes prev overall = BP_ok gains -> Forall (fun g : Cty * C * Z => 0 < snd g) gains.
Proof.
  induction overall as [|[[p|l] np] t IH]; simpl; intros gains.
  - intros [= <-]. constructor.
  - destruct (HighestAverages.evaluate da (party_votes votes p) np (party_prev prev p) []) as [g tie|] eqn:E; [|discriminate].
    destruct (bp_allocate da votes prev t) as [l| |]; try discriminate.
    destruct tie; [discriminate|]. intros [= <-]. apply Forall_app. split; [|apply IH; reflexivity].
    pose proof (evaluate_gains_pos _ _ _ _ _ _ _ E) as Hg. apply Forall_forall. intros x Hx.
    apply in_map_iff in Hx. destruct Hx as ([c s] & <- & Hin). rewrite Forall_forall in Hg. exact (Hg _ Hin).
  - destruct (bp_allocate da votes prev t); discriminate.
Qed.

Theorem by_party_pos dn da votes h prev gains :
  by_party dn da votes h prev = BP_ok gains -> Forall (fun g : Cty * C * Z => 0 < snd g) gains.
Proof. unfold by_party. destruct (ha_eval dn (qtotals votes) h); try discriminate. apply bp_allocate_pos. Qed.

(* The house is the baseline plus the non-negative adjustment; the second stage only adds seats; when all first
   round seats belong to tier parties, the national distribution ByParty starts from - the one of the enlarged
   house - gives every tier party at least its first round seats and at least its constituency-wise share. *)
Theorem adjusted_byc_meaning dc a dn da fuel votes n prev adj fin :
  NoDup (map fst votes) -> wf_prev pk_eqb prev ->
  adjusted_byc dc a (Ov_given dn) dn da fuel votes n prev = ASC adj fin ->
  0 <= adj /\ fin = by_party dn da votes (n + adj) prev /\
  (forall gains, fin = BP_ok gains -> Forall (fun g : Cty * C * Z => 0 < snd g) gains) /\
  exists res, constituency_evaluator pk_eqb (ha_eval dc) PK a votes n = Ok res /\
    (direct_in_tier pk_eqb res prev ->
     exists nat, ha_eval dn (qtotals votes) (n + adj) = Ok nat /\
       forall k, tier pk_eqb res k = true ->
         zsumf (fun c => direct pk_eqb prev c k) (cty_list votes prev) <= kget0 pk_eqb nat k /\
         zsumf (fun c => share pk_eqb res c k) (cty_list votes prev) <= kget0 pk_eqb nat k).
Proof.
  intros Hn Hwp. unfold adjusted_byc.
  destruct (lobc_calculate dc a (Ov_given dn) fuel votes n prev) as [adj'| | |] eqn:Ec; try discriminate.
  intros [= <- <-].
  destruct (lobc_calculate_meaning dc a (Ov_given dn) fuel votes n prev adj' Hn Hwp Ec)
    as (res & Hc & Hr & (pr & Hp1 & Hp2) & _).
  split; [exact Hr|]. split; [reflexivity|]. split; [intros gains Hg; exact (by_party_pos _ _ _ _ _ _ Hg)|].
  exists res. split; [exact Hc|]. intros Hd.
  rewrite (drop_zero_tier pk_eqb pk_eqb_sym pk_eqb_trans res prev Hd) in Hp1.
  replace (n - 0 + adj') with (n + adj') in Hp1 by lia. simpl in Hp1.
  exists pr. split; [exact Hp1|]. intros k Ht. pose proof (Hp2 k Ht) as Hk. split.
  - eapply Z.le_trans; [apply need_ge_direct|exact Hk].
  - eapply Z.le_trans; [apply need_ge_share|exact Hk].
Qed.

(* ------------------------------------------------------------------ a Tie key of the national result holds fewer seats than
   there are parties: with two level parties in two constituencies the loop has no end *)
From VL Require Import Proofs.HA_proofs Proofs.Divisor_proofs Model.Divisor.

Lemma kget_PT_app (gains : list (C * Z)) tp l :
  kget pk_eqb (map (fun cs : C * Z => (PK (fst cs), snd cs)) gains ++ tp) (PT l) = kget pk_eqb tp (PT l).
Proof. induction gains as [|[c g] t IH]; simpl; [reflexivity|exact IH]. Qed.

Lemma filter_length_le' {X} (f : X -> bool) l : (length (filter f l) <= length l)%nat.
Proof. induction l as [|x l IH]; simpl; [lia|]. destruct (f x); simpl; lia. Qed.

Theorem ha_eval_tie_bound d votes n ph l : divisor_ok d ->
  (forall c v, In (c, v) votes -> (0 <= v)%Q) -> NoDup (map fst votes) ->
  ha_eval d votes n = Ok ph ->
  kget0 pk_eqb ph (PT l) < Z.max 1 (Z.of_nat (length votes)).
Proof.
  intros [Hpos Hmono] Hv Hnd. unfold ha_eval, evaluate.
  destruct (initial_quotients d votes [] [] n) as [|q0 qs]; [discriminate|]. intros [= <-].
  unfold kget0. rewrite kget_PT_app.
  assert (Hp0 : forall c : C, 0 <= dget_or (@nil (C * Z)) c 0) by (intros c; unfold dget_or; simpl; lia).
  destruct (st_tie (final_state d votes n [] [])) as [[T r]|] eqn:Et; cbn [kget]; [|lia].
  destruct (pk_eqb (PT l) (PT T)); [|lia].
  destruct (ha_tie d votes [] [] n Hpos Hmono Hv Hnd Hp0 T r Et) as (_ & Hr & m & _ & _ & Hperm).
  destruct (ha_queue d votes [] [] n Hpos Hmono Hv Hnd Hp0) as (Hq1 & _ & Hq3).
  assert (Hlen : (length T <= length votes)%nat).
  { rewrite (Permutation_length Hperm), map_length.
    eapply Nat.le_trans; [apply filter_length_le'|].
    rewrite <- (map_length fst (st_qs _)), <- (map_length fst votes).
    apply NoDup_incl_length; [exact Hq1|]. intros c Hc. apply in_map_iff in Hc. destruct Hc as (it & <- & Hit).
    rewrite Forall_forall in Hq3. destruct (Hq3 _ Hit) as (v & Hin & _). apply in_map_iff. exists (fst it, v). auto. }
  lia.
Qed.

Lemma ha_eval_answers (d : Z -> Q) votes n : (0 < d 0%Z)%Q -> 0 < n -> votes <> [] -> exists ph, ha_eval d votes n = Ok ph.
Proof.
  intros Hd Hn Hv. unfold ha_eval, evaluate.
  destruct (initial_quotients d votes [] [] n) as [|q0 qs] eqn:E; [exfalso|eexists; reflexivity].
  unfold initial_quotients in E.
  set (items := flat_map _ votes) in E.
  assert (Hitems : items <> []).
  { subst items. destruct votes as [|[c v] t]; [congruence|]. simpl. unfold dget_or, cap_of, dget_or. simpl.
    assert (Qle_bool (d 0) 0 = false) as ->.
    { destruct (Qle_bool (d 0) 0) eqn:Eq; [|reflexivity]. apply Qle_bool_iff in Eq. exfalso. apply (Qlt_not_le _ _ Hd Eq). }
    assert (0 <? n = true) as -> by (apply Z.ltb_lt; exact Hn). simpl. discriminate. }
  apply (f_equal (@length _)) in E. rewrite rev_length in E.
  rewrite (Permutation_length (sort_asc_perm items)) in E. destruct items; [congruence|simpl in E; discriminate].
Qed.

(* two parties level in each of two one-seat constituencies: for EVERY fuel the model is out of fuel -
   the Python loop has no end on this input *)
Theorem lobc_tie_diverges : forall fuel,
  lobc_calculate d_hondt (App_dict [(1%positive, 1); (2%positive, 1)]) (Ov_given d_hondt) fuel
    [(1%positive, [(1%positive, 1%Q); (2%positive, 1%Q)]); (2%positive, [(1%positive, 1%Q); (2%positive, 1%Q)])] 2 [] = BC_fuel.
Proof.
  intros fuel.
  set (votes := [(1%positive, [(1%positive, 1%Q); (2%positive, 1%Q)]); (2%positive, [(1%positive, 1%Q); (2%positive, 1%Q)])]).
  set (a := App_dict [(1%positive, 1); (2%positive, 1)]).
  assert (Hc : constituency_evaluator pk_eqb (ha_eval d_hondt) PK a votes 2
               = Ok [(1%positive, [(PT [1%positive; 2%positive], 1)]); (2%positive, [(PT [1%positive; 2%positive], 1)])])
    by (vm_compute; reflexivity).
  apply (lobc_fuel_iff d_hondt a (Ov_given d_hondt) fuel votes 2 [] _ Hc).
  intros x Hx.
  assert (Hlow : lowest_allowed pk_eqb [(1%positive, [(PT [1%positive; 2%positive], 1)]); (2%positive, [(PT [1%positive; 2%positive], 1)])] []
                 = [(PT [1%positive; 2%positive], 2)]) by (vm_compute; reflexivity).
  assert (Hdrop : drop_of pk_eqb [(1%positive, [(PT [1%positive; 2%positive], 1)]); (2%positive, [(PT [1%positive; 2%positive], 1)])] [] = 0)
    by (vm_compute; reflexivity).
  rewrite Hlow, Hdrop. unfold lobc_overall.
  assert (Hq : qtotals votes = [(1%positive, 2%Q); (2%positive, 2%Q)]) by (vm_compute; reflexivity).
  rewrite Hq.
  destruct (ha_eval_answers d_hondt [(1%positive, 2%Q); (2%positive, 2%Q)] (2 - 0 + x)) as (ph & Hph);
    [vm_compute; reflexivity|lia|discriminate|].
  exists ph. split; [exact Hph|].
  pose proof (ha_eval_tie_bound d_hondt [(1%positive, 2%Q); (2%positive, 2%Q)] (2 - 0 + x) ph [1%positive; 2%positive]
                (proj1 d_hondt_ok)) as Hb.
  assert (Hlt : kget0 pk_eqb ph (PT [1%positive; 2%positive]) < 2).
  { assert (H1 : forall (c : C) (v : Q), In (c, v) [(1%positive, 2%Q); (2%positive, 2%Q)] -> (0 <= v)%Q)
      by (intros c v [[= <- <-]|[[= <- <-]|[]]]; discriminate).
    assert (H2 : NoDup (map fst [(1%positive, 2%Q); (2%positive, 2%Q)]))
      by (simpl; constructor; [simpl; intros [H|[]]; discriminate|constructor; [simpl; tauto|constructor]]).
    pose proof (Hb H1 H2 Hph) as H3. cbn [length] in H3. lia. }
  unfold ksatisfied. simpl. apply andb_false_iff. left. apply negb_false_iff, Z.ltb_lt. exact Hlt.
Qed.
