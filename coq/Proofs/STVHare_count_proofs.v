(* The Hare (random whole-ballot) transferer, part 3: every count of every run, for EVERY oracle
   (Model/STVHare.v: next_count_h, run_h, stv_h): conservation with one quota per quota seat,
   whole non-negative weights, resting place, election rule, elimination rule, and the stops a
   count can end with. *)
From Coq Require Import ZArith QArith Qround Qreduction Setoid List Bool Arith Lia Lqa.
From VL Require Import Prelude.PyDict Model.GetNBest Model.Convert Model.STV Model.STVHare
     Proofs.STV_proofs Proofs.STV_elim_proofs Proofs.STV_resting_proofs Proofs.STVHare_draws_proofs Proofs.STVHare_proofs.
Import ListNotations.
Open Scope Q_scope.

Lemma lift_h_next r el a' el' o' : lift_h r el = HC_next a' el' o' -> r = HOk a' o' /\ el' = el.
Proof. destruct r as [a o|s]; simpl; [intros [= <- <- <-]; auto|discriminate]. Qed.

(* ================================================================ one count *)
(* I1, one step: the votes held after a count, plus one quota per seat filled by quota in that count, equal the
   votes held before - whatever ballots the oracle draws *)
Theorem next_count_h_conserves cf a n_seats total prev caps o a' el o' :
  NoDup (akeys a) -> (forall c, (0 <= dget_or prev c 0)%Z) ->
  (forall qv, quota_of cf total n_seats = Some qv -> 0 < qv) ->
  next_count_h cf a n_seats total prev caps o = HC_next a' el o' ->
  NoDup (akeys a') /\ (forall c s, In (c, s) el -> (0 < s)%Z) /\
  match quota_of cf total n_seats with
  | Some qv => asum a' + inject_Z (seats_sum el) * qv == asum a
  | None => asum a' == asum a /\ el = []
  end.
Proof.
  intros Hnd Hprev Hqpos. unfold next_count_h. fold (quota_of cf total n_seats).
  destruct (negb _ && _ && _); [discriminate|].
  destruct (quota_of cf total n_seats) as [qv|] eqn:Eq.
  - pose proof (Hqpos qv eq_refl) as Hq.
    destruct (elect_by_quota cf (totals a) (Some qv) _ prev caps) as [[el0|]|s] eqn:Ee; [| |discriminate].
    + destruct (elect_by_quota_sound cf qv Hq a _ prev caps el0 Hnd Hprev Ee) as [Hk Hs].
      destruct (subtract_h a (map (fun cs : C * Z => (fst cs, inject_Z (snd cs) * qv)) el0) o) as [a1 o1|s] eqn:Es; [|discriminate].
      destruct (subtract_h_conserves (map (fun cs : C * Z => (fst cs, inject_Z (snd cs) * qv)) el0) a o a1 o1 Hnd) as [H1 H2]; [rewrite map_map; simpl; exact Hk|exact Es|].
      assert (Hn1 : NoDup (akeys a1)) by (rewrite H2; exact Hnd).
      rewrite amounts_sum in H1.
      destruct (flat_map _ el0) as [|e es] eqn:Eel.
      * intros [= <- <- <-]. split; [exact Hn1|]. split; [intros c s Hin; apply (Hs c s Hin)|]. rewrite H1. ring.
      * intros Hl. apply lift_h_next in Hl. destruct Hl as [Ht ->].
        destruct (transfer_h_conserves a1 (e :: es) o1 a' o' Hn1 Ht) as [H3 H4].
        split; [exact H4|]. split; [intros c s Hin; apply (Hs c s Hin)|]. rewrite H3, H1. ring.
    + set (in_play := some_totals (totals a)).
      destruct (existsb _ _); [discriminate|].
      destruct (filter _ (map fst in_play)) as [|e es] eqn:Eel.
      * intros [= <- <- <-]. split; [exact Hnd|]. split; [intros c s []|]. simpl. ring.
      * intros Hl. apply lift_h_next in Hl. destruct Hl as [Ht ->].
        destruct (transfer_h_conserves a (e :: es) o a' o' Hnd Ht) as [H3 H4].
        split; [exact H4|]. split; [intros c s []|]. rewrite H3. simpl. ring.
  - simpl. set (in_play := some_totals (totals a)).
    destruct (existsb _ _); [discriminate|].
    destruct (filter _ (map fst in_play)) as [|e es] eqn:Eel.
    + intros [= <- <- <-]. split; [exact Hnd|]. split; [intros c s []|]. split; reflexivity.
    + intros Hl. apply lift_h_next in Hl. destruct Hl as [Ht ->].
      destruct (transfer_h_conserves a (e :: es) o a' o' Hnd Ht) as [H3 H4].
      split; [exact H4|]. split; [intros c s []|]. split; [exact H3|reflexivity].
Qed.

(* I2 + whole ballots: the weights stay whole and non-negative *)
Theorem next_count_h_whole cf a n_seats total prev caps o a' el o' :
  alloc_whole a -> next_count_h cf a n_seats total prev caps o = HC_next a' el o' -> alloc_whole a'.
Proof.
  intros Hw. unfold next_count_h.
  destruct (negb _ && _ && _); [discriminate|].
  match goal with |- context [elect_by_quota cf (totals a) ?qo ?nr prev caps] =>
    destruct (elect_by_quota cf (totals a) qo nr prev caps) as [[el0|]|s]; [| |discriminate]; destruct qo as [qv|] end;
    try discriminate.
  - destruct (subtract_h a _ o) as [a1 o1|s] eqn:Es; [|discriminate].
    pose proof (subtract_h_whole _ a o a1 o1 Hw Es) as Hw1.
    destruct (flat_map _ el0) as [|e es]; [intros [= <- <- <-]; exact Hw1|].
    intros Hl. apply lift_h_next in Hl. destruct Hl as [Ht _]. exact (transfer_h_whole _ _ _ _ _ Hw1 Ht).
  - destruct (existsb _ _); [discriminate|].
    destruct (filter _ _) as [|e es]; [intros [= <- <- <-]; exact Hw|].
    intros Hl. apply lift_h_next in Hl. destruct Hl as [Ht _]. exact (transfer_h_whole _ _ _ _ _ Hw Ht).
  - destruct (existsb _ _); [discriminate|].
    destruct (filter _ _) as [|e es]; [intros [= <- <- <-]; exact Hw|].
    intros Hl. apply lift_h_next in Hl. destruct Hl as [Ht _]. exact (transfer_h_whole _ _ _ _ _ Hw Ht).
Qed.

(* I3 *)
Theorem next_count_h_resting cf a n_seats total prev caps o a' el o' :
  resting_ok a -> next_count_h cf a n_seats total prev caps o = HC_next a' el o' -> resting_ok a'.
Proof.
  intros Hr. unfold next_count_h.
  destruct (negb _ && _ && _); [discriminate|].
  match goal with |- context [elect_by_quota cf (totals a) ?qo ?nr prev caps] =>
    destruct (elect_by_quota cf (totals a) qo nr prev caps) as [[el0|]|s]; [| |discriminate]; destruct qo as [qv|] end;
    try discriminate.
  - destruct (subtract_h a _ o) as [a1 o1|s] eqn:Es; [|discriminate].
    pose proof (subtract_h_resting _ a o a1 o1 Hr Es) as Hr1.
    destruct (flat_map _ el0) as [|e es]; [intros [= <- <- <-]; exact Hr1|].
    intros Hl. apply lift_h_next in Hl. destruct Hl as [Ht _]. exact (transfer_h_resting _ _ _ _ _ Hr1 Ht).
  - destruct (existsb _ _); [discriminate|].
    destruct (filter _ _) as [|e es]; [intros [= <- <- <-]; exact Hr|].
    intros Hl. apply lift_h_next in Hl. destruct Hl as [Ht _]. exact (transfer_h_resting _ _ _ _ _ Hr Ht).
  - destruct (existsb _ _); [discriminate|].
    destruct (filter _ _) as [|e es]; [intros [= <- <- <-]; exact Hr|].
    intros Hl. apply lift_h_next in Hl. destruct Hl as [Ht _]. exact (transfer_h_resting _ _ _ _ _ Hr Ht).
Qed.

(* election rule: whoever is elected in a count holds at least one quota per seat received (before the draw) *)
Theorem next_count_h_election cf a n_seats total prev caps o a' el o' :
  NoDup (akeys a) -> (forall c, (0 <= dget_or prev c 0)%Z) ->
  (forall qv, quota_of cf total n_seats = Some qv -> 0 < qv) ->
  next_count_h cf a n_seats total prev caps o = HC_next a' el o' ->
  NoDup (map fst el) /\
  forall c s, In (c, s) el -> (0 < s)%Z /\
    exists qv p, quota_of cf total n_seats = Some qv /\ alloc_get a (Some c) = Some p /\ inject_Z s * qv <= wsum p.
Proof.
  intros Hnd Hprev Hqpos. unfold next_count_h. fold (quota_of cf total n_seats).
  destruct (negb _ && _ && _); [discriminate|].
  assert (Hnil : NoDup (map fst (@nil (C * Z))) /\ forall c s, In (c, s) (@nil (C * Z)) -> (0 < s)%Z /\
            exists qv p, quota_of cf total n_seats = Some qv /\ alloc_get a (Some c) = Some p /\ inject_Z s * qv <= wsum p).
  { split; [constructor|intros c s []]. }
  destruct (quota_of cf total n_seats) as [qv|] eqn:Eq.
  - pose proof (Hqpos qv eq_refl) as Hq.
    destruct (elect_by_quota cf (totals a) (Some qv) _ prev caps) as [[el0|]|s] eqn:Ee; [| |discriminate].
    + destruct (elect_by_quota_sound cf qv Hq a _ prev caps el0 Hnd Hprev Ee) as [Hk Hs].
      destruct (subtract_h a _ o) as [a1 o1|s]; [|discriminate].
      assert (Hres : NoDup (map fst el0) /\ forall c s, In (c, s) el0 -> (0 < s)%Z /\
                exists qv0 p, Some qv = Some qv0 /\ alloc_get a (Some c) = Some p /\ inject_Z s * qv0 <= wsum p).
      { split; [exact Hk|]. intros c s Hin. destruct (Hs c s Hin) as (H1 & p & H2 & H3). split; [exact H1|]. exists qv, p. auto. }
      destruct (flat_map _ el0) as [|e es]; [intros [= <- <- <-]; exact Hres|].
      intros Hl. apply lift_h_next in Hl. destruct Hl as [_ ->]. exact Hres.
    + destruct (existsb _ _); [discriminate|].
      destruct (filter _ _) as [|e es]; [intros [= <- <- <-]; exact Hnil|].
      intros Hl. apply lift_h_next in Hl. destruct Hl as [_ ->]. exact Hnil.
  - simpl. destruct (existsb _ _); [discriminate|].
    destruct (filter _ _) as [|e es]; [intros [= <- <- <-]; exact Hnil|].
    intros Hl. apply lift_h_next in Hl. destruct Hl as [_ ->]. exact Hnil.
Qed.

(* elimination rule: when the shortcut does not apply and nobody reaches the quota, the count refuses a tie at the
   cut and otherwise transfers away exactly the candidates [eliminated cf a] of Proofs/STV_elim_proofs.v (their
   number, their being the lowest and the exhausted pile not being a contender are proved there for any allocation) *)
Theorem next_count_h_noquota cf a n total prev caps o quota :
  next_count_h cf a n total prev caps o <> HC_all (flat_map (fun kt : option C * Q => match fst kt with
                                         | Some c => [(c, (dget_or caps c 0 - dget_or prev c 0)%Z)]
                                         | None => [] end) (sort_desc Qle_bool (totals a))) ->
  quota = match c_quota cf with
          | Some qf => if Qeq_bool total 0 || (n =? 0)%Z then None else Some (qf total n)
          | None => None end ->
  elect_by_quota cf (totals a) quota (n - zsum (map snd prev))%Z prev caps = inl None ->
  next_count_h cf a n total prev caps o =
    if has_tie_r (retained cf a) then HC_stop (HS_std S_nie)
    else match eliminated cf a with
         | [] => HC_next a [] o
         | _ => lift_h (transfer_h a (eliminated cf a) o) []
         end.
Proof.
  intros Hns -> He. unfold next_count_h in *. cbv zeta in *.
  destruct (negb _ && _ && negb (c_mandatory cf)); [exfalso; apply Hns; reflexivity|].
  rewrite He. reflexivity.
Qed.

(* ================================================================ the stops of a count *)
(* With whole non-negative weights the count never leaves the modelled domain, never draws more ballots than a pile
   holds and never misses a pile: it can only refuse a tie, meet a fractional number of ballots to draw (TypeError:
   seats * quota is not whole) or reject the oracle. *)
Lemma hare_subtract_err p n o s : hare_subtract p n o = HErr s -> pile_whole p -> 0 < n -> n <= wsum p ->
  s = HS_oracle \/ (s = HS_type /\ is_int n = false).
Proof.
  intros H Hp Hn Hle. unfold hare_subtract in H. destruct p as [|bw0 p0] eqn:Ep; [simpl in Hle; lra|]. rewrite <- Ep in *. clear Ep bw0 p0.
  apply pile_whole_forallb in Hp. rewrite Hp in H. cbn [negb] in H. apply pile_whole_forallb in Hp.
  assert (Hr : Qle_bool 0 n && Qle_bool n (inject_Z (pile_total p)) = true).
  { apply andb_true_iff. split; apply Qle_bool_iff; [lra|rewrite <- (pile_total_wsum p Hp); exact Hle]. }
  rewrite Hr in H. cbn [negb] in H. destruct (is_int n) eqn:Ei; cbn [negb] in H; [|injection H as <-; right; auto].
  destruct o as [|ds o0]; [injection H as <-; left; reflexivity|].
  destruct (draws_ok _ _ _); [discriminate|injection H as <-; left; reflexivity].
Qed.

Lemma hare_split_err T w o s : hare_split T w o = HErr s -> is_int w = true -> s = HS_oracle.
Proof.
  unfold hare_split. intros H Hi. rewrite Hi in H. cbn [negb] in H.
  destruct (negb _ && _); [discriminate|]. destruct o as [|ds o0]; [injection H as <-; reflexivity|].
  destruct (draws_ok _ _ _); [discriminate|injection H as <-; reflexivity].
Qed.

Lemma move_h_err a T b w o s : move_h a T b w o = HErr s -> whole_nonneg w = true -> s = HS_oracle.
Proof.
  unfold move_h. destruct T as [|t [|t2 T]]; [discriminate|discriminate|].
  destruct (hare_split _ w o) as [sh o1|s1] eqn:Es; [discriminate|]. intros [= <-] Hw.
  apply (hare_split_err _ _ _ _ Es). unfold whole_nonneg in Hw. apply andb_true_iff in Hw. tauto.
Qed.

Lemma pour_h_err cont c : forall p a o s, pour_h cont c p a o = HErr s -> pile_whole p -> s = HS_oracle.
Proof.
  induction p as [|[b w] p IH]; intros a o s; cbn [pour_h]; [discriminate|]. cbn [fst snd].
  intros H Hp. inversion Hp; subst.
  destruct (move_h a (ranked_next b c cont) b w o) as [a1 o1|s1] eqn:Em.
  - exact (IH _ _ _ H ltac:(assumption)).
  - injection H as <-. eapply move_h_err; eassumption.
Qed.

Lemma transfer_loop_err cont : forall rem a o s, transfer_loop cont rem a o = HErr s -> alloc_whole a -> s = HS_oracle.
Proof.
  induction rem as [|c rem IH]; intros a o s; cbn [transfer_loop]; [discriminate|].
  intros H Ha.
  assert (Hp : pile_whole (match alloc_get a (Some c) with Some p => p | None => [] end)).
  { destruct (alloc_get a (Some c)) eqn:E; [eapply alloc_get_whole; eassumption|constructor]. }
  destruct (pour_h cont c _ a o) as [a1 o1|s1] eqn:Ep.
  - apply (IH _ _ _ H). apply alloc_del_whole. eapply pour_h_whole; eassumption.
  - injection H as <-. eapply pour_h_err; eassumption.
Qed.

Lemma transfer_h_err a elim o s : transfer_h a elim o = HErr s -> alloc_whole a -> s = HS_oracle.
Proof. unfold transfer_h. apply transfer_loop_err. Qed.

Lemma subtract_h_err elected : forall a o s, subtract_h a elected o = HErr s ->
  alloc_whole a -> NoDup (akeys a) -> NoDup (map fst elected) ->
  (forall c amt, In (c, amt) elected -> 0 < amt /\ exists p, alloc_get a (Some c) = Some p /\ amt <= wsum p) ->
  s = HS_oracle \/ (s = HS_type /\ exists c amt, In (c, amt) elected /\ is_int amt = false).
Proof.
  induction elected as [|[c amt] t IH]; intros a o s; cbn [subtract_h]; [discriminate|].
  intros H Ha Hnd Hd Hel. destruct (Hel c amt (or_introl eq_refl)) as (Hpos & p & Hg & Hle). rewrite Hg in H.
  inversion Hd as [|? ? Hc Hd']; subst.
  destruct (hare_subtract p amt o) as [p' o1|s1] eqn:Es.
  - destruct (hare_subtract_spec _ _ _ _ _ Es) as (_ & S2 & _).
    destruct (replace_pile_sum a c p p' Hnd Hg) as [_ Hk]. fold (set_pile a c p') in Hk.
    destruct (IH _ _ _ H) as [R|(R & c0 & amt0 & Hin & Hi)].
    + apply set_pile_whole; assumption.
    + unfold akeys in *. rewrite Hk. exact Hnd.
    + exact Hd'.
    + intros c0 amt0 Hin. destruct (Hel c0 amt0 (or_intror Hin)) as (H1 & p0 & H2 & H3). split; [exact H1|]. exists p0.
      split; [|exact H3]. rewrite set_pile_get_other; [exact H2|]. intros ->. apply Hc. apply in_map_iff. exists (c, amt0). auto.
    + left. exact R.
    + right. split; [exact R|]. exists c0, amt0. split; [right; exact Hin|exact Hi].
  - injection H as <-. destruct (hare_subtract_err _ _ _ _ Es (alloc_get_whole _ _ _ Ha Hg) Hpos Hle) as [R|[R Hi]]; [left; exact R|].
    right. split; [exact R|]. exists c, amt. split; [left; reflexivity|exact Hi].
Qed.

Lemma elect_by_quota_inr cf tot quota n_rem prev caps s : elect_by_quota cf tot quota n_rem prev caps = inr s -> s = S_nie.
Proof.
  unfold elect_by_quota. destruct quota as [q|]; [|discriminate].
  destruct (flat_map _ _) as [|x sel]; [discriminate|]. destruct (_ <? _)%Z; [|discriminate].
  destruct (existsb _ _); [intros [= <-]; reflexivity|discriminate].
Qed.

Theorem next_count_h_stops cf a n_seats total prev caps o s :
  NoDup (akeys a) -> alloc_whole a -> (forall c, (0 <= dget_or prev c 0)%Z) ->
  (forall qv, quota_of cf total n_seats = Some qv -> 0 < qv) ->
  next_count_h cf a n_seats total prev caps o = HC_stop s ->
  s = HS_std S_nie \/ s = HS_oracle \/
  (s = HS_type /\ exists qv k, quota_of cf total n_seats = Some qv /\ (0 < k)%Z /\ is_int (inject_Z k * qv) = false).
Proof.
  intros Hnd Hw Hprev Hqpos. unfold next_count_h. fold (quota_of cf total n_seats).
  destruct (negb _ && _ && _); [discriminate|].
  assert (Hlift : forall r el, lift_h r el = HC_stop s -> r = HErr s).
  { intros [a0 o0|s0] el0; simpl; [discriminate|intros [= ->]; reflexivity]. }
  destruct (quota_of cf total n_seats) as [qv|] eqn:Eq.
  - pose proof (Hqpos qv eq_refl) as Hq.
    destruct (elect_by_quota cf (totals a) (Some qv) _ prev caps) as [[el0|]|s0] eqn:Ee.
    + destruct (elect_by_quota_sound cf qv Hq a _ prev caps el0 Hnd Hprev Ee) as [Hk Hs].
      destruct (subtract_h a (map (fun cs : C * Z => (fst cs, inject_Z (snd cs) * qv)) el0) o) as [a1 o1|s1] eqn:Es.
      * destruct (flat_map _ el0) as [|e es]; [discriminate|]. intros Hl. apply Hlift in Hl.
        right. left. apply (transfer_h_err _ _ _ _ Hl). eapply subtract_h_whole; eassumption.
      * intros [= <-].
        destruct (subtract_h_err _ a o s1 Es Hw Hnd) as [R|(R & c & amt & Hin & Hi)].
        -- rewrite map_map. simpl. exact Hk.
        -- intros c amt Hin. apply in_map_iff in Hin. destruct Hin as ([c0 s0] & [= <- <-] & Hin).
           destruct (Hs c0 s0 Hin) as (H1 & p & H2 & H3). simpl. split; [|exists p; auto].
           apply Qmult_lt_0_compat; [|exact Hq]. rewrite <- (Zlt_Qlt 0). exact H1.
        -- right. left. exact R.
        -- right. right. split; [exact R|]. apply in_map_iff in Hin. destruct Hin as ([c0 s0] & [= <- <-] & Hin).
           destruct (Hs c0 s0 Hin) as (H1 & _). exists qv, s0. auto.
    + destruct (existsb _ _); [intros [= <-]; left; reflexivity|].
      destruct (filter _ _) as [|e es]; [discriminate|]. intros Hl. apply Hlift in Hl.
      right. left. exact (transfer_h_err _ _ _ _ Hl Hw).
    + intros [= <-]. left. f_equal. exact (elect_by_quota_inr _ _ _ _ _ _ _ Ee).
  - simpl. destruct (existsb _ _); [intros [= <-]; left; reflexivity|].
    destruct (filter _ _) as [|e es]; [discriminate|]. intros Hl. apply Hlift in Hl.
    right. left. exact (transfer_h_err _ _ _ _ Hl Hw).
Qed.

(* ================================================================ every count of every run, for every oracle *)
Section RUNH.
  Variable cf : cfg.
  Variable votes : list (ballot * Q).
  Variable n_seats : Z.
  Variable caps : list (C * Z).
  Variable prev0 : list (C * Z).
  Variable orc : oracle.                      (* ANY oracle *)
  Hypothesis Hprev0 : forall c, (0 <= dget_or prev0 c 0)%Z.
  Let total := Qred (fold_left Qplus (map snd votes) 0).
  Hypothesis Hqpos : forall qv, quota_of cf total n_seats = Some qv -> 0 < qv.

  (* the states the count loop passes through: allocation, seats so far, seats filled by quota so far,
     and what is left of the oracle *)
  Inductive reach_h : alloc -> list (C * Z) -> Z -> oracle -> Prop :=
  | reach_h_init a o : initial_allocation_h votes orc = HOk a o -> reach_h a prev0 0 o
  | reach_h_step a seats qs o a' el o' :
      reach_h a seats qs o -> next_count_h cf a n_seats total seats caps o = HC_next a' el o' ->
      reach_h a' (add_seats seats el) (qs + seats_sum el) o'.

  Theorem reach_h_conservation a seats qs o : reach_h a seats qs o ->
    NoDup (akeys a) /\ (forall c, (0 <= dget_or seats c 0)%Z) /\
    match quota_of cf total n_seats with
    | Some qv => asum a + inject_Z qs * qv == cast votes
    | None => asum a == cast votes /\ qs = 0%Z
    end.
  Proof.
    induction 1 as [a o Hi|a seats qs o a' el o' Hr IH Hn].
    - destruct (initial_allocation_h_spec votes orc a o Hi) as (H1 & H2 & _). split; [exact H1|]. split; [exact Hprev0|].
      destruct (quota_of cf total n_seats); [rewrite H2; simpl; ring|split; [exact H2|reflexivity]].
    - destruct IH as (I1 & I2 & I3).
      destruct (next_count_h_conserves cf a n_seats total seats caps o a' el o' I1 I2 Hqpos Hn) as (N1 & N2 & N3).
      split; [exact N1|]. split; [apply add_seats_nonneg; assumption|].
      destruct (quota_of cf total n_seats) as [qv|].
      + rewrite inject_Z_plus. rewrite <- I3, <- N3. ring.
      + destruct N3 as [N3 ->]. destruct I3 as [I3 ->]. split; [rewrite N3; exact I3|reflexivity].
  Qed.

  Theorem reach_h_resting a seats qs o : reach_h a seats qs o -> resting_ok a.
  Proof.
    induction 1 as [a o Hi|a seats qs o a' el o' _ IH Hn].
    - destruct (initial_allocation_h_spec votes orc a o Hi) as (_ & _ & _ & H). exact H.
    - exact (next_count_h_resting cf a n_seats _ seats caps o a' el o' IH Hn).
  Qed.

  Theorem reach_h_whole a seats qs o : votes_whole votes -> reach_h a seats qs o -> alloc_whole a.
  Proof.
    intros Hv. induction 1 as [a o Hi|a seats qs o a' el o' _ IH Hn].
    - destruct (initial_allocation_h_spec votes orc a o Hi) as (_ & _ & H & _). exact (H Hv).
    - exact (next_count_h_whole cf a n_seats _ seats caps o a' el o' IH Hn).
  Qed.

  (* ---- the trace of stv_h: every count it records is a reachable allocation (or the elect-all-remaining shortcut,
     which records no allocation), and it stops only for a tie, the infinite-loop refusal, a fractional number of
     ballots to draw, or an oracle that is not an answer of random.sample *)
  Definition recorded_h_ok (e : alloc * list (C * Z)) : Prop :=
    (exists seats qs o, reach_h (fst e) seats qs o) \/ fst e = [].

  Definition stop_h_ok (s : option hstop) : Prop :=
    match s with
    | None | Some (HS_std S_nie) | Some (HS_std S_vse) | Some (HS_std S_fuel) | Some HS_oracle | Some HS_type => True
    | _ => False
    end.

  Lemma run_h_recorded fuel : forall a seats qs o acc a0, reach_h a seats qs o ->
    (forall e, In e acc -> recorded_h_ok e) ->
    forall e, In e (h_counts (run_h cf fuel a n_seats total seats caps o acc a0)) -> recorded_h_ok e.
  Proof.
    induction fuel as [|f IH]; intros a seats qs o acc a0 Hr Hacc e; cbn [run_h].
    - destruct (zsum (map snd seats) =? n_seats)%Z; cbn [h_counts]; intros He; apply in_rev in He; exact (Hacc e He).
    - destruct (zsum (map snd seats) =? n_seats)%Z; [cbn [h_counts]; intros He; apply in_rev in He; exact (Hacc e He)|].
      destruct (next_count_h cf a n_seats total seats caps o) as [el|a' el o'|s] eqn:En; cbn [h_counts].
      + intros He. apply in_rev in He. destruct He as [<-|He]; [right; reflexivity|exact (Hacc e He)].
      + assert (Hr' : reach_h a' (add_seats seats el) (qs + seats_sum el) o') by (eapply reach_h_step; eassumption).
        assert (Hacc' : forall e0, In e0 ((a', el) :: acc) -> recorded_h_ok e0).
        { intros e0 [<-|H0]; [|exact (Hacc e0 H0)]. left. exists (add_seats seats el), (qs + seats_sum el)%Z, o'. exact Hr'. }
        destruct el as [|e1 el'].
        * destruct (alloc_eqb a' a); [cbn [h_counts]; intros He; apply in_rev in He; exact (Hacc e He)|].
          apply (IH a' seats (qs + seats_sum [])%Z o'); [exact Hr'|exact Hacc'].
        * apply (IH a' _ _ _ _ _ Hr' Hacc').
      + intros He. apply in_rev in He. exact (Hacc e He).
  Qed.

  Theorem stv_h_recorded e : In e (h_counts (stv_h cf votes n_seats prev0 caps orc)) -> recorded_h_ok e.
  Proof.
    unfold stv_h. fold total. destruct (initial_allocation_h votes orc) as [a o|s] eqn:Ei; [|intros []].
    apply (run_h_recorded _ a prev0 0%Z o); [apply reach_h_init, Ei|intros e0 []].
  Qed.

  Lemma initial_shared_err cands : forall vs a o s, initial_shared cands vs a o = HErr s -> votes_whole vs -> s = HS_oracle.
  Proof.
    induction vs as [|[b w] vs IH]; intros a o s; cbn [initial_shared fst snd]; [discriminate|].
    intros H Hv. assert (Hv' : votes_whole vs) by (intros b0 w0 H0; apply (Hv b0 w0); right; exact H0).
    destruct b as [|[c|l] t]; [exact (IH _ _ _ H Hv')|exact (IH _ _ _ H Hv')|].
    destruct (move_h a (next_after (IS l :: t) cands) (IS l :: t) w o) as [a1 o1|s1] eqn:Em; [exact (IH _ _ _ H Hv')|].
    injection H as <-. apply (move_h_err _ _ _ _ _ _ Em). apply (Hv (IS l :: t) w). left. reflexivity.
  Qed.

  Lemma run_h_stop fuel : forall a seats qs o acc a0, votes_whole votes -> reach_h a seats qs o ->
    stop_h_ok (h_stop (run_h cf fuel a n_seats total seats caps o acc a0)).
  Proof.
    induction fuel as [|f IH]; intros a seats qs o acc a0 Hv Hr; cbn [run_h].
    - destruct (zsum (map snd seats) =? n_seats)%Z; exact I.
    - destruct (zsum (map snd seats) =? n_seats)%Z; [exact I|].
      destruct (next_count_h cf a n_seats total seats caps o) as [el|a' el o'|s] eqn:En; cbn [h_stop].
      + exact I.
      + assert (Hr' : reach_h a' (add_seats seats el) (qs + seats_sum el) o') by (eapply reach_h_step; eassumption).
        destruct el as [|e1 el'].
        * destruct (alloc_eqb a' a); [exact I|]. exact (IH a' seats (qs + seats_sum [])%Z o' _ _ Hv Hr').
        * exact (IH a' _ _ _ _ _ Hv Hr').
      + destruct (reach_h_conservation a seats qs o Hr) as (C1 & C2 & _).
        destruct (next_count_h_stops cf a n_seats total seats caps o s C1 (reach_h_whole a seats qs o Hv Hr) C2 Hqpos En)
          as [->|[->|[-> _]]]; exact I.
  Qed.

  Theorem stv_h_stop : votes_whole votes -> stop_h_ok (h_stop (stv_h cf votes n_seats prev0 caps orc)).
  Proof.
    intros Hv. unfold stv_h. fold total. destruct (initial_allocation_h votes orc) as [a o|s] eqn:Ei.
    - apply (run_h_stop _ a prev0 0%Z o); [exact Hv|apply reach_h_init, Ei].
    - cbn [h_stop]. unfold initial_allocation_h in Ei. rewrite (initial_shared_err _ _ _ _ _ Ei Hv). exact I.
  Qed.
End RUNH.

(* ================================================================ a finished count fills exactly the seats *)
(* the elect-all-remaining shortcut does not look at the transferer *)
Lemma next_count_h_all_eq cf a n total seats caps o el : next_count_h cf a n total seats caps o = HC_all el ->
  next_count cf a n total seats caps = CR_all el.
Proof.
  unfold next_count_h, next_count. cbv zeta.
  match goal with |- context [if ?c then HC_all ?av else _] => destruct c end; [intros [= <-]; reflexivity|].
  intros H. exfalso. revert H.
  repeat (match goal with
          | |- context [match ?x with _ => _ end] => destruct x
          | |- lift_h ?r _ = _ -> _ => destruct r; simpl
          end); discriminate.
Qed.

Theorem run_h_complete cf fuel : forall a n total seats caps o acc a0,
  h_stop (run_h cf fuel a n total seats caps o acc a0) = None ->
  zsum (map snd (h_seats (run_h cf fuel a n total seats caps o acc a0))) = n.
Proof.
  induction fuel as [|f IH]; intros a n total seats caps o acc a0; cbn [run_h].
  - destruct (zsum (map snd seats) =? n)%Z eqn:E; cbn [h_stop h_seats]; [intros _; apply Z.eqb_eq, E|discriminate].
  - destruct (zsum (map snd seats) =? n)%Z eqn:E; cbn [h_stop h_seats]; [intros _; apply Z.eqb_eq, E|].
    destruct (next_count_h cf a n total seats caps o) as [el|a' el o'|s] eqn:En; cbn [h_stop h_seats]; [| |discriminate].
    + intros _. rewrite add_seats_sum, (next_count_all _ _ _ _ _ _ _ (next_count_h_all_eq _ _ _ _ _ _ _ _ En)). lia.
    + destruct el as [|e el'].
      * destruct (alloc_eqb a' a); cbn [h_stop]; [discriminate|]. apply IH.
      * apply IH.
Qed.

Theorem stv_h_complete cf votes n prev caps orc : h_stop (stv_h cf votes n prev caps orc) = None ->
  zsum (map snd (h_seats (stv_h cf votes n prev caps orc))) = n.
Proof.
  unfold stv_h. destruct (initial_allocation_h votes orc) as [a o|s]; [apply run_h_complete|discriminate].
Qed.
