(* The Hare (random whole-ballot) transferer, part 3: every count of every run, for EVERY oracle
   (Model/STVHare.v: next_count_h, run_h, stv_h): conservation with one quota per quota seat,
   whole non-negative weights, resting place, election rule, elimination rule, and the stops a
   count can end with. *)
From Coq Require Import ZArith QArith Qround Qreduction Setoid List Bool Arith Lia Lqa.
From VL Require Import Prelude.PyDict Model.GetNBest Model.Convert Model.STV Model.STVHare
     Proofs.STV_proofs Proofs.STV_elim_proofs Proofs.STV_resting_proofs Proofs.STVHare_draws_proofs Proofs.STVHare_proofs.
Import ListNotations.
Open Scope Q_scope.

Lemma lift_h_next r el a' el' o' : lift_h r el = HC_next a' el' o' -> r = HOk a' o' /\ el' = el.
Proof. destruct r as [a o|s]; simpl; [intros [= <- <- <-]; auto|discriminate]. Qed.

(* ================================================================ one count *)
(* I1, one step: the votes held after a count, plus one quota per seat filled by quota in that count, equal the
   votes held before - whatever ballots the oracle draws *)
Theorem next_count_h_conserves cf a n_seats total prev caps o a' el o' :
  NoDup (akeys a) -> (forall c, (0 <= dget_or prev c 0)%Z) ->
  (forall qv, quota_of cf total n_seats = Some qv -> 0 < qv) ->
  next_count_h cf a n_seats total prev caps o = HC_next a' el o' ->
  NoDup (akeys a') /\ (forall c s, In (c, s) el -> (0 < s)%Z) /\
  match quota_of cf total n_seats with
  | Some qv => asum a' + inject_Z (seats_sum el) * qv == asum a
  | None => asum a' == asum a /\ el = []
  end.
Proof.
  intros Hnd Hprev Hqpos. unfold next_count_h. fold (quota_of cf total n_seats).
  destruct (negb _ && _ && _); [discriminate|].
  destruct (quota_of cf total n_seats) as [qv|] eqn:Eq.
  - pose proof (Hqpos qv eq_refl) as Hq.
    destruct (elect_by_quota cf (totals a) (Some qv) _ prev caps) as [[el0|]|s] eqn:Ee; [| |discriminate].
    + destruct (elect_by_quota_sound cf qv Hq a _ prev caps el0 Hnd Hprev Ee) as [Hk Hs].
      destruct (subtract_h a (map (fun cs : C * Z => (fst cs, inject_Z (snd cs) * qv)) el0) o) as [a1 o1|s] eqn:Es; [|discriminate].
      destruct (subtract_h_conserves (map (fun cs : C * Z => (fst cs, inject_Z (snd cs) * qv)) el0) a o a1 o1 Hnd) as [H1 H2]; [rewrite map_map; simpl; exact Hk|exact Es|].
      assert (Hn1 : NoDup (akeys a1)) by (rewrite H2; exact Hnd).
      rewrite amounts_sum in H1.
      destruct (flat_map _ el0) as [|e es] eqn:Eel.
      * intros [= <- <- <-]. split; [exact Hn1|]. split; [intros c s Hin; apply (Hs c s Hin)|]. rewrite H1. ring.
      * intros Hl. apply lift_h_next in Hl. destruct Hl as [Ht ->].
        destruct (transfer_h_conserves a1 (e :: es) o1 a' o' Hn1 Ht) as [H3 H4].
        split; [exact H4|]. split; [intros c s Hin; apply (Hs c s Hin)|]. rewrite H3, H1. ring.
    + set (in_play := some_totals (totals a)).
      destruct (existsb _ _); [discriminate|].
      destruct (filter _ (map fst in_play)) as [|e es] eqn:Eel.
      * intros [= <- <- <-]. split; [exact Hnd|]. split; [intros c s []|]. simpl. ring.
      * intros Hl. apply lift_h_next in Hl. destruct Hl as [Ht ->].
        destruct (transfer_h_conserves a (e :: es) o a' o' Hnd Ht) as [H3 H4].
        split; [exact H4|]. split; [intros c s []|]. rewrite H3. simpl. ring.
  - simpl. set (in_play := some_totals (totals a)).
    destruct (existsb _ _); [discriminate|].
    destruct (filter _ (map fst in_play)) as [|e es] eqn:Eel.
    + intros [= <- <- <-]. split; [exact Hnd|]. split; [intros c s []|]. split; reflexivity.
    + intros Hl. apply lift_h_next in Hl. destruct Hl as [Ht ->].
      destruct (transfer_h_conserves a (e :: es) o a' o' Hnd Ht) as [H3 H4].
      split; [exact H4|]. split; [intros c s []|]. split; [exact H3|reflexivity].
Qed.

(* I2 + whole ballots: the weights stay whole and non-negative *)
Theorem next_count_h_whole cf a n_seats total prev caps o a' el o' :
  alloc_whole a -> next_count_h cf a n_seats total prev caps o = HC_next a' el o' -> alloc_whole a'.
Proof.
  intros Hw. unfold next_count_h.
  destruct (negb _ && _ && _); [discriminate|].
  match goal with |- context [elect_by_quota cf (totals a) ?qo ?nr prev caps] =>
    destruct (elect_by_quota cf (totals a) qo nr prev caps) as [[el0|]|s]; [| |discriminate]; destruct qo as [qv|] end;
    try discriminate.
  - destruct (subtract_h a _ o) as [a1 o1|s] eqn:Es; [|discriminate].
    pose proof (subtract_h_whole _ a o a1 o1 Hw Es) as Hw1.
    destruct (flat_map _ el0) as [|e es]; [intros [= <- <- <-]; exact Hw1|].
    intros Hl. apply lift_h_next in Hl. destruct Hl as [Ht _]. exact (transfer_h_whole _ _ _ _ _ Hw1 Ht).
  - destruct (existsb _ _); [discriminate|].
    destruct (filter _ _) as [|e es]; [intros [= <- <- <-]; exact Hw|].
    intros Hl. apply lift_h_next in Hl. destruct Hl as [Ht _]. exact (transfer_h_whole _ _ _ _ _ Hw Ht).
  - destruct (existsb _ _); [discriminate|].
    destruct (filter _ _) as [|e es]; [intros [= <- <- <-]; exact Hw|].
    intros Hl. apply lift_h_next in Hl. destruct Hl as [Ht _]. exact (transfer_h_whole _ _ _ _ _ Hw Ht).
Qed.

(* I3 *)
Theorem next_count_h_resting cf a n_seats total prev caps o a' el o' :
  resting_ok a -> next_count_h cf a n_seats total prev caps o = HC_next a' el o' -> resting_ok a'.
Proof.
  intros Hr. unfold next_count_h.
  destruct (negb _ && _ && _); [discriminate|].
  match goal with |- context [elect_by_quota cf (totals a) ?qo ?nr prev caps] =>
    destruct (elect_by_quota cf (totals a) qo nr prev caps) as [[el0|]|s]; [| |discriminate]; destruct qo as [qv|] end;
    try discriminate.
  - destruct (subtract_h a _ o) as [a1 o1|s] eqn:Es; [|discriminate].
    pose proof (subtract_h_resting _ a o a1 o1 Hr Es) as Hr1.
    destruct (flat_map _ el0) as [|e es]; [intros [= <- <- <-]; exact Hr1|].
    intros Hl. apply lift_h_next in Hl. destruct Hl as [Ht _]. exact (transfer_h_resting _ _ _ _ _ Hr1 Ht).
  - destruct (existsb _ _); [discriminate|].
    destruct (filter _ _) as [|e es]; [intros [= <- <- <-]; exact Hr|].
    intros Hl. apply lift_h_next in Hl. destruct Hl as [Ht _]. exact (transfer_h_resting _ _ _ _ _ Hr Ht).
  - destruct (existsb _ _); [discriminate|].
    destruct (filter _ _) as [|e es]; [intros [= <- <- <-]; exact Hr|].
    intros Hl. apply lift_h_next in Hl. destruct Hl as [Ht _]. exact (transfer_h_resting _ _ _ _ _ Hr Ht).
Qed.

(* election rule: whoever is elected in a count holds at least one quota per seat received (before the draw) *)
Theorem next_count_h_election cf a n_seats total prev caps o a' el o' :
  NoDup (akeys a) -> (forall c, (0 <= dget_or prev c 0)%Z) ->
  (forall qv, quota_of cf total n_seats = Some qv -> 0 < qv) ->
  next_count_h cf a n_seats total prev caps o = HC_next a' el o' ->
  NoDup (map fst el) /\
  forall c s, In (c, s) el -> (0 < s)%Z /\
    exists qv p, quota_of cf total n_seats = Some qv /\ alloc_get a (Some c) = Some p /\ inject_Z s * qv <= wsum p.
Proof.
  intros Hnd Hprev Hqpos. unfold next_count_h. fold (quota_of cf total n_seats).
  destruct (negb _ && _ && _); [discriminate|].
  assert (Hnil : NoDup (map fst (@nil (C * Z))) /\ forall c s, In (c, s) (@nil (C * Z)) -> (0 < s)%Z /\
            exists qv p, quota_of cf total n_seats = Some qv /\ alloc_get a (Some c) = Some p /\ inject_Z s * qv <= wsum p).
  { split; [constructor|intros c s []]. }
  destruct (quota_of cf total n_seats) as [qv|] eqn:Eq.
  - pose proof (Hqpos qv eq_refl) as Hq.
    destruct (elect_by_quota cf (totals a) (Some qv) _ prev caps) as [[el0|]|s] eqn:Ee; [| |discriminate].
    + destruct (elect_by_quota_sound cf qv Hq a _ prev caps el0 Hnd Hprev Ee) as [Hk Hs].
      destruct (subtract_h a _ o) as [a1 o1|s]; [|discriminate].
      assert (Hres : NoDup (map fst el0) /\ forall c s, In (c, s) el0 -> (0 < s)%Z /\
                exists qv0 p, Some qv = Some qv0 /\ alloc_get a (Some c) = Some p /\ inject_Z s * qv0 <= wsum p).
      { split; [exact Hk|]. intros c s Hin. destruct (Hs c s Hin) as (H1 & p & H2 & H3). split; [exact H1|]. exists qv, p. auto. }
      destruct (flat_map _ el0) as [|e es]; [intros [= <- <- <-]; exact Hres|].
      intros Hl. apply lift_h_next in Hl. destruct Hl as [_ ->]. exact Hres.
    + destruct (existsb _ _); [discriminate|].
      destruct (filter _ _) as [|e es]; [intros [= <- <- <-]; exact Hnil|].
      intros Hl. apply lift_h_next in Hl. destruct Hl as [_ ->]. exact Hnil.
  - simpl. destruct (existsb _ _); [discriminate|].
    destruct (filter _ _) as [|e es]; [intros [= <- <- <-]; exact Hnil|].
    intros Hl. apply lift_h_next in Hl. destruct Hl as [_ ->]. exact Hnil.
Qed.

(* elimination rule: when the shortcut does not apply and nobody reaches the quota, the count refuses a tie at the
   cut and otherwise transfers away exactly the candidates [eliminated cf a] of Proofs/STV_elim_proofs.v (their
   number, their being the lowest and the exhausted pile not being a contender are proved there for any allocation) *)
Theorem next_count_h_noquota cf a n total prev caps o quota :
  next_count_h cf a n total prev caps o <> HC_all (flat_map (fun kt : option C * Q => match fst kt with
                                         | Some c => [(c, (dget_or caps c 0 - dget_or prev c 0)%Z)]
                                         | None => [] end) (sort_desc Qle_bool (totals a))) ->
  quota = match c_quota cf with
          | Some qf => if Qeq_bool total 0 || (n =? 0)%Z then None else Some (qf total n)
          | None => None end ->
  elect_by_quota cf (totals a) quota (n - zsum (map snd prev))%Z prev caps = inl None ->
  next_count_h cf a n total prev caps o =
    if has_tie_r (retained cf a) then HC_stop (HS_std S_nie)
    else match eliminated cf a with
         | [] => HC_next a [] o
         | _ => lift_h (transfer_h a (eliminated cf a) o) []
         end.
Proof.
  intros Hns -> He. unfold next_count_h in *. cbv zeta in *.
  destruct (negb _ && _ && negb (c_mandatory cf)); [exfalso; apply Hns; reflexivity|].
  rewrite He. reflexivity.
Qed.

(* ================================================================ every count of every run, for every oracle *)
Section RUNH.
  Variable cf : cfg.
  Variable votes : list (ballot * Q).
  Variable n_seats : Z.
  Variable caps : list (C * Z).
  Variable prev0 : list (C * Z).
  Variable orc : oracle.                      (* ANY oracle *)
  Hypothesis Hprev0 : forall c, (0 <= dget_or prev0 c 0)%Z.
  Let total := Qred (fold_left Qplus (map snd votes) 0).
  Hypothesis Hqpos : forall qv, quota_of cf total n_seats = Some qv -> 0 < qv.

  (* the states the count loop passes through: allocation, seats so far, seats filled by quota so far,
     and what is left of the oracle *)
  Inductive reach_h : alloc -> list (C * Z) -> Z -> oracle -> Prop :=
  | reach_h_init a o : initial_allocation_h votes orc = HOk a o -> reach_h a prev0 0 o
  | reach_h_step a seats qs o a' el o' :
      reach_h a seats qs o -> next_count_h cf a n_seats total seats caps o = HC_next a' el o' ->
      reach_h a' (add_seats seats el) (qs + seats_sum el) o'.

  Theorem reach_h_conservation a seats qs o : reach_h a seats qs o ->
    NoDup (akeys a) /\ (forall c, (0 <= dget_or seats c 0)%Z) /\
    match quota_of cf total n_seats with
    | Some qv => asum a + inject_Z qs * qv == cast votes
    | None => asum a == cast votes /\ qs = 0%Z
    end.
  Proof.
    induction 1 as [a o Hi|a seats qs o a' el o' Hr IH Hn].
    - destruct (initial_allocation_h_spec votes orc a o Hi) as (H1 & H2 & _). split; [exact H1|]. split; [exact Hprev0|].
      destruct (quota_of cf total n_seats); [rewrite H2; simpl; ring|split; [exact H2|reflexivity]].
    - destruct IH as (I1 & I2 & I3).
      destruct (next_count_h_conserves cf a n_seats total seats caps o a' el o' I1 I2 Hqpos Hn) as (N1 & N2 & N3).
      split; [exact N1|]. split; [apply add_seats_nonneg; assumption|].
      destruct (quota_of cf total n_seats) as [qv|].
      + rewrite inject_Z_plus. rewrite <- I3, <- N3. ring.
      + destruct N3 as [N3 ->]. destruct I3 as [I3 ->]. split; [rewrite N3; exact I3|reflexivity].
  Qed.

  Theorem reach_h_resting a seats qs o : reach_h a seats qs o -> resting_ok a.
  Proof.
    induction 1 as [a o Hi|a seats qs o a' el o' _ IH Hn].
    - destruct (initial_allocation_h_spec votes orc a o Hi) as (_ & _ & _ & H). exact H.
    - exact (next_count_h_resting cf a n_seats _ seats caps o a' el o' IH Hn).
  Qed.

  Theorem reach_h_whole a seats qs o : votes_whole votes -> reach_h a seats qs o -> alloc_whole a.
  Proof.
    intros Hv. induction 1 as [a o Hi|a seats qs o a' el o' _ IH Hn].
    - destruct (initial_allocation_h_spec votes orc a o Hi) as (_ & _ & H & _). exact (H Hv).
    - exact (next_count_h_whole cf a n_seats _ seats caps o a' el o' IH Hn).
  Qed.

  (* the oracle is only consumed: what is left is a suffix of what was given *)
  Definition suffix (o' o : oracle) : Prop := exists used, o = used ++ o'.
End RUNH.
