(* Scale invariance (C11) of allocated score voting (Model/AllocScore.v: AllocatedScoreDistributor / Selector) with a
   homogeneous quota (Hare, Hagenbach-Bischoff, Imperiali; a constant quota scaled with the votes): a state simulation.
   The remaining votes of the two runs hold the same ballots in the same order with weights related by x' == k x
   (the model normalises by Qred, hence ==); the weighted score sums are k-fold (same winner, same ties), the
   scan for the strongest supporters only reads the ballots, the size of the top group and the quota scale together,
   so the exhaustion loop takes the same branches and the spreading fraction (size - quota) / size is scale-free. *)
From Coq Require Import ZArith QArith Qround List Bool Lia Lqa Qfield.
From VL Require Import Prelude.PyDict Model.GetNBest Model.Convert Model.Quota Model.AllocScore
     Proofs.Dict_proofs Proofs.GetNBest_proofs Proofs.QOrd Proofs.LRScale_proofs Proofs.STVScale_proofs Proofs.Scale2Score_proofs.
Import ListNotations.
Open Scope Q_scope.

Section AllocScale.
  Variable k : Q.
  Hypothesis Hk : 0 < k.
  Notation qs := (qsc k).

  Definition wprel : wprofile -> wprofile -> Prop := lrel (K := sballot) qs.
  Notation drel := (lrel (K := C) qs).

  Lemma qs0 : qs 0 0.
  Proof. unfold qsc. ring. Qed.

  Lemma qs_red x x' : qs x x' -> qs (Qred x) (Qred x').
  Proof. unfold qsc. rewrite !Qred_correct. tauto. Qed.

  (* ------------------------------------------------------------ _sum_scores *)
  Lemma dget_or_drel d d' c : drel d d' -> qs (dget_or d c 0) (dget_or d' c 0).
  Proof.
    intros H. unfold dget_or. pose proof (dget_lrel qs d d' c H) as Hg.
    destruct (dget d c), (dget d' c); cbn in Hg; try contradiction; [exact Hg|exact qs0].
  Qed.

  Lemma sum_scores_rel cur cur' : wprel cur cur' -> drel (sum_scores cur) (sum_scores cur').
  Proof.
    intros H. unfold sum_scores.
    assert (H0 : drel [] []) by constructor. revert H0. generalize (@nil (C * Q)) at 1 3 as d. generalize (@nil (C * Q)) as d'.
    induction H as [|y y' l l' Hy Hl IH]; intros d' d Hd; cbn [fold_left]; [exact Hd|].
    apply IH. destruct y as [b w], y' as [b' w']. destruct Hy as [Hb Hw]. cbn [fst snd] in Hb, Hw |- *. subst b'. revert d d' Hd.
    induction b as [|cs b IHb]; intros d d' Hd; cbn [fold_left]; [exact Hd|].
    apply IHb. apply dset_lrel; [exact Hd|]. apply qs_red.
    pose proof (dget_or_drel d d' (fst cs) Hd) as Hg. unfold qsc in *. rewrite Hg, Hw. ring.
  Qed.

  (* ------------------------------------------------------------ what only reads the ballots *)
  Lemma wprel_ballots cur cur' : wprel cur cur' -> map fst cur' = map fst cur.
  Proof. apply STVScale_proofs.lrel_keys. Qed.

  Lemma ballot_mins_rel cur cur' : wprel cur cur' -> ballot_mins cur' = ballot_mins cur.
  Proof.
    intros H. induction H as [|y y' l l' Hy Hl IH]; cbn [ballot_mins]; [reflexivity|].
    destruct y as [b w], y' as [b' w']. destruct Hy as [Hb Hw]. cbn [fst snd] in Hb, Hw |- *. subst b'. rewrite IH. reflexivity.
  Qed.

  Lemma overall_min_rel cur cur' : wprel cur cur' -> overall_min cur' = overall_min cur.
  Proof. intros H. unfold overall_min. rewrite (ballot_mins_rel _ _ H). reflexivity. Qed.

  Lemma best_score_rel cur cur' c : wprel cur cur' -> forall bs0, best_score cur' c bs0 = best_score cur c bs0.
  Proof.
    intros H. unfold best_score. induction H as [|y y' l l' Hy Hl IH]; intros bs0; cbn [fold_left]; [reflexivity|].
    destruct y as [b w], y' as [b' w']. destruct Hy as [Hb Hw]. cbn [fst snd] in Hb, Hw |- *. subst b'. apply IH.
  Qed.

  Lemma wprel_filter (g : sballot -> bool) cur cur' : wprel cur cur' ->
    wprel (filter (fun bw => g (fst bw)) cur) (filter (fun bw => g (fst bw)) cur').
  Proof. intros H. exact (lrel_filter_fst qs g _ _ H). Qed.

  Lemma qsum_rel (l l' : wprofile) : wprel l l' -> qs (qsum (map snd l)) (qsum (map snd l')).
  Proof. intros H. unfold qsum. exact (qsum_acc_rel k _ _ H _ _ qs0). Qed.

  (* ------------------------------------------------------------ _fraction_out_elected *)
  Definition wres_rel (x y : wprofile + aerr) : Prop :=
    match x, y with
    | inl a, inl b => wprel a b
    | inr e, inr e' => e = e'
    | _, _ => False
    end.

  Lemma spread_rel c bs fr fr' cur cur' : fr' == fr -> wprel cur cur' ->
    wprel (map (fun bw : sballot * Q => if is_best c bs (fst bw) then (fst bw, Qred (snd bw * fr)) else bw) cur)
          (map (fun bw : sballot * Q => if is_best c bs (fst bw) then (fst bw, Qred (snd bw * fr')) else bw) cur').
  Proof.
    intros Hfr Hc. induction Hc as [|y y' l l' Hy Hl IHl]; cbn [map]; constructor; [|exact IHl].
    destruct y as [b w], y' as [b' w']. destruct Hy as [Hb Hw]. cbn [fst snd] in Hb, Hw |- *. subst b'.
    destruct (is_best c bs b); [|split; [reflexivity|exact Hw]].
    split; [reflexivity|]. cbn [snd]. unfold qsc in *. rewrite !Qred_correct, Hfr, Hw. ring.
  Qed.

  Lemma fraction_out_rel c fuel : forall cur cur' ss ss', wprel cur cur' -> qs ss ss' ->
    wres_rel (fraction_out fuel cur c ss) (fraction_out fuel cur' c ss').
  Proof.
    induction fuel as [|f IH]; intros cur cur' ss ss' Hc Hs; cbn [fraction_out];
      rewrite (qsc_le k Hk _ _ _ _ Hs qs0); destruct (Qle_bool ss 0); try exact Hc; [reflexivity|].
    rewrite (overall_min_rel _ _ Hc). destruct (overall_min cur) as [bs0|]; [|reflexivity].
    rewrite (best_score_rel _ _ c Hc bs0). set (bs := best_score cur c bs0).
    pose proof (wprel_filter (is_best c bs) _ _ Hc) as Hbest.
    pose proof (qs_red _ _ (qsum_rel _ _ Hbest)) as Hsize.
    set (size := Qred (qsum (map snd (filter (fun bw : sballot * Q => is_best c bs (fst bw)) cur)))) in *.
    set (size' := Qred (qsum (map snd (filter (fun bw : sballot * Q => is_best c bs (fst bw)) cur')))) in *.
    rewrite (qsc_eq k Hk _ _ _ _ Hsize qs0). destruct (Qeq_bool size 0) eqn:Ez; [exact Hc|].
    rewrite (qsc_le k Hk _ _ _ _ Hsize Hs). destruct (Qle_bool size ss).
    - apply IH; [exact (wprel_filter (fun b => negb (is_best c bs b)) _ _ Hc)|].
      apply qs_red. unfold qsc in *. rewrite Hs, Hsize. ring.
    - cbn [wres_rel].
      assert (Hfr : Qred ((size' - ss') / size') == Qred ((size - ss) / size)).
      { rewrite !Qred_correct. apply (qsc_div k Hk); [|exact Hsize]. unfold qsc in *. rewrite Hs, Hsize. ring. }
      exact (spread_rel c bs _ _ _ _ Hfr Hc).
  Qed.

  (* ------------------------------------------------------------ SubsettedVotes(ScoreSubsetter) *)
  Lemma wadd_rel d d' b w w' : wprel d d' -> qs w w' -> wprel (wadd d b w) (wadd d' b w').
  Proof.
    intros H Hw. induction H as [|y y' l l' Hy Hl IH]; cbn [wadd].
    - constructor; [split; [reflexivity|exact Hw]|constructor].
    - destruct y as [b0 w0], y' as [b0' w0']. destruct Hy as [Hb Hw0]. cbn [fst snd] in Hb, Hw0 |- *. subst b0'.
      destruct (sb_eqb b b0).
      + constructor; [|exact Hl]. split; [reflexivity|]. cbn [snd]. apply qs_red.
        unfold qsc in *. rewrite Hw0, Hw. ring.
      + constructor; [split; [reflexivity|exact Hw0]|exact IH].
  Qed.

  Lemma subset_out_rel c cur cur' : wprel cur cur' -> wprel (subset_out c cur) (subset_out c cur').
  Proof.
    intros H. unfold subset_out.
    assert (H0 : wprel [] []) by constructor. revert H0. generalize (@nil (sballot * Q)) at 1 3 as d. generalize (@nil (sballot * Q)) as d'.
    induction H as [|y y' l l' Hy Hl IH]; intros d' d Hd; cbn [fold_left]; [exact Hd|].
    apply IH. destruct y as [b w], y' as [b' w']. destruct Hy as [Hb Hw]. cbn [fst snd] in Hb, Hw |- *. subst b'. apply wadd_rel; [exact Hd|exact Hw].
  Qed.

  Lemma subtract_votes_rel cur cur' c gained mx q q' : wprel cur cur' -> qs q q' ->
    wres_rel (subtract_votes cur c gained mx q) (subtract_votes cur' c gained mx q').
  Proof.
    intros Hc Hq. unfold subtract_votes. rewrite (lrel_length _ _ _ Hc).
    pose proof (fraction_out_rel c (S (length cur)) _ _ _ _ Hc Hq) as Hf.
    destruct (fraction_out (S (length cur)) cur c q) as [a|e], (fraction_out (S (length cur)) cur' c q') as [a'|e'];
      cbn [wres_rel] in Hf; try contradiction; [|exact Hf].
    destruct mx as [m|]; [|exact Hf]. destruct (gained =? m)%Z; [|exact Hf]. cbn [wres_rel]. apply subset_out_rel, Hf.
  Qed.

  (* ------------------------------------------------------------ evaluate *)
  Definition cfrel (cf cf' : acfg) : Prop :=
    qs (ac_quota cf) (ac_quota cf') /\ ac_prev cf' = ac_prev cf /\ ac_max cf' = ac_max cf /\ ac_orders cf' = ac_orders cf.

  Definition pres_rel (x y : (wprofile * elected) + aerr) : Prop :=
    match x, y with
    | inl (a, e), inl (a', e') => wprel a a' /\ e' = e
    | inr e, inr e' => e = e'
    | _, _ => False
    end.

  Lemma elect_one_rel cf cf' cur cur' el c : cfrel cf cf' -> wprel cur cur' ->
    pres_rel (elect_one cf cur el c) (elect_one cf' cur' el c).
  Proof.
    intros (Hq & Hp & Hm & _) Hc. unfold elect_one. rewrite Hp, Hm.
    pose proof (subtract_votes_rel _ _ c (eget (eincr el c) c + dget_or (ac_prev cf) c 0)%Z (dget (ac_max cf) c) _ _ Hc Hq) as Hs.
    destruct (subtract_votes cur c _ _ (ac_quota cf)) as [a|e], (subtract_votes cur' c _ _ (ac_quota cf')) as [a'|e'];
      cbn [wres_rel] in Hs; try contradiction; cbn [pres_rel]; [split; [exact Hs|reflexivity]|exact Hs].
  Qed.

  Lemma elect_all_rel cf cf' tied : cfrel cf cf' -> forall cur cur' el, wprel cur cur' ->
    pres_rel (elect_all cf tied cur el) (elect_all cf' tied cur' el).
  Proof.
    intros Hcf. induction tied as [|c t IH]; intros cur cur' el Hc; cbn [elect_all]; [split; [exact Hc|reflexivity]|].
    pose proof (elect_one_rel cf cf' _ _ el c Hcf Hc) as H1.
    destruct (elect_one cf cur el c) as [[a e]|e], (elect_one cf' cur' el c) as [[a' e']|e'];
      cbn [pres_rel] in H1; try contradiction; [|exact H1].
    destruct H1 as [Ha ->]. apply IH, Ha.
  Qed.

  Definition step_rel (x y : astep) : Prop :=
    match x, y with
    | AS_next a e r, AS_next a' e' r' => wprel a a' /\ e' = e /\ r' = r
    | AS_done e, AS_done e' => e' = e
    | AS_err e, AS_err e' => e' = e
    | _, _ => False
    end.

  Lemma alloc_step_rel cf cf' cur cur' el rem : cfrel cf cf' -> wprel cur cur' ->
    step_rel (alloc_step cf cur el rem) (alloc_step cf' cur' el rem).
  Proof.
    intros Hcf Hc. unfold alloc_step. destruct rem as [|r]; [reflexivity|].
    rewrite (get_n_best_rel Qle_bool Qle_bool _ (qsc_le k Hk) _ _ 1%nat (sum_scores_rel _ _ Hc)).
    destruct (get_n_best Qle_bool (sum_scores cur) 1) as [|[c|t] rest]; [reflexivity| |].
    - pose proof (elect_one_rel cf cf' _ _ el c Hcf Hc) as H1.
      destruct (elect_one cf cur el c) as [[a e]|e], (elect_one cf' cur' el c) as [[a' e']|e'];
        cbn [pres_rel] in H1; try contradiction; cbn [step_rel]; [|congruence].
      destruct H1 as [Ha ->]. split; [exact Ha|split; reflexivity].
    - destruct (Nat.leb (length t) (S r)); [|reflexivity].
      destruct Hcf as (Hq & Hp & Hm & Ho). rewrite Ho.
      pose proof (elect_all_rel cf cf' (tie_iter (ac_orders cf) t) (conj Hq (conj Hp (conj Hm Ho))) _ _ el Hc) as H1.
      destruct (elect_all cf _ cur el) as [[a e]|e], (elect_all cf' _ cur' el) as [[a' e']|e'];
        cbn [pres_rel] in H1; try contradiction; cbn [step_rel]; [|congruence].
      destruct H1 as [Ha ->]. split; [exact Ha|split; reflexivity].
  Qed.

  Lemma alloc_loop_rel cf cf' : cfrel cf cf' -> forall fuel cur cur' el rem, wprel cur cur' ->
    alloc_loop fuel cf' cur' el rem = alloc_loop fuel cf cur el rem.
  Proof.
    intros Hcf. induction fuel as [|f IH]; intros cur cur' el rem Hc; cbn [alloc_loop]; [reflexivity|].
    pose proof (alloc_step_rel cf cf' _ _ el rem Hcf Hc) as Hs.
    destruct (alloc_step cf cur el rem) as [a e r|e|e], (alloc_step cf' cur' el rem) as [a' e' r'|e'|e'];
      cbn [step_rel] in Hs; try contradiction; try congruence.
    destruct Hs as (Ha & -> & ->). apply IH, Ha.
  Qed.

  (* the quota spec of the k-fold election: named quotas stay, a constant quota is multiplied by k *)
  Definition qspec_scale (q : quota_spec) : quota_spec :=
    match q with QNamed i => QNamed i | QConst c => QConst (k * c) end.
  Definition qspec_homog (q : quota_spec) : bool :=
    match q with QNamed i => homogeneous_quota i | QConst _ => true end.

  Lemma qspec_rel q v v' n : qspec_homog q = true -> qs v v' -> qs (quota_fn q v n) (quota_fn (qspec_scale q) v' n).
  Proof.
    intros Hh Hv. destruct q as [i|c]; cbn [qspec_scale qspec_homog] in *.
    - exact (quota_fn_homog k i Hh v v' n Hv).
    - unfold quota_fn, qsc. reflexivity.
  Qed.

  Theorem alloc_distribute_rel q orders votes votes' n prev mx : qspec_homog q = true -> wprel votes votes' ->
    alloc_distribute (qspec_scale q) orders votes' n prev mx = alloc_distribute q orders votes n prev mx.
  Proof.
    intros Hh Hv. unfold alloc_distribute.
    assert (Hd : quota_divides_by_seats (qspec_scale q) = quota_divides_by_seats q) by (destruct q; reflexivity).
    rewrite Hd. destruct (quota_divides_by_seats q && Nat.eqb n 0); [reflexivity|].
    apply alloc_loop_rel; [|exact Hv].
    unfold cfrel, alloc_cfg. cbn [ac_quota ac_prev ac_max ac_orders]. repeat split.
    apply qs_red, qspec_rel; [exact Hh|apply qsum_rel, Hv].
  Qed.

  Theorem alloc_select_rel q orders votes votes' n : qspec_homog q = true -> wprel votes votes' ->
    alloc_select (qspec_scale q) orders votes' n = alloc_select q orders votes n.
  Proof.
    intros Hh Hv. unfold alloc_select.
    assert (Ha : all_scored votes' = all_scored votes).
    { unfold all_scored. clear -Hv. induction Hv as [|y y' l l' Hy Hl IH]; cbn [flat_map]; [reflexivity|].
      destruct y as [b w], y' as [b' w']. destruct Hy as [Hb Hw]. cbn [fst snd] in Hb, Hw |- *. subst b'. rewrite IH. reflexivity. }
    rewrite Ha, (alloc_distribute_rel q orders _ _ n [] _ Hh Hv). reflexivity.
  Qed.

  Definition wscale (votes : wprofile) : wprofile := map (fun bw => (fst bw, k * snd bw)) votes.
  Lemma wprel_scale votes : wprel votes (wscale votes).
  Proof. induction votes as [|y l IH]; cbn [wscale map]; constructor; [|exact IH]. split; [reflexivity|]. cbn [snd]. unfold qsc. reflexivity. Qed.
End AllocScale.
