(* The Hare (random whole-ballot) transferer, part 2: the moves of a count on the allocation
   (Model/STVHare.v: move_h, pour_h, transfer_h, subtract_h, initial_allocation_h) conserve the
   weight, keep the weights whole and non-negative and keep every ballot at its resting place -
   for EVERY oracle. *)
From Coq Require Import ZArith QArith Qround Qreduction Setoid List Bool Arith Lia Lqa.
From VL Require Import Prelude.PyDict Model.GetNBest Model.Convert Model.STV Model.STVHare
     Proofs.Threshold_proofs Proofs.STV_proofs Proofs.STV_resting_proofs Proofs.STVHare_draws_proofs.
Import ListNotations.
Open Scope Q_scope.

(* ================================================================ one ballot handed out in shares *)
Definition gives (a : alloc) (b : ballot) (L : list (option C * Q)) : alloc :=
  fold_left (fun a ks => alloc_add a (fst ks) b (snd ks)) L a.
Definition lsum (L : list (option C * Q)) : Q := fold_right (fun ks acc => snd ks + acc) 0 L.

Lemma gives_sum b L : forall a, asum (gives a b L) == asum a + lsum L.
Proof.
  induction L as [|[k s] L IH]; intros a; [simpl; ring|].
  change (gives a b ((k, s) :: L)) with (gives (alloc_add a k b s) b L). rewrite IH, alloc_add_sum. simpl. ring.
Qed.

Lemma gives_keys b L : forall a, NoDup (akeys a) ->
  NoDup (akeys (gives a b L)) /\ (forall x, In x (akeys (gives a b L)) <-> In x (map fst L) \/ In x (akeys a)).
Proof.
  induction L as [|[k s] L IH]; intros a Hn.
  - split; [exact Hn|]. intros x. simpl. tauto.
  - change (gives a b ((k, s) :: L)) with (gives (alloc_add a k b s) b L).
    destruct (alloc_add_keys a k b s Hn) as [H1 H2]. destruct (IH _ H1) as [H3 H4]. split; [exact H3|].
    intros x. rewrite H4, H2. simpl. split; [intros [H|[->|H]]|intros [[<-|H]|H]]; auto.
Qed.

Lemma gives_get_other b c L : forall a, ~ In (Some c) (map fst L) ->
  alloc_get (gives a b L) (Some c) = alloc_get a (Some c).
Proof.
  induction L as [|[k s] L IH]; intros a Hn; [reflexivity|].
  change (gives a b ((k, s) :: L)) with (gives (alloc_add a k b s) b L).
  rewrite IH by (intros H; apply Hn; right; exact H).
  apply alloc_add_get_other. intros <-. apply Hn. left. reflexivity.
Qed.

Lemma gives_holds b0 L k b : forall a, holds (gives a b0 L) k b -> holds a k b \/ (b = b0 /\ In k (map fst L)).
Proof.
  induction L as [|[k1 s1] L IH]; intros a; [simpl; auto|].
  change (gives a b0 ((k1, s1) :: L)) with (gives (alloc_add a k1 b0 s1) b0 L).
  intros H. destruct (IH _ H) as [H1|[-> H1]]; [|right; split; [reflexivity|right; exact H1]].
  destruct (alloc_add_holds _ _ _ _ _ _ H1) as [H2|[-> ->]]; [left; exact H2|right; split; [reflexivity|left; reflexivity]].
Qed.

Lemma gives_keys_some b L : forall a, incl (keys_some (gives a b L)) (flat_map okey_list (map fst L) ++ keys_some a).
Proof.
  induction L as [|[k s] L IH]; intros a; [simpl; apply incl_refl|].
  change (gives a b ((k, s) :: L)) with (gives (alloc_add a k b s) b L). cbn [map fst flat_map].
  intros x Hx. apply IH in Hx. apply in_app_or in Hx. rewrite <- app_assoc. apply in_or_app.
  destruct Hx as [Hx|Hx]; [right; apply in_or_app; left; exact Hx|].
  apply alloc_add_keys_some in Hx. apply in_app_or in Hx. destruct Hx as [Hx|Hx]; [left; exact Hx|right; apply in_or_app; right; exact Hx].
Qed.

Lemma pile_add_whole p b w : pile_whole p -> whole_nonneg w = true -> pile_whole (pile_add p b w).
Proof.
  unfold pile_whole. induction 1 as [|[b' w'] p Hw Hp IH]; intros H0; simpl; [constructor; [exact H0|constructor]|].
  destruct (ballot_eqb b b'); constructor; simpl in *; try assumption.
  - apply whole_nonneg_add; assumption.
  - apply IH. exact H0.
Qed.

Lemma alloc_add_whole a k b w : alloc_whole a -> whole_nonneg w = true -> alloc_whole (alloc_add a k b w).
Proof.
  unfold alloc_whole. induction 1 as [|[k' p] a Hp Ha IH]; intros H0; simpl.
  - constructor; [|constructor]. simpl. constructor; [exact H0|constructor].
  - destruct (okey_eqb k k'); constructor; simpl in *; try assumption.
    + apply pile_add_whole; assumption.
    + apply IH. exact H0.
Qed.

Lemma gives_whole b L : forall a, alloc_whole a -> (forall k s, In (k, s) L -> whole_nonneg s = true) ->
  alloc_whole (gives a b L).
Proof.
  induction L as [|[k s] L IH]; intros a Ha HL; [exact Ha|].
  change (gives a b ((k, s) :: L)) with (gives (alloc_add a k b s) b L).
  apply IH; [|intros k1 s1 H; apply (HL k1 s1); right; exact H].
  apply alloc_add_whole; [exact Ha|apply (HL k s); left; reflexivity].
Qed.

Lemma alloc_get_whole a k p : alloc_whole a -> alloc_get a k = Some p -> pile_whole p.
Proof.
  unfold alloc_whole. induction 1 as [|[k' q] a Hq Ha IH]; simpl; [discriminate|].
  destruct (okey_eqb k k'); [intros [= <-]; exact Hq|exact IH].
Qed.

(* ---- move_h is a hand-out of shares that add up to the weight of the ballot, to targets only *)
Lemma give_gives a b shares : give a b shares = gives a b (map (fun tn : C * Q => (Some (fst tn), snd tn)) shares).
Proof. unfold give, gives. revert a. induction shares as [|[t s] sh IH]; intros a; simpl; [reflexivity|apply IH]. Qed.

Lemma move_h_gives a T b w o a' o' : move_h a T b w o = HOk a' o' ->
  exists L, a' = gives a b L /\ lsum L == w /\
    (forall k, In k (map fst L) -> match k with None => T = [] | Some t => In t T end) /\
    (whole_nonneg w = true -> forall k s, In (k, s) L -> whole_nonneg s = true).
Proof.
  unfold move_h. destruct T as [|t [|t2 T]].
  - intros [= <- <-]. exists [(None, w)]. split; [reflexivity|]. split; [simpl; ring|]. split.
    + intros k [<-|[]]. reflexivity.
    + intros Hw k s [[= <- <-]|[]]. exact Hw.
  - intros [= <- <-]. exists [(Some t, w)]. split; [reflexivity|]. split; [simpl; ring|]. split.
    + intros k [<-|[]]. left. reflexivity.
    + intros Hw k s [[= <- <-]|[]]. exact Hw.
  - destruct (hare_split (t :: t2 :: T) w o) as [shares o1|s] eqn:Es; [|discriminate]. intros [= <- <-].
    destruct (hare_split_spec _ _ _ _ _ Es) as (S1 & S2 & S3).
    exists (map (fun tn : C * Q => (Some (fst tn), snd tn)) shares). split; [apply give_gives|]. split; [|split].
    + rewrite <- S1. clear. induction shares as [|[t0 s0] sh IH]; simpl; [reflexivity|]. unfold lsum in IH. rewrite IH. reflexivity.
    + intros k Hk. rewrite map_map in Hk. apply in_map_iff in Hk. destruct Hk as ([t0 s0] & <- & Hin). simpl.
      exact (S2 t0 s0 Hin).
    + intros Hw k s Hin. apply in_map_iff in Hin. destruct Hin as ([t0 s0] & [= <- <-] & Hin). exact (S3 Hw t0 s0 Hin).
Qed.

Lemma move_h_sum a T b w o a' o' : move_h a T b w o = HOk a' o' -> asum a' == asum a + w.
Proof. intros H. destruct (move_h_gives _ _ _ _ _ _ _ H) as (L & -> & HL & _). rewrite gives_sum, HL. reflexivity. Qed.

Lemma move_h_keep a T b w o a' o' c : ~ In c T -> NoDup (akeys a) -> move_h a T b w o = HOk a' o' ->
  alloc_get a' (Some c) = alloc_get a (Some c) /\ NoDup (akeys a').
Proof.
  intros Hc Hn H. destruct (move_h_gives _ _ _ _ _ _ _ H) as (L & -> & _ & HT & _). split.
  - apply gives_get_other. intros Hin. exact (Hc (HT _ Hin)).
  - apply gives_keys, Hn.
Qed.

Lemma move_h_whole a T b w o a' o' : alloc_whole a -> whole_nonneg w = true -> move_h a T b w o = HOk a' o' -> alloc_whole a'.
Proof.
  intros Ha Hw H. destruct (move_h_gives _ _ _ _ _ _ _ H) as (L & -> & _ & _ & HL). apply gives_whole; [exact Ha|exact (HL Hw)].
Qed.

Lemma move_h_holds a T b0 w0 o a' o' k b : move_h a T b0 w0 o = HOk a' o' -> holds a' k b ->
  holds a k b \/ (b = b0 /\ ((T = [] /\ k = None) \/ exists t, In t T /\ k = Some t)).
Proof.
  intros H Hh. destruct (move_h_gives _ _ _ _ _ _ _ H) as (L & -> & _ & HT & _).
  destruct (gives_holds _ _ _ _ _ Hh) as [H1|[-> H1]]; [left; exact H1|right]. split; [reflexivity|].
  specialize (HT k H1). destruct k as [t|]; [right; exists t; auto|left; auto].
Qed.

Lemma move_h_keys_some a T b w o a' o' : move_h a T b w o = HOk a' o' -> incl (keys_some a') (T ++ keys_some a).
Proof.
  intros H. destruct (move_h_gives _ _ _ _ _ _ _ H) as (L & -> & _ & HT & _).
  intros x Hx. apply gives_keys_some in Hx. apply in_app_or in Hx. apply in_or_app. destruct Hx as [Hx|Hx]; [left|right; exact Hx].
  apply in_flat_map in Hx. destruct Hx as (k & Hk & Hx). specialize (HT k Hk). destruct k as [t|]; [|destruct Hx].
  destruct Hx as [<-|[]]. exact HT.
Qed.

(* ================================================================ pouring the pile of a removed candidate *)
Lemma pour_h_conserves cont c : ~ In c cont -> forall p a o a' o', NoDup (akeys a) ->
  pour_h cont c p a o = HOk a' o' ->
  asum a' == asum a + wsum p /\ alloc_get a' (Some c) = alloc_get a (Some c) /\ NoDup (akeys a').
Proof.
  intros Hc. induction p as [|[b w] p IH]; intros a o a' o' Hn; cbn [pour_h].
  - intros [= <- <-]. split; [simpl; ring|]. split; [reflexivity|exact Hn].
  - cbn [fst snd]. destruct (move_h a (ranked_next b c cont) b w o) as [a1 o1|s] eqn:Em; [|discriminate]. intros Hp.
    assert (Hnc : ~ In c (ranked_next b c cont)) by (intros H; apply Hc, (ranked_next_allowed b c cont), H).
    destruct (move_h_keep _ _ _ _ _ _ _ c Hnc Hn Em) as [K1 K2].
    destruct (IH _ _ _ _ K2 Hp) as (H1 & H2 & H3). split; [|split; [rewrite H2; exact K1|exact H3]].
    rewrite H1, (move_h_sum _ _ _ _ _ _ _ Em). simpl. ring.
Qed.

Lemma pour_h_whole cont c : forall p a o a' o', alloc_whole a -> pile_whole p ->
  pour_h cont c p a o = HOk a' o' -> alloc_whole a'.
Proof.
  induction p as [|[b w] p IH]; intros a o a' o' Ha Hp; cbn [pour_h]; [intros [= <- <-]; exact Ha|].
  cbn [fst snd]. destruct (move_h a (ranked_next b c cont) b w o) as [a1 o1|s] eqn:Em; [|discriminate].
  inversion Hp; subst. apply IH; [|assumption]. eapply move_h_whole; eassumption.
Qed.

Lemma pour_h_TJ K cont (Hcont : incl cont K) c rem : In c K -> (forall x, In x (c :: rem) -> ~ In x cont) ->
  forall q a0 o a' o', TJ K cont (c :: rem) a0 ->
  (forall b w, In (b, w) q -> plainb b = true -> rests_at K (Some c) b) ->
  pour_h cont c q a0 o = HOk a' o' -> TJ K cont (c :: rem) a'.
Proof.
  intros Hc Hdis. induction q as [|[b0 w0] q IH]; intros a0 o a' o' HJ Hq; cbn [pour_h]; [intros [= <- <-]; exact HJ|].
  cbn [fst snd]. destruct (move_h a0 (ranked_next b0 c cont) b0 w0 o) as [a1 o1|s] eqn:Em; [|discriminate].
  apply IH; [|intros b w H; apply (Hq b w); right; exact H].
  destruct HJ as (J1 & J2 & J3). split; [|split].
  - intros k b Hh Hp. destruct (move_h_holds _ _ _ _ _ _ _ _ _ Em Hh) as [H1|(-> & Hk)]; [exact (J1 k b H1 Hp)|].
    destruct (ranked_next_rests K cont c b0 Hp (Hq b0 w0 (or_introl eq_refl) Hp) Hc Hcont (Hdis c (or_introl eq_refl))) as [R1 R2].
    destruct Hk as [[Hn ->]|(t & Ht & ->)]; [exact (R1 Hn)|exact (R2 t Ht)].
  - intros c2 b Hc2 Hh Hp. destruct (move_h_holds _ _ _ _ _ _ _ _ _ Em Hh) as [H1|(-> & Hk)]; [exact (J2 c2 b Hc2 H1 Hp)|].
    exfalso. destruct Hk as [[_ [=]]|(t & Ht & [= ->])].
    apply (Hdis t Hc2). exact (ranked_next_allowed b0 c cont t Ht).
  - intros x Hx. apply (move_h_keys_some _ _ _ _ _ _ _ Em) in Hx. apply in_app_or in Hx. destruct Hx as [Hx|Hx]; [|exact (J3 x Hx)].
    apply in_or_app. left. exact (ranked_next_allowed b0 c cont x Hx).
Qed.

(* ================================================================ transfer_h *)
Lemma transfer_loop_conserves cont : forall rem a o a' o', (forall c, In c rem -> ~ In c cont) -> NoDup (akeys a) ->
  transfer_loop cont rem a o = HOk a' o' -> asum a' == asum a /\ NoDup (akeys a').
Proof.
  induction rem as [|c rem IH]; intros a o a' o' Hd Hn; cbn [transfer_loop]; [intros [= <- <-]; split; [reflexivity|exact Hn]|].
  destruct (pour_h cont c _ a o) as [a1 o1|s] eqn:Ep; [|discriminate]. intros Ht.
  destruct (pour_h_conserves cont c (Hd c (or_introl eq_refl)) _ _ _ _ _ Hn Ep) as (P1 & P2 & P3).
  assert (Hdel : asum (alloc_del a1 (Some c)) == asum a /\ NoDup (akeys (alloc_del a1 (Some c)))).
  { destruct (alloc_get a (Some c)) as [p|] eqn:Eg.
    - destruct (alloc_del_sum a1 (Some c) p P3 P2) as [D1 D2]. split; [rewrite D1, P1; ring|exact D2].
    - rewrite (alloc_del_none _ _ P2). split; [rewrite P1; simpl; ring|exact P3]. }
  destruct Hdel as [D1 D2]. destruct (IH _ _ _ _ (fun x Hx => Hd x (or_intror Hx)) D2 Ht) as [I1 I2].
  split; [rewrite I1; exact D1|exact I2].
Qed.

Lemma transfer_split a elim :
  (forall c, In c (filter (fun c => cmem c elim) (keys_some a)) -> ~ In c (filter (fun c => negb (cmem c elim)) (keys_some a))).
Proof.
  intros c Hc Hin. apply filter_In in Hc. apply filter_In in Hin. destruct Hc as [_ H1], Hin as [_ H2].
  rewrite H1 in H2. discriminate.
Qed.

Theorem transfer_h_conserves a elim o a' o' : NoDup (akeys a) -> transfer_h a elim o = HOk a' o' ->
  asum a' == asum a /\ NoDup (akeys a').
Proof. intros Hn. unfold transfer_h. apply transfer_loop_conserves; [apply transfer_split|exact Hn]. Qed.

Lemma alloc_del_whole a k : alloc_whole a -> alloc_whole (alloc_del a k).
Proof.
  unfold alloc_whole, alloc_del. intros H. apply Forall_forall. intros x Hx. apply filter_In in Hx.
  rewrite Forall_forall in H. apply H, Hx.
Qed.

Lemma transfer_loop_whole cont : forall rem a o a' o', alloc_whole a -> transfer_loop cont rem a o = HOk a' o' -> alloc_whole a'.
Proof.
  induction rem as [|c rem IH]; intros a o a' o' Ha; cbn [transfer_loop]; [intros [= <- <-]; exact Ha|].
  destruct (pour_h cont c _ a o) as [a1 o1|s] eqn:Ep; [|discriminate]. apply IH. apply alloc_del_whole.
  eapply pour_h_whole; [exact Ha| |exact Ep].
  destruct (alloc_get a (Some c)) eqn:E; [eapply alloc_get_whole; eassumption|constructor].
Qed.

Theorem transfer_h_whole a elim o a' o' : alloc_whole a -> transfer_h a elim o = HOk a' o' -> alloc_whole a'.
Proof. unfold transfer_h. apply transfer_loop_whole. Qed.

Lemma transfer_loop_TJ K cont (Hcont : incl cont K) : forall rem, (forall x, In x rem -> In x K /\ ~ In x cont) ->
  forall a0 o a' o', TJ K cont rem a0 -> transfer_loop cont rem a0 o = HOk a' o' -> TJ K cont [] a'.
Proof.
  induction rem as [|c rem IH]; intros Hrem a0 o a' o' HJ; cbn [transfer_loop]; [intros [= <- <-]; exact HJ|].
  set (p := match alloc_get a0 (Some c) with Some p => p | None => [] end).
  destruct (pour_h cont c p a0 o) as [a1 o1|s] eqn:Ep; [|discriminate].
  apply IH; [intros x Hx; apply Hrem; right; exact Hx|].
  assert (Hp : forall b w, In (b, w) p -> plainb b = true -> rests_at K (Some c) b).
  { intros b w Hb Hpl. destruct HJ as (_ & J2 & _). apply (J2 c b (or_introl eq_refl)); [|exact Hpl].
    unfold p in Hb. destruct (alloc_get a0 (Some c)) as [p0|] eqn:E; [|destruct Hb].
    exists p0, w. split; [apply alloc_get_In, E|exact Hb]. }
  pose proof (pour_h_TJ K cont Hcont c rem (proj1 (Hrem c (or_introl eq_refl))) (fun x Hx => proj2 (Hrem x Hx)) p a0 o a1 o1 HJ Hp Ep) as (I1 & I2 & I3).
  split; [|split].
  - intros k b Hh. apply alloc_del_holds in Hh. exact (I1 k b (proj1 Hh)).
  - intros c2 b Hc2 Hh. apply alloc_del_holds in Hh. exact (I2 c2 b (or_intror Hc2) (proj1 Hh)).
  - intros x Hx. apply alloc_del_keys_some in Hx. destruct Hx as [Hx Hne]. apply I3 in Hx.
    apply in_app_or in Hx. apply in_or_app. destruct Hx as [Hx|[Hx|Hx]]; [left; exact Hx|congruence|right; exact Hx].
Qed.

Lemma transfer_h_TJ a elim o a' o' : resting_ok a -> transfer_h a elim o = HOk a' o' ->
  TJ (keys_some a) (filter (fun c => negb (cmem c elim)) (keys_some a)) [] a'.
Proof.
  intros Hr. rewrite resting_ok_holds in Hr. unfold transfer_h.
  set (K := keys_some a). set (cont := filter (fun c => negb (cmem c elim)) K). set (rem := filter (fun c => cmem c elim) K).
  assert (Hcont : incl cont K) by (intros x Hx; apply filter_In in Hx; tauto).
  assert (Hrem : forall x, In x rem -> In x K /\ ~ In x cont).
  { intros x Hx. split; [apply filter_In in Hx; tauto|]. exact (transfer_split a elim x Hx). }
  assert (H0 : TJ K cont rem a).
  { split; [|split].
    - intros k b Hh Hp. apply (rests_at_anti K cont k b Hcont). exact (Hr k b Hh Hp).
    - intros c b _ Hh Hp. exact (Hr (Some c) b Hh Hp).
    - intros x Hx. apply in_or_app. destruct (cmem x elim) eqn:E; [right|left]; apply filter_In; rewrite E; auto. }
  exact (transfer_loop_TJ K cont Hcont rem Hrem a o a' o' H0).
Qed.

(* the keys only shrink in a transfer: what is left are keys of before outside the removed candidates *)
Theorem transfer_h_keys_shrink a elim o a' o' : resting_ok a -> transfer_h a elim o = HOk a' o' ->
  incl (keys_some a') (filter (fun c => negb (cmem c elim)) (keys_some a)).
Proof.
  intros Hr Ht. destruct (transfer_h_TJ _ _ _ _ _ Hr Ht) as (_ & _ & F3).
  intros x Hx. apply F3 in Hx. rewrite app_nil_r in Hx. exact Hx.
Qed.

Theorem transfer_h_resting a elim o a' o' : resting_ok a -> transfer_h a elim o = HOk a' o' -> resting_ok a'.
Proof.
  intros Hr Ht. destruct (transfer_h_TJ _ _ _ _ _ Hr Ht) as (F1 & _ & F3). apply resting_ok_holds.
  intros k b Hh Hp. apply (rests_at_anti (filter (fun c => negb (cmem c elim)) (keys_some a))); [|exact (F1 k b Hh Hp)].
  intros x Hx. apply F3 in Hx. rewrite app_nil_r in Hx. exact Hx.
Qed.

(* ================================================================ subtract_h *)
Lemma set_pile_get_other a c p' c0 : c0 <> c -> alloc_get (set_pile a c p') (Some c0) = alloc_get a (Some c0).
Proof.
  intros Hne. unfold set_pile. induction a as [|[k q] a IHa]; cbn -[okey_eqb]; [reflexivity|].
  destruct (okey_eqb (Some c) k) eqn:E; cbn -[okey_eqb].
  - apply okey_eqb_eq in E. subst k.
    assert (okey_eqb (Some c0) (Some c) = false) as -> by (apply not_true_iff_false; rewrite okey_eqb_eq; congruence).
    exact IHa.
  - destruct (okey_eqb (Some c0) k); [reflexivity|exact IHa].
Qed.

Theorem subtract_h_conserves elected : forall a o a' o', NoDup (akeys a) -> NoDup (map fst elected) ->
  subtract_h a elected o = HOk a' o' ->
  asum a' == asum a - fold_right (fun ca acc => snd ca + acc) 0 elected /\ akeys a' = akeys a.
Proof.
  induction elected as [|[c amt] t IH]; intros a o a' o' Hnd Hd; cbn [subtract_h].
  - intros [= <- <-]. split; [simpl; ring|reflexivity].
  - destruct (alloc_get a (Some c)) as [p|] eqn:Eg; [|discriminate].
    destruct (hare_subtract p amt o) as [p' o1|s] eqn:Es; [|discriminate]. intros Hsub.
    destruct (replace_pile_sum a c p p' Hnd Eg) as [H1 H2]. fold (set_pile a c p') in H1, H2.
    inversion Hd as [|? ? Hc Hd']; subst.
    destruct (IH (set_pile a c p') o1 a' o') as [H3 H4]; [unfold akeys in *; rewrite H2; exact Hnd|exact Hd'|exact Hsub|].
    split; [|rewrite H4; exact H2]. rewrite H3, H1.
    destruct (hare_subtract_spec _ _ _ _ _ Es) as (_ & _ & S3 & _). rewrite S3. simpl. ring.
Qed.

Lemma set_pile_whole a c p' : alloc_whole a -> pile_whole p' -> alloc_whole (set_pile a c p').
Proof.
  unfold alloc_whole, set_pile. intros Ha Hp. induction Ha as [|[k q0] a Hq Ha IHa]; cbn -[okey_eqb]; [constructor|].
  constructor; [|exact IHa]. destruct (okey_eqb (Some c) k); simpl; assumption.
Qed.

Theorem subtract_h_whole elected : forall a o a' o', alloc_whole a -> subtract_h a elected o = HOk a' o' -> alloc_whole a'.
Proof.
  induction elected as [|[c amt] t IH]; intros a o a' o' Ha; cbn [subtract_h]; [intros [= <- <-]; exact Ha|].
  destruct (alloc_get a (Some c)) as [p|] eqn:Eg; [|discriminate].
  destruct (hare_subtract p amt o) as [p' o1|s] eqn:Es; [|discriminate].
  apply IH. apply set_pile_whole; [exact Ha|]. destruct (hare_subtract_spec _ _ _ _ _ Es) as (_ & S2 & _). exact S2.
Qed.

(* drawing ballots away from a pile keeps every remaining ballot where it is *)
Theorem subtract_h_resting elected : forall a o a' o', resting_ok a -> subtract_h a elected o = HOk a' o' -> resting_ok a'.
Proof.
  induction elected as [|[c amt] t IH]; intros a o a' o' Hr; cbn [subtract_h]; [intros [= <- <-]; exact Hr|].
  destruct (alloc_get a (Some c)) as [p|] eqn:Eg; [|discriminate].
  destruct (hare_subtract p amt o) as [p' o1|s] eqn:Es; [|discriminate].
  apply IH. clear IH. unfold set_pile.
  set (a1 := map (fun kp : option C * pile => if okey_eqb (Some c) (fst kp) then (fst kp, p') else kp) a).
  assert (Hk : keys_some a1 = keys_some a).
  { unfold a1, keys_some. clear. induction a as [|[k q] a IHa]; cbn -[okey_eqb]; [reflexivity|].
    rewrite IHa. destruct (okey_eqb (Some c) k); reflexivity. }
  assert (Hh : forall k b, holds a1 k b -> holds a k b).
  { intros k b (q & w & Hq & Hb). unfold a1 in Hq. apply in_map_iff in Hq. destruct Hq as ([k0 q0] & Heq & Hin).
    cbn [fst snd] in Heq. destruct (okey_eqb (Some c) k0) eqn:E.
    - apply okey_eqb_eq in E. subst k0. injection Heq as <- <-.
      destruct (hare_subtract_spec _ _ _ _ _ Es) as (_ & _ & _ & _ & _ & _ & S7).
      destruct (S7 b w Hb) as (w0 & Hw0). exists p, w0. split; [apply alloc_get_In, Eg|exact Hw0].
    - injection Heq as <- <-. exists q0, w. auto. }
  rewrite resting_ok_holds in Hr. apply resting_ok_holds. rewrite Hk. intros k b Hb Hp. exact (Hr k b (Hh k b Hb) Hp).
Qed.

(* ================================================================ the initial allocation *)
Definition votes_whole (votes : list (ballot * Q)) : Prop := forall b w, In (b, w) votes -> whole_nonneg w = true.
Definition votes_wholeb (votes : list (ballot * Q)) : bool := forallb (fun bw => whole_nonneg (snd bw)) votes.
Lemma votes_wholeb_spec votes : votes_wholeb votes = true <-> votes_whole votes.
Proof.
  unfold votes_wholeb, votes_whole. rewrite forallb_forall. split.
  - intros H b w Hin. exact (H (b, w) Hin).
  - intros H [b w] Hin. exact (H b w Hin).
Qed.

Lemma initial_direct_eq votes :
  initial_allocation votes =
  fold_left (fun a bw => match fst bw with
                         | IS _ :: _ => move_ballot a (next_after (fst bw) (all_ranked_candidates votes)) (fst bw) (snd bw)
                         | _ => a end) votes (initial_direct votes).
Proof. reflexivity. Qed.

(* the part shared with the Gregory model: candidates' empty piles and the ballots with a plain first rank *)
Lemma initial_direct_spec votes :
  NoDup (akeys (initial_direct votes)) /\
  asum (initial_direct votes) == fold_right (fun bw acc => (match fst bw with IP _ :: _ => snd bw | _ => 0 end) + acc) 0 votes /\
  (votes_whole votes -> alloc_whole (initial_direct votes)) /\
  (forall k b, holds (initial_direct votes) k b -> exists c t, k = Some c /\ b = IP c :: t).
Proof.
  unfold initial_direct. set (cands := all_ranked_candidates votes).
  assert (Hcnd : NoDup cands).
  { pose proof (initial_allocation_conserves votes) as [Hn _].
    (* the keys of the Gregory initial allocation are these candidates *)
    unfold cands, all_ranked_candidates.
    assert (H1 : forall (l : list C) acc, NoDup acc -> NoDup (fold_left (fun acc c => if cmem c acc then acc else acc ++ [c]) l acc)).
    { induction l as [|c l IH]; intros acc Ha; simpl; [exact Ha|]. apply IH. destruct (cmem c acc) eqn:E; [exact Ha|].
      apply Threshold_proofs.nodup_app_intro; [exact Ha|constructor; [intros []|constructor]|].
      intros x Hx [<-|[]]. apply Threshold_proofs.cmem_In in Hx. congruence. }
    assert (H2 : forall i (vs : list (ballot * Q)) acc, NoDup acc ->
              NoDup (fold_left (fun acc bw => match nth_error (fst bw) i with
                       | Some it => fold_left (fun acc c => if cmem c acc then acc else acc ++ [c]) (members it) acc
                       | None => acc end) vs acc)).
    { intros i. induction vs as [|bw vs IH]; intros acc Ha; simpl; [exact Ha|]. apply IH.
      match goal with |- context [nth_error ?l i] => destruct (nth_error l i) as [it|] end; [exact (H1 (members it) acc Ha)|exact Ha]. }
    generalize (seq 0 (fold_left (fun m bw => Nat.max m (length (fst bw))) votes 0%nat)). intros is.
    assert (H3 : forall acc, NoDup acc -> NoDup (fold_left (fun acc i =>
              fold_left (fun acc bw => match nth_error (fst bw) i with
                       | Some it => fold_left (fun acc c => if cmem c acc then acc else acc ++ [c]) (members it) acc
                       | None => acc end) votes acc) is acc)).
    { induction is as [|i is IH]; intros acc Ha; simpl; [exact Ha|]. apply IH, H2, Ha. }
    apply H3. constructor. }
  set (base := map (fun c => (Some c, @nil (ballot * Q))) cands).
  assert (Hb : NoDup (akeys base) /\ asum base == 0 /\ alloc_whole base /\ (forall k b, ~ holds base k b)).
  { unfold base, akeys. rewrite map_map. simpl. split; [|split; [|split]].
    - clear -Hcnd. induction Hcnd as [|x l Hx _ IH]; simpl; constructor; [|exact IH].
      intros H. apply in_map_iff in H. destruct H as (y & [= ->] & Hy). exact (Hx Hy).
    - clear. induction cands as [|c l IH]; simpl; [reflexivity|]. rewrite IH. ring.
    - clear. unfold alloc_whole. induction cands as [|c l IH]; simpl; constructor; [constructor|exact IH].
    - intros k b (p & w & Hk & Hb). apply in_map_iff in Hk. destruct Hk as (c & [= <- <-] & _). destruct Hb. }
  destruct Hb as (B1 & B2 & B3 & B4). revert B1 B2 B3 B4. generalize base. clear base.
  assert (Hgen : forall (vs : list (ballot * Q)) a0, NoDup (akeys a0) ->
     let r := fold_left (fun a bw => match fst bw with IP c :: _ => alloc_add a (Some c) (fst bw) (snd bw) | _ => a end) vs a0 in
     NoDup (akeys r) /\
     asum r == asum a0 + fold_right (fun bw acc => (match fst bw with IP _ :: _ => snd bw | _ => 0 end) + acc) 0 vs /\
     ((forall b w, In (b, w) vs -> whole_nonneg w = true) -> alloc_whole a0 -> alloc_whole r) /\
     (forall k b, holds r k b -> holds a0 k b \/ exists c t, k = Some c /\ b = IP c :: t)).
  { induction vs as [|[b w] vs IH]; intros a0 Ha; cbn [fold_left fold_right fst snd].
    - split; [exact Ha|]. split; [ring|]. split; [auto|]. intros k b H. left. exact H.
    - destruct b as [|[c|l] t].
      + destruct (IH a0 Ha) as (H1 & H2 & H3 & H4). split; [exact H1|]. split; [rewrite H2; ring|]. split; [|exact H4].
        intros Hv. apply H3. intros b0 w0 H0. apply (Hv b0 w0). right. exact H0.
      + destruct (IH _ (proj1 (alloc_add_keys a0 (Some c) (IP c :: t) w Ha))) as (H1 & H2 & H3 & H4).
        split; [exact H1|]. split; [rewrite H2, alloc_add_sum; ring|]. split.
        * intros Hv Hw. apply H3; [intros b0 w0 H0; apply (Hv b0 w0); right; exact H0|].
          apply alloc_add_whole; [exact Hw|apply (Hv (IP c :: t) w); left; reflexivity].
        * intros k b Hh. destruct (H4 k b Hh) as [H5|H5]; [|right; exact H5].
          destruct (alloc_add_holds _ _ _ _ _ _ H5) as [H6|[-> ->]]; [left; exact H6|right; exists c, t; auto].
      + destruct (IH a0 Ha) as (H1 & H2 & H3 & H4). split; [exact H1|]. split; [rewrite H2; ring|]. split; [|exact H4].
        intros Hv. apply H3. intros b0 w0 H0. apply (Hv b0 w0). right. exact H0. }
  intros base B1 B2 B3 B4. destruct (Hgen votes base B1) as (G1 & G2 & G3 & G4).
  split; [exact G1|]. split; [rewrite G2, B2; ring|]. split; [intros Hv; apply G3; [exact Hv|exact B3]|].
  intros k b Hh. destruct (G4 k b Hh) as [H|H]; [destruct (B4 k b H)|exact H].
Qed.

Lemma initial_shared_spec cands : forall votes a o a' o', NoDup (akeys a) ->
  initial_shared cands votes a o = HOk a' o' ->
  NoDup (akeys a') /\
  asum a' == asum a + fold_right (fun bw acc => (match fst bw with IS _ :: _ => snd bw | _ => 0 end) + acc) 0 votes /\
  (votes_whole votes -> alloc_whole a -> alloc_whole a') /\
  (forall k b, holds a' k b -> holds a k b \/ exists l t, b = IS l :: t).
Proof.
  induction votes as [|[b w] vs IH]; intros a o a' o' Ha; cbn [initial_shared fold_right fst snd].
  - intros [= <- <-]. split; [exact Ha|]. split; [ring|]. split; [auto|]. intros k b H. left. exact H.
  - assert (Hskip : initial_shared cands vs a o = HOk a' o' ->
       NoDup (akeys a') /\ asum a' == asum a + (0 + fold_right (fun bw acc => (match fst bw with IS _ :: _ => snd bw | _ => 0 end) + acc) 0 vs) /\
       (votes_whole ((b, w) :: vs) -> alloc_whole a -> alloc_whole a') /\
       (forall k b0, holds a' k b0 -> holds a k b0 \/ exists l t, b0 = IS l :: t)).
    { intros H. destruct (IH _ _ _ _ Ha H) as (H1 & H2 & H3 & H4). split; [exact H1|]. split; [rewrite H2; ring|]. split; [|exact H4].
      intros Hv. apply H3. intros b0 w0 H0. apply (Hv b0 w0). right. exact H0. }
    destruct b as [|[c|l] t]; [exact Hskip|exact Hskip|]. clear Hskip.
    destruct (move_h a (next_after (IS l :: t) cands) (IS l :: t) w o) as [a1 o1|s] eqn:Em; [|discriminate]. intros Hi.
    destruct (move_h_gives _ _ _ _ _ _ _ Em) as (L & -> & HL & HT & HW).
    destruct (IH _ _ _ _ (proj1 (gives_keys _ L a Ha)) Hi) as (H1 & H2 & H3 & H4).
    split; [exact H1|]. split; [rewrite H2, gives_sum, HL; ring|]. split.
    + intros Hv Hw. apply H3; [intros b0 w0 H0; apply (Hv b0 w0); right; exact H0|].
      apply gives_whole; [exact Hw|]. apply HW. apply (Hv (IS l :: t) w). left. reflexivity.
    + intros k b Hh. destruct (H4 k b Hh) as [H5|H5]; [|right; exact H5].
      destruct (gives_holds _ _ _ _ _ H5) as [H6|[-> _]]; [left; exact H6|right; exists l, t; reflexivity].
Qed.

Theorem initial_allocation_h_spec votes o a o' : initial_allocation_h votes o = HOk a o' ->
  NoDup (akeys a) /\ asum a == cast votes /\ (votes_whole votes -> alloc_whole a) /\ resting_ok a.
Proof.
  unfold initial_allocation_h. intros Hi.
  destruct (initial_direct_spec votes) as (D1 & D2 & D3 & D4).
  destruct (initial_shared_spec _ _ _ _ _ _ D1 Hi) as (S1 & S2 & S3 & S4).
  split; [exact S1|]. split; [|split].
  - rewrite S2, D2. unfold cast. clear. induction votes as [|[b w] vs IH]; simpl; [ring|].
    destruct b as [|[c|l] t]; simpl in *; lra.
  - intros Hv. apply S3; [exact Hv|apply D3, Hv].
  - apply resting_ok_holds. intros k b Hh Hp. destruct (S4 k b Hh) as [H|(l & t & ->)].
    + destruct (D4 k b H) as (c & t & -> & ->). simpl. exists [], t. split; [reflexivity|intros x []].
    + apply plainb_cons in Hp. destruct Hp as [[c Hc] _]. discriminate.
Qed.
