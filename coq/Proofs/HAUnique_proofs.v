(* Uniqueness of divisor apportionments (C01 / C07): with a strictly increasing positive divisor, positive votes, no
   previous gains and no caps, ANY allocation s that hands out exactly n seats and satisfies the strict min-max
   inequality  v_c / d(s c) < v_c' / d(s c' - 1)  (nobody's next quotient reaches anybody's last awarded quotient)
   IS what the HighestAverages loop computes: it ends without a tie, with no seat left, and with totals = s.
   Used by C07: a district row of a certified biproportional matrix is the highest-averages apportionment of the
   row's votes weighted by the party multipliers. *)
From Coq Require Import ZArith QArith List Bool Lia Lqa Permutation.
From VL Require Import Prelude.PyDict Model.HighestAverages Proofs.Dict_proofs Proofs.HA_proofs Proofs.Mono_proofs.
Import ListNotations.
Open Scope Z_scope.

(* ---------------------------------------------------------------- sums over a key list *)
Definition ksum (f : C -> Z) (ks : list C) : Z := zsum (map f ks).

Lemma ksum_cons f k ks : ksum f (k :: ks) = f k + ksum f ks.
Proof. unfold ksum. simpl. apply zsum_cons. Qed.

Lemma ksum_zero ks : ksum (fun _ => 0) ks = 0.
Proof. induction ks as [|k ks IH]; [reflexivity|]. rewrite ksum_cons, IH. reflexivity. Qed.

Lemma ksum_le f g ks : (forall c, In c ks -> f c <= g c) -> ksum f ks <= ksum g ks.
Proof.
  induction ks as [|k ks IH]; intros H; [unfold ksum; simpl; lia|].
  rewrite !ksum_cons. specialize (H k (or_introl eq_refl)) as Hk.
  assert (ksum f ks <= ksum g ks) by (apply IH; intros c Hc; apply H; right; exact Hc). lia.
Qed.

Lemma ksum_lt_exists f g ks : ksum f ks < ksum g ks -> exists c, In c ks /\ f c < g c.
Proof.
  induction ks as [|k ks IH]; intros H; [unfold ksum in H; simpl in H; lia|].
  rewrite !ksum_cons in H. destruct (Z.lt_ge_cases (f k) (g k)) as [Hk|Hk].
  - exists k. split; [left; reflexivity|exact Hk].
  - destruct IH as (c & Hc & Hlt); [lia|]. exists c. split; [right; exact Hc|exact Hlt].
Qed.

Lemma ksum_plus f g ks : ksum (fun c => f c + g c) ks = ksum f ks + ksum g ks.
Proof. induction ks as [|k ks IH]; [reflexivity|]. rewrite !ksum_cons, IH. lia. Qed.

Lemma ksum_indicator x ks : NoDup ks -> ksum (fun c => if ceqb c x then 1 else 0) ks = if in_dec Pos.eq_dec x ks then 1 else 0.
Proof.
  induction ks as [|k ks IH]; intros Hnd; [reflexivity|].
  inversion Hnd as [|? ? Hk Hnd']; subst. rewrite ksum_cons, (IH Hnd').
  destruct (ceqb k x) eqn:E.
  - apply ceqb_eq in E. subst k.
    destruct (in_dec Pos.eq_dec x ks) as [Hi|Hn]; [contradiction|].
    destruct (in_dec Pos.eq_dec x (x :: ks)) as [_|Hn2]; [reflexivity|exfalso; apply Hn2; left; reflexivity].
  - apply ceqb_neq in E.
    destruct (in_dec Pos.eq_dec x ks) as [Hi|Hn], (in_dec Pos.eq_dec x (k :: ks)) as [Hi2|Hn2]; try reflexivity.
    + exfalso. apply Hn2. right. exact Hi.
    + exfalso. destruct Hi2 as [->|Hi2]; [apply E; reflexivity|contradiction].
Qed.

(* each element of l is a key: the counts add up to the length *)
Lemma ksum_count l ks : NoDup ks -> (forall x, In x l -> In x ks) ->
  ksum (fun c => count c l) ks = Z.of_nat (length l).
Proof.
  intros Hnd. induction l as [|x l IH]; intros Hin.
  - transitivity (ksum (fun _ => 0) ks); [reflexivity|apply ksum_zero].
  - assert (E : ksum (fun c => count c (x :: l)) ks
                = ksum (fun c => count c l) ks + ksum (fun c => if ceqb c x then 1 else 0) ks).
    { rewrite <- ksum_plus. unfold ksum. f_equal. apply map_ext. intros c. simpl. lia. }
    rewrite E, IH by (intros y Hy; apply Hin; right; exact Hy).
    rewrite (ksum_indicator x ks Hnd).
    destruct (in_dec Pos.eq_dec x ks) as [_|Hn]; [simpl length; lia|].
    exfalso. apply Hn, Hin. left. reflexivity.
Qed.

Lemma count_nodup_le1 c l : NoDup l -> count c l <= 1.
Proof.
  induction l as [|x l IH]; intros Hnd; simpl; [lia|].
  inversion Hnd as [|? ? Hx Hnd']; subst. specialize (IH Hnd').
  destruct (ceqb c x) eqn:E; [|exact IH].
  apply ceqb_eq in E. subst x. rewrite (count_notin _ _ Hx). lia.
Qed.

Lemma count_in_pos c l : In c l -> 1 <= count c l.
Proof.
  induction l as [|x l IH]; intros Hin; [destruct Hin|]. simpl.
  destruct (ceqb c x) eqn:E.
  - pose proof (count_nonneg c l). lia.
  - destruct Hin as [->|Hin]; [rewrite ceqb_refl in E; discriminate|apply IH, Hin].
Qed.

Lemma divisor_strict_lt (d : Z -> Q) : (forall k, 0 <= k -> (d k < d (k + 1)%Z)%Q) ->
  forall i j, 0 <= i < j -> (d i < d j)%Q.
Proof.
  intros Hm i j [Hi Hij].
  replace j with (i + 1 + Z.of_nat (Z.to_nat (j - i - 1))) by lia.
  induction (Z.to_nat (j - i - 1)) as [|k IH].
  - rewrite Z.add_0_r. apply Hm, Hi.
  - replace (i + 1 + Z.of_nat (S k)) with (i + 1 + Z.of_nat k + 1) by lia.
    apply (Qlt_trans _ _ _ IH). apply Hm. lia.
Qed.

Lemma count_two c c' l : c' <> c -> count c l + count c' l <= Z.of_nat (length l).
Proof.
  intros E. induction l as [|x l IH]; [simpl; lia|].
  cbn [count length]. rewrite Nat2Z.inj_succ.
  destruct (ceqb c x) eqn:E1; destruct (ceqb c' x) eqn:E2; try lia.
  exfalso. apply ceqb_eq in E1. apply ceqb_eq in E2. subst. apply E. reflexivity.
Qed.

(* ---------------------------------------------------------------- uniqueness *)
Section Unique.
  Variable d : Z -> Q.
  Variable votes : list (C * Q).
  Variable n : Z.
  Hypothesis Hpos : forall k, 0 <= k -> (0 < d k)%Q.
  Hypothesis Hstrict : forall k, 0 <= k -> (d k < d (k + 1)%Z)%Q.
  Hypothesis Hvpos : forall c v, In (c, v) votes -> (0 < v)%Q.
  Hypothesis Hnd : NoDup (map fst votes).

  Variable s : C -> Z.
  Hypothesis Hs0 : forall c, In c (map fst votes) -> 0 <= s c.
  Hypothesis Hsum : ksum s (map fst votes) = n.
  Hypothesis Hminmax : forall c v c' v', In (c, v) votes -> In (c', v') votes -> 0 < s c' ->
    (v / d (s c) < v' / d (s c' - 1))%Q.

  Notation fin := (final_state d votes n [] []).
  Notation keys := (map fst votes).
  Notation t := (tot fin).

  Let Hmono : forall k, 0 <= k -> (d k <= d (k + 1)%Z)%Q.
  Proof. intros k Hk. apply Qlt_le_weak, Hstrict, Hk. Qed.
  Let Hv0 : forall c v, In (c, v) votes -> (0 <= v)%Q.
  Proof. intros c v H. apply Qlt_le_weak, (Hvpos c v H). Qed.
  Let Hprev : forall c, 0 <= dget_or (@nil (C * Z)) c 0.
  Proof. intros c. unfold dget_or. simpl. lia. Qed.

  Let I : Inv d votes [] [] n fin := final_inv d votes [] [] n Hpos Hmono Hv0 Hnd Hprev.
  Let I2 := final_inv2 d votes [] [] n Hpos Hmono Hstrict Hvpos Hnd Hprev.

  Lemma prev0 c : dget_or (@nil (C * Z)) c 0 = 0.
  Proof. reflexivity. Qed.
  Lemma cap_n c : cap_of [] n c = n.
  Proof. reflexivity. Qed.

  Lemma n_nonneg : 0 <= n.
  Proof.
    rewrite <- Hsum. assert (H : ksum (fun _ => 0) keys <= ksum s keys) by (apply ksum_le; intros c Hc; apply Hs0, Hc).
    rewrite ksum_zero in H. exact H.
  Qed.

  Lemma t_count c : t c = count c (map fst (st_awards fin)).
  Proof. rewrite (inv_account _ _ _ _ _ _ I c). reflexivity. Qed.

  Lemma awards_keys x : In x (map fst (st_awards fin)) -> In x keys.
  Proof.
    intros Hx. apply in_map_iff in Hx. destruct Hx as (a & <- & Ha).
    pose proof (inv_awards _ _ _ _ _ _ I) as H. rewrite Forall_forall in H.
    destruct (H a Ha) as (v & j & Hv & _). apply dget_In in Hv. apply in_map_iff. exists (fst a, v). split; [reflexivity|exact Hv].
  Qed.

  Lemma sum_t : ksum t keys = Z.of_nat (length (st_awards fin)).
  Proof.
    rewrite <- (map_length fst (st_awards fin)). rewrite <- (ksum_count _ keys Hnd awards_keys).
    unfold ksum. f_equal. apply map_ext. intros c. apply t_count.
  Qed.

  Lemma t_lt_n_if_short c : Z.of_nat (length (st_awards fin)) < n -> t c < n.
  Proof.
    intros H. rewrite t_count. pose proof (count_le_length c (map fst (st_awards fin))) as Hc.
    rewrite map_length in Hc. lia.
  Qed.

  (* the core exchange argument: a party with more seats than s next to a party with fewer is impossible *)
  Lemma no_exchange c v c' v' : In (c, v) votes -> In (c', v') votes -> s c < t c -> t c' < s c' -> t c' < n -> False.
  Proof.
    intros Hc Hc' Hmore Hless Hcap.
    assert (Htc : 0 < t c).
    { pose proof (Hs0 c) as H. assert (In c keys) by (apply in_map_iff; exists (c, v); split; [reflexivity|exact Hc]). specialize (H H0). lia. }
    pose proof I2 as [_ Hlast]. destruct (Hlast c) as (v0 & Hv0' & Hin); [rewrite prev0; exact Htc|].
    rewrite (In_dget _ _ _ Hnd Hc) in Hv0'. injection Hv0' as <-.
    assert (Hopt : (v' / d (t c') <= v / d (t c - 1))%Q).
    { pose proof (ha_optimal d votes [] [] n Hpos Hmono Hv0 Hnd Hprev c' v' (c, (v / d (t c - 1))%Q) Hc') as H. rewrite cap_n in H.
      specialize (H Hcap Hin). exact H. }
    assert (Hsc : 0 <= s c) by (apply Hs0, in_map_iff; exists (c, v); split; [reflexivity|exact Hc]).
    assert (Htc' : 0 <= t c') by (apply (inv_nonneg _ _ _ _ _ _ I)).
    assert (Hspec : (v / d (s c) < v' / d (s c' - 1))%Q) by (apply (Hminmax c v c' v' Hc Hc'); lia).
    assert (H1 : (v / d (t c - 1) <= v / d (s c))%Q).
    { destruct (Z.eq_dec (s c) (t c - 1)) as [E|E]; [rewrite E; lra|].
      apply Qlt_le_weak, quot_strict; [apply (Hvpos c v Hc)|apply Hpos; lia|].
      apply (divisor_strict_lt d Hstrict); lia. }
    assert (H2 : (v' / d (s c' - 1) <= v' / d (t c'))%Q).
    { destruct (Z.eq_dec (t c') (s c' - 1)) as [E|E]; [rewrite E; lra|].
      apply Qlt_le_weak, quot_strict; [apply (Hvpos c' v' Hc')|apply Hpos; lia|].
      apply (divisor_strict_lt d Hstrict); lia. }
    lra.
  Qed.

  Theorem ha_unique : st_tie fin = None /\ st_rem fin = 0 /\ forall c, In c keys -> t c = s c.
  Proof.
    pose proof n_nonneg as Hn.
    pose proof (inv_remacc _ _ _ _ _ _ I) as Hacc. simpl (zsum (map snd [])) in Hacc. rewrite Z.sub_0_r in Hacc.
    assert (Hrem0 : 0 <= st_rem fin).
    { destruct (inv_rem _ _ _ _ _ _ I) as [H|H]; [exact H|].
      rewrite H in Hacc. simpl in Hacc.
      destruct (st_tie fin) as [[T r]|] eqn:Et; [destruct (inv_tie _ _ _ _ _ _ I T r Et); lia|lia]. }
    (* a key with a value, for every key *)
    assert (Hkv : forall c, In c keys -> exists v, In (c, v) votes).
    { intros c Hc. apply in_map_iff in Hc. destruct Hc as ([c0 v] & <- & Hin). exists v. exact Hin. }
    (* whenever fewer than n seats are awarded, s >= t pointwise *)
    assert (Hge : Z.of_nat (length (st_awards fin)) < n -> forall c, In c keys -> t c <= s c).
    { intros Hshort c Hc. destruct (Z.le_gt_cases (t c) (s c)) as [H|H]; [exact H|exfalso].
      assert (Hlt : ksum t keys < ksum s keys) by (rewrite sum_t, Hsum; exact Hshort).
      destruct (ksum_lt_exists _ _ _ Hlt) as (c' & Hc' & Hless).
      destruct (Hkv c Hc) as (v & Hv). destruct (Hkv c' Hc') as (v' & Hv').
      apply (no_exchange c v c' v' Hv Hv'); [lia|exact Hless|apply t_lt_n_if_short, Hshort]. }
    destruct (st_tie fin) as [[T r]|] eqn:Et.
    - (* a tie is impossible *)
      exfalso. destruct (inv_tie _ _ _ _ _ _ I T r Et) as (Hr0 & Hr & m & _ & Hmax & Hperm).
      assert (Hshort : Z.of_nat (length (st_awards fin)) < n) by lia.
      specialize (Hge Hshort).
      assert (Hlt : ksum t keys < ksum s keys) by (rewrite sum_t, Hsum; exact Hshort).
      destruct (ksum_lt_exists _ _ _ Hlt) as (c' & Hc' & Hless). destruct (Hkv c' Hc') as (v' & Hv').
      (* c' is eligible, so its current quotient is in the queue and <= m *)
      assert (Hcq : (v' / d (t c') <= m)%Q).
      { pose proof (inv_complete _ _ _ _ _ _ I c' v' Hv') as Hk. rewrite cap_n in Hk.
        specialize (Hk (t_lt_n_if_short c' Hshort)). apply in_map_iff in Hk. destruct Hk as ([c0 x] & Hc0 & Hy).
        simpl in Hc0. subst c0.
        pose proof (inv_items _ _ _ _ _ _ I) as Hit. rewrite Forall_forall in Hit. destruct (Hit _ Hy) as (v0 & Hv0' & Hx & _).
        simpl in Hv0', Hx. rewrite (In_dget _ _ _ Hnd Hv') in Hv0'. injection Hv0' as <-.
        rewrite Forall_forall in Hmax. specialize (Hmax _ Hy). simpl in Hmax. unfold tot. unfold tot_of in Hx. rewrite <- Hx. exact Hmax. }
      assert (Hs' : 0 < s c') by (pose proof (inv_nonneg _ _ _ _ _ _ I c'); lia).
      assert (Hlast' : (v' / d (s c' - 1) <= v' / d (t c'))%Q).
      { pose proof (inv_nonneg _ _ _ _ _ _ I c') as Ht0.
        destruct (Z.eq_dec (t c') (s c' - 1)) as [E|E]; [rewrite E; lra|].
        apply Qlt_le_weak, quot_strict; [apply (Hvpos c' v' Hv')|apply Hpos; lia|].
        apply (divisor_strict_lt d Hstrict); lia. }
      (* every tie member has s > t *)
      assert (HT : forall c, In c T -> In c keys /\ t c + 1 <= s c).
      { intros c HcT. apply (Permutation_in _ Hperm) in HcT. apply in_map_iff in HcT.
        destruct HcT as ([c0 x] & Hc0 & Hy). simpl in Hc0. subst c0. apply filter_In in Hy. destruct Hy as [Hy Hxm].
        simpl in Hxm. apply Qeq_bool_iff in Hxm.
        pose proof (inv_items _ _ _ _ _ _ I) as Hit. rewrite Forall_forall in Hit. destruct (Hit _ Hy) as (v & Hv & Hx & Hb).
        simpl in Hv, Hx, Hb. apply dget_In in Hv.
        assert (Hck : In c keys) by (apply in_map_iff; exists (c, v); split; [reflexivity|exact Hv]).
        split; [exact Hck|].
        destruct (Z.lt_ge_cases (t c) (s c)) as [H|H]; [lia|exfalso].
        assert (Heq : s c = t c) by (specialize (Hge c Hck); lia).
        pose proof (Hminmax c v c' v' Hv Hv' Hs') as Hspec. rewrite Heq in Hspec.
        unfold tot in Hspec. unfold tot_of in Hx. rewrite <- Hx in Hspec. lra. }
      assert (HndT : NoDup T).
      { apply (Permutation_NoDup (Permutation_sym Hperm)).
        pose proof (inv_nodup _ _ _ _ _ _ I) as Hq. clear -Hq.
        induction (st_qs fin) as [|y q IH]; simpl; [constructor|].
        simpl in Hq. inversion Hq as [|? ? Hy Hq']; subst.
        destruct (Qeq_bool (snd y) m); [|apply IH, Hq'].
        simpl. constructor; [|apply IH, Hq'].
        intros Hin. apply Hy. apply in_map_iff in Hin. destruct Hin as (z & Hz & Hf). apply filter_In in Hf.
        apply in_map_iff. exists z. split; [exact Hz|apply Hf]. }
      assert (Hbig : ksum t keys + Z.of_nat (length T) <= ksum s keys).
      { rewrite <- (ksum_count T keys Hnd (fun x Hx => proj1 (HT x Hx))), <- ksum_plus.
        apply ksum_le. intros c Hc.
        destruct (in_dec Pos.eq_dec c T) as [Hi|Hni].
        - pose proof (count_nodup_le1 c T HndT). destruct (HT c Hi). lia.
        - rewrite (count_notin _ _ Hni). specialize (Hge c Hc). lia. }
      rewrite sum_t, Hsum in Hbig. lia.
    - (* no tie: all n seats are out, then s = t *)
      assert (Hdone : st_rem fin = 0).
      { destruct (Z.eq_dec (st_rem fin) 0) as [E|E]; [exact E|exfalso].
        assert (Hshort : Z.of_nat (length (st_awards fin)) < n) by lia.
        assert (Hn' : 0 <= n - zsum (map snd (@nil (C * Z)))) by (change (zsum (map snd (@nil (C * Z)))) with 0; lia).
        destruct (ha_total d votes [] [] n Hpos Hmono Hv0 Hnd Hprev Hn') as [_ [H|[Hq _]]]; [lia|].
        assert (Hlt : ksum t keys < ksum s keys) by (rewrite sum_t, Hsum; exact Hshort).
        destruct (ksum_lt_exists _ _ _ Hlt) as (c' & Hc' & _). destruct (Hkv c' Hc') as (v' & Hv').
        pose proof (inv_complete _ _ _ _ _ _ I c' v' Hv') as Hk. rewrite cap_n in Hk.
        specialize (Hk (t_lt_n_if_short c' Hshort)). rewrite Hq in Hk. destruct Hk. }
      split; [reflexivity|]. split; [exact Hdone|].
      assert (Hfull : Z.of_nat (length (st_awards fin)) = n) by lia.
      (* pointwise t <= s fails somewhere => exchange; so t <= s everywhere, and equal sums force equality *)
      assert (Hle : forall c, In c keys -> t c <= s c).
      { intros c Hc. destruct (Z.le_gt_cases (t c) (s c)) as [H|H]; [exact H|exfalso].
        (* some c' has t < s, otherwise sum s < sum t *)
        destruct (Z.lt_ge_cases (ksum (fun x => if ceqb x c then t x - 1 else t x) keys) (ksum s keys)) as [Hlt|Hgeq].
        + destruct (ksum_lt_exists _ _ _ Hlt) as (c' & Hc' & Hless).
          destruct (ceqb c' c) eqn:E; [apply ceqb_eq in E; subst c'; lia|].
          destruct (Hkv c Hc) as (v & Hv). destruct (Hkv c' Hc') as (v' & Hv').
          apply (no_exchange c v c' v' Hv Hv'); [lia|exact Hless|].
          (* t c' < n : c holds at least one of the n awarded seats *)
          apply ceqb_neq in E.
          assert (Hs2 : t c + t c' <= n).
          { pose proof (count_two c c' (map fst (st_awards fin)) E) as H2. rewrite map_length in H2.
            rewrite !t_count. lia. }
          pose proof (Hs0 c Hc). lia.
        + assert (E : ksum (fun x => if ceqb x c then t x - 1 else t x) keys = ksum t keys - 1).
          { assert (E0 : ksum t keys = ksum (fun x => (if ceqb x c then t x - 1 else t x) + (if ceqb x c then 1 else 0)) keys).
            { unfold ksum. f_equal. apply map_ext. intros x. destruct (ceqb x c); lia. }
            rewrite E0, ksum_plus, (ksum_indicator c keys Hnd).
            destruct (in_dec Pos.eq_dec c keys) as [_|Hn0]; [lia|contradiction]. }
          rewrite E, sum_t, Hsum in Hgeq. lia. }
      intros c Hc. destruct (Z.eq_dec (t c) (s c)) as [E|E]; [exact E|exfalso].
      assert (Hlt : t c < s c) by (specialize (Hle c Hc); lia).
      assert (Hsum2 : ksum (fun x => t x + (if ceqb x c then 1 else 0)) keys <= ksum s keys).
      { apply ksum_le. intros x Hx. destruct (ceqb x c) eqn:E1; [apply ceqb_eq in E1; subst x; lia|specialize (Hle x Hx); lia]. }
      rewrite ksum_plus, (ksum_indicator c keys Hnd), sum_t, Hsum in Hsum2.
      destruct (in_dec Pos.eq_dec c keys) as [_|Hn0]; [lia|contradiction].
  Qed.
End Unique.
