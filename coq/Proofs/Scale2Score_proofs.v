(* Scale invariance (C11) of the score family (Model/Cardinal.v): ScoreToSimpleVotes / ScoreVoting with the sum, mean
   and low-median aggregates, and MajorityJudgment.  Score profiles carry integer ballot counts; the k-fold
   profile has every count multiplied by the positive integer k.  The per-candidate (score -> count) dictionaries
   are then k-fold, so the materialised per-voter list is [dup k] of the original one (Scale2Dup_proofs.v):
   mean, low median and the minimum are unchanged, the sum is k-fold.
   Scale-free configurations: min_count = 0 (a positive min_count is an absolute number of votes), any
   unscored_value (none / constant / minimum), truncation <= 0 (none) or a FRACTION in (0, 1) that cuts a whole
   number of votes (floor (n_votes * t) = n_votes * t: otherwise the k-fold electorate cuts proportionally more);
   an absolute truncation count (>= 1) is not scale-free.  Witnesses of the three failures: [Props/C11.v]. *)
From Coq Require Import ZArith QArith Qround List Bool Arith Lia Lqa.
From VL Require Import Prelude.PyDict Model.GetNBest Model.Convert Model.Cardinal
     Proofs.Dict_proofs Proofs.GetNBest_proofs Proofs.QOrd Proofs.LRScale_proofs Proofs.STVScale_proofs
     Proofs.Scale2Dup_proofs.
Import ListNotations.

Definition scale_z {B} (k : Z) (votes : list (B * Z)) : list (B * Z) := map (fun bn => (fst bn, (k * snd bn)%Z)) votes.

(* relation on results that may be errors *)
Definition sumrel {A B} (R : A -> B -> Prop) (x : A + serr) (y : B + serr) : Prop :=
  match x, y with
  | inl a, inl b => R a b
  | inr e, inr e' => e = e'
  | _, _ => False
  end.

Section DictRel.
  Context {V W : Type}.
  Variable R : V -> W -> Prop.

  Lemma dget_lrel (d : list (C * V)) (d' : list (C * W)) c : lrel R d d' -> orel R (dget d c) (dget d' c).
  Proof.
    intros H. induction H as [|[c0 v] [c0' v'] d d' [Hc Hv] Hd IH]; cbn [dget]; [exact I|].
    cbn [fst snd] in Hc, Hv. subst c0'. destruct (ceqb c c0); [exact Hv|exact IH].
  Qed.

  Lemma dset_lrel (d : list (C * V)) (d' : list (C * W)) c x x' : lrel R d d' -> R x x' -> lrel R (dset d c x) (dset d' c x').
  Proof.
    intros H Hx. induction H as [|[c0 v] [c0' v'] d d' [Hc Hv] Hd IH]; cbn [dset].
    - constructor; [split; [reflexivity|exact Hx]|constructor].
    - cbn [fst snd] in Hc, Hv. subst c0'. destruct (ceqb c c0).
      + constructor; [split; [reflexivity|exact Hx]|exact Hd].
      + constructor; [split; [reflexivity|exact Hv]|exact IH].
  Qed.

  Lemma sequence_rel {X} (l : list (X * (V + serr))) (l' : list (X * (W + serr))) :
    Forall2 (fun x y => fst x = fst y /\ sumrel R (snd x) (snd y)) l l' -> sumrel (lrel (K := X) R) (sequence l) (sequence l').
  Proof.
    intros H. induction H as [|[x a] [x' a'] l l' [Hx Ha] Hl IH]; cbn [sequence]; [constructor|].
    cbn [fst snd] in Hx, Ha. subst x'. destruct a as [a|e], a' as [a'|e']; cbn [sumrel] in Ha; try contradiction.
    - destruct (sequence l) as [r|e], (sequence l') as [r'|e']; cbn [sumrel] in IH |- *; try contradiction; [|exact IH].
      constructor; [split; [reflexivity|exact Ha]|exact IH].
    - exact Ha.
  Qed.
End DictRel.

Section ScoreScale.
  Variable k : Z.
  Hypothesis Hk : (0 < k)%Z.

  Definition zsc (n n' : Z) : Prop := n' = (k * n)%Z.
  Definition crel : cscores -> cscores -> Prop := lrel (K := Q) zsc.
  Definition screl : list (C * cscores) -> list (C * cscores) -> Prop := lrel (K := C) crel.
  Notation kn := (Z.to_nat k).

  Lemma kn_pos : (1 <= kn)%nat.
  Proof. lia. Qed.

  (* ---- the (score -> count) dictionaries *)
  Lemma cs_get_rel d d' s : crel d d' -> cs_get d' s = option_map (Z.mul k) (cs_get d s).
  Proof.
    intros H. induction H as [|[s0 n] [s0' n'] d d' [Hs Hn] Hd IH]; cbn [cs_get]; [reflexivity|].
    cbn [fst snd] in Hs, Hn. subst s0'. destruct (Qeq_bool s s0); [rewrite Hn; reflexivity|exact IH].
  Qed.

  Lemma cs_get0_rel d d' s : crel d d' ->
    match cs_get d' s with Some n => n | None => 0%Z end = (k * match cs_get d s with Some n => n | None => 0%Z end)%Z.
  Proof. intros H. rewrite (cs_get_rel d d' s H). destruct (cs_get d s); cbn [option_map]; lia. Qed.

  Lemma cs_set_rel d d' s n n' : crel d d' -> zsc n n' -> crel (cs_set d s n) (cs_set d' s n').
  Proof.
    intros H Hx. induction H as [|[s0 m] [s0' m'] d d' [Hs Hm] Hd IH]; cbn [cs_set].
    - constructor; [split; [reflexivity|exact Hx]|constructor].
    - cbn [fst snd] in Hs, Hm. subst s0'. destruct (Qeq_bool s s0).
      + constructor; [split; [reflexivity|exact Hx]|exact Hd].
      + constructor; [split; [reflexivity|exact Hm]|exact IH].
  Qed.

  Lemma cs_del_rel d d' s : crel d d' -> crel (cs_del d s) (cs_del d' s).
  Proof. intros H. apply (lrel_filter_fst zsc (fun key => negb (Qeq_bool s key))), H. Qed.

  Lemma fold_add_rel (d d' : cscores) : crel d d' -> forall a,
    fold_left Z.add (map snd d') (k * a)%Z = (k * fold_left Z.add (map snd d) a)%Z.
  Proof.
    intros H. induction H as [|y y' d d' [_ Hy] Hd IH]; intros a; cbn [map fold_left]; [reflexivity|].
    unfold zsc in Hy. rewrite Hy, <- Z.mul_add_distr_l. apply IH.
  Qed.

  Lemma cs_total_rel d d' : crel d d' -> cs_total d' = (k * cs_total d)%Z.
  Proof. intros H. unfold cs_total. rewrite <- (fold_add_rel d d' H 0%Z). f_equal. lia. Qed.

  Lemma crel_keys d d' : crel d d' -> map fst d' = map fst d.
  Proof. apply (lrel_keys zsc). Qed.

  Lemma to_nat_scale n : Z.to_nat (k * n) = (Z.to_nat n * kn)%nat.
  Proof.
    destruct (Z.le_gt_cases 0 n) as [Hn|Hn].
    - rewrite Z2Nat.inj_mul by lia. lia.
    - replace (Z.to_nat n) with 0%nat by lia. replace (Z.to_nat (k * n)) with 0%nat by nia. reflexivity.
  Qed.

  Lemma expand_rel d d' : crel d d' -> expand d' = dup kn (expand d).
  Proof.
    intros H. unfold expand. induction H as [|[s n] [s' n'] d d' [Hs Hn] Hd IH]; cbn [flat_map]; [reflexivity|].
    cbn [fst snd] in *. subst s'. unfold zsc in Hn. subst n'. rewrite dup_app, IH, dup_repeat, to_nat_scale. reflexivity.
  Qed.

  (* ---- raw scores *)
  Definition sprel : sprofile -> sprofile -> Prop := lrel (K := sballot) zsc.

  Definition raw_step (n : Z) (d : list (C * cscores)) (cs : C * Q) : list (C * cscores) :=
    let old := match dget d (fst cs) with Some x => x | None => [] end in
    dset d (fst cs) (cs_set old (snd cs) (match cs_get old (snd cs) with Some j => j | None => 0%Z end + n)).

  Lemma raw_scores_unfold votes :
    raw_scores votes = fold_left (fun d bn => fold_left (raw_step (snd bn)) (fst bn) d) votes [].
  Proof. reflexivity. Qed.

  Lemma raw_step_rel n n' d d' cs : zsc n n' -> screl d d' -> screl (raw_step n d cs) (raw_step n' d' cs).
  Proof.
    intros Hn Hd. unfold raw_step. cbv zeta.
    pose proof (dget_lrel crel d d' (fst cs) Hd) as Hg.
    assert (Ho : crel match dget d (fst cs) with Some x => x | None => [] end match dget d' (fst cs) with Some x => x | None => [] end).
    { destruct (dget d (fst cs)), (dget d' (fst cs)); cbn [orel] in Hg; try contradiction; [exact Hg|constructor]. }
    apply dset_lrel; [exact Hd|]. apply cs_set_rel; [exact Ho|].
    unfold zsc in *. rewrite (cs_get0_rel _ _ (snd cs) Ho), Hn. lia.
  Qed.

  Lemma raw_inner_rel (b : sballot) n n' : zsc n n' -> forall d d', screl d d' ->
    screl (fold_left (raw_step n) b d) (fold_left (raw_step n') b d').
  Proof.
    intros Hn. induction b as [|cs b IHb]; intros d d' Hd; cbn [fold_left]; [exact Hd|].
    apply IHb, raw_step_rel; assumption.
  Qed.

  Lemma raw_scores_rel v v' : sprel v v' -> screl (raw_scores v) (raw_scores v').
  Proof.
    intros H. rewrite !raw_scores_unfold.
    assert (H0 : screl [] []) by constructor. revert H0. generalize (@nil (C * cscores)) at 1 3. generalize (@nil (C * cscores)).
    induction H as [|[b n] [b' n'] l l' [Hy Hn] Hl IH]; intros d' d Hd; cbn [fold_left]; [exact Hd|].
    cbn [fst snd] in *. subst b'. apply IH, raw_inner_rel; assumption.
  Qed.

  Lemma sp_total_rel v v' : sprel v v' -> forall a,
    fold_left Z.add (map snd v') (k * a)%Z = (k * fold_left Z.add (map snd v) a)%Z.
  Proof.
    intros H. induction H as [|y y' d d' [_ Hy] Hd IH]; intros a; cbn [map fold_left]; [reflexivity|].
    unfold zsc in Hy. rewrite Hy, <- Z.mul_add_distr_l. apply IH.
  Qed.

  (* ---- truncation *)
  Lemma subtract_lowest_rel keys : forall d d' cutoff cut, crel d d' ->
    orel crel (subtract_lowest d keys cutoff cut) (subtract_lowest d' keys (k * cutoff) (k * cut)).
  Proof.
    induction keys as [|s t IH]; intros d d' cutoff cut H; cbn [subtract_lowest]; [exact H|].
    rewrite (cs_get_rel d d' s H). destruct (cs_get d s) as [n|]; cbn [option_map]; [|apply IH, H].
    assert (E : (k * n <=? k * cutoff - k * cut)%Z = (n <=? cutoff - cut)%Z).
    { destruct (n <=? cutoff - cut)%Z eqn:E; [apply Z.leb_le in E; apply Z.leb_le; nia|apply Z.leb_gt in E; apply Z.leb_gt; nia]. }
    rewrite E. destruct (n <=? cutoff - cut)%Z.
    - rewrite <- Z.mul_add_distr_l. apply IH, cs_del_rel, H.
    - cbn [orel]. apply cs_set_rel; [exact H|]. unfold zsc. lia.
  Qed.

  Definition cutoff_of (cf : score_cfg) (n_votes n_scores : Z) : Z :=
    if Qle_bool 1 (sc_trunc cf) then Qfloor (sc_trunc cf)
    else Qfloor (inject_Z (if (n_votes =? 0)%Z then n_scores else n_votes) * sc_trunc cf).

  (* what the simulation needs of the configuration, at the number of votes of the profile *)
  Definition cfg_ok (cf : score_cfg) (n_votes : Z) : Prop :=
    sc_min_count cf = 0%Z /\
    (Qle_bool (sc_trunc cf) 0 = true \/ forall ns, cutoff_of cf (k * n_votes) (k * ns) = (k * cutoff_of cf n_votes ns)%Z).

  Lemma correct_scores_rel cf d d' nv : cfg_ok cf nv -> crel d d' ->
    sumrel crel (correct_scores cf d nv) (correct_scores cf d' (k * nv)).
  Proof.
    intros [Hmc Hcut] H. unfold correct_scores. cbv zeta. rewrite (cs_total_rel d d' H), Hmc.
    assert (E0 : (k * cs_total d <? 0)%Z = (cs_total d <? 0)%Z).
    { destruct (cs_total d <? 0)%Z eqn:E; [apply Z.ltb_lt in E; apply Z.ltb_lt; nia|apply Z.ltb_ge in E; apply Z.ltb_ge; nia]. }
    rewrite E0. destruct (cs_total d <? 0)%Z.
    { cbn [sumrel]. constructor; [|constructor]. split; [reflexivity|]. cbn [snd]. unfold zsc. lia. }
    set (ns := cs_total d).
    assert (Hun : forall v, crel (cs_set d v (nv - ns + match cs_get d v with Some n => n | None => 0 end))
                                 (cs_set d' v (k * nv - k * ns + match cs_get d' v with Some n => n | None => 0 end))).
    { intros v. apply cs_set_rel; [exact H|]. unfold zsc. rewrite (cs_get0_rel d d' v H). lia. }
    assert (H1 : sumrel crel
               match sc_unscored cf with
               | UNone => inl d
               | UConst v => inl (cs_set d v (nv - ns + match cs_get d v with Some n => n | None => 0 end))
               | UMin => match list_min (expand d) with
                         | Some v => inl (cs_set d v (nv - ns + match cs_get d v with Some n => n | None => 0 end))
                         | None => inr SE_value
                         end
               end
               match sc_unscored cf with
               | UNone => inl d'
               | UConst v => inl (cs_set d' v (k * nv - k * ns + match cs_get d' v with Some n => n | None => 0 end))
               | UMin => match list_min (expand d') with
                         | Some v => inl (cs_set d' v (k * nv - k * ns + match cs_get d' v with Some n => n | None => 0 end))
                         | None => inr SE_value
                         end
               end).
    { destruct (sc_unscored cf) as [|v|]; cbn [sumrel]; [exact H|apply Hun|].
      rewrite (expand_rel d d' H), (list_min_dup kn _ kn_pos). destruct (list_min (expand d)) as [v|]; cbn [sumrel]; [apply Hun|reflexivity]. }
    match goal with H1 : sumrel crel ?a ?b |- _ => destruct a as [d1|e], b as [d1'|e'] end; cbn [sumrel] in H1; try contradiction; [|exact H1].
    destruct (Qle_bool (sc_trunc cf) 0) eqn:Et; [exact H1|].
    destruct Hcut as [Hcut|Hcut]; [congruence|].
    specialize (Hcut ns). unfold cutoff_of in Hcut. rewrite Hcut.
    set (cutoff := if Qle_bool 1 (sc_trunc cf) then _ else _).
    rewrite (crel_keys d1 d1' H1). set (keys := sort_q (map fst d1)).
    pose proof (subtract_lowest_rel keys d1 d1' cutoff 0 H1) as S1. rewrite Z.mul_0_r in S1.
    destruct (subtract_lowest d1 keys cutoff 0) as [d2|], (subtract_lowest d1' keys (k * cutoff) 0) as [d2'|];
      cbn [orel] in S1; try contradiction; [|reflexivity].
    pose proof (subtract_lowest_rel (rev keys) d2 d2' cutoff 0 S1) as S2. rewrite Z.mul_0_r in S2.
    destruct (subtract_lowest d2 (rev keys) cutoff 0) as [d3|], (subtract_lowest d2' (rev keys) (k * cutoff) 0) as [d3'|];
      cbn [orel] in S2; try contradiction; [exact S2|reflexivity].
  Qed.

  Definition sp_total (votes : sprofile) : Z := fold_left Z.add (map snd votes) 0%Z.

  Lemma corrected_scores_rel cf v v' : cfg_ok cf (sp_total v) -> sprel v v' ->
    sumrel screl (corrected_scores cf v) (corrected_scores cf v').
  Proof.
    intros Hcf H. unfold corrected_scores. cbv zeta.
    pose proof (sp_total_rel v v' H 0%Z) as Hn. rewrite Z.mul_0_r in Hn. rewrite Hn. fold (sp_total v).
    apply sequence_rel. pose proof (raw_scores_rel v v' H) as Hr.
    induction Hr as [|y y' l l' [Hy Hd] Hl IH]; cbn [map]; constructor; [|exact IH].
    cbn [fst snd]. split; [exact Hy|]. apply correct_scores_rel; assumption.
  Qed.

  (* ---- aggregation *)
  Definition agg_factor (fn : aggfn) : Q := match fn with FSum => inject_Z k | _ => 1 end.

  Lemma agg_factor_pos fn : (0 < agg_factor fn)%Q.
  Proof. destruct fn; cbn [agg_factor]; try reflexivity. change 0%Q with (inject_Z 0). rewrite <- Zlt_Qlt. exact Hk. Qed.

  Lemma aggregate_one_rel fn d d' : crel d d' ->
    sumrel (qsc (agg_factor fn)) (aggregate_one fn d) (aggregate_one fn d').
  Proof.
    intros H. rewrite !aggregate_one_list, (expand_rel d d' H). destruct fn; cbn [agg_factor].
    - rewrite (mean_dup kn _ kn_pos). destruct (agg_list FMean (expand d)); cbn [sumrel]; [|reflexivity]. unfold qsc. ring.
    - cbn [agg_list sumrel]. unfold qsc. rewrite !Qred_correct, sum_dup. rewrite Z2Nat.id by lia. reflexivity.
    - rewrite (median_low_dup kn _ kn_pos). destruct (agg_list FMedianLow (expand d)); cbn [sumrel]; [|reflexivity]. unfold qsc. ring.
  Qed.

  Lemma aggregate_rel fn sc sc' : screl sc sc' ->
    sumrel (lrel (K := C) (qsc (agg_factor fn))) (aggregate fn sc) (aggregate fn sc').
  Proof.
    intros H. unfold aggregate. apply sequence_rel.
    induction H as [|y y' l l' [Hy Hd] Hl IH]; cbn [map]; constructor; [|exact IH].
    cbn [fst snd]. split; [exact Hy|]. apply aggregate_one_rel, Hd.
  Qed.

  (* mean and low median are not merely ==-related but identical *)
  Lemma aggregate_one_eq fn d d' : fn <> FSum -> crel d d' -> aggregate_one fn d' = aggregate_one fn d.
  Proof.
    intros Hfn H. rewrite !aggregate_one_list, (expand_rel d d' H). destruct fn; [|congruence|].
    - apply (mean_dup kn _ kn_pos).
    - apply (median_low_dup kn _ kn_pos).
  Qed.

  Lemma aggregate_eq fn sc sc' : fn <> FSum -> screl sc sc' -> aggregate fn sc' = aggregate fn sc.
  Proof.
    intros Hfn H. unfold aggregate. f_equal.
    induction H as [|y y' l l' [Hy Hd] Hl IH]; cbn [map]; [reflexivity|].
    rewrite IH, (aggregate_one_eq fn _ _ Hfn Hd). f_equal. f_equal. symmetry. exact Hy.
  Qed.

  Theorem score_to_simple_rel cf v v' : cfg_ok cf (sp_total v) -> sprel v v' ->
    sumrel (lrel (K := C) (qsc (agg_factor (sc_fn cf)))) (score_to_simple cf v) (score_to_simple cf v').
  Proof.
    intros Hcf H. unfold score_to_simple. pose proof (corrected_scores_rel cf v v' Hcf H) as Hc.
    destruct (corrected_scores cf v) as [sc|e], (corrected_scores cf v') as [sc'|e']; cbn [sumrel] in Hc; try contradiction; [|exact Hc].
    apply aggregate_rel, Hc.
  Qed.

  Theorem score_voting_rel cf v v' n : cfg_ok cf (sp_total v) -> sprel v v' ->
    score_voting cf v' n = score_voting cf v n.
  Proof.
    intros Hcf H. unfold score_voting. pose proof (score_to_simple_rel cf v v' Hcf H) as Hs.
    destruct (score_to_simple cf v) as [a|e], (score_to_simple cf v') as [a'|e']; cbn [sumrel] in Hs; try contradiction; [|congruence].
    f_equal. apply (get_n_best_rel Qle_bool Qle_bool _ (qsc_le _ (agg_factor_pos (sc_fn cf))) _ _ n Hs).
  Qed.

  Lemma sprel_scale (votes : sprofile) : sprel votes (scale_z k votes).
  Proof.
    induction votes as [|y l IH]; cbn [scale_z map]; constructor; [|exact IH].
    split; [reflexivity|]. cbn [snd]. unfold zsc. reflexivity.
  Qed.

  Theorem score_voting_scale cf votes n : cfg_ok cf (sp_total votes) ->
    score_voting cf (scale_z k votes) n = score_voting cf votes n.
  Proof. intros Hcf. apply score_voting_rel; [exact Hcf|apply sprel_scale]. Qed.

  (* ---- sufficient, checkable conditions for cfg_ok *)
  Definition is_whole (x : Q) : Prop := (inject_Z (Qfloor x) == x)%Q.

  Lemma cfg_ok_no_truncation cf nv : sc_min_count cf = 0%Z -> Qle_bool (sc_trunc cf) 0 = true -> cfg_ok cf nv.
  Proof. intros H1 H2. split; [exact H1|left; exact H2]. Qed.

  Lemma cfg_ok_whole_fraction cf nv : sc_min_count cf = 0%Z -> Qle_bool 1 (sc_trunc cf) = false -> nv <> 0%Z ->
    is_whole (inject_Z nv * sc_trunc cf) -> cfg_ok cf nv.
  Proof.
    intros H1 H2 Hnv Hw. split; [exact H1|right]. intros ns. unfold cutoff_of. rewrite H2.
    assert (E1 : (k * nv =? 0)%Z = false) by (apply Z.eqb_neq; nia).
    assert (E2 : (nv =? 0)%Z = false) by (apply Z.eqb_neq; exact Hnv).
    rewrite E1, E2. unfold is_whole in Hw.
    assert (E : (inject_Z (k * nv) * sc_trunc cf == inject_Z (k * Qfloor (inject_Z nv * sc_trunc cf)))%Q).
    { rewrite !inject_Z_mult, Hw. ring. }
    rewrite (Qfloor_comp _ _ E). apply Qfloor_Z.
  Qed.

  (* ================================================================ majority judgment *)
  Lemma counts_over_rel d d' thr : crel d d' -> counts_over d' thr = (k * counts_over d thr)%Z.
  Proof.
    intros H. unfold counts_over.
    pose proof (lrel_filter_fst zsc (fun s => Qle_bool thr s) d d' H) as Hf.
    rewrite <- (fold_add_rel _ _ Hf 0%Z). f_equal. lia.
  Qed.

  Lemma screl_filter (f : C -> bool) sc sc' : screl sc sc' ->
    screl (filter (fun cd => f (fst cd)) sc) (filter (fun cd => f (fst cd)) sc').
  Proof. apply (lrel_filter_fst crel f). Qed.

  Lemma mj_plus_rel sub sub' n : screl sub sub' -> mj_plus sub' n = mj_plus sub n.
  Proof.
    intros H. unfold mj_plus. destruct H as [|[c d0] [c' d0'] l l' [Hc Hd] Hl]; [reflexivity|].
    cbn [fst snd] in Hc, Hd. rewrite (aggregate_one_eq FMedianLow d0 d0' ltac:(discriminate) Hd).
    destruct (aggregate_one FMedianLow d0) as [med|e]; [|reflexivity]. f_equal.
    assert (Hk' : (0 < inject_Z k)%Q) by (change 0%Q with (inject_Z 0); rewrite <- Zlt_Qlt; exact Hk).
    apply (get_n_best_rel Qle_bool Qle_bool _ (qsc_le _ Hk')).
    assert (Hall : screl ((c, d0) :: l) ((c', d0') :: l')) by (constructor; [split; assumption|exact Hl]).
    induction Hall as [|y y' m m' [Hy Hyd] Hm IH]; cbn [map]; constructor; [|exact IH].
    split; [exact Hy|]. cbn [snd]. unfold qsc. rewrite (counts_over_rel _ _ med Hyd), inject_Z_mult. reflexivity.
  Qed.

  (* the first stage - medians, order, whether and among whom a tie has to be broken - is identical; the k-fold
     election hands the k-fold score dictionaries of the same candidates to the tie-breaker *)
  Definition mj_fuel (sub : list (C * cscores)) : nat :=
    (Z.to_nat (fold_left Z.add (map (fun cd => cs_total (snd cd)) sub) 0%Z) + 2)%nat.

  Theorem majority_judgment_rel plus cf v v' n : cfg_ok cf (sp_total v) -> sprel v v' ->
    (plus = false -> forall sc tied sub' j, corrected_scores cf v = inl sc ->
       screl (filter (fun cd : C * cscores => cmem (fst cd) tied) sc) sub' ->
       mj_default (mj_fuel sub') sub' j
       = mj_default (mj_fuel (filter (fun cd : C * cscores => cmem (fst cd) tied) sc)) (filter (fun cd : C * cscores => cmem (fst cd) tied) sc) j) ->
    majority_judgment plus cf v' n = majority_judgment plus cf v n.
  Proof.
    intros Hcf H Hdef. unfold majority_judgment. pose proof (corrected_scores_rel cf v v' Hcf H) as Hc.
    destruct (corrected_scores cf v) as [sc|e] eqn:Esc, (corrected_scores cf v') as [sc'|e']; cbn [sumrel] in Hc; try contradiction; [|congruence].
    rewrite (aggregate_eq FMedianLow sc sc' ltac:(discriminate) Hc).
    destruct (aggregate FMedianLow sc) as [med|e]; [|reflexivity]. cbv zeta.
    destruct (last_tie (get_n_best Qle_bool med n)) as [tied|]; [|reflexivity].
    pose proof (screl_filter (fun c => cmem c tied) sc sc' Hc) as Hsub.
    destruct plus.
    - rewrite (mj_plus_rel _ _ _ Hsub). reflexivity.
    - fold (mj_fuel (filter (fun cd : C * cscores => cmem (fst cd) tied) sc')).
      fold (mj_fuel (filter (fun cd : C * cscores => cmem (fst cd) tied) sc)).
      rewrite (Hdef eq_refl sc tied _ _ eq_refl Hsub). reflexivity.
  Qed.

  Theorem mj_plus_scale cf votes n : cfg_ok cf (sp_total votes) ->
    majority_judgment true cf (scale_z k votes) n = majority_judgment true cf votes n.
  Proof. intros Hcf. apply majority_judgment_rel; [exact Hcf|apply sprel_scale|discriminate]. Qed.

  (* whether the default rule has to break a tie at all *)
  Definition mj_tie_free (cf : score_cfg) (votes : sprofile) (n : nat) : bool :=
    match corrected_scores cf votes with
    | inr _ => true
    | inl sc => match aggregate FMedianLow sc with
                | inr _ => true
                | inl med => match last_tie (get_n_best Qle_bool med n) with None => true | Some _ => false end
                end
    end.

  Theorem mj_tie_free_scale plus cf votes n : cfg_ok cf (sp_total votes) -> mj_tie_free cf votes n = true ->
    majority_judgment plus cf (scale_z k votes) n = majority_judgment plus cf votes n.
  Proof.
    intros Hcf Hfree. unfold majority_judgment, mj_tie_free in *.
    pose proof (corrected_scores_rel cf votes _ Hcf (sprel_scale votes)) as Hc.
    destruct (corrected_scores cf votes) as [sc|e], (corrected_scores cf (scale_z k votes)) as [sc'|e']; cbn [sumrel] in Hc; try contradiction; [|congruence].
    rewrite (aggregate_eq FMedianLow sc sc' ltac:(discriminate) Hc).
    destruct (aggregate FMedianLow sc) as [med|e]; [|reflexivity]. cbv zeta.
    destruct (last_tie (get_n_best Qle_bool med n)) as [tied|]; [discriminate|reflexivity].
  Qed.

  Theorem mj_tie_free_scale_iff cf votes n : cfg_ok cf (sp_total votes) ->
    mj_tie_free cf (scale_z k votes) n = mj_tie_free cf votes n.
  Proof.
    intros Hcf. unfold mj_tie_free.
    pose proof (corrected_scores_rel cf votes _ Hcf (sprel_scale votes)) as Hc.
    destruct (corrected_scores cf votes) as [sc|e], (corrected_scores cf (scale_z k votes)) as [sc'|e']; cbn [sumrel] in Hc; try contradiction; [|reflexivity].
    rewrite (aggregate_eq FMedianLow sc sc' ltac:(discriminate) Hc). reflexivity.
  Qed.
End ScoreScale.

(* ---------------------------------------------------------------- the scale-free configurations, stated without k *)
Definition scale_free_cfg (cf : score_cfg) (votes : sprofile) : Prop :=
  sc_min_count cf = 0%Z /\
  (Qle_bool (sc_trunc cf) 0 = true \/
   (Qle_bool 1 (sc_trunc cf) = false /\ sp_total votes <> 0%Z /\ is_whole (inject_Z (sp_total votes) * sc_trunc cf))).

Lemma scale_free_cfg_ok k cf votes : (0 < k)%Z -> scale_free_cfg cf votes -> cfg_ok k cf (sp_total votes).
Proof.
  intros Hk [Hmc [Ht|(Ht & Hn & Hw)]]; [apply cfg_ok_no_truncation; assumption|apply cfg_ok_whole_fraction; assumption].
Qed.
