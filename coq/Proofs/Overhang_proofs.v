(* Seat-count adjusters (Model/Overhang.v) over an arbitrary proportional evaluator. *)
From Coq Require Import ZArith QArith List Bool Lia.
From VL Require Import Prelude.PyDict Model.Overhang Proofs.Dict_proofs.
Import ListNotations.
Open Scope Z_scope.

Section OHP.
  Variable E : Z -> option (list (C * Z)).

  (* ---- AllowOverhang: the number of overhang seats *)
  Definition overhang_sum (prop prev : list (C * Z)) : Z :=
    fold_right (fun cp acc => Z.max 0 (snd cp - dget_or prop (fst cp) 0) + acc) 0 prev.

  Theorem allow_spec n prev prop : E n = Some prop ->
    allow_overhang E n prev = Some (overhang_sum prop prev).
  Proof.
    intros H. unfold allow_overhang. rewrite H. f_equal.
    assert (G : forall l acc, fold_left (fun adj (cp : C * Z) => let pc := dget_or prop (fst cp) 0 in
                  if pc <? snd cp then adj + (snd cp - pc) else adj) l acc = acc + overhang_sum prop l).
    { induction l as [|[c p] l IH]; intros acc; simpl; [lia|]. rewrite IH.
      destruct (dget_or prop c 0 <? p) eqn:E1; [apply Z.ltb_lt in E1|apply Z.ltb_ge in E1]; lia. }
    rewrite G. lia.
  Qed.

  Theorem overhang_sum_nonneg prop prev : 0 <= overhang_sum prop prev.
  Proof. induction prev as [|[c p] l IH]; simpl; lia. Qed.

  Theorem overhang_sum_zero prop prev :
    overhang_sum prop prev = 0 <-> Forall (fun cp => snd cp <= dget_or prop (fst cp) 0) prev.
  Proof.
    induction prev as [|[c p] l IH]; simpl; [split; [constructor|reflexivity]|].
    pose proof (overhang_sum_nonneg prop l). split.
    - intros H0. constructor; [simpl; lia|apply IH; lia].
    - intros Hf. inversion Hf as [|? ? H1 H2]; subst. simpl in H1. apply IH in H2. lia.
  Qed.

  (* ---- LevelOverhang: the loop stops at the first house size that satisfies every minimum *)
  Theorem level_loop_spec pmins : forall fuel adj prop r,
    level_loop E fuel pmins adj prop = Some r ->
    adj <= r /\
    (r = adj -> satisfied pmins prop = true) /\
    (adj < r -> satisfied pmins prop = false /\
                (exists pr, E r = Some pr /\ satisfied pmins pr = true) /\
                (forall h, adj < h < r -> exists ph, E h = Some ph /\ satisfied pmins ph = false)).
  Proof.
    induction fuel as [|f IH]; intros adj prop r; simpl.
    - destruct (satisfied pmins prop) eqn:Es; [|discriminate]. intros [= <-].
      split; [lia|]. split; [intros _; reflexivity|lia].
    - destruct (satisfied pmins prop) eqn:Es.
      + intros [= <-]. split; [lia|]. split; [intros _; reflexivity|lia].
      + destruct (E (adj + 1)) as [prop'|] eqn:Ee; [|discriminate]. intros H.
        destruct (IH _ _ _ H) as (H1 & H2 & H3). split; [lia|]. split; [intros ->; lia|].
        intros _. split; [reflexivity|].
        destruct (Z.eq_dec r (adj + 1)) as [->|Hne].
        * split; [exists prop'; split; [exact Ee|apply H2; reflexivity]|]. intros h Hh. lia.
        * destruct H3 as (H3a & H3b & H3c); [lia|]. split; [exact H3b|].
          intros h Hh. destruct (Z.eq_dec h (adj + 1)) as [->|Hne2]; [exists prop'; split; assumption|].
          apply H3c. lia.
  Qed.

  (* without overhang among the tier parties the adjustment is zero *)
  Lemma satisfied_no_overhang prop prev : NoDup (map fst prop) ->
    Forall (fun pg => dget_or prev (fst pg) 0 <= snd pg) prop ->
    satisfied (lowest_allowed prop prev) prop = true.
  Proof.
    intros Hnd Hf. unfold satisfied, lowest_allowed. apply forallb_forall. intros [p m] Hin.
    apply in_map_iff in Hin. destruct Hin as ([p0 g] & Heq & Hin). simpl in Heq. injection Heq as <- <-.
    rewrite Forall_forall in Hf. pose proof (Hf _ Hin) as Hle. simpl in *.
    unfold dget_or at 1. rewrite (In_dget prop p0 g Hnd Hin). apply negb_true_iff, Z.ltb_ge. lia.
  Qed.

  Theorem level_zero_without_overhang fuel n prev prop : E n = Some prop -> NoDup (map fst prop) ->
    Forall (fun pg => dget_or prev (fst pg) 0 <= snd pg) prop ->
    level_overhang E fuel n prev = Some 0.
  Proof.
    intros He Hnd Hf. unfold level_overhang. rewrite He.
    assert (Hs := satisfied_no_overhang prop prev Hnd Hf).
    destruct fuel; simpl; rewrite Hs; f_equal; lia.
  Qed.

  Theorem level_nonneg fuel n prev r : level_overhang E fuel n prev = Some r -> 0 <= r.
  Proof.
    unfold level_overhang. destruct (E n) as [prop|]; [|discriminate].
    destruct (level_loop E fuel _ _ prop) as [adj|] eqn:El; [|discriminate]. intros [= <-].
    destruct (level_loop_spec _ _ _ _ _ El) as [H _]. lia.
  Qed.
End OHP.
