(* Scale invariance (C11) of PreferenceAddition (Bucklin, Oklahoma; Model/Bucklin.v): multiplying every ballot
   weight by k > 0 multiplies the decoupled shares, the cumulated round totals and the majority threshold
   (half of the total weight) by k, so every round passes the same candidates over the threshold in the same
   order, get_n_best takes the same ones, and the run returns the identical result - for every coefficient
   function, both splicing loops, with or without decoupling of shared ranks.  A simulation: ballot
   dictionaries and total dictionaries of the two runs have the same keys in the same order and values
   related by x' == k x. *)
From Coq Require Import ZArith QArith List Bool Lia Lqa Qfield.
From VL Require Import Prelude.Sx Prelude.PyDict Prelude.GDict Model.GetNBest Model.Convert Model.Bucklin
     Proofs.Dict_proofs Proofs.GetNBest_proofs Proofs.QOrd Proofs.LRScale_proofs Proofs.STVScale_proofs
     Proofs.Scale2Add_proofs.
Import ListNotations.
Open Scope Q_scope.

Section PAScale.
  Variable k : Q.
  Hypothesis Hk : 0 < k.
  Notation qs := (qsc k).

  Definition brel : list (ranked * Q) -> list (ranked * Q) -> Prop := lrel (K := ranked) qs.
  Notation trel := (vrel k).

  (* ---- decoupling *)
  Lemma rdel_rel d d' b : brel d d' -> brel (rdel d b) (rdel d' b).
  Proof. intros H. apply (lrel_filter_fst qs (fun key => negb (ranked_eqb b key))), H. Qed.

  Lemma fold_gadd_rel (vs : list ranked) s s' : qs s s' -> forall d d', brel d d' ->
    brel (fold_left (fun acc v => gadd ranked_eqb acc v s) vs d) (fold_left (fun acc v => gadd ranked_eqb acc v s') vs d').
  Proof.
    intros Hs. induction vs as [|v vs IH]; intros d d' Hd; cbn [fold_left]; [exact Hd|].
    apply IH. apply (gadd_rel ranked_eqb k); assumption.
  Qed.

  Lemma decouple_step_rel fx new new' bw bw' : brel new new' -> prel qs bw bw' ->
    brel (decouple_step fx new bw) (decouple_step fx new' bw').
  Proof.
    intros Hn [Hb Hw]. unfold decouple_step. rewrite <- Hb. destruct (has_shared (fst bw)); [|exact Hn].
    apply fold_gadd_rel; [|apply rdel_rel, Hn].
    unfold qsc in *. rewrite Hw. unfold Qdiv. ring.
  Qed.

  Lemma decouple_fold_rel fx l l' : brel l l' -> forall new new', brel new new' ->
    brel (fold_left (decouple_step fx) l new) (fold_left (decouple_step fx) l' new').
  Proof.
    intros H. induction H as [|y y' l l' Hy Hl IH]; intros new new' Hn; cbn [fold_left]; [exact Hn|].
    apply IH, decouple_step_rel; assumption.
  Qed.

  Lemma decouple_rel fx v v' : brel v v' -> brel (decouple fx v) (decouple fx v').
  Proof. intros H. apply decouple_fold_rel; exact H. Qed.

  (* ---- quota and number of rounds *)
  Lemma wsum_rel v v' : brel v v' -> qs (wsum v) (wsum v').
  Proof.
    intros H. induction H as [|y y' l l' [_ Hy] Hl IH]; cbn [wsum fold_right].
    - unfold qsc. ring.
    - fold (wsum l). fold (wsum l'). unfold qsc in *. rewrite Hy, IH. ring.
  Qed.

  Lemma max_pref_len_rel v v' : brel v v' -> max_pref_len v' = max_pref_len v.
  Proof.
    intros H. induction H as [|y y' l l' [Hy _] Hl IH]; cbn [max_pref_len fold_right]; [reflexivity|].
    fold (max_pref_len l). fold (max_pref_len l'). rewrite IH. f_equal. f_equal. symmetry. exact Hy.
  Qed.

  (* ---- one round *)
  Lemma dset_rel (d d' : list (C * Q)) c x x' : trel d d' -> qs x x' -> trel (dset d c x) (dset d' c x').
  Proof.
    intros H Hx. induction H as [|[c0 v] [c0' v'] d d' [Hc Hv] Hd IH]; cbn [dset].
    - constructor; [split; [reflexivity|exact Hx]|constructor].
    - cbn [fst snd] in Hc, Hv. subst c0'. destruct (ceqb c c0).
      + constructor; [split; [reflexivity|exact Hx]|exact Hd].
      + constructor; [split; [reflexivity|exact Hv]|exact IH].
  Qed.

  Lemma tadd_rel t t' c x x' : trel t t' -> qs x x' -> trel (tadd t c x) (tadd t' c x').
  Proof.
    intros Ht Hx. unfold tadd. apply dset_rel; [exact Ht|].
    pose proof (dget_or_rel k t t' c Ht) as Hg. unfold qsc in *. rewrite Hg, Hx. ring.
  Qed.

  Lemma add_cand_rel el x x' t t' c : trel t t' -> qs x x' -> trel (add_cand el x t c) (add_cand el x' t' c).
  Proof. intros Ht Hx. unfold add_cand. destruct (elected_mem c el); [exact Ht|apply tadd_rel; assumption]. Qed.

  Lemma add_ballot_rel cf r el t t' bw bw' : trel t t' -> prel qs bw bw' ->
    trel (add_ballot cf r el t bw) (add_ballot cf r el t' bw').
  Proof.
    intros Ht [Hb Hw]. unfold add_ballot. rewrite <- Hb. destruct (nth_error (fst bw) r) as [it|]; [|exact Ht].
    assert (Hx : qs (snd bw * cf) (snd bw' * cf)) by (unfold qsc in *; rewrite Hw; ring).
    revert t t' Ht. induction (members it) as [|c cs IH]; intros t t' Ht; cbn [fold_left]; [exact Ht|].
    apply IH, add_cand_rel; assumption.
  Qed.

  Lemma add_round_rel coef v v' r el : brel v v' -> forall t t', trel t t' ->
    trel (add_round coef v r el t) (add_round coef v' r el t').
  Proof.
    intros H. unfold add_round. induction H as [|y y' l l' Hy Hl IH]; intros t t' Ht; cbn [fold_left]; [exact Ht|].
    apply IH, add_ballot_rel; assumption.
  Qed.

  Lemma filter_val_rel (f f' : Q -> bool) (l l' : list (C * Q)) : (forall a a', qs a a' -> f' a' = f a) -> trel l l' ->
    trel (filter (fun cv => f (snd cv)) l) (filter (fun cv => f' (snd cv)) l').
  Proof.
    intros Hf H. induction H as [|y y' l l' Hy Hl IH]; cbn [filter]; [constructor|].
    rewrite (Hf _ _ (proj2 Hy)). destruct (f (snd y)); [constructor; assumption|exact IH].
  Qed.

  Lemma majority_of_rel q q' t t' : qs q q' -> trel t t' -> trel (majority_of q t) (majority_of q' t').
  Proof.
    intros Hq Ht. unfold majority_of.
    apply (filter_val_rel (fun x => ltb Qle_bool q x) (fun x => ltb Qle_bool q' x)).
    - intros a a' Ha. unfold ltb. rewrite (qsc_le k Hk _ _ _ _ Ha Hq). reflexivity.
    - apply (sort_desc_rel Qle_bool Qle_bool qs (qsc_le k Hk)), Ht.
  Qed.

  Lemma drop_best_rel best t t' : trel t t' -> trel (drop_best best t) (drop_best best t').
  Proof. intros H. apply (lrel_filter_fst qs (fun c => negb (elected_mem c best))), H. Qed.

  Lemma pa_loop_rel coef v v' q q' n rounds : brel v v' -> qs q q' -> forall t t' el, trel t t' ->
    pa_loop coef v' q' n rounds t' el = pa_loop coef v q n rounds t el.
  Proof.
    intros Hv Hq. induction rounds as [|r rest IH]; intros t t' el Ht; cbn [pa_loop]; [reflexivity|].
    pose proof (add_round_rel coef v v' r el Hv t t' Ht) as H1.
    rewrite (get_n_best_rel Qle_bool Qle_bool qs (qsc_le k Hk) _ _ (n - length el) (majority_of_rel q q' _ _ Hq H1)).
    destruct (Nat.eqb _ n); [reflexivity|]. apply IH, drop_best_rel, H1.
  Qed.

  Lemma pa_core_rel coef v v' n : brel v v' -> pa_core coef v' n = pa_core coef v n.
  Proof.
    intros Hv. unfold pa_core. rewrite (max_pref_len_rel v v' Hv). apply pa_loop_rel; [exact Hv| |constructor].
    pose proof (wsum_rel v v' Hv) as Hs. unfold qsc in *. rewrite Hs. ring.
  Qed.

  Theorem pa_eval_rel fx coef split v v' n : brel v v' -> pa_eval fx coef split v' n = pa_eval fx coef split v n.
  Proof.
    intros Hv. unfold pa_eval. destruct n as [|n]; [reflexivity|].
    assert (H1 : brel (if split then decouple fx v else v) (if split then decouple fx v' else v'))
      by (destruct split; [apply decouple_rel, Hv|exact Hv]).
    rewrite (pa_core_rel coef _ _ (S n) H1). destruct H1; reflexivity.
  Qed.

  Theorem pa_evaluate_rel fx cs split v v' n : brel v v' -> pa_evaluate fx cs split v' n = pa_evaluate fx cs split v n.
  Proof.
    intros Hv. unfold pa_evaluate. destruct n as [|n]; [reflexivity|].
    assert (H1 : brel (if split then decouple fx v else v) (if split then decouple fx v' else v'))
      by (destruct split; [apply decouple_rel, Hv|exact Hv]).
    rewrite (max_pref_len_rel _ _ H1), (pa_eval_rel fx (coef_fun cs) split v v' (S n) Hv).
    destruct H1; reflexivity.
  Qed.

  Lemma brel_scale (votes : list (ranked * Q)) : brel votes (scale_w k votes).
  Proof.
    induction votes as [|y l IH]; cbn [scale_w map]; constructor; [|exact IH].
    split; [reflexivity|]. cbn [snd]. unfold qsc. reflexivity.
  Qed.

  Theorem pa_eval_scale fx coef split votes n : pa_eval fx coef split (scale_w k votes) n = pa_eval fx coef split votes n.
  Proof. apply pa_eval_rel, brel_scale. Qed.

  Theorem pa_evaluate_scale fx cs split votes n : pa_evaluate fx cs split (scale_w k votes) n = pa_evaluate fx cs split votes n.
  Proof. apply pa_evaluate_rel, brel_scale. Qed.
End PAScale.
