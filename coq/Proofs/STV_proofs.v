(* Conservation and non-negativity of the transferable-vote count (Model/STV.v). *)
From Coq Require Import ZArith QArith Qround Qreduction Setoid List Bool Arith Lia Lqa Permutation.
From VL Require Import Prelude.PyDict Model.GetNBest Model.Convert Model.STV Proofs.Dict_proofs.
From VL Require Proofs.GetNBest_proofs Proofs.Threshold_proofs.
Import ListNotations.
Open Scope Q_scope.

Definition wsum (p : pile) : Q := fold_right (fun bw acc => snd bw + acc) 0 p.
Definition asum (a : alloc) : Q := fold_right (fun kp acc => wsum (snd kp) + acc) 0 a.
Definition akeys (a : alloc) : list (option C) := map fst a.

Lemma okey_eqb_eq a b : okey_eqb a b = true <-> a = b.
Proof.
  destruct a as [x|], b as [y|]; simpl; try (split; [discriminate|intros H; discriminate]); try tauto.
  unfold ceqb. rewrite Pos.eqb_eq. split; [intros ->; reflexivity|intros [= ->]; reflexivity].
Qed.
Lemma okey_eqb_refl a : okey_eqb a a = true.
Proof. apply okey_eqb_eq. reflexivity. Qed.

Lemma fold_left_Qplus (l : list Q) : forall acc, fold_left Qplus l acc == acc + fold_right Qplus 0 l.
Proof. induction l as [|x l IH]; intros acc; simpl; [ring|]. rewrite IH. ring. Qed.

Lemma pile_sum_wsum p : pile_sum p == wsum p.
Proof.
  unfold pile_sum. eapply Qeq_trans; [apply Qred_correct|]. rewrite fold_left_Qplus.
  induction p as [|[b w] p IH]; simpl; [ring|]. simpl in IH. rewrite <- IH. ring.
Qed.

Lemma pile_add_sum p b w : wsum (pile_add p b w) == wsum p + w.
Proof.
  induction p as [|[b' w'] p IH]; simpl; [ring|].
  destruct (ballot_eqb b b'); simpl; [pose proof (Qred_correct (w' + w)) as Hr; rewrite Hr; ring|]. rewrite IH. ring.
Qed.

Lemma alloc_add_sum a k b w : asum (alloc_add a k b w) == asum a + w.
Proof.
  induction a as [|[k' p] a IH]; simpl; [ring|].
  destruct (okey_eqb k k'); simpl; [rewrite pile_add_sum; ring|]. rewrite IH. ring.
Qed.

Lemma alloc_add_keys a k b w : NoDup (akeys a) ->
  NoDup (akeys (alloc_add a k b w)) /\ (forall x, In x (akeys (alloc_add a k b w)) <-> x = k \/ In x (akeys a)).
Proof.
  unfold akeys. induction a as [|[k' p] a IH]; simpl; intros H.
  - split; [constructor; [intros []|constructor]|]. intros x. split; [intros [<-|[]]; auto|intros [->|[]]; auto].
  - inversion H as [|? ? Hk Hn]; subst. destruct (okey_eqb k k') eqn:E; simpl.
    + apply okey_eqb_eq in E. subst. split; [exact H|]. intros x. split; [intros [<-|Hx]; auto|intros [->|[<-|Hx]]; auto].
    + destruct (IH Hn) as [IH1 IH2]. split.
      * constructor; [|exact IH1]. intros Hin. apply IH2 in Hin. destruct Hin as [->|Hin]; [|exact (Hk Hin)].
        rewrite okey_eqb_refl in E. discriminate.
      * intros x. rewrite IH2. tauto.
Qed.

Lemma alloc_add_get_other a k b w k' : k' <> k -> alloc_get (alloc_add a k b w) k' = alloc_get a k'.
Proof.
  intros Hne. induction a as [|[k0 p] a IH]; simpl.
  - destruct (okey_eqb k' k) eqn:E; [apply okey_eqb_eq in E; congruence|reflexivity].
  - destruct (okey_eqb k k0) eqn:E; simpl.
    + apply okey_eqb_eq in E. subst k0.
      destruct (okey_eqb k' k) eqn:E2; [apply okey_eqb_eq in E2; congruence|reflexivity].
    + destruct (okey_eqb k' k0); [reflexivity|exact IH].
Qed.

(* targets come from the allowed list *)
Lemma next_after_allowed rest allowed : incl (next_after rest allowed) allowed.
Proof.
  induction rest as [|[c|l] t IH]; simpl; intros x Hx; [destruct Hx| |].
  - destruct (cmem c allowed) eqn:E; [|apply IH, Hx]. destruct Hx as [<-|[]].
    clear -E. induction allowed as [|y t IHt]; simpl in *; [discriminate|].
    apply orb_true_iff in E. destruct E as [E|E]; [left; apply Pos.eqb_eq in E; congruence|right; apply IHt, E].
  - destruct (filter (fun c => cmem c allowed) l) as [|y l'] eqn:E; [apply IH, Hx|].
    assert (Hin : In x (filter (fun c => cmem c allowed) l)) by (rewrite E; exact Hx).
    apply filter_In in Hin. destruct Hin as [_ Hm].
    clear -Hm. induction allowed as [|z t IHt]; simpl in *; [discriminate|].
    apply orb_true_iff in Hm. destruct Hm as [Hm|Hm]; [left; apply Pos.eqb_eq in Hm; congruence|right; apply IHt, Hm].
Qed.
Lemma ranked_next_allowed vote cand allowed : incl (ranked_next vote cand allowed) allowed.
Proof.
  induction vote as [|[c|l] t IH]; simpl; [intros x []| |].
  - destruct (ceqb cand c); [apply next_after_allowed|exact IH].
  - destruct (cmem cand l); [apply next_after_allowed|exact IH].
Qed.

(* ---- moving one ballot *)
Lemma share_total (w : Q) (n : nat) : (0 < n)%nat ->
  inject_Z (Z.of_nat n) * Qred (w / inject_Z (Z.of_nat n)) == w.
Proof.
  intros Hn. pose proof (Qred_correct (w / inject_Z (Z.of_nat n))) as Hr. rewrite Hr. field.
  intros H. assert (Hz : (0 < Z.of_nat n)%Z) by lia. rewrite (Zlt_Qlt 0) in Hz. change (inject_Z 0) with 0 in Hz. rewrite H in Hz. apply (Qlt_irrefl 0 Hz).
Qed.

Lemma fold_add_targets targets b share : forall a,
  asum (fold_left (fun a t => alloc_add a (Some t) b share) targets a)
  == asum a + inject_Z (Z.of_nat (length targets)) * share.
Proof.
  induction targets as [|t ts IH]; intros a; simpl length; [simpl; ring|].
  simpl fold_left. rewrite IH, alloc_add_sum. rewrite Nat2Z.inj_succ, <- Z.add_1_r, inject_Z_plus. simpl. ring.
Qed.

Lemma move_ballot_sum a targets b w : asum (move_ballot a targets b w) == asum a + w.
Proof.
  unfold move_ballot. destruct targets as [|t ts]; [apply alloc_add_sum|].
  rewrite fold_add_targets. rewrite share_total; [ring|simpl; lia].
Qed.

Lemma move_ballot_keep a targets b w c : ~ In c targets -> NoDup (akeys a) ->
  alloc_get (move_ballot a targets b w) (Some c) = alloc_get a (Some c) /\ NoDup (akeys (move_ballot a targets b w)).
Proof.
  intros Hc Hnd. unfold move_ballot. destruct targets as [|t ts].
  - split; [apply alloc_add_get_other; discriminate|apply alloc_add_keys, Hnd].
  - set (share := Qred (w / inject_Z (Z.of_nat (length (t :: ts))))). clearbody share.
    revert a Hnd. induction (t :: ts) as [|x xs IH]; intros a Hnd; simpl; [split; [reflexivity|exact Hnd]|].
    destruct (IH (fun H => Hc (or_intror H)) (alloc_add a (Some x) b share) (proj1 (alloc_add_keys a (Some x) b share Hnd))) as [H1 H2].
    split; [|exact H2]. rewrite H1. apply alloc_add_get_other. intros [= ->]. apply Hc. left. reflexivity.
Qed.

(* ---- deleting a key *)
Lemma alloc_del_sum a k p : NoDup (akeys a) -> alloc_get a k = Some p ->
  asum (alloc_del a k) == asum a - wsum p /\ NoDup (akeys (alloc_del a k)).
Proof.
  unfold akeys, alloc_del. induction a as [|[k' q] a IH]; simpl; intros Hnd Hg; [discriminate|].
  inversion Hnd as [|? ? Hk Hn]; subst.
  destruct (okey_eqb k k') eqn:E; simpl.
  - apply okey_eqb_eq in E. subst k'. injection Hg as ->.
    assert (Hsame : filter (fun kp : option C * pile => negb (okey_eqb k (fst kp))) a = a).
    { clear -Hk. induction a as [|[k0 q0] a IHa]; simpl; [reflexivity|].
      destruct (okey_eqb k k0) eqn:E; simpl.
      - apply okey_eqb_eq in E. subst. exfalso. apply Hk. left. reflexivity.
      - f_equal. apply IHa. intros H. apply Hk. right. exact H. }
    rewrite Hsame. split; [ring|exact Hn].
  - destruct (IH Hn Hg) as [H1 H2]. split; [rewrite H1; ring|].
    constructor; [|exact H2]. intros Hin. apply Hk. apply in_map_iff in Hin. destruct Hin as (x & Hx & Hin).
    apply filter_In in Hin. apply in_map_iff. exists x. tauto.
Qed.

Lemma alloc_del_none a k : alloc_get a k = None -> alloc_del a k = a.
Proof.
  unfold alloc_del. induction a as [|[k' q] a IH]; simpl; [reflexivity|].
  destruct (okey_eqb k k'); [discriminate|]. intros H. simpl. f_equal. apply IH, H.
Qed.

(* ---- transfer conserves the total weight *)
Lemma transfer_one a c continuing : NoDup (akeys a) -> ~ In c continuing ->
  let p := match alloc_get a (Some c) with Some p => p | None => [] end in
  let a' := alloc_del (fold_left (fun a bw => move_ballot a (ranked_next (fst bw) c continuing) (fst bw) (snd bw)) p a) (Some c) in
  asum a' == asum a /\ NoDup (akeys a').
Proof.
  intros Hnd Hc p a'. subst a'.
  assert (Hfold : forall q a0, NoDup (akeys a0) ->
            let r := fold_left (fun a bw => move_ballot a (ranked_next (fst bw) c continuing) (fst bw) (snd bw)) q a0 in
            asum r == asum a0 + wsum q /\ alloc_get r (Some c) = alloc_get a0 (Some c) /\ NoDup (akeys r)).
  { induction q as [|[b w] q IH]; intros a0 Hn; simpl; [split; [ring|split; [reflexivity|exact Hn]]|].
    assert (Hnc : ~ In c (ranked_next b c continuing)) by (intros H; apply Hc, (ranked_next_allowed b c continuing), H).
    destruct (move_ballot_keep a0 (ranked_next b c continuing) b w c Hnc Hn) as [Hk Hn2].
    destruct (IH _ Hn2) as (H1 & H2 & H3). split; [rewrite H1, move_ballot_sum; ring|].
    split; [rewrite H2; exact Hk|exact H3]. }
  destruct (Hfold p a Hnd) as (H1 & H2 & H3).
  subst p. destruct (alloc_get a (Some c)) as [p|] eqn:Eg.
  - destruct (alloc_del_sum _ (Some c) p H3 H2) as [H4 H5]. split; [rewrite H4, H1; ring|exact H5].
  - simpl in *. rewrite (alloc_del_none _ _ H2). split; [rewrite H1; simpl; ring|exact H3].
Qed.

Theorem transfer_conserves a elim : NoDup (akeys a) ->
  asum (transfer a elim) == asum a /\ NoDup (akeys (transfer a elim)).
Proof.
  intros Hnd. unfold transfer.
  set (continuing := filter (fun c => negb (cmem c elim)) (keys_some a)).
  assert (Hcont : forall c, In c (filter (fun c => cmem c elim) (keys_some a)) -> ~ In c continuing).
  { intros c Hc Hin. apply filter_In in Hc. apply filter_In in Hin. destruct Hc as [_ H1], Hin as [_ H2].
    rewrite H1 in H2. discriminate. }
  revert Hcont. generalize (filter (fun c => cmem c elim) (keys_some a)). intros rem Hcont.
  assert (Hgen : forall a0, NoDup (akeys a0) ->
     asum (fold_left (fun a c =>
       let p := match alloc_get a (Some c) with Some p => p | None => [] end in
       alloc_del (fold_left (fun a bw => move_ballot a (ranked_next (fst bw) c continuing) (fst bw) (snd bw)) p a) (Some c)) rem a0)
     == asum a0 /\
     NoDup (akeys (fold_left (fun a c =>
       let p := match alloc_get a (Some c) with Some p => p | None => [] end in
       alloc_del (fold_left (fun a bw => move_ballot a (ranked_next (fst bw) c continuing) (fst bw) (snd bw)) p a) (Some c)) rem a0))).
  { induction rem as [|c rem IH]; intros a0 Hn; simpl; [split; [reflexivity|exact Hn]|].
    destruct (transfer_one a0 c continuing Hn (Hcont c (or_introl eq_refl))) as [H1 H2].
    destruct (IH (fun x Hx => Hcont x (or_intror Hx)) _ H2) as [H3 H4].
    split; [rewrite H3; exact H1|exact H4]. }
  apply Hgen. exact Hnd.
Qed.

(* ---- subtraction of quotas *)
Lemma wsum_map_scale (p : pile) (f : Q) :
  wsum (map (fun bw : ballot * Q => (fst bw, Qred (snd bw * f))) p) == wsum p * f.
Proof.
  induction p as [|[b w] p IH]; simpl; [ring|].
  pose proof (Qred_correct (w * f)) as Hr. rewrite Hr, IH. ring.
Qed.

Lemma gregory_subtract_sum p amount p' : 0 <= amount -> amount <= wsum p ->
  gregory_subtract p amount = Some p' -> wsum p' == wsum p - amount.
Proof.
  intros H0 Hle. unfold gregory_subtract. pose proof (pile_sum_wsum p) as Hs.
  destruct (Qeq_bool (pile_sum p) 0) eqn:E0; [discriminate|].
  destruct (Qle_bool (pile_sum p) amount) eqn:E1.
  - intros [= <-]. apply Qle_bool_iff in E1. simpl. rewrite Hs in E1. lra.
  - intros Hp. assert (Hp' : p' = map (fun bw : ballot * Q => (fst bw, Qred (snd bw * ((pile_sum p - amount) / pile_sum p)))) p) by congruence.
    rewrite Hp'. clear Hp Hp'.
    assert (Hne : ~ pile_sum p == 0) by (intros H; apply Qeq_bool_iff in H; congruence).
    set (f := (pile_sum p - amount) / pile_sum p).
    eapply Qeq_trans; [apply wsum_map_scale|]. unfold f. rewrite <- Hs. field. exact Hne.
Qed.

Lemma replace_pile_sum a c p p' : NoDup (akeys a) -> alloc_get a (Some c) = Some p ->
  asum (map (fun kp : option C * pile => if okey_eqb (Some c) (fst kp) then (fst kp, p') else kp) a)
  == asum a - wsum p + wsum p' /\
  akeys (map (fun kp : option C * pile => if okey_eqb (Some c) (fst kp) then (fst kp, p') else kp) a) = akeys a.
Proof.
  unfold akeys. induction a as [|[k q] a IH]; cbn -[okey_eqb]; intros Hnd Hg; [discriminate|].
  inversion Hnd as [|? ? Hk Hn]; subst.
  revert Hg. destruct (okey_eqb (Some c) k) eqn:E; cbn -[okey_eqb]; intros Hg.
  - apply okey_eqb_eq in E. subst k. injection Hg as ->.
    assert (Hsame : map (fun kp : option C * pile => if okey_eqb (Some c) (fst kp) then (fst kp, p') else kp) a = a).
    { clear -Hk. induction a as [|[k0 q0] a IHa]; cbn -[okey_eqb]; [reflexivity|].
      destruct (okey_eqb (Some c) k0) eqn:E; cbn -[okey_eqb].
      - apply okey_eqb_eq in E. subst. exfalso. apply Hk. left. reflexivity.
      - f_equal. apply IHa. intros H. apply Hk. right. exact H. }
    rewrite Hsame. split; [unfold wsum; ring|reflexivity].
  - destruct (IH Hn Hg) as [H1 H2]. split; [fold (asum (map (fun kp : option C * pile => if okey_eqb (Some c) (fst kp) then (fst kp, p') else kp) a)); rewrite H1; unfold asum, wsum; ring|]. f_equal. exact H2.
Qed.

Theorem subtract_conserves elected : forall a a', NoDup (akeys a) ->
  (forall c amt, In (c, amt) elected -> 0 <= amt) ->
  NoDup (map fst elected) ->
  (forall c amt p, In (c, amt) elected -> alloc_get a (Some c) = Some p -> amt <= wsum p) ->
  subtract a elected = Some a' ->
  asum a' == asum a - fold_right (fun ca acc => snd ca + acc) 0 elected /\ akeys a' = akeys a.
Proof.
  induction elected as [|[c amt] t IH]; intros a a' Hnd Hnn Hd Hle; simpl.
  - intros [= <-]. split; [ring|reflexivity].
  - destruct (alloc_get a (Some c)) as [p|] eqn:Eg; [|discriminate].
    destruct (gregory_subtract p amt) as [p'|] eqn:Es; [|discriminate]. intros Hsub.
    destruct (replace_pile_sum a c p p' Hnd Eg) as [H1 H2].
    set (a1 := map (fun kp : option C * pile => if okey_eqb (Some c) (fst kp) then (fst kp, p') else kp) a) in *.
    inversion Hd as [|? ? Hc Hd']; subst.
    assert (Hget : forall c0, c0 <> c -> alloc_get a1 (Some c0) = alloc_get a (Some c0)).
    { intros c0 Hne. unfold a1. clear -Hne. induction a as [|[k q] a IHa]; cbn -[okey_eqb]; [reflexivity|].
      destruct (okey_eqb (Some c) k) eqn:E; cbn -[okey_eqb].
      - apply okey_eqb_eq in E. subst k.
        assert (okey_eqb (Some c0) (Some c) = false) as -> by (apply not_true_iff_false; rewrite okey_eqb_eq; congruence).
        exact IHa.
      - destruct (okey_eqb (Some c0) k); [reflexivity|exact IHa]. }
    destruct (IH a1 a') as [H3 H4].
    + unfold akeys in *. rewrite H2. exact Hnd.
    + intros c0 amt0 Hin. apply (Hnn c0). right. exact Hin.
    + exact Hd'.
    + intros c0 amt0 p0 Hin Hg0. apply (Hle c0 amt0 p0); [right; exact Hin|].
      rewrite <- Hget; [exact Hg0|]. intros ->. apply Hc. apply in_map_iff. exists (c, amt0). split; [reflexivity|exact Hin].
    + exact Hsub.
    + split; [|rewrite H4; exact H2]. rewrite H3, H1.
      rewrite (gregory_subtract_sum p amt p' (Hnn c amt (or_introl eq_refl)) (Hle c amt p (or_introl eq_refl) Eg) Es).
      simpl. ring.
Qed.

(* ================================================================ one count conserves the votes *)
Definition seats_sum (el : list (C * Z)) : Z := fold_right (fun cs acc => (snd cs + acc)%Z) 0%Z el.

Lemma zsum_fold (l : list Z) : zsum l = fold_right Z.add 0%Z l.
Proof.
  unfold zsum. assert (H : forall acc, fold_left Z.add l acc = (acc + fold_right Z.add 0 l)%Z).
  { induction l as [|x l IH]; intros acc; simpl; [lia|]. rewrite IH. lia. }
  rewrite H. lia.
Qed.

Lemma totals_get a c t : NoDup (akeys a) -> In (Some c, t) (totals a) ->
  exists p, alloc_get a (Some c) = Some p /\ t = pile_sum p.
Proof.
  unfold akeys, totals. induction a as [|[k q] a IH]; simpl; intros Hnd Hin; [destruct Hin|].
  inversion Hnd as [|? ? Hk Hn]; subst. destruct Hin as [Hin|Hin].
  - injection Hin as -> <-. exists q. rewrite Pos.eqb_refl. split; reflexivity.
  - destruct (okey_eqb (Some c) k) eqn:E.
    + apply okey_eqb_eq in E. subst k. exfalso. apply Hk. apply in_map_iff in Hin. destruct Hin as ([k0 q0] & Heq & Hin).
      simpl in Heq. injection Heq as -> _. apply in_map_iff. exists (Some c, q0). split; [reflexivity|exact Hin].
    + destruct k as [y|]; simpl in E; [rewrite E|]; apply IH; assumption.
Qed.

Lemma totals_keys a : map fst (totals a) = akeys a.
Proof. unfold totals, akeys. rewrite map_map. reflexivity. Qed.

Section COUNT.
  Variable cf : cfg.
  Variable q : Q.
  Hypothesis Hq : 0 < q.

  (* what _elect_by_quota hands back: distinct candidates, each holding at least its seats' worth of quotas *)
  Lemma elect_by_quota_sound a n_rem prev caps el : NoDup (akeys a) -> (forall c, (0 <= dget_or prev c 0)%Z) ->
    elect_by_quota cf (totals a) (Some q) n_rem prev caps = inl (Some el) ->
    NoDup (map fst el) /\
    forall c s, In (c, s) el -> (0 < s)%Z /\ exists p, alloc_get a (Some c) = Some p /\ inject_Z s * q <= wsum p.
  Proof.
    intros Hnd Hprev. unfold elect_by_quota.
    set (items := sort_desc Qle_bool (map (fun kt : option C * Q => (fst kt, snd kt)) (totals a))).
    assert (Hitems : Permutation items (totals a)).
    { unfold items. rewrite map_ext with (g := fun x => x) by (intros [x y]; reflexivity). rewrite map_id.
      apply GetNBest_proofs.sort_desc_perm. }
    set (sel := flat_map _ items).
    (* every selected triple is sound *)
    assert (Hsel : forall c act ov, In (c, act, ov) sel ->
              (0 < act)%Z /\ exists t, In (Some c, t) (totals a) /\ (act <= qfloor_div t q)%Z).
    { intros c act ov Hin. unfold sel in Hin. apply in_flat_map in Hin. destruct Hin as ([k t] & Hk & Hin).
      simpl in Hin. destruct k as [c0|]; [|destruct Hin].
      destruct (c_accept_equal cf || negb (Qeq_bool _ 0)); [|destruct Hin].
      set (mult := qfloor_div t q) in *.
      set (capped := match dget caps c0 with Some m => Z.min mult m | None => mult end) in *.
      destruct (0 <? capped - dget_or prev c0 0)%Z eqn:E; [|destruct Hin].
      destruct Hin as [Hin|[]]. injection Hin as <- <- _.
      apply Z.ltb_lt in E. split; [exact E|]. exists t. split; [eapply Permutation_in; [exact Hitems|exact Hk]|].
      assert (capped <= mult)%Z by (unfold capped; destruct (dget caps c0); lia).
      pose proof (Hprev c0). lia. }
    assert (Hkeys : NoDup (map (fun x : C * Z * Q => fst (fst x)) sel)).
    { assert (Hn : NoDup (map fst items)).
      { eapply Permutation_NoDup; [apply Permutation_map, Permutation_sym, Hitems|].
        rewrite totals_keys. exact Hnd. }
      unfold sel. clear -Hn. induction items as [|[k t] items IH]; simpl; [constructor|].
      inversion Hn as [|? ? Hk Hn']; subst. specialize (IH Hn'). rewrite map_app.
      assert (Hsub : forall c, In c (map (fun x : C * Z * Q => fst (fst x)) (flat_map
                (fun kt : option C * Q => match fst kt with
                   | None => []
                   | Some c =>
                       let mult := qfloor_div (snd kt) q in
                       let over := Qred (snd kt - inject_Z mult * q) in
                       if c_accept_equal cf || negb (Qeq_bool over 0) then
                         let capped := match dget caps c with Some m => Z.min mult m | None => mult end in
                         let actual := (capped - dget_or prev c 0)%Z in
                         if (0 <? actual)%Z then [(c, actual, over)] else []
                       else [] end) items)) -> In (Some c) (map fst items)).
      { intros c Hc. apply in_map_iff in Hc. destruct Hc as (x & <- & Hx). apply in_flat_map in Hx.
        destruct Hx as ([k0 t0] & Hk0 & Hx). simpl in Hx. destruct k0 as [c0|]; [|destruct Hx].
        destruct (_ || _); [|destruct Hx]. destruct (0 <? _)%Z; [|destruct Hx]. destruct Hx as [<-|[]]. simpl.
        apply in_map_iff. exists (Some c0, t0). split; [reflexivity|exact Hk0]. }
      destruct k as [c|]; simpl; [|exact IH].
      destruct (_ || _); simpl; [|exact IH]. destruct (0 <? _)%Z; simpl; [|exact IH].
      constructor; [|exact IH]. intros Hin. apply Hk. apply Hsub. exact Hin. }
    destruct sel as [|s0 sel'] eqn:Esel; [discriminate|]. rewrite <- Esel in *. clear Esel s0 sel'.
    set (awarded := map (fun x : C * Z * Q => (fst (fst x), snd (fst x))) sel).
    assert (Haw : forall c s, In (c, s) awarded -> exists ov, In (c, s, ov) sel).
    { intros c s Hin. unfold awarded in Hin. apply in_map_iff in Hin. destruct Hin as ([[c0 s0] ov] & Heq & Hin).
      simpl in Heq. injection Heq as -> ->. exists ov. exact Hin. }
    assert (Hawk : map fst awarded = map (fun x : C * Z * Q => fst (fst x)) sel).
    { unfold awarded. rewrite map_map. reflexivity. }
    assert (Hfinal : forall c s, (exists s0, In (c, s0) awarded /\ (0 < s <= s0)%Z) ->
              (0 < s)%Z /\ exists p, alloc_get a (Some c) = Some p /\ inject_Z s * q <= wsum p).
    { intros c s (s0 & Hin & Hs). split; [lia|]. destruct (Haw c s0 Hin) as (ov & Hsel0).
      destruct (Hsel c s0 ov Hsel0) as (_ & t & Ht & Hle).
      destruct (totals_get a c t Hnd Ht) as (p & Hg & ->). exists p. split; [exact Hg|].
      rewrite <- pile_sum_wsum. unfold qfloor_div in Hle.
      assert (Hfl : inject_Z (Qfloor (pile_sum p / q)) <= pile_sum p / q) by apply Qfloor_le.
      assert (Hss : inject_Z s <= inject_Z (Qfloor (pile_sum p / q))) by (rewrite <- Zle_Qle; lia).
      assert (Hmul : inject_Z s * q <= (pile_sum p / q) * q).
      { apply Qmult_le_compat_r; [lra|lra]. }
      assert (Hdiv : pile_sum p / q * q == pile_sum p) by (field; lra).
      lra. }
    destruct (n_rem <? zsum (map snd awarded))%Z.
    - destruct (existsb _ _); [discriminate|]. intros [= <-]. split.
      + (* corrected list: a sub-selection of awarded keys *)
        assert (Hsubk : forall (l : list (C * Z)) keptc, NoDup (map fst l) ->
                 NoDup (map fst (flat_map (fun cs : C * Z => if cmem (fst cs) keptc then [cs]
                          else if (1 <? snd cs)%Z then [(fst cs, (snd cs - 1)%Z)] else []) l))).
        { induction l as [|[c s] l IHl]; intros keptc Hn; simpl; [constructor|].
          inversion Hn as [|? ? Hc Hn']; subst. specialize (IHl keptc Hn'). rewrite map_app.
          assert (Hin' : forall x, In x (map fst (flat_map (fun cs : C * Z => if cmem (fst cs) keptc then [cs]
                          else if (1 <? snd cs)%Z then [(fst cs, (snd cs - 1)%Z)] else []) l)) -> In x (map fst l)).
          { intros x Hx. apply in_map_iff in Hx. destruct Hx as (y & <- & Hy). apply in_flat_map in Hy.
            destruct Hy as ([c1 s1] & H1 & Hy). simpl in Hy. apply in_map_iff. exists (c1, s1). split; [|exact H1].
            destruct (cmem c1 keptc); [destruct Hy as [<-|[]]; reflexivity|].
            destruct (1 <? s1)%Z; [destruct Hy as [<-|[]]; reflexivity|destruct Hy]. }
          destruct (cmem c keptc); simpl; [constructor; [intros H; apply Hc, Hin', H|exact IHl]|].
          destruct (1 <? s)%Z; simpl; [constructor; [intros H; apply Hc, Hin', H|exact IHl]|exact IHl]. }
        apply Hsubk. rewrite Hawk. exact Hkeys.
      + intros c s Hin. apply in_flat_map in Hin. destruct Hin as ([c0 s0] & Hin0 & Hin). simpl in Hin.
        apply Hfinal.
        destruct (cmem c0 _).
        * destruct Hin as [Heq|[]]. injection Heq as <- <-. exists s0. split; [exact Hin0|].
          destruct (Haw c0 s0 Hin0) as (ov & Hs0). destruct (Hsel c0 s0 ov Hs0) as [Hp _]. lia.
        * destruct (1 <? s0)%Z eqn:E1; [|destruct Hin]. destruct Hin as [Heq|[]]. injection Heq as <- <-.
          apply Z.ltb_lt in E1. exists s0. split; [exact Hin0|lia].
    - intros [= <-]. split; [rewrite Hawk; exact Hkeys|].
      intros c s Hin. apply Hfinal. exists s. split; [exact Hin|].
      destruct (Haw c s Hin) as (ov & Hs0). destruct (Hsel c s ov Hs0) as [Hp _]. lia.
  Qed.
End COUNT.

Definition quota_of (cf : cfg) (total_votes : Q) (n_seats : Z) : option Q :=
  match c_quota cf with
  | Some qf => if Qeq_bool total_votes 0 || (n_seats =? 0)%Z then None else Some (qf total_votes n_seats)
  | None => None
  end.

Lemma amounts_sum (el : list (C * Z)) (q : Q) :
  fold_right (fun ca acc => snd ca + acc) 0 (map (fun cs : C * Z => (fst cs, inject_Z (snd cs) * q)) el)
  == inject_Z (seats_sum el) * q.
Proof.
  induction el as [|[c s] el IH]; simpl; [ring|]. rewrite IH, inject_Z_plus. ring.
Qed.

(* I1, one step: the votes held after a count, plus one quota per seat filled by quota in that
   count, equal the votes held before *)
Theorem next_count_conserves cf a n_seats total prev caps a' el :
  NoDup (akeys a) -> (forall c, (0 <= dget_or prev c 0)%Z) ->
  (forall qv, quota_of cf total n_seats = Some qv -> 0 < qv) ->
  next_count cf a n_seats total prev caps = CR_next a' el ->
  NoDup (akeys a') /\ (forall c s, In (c, s) el -> (0 < s)%Z) /\
  match quota_of cf total n_seats with
  | Some qv => asum a' + inject_Z (seats_sum el) * qv == asum a
  | None => asum a' == asum a /\ el = []
  end.
Proof.
  intros Hnd Hprev Hqpos. unfold next_count. fold (quota_of cf total n_seats).
  destruct (negb _ && _ && _); [discriminate|].
  destruct (quota_of cf total n_seats) as [qv|] eqn:Eq.
  - pose proof (Hqpos qv eq_refl) as Hq.
    destruct (elect_by_quota cf (totals a) (Some qv) _ prev caps) as [[el0|]|s] eqn:Ee; [| |discriminate].
    + destruct (elect_by_quota_sound cf qv Hq a _ prev caps el0 Hnd Hprev Ee) as [Hk Hs].
      destruct (subtract a (map (fun cs : C * Z => (fst cs, inject_Z (snd cs) * qv)) el0)) as [a1|] eqn:Es; [|discriminate].
      destruct (subtract_conserves (map (fun cs : C * Z => (fst cs, inject_Z (snd cs) * qv)) el0) a a1 Hnd) as [H1 H2]; [| | |exact Es|].
      * intros c amt Hin. apply in_map_iff in Hin. destruct Hin as ([c0 s0] & Heq & Hin). injection Heq as <- <-.
        destruct (Hs c0 s0 Hin) as [Hp _]. simpl. apply Qmult_le_0_compat; [|lra].
        rewrite <- (Zle_Qle 0). lia.
      * rewrite map_map. simpl. exact Hk.
      * intros c amt p Hin Hg. apply in_map_iff in Hin. destruct Hin as ([c0 s0] & Heq & Hin). injection Heq as <- <-.
        destruct (Hs c0 s0 Hin) as (_ & p0 & Hg0 & Hle). simpl in *. rewrite Hg in Hg0. injection Hg0 as <-. exact Hle.
      * assert (Hn1 : NoDup (akeys a1)) by (rewrite H2; exact Hnd).
        rewrite amounts_sum in H1.
        destruct (flat_map _ el0) as [|e es] eqn:Eel.
        -- intros [= <- <-]. split; [exact Hn1|]. split; [intros c s Hin; apply (Hs c s Hin)|]. rewrite H1. ring.
        -- intros [= <- <-]. destruct (transfer_conserves a1 (e :: es) Hn1) as [H3 H4].
           split; [exact H4|]. split; [intros c s Hin; apply (Hs c s Hin)|]. rewrite H3, H1. ring.
    + set (in_play := some_totals (totals a)).
      destruct (existsb _ _); [discriminate|].
      destruct (filter _ (map fst in_play)) as [|e es] eqn:Eel.
      * intros [= <- <-]. split; [exact Hnd|]. split; [intros c s []|]. simpl. ring.
      * intros [= <- <-]. destruct (transfer_conserves a (e :: es) Hnd) as [H3 H4].
        split; [exact H4|]. split; [intros c s []|]. rewrite H3. simpl. ring.
  - simpl. set (in_play := some_totals (totals a)).
    destruct (existsb _ _); [discriminate|].
    destruct (filter _ (map fst in_play)) as [|e es] eqn:Eel.
    + intros [= <- <-]. split; [exact Hnd|]. split; [intros c s []|]. split; reflexivity.
    + intros [= <- <-]. destruct (transfer_conserves a (e :: es) Hnd) as [H3 H4].
      split; [exact H4|]. split; [intros c s []|]. split; [exact H3|reflexivity].
Qed.

(* ---- the initial allocation holds exactly the non-empty ballots *)
Definition cast (votes : list (ballot * Q)) : Q :=
  fold_right (fun bw acc => (match fst bw with [] => 0 | _ => snd bw end) + acc) 0 votes.

Theorem initial_allocation_conserves votes :
  NoDup (akeys (initial_allocation votes)) /\ asum (initial_allocation votes) == cast votes.
Proof.
  unfold initial_allocation. set (cands := all_ranked_candidates votes).
  assert (Hcnd : NoDup cands).
  { unfold cands, all_ranked_candidates.
    assert (H1 : forall (l : list C) acc, NoDup acc -> NoDup (fold_left (fun acc c => if cmem c acc then acc else acc ++ [c]) l acc)).
    { induction l as [|c l IH]; intros acc Ha; simpl; [exact Ha|]. apply IH. destruct (cmem c acc) eqn:E; [exact Ha|].
      apply Threshold_proofs.nodup_app_intro; [exact Ha|constructor; [intros []|constructor]|].
      intros x Hx [<-|[]]. apply Threshold_proofs.cmem_In in Hx. congruence. }
    assert (H2 : forall i (vs : list (ballot * Q)) acc, NoDup acc ->
              NoDup (fold_left (fun acc bw => match nth_error (fst bw) i with
                       | Some it => fold_left (fun acc c => if cmem c acc then acc else acc ++ [c]) (members it) acc
                       | None => acc end) vs acc)).
    { intros i. induction vs as [|bw vs IH]; intros acc Ha; simpl; [exact Ha|]. apply IH.
      match goal with |- context [nth_error ?l i] => destruct (nth_error l i) as [it|] end; [exact (H1 (members it) acc Ha)|exact Ha]. }
    generalize (seq 0 (fold_left (fun m bw => Nat.max m (length (fst bw))) votes 0%nat)). intros is.
    assert (H3 : forall acc, NoDup acc -> NoDup (fold_left (fun acc i =>
              fold_left (fun acc bw => match nth_error (fst bw) i with
                       | Some it => fold_left (fun acc c => if cmem c acc then acc else acc ++ [c]) (members it) acc
                       | None => acc end) votes acc) is acc)).
    { induction is as [|i is IH]; intros acc Ha; simpl; [exact Ha|]. apply IH, H2, Ha. }
    apply H3. constructor. }
  set (base := map (fun c => (Some c, @nil (ballot * Q))) cands).
  assert (Hb : NoDup (akeys base) /\ asum base == 0).
  { unfold base, akeys. rewrite map_map. simpl. split.
    - clear -Hcnd. induction Hcnd as [|x l Hx _ IH]; simpl; constructor; [|exact IH].
      intros H. apply in_map_iff in H. destruct H as (y & [= ->] & Hy). exact (Hx Hy).
    - clear. induction cands as [|c l IH]; simpl; [reflexivity|]. rewrite IH. ring. }
  (* both folds add the weight of the ballots they handle *)
  assert (Hd : forall (vs : list (ballot * Q)) a0, NoDup (akeys a0) ->
     let r := fold_left (fun a bw => match fst bw with IP c :: _ => alloc_add a (Some c) (fst bw) (snd bw) | _ => a end) vs a0 in
     NoDup (akeys r) /\
     asum r == asum a0 + fold_right (fun bw acc => (match fst bw with IP _ :: _ => snd bw | _ => 0 end) + acc) 0 vs).
  { induction vs as [|[b w] vs IH]; intros a0 Ha; simpl; [split; [exact Ha|ring]|].
    destruct b as [|[c|l] t]; simpl.
    - destruct (IH a0 Ha) as [H1 H2]. split; [exact H1|rewrite H2; ring].
    - destruct (IH _ (proj1 (alloc_add_keys a0 (Some c) (IP c :: t) w Ha))) as [H1 H2].
      split; [exact H1|]. rewrite H2, alloc_add_sum. ring.
    - destruct (IH a0 Ha) as [H1 H2]. split; [exact H1|rewrite H2; ring]. }
  assert (Hmk : forall a0 targets b w, NoDup (akeys a0) -> NoDup (akeys (move_ballot a0 targets b w))).
  { intros a0 targets b w Ha. unfold move_ballot. destruct targets as [|t ts]; [apply alloc_add_keys, Ha|].
    generalize (Qred (w / inject_Z (Z.of_nat (length (t :: ts))))). intros sh.
    revert a0 Ha. induction (t :: ts) as [|x xs IHx]; intros a0 Ha; simpl; [exact Ha|].
    apply IHx. apply alloc_add_keys, Ha. }
  assert (Hs : forall (vs : list (ballot * Q)) a0, NoDup (akeys a0) ->
     let r := fold_left (fun a bw => match fst bw with IS _ :: _ => move_ballot a (next_after (fst bw) cands) (fst bw) (snd bw) | _ => a end) vs a0 in
     NoDup (akeys r) /\
     asum r == asum a0 + fold_right (fun bw acc => (match fst bw with IS _ :: _ => snd bw | _ => 0 end) + acc) 0 vs).
  { induction vs as [|[b w] vs IH]; intros a0 Ha; simpl; [split; [exact Ha|ring]|].
    destruct b as [|[c|l] t]; simpl.
    - destruct (IH a0 Ha) as [H1 H2]. split; [exact H1|rewrite H2; ring].
    - destruct (IH a0 Ha) as [H1 H2]. split; [exact H1|rewrite H2; ring].
    - destruct (IH _ (Hmk a0 (next_after (IS l :: t) cands) (IS l :: t) w Ha)) as [H1 H2].
      split; [exact H1|]. rewrite H2, move_ballot_sum. ring. }
  destruct Hb as [Hb1 Hb2].
  destruct (Hd votes base Hb1) as [D1 D2]. destruct (Hs votes _ D1) as [S1 S2].
  split; [exact S1|]. rewrite S2, D2, Hb2. unfold cast.
  clear. induction votes as [|[b w] vs IH]; simpl; [ring|].
  destruct b as [|[c|l] t]; simpl in *; lra.
Qed.


(* ================================================================ every count of every run *)
Lemma add_seats_nonneg seats el : (forall c, (0 <= dget_or seats c 0)%Z) ->
  (forall c s, In (c, s) el -> (0 < s)%Z) -> forall c, (0 <= dget_or (add_seats seats el) c 0)%Z.
Proof.
  unfold add_seats. revert seats. induction el as [|[c0 s0] el IH]; intros seats Hs Hel c; simpl; [apply Hs|].
  apply IH; [|intros c1 s1 H; apply (Hel c1 s1); right; exact H].
  intros c1. rewrite dget_or_dset. destruct (ceqb c1 c0).
  - pose proof (Hs c0). pose proof (Hel c0 s0 (or_introl eq_refl)). lia.
  - apply Hs.
Qed.

Section RUN.
  Variable cf : cfg.
  Variable votes : list (ballot * Q).
  Variable n_seats : Z.
  Variable caps : list (C * Z).
  Variable prev0 : list (C * Z).
  Hypothesis Hprev0 : forall c, (0 <= dget_or prev0 c 0)%Z.
  Let total := Qred (fold_left Qplus (map snd votes) 0).
  Hypothesis Hqpos : forall qv, quota_of cf total n_seats = Some qv -> 0 < qv.

  (* the states the count loop of nth_count passes through: allocation, seats so far,
     and the number of seats filled by quota so far *)
  Inductive reach : alloc -> list (C * Z) -> Z -> Prop :=
  | reach_init : reach (initial_allocation votes) prev0 0
  | reach_step a seats qs a' el :
      reach a seats qs -> next_count cf a n_seats total seats caps = CR_next a' el ->
      reach a' (add_seats seats el) (qs + seats_sum el).

  Theorem reach_conservation a seats qs : reach a seats qs ->
    NoDup (akeys a) /\ (forall c, (0 <= dget_or seats c 0)%Z) /\
    match quota_of cf total n_seats with
    | Some qv => asum a + inject_Z qs * qv == cast votes
    | None => asum a == cast votes /\ qs = 0%Z
    end.
  Proof.
    induction 1 as [|a seats qs a' el Hr IH Hn].
    - destruct (initial_allocation_conserves votes) as [H1 H2]. split; [exact H1|]. split; [exact Hprev0|].
      destruct (quota_of cf total n_seats); [rewrite H2; simpl; ring|split; [exact H2|reflexivity]].
    - destruct IH as (I1 & I2 & I3).
      destruct (next_count_conserves cf a n_seats total seats caps a' el I1 I2 Hqpos Hn) as (N1 & N2 & N3).
      split; [exact N1|]. split; [apply add_seats_nonneg; assumption|].
      destruct (quota_of cf total n_seats) as [qv|].
      + rewrite inject_Z_plus. rewrite <- I3, <- N3. ring.
      + destruct N3 as [N3 ->]. destruct I3 as [I3 ->]. split; [rewrite N3; exact I3|reflexivity].
  Qed.
End RUN.

(* ================================================================ non-negativity (I2) *)
Definition pile_nonneg (p : pile) : Prop := Forall (fun bw => 0 <= snd bw) p.
Definition alloc_nonneg (a : alloc) : Prop := Forall (fun kp => pile_nonneg (snd kp)) a.

Lemma pile_add_nonneg p b w : pile_nonneg p -> 0 <= w -> pile_nonneg (pile_add p b w).
Proof.
  unfold pile_nonneg. induction 1 as [|[b' w'] p Hw Hp IH]; intros H0; simpl; [constructor; [exact H0|constructor]|].
  destruct (ballot_eqb b b'); constructor; simpl in *; try assumption.
  - pose proof (Qred_correct (w' + w)) as Hr. rewrite Hr. lra.
  - apply IH. exact H0.
Qed.

Lemma alloc_add_nonneg a k b w : alloc_nonneg a -> 0 <= w -> alloc_nonneg (alloc_add a k b w).
Proof.
  unfold alloc_nonneg. induction 1 as [|[k' p] a Hp Ha IH]; intros H0; simpl.
  - constructor; [|constructor]. simpl. constructor; [exact H0|constructor].
  - destruct (okey_eqb k k'); constructor; simpl in *; try assumption.
    + apply pile_add_nonneg; assumption.
    + apply IH. exact H0.
Qed.

Lemma move_ballot_nonneg a targets b w : alloc_nonneg a -> 0 <= w -> alloc_nonneg (move_ballot a targets b w).
Proof.
  intros Ha Hw. unfold move_ballot. destruct targets as [|t ts]; [apply alloc_add_nonneg; assumption|].
  assert (Hsh : 0 <= Qred (w / inject_Z (Z.of_nat (length (t :: ts))))).
  { pose proof (Qred_correct (w / inject_Z (Z.of_nat (length (t :: ts))))) as Hr. rewrite Hr.
    apply Qle_shift_div_l; [|lra]. rewrite <- (Zlt_Qlt 0). simpl length. lia. }
  revert Hsh. generalize (Qred (w / inject_Z (Z.of_nat (length (t :: ts))))). intros sh Hsh.
  revert a Ha. induction (t :: ts) as [|x xs IH]; intros a Ha; simpl; [exact Ha|].
  apply IH. apply alloc_add_nonneg; assumption.
Qed.

Lemma alloc_get_nonneg a k p : alloc_nonneg a -> alloc_get a k = Some p -> pile_nonneg p.
Proof.
  unfold alloc_nonneg. induction 1 as [|[k' q] a Hq Ha IH]; simpl; [discriminate|].
  destruct (okey_eqb k k'); [intros [= <-]; exact Hq|exact IH].
Qed.

Theorem transfer_nonneg a elim : alloc_nonneg a -> alloc_nonneg (transfer a elim).
Proof.
  intros Ha. unfold transfer.
  generalize (filter (fun c => negb (cmem c elim)) (keys_some a)). intros continuing.
  generalize (filter (fun c => cmem c elim) (keys_some a)). intros rem.
  revert a Ha. induction rem as [|c rem IH]; intros a Ha; simpl; [exact Ha|].
  apply IH.
  assert (Hp : pile_nonneg (match alloc_get a (Some c) with Some p => p | None => [] end)).
  { destruct (alloc_get a (Some c)) eqn:E; [eapply alloc_get_nonneg; eassumption|constructor]. }
  revert Hp. generalize (match alloc_get a (Some c) with Some p => p | None => [] end). intros p Hp.
  assert (Hf : forall q a0, pile_nonneg q -> alloc_nonneg a0 ->
     alloc_nonneg (fold_left (fun a bw => move_ballot a (ranked_next (fst bw) c continuing) (fst bw) (snd bw)) q a0)).
  { induction q as [|[b w] q IHq]; intros a0 Hq Ha0; simpl; [exact Ha0|].
    inversion Hq; subst. apply IHq; [assumption|]. apply move_ballot_nonneg; assumption. }
  unfold alloc_del, alloc_nonneg. apply Forall_forall. intros x Hx. apply filter_In in Hx. destruct Hx as [Hx _].
  specialize (Hf p a Hp Ha). unfold alloc_nonneg in Hf. rewrite Forall_forall in Hf. apply Hf, Hx.
Qed.

Lemma scale_nonneg (p : pile) (f : Q) : pile_nonneg p -> 0 <= f ->
  pile_nonneg (map (fun bw : ballot * Q => (fst bw, Qred (snd bw * f))) p).
Proof.
  unfold pile_nonneg. induction 1 as [|[b w] p Hw _ IH]; intros Hf; simpl; [constructor|].
  constructor; [|apply IH, Hf]. simpl in *. pose proof (Qred_correct (w * f)) as Hr. rewrite Hr.
  apply Qmult_le_0_compat; assumption.
Qed.

Lemma gregory_subtract_nonneg p amt p' : pile_nonneg p -> 0 <= amt ->
  gregory_subtract p amt = Some p' -> pile_nonneg p'.
Proof.
  intros Hp H0. unfold gregory_subtract. pose proof (pile_sum_wsum p) as Hs.
  destruct (Qeq_bool (pile_sum p) 0); [discriminate|].
  destruct (Qle_bool (pile_sum p) amt) eqn:E1; [intros [= <-]; constructor|].
  intros Hq. assert (Hp' : p' = map (fun bw : ballot * Q => (fst bw, Qred (snd bw * ((pile_sum p - amt) / pile_sum p)))) p) by congruence.
  rewrite Hp'. clear Hq Hp'.
  assert (Hlt : amt < pile_sum p).
  { apply Qnot_le_lt. intros H. apply Qle_bool_iff in H. congruence. }
  assert (Hf : 0 <= (pile_sum p - amt) / pile_sum p) by (apply Qle_shift_div_l; lra).
  apply scale_nonneg; assumption.
Qed.

Theorem subtract_nonneg elected : forall a a', alloc_nonneg a ->
  (forall c amt, In (c, amt) elected -> 0 <= amt) ->
  subtract a elected = Some a' -> alloc_nonneg a'.
Proof.
  induction elected as [|[c amt] t IH]; intros a a' Ha Hnn; simpl; [intros [= <-]; exact Ha|].
  destruct (alloc_get a (Some c)) as [p|] eqn:Eg; [|discriminate].
  destruct (gregory_subtract p amt) as [p'|] eqn:Es; [|discriminate].
  apply IH; [|intros c0 amt0 H; apply (Hnn c0); right; exact H].
  pose proof (gregory_subtract_nonneg p amt p' (alloc_get_nonneg a _ p Ha Eg) (Hnn c amt (or_introl eq_refl)) Es) as Hp'.
  unfold alloc_nonneg in *. clear -Ha Hp'. induction Ha as [|[k q0] a Hq Ha IHa]; cbn -[okey_eqb]; [constructor|].
  constructor; [|exact IHa]. destruct k as [y|]; [destruct (ceqb c y)|]; simpl; assumption.
Qed.

(* ================================================================ a finished count fills exactly the seats *)
Lemma add_seats_sum el : forall seats, zsum (map snd (add_seats seats el)) = (zsum (map snd seats) + seats_sum el)%Z.
Proof.
  unfold add_seats. induction el as [|[c s] el IH]; intros seats; simpl; [lia|].
  rewrite IH. assert (H : forall d, zsum (map snd (dset d c (dget_or d c 0 + s)%Z)) = (zsum (map snd d) + s)%Z).
  { intros d. rewrite !zsum_fold. unfold dget_or. induction d as [|[k v] d IHd]; simpl; [lia|].
    destruct (ceqb c k) eqn:E; simpl; [lia|]. rewrite IHd. lia. }
  rewrite H. lia.
Qed.

Lemma seats_sum_zsum (l : list (C * Z)) : seats_sum l = zsum (map snd l).
Proof. rewrite zsum_fold. induction l as [|x l IHl]; simpl; [reflexivity|]. rewrite IHl. reflexivity. Qed.

(* the elect-all-remaining shortcut fires only when the free seats equal the open seats *)
Lemma next_count_all cf a n total seats caps el :
  next_count cf a n total seats caps = CR_all el -> seats_sum el = (n - zsum (map snd seats))%Z.
Proof.
  unfold next_count.
  match goal with |- context [if ?c then CR_all ?av else _] => destruct c eqn:Ec end.
  - intros [= <-]. apply andb_true_iff in Ec. destruct Ec as [Ec _]. apply andb_true_iff in Ec. destruct Ec as [_ Ec].
    apply Z.eqb_eq in Ec. rewrite seats_sum_zsum. exact Ec.
  - intros H. exfalso. revert H.
    repeat (match goal with |- context [match ?x with _ => _ end] => destruct x end); discriminate.
Qed.

Theorem run_complete cf fuel : forall a n total seats caps acc,
  t_stop (run cf fuel a n total seats caps acc) = None ->
  zsum (map snd (t_seats (run cf fuel a n total seats caps acc))) = n.
Proof.
  induction fuel as [|f IH]; intros a n total seats caps acc; simpl.
  - destruct (zsum (map snd seats) =? n)%Z eqn:E; simpl; [intros _; apply Z.eqb_eq, E|discriminate].
  - destruct (zsum (map snd seats) =? n)%Z eqn:E; simpl; [intros _; apply Z.eqb_eq, E|].
    destruct (next_count cf a n total seats caps) as [el|a' el|s] eqn:En; simpl; [| |discriminate].
    + intros _. rewrite add_seats_sum, (next_count_all _ _ _ _ _ _ _ En). lia.
    + destruct el as [|e el'].
      * destruct (alloc_eqb a' a); simpl; [discriminate|]. apply IH.
      * apply IH.
Qed.
