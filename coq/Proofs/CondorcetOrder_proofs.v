(* Order independence of the Condorcet family (C10): the pairwise dictionary v' holds the same
   (pair, count) entries as v in another insertion order (Permutation v v', distinct keys).
   - pget / pget0, the candidate set, pairwise_wins, beat_counts: the same content;
   - condorcet_winner, kemeny: the SAME answer (equality);
   - copeland (raw and second order), minimax (three scorers), schulze (any two iteration orders): the results
     have the same shape (plain winner against plain winner, tie against tie with the same members), the same
     elected candidates, the same tied candidates; for the first-order evaluators a plain winner faces a plain
     winner WITH THE SAME SCORE (the same candidate when that score is unique);
   - smith_schwartz (ties = true, the Smith set): the same members; (ties = false: refuted - known finding);
   - ranked_pairs: equality when the sort keys (score, votes) of the pairs are pairwise distinct; refuted otherwise. *)
From Coq Require Import ZArith List Bool Lia Arith Permutation Sorted.
From VL Require Import Prelude.PyDict Model.GetNBest Model.Condorcet Proofs.Dict_proofs Proofs.GetNBest_proofs
     Proofs.Condorcet_proofs Proofs.CopelandMono_proofs Proofs.Scale_proofs Proofs.Minimax_proofs Proofs.Smith_proofs
     Proofs.Schulze_proofs Proofs.Kemeny_proofs Proofs.RankedPairs_proofs Proofs.GnbSim_proofs.
Import ListNotations.
Open Scope Z_scope.

(* ---------------------------------------------------------------- result equivalence *)
Definition res_shape (x y : res C) : Prop :=
  match x, y with
  | Cand _, Cand _ => True
  | TieR T, TieR T' => Permutation T T'
  | _, _ => False
  end.

(* same length; position by position a plain winner faces a plain winner and a tie faces a tie with the same
   members; the same candidates are elected; (hence) the same candidates are reported tied *)
Definition res_equiv (r r' : list (res C)) : Prop :=
  Forall2 res_shape r r' /\ (forall c, In (Cand c) r <-> In (Cand c) r').

Lemma F2_impl' {X Y} (P Q : X -> Y -> Prop) l l' : (forall x y, P x y -> Q x y) -> Forall2 P l l' -> Forall2 Q l l'.
Proof. intros H. induction 1; constructor; auto. Qed.

Lemma res_shape_sym x y : res_shape x y -> res_shape y x.
Proof. destruct x, y; simpl; auto. apply Permutation_sym. Qed.

Lemma shape_tied_l r r' c : Forall2 res_shape r r' ->
  (exists T, In (TieR T) r /\ In c T) -> (exists T, In (TieR T) r' /\ In c T).
Proof.
  induction 1 as [|x y r r' Hxy _ IH]; intros (T & HT & Hc); [destruct HT|]. destruct HT as [->|HT].
  - destruct y as [b|T']; simpl in Hxy; [contradiction|]. exists T'. split; [left; reflexivity|apply (Permutation_in _ Hxy Hc)].
  - destruct IH as (T' & HT' & Hc'); [exists T; auto|]. exists T'. split; [right; exact HT'|exact Hc'].
Qed.

Lemma F2_sym {X Y} (P : X -> Y -> Prop) (Q : Y -> X -> Prop) l l' : (forall x y, P x y -> Q y x) -> Forall2 P l l' -> Forall2 Q l' l.
Proof. intros H. induction 1; constructor; auto. Qed.

(* the tie clause of the property follows *)
Theorem res_equiv_tied r r' c : res_equiv r r' ->
  ((exists T, In (TieR T) r /\ In c T) <-> (exists T, In (TieR T) r' /\ In c T)).
Proof.
  intros [F _]. split; [apply shape_tied_l, F|]. apply shape_tied_l. apply (F2_sym res_shape res_shape); [apply res_shape_sym|exact F].
Qed.

Lemma relz_shape d d' x y : res_relz d d' x y -> res_shape x y.
Proof. destruct x, y; simpl; tauto. Qed.

Theorem gnbz_equiv d d' n : NoDup (map fst d) -> Permutation d d' ->
  res_equiv (get_n_best zle_bool d n) (get_n_best zle_bool d' n).
Proof.
  intros N P. split.
  - eapply F2_impl'; [apply relz_shape|apply (gnbz_sim d d' N P n)].
  - intros c. apply (gnbz_sets d d' N P n c).
Qed.

(* a plain winner whose score nobody shares sits at the same position in the other result *)
Theorem relz_unique_pos d d' r r' i a : Forall2 (res_relz d d') r r' -> nth_error r i = Some (Cand a) ->
  (forall b, In b (map fst d) -> score_of d b = score_of d a -> b = a) -> nth_error r' i = Some (Cand a).
Proof.
  intros F. revert i. induction F as [|x y r r' Hxy _ IH]; intros i Hi Hu; [destruct i; discriminate|].
  destruct i as [|i]; simpl in *; [|apply IH; assumption]. injection Hi as ->.
  destruct y as [b|T]; simpl in Hxy; [|contradiction]. destruct Hxy as (_ & Hb & E). rewrite (Hu b Hb (eq_sym E)). reflexivity.
Qed.

(* ---------------------------------------------------------------- dictionaries with the same content *)
Lemma dict_perm (d d' : list (C * Z)) : NoDup (map fst d) -> NoDup (map fst d') ->
  (forall c, In c (map fst d) <-> In c (map fst d')) -> (forall c, In c (map fst d) -> dget_or d c 0 = dget_or d' c 0) ->
  Permutation d d'.
Proof.
  intros N N' K G. rewrite (dict_canonical d N), (dict_canonical d' N').
  apply Permutation_trans with (map (fun c => (c, dget_or d c 0)) (map fst d')).
  - apply Permutation_map. apply (NoDup_Permutation N N' K).
  - erewrite map_ext_in; [apply Permutation_refl|]. intros c Hc. simpl. f_equal. apply G. apply K. exact Hc.
Qed.

(* defaultdict(int) accumulation of a list of (key, increment) *)
Fixpoint acc (l d : list (C * Z)) : list (C * Z) :=
  match l with [] => d | kx :: t => acc t (dadd d (fst kx) (snd kx)) end.
Fixpoint sumk (c : C) (l : list (C * Z)) : Z :=
  match l with [] => 0 | kx :: t => (if ceqb c (fst kx) then snd kx else 0) + sumk c t end.

Lemma acc_get l : forall d c, dget_or (acc l d) c 0 = dget_or d c 0 + sumk c l.
Proof. induction l as [|kx l IH]; intros d c; cbn [acc sumk]; [lia|]. rewrite IH, dadd_get'. lia. Qed.

Lemma acc_keys l : forall d, NoDup (map fst d) ->
  NoDup (map fst (acc l d)) /\ forall c, In c (map fst (acc l d)) <-> In c (map fst d) \/ In c (map fst l).
Proof.
  induction l as [|kx l IH]; intros d Hd; cbn [acc map].
  - split; [exact Hd|]. intros c. simpl. tauto.
  - destruct (dset_keys' d (fst kx) (dget_or d (fst kx) 0 + snd kx) Hd) as [N1 K1]. fold (dadd d (fst kx) (snd kx)) in N1, K1.
    destruct (IH _ N1) as [N2 K2]. split; [exact N2|]. intros c. rewrite K2, K1. simpl. intuition (subst; auto).
Qed.

Lemma sumk_perm c l l' : Permutation l l' -> sumk c l = sumk c l'.
Proof. induction 1; cbn [sumk]; lia. Qed.

Lemma acc_perm l l' d d' : Permutation l l' -> Permutation d d' -> NoDup (map fst d) -> Permutation (acc l d) (acc l' d').
Proof.
  intros Pl Pd N. assert (N' : NoDup (map fst d')) by (eapply Permutation_NoDup; [apply Permutation_map, Pd|exact N]).
  destruct (acc_keys l d N) as [A1 A2]. destruct (acc_keys l' d' N') as [B1 B2].
  apply dict_perm; try assumption.
  - intros c. rewrite A2, B2.
    assert (H1 : In c (map fst d) <-> In c (map fst d')) by (split; apply Permutation_in; [|apply Permutation_sym]; apply Permutation_map, Pd).
    assert (H2 : In c (map fst l) <-> In c (map fst l')) by (split; apply Permutation_in; [|apply Permutation_sym]; apply Permutation_map, Pl).
    tauto.
  - intros c _. rewrite !acc_get, (sumk_perm c l l' Pl). pose proof (perm_score d d' N Pd c) as E. unfold score_of in E. lia.
Qed.

Lemma beat_counts_acc ws : forall d, fold_left (fun d (p : pair) => dadd d (fst p) 1) ws d = acc (map (fun p : pair => (fst p, 1)) ws) d.
Proof. induction ws as [|p ws IH]; intros d; [reflexivity|]. simpl. apply IH. Qed.
Lemma copeland_scores_acc ws : forall d, fold_left (fun d (p : pair) => dadd (dadd d (fst p) 1) (snd p) (-1)) ws d =
  acc (flat_map (fun p : pair => [(fst p, 1); (snd p, -1)]) ws) d.
Proof. induction ws as [|p ws IH]; intros d; [reflexivity|]. simpl. apply IH. Qed.
Lemma sch_acc ws : forall d, fold_left sch_step ws d = acc (flat_map (fun p : pair => [(fst p, 1); (snd p, 0)]) ws) d.
Proof. induction ws as [|p ws IH]; intros d; [reflexivity|]. simpl. apply IH. Qed.
Lemma so_acc (tied : list C) (g : C -> Z) ws : forall d,
  fold_left (fun d (p : pair) => if cmem (fst p) tied then dadd d (fst p) (g (snd p)) else d) ws d =
  acc (flat_map (fun p : pair => if cmem (fst p) tied then [(fst p, g (snd p))] else []) ws) d.
Proof. induction ws as [|p ws IH]; intros d; [reflexivity|]. simpl. rewrite IH. destruct (cmem (fst p) tied); reflexivity. Qed.

Lemma flat_map_perm {X Y} (f : X -> list Y) l l' : Permutation l l' -> Permutation (flat_map f l) (flat_map f l').
Proof. intros H. apply Permutation_flat_map. exact H. Qed.

Lemma find_unique_perm {X} (f : X -> bool) l l' : Permutation l l' ->
  (forall x y, In x l -> In y l -> f x = true -> f y = true -> x = y) -> find f l = find f l'.
Proof.
  intros P U. destruct (find f l) as [x|] eqn:E, (find f l') as [y|] eqn:E'; try reflexivity.
  - apply find_some in E, E'. destruct E as [I1 F1], E' as [I2 F2]. f_equal. apply U; try assumption.
    apply (Permutation_in _ (Permutation_sym P)). exact I2.
  - apply find_some in E. destruct E as [I1 F1]. rewrite (find_none _ _ E' x (Permutation_in _ P I1)) in F1. discriminate.
  - apply find_some in E'. destruct E' as [I2 F2]. rewrite (find_none _ _ E y (Permutation_in _ (Permutation_sym P) I2)) in F2. discriminate.
Qed.

Lemma filter_neq_length (c : C) l : NoDup l -> In c l -> S (length (filter (fun x => negb (ceqb x c)) l)) = length l.
Proof.
  induction l as [|y l IH]; intros N I; [destruct I|]. inversion N as [|? ? Hy Hn]; subst. simpl.
  destruct (ceqb y c) eqn:E; simpl.
  - apply ceqb_eq in E. subst y. f_equal. clear IH N I Hn. induction l as [|z l IH]; [reflexivity|]. simpl.
    destruct (ceqb z c) eqn:Ez; simpl.
    + apply ceqb_eq in Ez. subst. exfalso. apply Hy. left. reflexivity.
    + f_equal. apply IH. intros H. apply Hy. right. exact H.
  - f_equal. apply IH; [exact Hn|]. destruct I as [->|I]; [|exact I]. rewrite ceqb_refl in E. discriminate.
Qed.

(* ---------------------------------------------------------------- a permuted pairwise dictionary *)
Section PV.
  Variables v v' : pvotes.
  Hypothesis Hnd : NoDup (map fst v).
  Hypothesis Hp : Permutation v v'.

  Lemma pv_nodup' : NoDup (map fst v').
  Proof. eapply Permutation_NoDup; [apply Permutation_map, Hp|exact Hnd]. Qed.

  Theorem pget_perm p : pget v' p = pget v p.
  Proof.
    destruct (pget v p) as [n|] eqn:E.
    - apply pget_In in E. apply In_pget; [exact pv_nodup'|apply (Permutation_in _ Hp E)].
    - destruct (pget v' p) as [m|] eqn:E'; [|reflexivity]. apply pget_In in E'.
      apply (Permutation_in _ (Permutation_sym Hp)) in E'. rewrite (In_pget _ _ _ Hnd E') in E. discriminate.
  Qed.
  Theorem pget0_perm p : pget0 v' p = pget0 v p.
  Proof. unfold pget0. rewrite pget_perm. reflexivity. Qed.

  Theorem cands_perm : Permutation (candidates v) (candidates v').
  Proof.
    apply NoDup_Permutation; try apply candidates_NoDup. intros c. rewrite !candidates_spec.
    split; intros (p & n & Hin & Hc); exists p, n; split; auto;
      [apply (Permutation_in _ Hp Hin)|apply (Permutation_in _ (Permutation_sym Hp) Hin)].
  Qed.
  Lemma cands_in c : In c (candidates v) <-> In c (candidates v').
  Proof. split; apply Permutation_in; [|apply Permutation_sym]; exact cands_perm. Qed.

  Theorem wins_perm t : Permutation (pairwise_wins v t) (pairwise_wins v' t).
  Proof.
    unfold pairwise_wins. apply Permutation_map. apply filter_perm_ext; [exact Hp|]. intros pn. rewrite pget0_perm. reflexivity.
  Qed.

  Theorem beat_counts_perm : Permutation (beat_counts v) (beat_counts v').
  Proof.
    unfold beat_counts. rewrite !beat_counts_acc. apply acc_perm; [|apply Permutation_refl|constructor].
    apply Permutation_map, wins_perm.
  Qed.
End PV.

(* ---------------------------------------------------------------- condorcet_winner: the same answer *)
Lemma wins_in (v : pvotes) a b : In (a, b) (pairwise_wins v false) <-> exists n, In ((a, b), n) v /\ pget0 v (b, a) < n.
Proof.
  unfold pairwise_wins. rewrite in_map_iff. split.
  - intros ([p n] & Hp & Hin). simpl in Hp. subst p. apply filter_In in Hin. destruct Hin as [Hin Hf]. simpl in Hf.
    rewrite orb_false_r in Hf. apply Z.ltb_lt in Hf. exists n. split; [exact Hin|exact Hf].
  - intros (n & Hin & Hlt). exists ((a, b), n). split; [reflexivity|]. apply filter_In. split; [exact Hin|]. simpl.
    rewrite orb_false_r. apply Z.ltb_lt. exact Hlt.
Qed.

Section CWU.
  Variable v : pvotes.
  Hypothesis Hnd : NoDup (map fst v).
  Notation cs := (candidates v).
  Notation need := (Z.of_nat (length cs) - 1).

  Lemma win_facts a b : In (a, b) (pairwise_wins v false) -> In a cs /\ In b cs /\ a <> b /\ pget0 v (b, a) < pget0 v (a, b).
  Proof.
    intros H. apply wins_in in H. destruct H as (n & Hin & Hlt).
    assert (E : pget0 v (a, b) = n) by (unfold pget0; rewrite (In_pget _ _ _ Hnd Hin); reflexivity).
    split; [apply candidates_spec; exists (a, b), n; auto|]. split; [apply candidates_spec; exists (a, b), n; auto|].
    split; [|lia]. intros ->. lia.
  Qed.

  Lemma full_count_beats_all c c' : In (c, need) (beat_counts v) -> In c' cs -> c' <> c -> In (c, c') (pairwise_wins v false).
  Proof.
    intros Hc Hc' Hne. destruct (beat_counts_dict v) as [Nb Kb].
    assert (Hk : In c (map fst (beat_counts v))) by (apply in_map_iff; exists (c, need); auto).
    destruct (Kb c Hk) as (x & Hx). destruct (win_facts c x Hx) as (Hcc & _).
    pose proof (In_dget_or _ _ _ Nb Hc) as Hcount. rewrite beat_counts_get in Hcount.
    set (others := filter (fun x => negb (ceqb x c)) cs).
    assert (Hlen : S (length others) = length cs) by (apply filter_neq_length; [apply candidates_NoDup|exact Hcc]).
    assert (Hincl : incl (opponents v c) others).
    { intros y Hy. unfold opponents in Hy. apply in_map_iff in Hy. destruct Hy as ([a b] & Hb & Hin). simpl in Hb. subst b.
      apply filter_In in Hin. destruct Hin as [Hin Hf]. simpl in Hf. apply ceqb_eq in Hf. subst a.
      destruct (win_facts c y Hin) as (_ & Hy & Hny & _). apply filter_In. split; [exact Hy|].
      apply negb_true_iff. apply ceqb_neq. intros ->. apply Hny. reflexivity. }
    assert (Hback : incl others (opponents v c)).
    { apply NoDup_length_incl; [apply opponents_NoDup, Hnd|lia|exact Hincl]. }
    assert (Ho : In c' (opponents v c)).
    { apply Hback. apply filter_In. split; [exact Hc'|]. apply negb_true_iff, ceqb_neq. exact Hne. }
    unfold opponents in Ho. apply in_map_iff in Ho. destruct Ho as ([a b] & Hb & Hin). simpl in Hb. subst b.
    apply filter_In in Hin. destruct Hin as [Hin Hf]. simpl in Hf. apply ceqb_eq in Hf. subst a. exact Hin.
  Qed.

  Lemma full_count_unique c c' : In (c, need) (beat_counts v) -> In (c', need) (beat_counts v) -> c = c'.
  Proof.
    intros Hc Hc'. destruct (Pos.eq_dec c c') as [E|Hne]; [exact E|exfalso].
    destruct (beat_counts_dict v) as [Nb Kb].
    assert (Hin : forall x, In (x, need) (beat_counts v) -> In x cs).
    { intros x Hx. assert (Hk : In x (map fst (beat_counts v))) by (apply in_map_iff; exists (x, need); auto).
      destruct (Kb x Hk) as (y & Hy). apply (win_facts x y Hy). }
    pose proof (full_count_beats_all c c' Hc (Hin _ Hc') (fun E => Hne (eq_sym E))) as W1.
    pose proof (full_count_beats_all c' c Hc' (Hin _ Hc) Hne) as W2.
    apply win_facts in W1, W2. lia.
  Qed.
End CWU.

Theorem condorcet_winner_perm v v' : NoDup (map fst v) -> Permutation v v' -> condorcet_winner v' = condorcet_winner v.
Proof.
  intros Hnd Hp. unfold condorcet_winner.
  rewrite <- (Permutation_length (cands_perm v v' Hp)).
  rewrite <- (find_unique_perm _ (beat_counts v) (beat_counts v') (beat_counts_perm v v' Hnd Hp)); [reflexivity|].
  intros [c k] [c' k'] I1 I2 F1 F2. simpl in F1, F2. apply Z.eqb_eq in F1, F2. subst k k'.
  f_equal. apply (full_count_unique v Hnd c c' I1 I2).
Qed.

(* ---------------------------------------------------------------- copeland *)
Section COPE.
  Variables v v' : pvotes.
  Hypothesis Hnd : NoDup (map fst v).
  Hypothesis Hp : Permutation v v'.

  Lemma cscores_nodup (u : pvotes) : NoDup (map fst (cscores u)).
  Proof. unfold cscores. apply (seed_fold (candidates u) _ (proj1 (cscore_keys _))). Qed.

  Lemma copeland_scores_perm : Permutation (copeland_scores (pairwise_wins v false)) (copeland_scores (pairwise_wins v' false)).
  Proof.
    unfold copeland_scores. rewrite !copeland_scores_acc. apply acc_perm; [|apply Permutation_refl|constructor].
    apply flat_map_perm, wins_perm; assumption.
  Qed.

  Theorem cscores_perm : Permutation (cscores v) (cscores v').
  Proof.
    pose proof copeland_scores_perm as P0.
    pose proof (proj1 (cscore_keys (pairwise_wins v false))) as N0. pose proof (proj1 (cscore_keys (pairwise_wins v' false))) as N0'.
    destruct (seed_fold (candidates v) _ N0) as (N1 & G1 & K1). destruct (seed_fold (candidates v') _ N0') as (N1' & G1' & K1').
    apply dict_perm; try assumption.
    - intros c. unfold cscores. rewrite K1, K1', (cands_in v v' Hp c).
      assert (H : In c (map fst (copeland_scores (pairwise_wins v false))) <-> In c (map fst (copeland_scores (pairwise_wins v' false))))
        by (split; apply Permutation_in; [|apply Permutation_sym]; apply Permutation_map, P0).
      tauto.
    - intros c _. unfold cscores. rewrite G1, G1'. pose proof (perm_score _ _ N0 P0 c) as E. unfold score_of in E. lia.
  Qed.

  (* first order: same shape, same sets, a plain winner faces a plain winner with the same Copeland score *)
  Theorem copeland_raw_sim n : Forall2 (res_relz (cscores v) (cscores v')) (copeland false v n) (copeland false v' n).
  Proof. rewrite !copeland_raw_is_first_order. apply gnbz_sim; [apply cscores_nodup|exact cscores_perm]. Qed.

  Lemma has_tie_shape r r' : Forall2 res_shape r r' -> has_tie r = has_tie r'.
  Proof. induction 1 as [|x y r r' H _ IH]; [reflexivity|]. simpl. rewrite IH. destruct x, y; simpl in H; try contradiction; reflexivity. Qed.
  Lemma members_shape r r' : Forall2 res_shape r r' -> Permutation (res_members r) (res_members r').
  Proof.
    induction 1 as [|x y r r' H _ IH]; [constructor|]. simpl. destruct x, y; simpl in H; try contradiction; [exact IH|].
    apply Permutation_app; assumption.
  Qed.
  Lemma untied_shape r r' : Forall2 res_shape r r' -> Forall2 res_shape (res_untied r) (res_untied r').
  Proof.
    induction 1 as [|x y r r' H _ IH]; [constructor|]. simpl. destruct x, y; simpl in H; try contradiction; [|exact IH].
    constructor; [exact I|exact IH].
  Qed.
  Lemma untied_in r c : In (Cand c) (res_untied r) <-> In (Cand c) r.
  Proof. unfold res_untied. rewrite filter_In. split; [tauto|]. intros H. split; [exact H|reflexivity]. Qed.
  Lemma F2_len {X Y} (P : X -> Y -> Prop) l l' : Forall2 P l l' -> length l = length l'.
  Proof. induction 1; simpl; congruence. Qed.
  Lemma cmem_perm c l l' : Permutation l l' -> cmem c l = cmem c l'.
  Proof.
    intros P. destruct (cmem c l) eqn:E, (cmem c l') eqn:E'; try reflexivity.
    - apply cmem_false in E'. exfalso. apply E'. apply (Permutation_in _ P).
      destruct (in_dec Pos.eq_dec c l) as [H|H]; [exact H|]. apply cmem_false in H. congruence.
    - apply cmem_false in E. exfalso. apply E. apply (Permutation_in _ (Permutation_sym P)).
      destruct (in_dec Pos.eq_dec c l') as [H|H]; [exact H|]. apply cmem_false in H. congruence.
  Qed.

  Lemma so0_keys (tied : list C) (scores : list (C * Z)) : NoDup (map fst scores) ->
    let so0 := flat_map (fun cs : C * Z => if cmem (fst cs) tied then [(fst cs, 0)] else []) scores in
    NoDup (map fst so0) /\ (forall c, In c (map fst so0) <-> In c (map fst scores) /\ cmem c tied = true) /\
    (forall c, dget_or so0 c 0 = 0).
  Proof.
    induction scores as [|[k x] sc IH]; intros N; cbn [flat_map map fst].
    - split; [constructor|]. split; [intros c; simpl; tauto|reflexivity].
    - inversion N as [|? ? Hk Hn]; subst. destruct (IH Hn) as (I1 & I2 & I3). destruct (cmem k tied) eqn:E; cbn [app map fst].
      + split; [constructor; [|exact I1]; intros H; apply I2 in H; tauto|]. split.
        * intros c. simpl. rewrite I2. split; [intros [<-|[H1 H2]]; auto|intros [[<-|H1] H2]; auto].
        * intros c. unfold dget_or. cbn [dget]. destruct (ceqb c k); [reflexivity|apply I3].
      + split; [exact I1|]. split; [|exact I3]. intros c. rewrite I2. simpl. split; [tauto|]. intros [[<-|H1] H2]; [congruence|tauto].
  Qed.

  Lemma copeland_unfold2 so (u : pvotes) n : copeland so u n =
    let scores := cscores u in
    let best := get_n_best zle_bool scores n in
    if so && has_tie best then
      let tied := res_members best in
      res_untied best ++ get_n_best zle_bool
        (fold_left (fun d (p : pair) => if cmem (fst p) tied then dadd d (fst p) (dget_or scores (snd p) 0) else d) (pairwise_wins u false)
           (flat_map (fun cs : C * Z => if cmem (fst cs) tied then [(fst cs, 0)] else []) scores))
        (length best - length (res_untied best))
    else best.
  Proof. reflexivity. Qed.

  Theorem copeland_equiv so n : res_equiv (copeland so v n) (copeland so v' n).
  Proof.
    pose proof (cscores_nodup v) as N. pose proof cscores_perm as P.
    pose proof (gnbz_equiv _ _ n N P) as [F S].
    rewrite !copeland_unfold2. cbv zeta.
    set (best := get_n_best zle_bool (cscores v) n) in *. set (best' := get_n_best zle_bool (cscores v') n) in *.
    destruct so; cbn [andb]; [|split; assumption].
    rewrite <- (has_tie_shape _ _ F). destruct (has_tie best); [|split; assumption].
    rewrite <- (F2_len _ _ _ F), <- (F2_len _ _ _ (untied_shape _ _ F)).
    set (k := (length best - length (res_untied best))%nat).
    pose proof (members_shape _ _ F) as PT.
    set (tied := res_members best) in *. set (tied' := res_members best') in *.
    rewrite (so_acc tied (fun x => dget_or (cscores v) x 0)), (so_acc tied' (fun x => dget_or (cscores v') x 0)).
    set (so0 := flat_map (fun cs : C * Z => if cmem (fst cs) tied then [(fst cs, 0)] else []) (cscores v)).
    set (so0' := flat_map (fun cs : C * Z => if cmem (fst cs) tied' then [(fst cs, 0)] else []) (cscores v')).
    destruct (so0_keys tied (cscores v) N) as (A1 & A2 & A3). fold so0 in A1, A2, A3.
    destruct (so0_keys tied' (cscores v') (perm_nodup' _ _ N P)) as (B1 & B2 & B3). fold so0' in B1, B2, B3.
    assert (P0 : Permutation so0 so0').
    { apply dict_perm; try assumption.
      - intros c. rewrite A2, B2, (cmem_perm c tied tied' PT), (perm_keys _ _ P c). tauto.
      - intros c _. rewrite A3, B3. reflexivity. }
    match goal with |- res_equiv (_ ++ get_n_best zle_bool ?d k) (_ ++ get_n_best zle_bool ?d' k) =>
      assert (PS : Permutation d d'); [|assert (NS : NoDup (map fst d)) by (apply acc_keys; exact A1);
        pose proof (gnbz_equiv d d' k NS PS) as [F2 S2]] end.
    { apply acc_perm; [|exact P0|exact A1].
      erewrite flat_map_ext; [apply flat_map_perm, wins_perm; assumption|].
      intros p. rewrite (cmem_perm _ _ _ PT). pose proof (perm_score _ _ N P (snd p)) as E. unfold score_of in E. rewrite E. reflexivity. }
    split.
    - apply Forall2_app; [apply untied_shape, F|exact F2].
    - intros c. rewrite !in_app_iff, !untied_in, S, S2. reflexivity.
  Qed.
  (* ---- second order as well: position by position the same (first-order) Copeland score *)
  Lemma gnb_tie_same (d : list (C * Z)) n T1 T2 :
    In (TieR T1) (get_n_best zle_bool d n) -> In (TieR T2) (get_n_best zle_bool d n) -> T1 = T2.
  Proof.
    unfold get_n_best. destruct (Nat.ltb n _).
    2:{ intros H. apply in_map_iff in H. destruct H as (? & H & _). discriminate. }
    destruct (nth_error _ (n - 1)) as [[c1 thr]|]; [|intros []].
    destruct (nth_error _ n) as [[c2 nxt]|]; [|intros []].
    destruct (eqv zle_bool nxt thr).
    2:{ intros H. apply in_map_iff in H. destruct H as (? & H & _). discriminate. }
    intros H1 H2. apply in_app_or in H1, H2.
    destruct H1 as [H1|H1]; [apply in_map_iff in H1; destruct H1 as (? & H1 & _); discriminate|].
    destruct H2 as [H2|H2]; [apply in_map_iff in H2; destruct H2 as (? & H2 & _); discriminate|].
    apply repeat_spec in H1, H2. congruence.
  Qed.

  Lemma members_in (r : list (res C)) a : In a (res_members r) <-> exists T, In (TieR T) r /\ In a T.
  Proof.
    unfold res_members. rewrite in_flat_map. split.
    - intros ([c|T] & Hx & Ha); [destruct Ha|]. exists T. auto.
    - intros (T & HT & Ha). exists (TieR T). auto.
  Qed.

  Lemma tied_same_score (d : list (C * Z)) n a b : NoDup (map fst d) ->
    In a (res_members (get_n_best zle_bool d n)) -> In b (res_members (get_n_best zle_bool d n)) ->
    In a (map fst d) /\ In b (map fst d) /\ score_of d a = score_of d b.
  Proof.
    intros N Ha Hb. apply members_in in Ha, Hb. destruct Ha as (T & HT & Ha), Hb as (T' & HT' & Hb).
    rewrite <- (gnb_tie_same d n T T' HT HT') in Hb.
    destruct (get_n_best_tie_members zle_bool zle_trans d n T HT) as (thr & -> & _).
    assert (H : forall x, In x (map fst (filter (fun it : C * Z => eqv zle_bool (snd it) thr) d)) -> In x (map fst d) /\ score_of d x = thr).
    { intros x Hx. apply in_map_iff in Hx. destruct Hx as ([x0 vx] & E & Hin). simpl in E. subst x0. apply filter_In in Hin.
      destruct Hin as [Hin Hf]. simpl in Hf. apply zeqv_eq in Hf. subst vx. split; [apply in_map_iff; exists (x, thr); auto|apply In_score_of; assumption]. }
    destruct (H a Ha) as [A1 A2]. destruct (H b Hb) as [B1 B2]. split; [exact A1|]. split; [exact B1|congruence].
  Qed.

  Lemma untied_relz d d' r r' : Forall2 (res_relz d d') r r' -> Forall2 (res_relz d d') (res_untied r) (res_untied r').
  Proof.
    induction 1 as [|x y r r' H _ IH]; [constructor|]. simpl. destruct x, y; simpl in H; try contradiction; [|exact IH].
    constructor; [exact H|exact IH].
  Qed.

  Lemma cmem_true_in c l : cmem c l = true -> In c l.
  Proof. intros H. destruct (in_dec Pos.eq_dec c l) as [I|I]; [exact I|]. apply cmem_false in I. congruence. Qed.

  Theorem copeland_sim so n : Forall2 (res_relz (cscores v) (cscores v')) (copeland so v n) (copeland so v' n).
  Proof.
    pose proof (cscores_nodup v) as N. pose proof cscores_perm as P.
    pose proof (gnbz_sim _ _ N P n) as FZ.
    assert (F : Forall2 res_shape (get_n_best zle_bool (cscores v) n) (get_n_best zle_bool (cscores v') n)) by (eapply F2_impl'; [apply relz_shape|exact FZ]).
    pose proof (tied_same_score (cscores v) n) as TS.
    rewrite !copeland_unfold2. cbv zeta.
    set (best := get_n_best zle_bool (cscores v) n) in *. set (best' := get_n_best zle_bool (cscores v') n) in *.
    destruct so; cbn [andb]; [|exact FZ].
    rewrite <- (has_tie_shape _ _ F). destruct (has_tie best); [|exact FZ].
    rewrite <- (F2_len _ _ _ F), <- (F2_len _ _ _ (untied_shape _ _ F)).
    set (k := (length best - length (res_untied best))%nat).
    pose proof (members_shape _ _ F) as PT.
    set (tied := res_members best) in *. set (tied' := res_members best') in *.
    rewrite (so_acc tied (fun x => dget_or (cscores v) x 0)), (so_acc tied' (fun x => dget_or (cscores v') x 0)).
    set (so0 := flat_map (fun cs : C * Z => if cmem (fst cs) tied then [(fst cs, 0)] else []) (cscores v)).
    set (so0' := flat_map (fun cs : C * Z => if cmem (fst cs) tied' then [(fst cs, 0)] else []) (cscores v')).
    destruct (so0_keys tied (cscores v) N) as (A1 & A2 & A3). fold so0 in A1, A2, A3.
    destruct (so0_keys tied' (cscores v') (perm_nodup' _ _ N P)) as (B1 & B2 & B3). fold so0' in B1, B2, B3.
    assert (P0 : Permutation so0 so0').
    { apply dict_perm; try assumption.
      - intros c. rewrite A2, B2, (cmem_perm c tied tied' PT), (perm_keys _ _ P c). tauto.
      - intros c _. rewrite A3, B3. reflexivity. }
    apply Forall2_app; [apply untied_relz, FZ|].
    match goal with |- Forall2 _ (get_n_best zle_bool ?d k) (get_n_best zle_bool ?d' k) =>
      assert (PS : Permutation d d'); [|assert (NS : NoDup (map fst d)) by (apply acc_keys; exact A1);
        assert (KS : forall c, In c (map fst d) -> In c tied); [|pose proof (gnbz_sim d d' NS PS k) as F2]] end.
    { apply acc_perm; [|exact P0|exact A1].
      erewrite flat_map_ext; [apply flat_map_perm, wins_perm; assumption|].
      intros p. rewrite (cmem_perm _ _ _ PT). pose proof (perm_score _ _ N P (snd p)) as E. unfold score_of in E. rewrite E. reflexivity. }
    { intros c Hc. apply (acc_keys _ so0 A1) in Hc. destruct Hc as [Hc|Hc].
      - apply A2 in Hc. apply cmem_true_in. tauto.
      - apply in_map_iff in Hc. destruct Hc as ([c0 x] & E & Hin). simpl in E. subst c0. apply in_flat_map in Hin.
        destruct Hin as (p & _ & Hin). destruct (cmem (fst p) tied) eqn:Em; [|destruct Hin].
        destruct Hin as [Hin|[]]. injection Hin as <- _. apply cmem_true_in. exact Em. }
    eapply F2_impl'; [|exact F2]. intros [a|T] [b|T']; simpl; try tauto. intros (Ia & Ib & _).
    apply (TS a b N); apply KS; assumption.
  Qed.
End COPE.

(* ---------------------------------------------------------------- minimax *)
Section MMX.
  Variables v v' : pvotes.
  Hypothesis Hnd : NoDup (map fst v).
  Hypothesis Hp : Permutation v v'.

  Lemma complete_nodup (u : pvotes) : NoDup (complete u).
  Proof. apply (NoDup_map_inv fst). apply complete_keys_nodup. Qed.

  Theorem complete_perm : Permutation (complete v) (complete v').
  Proof.
    apply NoDup_Permutation; try apply complete_nodup. intros [[a b] n]. rewrite !complete_in, (pget0_perm v v' Hnd Hp).
    rewrite (cands_in v v' Hp a), (cands_in v v' Hp b). reflexivity.
  Qed.

  Lemma score_pairs_perm s (u u' : pvotes) : NoDup (map fst u) -> Permutation u u' -> Permutation (score_pairs s u) (score_pairs s u').
  Proof.
    intros N P. destruct s; cbn [score_pairs]; [| |exact P].
    - rewrite (map_ext (fun pn : pair * Z => (fst pn, if pget0 u' (swap (fst pn)) <? snd pn then snd pn else 0))
                       (fun pn : pair * Z => (fst pn, if pget0 u (swap (fst pn)) <? snd pn then snd pn else 0))); [apply Permutation_map, P|].
      intros pn. rewrite (pget0_perm u u' N P). reflexivity.
    - rewrite (map_ext (fun pn : pair * Z => (fst pn, snd pn - pget0 u' (swap (fst pn))))
                       (fun pn : pair * Z => (fst pn, snd pn - pget0 u (swap (fst pn))))); [apply Permutation_map, P|].
      intros pn. rewrite (pget0_perm u u' N P). reflexivity.
  Qed.

  Lemma mc_of_dict (l : pvotes) :
    NoDup (map fst (mc_of l)) /\ (forall c, In c (map fst (mc_of l)) <-> exists pn, In pn l /\ snd (fst pn) = c) /\
    (forall c m, dget (mc_of l) c = Some m -> (forall pn, In pn l -> snd (fst pn) = c -> snd pn <= m) /\ exists pn, In pn l /\ snd (fst pn) = c /\ snd pn = m).
  Proof.
    destruct (mc_fold l []) as (H1 & H2 & H3). fold (mc_of l) in H1, H2, H3. split; [apply H1; constructor|]. split.
    - intros c. rewrite H2. simpl. tauto.
    - intros c m Hm. destruct (H3 c m Hm) as (A & _ & [B|B]); [discriminate|]. split; assumption.
  Qed.

  Lemma mc_of_perm (l l' : pvotes) : Permutation l l' -> Permutation (mc_of l) (mc_of l').
  Proof.
    intros P. destruct (mc_of_dict l) as (N & K & G). destruct (mc_of_dict l') as (N' & K' & G').
    assert (HI : forall pn, In pn l <-> In pn l') by (intros pn; split; apply Permutation_in; [|apply Permutation_sym]; exact P).
    assert (HK : forall c, In c (map fst (mc_of l)) <-> In c (map fst (mc_of l'))).
    { intros c. rewrite K, K'. split; intros (pn & Hin & E); exists pn; (split; [apply HI, Hin|exact E]). }
    apply dict_perm; try assumption.
    intros c Hc. unfold dget_or.
    destruct (dget (mc_of l) c) as [m|] eqn:E.
    2:{ exfalso. apply in_map_iff in Hc. destruct Hc as ([c0 m] & Hc0 & Hin). simpl in Hc0. subst c0. rewrite (In_dget _ _ _ N Hin) in E. discriminate. }
    apply HK in Hc. destruct (dget (mc_of l') c) as [m'|] eqn:E'.
    2:{ exfalso. apply in_map_iff in Hc. destruct Hc as ([c0 m'] & Hc0 & Hin). simpl in Hc0. subst c0. rewrite (In_dget _ _ _ N' Hin) in E'. discriminate. }
    destruct (G c m E) as (U & pn & I1 & I2 & I3). destruct (G' c m' E') as (U' & pn' & I1' & I2' & I3').
    pose proof (U' pn (proj1 (HI pn) I1) I2). pose proof (U pn' (proj2 (HI pn') I1') I2'). lia.
  Qed.

  Definition mscores (s : scorer) (u : pvotes) : list (C * Z) := map (fun cs : C * Z => (fst cs, - snd cs)) (mc_of (score_pairs s (complete u))).

  Lemma mscores_nodup s u : NoDup (map fst (mscores s u)).
  Proof. unfold mscores. rewrite map_map. simpl. apply (mc_of_dict (score_pairs s (complete u))). Qed.

  Theorem mscores_perm s : Permutation (mscores s v) (mscores s v').
  Proof. apply Permutation_map, mc_of_perm, score_pairs_perm; [apply complete_keys_nodup|apply complete_perm]. Qed.

  Theorem minimax_sim s n : Forall2 (res_relz (mscores s v) (mscores s v')) (minimax s v n) (minimax s v' n).
  Proof. rewrite !minimax_unfold. apply gnbz_sim; [apply mscores_nodup|apply mscores_perm]. Qed.
  Theorem minimax_equiv s n : res_equiv (minimax s v n) (minimax s v' n).
  Proof. rewrite !minimax_unfold. apply gnbz_equiv; [apply mscores_nodup|apply mscores_perm]. Qed.
End MMX.

(* ---------------------------------------------------------------- schulze: permuted dictionary AND any two iteration orders *)
Section SCHU.
  Variables v v' : pvotes.
  Hypothesis Hnd : NoDup (map fst v).
  Hypothesis Hnn : forall p n, In (p, n) v -> 0 <= n.
  Hypothesis Hp : Permutation v v'.

  Lemma nn_perm : forall p n, In (p, n) v' -> 0 <= n.
  Proof. intros p n H. apply (Hnn p n). apply (Permutation_in _ (Permutation_sym Hp) H). Qed.

  Lemma d0_perm a b : d0 v' a b = d0 v a b.
  Proof. unfold d0. rewrite !(pget0_perm v v' Hnd Hp). reflexivity. Qed.
  Lemma reach_perm s a b : reach v s a b -> reach v' s a b.
  Proof. induction 1 as [a b H|a m b H _ IH]; [apply reach_one|eapply reach_step; [|exact IH]]; rewrite d0_perm; exact H. Qed.
  Lemma reach_perm' s a b : reach v' s a b -> reach v s a b.
  Proof. induction 1 as [a b H|a m b H _ IH]; [apply reach_one|eapply reach_step; [|exact IH]]; rewrite <- d0_perm; exact H. Qed.

  Lemma wp_le (u u' : pvotes) (o o' : list C) a b : NoDup (map fst u) -> NoDup (map fst u') -> (forall p n, In (p, n) u' -> 0 <= n) ->
    (forall s x y, reach u s x y -> reach u' s x y) -> incl (candidates u') o' -> a <> b ->
    pget0 (widest_paths u o) (a, b) <= pget0 (widest_paths u' o') (a, b).
  Proof.
    intros N N' NN HR Hi Hab. pose proof (P_nonneg0 u' N' NN o' (a, b)) as H0.
    destruct (Z_le_gt_dec (pget0 (widest_paths u o) (a, b)) 0) as [Hz|Hpos]; [lia|].
    apply (wp_complete u' N' o' a b _ Hi); [lia|exact Hab|]. apply HR. apply (wp_sound u N o). lia.
  Qed.

  Theorem wp_get_perm o o' p : incl (candidates v) o -> incl (candidates v') o' ->
    pget0 (widest_paths v' o') p = pget0 (widest_paths v o) p.
  Proof.
    intros Hi Hi'. destruct p as [a b]. pose proof (pv_nodup' v v' Hnd Hp) as Hnd'.
    destruct (Pos.eq_dec a b) as [->|Hab]; [rewrite (wp_diag v Hnd Hnn), (wp_diag v' Hnd' nn_perm); reflexivity|].
    apply Z.le_antisymm.
    - apply wp_le; try assumption. intros s x y. apply reach_perm'.
    - apply wp_le; try assumption; [exact nn_perm|]. intros s x y. apply reach_perm.
  Qed.

  Lemma sscores_keys (u : pvotes) o : NoDup (map fst u) -> (forall p n, In (p, n) u -> 0 <= n) -> NoDup (map fst (sscores u o)).
  Proof.
    intros N NN. rewrite (sscores_canonical u N NN o), map_map. simpl. rewrite map_id. apply candidates_NoDup.
  Qed.

  Theorem sscores_perm o o' : incl (candidates v) o -> incl (candidates v') o' -> Permutation (sscores v o) (sscores v' o').
  Proof.
    intros Hi Hi'. pose proof (pv_nodup' v v' Hnd Hp) as Hnd'.
    rewrite (sscores_canonical v Hnd Hnn o), (sscores_canonical v' Hnd' nn_perm o').
    eapply Permutation_trans; [apply Permutation_map, (cands_perm v v' Hp)|].
    erewrite map_ext; [apply Permutation_refl|]. intros c. simpl. do 2 f_equal. apply Permutation_length.
    apply NoDup_Permutation; try (apply opponents_NoDup, P_nodup; assumption).
    intros y. rewrite (opponents_spec _ (P_nodup v Hnd o) (P_nonneg v Hnd Hnn o)).
    rewrite (opponents_spec _ (P_nodup v' Hnd' o') (P_nonneg v' Hnd' nn_perm o')).
    unfold beats. rewrite !(wp_get_perm o o' _ Hi Hi'). reflexivity.
  Qed.

  Theorem schulze_sim o o' n : incl (candidates v) o -> incl (candidates v') o' ->
    Forall2 (res_relz (sscores v o) (sscores v' o')) (schulze v o n) (schulze v' o' n).
  Proof.
    intros Hi Hi'. rewrite !schulze_unfold. apply (gnbz_sim (sscores v o) (sscores v' o')); [apply sscores_keys; assumption|apply sscores_perm; assumption].
  Qed.
  Theorem schulze_equiv o o' n : incl (candidates v) o -> incl (candidates v') o' -> res_equiv (schulze v o n) (schulze v' o' n).
  Proof.
    intros Hi Hi'. rewrite !schulze_unfold. apply (gnbz_equiv (sscores v o) (sscores v' o')); [apply sscores_keys; assumption|apply sscores_perm; assumption].
  Qed.
End SCHU.

(* ---------------------------------------------------------------- kemeny: the same answer (or the same refusal) *)
Lemma row_ext (u u' : pvotes) : (forall p, pget0 u' p = pget0 u p) -> forall x t, row u' x t = row u x t.
Proof. intros E x t. induction t as [|a t IH]; [reflexivity|]. rewrite !row_cons, E, IH. reflexivity. Qed.
Lemma kemeny_score_ext (u u' : pvotes) : (forall p, pget0 u' p = pget0 u p) -> forall q, kemeny_score u' q = kemeny_score u q.
Proof. intros E q. induction q as [|a t IH]; [reflexivity|]. rewrite !kemeny_score_cons, (row_ext u u' E), IH. reflexivity. Qed.

Lemma kemeny_max_ext (u u' : pvotes) p : Permutation (candidates u) (candidates u') -> (forall q, pget0 u' q = pget0 u q) ->
  kemeny_max u p -> kemeny_max u' p.
Proof.
  intros Pc E [P M]. split; [eapply Permutation_trans; eassumption|]. intros q Hq. rewrite !(kemeny_score_ext u u' E). apply M.
  eapply Permutation_trans; [exact Hq|apply Permutation_sym, Pc].
Qed.

Lemma kemeny_transfer (u u' : pvotes) n r : Permutation (candidates u) (candidates u') -> (forall q, pget0 u' q = pget0 u q) ->
  kemeny u n = CR_ok r -> kemeny u' n = CR_ok r.
Proof.
  intros Pc E H. destruct (kemeny_defining u n r H) as (p & Hm & H0 & -> & Hall). apply kemeny_complete.
  - apply (kemeny_max_ext u u' p Pc E Hm).
  - rewrite (kemeny_score_ext u u' E). exact H0.
  - intros q Hq. apply Hall. apply (kemeny_max_ext u' u q (Permutation_sym Pc) (fun x => eq_sym (E x)) Hq).
Qed.

Theorem kemeny_perm v v' n : NoDup (map fst v) -> Permutation v v' -> kemeny v' n = kemeny v n.
Proof.
  intros Hnd Hp. pose proof (cands_perm v v' Hp) as Pc. pose proof (pget0_perm v v' Hnd Hp) as E.
  destruct (kemeny_cases v n) as [(p & _ & H)|H].
  - rewrite H. apply (kemeny_transfer v v' n _ Pc E H).
  - destruct (kemeny_cases v' n) as [(p & _ & H')|H']; [|congruence].
    pose proof (kemeny_transfer v' v n _ (Permutation_sym Pc) (fun x => eq_sym (E x)) H') as H''. congruence.
Qed.

(* ---------------------------------------------------------------- the Smith set: the same members *)
Lemma firstn_nodup {X} k : forall l : list X, NoDup l -> NoDup (firstn k l).
Proof.
  induction k as [|k IH]; intros l N; [constructor|]. destruct l as [|x l]; [constructor|]. inversion N as [|? ? Hx Hn]; subst. simpl.
  constructor; [|apply IH, Hn]. intros H. apply Hx. rewrite <- (firstn_skipn k l). apply in_or_app. left. exact H.
Qed.

Lemma complete_small (u : pvotes) : (length (candidates u) < 2)%nat -> complete u = [].
Proof.
  unfold complete. destruct (candidates u) as [|c [|c' t]]; cbn [length flat_map app]; intros H; try lia; [reflexivity|].
  unfold ceqb. rewrite Pos.eqb_refl. reflexivity.
Qed.
Lemma smith_small (u : pvotes) t : (length (candidates u) < 2)%nat -> smith_schwartz u t = [].
Proof. intros H. unfold smith_schwartz. rewrite (complete_small u H). reflexivity. Qed.

Theorem smith_perm v v' : NoDup (map fst v) -> (forall p n, In (p, n) v -> 0 <= n) -> Permutation v v' ->
  Permutation (smith_schwartz v true) (smith_schwartz v' true).
Proof.
  intros Hnd Hnn Hp. pose proof (cands_perm v v' Hp) as Pc. pose proof (Permutation_length Pc) as Hlen.
  destruct (le_lt_dec 2 (length (candidates v))) as [H2|Hs].
  2:{ rewrite (smith_small v true Hs), (smith_small v' true ltac:(lia)). constructor. }
  assert (H2' : (2 <= length (candidates v'))%nat) by lia.
  pose proof (nn_perm v v' Hnn Hp) as Hnn'.
  destruct (smith_dominating v H2) as [Ne Dom]. destruct (smith_dominating v' H2') as [Ne' Dom'].
  assert (ND : forall u, NoDup (smith_schwartz u true)).
  { intros u. destruct (smith_schwartz_closed u true) as (-> & _). apply firstn_nodup, order_nodup. }
  apply NoDup_Permutation; try apply ND. intros x. split.
  - apply (smith_minimal v Hnn H2 _ Ne'). intros a b Ha Hb Hnb. unfold beats. rewrite <- !(pget0_perm v v' Hnd Hp).
    apply Dom'; [exact Ha|apply (cands_in v v' Hp), Hb|exact Hnb].
  - apply (smith_minimal v' Hnn' H2' _ Ne). intros a b Ha Hb Hnb. unfold beats. rewrite !(pget0_perm v v' Hnd Hp).
    apply Dom; [exact Ha|apply (cands_in v v' Hp), Hb|exact Hnb].
Qed.

(* the Schwartz routine (ties = false) is NOT order independent: two unbeaten candidates that tie each other
   (known finding C10-schwartz-order) *)
Definition schwartz_w1 : pvotes := mk_pv [(1,2,1);(2,1,1);(1,3,2);(3,1,0);(2,3,2);(3,2,0)].
Definition schwartz_w2 : pvotes := mk_pv [(2,1,1);(1,2,1);(2,3,2);(3,2,0);(1,3,2);(3,1,0)].

Definition list_perm_b (a b : pvotes) : bool :=
  Nat.eqb (length a) (length b) &&
  forallb (fun x : pair * Z => existsb (fun y : pair * Z => peqb (fst x) (fst y) && (snd x =? snd y)) b) a.

Lemma nodup_incl_perm (a b : pvotes) : NoDup a -> NoDup b -> length a = length b -> incl a b -> Permutation a b.
Proof.
  intros Na Nb L I. apply NoDup_Permutation; try assumption. intros x. split; [apply I|].
  apply (NoDup_length_incl Na); [lia|exact I].
Qed.

Lemma list_perm_b_sound a b : nodup_keys_b a = true -> nodup_keys_b b = true -> list_perm_b a b = true -> Permutation a b.
Proof.
  intros Na Nb H. unfold list_perm_b in H. apply andb_true_iff in H. destruct H as [HL HI]. apply Nat.eqb_eq in HL.
  apply nodup_incl_perm; try (apply (NoDup_map_inv fst), nodup_keys_b_sound; assumption); [exact HL|].
  intros [p n] Hx. rewrite forallb_forall in HI. specialize (HI _ Hx). apply existsb_exists in HI. destruct HI as ([q m] & Hy & E).
  simpl in E. apply andb_true_iff in E. destruct E as [E1 E2]. apply peqb_eq in E1. apply Z.eqb_eq in E2. subst. exact Hy.
Qed.

Theorem schwartz_order_refuted : exists v v', NoDup (map fst v) /\ (forall p n, In (p, n) v -> 0 <= n) /\ Permutation v v' /\
  exists c, In c (smith_schwartz v false) /\ ~ In c (smith_schwartz v' false).
Proof.
  exists schwartz_w1, schwartz_w2. split; [apply nodup_keys_b_sound; vm_compute; reflexivity|].
  split; [apply nonneg_b_sound; vm_compute; reflexivity|]. split; [apply list_perm_b_sound; vm_compute; reflexivity|].
  exists 1%positive. vm_compute. split; [left; reflexivity|]. intros [H|[]]. discriminate.
Qed.

(* ---------------------------------------------------------------- ranked pairs: the stable double sort *)
Lemma zeqv_eqb a b : eqv zle_bool a b = (a =? b).
Proof.
  destruct (a =? b) eqn:E.
  - apply zeqv_eq. apply Z.eqb_eq. exact E.
  - apply not_true_iff_false. intros H. apply zeqv_eq in H. apply Z.eqb_neq in E. contradiction.
Qed.

Section LEX.
  Context {X : Type}.

  Lemma SS_filter (R : X -> X -> Prop) (f : X -> bool) l : StronglySorted R l -> StronglySorted R (filter f l).
  Proof.
    induction 1 as [|x t Hs IH Hall]; simpl; [constructor|]. destruct (f x); [|exact IH]. constructor; [exact IH|].
    apply Forall_forall. intros y Hy. apply filter_In in Hy. rewrite Forall_forall in Hall. apply Hall, Hy.
  Qed.

  Lemma tag_filter (K : X -> Z) k (L : list (X * Z)) : (forall it, In it L -> snd it = K (fst it)) ->
    map fst (filter (f_level zle_bool k) L) = filter (fun x => K x =? k) (map fst L).
  Proof.
    induction L as [|[x kx] L IH]; intros H; [reflexivity|]. cbn [filter map fst]. unfold f_level at 1. cbn [snd].
    rewrite zeqv_eqb. pose proof (H (x, kx) (or_introl eq_refl)) as E. simpl in E. subst kx.
    destruct (K x =? k); cbn [map fst]; rewrite IH; try reflexivity; intros it Hit; apply H; right; exact Hit.
  Qed.

  (* stability: the items with a given key keep their relative order *)
  Lemma sort_by_stable (K : X -> Z) k m : filter (fun x => K x =? k) (sort_desc_by K m) = filter (fun x => K x =? k) m.
  Proof.
    unfold sort_desc_by. set (tag := map (fun x => (x, K x)) m).
    assert (Ht : forall it, In it tag -> snd it = K (fst it)).
    { intros it Hit. unfold tag in Hit. apply in_map_iff in Hit. destruct Hit as (y & <- & _). reflexivity. }
    rewrite <- (tag_filter K k (sort_desc zle_bool tag)).
    2:{ intros it Hit. apply Ht. apply (Permutation_in _ (sort_desc_perm zle_bool tag)). exact Hit. }
    rewrite (sort_desc_filter_level zle_bool zle_trans k tag), (tag_filter K k tag Ht).
    unfold tag. rewrite map_map. simpl. rewrite map_id. reflexivity.
  Qed.

  Lemma sort_desc_by_ext (K K' : X -> Z) l : (forall x, K x = K' x) -> sort_desc_by K l = sort_desc_by K' l.
  Proof. intros E. unfold sort_desc_by. rewrite (map_ext (fun x => (x, K x)) (fun x => (x, K' x))); [reflexivity|]. intros x. rewrite E. reflexivity. Qed.

  Variables K1 K2 : X -> Z.
  Definition lexge (p q : X) : Prop := K2 q < K2 p \/ (K2 q = K2 p /\ K1 q <= K1 p).

  Lemma lex_sorted R : StronglySorted (fun p q => K2 q <= K2 p) R ->
    (forall k, StronglySorted (fun p q => K1 q <= K1 p) (filter (fun x => K2 x =? k) R)) -> StronglySorted lexge R.
  Proof.
    induction 1 as [|x t Hs IH Hall]; intros HF; constructor.
    - apply IH. intros k. specialize (HF k). simpl in HF. destruct (K2 x =? k); [inversion HF; assumption|exact HF].
    - apply Forall_forall. intros q Hq. rewrite Forall_forall in Hall. specialize (Hall q Hq). simpl in Hall.
      destruct (Z.eq_dec (K2 q) (K2 x)) as [E|NE]; [right|left; lia]. split; [exact E|].
      specialize (HF (K2 x)). simpl in HF. rewrite Z.eqb_refl in HF. inversion HF as [|? ? _ Hf]; subst. rewrite Forall_forall in Hf. apply Hf.
      apply filter_In. split; [exact Hq|]. apply Z.eqb_eq. exact E.
  Qed.

  (* sorted(key = votes) then sorted(key = score), both stable: the list is sorted by (score, votes) *)
  Lemma double_sort_lex l : StronglySorted lexge (sort_desc_by K2 (sort_desc_by K1 l)).
  Proof. apply lex_sorted; [apply sort_desc_by_sorted|]. intros k. rewrite sort_by_stable. apply SS_filter, sort_desc_by_sorted. Qed.

  Lemma sorted_unique (R : X -> X -> Prop) : forall a b, (forall x y, In x a -> In y a -> R x y -> R y x -> x = y) ->
    StronglySorted R a -> StronglySorted R b -> Permutation a b -> a = b.
  Proof.
    induction a as [|x t IH]; intros b AS Sa Sb P.
    - apply Permutation_nil in P. subst; reflexivity.
    - destruct b as [|y t']; [apply Permutation_sym, Permutation_nil in P; discriminate|].
      inversion Sa as [|? ? Sa' Fa]; subst. inversion Sb as [|? ? Sb' Fb]; subst.
      assert (Exy : x = y).
      { assert (Hx : In x (y :: t')) by (apply (Permutation_in _ P); left; reflexivity).
        assert (Hy : In y (x :: t)) by (apply (Permutation_in _ (Permutation_sym P)); left; reflexivity).
        destruct Hx as [->|Hx]; [reflexivity|]. destruct Hy as [->|Hy]; [reflexivity|].
        rewrite Forall_forall in Fa, Fb. apply AS; [left; reflexivity|right; exact Hy|apply Fa, Hy|apply Fb, Hx]. }
      subst y. f_equal. apply IH; try assumption; [|apply (Permutation_cons_inv P)].
      intros x' y' Hx' Hy'. apply AS; right; assumption.
  Qed.

  Lemma double_sort_perm l l' : Permutation l l' -> (forall x y, In x l -> In y l -> K1 x = K1 y -> K2 x = K2 y -> x = y) ->
    sort_desc_by K2 (sort_desc_by K1 l) = sort_desc_by K2 (sort_desc_by K1 l').
  Proof.
    intros P Inj.
    assert (Pl : forall m, Permutation (sort_desc_by K2 (sort_desc_by K1 m)) m).
    { intros m. eapply Permutation_trans; apply sort_desc_by_perm. }
    apply (sorted_unique lexge); try apply double_sort_lex.
    - intros x y Hx Hy [A|[A1 A2]] [B|[B1 B2]]; try lia. apply Inj; try lia; apply (Permutation_in _ (Pl l)); assumption.
    - eapply Permutation_trans; [apply Pl|]. eapply Permutation_trans; [exact P|]. apply Permutation_sym, Pl.
  Qed.
End LEX.

Fixpoint zz_nodup_b (l : list (Z * Z)) : bool :=
  match l with
  | [] => true
  | x :: t => negb (existsb (fun y => (fst x =? fst y) && (snd x =? snd y)) t) && zz_nodup_b t
  end.

Lemma zz_nodup_b_sound l : zz_nodup_b l = true -> NoDup l.
Proof.
  induction l as [|x t IH]; intros H; [constructor|]. simpl in H. apply andb_true_iff in H. destruct H as [H1 H2].
  constructor; [|apply IH, H2]. intros Hin. apply negb_true_iff in H1. apply not_true_iff_false in H1. apply H1.
  apply existsb_exists. exists x. split; [exact Hin|]. rewrite !Z.eqb_refl. reflexivity.
Qed.

Lemma NoDup_map_inj_in {X Y} (f : X -> Y) l : NoDup (map f l) -> forall x y, In x l -> In y l -> f x = f y -> x = y.
Proof.
  induction l as [|a l IH]; intros N x y Hx Hy E; [destruct Hx|]. simpl in N. inversion N as [|? ? Ha Hn]; subst.
  destruct Hx as [->|Hx], Hy as [->|Hy]; try reflexivity.
  - exfalso. apply Ha. rewrite E. apply in_map, Hy.
  - exfalso. apply Ha. rewrite <- E. apply in_map, Hx.
  - apply IH; assumption.
Qed.

(* the sort keys (strength under the scorer, votes for the pair) of the ordered pairs are pairwise distinct -
   the profiles the property quantifies ranked pairs over *)
Definition rp_distinct_b (s : scorer) (v : pvotes) : bool :=
  zz_nodup_b (map (fun p => (pget0 (score_pairs s (complete v)) p, pget0 (complete v) p)) (map fst (complete v))).

Theorem rp_pairs_perm s v v' : NoDup (map fst v) -> Permutation v v' -> rp_distinct_b s v = true -> rp_pairs s v' = rp_pairs s v.
Proof.
  intros Hnd Hp Hd. unfold rp_pairs. cbv zeta.
  pose proof (complete_perm v v' Hnd Hp) as Pc. pose proof (complete_keys_nodup v) as Nc.
  assert (Ns : NoDup (map fst (score_pairs s (complete v)))) by (rewrite score_pairs_keys; exact Nc).
  rewrite (sort_desc_by_ext (fun p => pget0 (score_pairs s (complete v')) p) (fun p => pget0 (score_pairs s (complete v)) p)).
  2:{ intros p. apply (pget0_perm _ _ Ns (score_pairs_perm s _ _ Nc Pc)). }
  rewrite (sort_desc_by_ext (fun p => pget0 (complete v') p) (fun p => pget0 (complete v) p)).
  2:{ intros p. apply (pget0_perm _ _ Nc Pc). }
  symmetry. apply double_sort_perm; [apply Permutation_map, Pc|].
  intros x y Hx Hy E1 E2. unfold rp_distinct_b in Hd. apply zz_nodup_b_sound in Hd.
  apply (NoDup_map_inj_in _ _ Hd x y Hx Hy). simpl. congruence.
Qed.

Theorem ranked_pairs_perm s v v' n : NoDup (map fst v) -> Permutation v v' -> rp_distinct_b s v = true ->
  ranked_pairs s v' n = ranked_pairs s v n.
Proof. intros Hnd Hp Hd. rewrite !ranked_pairs_unfold, (rp_pairs_perm s v v' Hnd Hp Hd). reflexivity. Qed.

Definition rp_ok_v : pvotes := mk_pv [(1,2,7);(2,1,3);(2,3,6);(3,2,4);(3,1,8);(1,3,2)].
Example rp_distinct_example : rp_distinct_b WinningVotes rp_ok_v = true /\ rp_distinct_b Margins rp_ok_v = true /\
  rp_distinct_b PairwiseOpposition rp_ok_v = true /\ ranked_pairs WinningVotes rp_ok_v 3 = CR_ok [Cand 3%positive; Cand 1%positive; Cand 2%positive].
Proof. vm_compute. repeat split; reflexivity. Qed.

(* with equal strengths the locking order - hence the winner - follows the insertion order: a three-cycle 2:1 *)
Definition rp_w1 : pvotes := mk_pv [(1,2,2);(2,1,1);(2,3,2);(3,2,1);(3,1,2);(1,3,1)].
Definition rp_w2 : pvotes := mk_pv [(2,3,2);(3,2,1);(3,1,2);(1,3,1);(1,2,2);(2,1,1)].

Theorem ranked_pairs_order_refuted : exists v v', NoDup (map fst v) /\ (forall p n, In (p, n) v -> 0 <= n) /\ Permutation v v' /\
  forall s, exists c c', c <> c' /\ ranked_pairs s v 1 = CR_ok [Cand c] /\ ranked_pairs s v' 1 = CR_ok [Cand c'].
Proof.
  exists rp_w1, rp_w2. split; [apply nodup_keys_b_sound; vm_compute; reflexivity|].
  split; [apply nonneg_b_sound; vm_compute; reflexivity|]. split; [apply list_perm_b_sound; vm_compute; reflexivity|].
  intros s. exists 1%positive, 2%positive. split; [discriminate|]. destruct s; vm_compute; split; reflexivity.
Qed.
