(* Whole-quota stage (cut at the caps) and remainder stage of QuotaDistributor / LargestRemainder
   (Model/QuotaDistributor.v). *)
From Coq Require Import ZArith QArith Qround List Bool Lia Permutation.
From VL Require Import Prelude.PyDict Model.GetNBest Model.Quota Model.QuotaDistributor
     Proofs.Dict_proofs Proofs.GetNBest_proofs Proofs.QOrd.
Import ListNotations.
Open Scope Z_scope.

Lemma py_trunc_floor x : (0 <= x)%Q -> py_trunc x = Qfloor x.
Proof.
  intros H. unfold py_trunc, Qfloor. destruct x as [n d]. simpl.
  apply Z.quot_div_nonneg; [|lia]. unfold Qle in H. simpl in H. lia.
Qed.

Lemma nodup_app_l {X} (a b : list X) : NoDup (a ++ b) -> NoDup a.
Proof.
  induction a as [|x a IH]; simpl; intros H; [constructor|].
  inversion H as [|? ? Hx Hn]; subst. constructor; [|apply IH; exact Hn].
  intros Hin. apply Hx. apply in_or_app. left. exact Hin.
Qed.

Section QDP.
  Variable quota : Q -> Z -> Q.
  Variable accept_equal : bool.
  Variable pol : policy.

  Notation fulfills := (fulfills accept_equal).

  (* seats a party gets from whole quotas: int(v/q) - prev when positive *)
  Definition whole_add (q : Q) (prev : list (C * Z)) (c : C) (v : Q) : Z :=
    if fulfills v q then
      let add := py_trunc (v / q)%Q - dget_or prev c 0 in
      if 0 <? add then add else 0
    else 0.

  Definition no_overshoot (votes : list (C * Q)) (q : Q) (n : Z) (prev caps : list (C * Z)) : Prop :=
    forall c v, In (c, v) votes -> fulfills v q = true ->
      0 < py_trunc (v / q)%Q - dget_or prev c 0 -> py_trunc (v / q)%Q <= dget_or caps c n.

  (* seats a party gets from whole quotas cut at its cap: min(int(v/q), cap) - prev when positive *)
  Definition cap_add (q : Q) (prev caps : list (C * Z)) (c : C) (v : Q) : Z :=
    if fulfills v q then
      let add := cap_whole caps c (py_trunc (v / q)%Q) - dget_or prev c 0 in
      if 0 <? add then add else 0
    else 0.

  Lemma cap_add_nonneg q prev caps c v : 0 <= cap_add q prev caps c v.
  Proof.
    unfold cap_add. destruct (fulfills v q); [|lia].
    destruct (0 <? _) eqn:E; [apply Z.ltb_lt in E; lia|lia].
  Qed.

  (* where no whole-quota count exceeds a cap the cap changes nothing (the default cap n of the pinned tree included) *)
  Lemma cap_add_no_overshoot votes q n prev caps c v :
    no_overshoot votes q n prev caps -> In (c, v) votes -> cap_add q prev caps c v = whole_add q prev c v.
  Proof.
    intros Hno Hin. unfold cap_add, whole_add, cap_whole. destruct (fulfills v q) eqn:Ef; [|reflexivity].
    destruct (dget caps c) as [m|] eqn:Ec; [|reflexivity].
    destruct (0 <? py_trunc (v / q) - dget_or prev c 0) eqn:Ea.
    - apply Z.ltb_lt in Ea. specialize (Hno c v Hin Ef Ea). unfold dget_or in Hno. rewrite Ec in Hno.
      rewrite Z.min_l by exact Hno. apply Z.ltb_lt in Ea. rewrite Ea. reflexivity.
    - apply Z.ltb_ge in Ea. destruct (0 <? Z.min (py_trunc (v / q)) m - dget_or prev c 0) eqn:Eb; [|reflexivity].
      apply Z.ltb_lt in Eb. lia.
  Qed.

  Lemma in_dset_inv (sel : list (C * Z)) c x c' s :
    In (c', s) (dset sel c x) -> In (c', s) sel \/ (c' = c /\ s = x).
  Proof.
    induction sel as [|[k0 v0] sel IHs]; simpl; intros Hin.
    - destruct Hin as [H|[]]. injection H as <- <-. right. split; reflexivity.
    - destruct (ceqb c k0) eqn:E.
      + apply ceqb_eq in E. subst k0. destruct Hin as [H|H].
        * injection H as <- <-. right. split; reflexivity.
        * left. right. exact H.
      + destruct Hin as [H|H]; [left; left; exact H|].
        destruct (IHs H) as [H1|H1]; [left; right; exact H1|right; exact H1].
  Qed.

  (* the loop over the votes, for every input with distinct parties: each party holds cap_add seats *)
  Lemma scan_spec votes q prev caps : forall sel,
    NoDup (map fst votes) ->
    (forall c, In c (map fst votes) -> dget_or sel c 0 = 0) ->
    (forall c v, In (c, v) votes -> dget_or (scan accept_equal votes q prev caps sel) c 0 = cap_add q prev caps c v) /\
    (forall c, ~ In c (map fst votes) -> dget_or (scan accept_equal votes q prev caps sel) c 0 = dget_or sel c 0) /\
    (forall c s, In (c, s) (scan accept_equal votes q prev caps sel) -> In (c, s) sel \/ (0 < s /\ exists v, In (c, v) votes)).
  Proof.
    induction votes as [|[c v] t IH]; intros sel Hnd Hz; cbn [scan].
    - split; [intros ? ? []|]. split; [reflexivity|]. intros; left; assumption.
    - inversion Hnd as [|? ? Hc Hnd']; subst.
      set (add := cap_whole caps c (py_trunc (v / q)%Q) - dget_or prev c 0).
      set (sel1 := if fulfills v q then if 0 <? add then dset sel c add else sel else sel).
      assert (Hstep : dget_or sel1 c 0 = cap_add q prev caps c v /\
        (forall c', c' <> c -> dget_or sel1 c' 0 = dget_or sel c' 0) /\
        (forall c' s, In (c', s) sel1 -> In (c', s) sel \/ (0 < s /\ c' = c))).
      { unfold sel1, cap_add. fold add. destruct (fulfills v q) eqn:Ef.
        - destruct (0 <? add) eqn:Ea.
          + split; [rewrite dget_or_dset, ceqb_refl; reflexivity|]. split.
            * intros c' Hne. rewrite dget_or_dset. apply ceqb_neq in Hne. rewrite Hne. reflexivity.
            * intros c' s Hin. apply Z.ltb_lt in Ea. destruct (in_dset_inv _ _ _ _ _ Hin) as [H|[-> ->]]; [left; exact H|].
              right. split; [exact Ea|reflexivity].
          + split; [apply Hz; left; reflexivity|]. split; [reflexivity|]. intros; left; assumption.
        - split; [apply Hz; left; reflexivity|]. split; [reflexivity|]. intros; left; assumption. }
      destruct Hstep as (Hc1 & Hother & Hin1).
      destruct (IH sel1 Hnd') as (Hv & Hn & Hin').
      { intros c' Hc'. rewrite Hother; [apply Hz; right; exact Hc'|]. intros ->. exact (Hc Hc'). }
      split; [|split].
      + intros c' v' [H|H].
        * injection H as <- <-. rewrite Hn; [exact Hc1|exact Hc].
        * apply Hv. exact H.
      + intros c' Hc'. rewrite Hn; [|intros H; apply Hc'; right; exact H].
        apply Hother. intros ->. apply Hc'. left. reflexivity.
      + intros c' s Hin. destruct (Hin' c' s Hin) as [H|(Hs0 & v' & Hv')].
        * destruct (Hin1 c' s H) as [H2|(H2 & ->)]; [left; exact H2|].
          right. split; [exact H2|]. exists v. left. reflexivity.
        * right. split; [exact Hs0|]. exists v'. right. exact Hv'.
  Qed.

  Definition plain (sel : list (C * Z)) : list (key * Z) := map (fun kv => (K (fst kv), snd kv)) sel.

  (* the whole-quota stage and the three over-award policies, on the domain
     where no party's whole quotas exceed its cap *)
  (* the whole-quota stage cut at the caps and the three over-award policies, for every input with a quota
     other than zero and distinct parties *)
  Theorem qd_capped_quotas votes n prev caps :
    let q := quota (qsumv votes) n in
    ~ (q == 0)%Q -> NoDup (map fst votes) ->
    exists sel,
      (forall c v, In (c, v) votes -> dget_or sel c 0 = cap_add q prev caps c v) /\
      (forall c, ~ In c (map fst votes) -> dget_or sel c 0 = 0) /\
      (forall c s, In (c, s) sel -> 0 < s /\ In c (map fst votes)) /\
      qd_evaluate quota accept_equal pol votes n prev caps =
        (if n <? zsumv sel + zsumv prev then
           match pol with
           | PIgnore => QD_ok (plain sel)
           | PError => QD_vse
           | PSubtract => subtract (Z.to_nat (zsumv sel + zsumv prev - n)) votes q prev sel
                                   (zsumv sel + zsumv prev - n)
           end
         else QD_ok (plain sel)).
  Proof.
    intros q Hq Hnd. unfold qd_evaluate. fold q.
    assert (Qeq_bool q 0 = false) as Hq0.
    { apply not_true_iff_false. intros H. apply Hq. apply Qeq_bool_iff. exact H. }
    rewrite Hq0. cbn [andb].
    destruct (scan_spec votes q prev caps [] Hnd) as (Hv & Hn & Hin).
    { intros; reflexivity. }
    exists (scan accept_equal votes q prev caps []). split; [exact Hv|]. split; [exact Hn|]. split.
    - intros c s H. destruct (Hin c s H) as [[]|[H0 (v & Hv')]]. split; [exact H0|].
      apply in_map_iff. exists (c, v). split; [reflexivity|exact Hv'].
    - reflexivity.
  Qed.

  (* the whole-quota stage and the three over-award policies, on the domain
     where no party's whole quotas exceed its cap *)
  Theorem qd_whole_quotas votes n prev caps :
    let q := quota (qsumv votes) n in
    ~ (q == 0)%Q -> NoDup (map fst votes) -> no_overshoot votes q n prev caps ->
    exists sel,
      (forall c v, In (c, v) votes -> dget_or sel c 0 = whole_add q prev c v) /\
      (forall c, ~ In c (map fst votes) -> dget_or sel c 0 = 0) /\
      (forall c s, In (c, s) sel -> 0 < s) /\
      qd_evaluate quota accept_equal pol votes n prev caps =
        (if n <? zsumv sel + zsumv prev then
           match pol with
           | PIgnore => QD_ok (plain sel)
           | PError => QD_vse
           | PSubtract => subtract (Z.to_nat (zsumv sel + zsumv prev - n)) votes q prev sel
                                   (zsumv sel + zsumv prev - n)
           end
         else QD_ok (plain sel)).
  Proof.
    intros q Hq Hnd Hno.
    destruct (qd_capped_quotas votes n prev caps Hq Hnd) as (sel & Hv & Hn & Hin & He). fold q in Hv, He.
    exists sel. split; [|split; [exact Hn|split; [intros c s H; apply (Hin c s H)|exact He]]].
    intros c v Hcv. rewrite (Hv c v Hcv). apply (cap_add_no_overshoot votes q n prev caps c v Hno Hcv).
  Qed.

  Lemma plain_no_tie sel :
    existsb (fun kv : key * Z => match fst kv with KT _ => true | _ => false end) (plain sel) = false.
  Proof. unfold plain. induction sel as [|x t IH]; simpl; [reflexivity|exact IH]. Qed.
  Lemma plain_flat sel :
    flat_map (fun kv : key * Z => match fst kv with K c => [(c, snd kv)] | _ => [] end) (plain sel) = sel.
  Proof. unfold plain. induction sel as [|[c s] t IH]; simpl; [reflexivity|]. rewrite IH. reflexivity. Qed.

  (* the remainder stage of LargestRemainder is get_n_best on the exact remainders *)
  Definition remainders (votes : list (C * Q)) (q : Q) (gained caps : list (C * Z)) : list (C * Q) :=
    flat_map (fun cv : C * Q =>
      let (c, v) := cv in
      match dget caps c with
      | Some m => if dget_or gained c 0 <? m then [(c, (v / q - inject_Z (dget_or gained c 0%Z))%Q)] else []
      | None => [(c, (v / q - inject_Z (dget_or gained c 0%Z))%Q)]
      end) votes.

  Definition seat_best (qe : list (key * Z)) (best : list (res C)) : list (key * Z) :=
    fold_left (fun d r => match r with Cand c => kincr d (K c) | TieR l => kincr d (KT l) end) best qe.

  Theorem lr_structure votes n prev caps sel :
    let q := quota (qsumv votes) n in
    ~ (q == 0)%Q ->
    qd_evaluate quota accept_equal pol votes n prev caps = QD_ok (plain sel) ->
    let gained := add_dict sel prev in
    let nrem := n - zsumv gained in
    lr_evaluate quota accept_equal pol votes n prev caps =
      if nrem <=? 0 then LR_ok (plain sel)
      else LR_ok (seat_best (plain sel)
                   (get_n_best Qle_bool (remainders votes q gained caps) (Z.to_nat nrem))).
  Proof.
    intros q Hq Hqd gained nrem. unfold lr_evaluate. rewrite Hqd.
    rewrite plain_no_tie, plain_flat. fold q. fold gained. fold nrem.
    assert (Qeq_bool q 0 = false) as ->.
    { apply not_true_iff_false. intros H. apply Hq. apply Qeq_bool_iff. exact H. }
    reflexivity.
  Qed.

  (* remainders have distinct keys, so the C09 theorems apply to the remainder stage *)
  Lemma remainders_nodup votes q gained caps :
    NoDup (map fst votes) -> NoDup (map fst (remainders votes q gained caps)).
  Proof.
    unfold remainders. induction votes as [|[c v] t IH]; simpl; intros H; [constructor|].
    inversion H as [|? ? Hc Hn]; subst. specialize (IH Hn). rewrite map_app.
    assert (Hsub : forall k, In k (map fst (flat_map (fun cv : C * Q =>
      let (c, v) := cv in
      match dget caps c with
      | Some m => if dget_or gained c 0 <? m then [(c, (v / q - inject_Z (dget_or gained c 0%Z))%Q)] else []
      | None => [(c, (v / q - inject_Z (dget_or gained c 0%Z))%Q)]
      end) t)) -> In k (map fst t)).
    { intros k Hk. apply in_map_iff in Hk. destruct Hk as (y & <- & Hy). apply in_flat_map in Hy.
      destruct Hy as ([c' v'] & Hin & Hy). apply in_map_iff. exists (c', v'). split; [|exact Hin].
      destruct (dget caps c'); [destruct (_ <? _); [|destruct Hy]|]; destruct Hy as [<-|[]]; reflexivity. }
    destruct (dget caps c); [destruct (_ <? _)|]; simpl; try exact IH;
      (constructor; [intros Hk; apply Hc, Hsub, Hk|exact IH]).
  Qed.

  (* every party receives at most one remainder seat (a tie object aside) *)
  Theorem lr_at_most_one votes q gained caps nrem : (1 <= nrem)%nat -> NoDup (map fst votes) ->
    NoDup (flat_map (fun r => match r with Cand c => [c] | TieR _ => [] end)
             (get_n_best Qle_bool (remainders votes q gained caps) nrem)).
  Proof.
    intros Hn Hnd. pose proof (remainders_nodup votes q gained caps Hnd) as Hr.
    set (rems := remainders votes q gained caps) in *.
    destruct (get_n_best_spec Qle_bool Qle_bool_total Qle_bool_trans rems nrem Hn) as [Hsmall Hbig].
    assert (Hcands : forall l : list (C * Q), flat_map (fun r => match r with Cand c => [c] | TieR _ => [] end)
               (map (@cand_of C Q) l) = map fst l).
    { induction l as [|x l IHl]; simpl; [reflexivity|]. rewrite IHl. reflexivity. }
    assert (Hrep : forall T k, flat_map (fun r : res C => match r with Cand c => [c] | TieR _ => [] end)
               (repeat (TieR T) k) = []).
    { intros T k. induction k; simpl; [reflexivity|assumption]. }
    destruct (Nat.le_gt_cases (length rems) nrem) as [Hle|Hgt].
    - destruct (Hsmall Hle) as (s & Hp & _ & ->). rewrite Hcands.
      eapply Permutation_NoDup; [apply Permutation_map, Permutation_sym, Hp|exact Hr].
    - destruct (Hbig Hgt) as (above & level & below & thr & Hp & _ & _ & _ & _ & Hpos & Heq & Htie).
      assert (Hnd3 : NoDup (map fst (above ++ level ++ below))).
      { eapply Permutation_NoDup; [apply Permutation_map, Permutation_sym, Hp|exact Hr]. }
      destruct (Nat.eq_dec (length above + length level) nrem) as [He|Hne].
      + rewrite (Heq He), Hcands. rewrite app_assoc, map_app in Hnd3.
        apply nodup_app_l in Hnd3. exact Hnd3.
      + rewrite Htie by lia. rewrite flat_map_app, Hcands, Hrep, app_nil_r.
        rewrite map_app in Hnd3. apply nodup_app_l in Hnd3. exact Hnd3.
  Qed.

  (* ---- totals *)
  Definition ksum (d : list (key * Z)) : Z := fold_right (fun kv acc => snd kv + acc) 0 d.

  Lemma ksum_kincr d k : ksum (kincr d k) = ksum d + 1.
  Proof.
    induction d as [|[k' s] t IH]; simpl; [lia|].
    destruct (key_eqb k k'); simpl; lia.
  Qed.

  Lemma ksum_seat_best best : forall qe, ksum (seat_best qe best) = ksum qe + Z.of_nat (length best).
  Proof.
    unfold seat_best. induction best as [|r best IH]; intros qe; simpl fold_left; [simpl; lia|].
    rewrite IH. destruct r; rewrite ksum_kincr; simpl length; lia.
  Qed.

  Lemma get_n_best_length (rems : list (C * Q)) k : (1 <= k)%nat -> (k <= length rems)%nat ->
    length (get_n_best Qle_bool rems k) = k.
  Proof.
    intros Hk Hle.
    destruct (get_n_best_spec Qle_bool Qle_bool_total Qle_bool_trans rems k Hk) as [Hsmall Hbig].
    destruct (Nat.eq_dec (length rems) k) as [He|Hne].
    - destruct Hsmall as (s & Hp & _ & ->); [lia|]. rewrite map_length.
      rewrite (Permutation_length Hp). exact He.
    - destruct Hbig as (above & level & below & thr & Hp & _ & _ & _ & _ & Hpos & Heq & Htie); [lia|].
      destruct (Nat.eq_dec (length above + length level) k) as [He2|Hne2].
      + rewrite (Heq He2), map_length, app_length. exact He2.
      + rewrite Htie by lia. rewrite app_length, map_length, repeat_length. lia.
  Qed.

  (* LargestRemainder fills the house exactly when the open seats do not outnumber the eligible parties *)
  Theorem lr_total votes q gained caps sel nrem :
    0 < nrem -> (Z.to_nat nrem <= length (remainders votes q gained caps))%nat ->
    ksum (seat_best (plain sel) (get_n_best Qle_bool (remainders votes q gained caps) (Z.to_nat nrem)))
    = ksum (plain sel) + nrem.
  Proof.
    intros Hn Hle. rewrite ksum_seat_best, get_n_best_length; [lia|lia|exact Hle].
  Qed.
End QDP.
