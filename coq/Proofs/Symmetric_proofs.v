(* C10, the closing sentence of the property - "two candidates in perfectly symmetric positions are either both elected,
   both not elected, or reported as tied" - at model level, by composing the two families of theorems:
     order independence      (Proofs/CondorcetOrder_proofs.v, QDOrder_proofs.v, STVOrder_proofs.v, HAPerm_proofs.v)
     renaming equivariance   (Proofs/CondorcetRename_proofs.v, QDRename_proofs.v, STVRename_proofs.v, HARename_proofs.v).
   A symmetry of an input is an involution [t] of the candidates (e.g. the transposition of two names) whose renamed
   input is the same dictionary in another insertion order.  Then  eval input ~ eval (rename t input) = rename t (eval input),
   so the outcome is invariant under [t]: [a] and [t a] are elected alike, tied alike, and hold the same seats. *)
From Coq Require Import ZArith QArith List Bool Arith Lia Permutation.
From VL Require Import Prelude.PyDict Model.GetNBest Model.Condorcet Model.HighestAverages Model.Quota Model.QuotaDistributor Model.STV
     Proofs.Dict_proofs Proofs.GetNBest_proofs Proofs.Order_proofs Proofs.Divisor_proofs Proofs.HAPerm_proofs Proofs.HARename_proofs
     Proofs.Equivariant Proofs.GnbSim_proofs Proofs.CondorcetOrder_proofs Proofs.CondorcetRename_proofs
     Proofs.QDOrder_proofs Proofs.QDRename_proofs Proofs.STVOrder_proofs Proofs.STVRename_proofs.
Import ListNotations.
Close Scope Q_scope.
Close Scope Z_scope.
Open Scope nat_scope.

Section SYM.
  Variable t : C -> C.
  Hypothesis t_inv : forall c, t (t c) = c.

  Lemma t_inj : forall a b, t a = t b -> a = b.
  Proof. intros a b H. rewrite <- (t_inv a), <- (t_inv b), H. reflexivity. Qed.

  Definition tied_in (a : C) (r : list (res C)) : Prop := exists T, In (TieR T) r /\ In a T.

  Lemma in_cand_ren r c : In (Cand c) (map (ren_res t) r) <-> In (Cand (t c)) r.
  Proof.
    rewrite in_map_iff. split.
    - intros ([c0|T] & E & Hi); [|discriminate]. cbn [ren_res] in E. injection E as <-. rewrite t_inv. exact Hi.
    - intros Hi. exists (Cand (t c)). split; [cbn [ren_res]; rewrite t_inv; reflexivity|exact Hi].
  Qed.
  Lemma tied_in_ren r c : tied_in c (map (ren_res t) r) <-> tied_in (t c) r.
  Proof.
    unfold tied_in. split.
    - intros (T' & Hi & Hc). apply in_map_iff in Hi. destruct Hi as ([c0|T] & E & Hi); [discriminate|]. cbn [ren_res] in E. injection E as <-.
      exists T. split; [exact Hi|]. apply in_map_iff in Hc. destruct Hc as (x & <- & Hx). rewrite t_inv. exact Hx.
    - intros (T & Hi & Hc). exists (map t T). split; [apply in_map_iff; exists (TieR T); split; [reflexivity|exact Hi]|].
      apply in_map_iff. exists (t c). split; [apply t_inv|exact Hc].
  Qed.

  (* a result that is equivalent to its own image: invariant *)
  Lemma sym_res r : res_equiv r (map (ren_res t) r) ->
    forall a, (In (Cand a) r <-> In (Cand (t a)) r) /\ (tied_in a r <-> tied_in (t a) r).
  Proof.
    intros H a. split.
    - rewrite <- in_cand_ren. apply (proj2 H).
    - rewrite <- tied_in_ren. apply (res_equiv_tied _ _ a H).
  Qed.

  (* ---- the Condorcet family: [v] is symmetric under [t] *)
  Definition sym_pv (v : pvotes) : Prop := NoDup (map fst v) /\ Permutation v (renp t v).

  Theorem copeland_symmetric v so n : sym_pv v -> forall a,
    (In (Cand a) (copeland so v n) <-> In (Cand (t a)) (copeland so v n)) /\ (tied_in a (copeland so v n) <-> tied_in (t a) (copeland so v n)).
  Proof. intros [Hn Hp]. apply sym_res. rewrite <- (copeland_ren t t_inj). apply (copeland_equiv v (renp t v) Hn Hp). Qed.

  Theorem minimax_symmetric v s n : sym_pv v -> forall a,
    (In (Cand a) (minimax s v n) <-> In (Cand (t a)) (minimax s v n)) /\ (tied_in a (minimax s v n) <-> tied_in (t a) (minimax s v n)).
  Proof. intros [Hn Hp]. apply sym_res. rewrite <- (minimax_ren t t_inj). apply (minimax_equiv v (renp t v) Hn Hp). Qed.

  Theorem schulze_symmetric v order n : sym_pv v -> (forall p k, In (p, k) v -> (0 <= k)%Z) -> incl (candidates v) order -> forall a,
    (In (Cand a) (schulze v order n) <-> In (Cand (t a)) (schulze v order n)) /\ (tied_in a (schulze v order n) <-> tied_in (t a) (schulze v order n)).
  Proof.
    intros [Hn Hp] Hnn Hi. apply sym_res. rewrite <- (schulze_ren t t_inj).
    apply (schulze_equiv v (renp t v) Hn Hnn Hp order (map t order) n Hi).
    rewrite (candidates_ren t t_inj). intros x Hx. apply in_map_iff in Hx. destruct Hx as (c & <- & Hc). apply in_map, Hi, Hc.
  Qed.

  (* a candidate with a symmetric twin is never THE Condorcet winner; the Kemeny answer is invariant *)
  Theorem condorcet_winner_symmetric v : sym_pv v -> forall c, In c (condorcet_winner v) -> t c = c.
  Proof.
    intros [Hn Hp] c Hc. pose proof (condorcet_winner_perm v (renp t v) Hn Hp) as E. rewrite (condorcet_winner_ren t t_inj) in E.
    unfold condorcet_winner in *. destruct (find _ (beat_counts v)) as [[w k]|]; [|destruct Hc].
    cbn [map] in E. injection E as E. destruct Hc as [<-|[]]. exact E.
  Qed.
  Theorem kemeny_symmetric v n : sym_pv v -> ren_cres t (kemeny v n) = kemeny v n.
  Proof. intros [Hn Hp]. rewrite <- (kemeny_ren t t_inj). apply (kemeny_perm v (renp t v) n Hn Hp). Qed.

  Theorem smith_symmetric v : sym_pv v -> (forall p k, In (p, k) v -> (0 <= k)%Z) -> forall a,
    In a (smith_schwartz v true) <-> In (t a) (smith_schwartz v true).
  Proof.
    intros [Hn Hp] Hnn a. pose proof (smith_perm v (renp t v) Hn Hnn Hp) as P. rewrite (smith_schwartz_ren t t_inj) in P.
    split; intros H.
    - apply (Permutation_in _ P) in H. apply in_map_iff in H. destruct H as (x & <- & Hx). rewrite t_inv. exact Hx.
    - apply (Permutation_in _ (Permutation_sym P)). apply in_map_iff. exists (t a). split; [apply t_inv|exact H].
  Qed.

  (* ---- the quota family: symmetric votes and previous gains, caps with symmetric lookups *)
  Lemma dget_renl_inv {X} (d : list (C * X)) c : dget (renl t d) c = dget d (t c).
  Proof. rewrite <- (t_inv c) at 1. apply (dget_ren t t_inj). Qed.

  Theorem quota_distributor_symmetric quota ae pol votes n prev caps s : quota_ext quota ->
    NoDup (map fst votes) -> Permutation votes (renl t votes) -> NoDup (map fst prev) -> Permutation prev (renl t prev) ->
    (forall c, dget caps (t c) = dget caps c) ->
    qd_evaluate quota ae pol votes n prev caps = QD_ok s -> forall a, kdget s (t a) = kdget s a.
  Proof.
    intros Hq Hv Hvp Hpn Hpp Hc E a.
    pose proof (qd_rel_obs _ _ (qd_evaluate_perm quota ae pol Hq votes (renl t votes) n prev (renl t prev) caps (renl t caps) Hv Hvp Hpn Hpp
                  (fun c => eq_trans (dget_renl_inv caps c) (Hc c)))) as H.
    rewrite (qd_evaluate_ren t t_inj), E in H. cbn [ren_qd qd_obs] in H. destruct H as (H & _).
    rewrite (H (t a)). apply (kdget_ren t t_inj).
  Qed.

  Theorem largest_remainder_symmetric quota ae pol votes n prev caps s : quota_ext quota ->
    NoDup (map fst votes) -> Permutation votes (renl t votes) -> NoDup (map fst prev) -> Permutation prev (renl t prev) ->
    (forall c, dget caps (t c) = dget caps c) ->
    lr_evaluate quota ae pol votes n prev caps = LR_ok s -> forall a, kdget s (t a) = kdget s a.
  Proof.
    intros Hq Hv Hvp Hpn Hpp Hc E a.
    pose proof (lr_rel_obs _ _ (lr_evaluate_perm quota ae pol Hq votes (renl t votes) n prev (renl t prev) caps (renl t caps) Hv Hvp Hpn Hpp
                  (fun c => eq_trans (dget_renl_inv caps c) (Hc c)))) as H.
    rewrite (lr_evaluate_ren t t_inj), E in H. cbn [ren_lr lr_obs] in H. destruct H as (H & _).
    rewrite (H (t a)). apply (kdget_ren t t_inj).
  Qed.

  (* ---- the transferable-vote count: symmetric profile and previous gains, caps listed symmetrically *)
  Theorem stv_symmetric cf votes n prev caps :
    ballots_distinct votes -> Permutation votes (renv t votes) -> NoDup (map fst prev) -> Permutation prev (renl t prev) ->
    renl t caps = caps -> forall a, dget (t_seats (stv cf votes n prev caps)) (t a) = dget (t_seats (stv cf votes n prev caps)) a.
  Proof.
    intros Hd Hp Hn Hpp Hc a.
    destruct (stv_perm cf votes (renv t votes) n prev (renl t prev) caps Hd Hp Hn Hpp) as (_ & N & P & _).
    rewrite <- Hc in P at 2. rewrite (stv_ren t t_inj) in P. cbn [ren_trace t_seats] in P.
    transitivity (dget (renl t (t_seats (stv cf votes n prev caps))) (t a)); [apply dget_perm; assumption|apply (dget_ren t t_inj)].
  Qed.

  (* ---- highest averages: symmetric votes, previous gains and caps listed symmetrically *)
  Theorem highest_averages_symmetric (d : Z -> Q) votes n prev caps :
    divisor_ok d -> (forall c v, In (c, v) votes -> (0 <= v)%Q) -> NoDup (map fst votes) -> (forall c, (0 <= dget_or prev c 0)%Z) ->
    Permutation votes (renl t votes) -> renl t prev = prev -> renl t caps = caps ->
    forall a, dget_or (st_totals (final_state d votes n prev caps)) (t a) 0%Z = dget_or (st_totals (final_state d votes n prev caps)) a 0%Z.
  Proof.
    intros [Hd1 Hd2] Hv Hnd Hprev Hp Ep Ec a.
    destruct (ha_perm d votes (renl t votes) caps prev n Hd1 Hd2 Hv Hnd Hprev Hp) as (H & _).
    assert (E : final_state d (renl t votes) n prev caps = ren_state t (final_state d votes n prev caps)).
    { rewrite <- Ep at 1. rewrite <- Ec at 1. apply (final_ren t t_inj). }
    specialize (H (t a)). rewrite E in H. cbn [ren_state st_totals] in H. unfold HA_proofs.tot in H. cbn [ren_state st_totals] in H. rewrite H. apply (dget_or_ren t t_inj).
  Qed.
End SYM.
