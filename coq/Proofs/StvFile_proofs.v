(* C19 - lemmas about Model/StvFile.v (character-level model of votelib/io/stv.py) *)
From Coq Require Import Strings.String Decimal DecimalN DecimalPos.
From Coq Require Import ZArith QArith Qreduction List Bool Lia.
From VL Require Import Model.Persist Model.BallotFile Model.StvFile Proofs.Persist_proofs Proofs.BallotFile_proofs.
Import ListNotations.
Open Scope Z_scope.

Arguments guarded_int : simpl never.
Arguments parse_multiplier : simpl never.
Arguments parse_header_line : simpl never.
Arguments create_system : simpl never.
Arguments create_evaluator : simpl never.
Arguments parse_n_ballots : simpl never.
Arguments is_space : simpl never.
Arguments strip : simpl never.
Arguments words : simpl never.
Arguments split1 : simpl never.
Arguments sc_put : simpl never.
Arguments ordered_vote : simpl never.
Arguments py_int : simpl never.
Arguments str_eqb : simpl never.
Arguments last_is : simpl never.

(* ================================================================ 1. totality: the repaired reader never crashes *)

Lemma lbind_total : forall (X Y : Type) (r : lres X) (f : X -> lres Y),
  no_crash r -> (forall x, no_crash (f x)) -> no_crash (lbind r f).
Proof. intros X Y [x| |e] f Hr Hf; simpl in *; [apply Hf|exact I|contradiction]. Qed.

Lemma dgroup_decimal : forall E s acc prev, forallb (is_decimal_char E) s = true ->
  (s <> [] \/ prev = true) -> exists n, dgroup E s acc prev = Some n.
Proof.
  intros E s. induction s as [|c t IH]; intros acc prev Hall Hne; simpl.
  - destruct Hne as [Hne|Hp]; [congruence|]. subst prev. eexists; reflexivity.
  - simpl in Hall. apply andb_true_iff in Hall. destruct Hall as [Hc Ht].
    unfold is_decimal_char in Hc. destruct (dval E c) as [d|]; [|discriminate].
    apply IH; [exact Ht|right; reflexivity].
Qed.

Lemma digit_group_decimal : forall E s, is_decimal_str E s = true -> exists n, digit_group E s = Some n.
Proof.
  intros E s H. unfold is_decimal_str in H. destruct s as [|c t]; [discriminate|].
  apply dgroup_decimal; [exact H|left; discriminate].
Qed.

Lemma guarded_int_total : forall E s r, guarded_int E false s = Some r -> no_crash r.
Proof.
  intros E s r H. unfold guarded_int in H. destruct (is_decimal_str E s) eqn:Hd; [|discriminate].
  destruct (digit_group_decimal E s Hd) as [n Hn]. rewrite Hn in H. inversion H. exact I.
Qed.

Lemma int_or_error_total : forall E s, no_crash (int_or_error (guarded_int E false s)).
Proof.
  intros E s. destruct (guarded_int E false s) as [r|] eqn:H; simpl; [eapply guarded_int_total; eauto|exact I].
Qed.

Lemma quota_setting_total : forall q, no_crash (quota_setting q).
Proof.
  intros [[a [b|]]|]; simpl; try exact I.
  destruct (str_eqb a s_mandatory || str_eqb b s_mandatory); [|exact I].
  destruct (negb (str_eqb a s_mandatory)); [exact I|]. destruct (negb (str_eqb b s_mandatory)); exact I.
Qed.

Lemma quota_function_total : forall E b q, no_crash (quota_function E false b q).
Proof.
  intros E b [qn|]; unfold quota_function.
  - destruct (guarded_int E false qn) as [r|] eqn:H.
    + apply lbind_total; [eapply guarded_int_total; eauto|intros; exact I].
    + destruct (strs_mem qn quota_names); exact I.
  - destruct b; exact I.
Qed.

Lemma add_tiebreaker_total : forall E base r, no_crash (add_tiebreaker E false base r).
Proof.
  intros E base [r|]; unfold add_tiebreaker; [|exact I]. destruct (nonempty r); [|exact I]. destruct (str_eqb r s_non); [exact I|].
  apply lbind_total; [apply int_or_error_total|intros; exact I].
Qed.

Lemma add_fixed_seats_total : forall E e s, no_crash (add_fixed_seats E e s).
Proof. intros E e [s|]; unfold add_fixed_seats; [|exact I]. destruct (nonempty s); [destruct (py_int E s)|]; exact I. Qed.

Lemma create_evaluator_total : forall E sc, no_crash (create_evaluator E false sc).
Proof.
  intros E sc. unfold create_evaluator.
  destruct (if match sc_method sc with Some m => str_eqb m s_GPCA | None => false end then Some s_BC else sc_method sc) as [m|]; [|exact I].
  destruct (negb (str_eqb m s_BC) && negb (str_eqb m s_blt)); [exact I|].
  apply lbind_total; [apply quota_setting_total|intros qm].
  apply lbind_total; [apply quota_function_total|intros qf].
  apply lbind_total; [apply add_tiebreaker_total|intros e1]. apply add_fixed_seats_total.
Qed.

Lemma create_system_total : forall E sc, no_crash (create_system E false sc).
Proof. intros E sc. unfold create_system. apply lbind_total; [apply create_evaluator_total|intros; exact I]. Qed.

Lemma parse_n_ballots_total : forall E v, no_crash (parse_n_ballots E false v).
Proof.
  intros E v. unfold parse_n_ballots. destruct (str_eqb v s_blt); [exact I|].
  apply lbind_total; [apply int_or_error_total|intros; exact I].
Qed.

Lemma load_system_total : forall E ls sc cands nicks order, no_crash (load_system E false ls sc cands nicks order).
Proof.
  intros E ls. induction ls as [|l rest IH]; intros sc cands nicks order; simpl; [exact I|].
  destruct (parse_header_line l) as [|k v|]; [apply IH| |exact I].
  destruct (str_eqb k s_ballots).
  - destruct (match order with [] => Some nicks | _ :: _ => reorder_nicks nicks order [] end); [|exact I].
    apply lbind_total; [apply create_system_total|intros sys].
    apply lbind_total; [apply parse_n_ballots_total|intros; exact I].
  - destruct (str_eqb k s_order); [apply IH|].
    destruct (str_eqb k s_candidate || str_eqb k s_withdrawn).
    + destruct (split1 v) as [[nick name]|]; [apply IH|exact I].
    + destruct (sc_put sc k v); [apply IH|exact I].
Qed.

Lemma ordered_items_total : forall E items pool i acc, no_crash (ordered_items E false items pool i acc).
Proof.
  intros E items. induction items as [|it t IH]; intros pool i acc; simpl; [exact I|].
  destruct (guarded_int E false it) as [r|] eqn:Hg.
  - destruct (nth_error pool i); [|exact I]. apply lbind_total; [eapply guarded_int_total; eauto|intros; apply IH].
  - destruct (str_eqb it [45]); [apply IH|exact I].
Qed.

Lemma ordered_vote_total : forall E items pool, no_crash (ordered_vote E false items pool).
Proof.
  intros E items pool. unfold ordered_vote. apply lbind_total; [apply ordered_items_total|intros co].
  cbv zeta. destruct (ranks_are (sort_by_rank co) 1); exact I.
Qed.

(* ---- a stripped line that is not empty has a first item: items[0] cannot fail *)
Lemma lstrip_head : forall s c t, lstrip s = c :: t -> is_space c = false.
Proof.
  induction s as [|x s IH]; intros c t H; simpl in H; [discriminate|].
  destruct (is_space x) eqn:Hx; [eapply IH; eauto|]. inversion H; subst. exact Hx.
Qed.

Lemma words_aux_nil : forall s cur, words_aux s cur = [] -> cur = [] /\ forallb is_space s = true.
Proof.
  induction s as [|c t IH]; intros cur H; simpl in *.
  - destruct cur; [split; reflexivity|discriminate].
  - destruct (is_space c) eqn:Hc.
    + destruct cur; [|discriminate]. destruct (IH [] H) as [_ H2]. split; [reflexivity|exact H2].
    + destruct (IH (c :: cur) H) as [H1 _]. discriminate.
Qed.

Lemma strip_has_nonspace : forall s c t, strip s = c :: t -> exists d, In d (strip s) /\ is_space d = false.
Proof.
  intros s c t H. unfold strip, rstrip in *.
  destruct (lstrip (rev (lstrip s))) as [|d u] eqn:Hl; [discriminate|].
  exists d. split; [|eapply lstrip_head; eauto].
  simpl. apply in_or_app. right. left. reflexivity.
Qed.

Lemma words_strip_nonempty : forall s c t, strip s = c :: t -> words (strip s) <> [].
Proof.
  intros s c t H Hw. destruct (strip_has_nonspace s c t H) as [d [Hin Hd]].
  unfold words in Hw. apply words_aux_nil in Hw. destruct Hw as [_ Hall].
  rewrite forallb_forall in Hall. rewrite (Hall d Hin) in Hd. discriminate.
Qed.

Lemma load_votes_total : forall E ordered nicks ls i n acc, no_crash (load_votes E false ordered nicks ls i n acc).
Proof.
  intros E ordered nicks ls. induction ls as [|l rest IH]; intros i n acc; simpl; [exact I|].
  destruct (str_eqb (strip l) s_end); [destruct (i =? n); exact I|].
  destruct (strip l) as [|c t] eqn:Hs; [apply IH|].
  pose proof (words_strip_nonempty l c t Hs) as Hw. rewrite Hs in Hw.
  destruct (words (c :: t)) as [|first more]; [congruence|].
  destruct (if last_is 88 first then match parse_multiplier E (removelast first) with Some m => Some (m, more) | None => None end
            else Some (1 # 1, first :: more)) as [[mult items]|]; [|exact I].
  apply lbind_total; [|intros; apply IH].
  destruct ordered; [apply ordered_vote_total|]. destruct (lookup_nicks nicks items); exact I.
Qed.

Lemma finish_blt_total : forall h r, no_crash r -> no_crash (finish_blt false h r).
Proof.
  intros h [[[[bv bs] bc] bt]| |e] Hr; simpl in *; try exact I; [|contradiction].
  destruct (snd (h_system h)); exact I.
Qed.

Theorem stv_load_lines_total : forall E bl ls, (forall r, no_crash (bl r)) -> no_crash (stv_load_lines E false bl ls).
Proof.
  intros E bl ls Hbl. unfold stv_load_lines. apply lbind_total; [apply load_system_total|intros [h rest]].
  destruct (h_n_ballots h) as [n|].
  - apply lbind_total; [apply load_votes_total|intros; exact I].
  - apply finish_blt_total. apply Hbl.
Qed.
