(* C19 - lemmas about Model/StvFile.v (character-level model of votelib/io/stv.py) *)
From Coq Require Import Strings.String Decimal DecimalN DecimalPos.
From Coq Require Import ZArith QArith Qreduction List Bool Lia.
From VL Require Import Model.Persist Model.BallotFile Model.StvFile Proofs.Persist_proofs Proofs.BallotFile_proofs.
Import ListNotations.
Open Scope Z_scope.

Arguments guarded_int : simpl never.
Arguments parse_multiplier : simpl never.
Arguments parse_header_line : simpl never.
Arguments create_system : simpl never.
Arguments create_evaluator : simpl never.
Arguments parse_n_ballots : simpl never.
Arguments is_space : simpl never.
Arguments strip : simpl never.
Arguments words : simpl never.
Arguments split1 : simpl never.
Arguments sc_put : simpl never.
Arguments ordered_vote : simpl never.
Arguments py_int : simpl never.
Arguments str_eqb : simpl never.
Arguments last_is : simpl never.

(* ================================================================ 1. totality: the repaired reader never crashes *)

Lemma lbind_total : forall (X Y : Type) (r : lres X) (f : X -> lres Y),
  no_crash r -> (forall x, no_crash (f x)) -> no_crash (lbind r f).
Proof. intros X Y [x| |e] f Hr Hf; simpl in *; [apply Hf|exact I|contradiction]. Qed.

Lemma dgroup_decimal : forall E s acc prev, forallb (is_decimal_char E) s = true ->
  (s <> [] \/ prev = true) -> exists n, dgroup E s acc prev = Some n.
Proof.
  intros E s. induction s as [|c t IH]; intros acc prev Hall Hne; simpl.
  - destruct Hne as [Hne|Hp]; [congruence|]. subst prev. eexists; reflexivity.
  - simpl in Hall. apply andb_true_iff in Hall. destruct Hall as [Hc Ht].
    unfold is_decimal_char in Hc. destruct (dval E c) as [d|]; [|discriminate].
    apply IH; [exact Ht|right; reflexivity].
Qed.

Lemma digit_group_decimal : forall E s, is_decimal_str E s = true -> exists n, digit_group E s = Some n.
Proof.
  intros E s H. unfold is_decimal_str in H. destruct s as [|c t]; [discriminate|].
  apply dgroup_decimal; [exact H|left; discriminate].
Qed.

Lemma guarded_int_total : forall E s r, guarded_int E false s = Some r -> no_crash r.
Proof.
  intros E s r H. unfold guarded_int in H. destruct (is_decimal_str E s) eqn:Hd; [|discriminate].
  destruct (digit_group_decimal E s Hd) as [n Hn]. rewrite Hn in H. inversion H. exact I.
Qed.

Lemma int_or_error_total : forall E s, no_crash (int_or_error (guarded_int E false s)).
Proof.
  intros E s. destruct (guarded_int E false s) as [r|] eqn:H; simpl; [eapply guarded_int_total; eauto|exact I].
Qed.

Lemma quota_setting_total : forall q, no_crash (quota_setting q).
Proof.
  intros [[a [b|]]|]; simpl; try exact I.
  destruct (str_eqb a s_mandatory || str_eqb b s_mandatory); [|exact I].
  destruct (negb (str_eqb a s_mandatory)); [exact I|]. destruct (negb (str_eqb b s_mandatory)); exact I.
Qed.

Lemma quota_function_total : forall E b q, no_crash (quota_function E false b q).
Proof.
  intros E b [qn|]; unfold quota_function.
  - destruct (guarded_int E false qn) as [r|] eqn:H.
    + apply lbind_total; [eapply guarded_int_total; eauto|intros; exact I].
    + destruct (strs_mem qn quota_names); exact I.
  - destruct b; exact I.
Qed.

Lemma add_tiebreaker_total : forall E base r, no_crash (add_tiebreaker E false base r).
Proof.
  intros E base [r|]; unfold add_tiebreaker; [|exact I]. destruct (nonempty r); [|exact I]. destruct (str_eqb r s_non); [exact I|].
  apply lbind_total; [apply int_or_error_total|intros; exact I].
Qed.

Lemma add_fixed_seats_total : forall E e s, no_crash (add_fixed_seats E e s).
Proof. intros E e [s|]; unfold add_fixed_seats; [|exact I]. destruct (nonempty s); [destruct (py_int E s)|]; exact I. Qed.

Lemma create_evaluator_total : forall E sc, no_crash (create_evaluator E false sc).
Proof.
  intros E sc. unfold create_evaluator.
  destruct (if match sc_method sc with Some m => str_eqb m s_GPCA | None => false end then Some s_BC else sc_method sc) as [m|]; [|exact I].
  destruct (negb (str_eqb m s_BC) && negb (str_eqb m s_blt)); [exact I|].
  apply lbind_total; [apply quota_setting_total|intros qm].
  apply lbind_total; [apply quota_function_total|intros qf].
  apply lbind_total; [apply add_tiebreaker_total|intros e1]. apply add_fixed_seats_total.
Qed.

Lemma create_system_total : forall E sc, no_crash (create_system E false sc).
Proof. intros E sc. unfold create_system. apply lbind_total; [apply create_evaluator_total|intros; exact I]. Qed.

Lemma parse_n_ballots_total : forall E v, no_crash (parse_n_ballots E false v).
Proof.
  intros E v. unfold parse_n_ballots. destruct (str_eqb v s_blt); [exact I|].
  apply lbind_total; [apply int_or_error_total|intros; exact I].
Qed.

Lemma load_system_total : forall E ls sc cands nicks order, no_crash (load_system E false ls sc cands nicks order).
Proof.
  intros E ls. induction ls as [|l rest IH]; intros sc cands nicks order; simpl; [exact I|].
  destruct (parse_header_line l) as [|k v|]; [apply IH| |exact I].
  destruct (str_eqb k s_ballots).
  - destruct (match order with [] => Some nicks | _ :: _ => reorder_nicks nicks order [] end); [|exact I].
    apply lbind_total; [apply create_system_total|intros sys].
    apply lbind_total; [apply parse_n_ballots_total|intros; exact I].
  - destruct (str_eqb k s_order); [apply IH|].
    destruct (str_eqb k s_candidate || str_eqb k s_withdrawn).
    + destruct (split1 v) as [[nick name]|]; [apply IH|exact I].
    + destruct (sc_put sc k v); [apply IH|exact I].
Qed.

Lemma ordered_items_total : forall E items pool i acc, no_crash (ordered_items E false items pool i acc).
Proof.
  intros E items. induction items as [|it t IH]; intros pool i acc; simpl; [exact I|].
  destruct (guarded_int E false it) as [r|] eqn:Hg.
  - destruct (nth_error pool i); [|exact I]. apply lbind_total; [eapply guarded_int_total; eauto|intros; apply IH].
  - destruct (str_eqb it [45]); [apply IH|exact I].
Qed.

Lemma ordered_vote_total : forall E items pool, no_crash (ordered_vote E false items pool).
Proof.
  intros E items pool. unfold ordered_vote. apply lbind_total; [apply ordered_items_total|intros co].
  cbv zeta. destruct (ranks_are (sort_by_rank co) 1); exact I.
Qed.

(* ---- a stripped line that is not empty has a first item: items[0] cannot fail *)
Lemma lstrip_head : forall s c t, lstrip s = c :: t -> is_space c = false.
Proof.
  induction s as [|x s IH]; intros c t H; simpl in H; [discriminate|].
  destruct (is_space x) eqn:Hx; [eapply IH; eauto|]. inversion H; subst. exact Hx.
Qed.

Lemma words_aux_nil : forall s cur, words_aux s cur = [] -> cur = [] /\ forallb is_space s = true.
Proof.
  induction s as [|c t IH]; intros cur H; simpl in *.
  - destruct cur; [split; reflexivity|discriminate].
  - destruct (is_space c) eqn:Hc.
    + destruct cur; [|discriminate]. destruct (IH [] H) as [_ H2]. split; [reflexivity|exact H2].
    + destruct (IH (c :: cur) H) as [H1 _]. discriminate.
Qed.

Lemma strip_has_nonspace : forall s c t, strip s = c :: t -> exists d, In d (strip s) /\ is_space d = false.
Proof.
  intros s c t H. unfold strip, rstrip in *.
  destruct (lstrip (rev (lstrip s))) as [|d u] eqn:Hl; [discriminate|].
  exists d. split; [|eapply lstrip_head; eauto].
  simpl. apply in_or_app. right. left. reflexivity.
Qed.

Lemma words_strip_nonempty : forall s c t, strip s = c :: t -> words (strip s) <> [].
Proof.
  intros s c t H Hw. destruct (strip_has_nonspace s c t H) as [d [Hin Hd]].
  unfold words in Hw. apply words_aux_nil in Hw. destruct Hw as [_ Hall].
  rewrite forallb_forall in Hall. rewrite (Hall d Hin) in Hd. discriminate.
Qed.

Lemma load_votes_total : forall E ordered nicks ls i n acc, no_crash (load_votes E false ordered nicks ls i n acc).
Proof.
  intros E ordered nicks ls. induction ls as [|l rest IH]; intros i n acc; simpl; [exact I|].
  destruct (str_eqb (strip l) s_end); [destruct (i =? n); exact I|].
  destruct (strip l) as [|c t] eqn:Hs; [apply IH|].
  pose proof (words_strip_nonempty l c t Hs) as Hw. rewrite Hs in Hw.
  destruct (words (c :: t)) as [|first more]; [congruence|].
  destruct (if last_is 88 first then match parse_multiplier E (removelast first) with Some m => Some (m, more) | None => None end
            else Some (1 # 1, first :: more)) as [[mult items]|]; [|exact I].
  apply lbind_total; [|intros; apply IH].
  destruct ordered; [apply ordered_vote_total|]. destruct (lookup_nicks nicks items); exact I.
Qed.

Lemma finish_blt_total : forall h r, no_crash r -> no_crash (finish_blt false h r).
Proof.
  intros h [[[[bv bs] bc] bt]| |e] Hr; simpl in *; try exact I; [|contradiction].
  destruct (snd (h_system h)); exact I.
Qed.

Theorem stv_load_lines_total : forall E bl ls, (forall r, no_crash (bl r)) -> no_crash (stv_load_lines E false bl ls).
Proof.
  intros E bl ls Hbl. unfold stv_load_lines. apply lbind_total; [apply load_system_total|intros [h rest]].
  destruct (h_n_ballots h) as [n|].
  - apply lbind_total; [apply load_votes_total|intros; exact I].
  - apply finish_blt_total. apply Hbl.
Qed.

(* ================================================================ 2. str methods on written lines *)
Definition nonspace (s : str) : bool := forallb (fun c => negb (is_space c)) s.

Lemma smem_app : forall c a b, smem c (a ++ b) = smem c a || smem c b.
Proof. intros. unfold smem. apply existsb_app. Qed.

Lemma smem_cons : forall c x t, smem c (x :: t) = (c =? x) || smem c t.
Proof. reflexivity. Qed.

Lemma cut_at_absent : forall c s, smem c s = false -> cut_at c s = s.
Proof.
  induction s as [|x s IH]; intros H; simpl; [reflexivity|].
  rewrite smem_cons in H. apply orb_false_iff in H. destruct H as [H1 H2].
  rewrite Z.eqb_sym, H1. f_equal. apply IH. exact H2.
Qed.

Lemma split_at_app : forall c a b, smem c a = false -> split_at c (a ++ c :: b) = Some (a, b).
Proof.
  induction a as [|x a IH]; intros b H; simpl.
  - rewrite Z.eqb_refl. reflexivity.
  - rewrite smem_cons in H. apply orb_false_iff in H. destruct H as [H1 H2].
    rewrite Z.eqb_sym, H1, (IH b H2). reflexivity.
Qed.

Lemma lstrip_id : forall s, match s with [] => true | c :: _ => negb (is_space c) end = true -> lstrip s = s.
Proof. intros [|c t] H; simpl; [reflexivity|]. apply negb_true_iff in H. rewrite H. reflexivity. Qed.

Lemma rstrip_id : forall s, match rev s with [] => true | c :: _ => negb (is_space c) end = true -> rstrip s = s.
Proof. intros s H. unfold rstrip. rewrite (lstrip_id (rev s) H). apply rev_involutive. Qed.

Lemma strip_id : forall s, no_outer_space s = true -> strip s = s.
Proof.
  intros s H. unfold no_outer_space in H. apply andb_true_iff in H. destruct H as [H1 H2].
  unfold strip. rewrite (lstrip_id s H1). apply rstrip_id. exact H2.
Qed.

Lemma strip_trailing_space : forall a c, no_outer_space a = true -> a <> [] -> is_space c = true -> strip (a ++ [c]) = a.
Proof.
  intros a c H Hne Hc. unfold no_outer_space in H. apply andb_true_iff in H. destruct H as [H1 H2].
  unfold strip. rewrite lstrip_id.
  - unfold rstrip. rewrite rev_app_distr. simpl rev. simpl app. cbn [lstrip]. rewrite Hc.
    rewrite (lstrip_id (rev a) H2). apply rev_involutive.
  - destruct a as [|x a]; [congruence|]. exact H1.
Qed.

Lemma no_outer_space_app : forall a b, a <> [] -> b <> [] ->
  match a with [] => true | c :: _ => negb (is_space c) end = true ->
  match rev b with [] => true | c :: _ => negb (is_space c) end = true ->
  no_outer_space (a ++ b) = true.
Proof.
  intros a b Ha Hb H1 H2. unfold no_outer_space. apply andb_true_iff. split.
  - destruct a as [|x a]; [congruence|]. exact H1.
  - rewrite rev_app_distr. destruct (rev b) as [|y rb] eqn:Hr; [|exact H2].
    apply (f_equal (@rev Z)) in Hr. rewrite rev_involutive in Hr. simpl in Hr. congruence.
Qed.

Lemma nonspace_app : forall a b, nonspace (a ++ b) = nonspace a && nonspace b.
Proof. intros. unfold nonspace. apply forallb_app. Qed.

Lemma nonspace_head : forall s, nonspace s = true -> match s with [] => true | c :: _ => negb (is_space c) end = true.
Proof. intros [|c t] H; [reflexivity|]. simpl in H. apply andb_true_iff in H. tauto. Qed.

Lemma nonspace_rev : forall s, nonspace s = true -> nonspace (rev s) = true.
Proof.
  intros s H. unfold nonspace in *. rewrite forallb_forall in *. intros x Hx. apply H. apply in_rev. exact Hx.
Qed.

Lemma nonspace_last : forall s, nonspace s = true -> match rev s with [] => true | c :: _ => negb (is_space c) end = true.
Proof. intros s H. apply nonspace_head. apply nonspace_rev. exact H. Qed.

Lemma nonspace_no_outer : forall s, nonspace s = true -> no_outer_space s = true.
Proof.
  intros s H. unfold no_outer_space. apply andb_true_iff. split; [apply nonspace_head|apply nonspace_last]; exact H.
Qed.

(* ---- header lines *)
Definition key_ok (k : str) : bool :=
  match k with [] => false | c :: _ => negb (is_space c) end && negb (smem 61 k) && negb (smem 35 k).
Definition val_ok (v : str) : bool :=
  negb (smem 35 v) && match rev v with [] => true | c :: _ => negb (is_space c) end.

Lemma parse_header_kv : forall k v, key_ok k = true -> val_ok v = true -> parse_header_line (k ++ 61 :: v) = HKeyVal k v.
Proof.
  intros k v Hk Hv. unfold key_ok in Hk. apply andb_true_iff in Hk. destruct Hk as [Hk Hk3].
  apply andb_true_iff in Hk. destruct Hk as [Hk1 Hk2]. apply negb_true_iff in Hk2. apply negb_true_iff in Hk3.
  unfold val_ok in Hv. apply andb_true_iff in Hv. destruct Hv as [Hv1 Hv2]. apply negb_true_iff in Hv1.
  unfold parse_header_line.
  rewrite cut_at_absent by (rewrite smem_app, smem_cons, Hk3, Hv1; reflexivity).
  rewrite strip_id.
  - destruct k as [|c k]; [discriminate|]. cbn [app].
    change (c :: k ++ 61 :: v) with ((c :: k) ++ 61 :: v). rewrite (split_at_app 61 (c :: k) v Hk2). reflexivity.
  - unfold no_outer_space. apply andb_true_iff. split.
    + destruct k as [|c k]; [discriminate|]. exact Hk1.
    + rewrite rev_app_distr. cbn [rev]. rewrite <- app_assoc. cbn [app].
      destruct (rev v) as [|y rv]; [reflexivity|exact Hv2].
Qed.

(* ---- split(None, 1) of "nick name" *)
Lemma span_word_app : forall w c r, nonspace w = true -> is_space c = true -> span_word (w ++ c :: r) = (w, c :: r).
Proof.
  induction w as [|x w IH]; intros c r Hw Hc; cbn [app span_word].
  - rewrite Hc. reflexivity.
  - simpl in Hw. apply andb_true_iff in Hw. destruct Hw as [Hx Hw]. apply negb_true_iff in Hx. rewrite Hx.
    rewrite (IH c r Hw Hc). reflexivity.
Qed.

Lemma space_32 : is_space 32 = true.
Proof. reflexivity. Qed.

Lemma split1_nick_name : forall nick name, nick <> [] -> nonspace nick = true -> name <> [] ->
  match name with [] => true | c :: _ => negb (is_space c) end = true ->
  split1 (nick ++ 32 :: name) = Some (nick, name).
Proof.
  intros nick name Hn Hns Hm Hh. unfold split1.
  rewrite lstrip_id.
  - rewrite (span_word_app nick 32 name Hns space_32). cbn [lstrip]. rewrite space_32.
    rewrite (lstrip_id name Hh). destruct nick; [congruence|]. destruct name; [congruence|]. reflexivity.
  - destruct nick as [|x nick]; [congruence|]. cbn [app]. simpl in Hns. apply andb_true_iff in Hns. tauto.
Qed.

(* ---- split() of "nick nick ..." *)
Lemma words_aux_word : forall w t cur, nonspace w = true -> words_aux (w ++ t) cur = words_aux t (rev w ++ cur).
Proof.
  induction w as [|x w IH]; intros t cur H; cbn [app words_aux rev]; [reflexivity|].
  simpl in H. apply andb_true_iff in H. destruct H as [Hx Hw]. apply negb_true_iff in Hx. rewrite Hx.
  rewrite (IH t (x :: cur) Hw), <- app_assoc. reflexivity.
Qed.

Definition nick_good (n : str) : Prop := n <> [] /\ forallb nick_char_ok n = true.

Lemma nick_char_nonspace : forall n, forallb nick_char_ok n = true -> nonspace n = true.
Proof.
  intros n H. unfold nonspace. rewrite forallb_forall in *. intros c Hc. specialize (H c Hc).
  unfold nick_char_ok in H. apply andb_true_iff in H. destruct H as [H _]. apply andb_true_iff in H. tauto.
Qed.

Lemma words_one : forall w cur, w <> [] -> nonspace w = true -> words_aux w cur = [rev cur ++ w].
Proof.
  intros w cur Hne Hw. rewrite <- (app_nil_r w) at 1. rewrite (words_aux_word w [] cur Hw). cbn [words_aux].
  destruct (rev w ++ cur) as [|y l] eqn:Hr.
  - apply app_eq_nil in Hr. destruct Hr as [Hr _]. apply (f_equal (@rev Z)) in Hr. rewrite rev_involutive in Hr. simpl in Hr. congruence.
  - rewrite <- Hr, rev_app_distr, rev_involutive. reflexivity.
Qed.

Lemma words_aux_sep : forall w rest, w <> [] -> nonspace w = true ->
  words_aux (w ++ 32 :: rest) [] = w :: words_aux rest [].
Proof.
  intros w rest Hne Hw. rewrite (words_aux_word w (32 :: rest) [] Hw). cbn [words_aux]. rewrite space_32, app_nil_r.
  destruct (rev w) as [|y l] eqn:Hr.
  - apply (f_equal (@rev Z)) in Hr. rewrite rev_involutive in Hr. simpl in Hr. congruence.
  - rewrite <- Hr, rev_involutive. reflexivity.
Qed.

Lemma words_join : forall ns, Forall nick_good ns -> words (join_sp ns) = ns.
Proof.
  intros ns H. unfold words. induction H as [|n ns [Hne Hn] Hns IH]; [reflexivity|].
  destruct ns as [|m ns'].
  - cbn [join_sp]. rewrite (words_one n [] Hne (nick_char_nonspace n Hn)). reflexivity.
  - change (join_sp (n :: m :: ns')) with (n ++ 32 :: join_sp (m :: ns')).
    rewrite (words_aux_sep n _ Hne (nick_char_nonspace n Hn)), IH. reflexivity.
Qed.

Lemma join_sp_nonspace_ends : forall ns, Forall nick_good ns -> ns <> [] -> no_outer_space (join_sp ns) = true /\ join_sp ns <> [].
Proof.
  intros ns H. induction H as [|n ns [Hne Hn] Hns IH]; intros Hnn; [congruence|].
  destruct ns as [|m ns'].
  - cbn [join_sp]. split; [apply nonspace_no_outer, nick_char_nonspace; exact Hn|exact Hne].
  - change (join_sp (n :: m :: ns')) with (n ++ 32 :: join_sp (m :: ns')).
    destruct IH as [IH1 IH2]; [discriminate|]. split.
    + apply no_outer_space_app; [exact Hne|discriminate| |].
      * apply nonspace_head, nick_char_nonspace; exact Hn.
      * cbn [rev]. unfold no_outer_space in IH1. apply andb_true_iff in IH1. destruct IH1 as [_ IH1].
        destruct (rev (join_sp (m :: ns'))) as [|y l] eqn:Hr; [|exact IH1].
        apply (f_equal (@rev Z)) in Hr. rewrite rev_involutive in Hr. exfalso. apply IH2. exact Hr.
    + destruct n; [congruence|discriminate].
Qed.

(* ================================================================ 3. numbers written and read back *)
Definition ascii_digit (c : Z) : bool := (48 <=? c) && (c <=? 57).
Definition digits (s : str) : bool := forallb ascii_digit s.

Lemma dval_ascii : forall E c, ascii_digit c = true -> dval E c = Some (c - 48).
Proof. intros E c H. unfold dval. unfold ascii_digit in H. rewrite H. reflexivity. Qed.

Lemma ascii_digit_props : forall c, ascii_digit c = true ->
  is_space c = false /\ c <> 35 /\ c <> 88 /\ c <> 47 /\ c <> 45 /\ c <> 43 /\ c <> 10 /\ c <> 61 /\ c <> 98 /\ c <> 110 /\ c <> 101.
Proof.
  intros c H. unfold ascii_digit in H. apply andb_true_iff in H. destruct H as [H1 H2].
  apply Z.leb_le in H1. apply Z.leb_le in H2.
  split; [|repeat split; lia].
  unfold is_space, spaces. cbn [existsb].
  repeat match goal with |- context [c =? ?k] => replace (c =? k) with false by (symmetry; apply Z.eqb_neq; lia) end.
  reflexivity.
Qed.

Fixpoint uint_val (u : Decimal.uint) (acc : Z) : Z :=
  match u with
  | Nil => acc
  | D0 u => uint_val u (acc * 10 + 0) | D1 u => uint_val u (acc * 10 + 1) | D2 u => uint_val u (acc * 10 + 2)
  | D3 u => uint_val u (acc * 10 + 3) | D4 u => uint_val u (acc * 10 + 4) | D5 u => uint_val u (acc * 10 + 5)
  | D6 u => uint_val u (acc * 10 + 6) | D7 u => uint_val u (acc * 10 + 7) | D8 u => uint_val u (acc * 10 + 8)
  | D9 u => uint_val u (acc * 10 + 9)
  end.

Lemma uint_codes_digits : forall u, digits (uint_codes u) = true.
Proof. induction u; simpl; try reflexivity; exact IHu. Qed.

Lemma dgroup_uint : forall E u acc prev, (u <> Nil \/ prev = true) ->
  dgroup E (uint_codes u) acc prev = Some (uint_val u acc).
Proof.
  intros E u. induction u; intros acc prev H; cbn [uint_codes uint_val dgroup].
  - destruct H as [H|H]; [congruence|]. subst. reflexivity.
  - rewrite (dval_ascii E 48) by reflexivity. apply IHu. right; reflexivity.
  - rewrite (dval_ascii E 49) by reflexivity. apply IHu. right; reflexivity.
  - rewrite (dval_ascii E 50) by reflexivity. apply IHu. right; reflexivity.
  - rewrite (dval_ascii E 51) by reflexivity. apply IHu. right; reflexivity.
  - rewrite (dval_ascii E 52) by reflexivity. apply IHu. right; reflexivity.
  - rewrite (dval_ascii E 53) by reflexivity. apply IHu. right; reflexivity.
  - rewrite (dval_ascii E 54) by reflexivity. apply IHu. right; reflexivity.
  - rewrite (dval_ascii E 55) by reflexivity. apply IHu. right; reflexivity.
  - rewrite (dval_ascii E 56) by reflexivity. apply IHu. right; reflexivity.
  - rewrite (dval_ascii E 57) by reflexivity. apply IHu. right; reflexivity.
Qed.

Lemma uint_val_acc : forall u acc, uint_val u (Zpos acc) = Zpos (Pos.of_uint_acc u acc).
Proof.
  induction u; intros acc; cbn [uint_val Pos.of_uint_acc]; try reflexivity;
    match goal with |- uint_val _ ?a = _ => first
      [ replace a with (Zpos (Pos.mul 10 acc)) by lia
      | replace a with (Zpos (Pos.add 1 (Pos.mul 10 acc))) by lia
      | replace a with (Zpos (Pos.add 2 (Pos.mul 10 acc))) by lia
      | replace a with (Zpos (Pos.add 3 (Pos.mul 10 acc))) by lia
      | replace a with (Zpos (Pos.add 4 (Pos.mul 10 acc))) by lia
      | replace a with (Zpos (Pos.add 5 (Pos.mul 10 acc))) by lia
      | replace a with (Zpos (Pos.add 6 (Pos.mul 10 acc))) by lia
      | replace a with (Zpos (Pos.add 7 (Pos.mul 10 acc))) by lia
      | replace a with (Zpos (Pos.add 8 (Pos.mul 10 acc))) by lia
      | replace a with (Zpos (Pos.add 9 (Pos.mul 10 acc))) by lia ] end; apply IHu.
Qed.

Lemma uint_val_zero : forall u, uint_val u 0 = Z.of_N (Pos.of_uint u).
Proof.
  induction u; cbn [uint_val Pos.of_uint]; try reflexivity; try exact IHu;
    match goal with |- uint_val _ ?a = _ => let p := eval compute in a in change a with p end; rewrite uint_val_acc; reflexivity.
Qed.

Lemma to_uint_not_nil : forall n, N.to_uint n <> Nil.
Proof.
  intros n H. pose proof (DecimalN.Unsigned.of_to n) as Hn. rewrite H in Hn. cbn in Hn. subst n. discriminate.
Qed.

Lemma n_str_value : forall E n, digit_group E (n_str n) = Some (Z.of_N n).
Proof.
  intros E n. unfold digit_group, n_str. rewrite dgroup_uint by (left; apply to_uint_not_nil).
  rewrite uint_val_zero. change (Pos.of_uint (N.to_uint n)) with (N.of_uint (N.to_uint n)).
  rewrite DecimalN.Unsigned.of_to. reflexivity.
Qed.

Lemma n_str_digits : forall n, digits (n_str n) = true.
Proof. intros. apply uint_codes_digits. Qed.

Lemma n_str_nonempty : forall n, n_str n <> [].
Proof.
  intros n H. unfold n_str in H. pose proof (to_uint_not_nil n) as Hn. destruct (N.to_uint n); try discriminate. congruence.
Qed.

Lemma digits_nonspace : forall s, digits s = true -> nonspace s = true.
Proof.
  intros s H. unfold digits, nonspace in *. rewrite forallb_forall in *. intros c Hc.
  destruct (ascii_digit_props c (H c Hc)) as [Hs _]. rewrite Hs. reflexivity.
Qed.

Lemma digits_no : forall s k, digits s = true -> ascii_digit k = false -> smem k s = false.
Proof.
  intros s k H Hk. unfold smem. destruct (existsb (Z.eqb k) s) eqn:He; [|reflexivity].
  apply existsb_exists in He. destruct He as [c [Hc Hkc]]. apply Z.eqb_eq in Hkc. subst c.
  unfold digits in H. rewrite forallb_forall in H. rewrite (H k Hc) in Hk. discriminate.
Qed.

Lemma digits_decimal : forall E s, digits s = true -> s <> [] -> is_decimal_str E s = true.
Proof.
  intros E s H Hne. unfold is_decimal_str. destruct s as [|c t]; [congruence|].
  unfold digits in H. rewrite forallb_forall in *. intros x Hx. unfold is_decimal_char. rewrite (dval_ascii E x (H x Hx)). reflexivity.
Qed.

Lemma guarded_int_n_str : forall E n, guarded_int E false (n_str n) = Some (Ok (Z.of_N n)).
Proof.
  intros E n. unfold guarded_int. rewrite (digits_decimal E _ (n_str_digits n) (n_str_nonempty n)), n_str_value. reflexivity.
Qed.

(* str(z) *)
Lemma z_str_nonneg : forall z, 0 <= z -> z_str z = n_str (Z.to_N z).
Proof. intros [|p|p] H; try reflexivity. lia. Qed.

Lemma z_str_nonempty : forall z, z_str z <> [].
Proof. intros [|p|p]; cbn [z_str]; try apply n_str_nonempty. discriminate. Qed.

Definition zchars (s : str) : bool := forallb (fun c => ascii_digit c || (c =? 45)) s.

Lemma zchars_digits : forall s, digits s = true -> zchars s = true.
Proof.
  intros s H. unfold digits, zchars in *. rewrite forallb_forall in *. intros c Hc. rewrite (H c Hc). reflexivity.
Qed.

Lemma z_str_chars : forall z, zchars (z_str z) = true.
Proof.
  intros [|p|p]; cbn [z_str]; try (apply zchars_digits, n_str_digits).
  unfold zchars. cbn [forallb]. apply andb_true_iff. split; [reflexivity|]. apply (zchars_digits _ (n_str_digits _)).
Qed.

Lemma zchars_props : forall s, zchars s = true ->
  nonspace s = true /\ smem 35 s = false /\ smem 10 s = false /\ smem 47 s = false /\ smem 61 s = false /\ smem 88 s = false.
Proof.
  intros s H. unfold zchars in H. rewrite forallb_forall in H.
  assert (Hc : forall c, In c s -> is_space c = false /\ c <> 35 /\ c <> 10 /\ c <> 47 /\ c <> 61 /\ c <> 88).
  { intros c Hc. specialize (H c Hc). apply orb_true_iff in H. destruct H as [H|H].
    - pose proof (ascii_digit_props c H). tauto.
    - apply Z.eqb_eq in H. subst c. repeat split; try lia; try reflexivity. }
  assert (Hno : forall k, (forall c, In c s -> c <> k) -> smem k s = false).
  { intros k Hk. unfold smem. destruct (existsb (Z.eqb k) s) eqn:He; [|reflexivity].
    apply existsb_exists in He. destruct He as [c [Hin Hkc]]. apply Z.eqb_eq in Hkc. subst c. exfalso. exact (Hk k Hin eq_refl). }
  split; [|repeat split; apply Hno; intros c Hin; pose proof (Hc c Hin); tauto].
  unfold nonspace. rewrite forallb_forall. intros c Hin. destruct (Hc c Hin) as [Hs _]. rewrite Hs. reflexivity.
Qed.

Lemma val_ok_nonspace : forall v, nonspace v = true -> smem 35 v = false -> val_ok v = true.
Proof. intros v H H35. unfold val_ok. rewrite H35. apply nonspace_last. exact H. Qed.

Lemma z_str_val_ok : forall z, val_ok (z_str z) = true.
Proof. intros z. destruct (zchars_props _ (z_str_chars z)) as [H1 [H2 _]]. apply val_ok_nonspace; assumption. Qed.

Lemma py_int_z_str : forall E z, py_int E (z_str z) = Some z.
Proof.
  intros E z. unfold py_int. destruct (zchars_props _ (z_str_chars z)) as [Hns _].
  rewrite (strip_id _ (nonspace_no_outer _ Hns)).
  destruct z as [|p|p].
  - reflexivity.
  - change (z_str (Zpos p)) with (n_str (Npos p)).
    pose proof (n_str_value E (Npos p)) as Hv. pose proof (n_str_digits (Npos p)) as Hd. pose proof (n_str_nonempty (Npos p)) as Hne.
    destruct (n_str (Npos p)) as [|c t]; [congruence|].
    cbn [digits forallb] in Hd. apply andb_true_iff in Hd. destruct Hd as [Hc _].
    destruct (ascii_digit_props c Hc) as [_ [_ [_ [_ [H45 [H43 _]]]]]].
    replace (c =? 43) with false by (symmetry; apply Z.eqb_neq; exact H43).
    replace (c =? 45) with false by (symmetry; apply Z.eqb_neq; exact H45). exact Hv.
  - cbn [z_str]. change (45 =? 43) with false. change (45 =? 45) with true. cbv iota.
    rewrite (n_str_value E (Npos p)). reflexivity.
Qed.

Lemma str_eqb_head : forall a s b t, a <> b -> str_eqb (a :: s) (b :: t) = false.
Proof. intros a s b t H. unfold str_eqb; fold str_eqb. replace (a =? b) with false by (symmetry; apply Z.eqb_neq; exact H). reflexivity. Qed.

Lemma zchars_not : forall s b t, zchars s = true -> ascii_digit b = false -> b <> 45 -> str_eqb s (b :: t) = false.
Proof.
  intros [|a s] b t H Hb Hb45; [reflexivity|]. apply str_eqb_head. intros Heq. subst a.
  cbn [zchars forallb] in H. apply andb_true_iff in H. destruct H as [H _]. apply orb_true_iff in H. destruct H as [H|H].
  - rewrite H in Hb. discriminate.
  - apply Z.eqb_eq in H. contradiction.
Qed.

(* ================================================================ 4. the multiplier of a ballot line *)
Lemma frac_body_written : forall E a d, frac_body E (n_str a ++ 47 :: n_str (Npos d)) = Some (Z.of_N a # d).
Proof.
  intros E a d. unfold frac_body.
  rewrite split_at_app by (apply digits_no; [apply n_str_digits|reflexivity]).
  rewrite !n_str_value. reflexivity.
Qed.

Lemma q_str_nonspace : forall q, nonspace (q_str q) = true.
Proof.
  intros q. unfold q_str. destruct (zchars_props _ (z_str_chars (Qnum q))) as [Hz _].
  destruct (Pos.eqb (Qden q) 1); [exact Hz|].
  rewrite nonspace_app, Hz. cbn [nonspace forallb andb]. change (negb (is_space 47)) with true. cbn [andb].
  apply digits_nonspace, n_str_digits.
Qed.

Lemma parse_multiplier_q : forall E q, stv_weight_ok E (WQ q) = true -> parse_multiplier E (q_str q) = Some q.
Proof.
  intros E [n d] H. cbn [stv_weight_ok Qnum Qden] in H. apply andb_true_iff in H. destruct H as [_ H].
  unfold parse_multiplier, q_str. cbn [Qnum Qden].
  destruct (Pos.eqb d 1) eqn:Hd.
  - apply Pos.eqb_eq in Hd. subst d. cbn [negb orb] in H. apply Z.leb_le in H.
    rewrite (z_str_nonneg n H).
    rewrite (digits_no _ 47 (n_str_digits _)) by reflexivity.
    rewrite (digits_decimal E _ (n_str_digits _) (n_str_nonempty _)), n_str_value.
    cbn [option_map]. rewrite Z2N.id by exact H. reflexivity.
  - rewrite smem_app, smem_cons. change (47 =? 47) with true. rewrite orb_true_r.
    destruct n as [|p|p].
    + change (z_str 0) with (n_str 0).
      pose proof (frac_body_written E 0%N d) as Hf. pose proof (n_str_digits 0) as Hdg. pose proof (n_str_nonempty 0) as Hne.
      destruct (n_str 0) as [|c t]; [congruence|]. cbn [app py_fraction].
      cbn [digits forallb] in Hdg. apply andb_true_iff in Hdg. destruct Hdg as [Hc _].
      destruct (ascii_digit_props c Hc) as [_ [_ [_ [_ [H45 [H43 _]]]]]].
      replace (c =? 43) with false by (symmetry; apply Z.eqb_neq; exact H43).
      replace (c =? 45) with false by (symmetry; apply Z.eqb_neq; exact H45). exact Hf.
    + change (z_str (Zpos p)) with (n_str (Npos p)).
      pose proof (frac_body_written E (Npos p) d) as Hf. pose proof (n_str_digits (Npos p)) as Hdg. pose proof (n_str_nonempty (Npos p)) as Hne.
      destruct (n_str (Npos p)) as [|c t]; [congruence|]. cbn [app py_fraction].
      cbn [digits forallb] in Hdg. apply andb_true_iff in Hdg. destruct Hdg as [Hc _].
      destruct (ascii_digit_props c Hc) as [_ [_ [_ [_ [H45 [H43 _]]]]]].
      replace (c =? 43) with false by (symmetry; apply Z.eqb_neq; exact H43).
      replace (c =? 45) with false by (symmetry; apply Z.eqb_neq; exact H45). exact Hf.
    + cbn [z_str app py_fraction]. change (45 =? 43) with false. change (45 =? 45) with true. cbv iota.
      rewrite (frac_body_written E (Npos p) d). reflexivity.
Qed.

Lemma parse_multiplier_written : forall E w, stv_weight_ok E w = true ->
  parse_multiplier E (w_str w) = w_val E w /\ (exists v, w_val E w = Some v) /\ nonspace (w_str w) = true.
Proof.
  intros E [q|s] H.
  - cbn [w_str w_val]. split; [apply parse_multiplier_q; exact H|]. split; [eexists; reflexivity|apply q_str_nonspace].
  - cbn [w_str w_val]. cbn [stv_weight_ok] in H.
    apply andb_true_iff in H. destruct H as [H H5]. apply andb_true_iff in H. destruct H as [H H4].
    apply andb_true_iff in H. destruct H as [H H3]. apply andb_true_iff in H. destruct H as [H1 H2].
    apply negb_true_iff in H2. apply negb_true_iff in H3.
    split; [|split; [destruct (dec_val E s) as [v|]; [eexists; reflexivity|discriminate]|exact H5]].
    unfold parse_multiplier. rewrite H2, H3, H4. reflexivity.
Qed.

Lemma last_is_snoc : forall c s, last_is c (s ++ [c]) = true.
Proof. intros. unfold last_is. rewrite rev_app_distr. cbn [rev app]. apply Z.eqb_refl. Qed.

Lemma last_is_no : forall c s, smem c s = false -> last_is c s = false.
Proof.
  intros c s H. unfold last_is. destruct (rev s) as [|x l] eqn:Hr; [reflexivity|].
  destruct (x =? c) eqn:Hx; [|reflexivity]. apply Z.eqb_eq in Hx. subst x.
  assert (Hin : In c s) by (apply in_rev; rewrite Hr; left; reflexivity).
  unfold smem in H. assert (Ht : existsb (Z.eqb c) s = true) by (apply existsb_exists; exists c; split; [exact Hin|apply Z.eqb_refl]).
  rewrite Ht in H. discriminate.
Qed.

(* ================================================================ 5. nicknames: distinct, not empty, made of harmless characters *)
Lemma strs_mem_false_notin : forall x l, strs_mem x l = false -> ~ In x l.
Proof.
  intros x l H Hin. unfold strs_mem in H.
  assert (Ht : existsb (str_eqb x) l = true) by (apply existsb_exists; exists x; split; [exact Hin|apply str_eqb_refl]).
  rewrite Ht in H. discriminate.
Qed.

Lemma NoDup_snoc : forall (A : Type) (l : list A) x, NoDup l -> ~ In x l -> NoDup (l ++ [x]).
Proof.
  intros A l x Hl Hx. induction Hl as [|y l Hy Hl IH]; simpl.
  - constructor; [intros []|constructor].
  - constructor.
    + intros Hin. apply in_app_or in Hin. destruct Hin as [Hin|[Heq|[]]]; [contradiction|]. subst. apply Hx. left; reflexivity.
    + apply IH. intros Hin. apply Hx. right; exact Hin.
Qed.

Lemma initials_nicks_spec : forall E names seen l, initials_nicks E names seen = Some l -> NoDup seen ->
  l = seen ++ map (name_to_initials E) names /\ NoDup l /\ Forall (fun i => i <> []) (map (name_to_initials E) names).
Proof.
  intros E names. induction names as [|nm t IH]; intros seen l H Hnd; cbn [initials_nicks map] in *.
  - inversion H; subst. rewrite app_nil_r. split; [reflexivity|split; [exact Hnd|constructor]].
  - destruct (name_to_initials E nm) as [|c i] eqn:Hi; [discriminate|]. cbn [orb] in H.
    destruct (str_eqb (c :: i) s_end); [discriminate|]. cbn [orb] in H.
    destruct (strs_mem (c :: i) seen) eqn:Hm; [discriminate|].
    destruct (IH (seen ++ [c :: i]) l H (NoDup_snoc _ seen (c :: i) Hnd (strs_mem_false_notin _ _ Hm))) as [H1 [H2 H3]].
    split; [rewrite H1, <- app_assoc; reflexivity|split; [exact H2|constructor; [discriminate|exact H3]]].
Qed.

Lemma n_letters_aux_spec : forall fuel k pow len, pow = 26 ^ Z.of_nat k -> len <= pow + Z.of_nat fuel -> (1 <= k)%nat ->
  len <= 26 ^ Z.of_nat (n_letters_aux fuel k pow len) /\ (1 <= n_letters_aux fuel k pow len)%nat.
Proof.
  induction fuel as [|f IH]; intros k pow len Hp Hl Hk; cbn [n_letters_aux].
  - split; [lia|exact Hk].
  - destruct (pow <? len) eqn:Hlt.
    + apply Z.ltb_lt in Hlt. apply IH; [|  |lia].
      * rewrite Nat2Z.inj_succ, Z.pow_succ_r by lia. lia.
      * assert (0 < pow) by (subst pow; apply Z.pow_pos_nonneg; lia). lia.
    + apply Z.ltb_ge in Hlt. split; [lia|exact Hk].
Qed.

Lemma n_letters_spec : forall n, Z.of_nat n <= 26 ^ Z.of_nat (n_letters n) /\ (1 <= n_letters n)%nat.
Proof. intros n. unfold n_letters. apply n_letters_aux_spec; [reflexivity|lia|lia]. Qed.

Lemma nick_letters_inj : forall k i j, 0 <= i < 26 ^ Z.of_nat k -> 0 <= j < 26 ^ Z.of_nat k ->
  nick_letters k i = nick_letters k j -> i = j.
Proof.
  induction k as [|k IH]; intros i j Hi Hj H.
  - change (26 ^ Z.of_nat 0) with 1 in *. lia.
  - rewrite Nat2Z.inj_succ, Z.pow_succ_r in Hi, Hj by lia. pose proof (f_equal (hd 0) H) as H1. pose proof (f_equal (@tl Z) H) as H2.
    change (97 + i mod 26 = 97 + j mod 26) in H1. change (nick_letters k (i / 26) = nick_letters k (j / 26)) in H2.
    assert (Hd : i / 26 = j / 26).
    { apply IH; [| |exact H2]; split; try (apply Z.div_pos; lia); apply Z.div_lt_upper_bound; lia. }
    pose proof (Z.div_mod i 26 ltac:(lia)) as Ei. pose proof (Z.div_mod j 26 ltac:(lia)) as Ej. lia.
Qed.

Lemma letter_ok : forall c, 97 <= c <= 122 -> nick_char_ok c = true.
Proof.
  intros c H. unfold nick_char_ok.
  replace (c =? 35) with false by (symmetry; apply Z.eqb_neq; lia).
  replace (c =? 88) with false by (symmetry; apply Z.eqb_neq; lia).
  unfold is_space, spaces. cbn [existsb].
  repeat match goal with |- context [c =? ?k] => replace (c =? k) with false by (symmetry; apply Z.eqb_neq; lia) end.
  reflexivity.
Qed.

Lemma nick_letters_good : forall k i, (1 <= k)%nat -> nick_good (nick_letters k i).
Proof.
  intros k i Hk. split.
  - destruct k; [lia|]. discriminate.
  - clear Hk. revert i. induction k as [|k IH]; intros i; cbn [nick_letters forallb]; [reflexivity|].
    rewrite IH, andb_true_r. apply letter_ok. pose proof (Z.mod_pos_bound i 26). lia.
Qed.

Lemma ordinal_from_spec : forall k n i, (1 <= k)%nat -> 0 <= i -> i + Z.of_nat n <= 26 ^ Z.of_nat k ->
  length (ordinal_from k n i) = n /\ Forall nick_good (ordinal_from k n i) /\ NoDup (ordinal_from k n i) /\
  (forall x, In x (ordinal_from k n i) -> exists j, i <= j < i + Z.of_nat n /\ x = nick_letters k j).
Proof.
  intros k n. induction n as [|n IH]; intros i Hk Hi Hb; cbn [ordinal_from].
  - split; [reflexivity|split; [constructor|split; [constructor|intros x []]]].
  - destruct (IH (i + 1) Hk) as [H1 [H2 [H3 H4]]]; [lia|lia|].
    split; [cbn [length]; rewrite H1; reflexivity|]. split; [constructor; [apply nick_letters_good; exact Hk|exact H2]|]. split.
    + constructor; [|exact H3]. intros Hin. destruct (H4 _ Hin) as [j [Hj Heq]].
      apply nick_letters_inj in Heq; lia.
    + intros x [Hx|Hx]; [exists i; split; [lia|symmetry; exact Hx]|].
      destruct (H4 x Hx) as [j [Hj Heq]]. exists j. split; [lia|exact Heq].
Qed.

Lemma candidate_nicks_good : forall E names,
  Forall (fun nm => forallb nick_char_ok (name_to_initials E nm) = true) names ->
  length (candidate_nicks E names) = length names /\ NoDup (candidate_nicks E names) /\ Forall nick_good (candidate_nicks E names).
Proof.
  intros E names Hok. unfold candidate_nicks. destruct (initials_nicks E names []) as [l|] eqn:Hi.
  - destruct (initials_nicks_spec E names [] l Hi (NoDup_nil _)) as [H1 [H2 H3]]. cbn [app] in H1. subst l.
    split; [apply map_length|split; [exact H2|]].
    clear Hi H2. induction names as [|nm t IH]; cbn [map]; [constructor|].
    inversion Hok; subst. inversion H3; subst. constructor; [split; assumption|apply IH; assumption].
  - unfold ordinal_nicks. destruct (n_letters_spec (length names)) as [Hb Hk].
    destruct (ordinal_from_spec (n_letters (length names)) (length names) 0 Hk) as [H1 [H2 [H3 _]]]; [lia|lia|].
    split; [exact H1|split; [exact H3|exact H2]].
Qed.

(* ================================================================ 6. candidate lines and the nickname dictionary *)
Definition cid (c : cand) : positive := match c with (i, _, _) => i end.
Definition cnm (c : cand) : str := match c with (_, nm, _) => nm end.
Definition cwd (c : cand) : bool := match c with (_, _, w) => w end.
Definition cline (c : cand) (n : str) : str := (if cwd c then s_withdrawn else s_candidate) ++ 61 :: n ++ 32 :: cnm c.
Fixpoint zip_lines (cs : list cand) (ns : list str) : list str :=
  match cs, ns with
  | c :: cs', n :: ns' => cline c n :: zip_lines cs' ns'
  | _, _ => []
  end.
Fixpoint zseq (s : Z) (n : nat) : list Z := match n with O => [] | S n' => s :: zseq (s + 1) n' end.

Lemma pos_mem_in : forall c l, pos_mem c l = true <-> In c l.
Proof.
  intros c l. induction l as [|x l IH]; simpl; [split; [discriminate|intros []]|].
  rewrite orb_true_iff, IH, Pos.eqb_eq. split; intros [H|H]; auto.
Qed.

Lemma pos_mem_false : forall c l, pos_mem c l = false <-> ~ In c l.
Proof. intros c l. rewrite <- pos_mem_in. destruct (pos_mem c l); split; intros H; congruence. Qed.

Lemma pos_nodup_NoDup : forall l, pos_nodup l = true -> NoDup l.
Proof.
  induction l as [|x l IH]; intros H; [constructor|]. simpl in H. apply andb_true_iff in H. destruct H as [H1 H2].
  apply negb_true_iff in H1. constructor; [apply pos_mem_false; exact H1|apply IH; exact H2].
Qed.

Lemma uniq_cands_id : forall cs seen, NoDup (map cid cs) -> (forall c, In c cs -> ~ In (cid c) seen) -> uniq_cands cs seen = cs.
Proof.
  induction cs as [|[[i nm] w] t IH]; intros seen Hnd Hs; cbn [uniq_cands]; [reflexivity|].
  cbn [map cid] in Hnd. inversion Hnd as [|? ? Hi Ht]; subst.
  assert (Hm : pos_mem i seen = false) by (apply pos_mem_false; exact (Hs (i, nm, w) (or_introl eq_refl))).
  rewrite Hm. f_equal. apply IH; [exact Ht|].
  intros c Hc Hin. apply in_app_or in Hin. destruct Hin as [Hin|[Heq|[]]].
  - exact (Hs c (or_intror Hc) Hin).
  - apply Hi. rewrite Heq. apply in_map. exact Hc.
Qed.

Lemma nick_of_app : forall i pre pn rest restn, ~ In i pre -> length pre = length pn ->
  nick_of i (pre ++ rest) (pn ++ restn) = nick_of i rest restn.
Proof.
  induction pre as [|j pre IH]; intros pn rest restn Hi Hl; destruct pn as [|n pn]; try discriminate; [reflexivity|].
  cbn [app nick_of]. replace (Pos.eqb i j) with false.
  - apply IH; [intros H; apply Hi; right; exact H|simpl in Hl; lia].
  - symmetry. apply Pos.eqb_neq. intros Heq. apply Hi. left. symmetry. exact Heq.
Qed.

Lemma cand_lines_zip : forall cs ns pre pn, length cs = length ns -> length pre = length pn -> NoDup (pre ++ map cid cs) ->
  map (fun c => cand_line c (pre ++ map cid cs) (pn ++ ns)) cs = zip_lines cs ns.
Proof.
  induction cs as [|[[i nm] w] t IH]; intros ns pre pn Hl Hp Hnd; destruct ns as [|n ns]; try discriminate; [reflexivity|].
  cbn [map zip_lines cid]. f_equal.
  - unfold cand_line, cline. cbn [cwd cnm].
    rewrite nick_of_app; [|apply NoDup_remove_2 in Hnd; intros H; apply Hnd; apply in_or_app; left; exact H|exact Hp].
    cbn [nick_of]. rewrite Pos.eqb_refl. destruct w; reflexivity.
  - replace (pre ++ i :: map cid t) with ((pre ++ [i]) ++ map cid t) by (rewrite <- app_assoc; reflexivity).
    replace (pn ++ n :: ns) with ((pn ++ [n]) ++ ns) by (rewrite <- app_assoc; reflexivity).
    apply IH; [simpl in Hl; lia|rewrite !app_length; simpl; lia|rewrite <- app_assoc; exact Hnd].
Qed.

Lemma notin_strs_mem : forall x l, ~ In x l -> strs_mem x l = false.
Proof.
  intros x l H. unfold strs_mem. destruct (existsb (str_eqb x) l) eqn:He; [|reflexivity].
  apply existsb_exists in He. destruct He as [y [Hy Hxy]]. apply str_eqb_eq in Hxy. subst y. contradiction.
Qed.

Definition cname_ok (c : cand) : Prop := name_ok (cnm c) = true.

Lemma nick_no35 : forall n, forallb nick_char_ok n = true -> smem 35 n = false /\ smem 88 n = false /\ smem 10 n = false.
Proof.
  intros n H. rewrite forallb_forall in H.
  assert (Hno : forall k, (forall c, In c n -> c <> k) -> smem k n = false).
  { intros k Hk. unfold smem. destruct (existsb (Z.eqb k) n) eqn:He; [|reflexivity].
    apply existsb_exists in He. destruct He as [c [Hin Hkc]]. apply Z.eqb_eq in Hkc. subst c. exfalso. exact (Hk k Hin eq_refl). }
  repeat split; apply Hno; intros c Hc Heq; specialize (H c Hc); subst c; discriminate.
Qed.

Lemma name_ok_parts : forall nm, name_ok nm = true ->
  nm <> [] /\ smem 35 nm = false /\ smem 10 nm = false /\
  match nm with [] => true | c :: _ => negb (is_space c) end = true /\
  match rev nm with [] => true | c :: _ => negb (is_space c) end = true.
Proof.
  intros nm H. unfold name_ok, text_ok, no_outer_space in H.
  apply andb_true_iff in H. destruct H as [H1 H]. apply andb_true_iff in H. destruct H as [H H4].
  apply andb_true_iff in H. destruct H as [H2 H3]. apply andb_true_iff in H4. destruct H4 as [H4 H5].
  apply negb_true_iff in H2. apply negb_true_iff in H3.
  repeat split; try assumption. destruct nm; [discriminate|discriminate].
Qed.

Lemma cline_parse : forall c n, cname_ok c -> nick_good n ->
  parse_header_line (cline c n) = HKeyVal (if cwd c then s_withdrawn else s_candidate) (n ++ 32 :: cnm c).
Proof.
  intros c n Hc [Hne Hn]. unfold cline. destruct (name_ok_parts _ Hc) as [Hnm [H35 [_ [_ Hlast]]]].
  destruct (nick_no35 n Hn) as [Hn35 _].
  apply parse_header_kv; [destruct (cwd c); reflexivity|].
  unfold val_ok. rewrite smem_app, smem_cons, Hn35, H35. cbn [orb negb andb].
  rewrite rev_app_distr. cbn [rev]. rewrite <- app_assoc.
  destruct (rev (cnm c)) as [|y l] eqn:Hr; [|exact Hlast].
  apply (f_equal (@rev Z)) in Hr. rewrite rev_involutive in Hr. exfalso. apply Hnm. exact Hr.
Qed.

Lemma load_system_cands : forall E cs ns rest sc c0 m0 order,
  length cs = length ns -> Forall cname_ok cs -> Forall nick_good ns -> NoDup ns ->
  (forall n, In n ns -> ~ In n (map fst m0)) ->
  load_system E false (zip_lines cs ns ++ rest) sc c0 m0 order =
  load_system E false rest sc (c0 ++ map (fun c => (cnm c, cwd c)) cs)
              (m0 ++ combine ns (zseq (Z.of_nat (length c0) + 1) (length ns))) order.
Proof.
  intros E cs. induction cs as [|c t IH]; intros ns rest sc c0 m0 order Hl Hc Hn Hnd Hfresh; destruct ns as [|n ns]; try discriminate.
  - cbn [zip_lines app map combine zseq length]. rewrite !app_nil_r. reflexivity.
  - inversion Hc as [|? ? Hc1 Hc2]; subst. inversion Hn as [|? ? Hn1 Hn2]; subst. inversion Hnd as [|? ? Hd1 Hd2]; subst.
    cbn [zip_lines app]. cbn [load_system]. rewrite (cline_parse c n Hc1 Hn1).
    destruct (name_ok_parts _ Hc1) as [Hnm [_ [_ [Hhead _]]]]. destruct Hn1 as [Hne Hgood].
    assert (Hk : forall k, k = (if cwd c then s_withdrawn else s_candidate) ->
                 str_eqb k s_ballots = false /\ str_eqb k s_order = false /\ (str_eqb k s_candidate || str_eqb k s_withdrawn) = true
                 /\ str_eqb k s_withdrawn = cwd c).
    { intros k Hk. subst k. destruct (cwd c); repeat split; reflexivity. }
    destruct (Hk _ eq_refl) as [K1 [K2 [K3 K4]]]. rewrite K1, K2, K3, K4.
    rewrite (split1_nick_name n (cnm c) Hne (nick_char_nonspace n Hgood) Hnm Hhead).
    rewrite aset_fresh by (apply notin_strs_mem, Hfresh; left; reflexivity).
    rewrite IH; [|simpl in Hl; lia|exact Hc2|exact Hn2|exact Hd2|].
    + f_equal.
      * rewrite <- app_assoc. reflexivity.
      * rewrite <- app_assoc. cbn [app length combine zseq]. rewrite app_length. cbn [length].
        replace (Z.of_nat (length c0 + 1) + 1) with (Z.of_nat (length c0) + 1 + 1) by lia. reflexivity.
    + intros x Hx Hin. rewrite map_app in Hin. apply in_app_or in Hin. destruct Hin as [Hin|[Heq|[]]].
      * exact (Hfresh x (or_intror Hx) Hin).
      * cbn [fst] in Heq. subst x. contradiction.
Qed.

(* the dictionary built from the candidate lines finds the position of the candidate a nickname was written for *)
Lemma nick_of_in : forall c ids ns n, nick_of c ids ns = Some n -> In n ns.
Proof.
  intros c ids. induction ids as [|j ids IH]; intros ns n H; destruct ns as [|m ns]; try discriminate.
  cbn [nick_of] in H. destruct (Pos.eqb c j); [inversion H; left; reflexivity|right; eapply IH; eauto].
Qed.

Lemma nick_of_lookup : forall cs ns c n k, length cs = length ns -> NoDup ns -> nick_of c (map cid cs) ns = Some n ->
  exists p, index_of c cs k = Some p /\ nick_get (combine ns (zseq k (length ns))) n = Some p.
Proof.
  induction cs as [|[[i nm] w] t IH]; intros ns c n k Hl Hnd H; destruct ns as [|m ns]; try discriminate.
  inversion Hnd as [|? ? Hd1 Hd2]; subst.
  cbn [map cid nick_of] in H. cbn [index_of length zseq combine]. unfold nick_get. cbn [aget].
  destruct (Pos.eqb c i) eqn:Hci.
  - inversion H; subst. exists k. rewrite str_eqb_refl. split; reflexivity.
  - assert (Hne : str_eqb n m = false).
    { destruct (str_eqb n m) eqn:He; [|reflexivity]. apply str_eqb_eq in He. subst m. exfalso. apply Hd1. eapply nick_of_in; eauto. }
    rewrite Hne. apply (IH ns c n (k + 1)); [simpl in Hl; lia|exact Hd2|exact H].
Qed.

Lemma ranking_lookup : forall cs ns r, length cs = length ns -> NoDup ns -> Forall nick_good ns ->
  forallb (fun c => pos_mem c (map cid cs)) r = true ->
  exists l ps, ranking_nicks r (map cid cs) ns = Some l /\ indices r cs = Some ps /\
               lookup_nicks (combine ns (zseq 1 (length ns))) l = Some ps /\ Forall nick_good l /\ length l = length r.
Proof.
  intros cs ns r Hl Hnd Hg. induction r as [|c r IH]; intros Hr.
  - exists [], []. repeat split; constructor.
  - cbn [forallb] in Hr. apply andb_true_iff in Hr. destruct Hr as [Hc Hr]. destruct (IH Hr) as [l [ps [H1 [H2 [H3 [H4 H5]]]]]].
    assert (Hn : exists n, nick_of c (map cid cs) ns = Some n).
    { apply pos_mem_in in Hc. clear - Hc Hl. revert ns Hl. induction cs as [|[[i nm] w] t IHt]; intros ns Hl; [destruct Hc|].
      destruct ns as [|m ns]; [discriminate|]. cbn [map cid nick_of]. destruct (Pos.eqb c i) eqn:He; [eexists; reflexivity|].
      apply IHt; [|simpl in Hl; lia]. destruct Hc as [Hc|Hc]; [|exact Hc]. cbn [cid] in Hc. subst i. rewrite Pos.eqb_refl in He. discriminate. }
    destruct Hn as [n Hn]. destruct (nick_of_lookup cs ns c n 1 Hl Hnd Hn) as [p [Hp1 Hp2]].
    exists (n :: l), (p :: ps). cbn [ranking_nicks indices lookup_nicks]. rewrite Hn, H1, Hp1, H2, Hp2, H3.
    repeat split; try reflexivity.
    + constructor; [|exact H4]. rewrite Forall_forall in Hg. apply Hg. eapply nick_of_in; eauto.
    + cbn [length]. rewrite H5. reflexivity.
Qed.

(* ================================================================ 7. ballot lines *)
Lemma load_votes_line : forall E nm l rest i n acc first more,
  strip l <> [] -> str_eqb (strip l) s_end = false -> words (strip l) = first :: more ->
  load_votes E false false nm (l :: rest) i n acc =
  match (if last_is 88 first
         then match parse_multiplier E (removelast first) with Some m => Some (m, more) | None => None end
         else Some (1 # 1, first :: more)) with
  | None => ParseError
  | Some (mult, items) =>
      lbind (match lookup_nicks nm items with Some v => Ok v | None => ParseError end)
            (fun vote => load_votes E false false nm rest (i + 1) n (vadd acc vote mult))
  end.
Proof.
  intros E nm l rest i n acc first more H1 H2 H3. cbn [load_votes]. rewrite H2.
  revert H1 H3. destruct (strip l) as [|z s]; intros H1 H3; [congruence|]. rewrite H3. reflexivity.
Qed.

Lemma str_eqb_end_88 : forall x, smem 88 x = true -> str_eqb x s_end = false.
Proof.
  intros x H. destruct (str_eqb x s_end) eqn:He; [|reflexivity]. apply str_eqb_eq in He. subst x. discriminate.
Qed.

Lemma qone_red : forall v, Qeq_bool v 1 = true -> Qred (0 + (1 # 1)) = Qred v.
Proof. intros v H. apply Qred_complete. apply Qeq_bool_iff in H. rewrite H. reflexivity. Qed.

Lemma ballot_line_step : forall E nm ids nicks r w l ps v rest i n acc line,
  ranking_nicks r ids nicks = Some l -> Forall nick_good l -> length l = length r -> lookup_nicks nm l = Some ps ->
  stv_weight_ok E w = true -> w_val E w = Some v ->
  ballot_line E false r w ids nicks = Some line ->
  exists m, load_votes E false false nm (line :: rest) i n acc = load_votes E false false nm rest (i + 1) n (vadd acc ps m)
            /\ Qred (0 + m) = Qred v.
Proof.
  intros E nm ids nicks r w l ps v rest i n acc line Hl Hg Hlen Hps Hw Hv Hline.
  destruct (parse_multiplier_written E w Hw) as [Hpm [_ Hns]].
  unfold ballot_line in Hline. rewrite Hl in Hline. cbv zeta in Hline.
  destruct (negb (w_is_one E w) || match r with [] => true | _ :: _ => false end || (negb false && str_eqb (join_sp l) s_end)) eqn:Hneeds.
  - (* the multiplier is written *)
    inversion Hline; subst line. clear Hline.
    assert (Hmx : nonspace (w_str w ++ [88]) = true).
    { rewrite nonspace_app, Hns. reflexivity. }
    assert (Hmne : w_str w ++ [88] <> []) by (destruct (w_str w); discriminate).
    assert (H88 : smem 88 (w_str w ++ [88]) = true) by (rewrite smem_app; cbn [smem existsb]; rewrite Z.eqb_refl; apply orb_true_r).
    exists v. split; [|apply Qred_complete, Qplus_0_l].
    destruct l as [|n0 l0].
    + cbn [join_sp]. rewrite app_nil_r.
      assert (Hstrip : strip (w_str w ++ [88; 32]) = w_str w ++ [88]).
      { replace (w_str w ++ [88; 32]) with ((w_str w ++ [88]) ++ [32]) by (rewrite <- app_assoc; reflexivity).
        apply strip_trailing_space; [apply nonspace_no_outer; exact Hmx|exact Hmne|reflexivity]. }
      rewrite (load_votes_line E nm _ rest i n acc (w_str w ++ [88]) []).
      * rewrite last_is_snoc, removelast_last, Hpm, Hv. cbn [lookup_nicks] in Hps. inversion Hps; subst ps. reflexivity.
      * rewrite Hstrip. exact Hmne.
      * rewrite Hstrip. apply str_eqb_end_88. exact H88.
      * rewrite Hstrip. unfold words. rewrite (words_one _ [] Hmne Hmx). reflexivity.
    + destruct (join_sp_nonspace_ends (n0 :: l0) Hg) as [Hj1 Hj2]; [discriminate|].
      assert (Hshape : (w_str w ++ [88; 32]) ++ join_sp (n0 :: l0) = (w_str w ++ [88]) ++ 32 :: join_sp (n0 :: l0)).
      { rewrite <- !app_assoc. reflexivity. }
      rewrite Hshape.
      assert (Hstrip : strip ((w_str w ++ [88]) ++ 32 :: join_sp (n0 :: l0)) = (w_str w ++ [88]) ++ 32 :: join_sp (n0 :: l0)).
      { apply strip_id. apply no_outer_space_app; [exact Hmne|discriminate|apply nonspace_head; exact Hmx|].
        unfold no_outer_space in Hj1. apply andb_true_iff in Hj1. destruct Hj1 as [_ Hj1]. cbn [rev].
        destruct (rev (join_sp (n0 :: l0))) as [|y rl] eqn:Hr; [|exact Hj1].
        apply (f_equal (@rev Z)) in Hr. rewrite rev_involutive in Hr. exfalso. apply Hj2. exact Hr. }
      rewrite (load_votes_line E nm _ rest i n acc (w_str w ++ [88]) (n0 :: l0)).
      * rewrite last_is_snoc, removelast_last, Hpm, Hv, Hps. reflexivity.
      * rewrite Hstrip. destruct (w_str w); discriminate.
      * rewrite Hstrip. apply str_eqb_end_88. rewrite smem_app, H88. reflexivity.
      * rewrite Hstrip. unfold words. rewrite (words_aux_sep _ _ Hmne Hmx). f_equal. apply (words_join (n0 :: l0) Hg).
  - (* weight one: no multiplier *)
    inversion Hline; subst line. clear Hline. cbn [app].
    apply orb_false_iff in Hneeds. destruct Hneeds as [Hneeds Hend]. apply orb_false_iff in Hneeds. destruct Hneeds as [Hone Hr].
    apply negb_false_iff in Hone. cbn [negb andb] in Hend.
    destruct l as [|n0 l0]; [destruct r; [discriminate|discriminate]|].
    destruct (join_sp_nonspace_ends (n0 :: l0) Hg) as [Hj1 Hj2]; [discriminate|].
    exists (1 # 1). split.
    + rewrite (load_votes_line E nm _ rest i n acc n0 l0).
      * inversion Hg as [|? ? [Hn0 Hc0] _]; subst. destruct (nick_no35 n0 Hc0) as [_ [H88 _]].
        rewrite (last_is_no 88 n0 H88), Hps. reflexivity.
      * rewrite (strip_id _ Hj1). exact Hj2.
      * rewrite (strip_id _ Hj1). exact Hend.
      * rewrite (strip_id _ Hj1). apply (words_join (n0 :: l0) Hg).
    + unfold w_is_one in Hone. rewrite Hv in Hone. apply qone_red. exact Hone.
Qed.

Lemma load_votes_end : forall E nm junk i n acc,
  load_votes E false false nm (s_end :: junk) i n acc = if i =? n then Ok acc else ParseError.
Proof. intros. cbn [load_votes]. change (strip s_end) with s_end. change (str_eqb s_end s_end) with true. reflexivity. Qed.

Lemma expected_positions : forall E votes cs v, expected_votes E votes cs = Some v ->
  exists vq, map fst vq = map fst votes /\ positions vq cs = Some v.
Proof.
  intros E votes cs. induction votes as [|[r w] t IH]; intros v H; cbn [expected_votes] in H.
  - inversion H. exists []. split; reflexivity.
  - destruct (indices r cs) as [is_|] eqn:Hi; [|discriminate]. destruct (w_val E w) as [q|]; [|discriminate].
    destruct (expected_votes E t cs) as [ps|] eqn:Hp; [|discriminate]. inversion H; subst v.
    destruct (IH ps eq_refl) as [vq [H1 H2]]. exists ((r, Qred q) :: vq). split.
    + cbn [map fst]. rewrite H1. reflexivity.
    + cbn [positions]. rewrite Hi, H2. reflexivity.
Qed.

Lemma load_votes_ballots : forall E cs ns votes, length cs = length ns -> NoDup ns -> Forall nick_good ns ->
  forall bl v junk acc i n,
  forallb (fun rw => forallb (fun c => pos_mem c (map cid cs)) (fst rw)) votes = true ->
  forallb (fun rw => stv_weight_ok E (snd rw)) votes = true ->
  ballot_lines E false votes (map cid cs) ns = Some bl ->
  expected_votes E votes cs = Some v ->
  (forall pre r w post, acc ++ v = pre ++ (r, w) :: post -> existsb (fun rw => zlist_eqb r (fst rw)) pre = false) ->
  i + Z.of_nat (length votes) = n ->
  load_votes E false false (combine ns (zseq 1 (length ns))) (bl ++ s_end :: junk) i n acc = Ok (acc ++ v).
Proof.
  intros E cs ns votes Hl Hnd Hg. induction votes as [|[r w] t IH]; intros bl v junk acc i n Hin Hw Hbl Hex Hd Hn.
  - cbn [ballot_lines] in Hbl. inversion Hbl; subst bl. cbn [expected_votes] in Hex. inversion Hex; subst v.
    cbn [app]. rewrite load_votes_end. cbn [length] in Hn. replace (i =? n) with true by (symmetry; apply Z.eqb_eq; lia).
    rewrite app_nil_r. reflexivity.
  - cbn [forallb fst snd] in Hin, Hw. apply andb_true_iff in Hin. destruct Hin as [Hin1 Hin2].
    apply andb_true_iff in Hw. destruct Hw as [Hw1 Hw2].
    cbn [ballot_lines] in Hbl. destruct (ballot_line E false r w (map cid cs) ns) as [line|] eqn:Hline; [|discriminate].
    destruct (ballot_lines E false t (map cid cs) ns) as [ls|] eqn:Hls; [|discriminate]. inversion Hbl; subst bl. clear Hbl.
    cbn [expected_votes] in Hex. destruct (indices r cs) as [is_|] eqn:Hi; [|discriminate].
    destruct (w_val E w) as [q|] eqn:Hq; [|discriminate]. destruct (expected_votes E t cs) as [v'|] eqn:Hv'; [|discriminate].
    inversion Hex; subst v. clear Hex.
    destruct (ranking_lookup cs ns r Hl Hnd Hg Hin1) as [l [ps [R1 [R2 [R3 [R4 R5]]]]]].
    rewrite Hi in R2. inversion R2; subst ps. clear R2.
    destruct (ballot_line_step E _ _ _ r w l is_ q (ls ++ s_end :: junk) i n acc line R1 R4 R5 R3 Hw1 Hq Hline) as [m [Hstep Hm]].
    cbn [app]. rewrite Hstep. unfold vadd.
    rewrite badd_fresh by (apply (Hd acc is_ (Qred q) v'); reflexivity).
    rewrite Hm. rewrite (IH ls v' junk (acc ++ [(is_, Qred q)]) (i + 1) n Hin2 Hw2 eq_refl eq_refl).
    + rewrite <- app_assoc. reflexivity.
    + intros pre r0 w0 post Heq. apply (Hd pre r0 w0 post). rewrite <- Heq, <- app_assoc. reflexivity.
    + cbn [length] in Hn. lia.
Qed.

(* ================================================================ 8. the system lines *)
Definition kvline (p : str * str) : str := fst p ++ 61 :: snd p.
Fixpoint put_all (sc : syscomps) (kvs : list (str * str)) : option syscomps :=
  match kvs with
  | [] => Some sc
  | (k, v) :: t => match sc_put sc k v with Some sc' => put_all sc' t | None => None end
  end.
Definition sys_key (k : str) : bool :=
  key_ok k && negb (str_eqb k s_ballots) && negb (str_eqb k s_order) && negb (str_eqb k s_candidate || str_eqb k s_withdrawn).

Lemma load_system_kvs : forall E kvs rest sc c m o,
  Forall (fun p => sys_key (fst p) = true /\ val_ok (snd p) = true) kvs ->
  load_system E false (map kvline kvs ++ rest) sc c m o =
  match put_all sc kvs with Some sc' => load_system E false rest sc' c m o | None => ParseError end.
Proof.
  intros E kvs. induction kvs as [|[k v] t IH]; intros rest sc c m o H; [reflexivity|].
  inversion H as [|? ? [Hk Hv] Ht]; subst. cbn [fst snd] in Hk, Hv.
  unfold sys_key in Hk. apply andb_true_iff in Hk. destruct Hk as [Hk K4]. apply andb_true_iff in Hk. destruct Hk as [Hk K3].
  apply andb_true_iff in Hk. destruct Hk as [K1 K2]. apply negb_true_iff in K2. apply negb_true_iff in K3. apply negb_true_iff in K4.
  cbn [map app put_all]. unfold kvline at 1. cbn [fst snd]. cbn [load_system].
  rewrite (parse_header_kv k v K1 Hv), K2, K3, K4.
  destruct (sc_put sc k v) as [sc'|]; [apply IH; exact Ht|reflexivity].
Qed.

Definition tie_wrap (tie : option (option Z)) (base : ev) : ev :=
  match tie with
  | None => base
  | Some None => EvTie base (TbPre true (TbOrder true))
  | Some (Some n) => EvTie base (TbPre true (TbSort (Some n)))
  end.
Definition build_ev (fixed : option Z) (tie : option (option Z)) (q : str) (m : bool) : ev :=
  let t := tie_wrap tie (EvTV false false (-1) true (QNamed q) m) in
  match fixed with Some n => EvFixed t n | None => t end.
Definition rnd_of (tie : option (option Z)) : option str :=
  match tie with None => None | Some None => Some s_non | Some (Some n) => Some (z_str n) end.
Definition seat_of (fixed seats : option Z) : option Z := match fixed with Some n => Some n | None => seats end.

Lemma base_ok_shape : forall e, base_ok e = true ->
  exists q m, e = EvTV false false (-1) true (QNamed q) m /\ strs_mem q supported_quotas = true.
Proof.
  intros e H. destruct e as [u|dist ret el g q m|main t|e' n]; try discriminate.
  cbn [base_ok] in H. destruct dist; [discriminate|]. destruct ret; [discriminate|].
  destruct el as [|p|p]; try discriminate. destruct p; try discriminate.
  destruct g; [|discriminate]. destruct q as [nm|c|]; try discriminate. exists nm, m. split; [reflexivity|exact H].
Qed.

Lemma tie_ok_shape : forall e, tie_ok e = true ->
  exists tie q m, e = tie_wrap tie (EvTV false false (-1) true (QNamed q) m) /\ strs_mem q supported_quotas = true /\
                  (forall n, tie = Some (Some n) -> 0 <= n).
Proof.
  intros e H.
  assert (Hbase : base_ok e = true -> exists tie q m, e = tie_wrap tie (EvTV false false (-1) true (QNamed q) m) /\
                                      strs_mem q supported_quotas = true /\ (forall n, tie = Some (Some n) -> 0 <= n)).
  { intros Hb. destruct (base_ok_shape e Hb) as [q [m [He Hq]]]. exists None, q, m. split; [exact He|split; [exact Hq|discriminate]]. }
  destruct e as [u|dist ret el g q m|main t|e' n]; try (apply Hbase; exact H).
  destruct t as [simple inner|nr|seed|]; try (apply Hbase; exact H).
  destruct simple; [|apply Hbase; exact H].
  destruct inner as [s2 i2|nr|seed|]; try (apply Hbase; exact H).
  - destruct nr; [|apply Hbase; exact H]. cbn [tie_ok] in H.
    destruct (base_ok_shape main H) as [q [m [He Hq]]]. exists (Some None), q, m. subst main.
    split; [reflexivity|split; [exact Hq|discriminate]].
  - destruct seed as [sd|]; [|apply Hbase; exact H]. cbn [tie_ok] in H. apply andb_true_iff in H. destruct H as [H1 H2].
    destruct (base_ok_shape main H1) as [q [m [He Hq]]]. exists (Some (Some sd)), q, m. subst main.
    split; [reflexivity|split; [exact Hq|]]. intros n Hn. inversion Hn; subst. apply Z.leb_le. exact H2.
Qed.

Lemma ev_ok_shape : forall e seats, ev_ok e seats = true ->
  exists fixed tie q m, e = build_ev fixed tie q m /\ strs_mem q supported_quotas = true /\
                        (forall n, tie = Some (Some n) -> 0 <= n) /\ (fixed <> None -> seats = None).
Proof.
  intros e seats H.
  assert (Hgen : tie_ok e = true -> exists fixed tie q m, e = build_ev fixed tie q m /\ strs_mem q supported_quotas = true /\
                                      (forall n, tie = Some (Some n) -> 0 <= n) /\ (fixed <> None -> seats = None)).
  { intros Ht. destruct (tie_ok_shape e Ht) as [tie [q [m [He [Hq Hn]]]]]. exists None, tie, q, m.
    split; [exact He|split; [exact Hq|split; [exact Hn|congruence]]]. }
  destruct e as [u|dist ret el g q m|main t|e' n]; try (apply Hgen; exact H).
  cbn [ev_ok] in H. destruct seats as [s|]; [discriminate|].
  destruct (tie_ok_shape e' H) as [tie [q [m [He [Hq Hn]]]]]. exists (Some n), tie, q, m. subst e'.
  split; [reflexivity|split; [exact Hq|split; [exact Hn|reflexivity]]].
Qed.

Definition sys_kvs (name : option str) (fixed : option Z) (tie : option (option Z)) (q : str) (m : bool) (seats : option Z)
  : list (str * str) :=
  match name with Some t => [(s_title, t)] | None => [] end ++
  match fixed with Some n => [(s_seats, z_str n)] | None => [] end ++
  [(s_method, s_BC); (s_quota, q)] ++ (if m then [(s_quota, s_mandatory)] else []) ++
  match rnd_of tie with Some r => [(s_random, r)] | None => [] end ++
  match seats with Some n => [(s_seats, z_str n)] | None => [] end.

Lemma dump_system_shape : forall name fixed tie q m seats, strs_mem q supported_quotas = true ->
  option_map (fun sl => sl ++ match seats with Some n => [kv "seats" (z_str n)] | None => [] end)
             (dump_system false true (SysVS name (build_ev fixed tie q m)))
  = Some (map kvline (sys_kvs name fixed tie q m seats)).
Proof.
  intros name fixed tie q m seats Hq. unfold build_ev, tie_wrap, sys_kvs, rnd_of.
  destruct fixed as [fx|]; destruct tie as [[sd|]|]; cbn [dump_system dump_ev dump_tiebreaker option_map];
    unfold dump_tveval; change (negb (-1 =? -1)) with false; cbv iota; rewrite Hq; destruct m; destruct name; destruct seats; reflexivity.
Qed.

Lemma dump_system_shape_ev : forall fixed tie q m seats, strs_mem q supported_quotas = true ->
  option_map (fun sl => sl ++ match seats with Some n => [kv "seats" (z_str n)] | None => [] end)
             (dump_system false true (SysEv (build_ev fixed tie q m)))
  = Some (map kvline (sys_kvs None fixed tie q m seats)).
Proof.
  intros fixed tie q m seats Hq. rewrite <- (dump_system_shape None fixed tie q m seats Hq).
  cbn [dump_system]. destruct (dump_ev true (build_ev fixed tie q m)); reflexivity.
Qed.

Definition sc_written (name : option str) (fixed : option Z) (tie : option (option Z)) (q : str) (m : bool) (seats : option Z)
  : syscomps :=
  {| sc_title := name; sc_method := Some s_BC; sc_quota := Some (q, if m then Some s_mandatory else None);
     sc_seats := option_map z_str (seat_of fixed seats); sc_random := rnd_of tie |}.

Lemma put_all_written : forall name fixed tie q m seats, (fixed <> None -> seats = None) ->
  put_all sc_empty (sys_kvs name fixed tie q m seats) = Some (sc_written name fixed tie q m seats).
Proof.
  intros name fixed tie q m seats Hfs. unfold sys_kvs, sc_written, seat_of.
  destruct fixed as [fx|]; [rewrite (Hfs ltac:(discriminate))|]; destruct seats; destruct (rnd_of tie); destruct m; destruct name; reflexivity.
Qed.

Lemma supported_cases : forall q, strs_mem q supported_quotas = true -> q = s_droop \/ q = s_hare.
Proof.
  intros q H. unfold strs_mem, supported_quotas in H. cbn [existsb] in H.
  apply orb_true_iff in H. destruct H as [H|H]; [left; apply str_eqb_eq; exact H|].
  apply orb_true_iff in H. destruct H as [H|H]; [right; apply str_eqb_eq; exact H|discriminate].
Qed.

Lemma nonempty_z_str : forall z, nonempty (z_str z) = true.
Proof. intros z. pose proof (z_str_nonempty z). destruct (z_str z); [congruence|reflexivity]. Qed.

Lemma guarded_int_z_str : forall E z, 0 <= z -> guarded_int E false (z_str z) = Some (Ok z).
Proof. intros E z H. rewrite (z_str_nonneg z H), guarded_int_n_str, Z2N.id by exact H. reflexivity. Qed.

Lemma add_tiebreaker_written : forall E base tie, (forall n, tie = Some (Some n) -> 0 <= n) ->
  add_tiebreaker E false base (rnd_of tie) = Ok (tie_wrap tie base).
Proof.
  intros E base [[n|]|] H; cbn [rnd_of tie_wrap]; try reflexivity.
  unfold add_tiebreaker. rewrite nonempty_z_str. unfold s_non.
  rewrite (zchars_not (z_str n) 110 [111; 110] (z_str_chars n)) by (try reflexivity; lia).
  rewrite (guarded_int_z_str E n (H n eq_refl)). reflexivity.
Qed.

Lemma add_fixed_written : forall E e sn, add_fixed_seats E e (option_map z_str sn) = Ok (match sn with Some n => EvFixed e n | None => e end).
Proof. intros E e [n|]; cbn [option_map add_fixed_seats]; [|reflexivity]. rewrite nonempty_z_str, py_int_z_str. reflexivity. Qed.

Lemma create_system_written : forall E name fixed tie q m seats, strs_mem q supported_quotas = true ->
  (forall n, tie = Some (Some n) -> 0 <= n) -> (fixed <> None -> seats = None) ->
  create_system E false (sc_written name fixed tie q m seats) =
  Ok (name, match seats with Some n => EvFixed (build_ev fixed tie q m) n | None => build_ev fixed tie q m end).
Proof.
  intros E name fixed tie q m seats Hq Htie Hfs. unfold create_system, create_evaluator, sc_written.
  cbn [sc_method sc_quota sc_random sc_seats sc_title]. change (str_eqb s_BC s_GPCA) with false. cbv iota.
  change (str_eqb s_BC s_BC) with true. change (str_eqb s_BC s_blt) with false. cbn [negb andb]. cbv iota.
  assert (Hqs : quota_setting (Some (q, if m then Some s_mandatory else None)) = Ok (Some q, m)).
  { destruct (supported_cases q Hq); subst q; destruct m; reflexivity. }
  assert (Hqf : quota_function E false false (Some q) = Ok (QNamed q)).
  { destruct (supported_cases q Hq); subst q; reflexivity. }
  rewrite Hqs. cbn [lbind fst snd]. rewrite Hqf. cbn [lbind].
  rewrite (add_tiebreaker_written E _ tie Htie). cbn [lbind]. rewrite add_fixed_written. cbn [lbind].
  unfold build_ev, seat_of. destruct fixed as [fx|]; [rewrite (Hfs ltac:(discriminate))|]; destruct seats; reflexivity.
Qed.

(* ================================================================ 9. the round trip *)
Lemma text_ok_val : forall t, text_ok t = true -> val_ok t = true.
Proof.
  intros t H. unfold text_ok, no_outer_space in H. apply andb_true_iff in H. destruct H as [H H3].
  apply andb_true_iff in H. destruct H as [H1 _]. apply andb_true_iff in H3. destruct H3 as [_ H3].
  unfold val_ok. rewrite H1. exact H3.
Qed.

Lemma sys_kvs_ok : forall name fixed tie q m seats, strs_mem q supported_quotas = true ->
  match name with Some t => text_ok t | None => true end = true ->
  Forall (fun p => sys_key (fst p) = true /\ val_ok (snd p) = true) (sys_kvs name fixed tie q m seats).
Proof.
  intros name fixed tie q m seats Hq Hname. unfold sys_kvs.
  repeat (apply Forall_app; split).
  - destruct name as [t|]; constructor; [|constructor]. split; [reflexivity|apply text_ok_val; exact Hname].
  - destruct fixed; constructor; [|constructor]. split; [reflexivity|apply z_str_val_ok].
  - constructor; [split; reflexivity|]. constructor; [|constructor]. split; [reflexivity|].
    destruct (supported_cases q Hq); subst q; reflexivity.
  - destruct m; constructor; [|constructor]. split; reflexivity.
  - destruct tie as [[n|]|]; cbn [rnd_of];
      [constructor; [split; [reflexivity|apply z_str_val_ok]|constructor] | constructor; [split; reflexivity|constructor] | constructor].
  - destruct seats; constructor; [|constructor]. split; [reflexivity|apply z_str_val_ok].
Qed.

Lemma expected_votes_some : forall E cs votes,
  forallb (fun rw => forallb (fun c => pos_mem c (map cid cs)) (fst rw)) votes = true ->
  forallb (fun rw => stv_weight_ok E (snd rw)) votes = true ->
  exists v, expected_votes E votes cs = Some v.
Proof.
  intros E cs votes. induction votes as [|[r w] t IH]; intros Hin Hw; [exists []; reflexivity|].
  cbn [forallb fst snd] in Hin, Hw. apply andb_true_iff in Hin. destruct Hin as [Hin1 Hin2].
  apply andb_true_iff in Hw. destruct Hw as [Hw1 Hw2]. destruct (IH Hin2 Hw2) as [v Hv].
  assert (Hi : exists ps, indices r cs = Some ps).
  { clear - Hin1. induction r as [|c r IHr]; [exists []; reflexivity|].
    cbn [forallb] in Hin1. apply andb_true_iff in Hin1. destruct Hin1 as [Hc Hr]. destruct (IHr Hr) as [ps Hps].
    assert (Hx : exists p, index_of c cs 1 = Some p).
    { apply pos_mem_in in Hc. clear - Hc. generalize 1. induction cs as [|[[i nm] wd] cs IHc]; intros k; [destruct Hc|].
      cbn [index_of]. destruct (Pos.eqb c i) eqn:He; [eexists; reflexivity|]. apply IHc.
      destruct Hc as [Hc|Hc]; [|exact Hc]. cbn [cid] in Hc. subst i. rewrite Pos.eqb_refl in He. discriminate. }
    destruct Hx as [p Hp]. exists (p :: ps). cbn [indices]. rewrite Hp, Hps. reflexivity. }
  destruct Hi as [ps Hps]. destruct (parse_multiplier_written E w Hw1) as [_ [[q Hq] _]].
  exists ((ps, Qred q) :: v). cbn [expected_votes]. rewrite Hps, Hq, Hv. reflexivity.
Qed.

Lemma ballot_lines_some : forall E cs ns votes, length cs = length ns -> NoDup ns -> Forall nick_good ns ->
  forallb (fun rw => forallb (fun c => pos_mem c (map cid cs)) (fst rw)) votes = true ->
  exists bl, ballot_lines E false votes (map cid cs) ns = Some bl /\ length bl = length votes.
Proof.
  intros E cs ns votes Hl Hnd Hg. induction votes as [|[r w] t IH]; intros Hin; [exists []; split; reflexivity|].
  cbn [forallb fst] in Hin. apply andb_true_iff in Hin. destruct Hin as [Hin1 Hin2]. destruct (IH Hin2) as [bl [Hbl Hlen]].
  destruct (ranking_lookup cs ns r Hl Hnd Hg Hin1) as [l [ps [R1 _]]].
  cbn [ballot_lines]. unfold ballot_line at 1. rewrite R1. cbv zeta. rewrite Hbl. eexists. split; [reflexivity|].
  cbn [length]. rewrite Hlen. reflexivity.
Qed.

Lemma cands_loaded_eq : forall cs : list cand,
  map (fun c : cand => match c with (_, nm, w) => (nm, w) end) cs = map (fun c => (cnm c, cwd c)) cs.
Proof. intros cs. apply map_ext. intros [[i nm] w]. reflexivity. Qed.

Theorem stv_roundtrip : forall E e, stv_wf E e = true ->
  exists x ls, stv_expected E e = Some x /\ stv_dump_lines E false e = WOk ls /\
               forall bl junk, stv_load_lines E false bl (ls ++ junk) = Ok x.
Proof.
  intros E [votes sys cs seats om] Hwf. unfold stv_wf in Hwf. cbn [e_votes e_system e_cands e_seats e_output_method] in Hwf.
  apply andb_true_iff in Hwf. destruct Hwf as [Hwf Hsys]. apply andb_true_iff in Hwf. destruct Hwf as [Hwf Hom].
  apply andb_true_iff in Hwf. destruct Hwf as [Hwf Hnames]. apply andb_true_iff in Hwf. destruct Hwf as [Hwf Hw].
  apply andb_true_iff in Hwf. destruct Hwf as [Hwf Hrd]. apply andb_true_iff in Hwf. destruct Hwf as [Hids Hin].
  subst om.
  change (map (fun c : positive * str * bool => let (y, _) := c in let (i, _) := y in i) cs) with (map cid cs) in *.
  pose proof (pos_nodup_NoDup _ Hids) as Hnd_ids.
  (* the nicknames *)
  set (names := map (fun c : cand => match c with (_, nm, _) => nm end) cs).
  assert (Hnames2 : Forall cname_ok cs /\ Forall (fun nm => forallb nick_char_ok (name_to_initials E nm) = true) names).
  { subst names. clear - Hnames. induction cs as [|[[i nm] w] t IH]; [split; constructor|].
    cbn [forallb] in Hnames. apply andb_true_iff in Hnames. destruct Hnames as [H1 H2]. apply andb_true_iff in H1. destruct H1 as [H1a H1b].
    destruct (IH H2) as [I1 I2]. split; constructor; assumption. }
  destruct Hnames2 as [Hcn Hini].
  destruct (candidate_nicks_good E names Hini) as [Hlen [Hnd Hg]].
  set (ns := candidate_nicks E names) in *.
  assert (Hl : length cs = length ns) by (rewrite Hlen; subst names; rewrite map_length; reflexivity).
  destruct (expected_votes_some E cs votes Hin Hw) as [v Hv].
  destruct (ballot_lines_some E cs ns votes Hl Hnd Hg Hin) as [bl [Hbl Hbllen]].
  (* the system *)
  assert (Hshape : exists name x, (sys = SysVS name x \/ (sys = SysEv x /\ name = None)) /\ ev_ok x seats = true /\
                                  match name with Some t => text_ok t | None => true end = true).
  { destruct sys as [|name x|x]; [discriminate| |].
    - apply andb_true_iff in Hsys. destruct Hsys as [H1 H2]. exists name, x. split; [left; reflexivity|split; assumption].
    - exists None, x. split; [right; split; reflexivity|split; [exact Hsys|reflexivity]]. }
  destruct Hshape as [name [x [Hsysx [Hevok Hname]]]].
  destruct (ev_ok_shape x seats Hevok) as [fixed [tie [q [m [Hx [Hq [Htie Hfs]]]]]]]. subst x.
  assert (Hds : option_map (fun sl => sl ++ match seats with Some n => [kv "seats" (z_str n)] | None => [] end)
                           (dump_system false true sys) = Some (map kvline (sys_kvs name fixed tie q m seats))).
  { destruct Hsysx as [Hs|[Hs Hn]]; subst sys; [apply dump_system_shape; exact Hq|subst name; apply dump_system_shape_ev; exact Hq]. }
  destruct (dump_system false true sys) as [sl|] eqn:Hsl; [|discriminate]. cbn [option_map] in Hds. inversion Hds as [Hds']. clear Hds.
  (* what is expected *)
  set (evx := match seats with Some n => EvFixed (build_ev fixed tie q m) n | None => build_ev fixed tie q m end).
  set (cl := map (fun c => (cnm c, cwd c)) cs).
  exists {| l_votes := v; l_system := (name, evx); l_cands := cl; l_pool := cl |}.
  eexists. split; [|split].
  - unfold stv_expected. cbn [e_votes e_cands e_system e_seats]. rewrite Hv, cands_loaded_eq.
    destruct Hsysx as [Hs|[Hs Hn]]; subst sys; [reflexivity|subst name; reflexivity].
  - unfold stv_dump_lines, dump_ballots. cbn [e_system e_output_method e_votes e_cands e_seats].
    rewrite (uniq_cands_id cs [] Hnd_ids) by (intros c _ []).
    change (map (fun c : positive * str * bool => let (y, _) := c in let (i, _) := y in i) cs) with (map cid cs).
    change (candidate_nicks E (map (fun c : positive * str * bool => let (y, _) := c in let (_, nm) := y in nm) cs)) with ns.
    rewrite Hbl.
    destruct Hsysx as [Hs|[Hs Hn]]; subst sys; cbv iota; rewrite Hsl; reflexivity.
  - intros bload junk.
    assert (Hzip : map (fun c => cand_line c (map cid cs) ns) cs = zip_lines cs ns) by exact (cand_lines_zip cs ns [] [] Hl eq_refl Hnd_ids).
    rewrite Hzip.
    rewrite app_assoc, Hds'. rewrite <- !app_assoc.
    unfold stv_load_lines.
    rewrite (load_system_kvs E _ _ sc_empty [] [] [] (sys_kvs_ok name fixed tie q m seats Hq Hname)).
    rewrite (put_all_written name fixed tie q m seats Hfs).
    rewrite (load_system_cands E cs ns _ _ [] [] [] Hl Hcn Hg Hnd) by (intros n _ []).
    cbn [app length Z.of_nat Z.add]. fold cl.
    (* the ballots= line *)
    cbn [load_system].
    assert (Hbk : parse_header_line (kv "ballots" (n_str (N.of_nat (length votes)))) = HKeyVal s_ballots (n_str (N.of_nat (length votes)))).
    { apply (parse_header_kv s_ballots); [reflexivity|].
      apply val_ok_nonspace; [apply digits_nonspace, n_str_digits|apply digits_no; [apply n_str_digits|reflexivity]]. }
    rewrite Hbk. change (str_eqb s_ballots s_ballots) with true. cbv iota.
    rewrite (create_system_written E name fixed tie q m seats Hq Htie Hfs). cbn [lbind].
    unfold parse_n_ballots, s_blt.
    rewrite (zchars_not (n_str (N.of_nat (length votes))) 98 [108; 116] (zchars_digits _ (n_str_digits _))) by (try reflexivity; lia).
    rewrite guarded_int_n_str. cbn [int_or_error lbind h_n_ballots h_ordered h_nicks h_system h_cands].
    replace ((bl ++ [s_end]) ++ junk) with (bl ++ s_end :: junk) by (rewrite <- app_assoc; reflexivity).
    rewrite (load_votes_ballots E cs ns votes Hl Hnd Hg bl v junk [] 0 _ Hin Hw Hbl Hv).
    + reflexivity.
    + intros pre r w post Heq. cbn [app] in Heq.
      destruct (expected_positions E votes cs v Hv) as [vq [Hq1 Hq2]].
      eapply positions_distinct; [exact Hq2|rewrite Hq1; exact Hrd|exact Heq].
    + rewrite nat_N_Z. lia.
Qed.

(* ================================================================ 10. text level: dumps / loads *)
Definition no_nl (l : str) : Prop := smem 10 l = false.

Lemma split_nl_aux_line : forall l rest cur, no_nl l ->
  split_nl_aux (l ++ 10 :: rest) cur = (rev cur ++ l) :: split_nl_aux rest [].
Proof.
  induction l as [|c l IH]; intros rest cur H; cbn [app split_nl_aux].
  - change (10 =? 10) with true. cbv iota. rewrite app_nil_r. reflexivity.
  - unfold no_nl in H. rewrite smem_cons in H. apply orb_false_iff in H. destruct H as [H1 H2].
    rewrite Z.eqb_sym, H1. rewrite (IH rest (c :: cur) H2). cbn [rev]. rewrite <- app_assoc. reflexivity.
Qed.

Lemma split_dumps : forall ls, Forall no_nl ls -> split_nl (dumps_text ls) = ls ++ [[]].
Proof.
  intros ls H. unfold split_nl, dumps_text. induction H as [|l ls Hl Hls IH]; [reflexivity|].
  cbn [map concat]. rewrite (last_is_no 10 l Hl). rewrite <- app_assoc. cbn [app].
  rewrite (split_nl_aux_line l _ [] Hl). cbn [rev app]. rewrite IH. reflexivity.
Qed.

Lemma no_nl_app : forall a b, no_nl a -> no_nl b -> no_nl (a ++ b).
Proof. intros a b Ha Hb. unfold no_nl in *. rewrite smem_app, Ha, Hb. reflexivity. Qed.

Lemma nonspace_no_nl : forall s, nonspace s = true -> no_nl s.
Proof.
  intros s H. unfold no_nl, smem. destruct (existsb (Z.eqb 10) s) eqn:He; [|reflexivity].
  apply existsb_exists in He. destruct He as [c [Hc Heq]]. apply Z.eqb_eq in Heq. subst c.
  unfold nonspace in H. rewrite forallb_forall in H. specialize (H 10 Hc). discriminate.
Qed.

Lemma join_sp_no_nl : forall l, Forall nick_good l -> no_nl (join_sp l).
Proof.
  intros l H. induction H as [|n l [_ Hn] Hl IH]; [reflexivity|].
  destruct (nick_no35 n Hn) as [_ [_ H10]].
  destruct l as [|m l']; [exact H10|].
  change (join_sp (n :: m :: l')) with (n ++ 32 :: join_sp (m :: l')). apply no_nl_app; [exact H10|].
  unfold no_nl. rewrite smem_cons. exact IH.
Qed.

Lemma ballot_lines_no_nl : forall E cs ns votes bl, length cs = length ns -> NoDup ns -> Forall nick_good ns ->
  forallb (fun rw => forallb (fun c => pos_mem c (map cid cs)) (fst rw)) votes = true ->
  forallb (fun rw => stv_weight_ok E (snd rw)) votes = true ->
  ballot_lines E false votes (map cid cs) ns = Some bl -> Forall no_nl bl.
Proof.
  intros E cs ns votes bl Hl Hnd Hg. revert bl. induction votes as [|[r w] t IH]; intros bl Hin Hw Hbl; cbn [ballot_lines] in Hbl.
  - inversion Hbl. constructor.
  - cbn [forallb fst snd] in Hin, Hw. apply andb_true_iff in Hin. destruct Hin as [Hin1 Hin2].
    apply andb_true_iff in Hw. destruct Hw as [Hw1 Hw2].
    destruct (ballot_line E false r w (map cid cs) ns) as [line|] eqn:Hline; [|discriminate].
    destruct (ballot_lines E false t (map cid cs) ns) as [ls|] eqn:Hls; [|discriminate]. inversion Hbl; subst bl.
    constructor; [|apply IH; [exact Hin2|exact Hw2|reflexivity]].
    destruct (ranking_lookup cs ns r Hl Hnd Hg Hin1) as [l [ps [R1 [_ [_ [R4 _]]]]]].
    unfold ballot_line in Hline. rewrite R1 in Hline. cbv zeta in Hline. inversion Hline.
    destruct (parse_multiplier_written E w Hw1) as [_ [_ Hns]].
    apply no_nl_app; [|apply join_sp_no_nl; exact R4].
    destruct (_ || _ || _); [|reflexivity]. apply no_nl_app; [apply nonspace_no_nl; exact Hns|reflexivity].
Qed.

Lemma zip_lines_no_nl : forall cs ns, Forall cname_ok cs -> Forall nick_good ns -> Forall no_nl (zip_lines cs ns).
Proof.
  induction cs as [|c cs IH]; intros ns Hc Hn; destruct ns as [|n ns]; try constructor.
  - inversion Hc as [|? ? Hc1 _]; subst. inversion Hn as [|? ? [_ Hn1] _]; subst.
    destruct (name_ok_parts _ Hc1) as [_ [_ [H10 _]]]. destruct (nick_no35 n Hn1) as [_ [_ Hn10]].
    unfold cline. apply no_nl_app; [destruct (cwd c); reflexivity|].
    unfold no_nl. rewrite smem_cons. change (10 =? 61) with false. cbn [orb]. apply no_nl_app; [exact Hn10|].
    unfold no_nl. rewrite smem_cons. exact H10.
  - inversion Hc; inversion Hn; subst. apply IH; assumption.
Qed.

Lemma sys_kvs_no_nl : forall name fixed tie q m seats, strs_mem q supported_quotas = true ->
  match name with Some t => text_ok t | None => true end = true ->
  Forall no_nl (map kvline (sys_kvs name fixed tie q m seats)).
Proof.
  intros name fixed tie q m seats Hq Hname.
  assert (Hz : forall k z, no_nl k -> no_nl (kvline (k, z_str z))).
  { intros k z Hk. unfold kvline. cbn [fst snd]. apply no_nl_app; [exact Hk|].
    unfold no_nl. rewrite smem_cons. destruct (zchars_props _ (z_str_chars z)) as [_ [_ [H10 _]]]. exact H10. }
  unfold sys_kvs. rewrite !map_app. repeat (apply Forall_app; split).
  - destruct name as [t|]; constructor; [|constructor]. unfold kvline. cbn [fst snd].
    apply no_nl_app; [reflexivity|]. unfold no_nl. rewrite smem_cons.
    unfold text_ok in Hname. apply andb_true_iff in Hname. destruct Hname as [H _]. apply andb_true_iff in H. destruct H as [_ H].
    apply negb_true_iff in H. exact H.
  - destruct fixed; constructor; [|constructor]. apply Hz. reflexivity.
  - constructor; [reflexivity|]. constructor; [|constructor]. destruct (supported_cases q Hq); subst q; reflexivity.
  - destruct m; constructor; [|constructor]. reflexivity.
  - destruct tie as [[n|]|]; cbn [rnd_of map]; [constructor; [apply Hz; reflexivity|constructor]|constructor; [reflexivity|constructor]|constructor].
  - destruct seats; constructor; [|constructor]. apply Hz. reflexivity.
Qed.

(* the round trip through the text: loads(dumps(...)) *)
Theorem stv_roundtrip_text : forall E e, stv_wf E e = true ->
  exists x ls, stv_expected E e = Some x /\ stv_dump_lines E false e = WOk ls /\
               forall bl, stv_loads E false bl (dumps_text ls) = Ok x.
Proof.
  intros E e Hwf. destruct (stv_roundtrip E e Hwf) as [x [ls [Hx [Hd Hl]]]]. exists x, ls. split; [exact Hx|split; [exact Hd|]].
  intros bl. unfold stv_loads. rewrite split_dumps; [apply Hl|].
  (* no written line contains a line feed *)
  clear Hl Hx x. destruct e as [votes sys cs seats om]. unfold stv_wf in Hwf. cbn [e_votes e_system e_cands e_seats e_output_method] in Hwf.
  apply andb_true_iff in Hwf. destruct Hwf as [Hwf Hsys]. apply andb_true_iff in Hwf. destruct Hwf as [Hwf Hom].
  apply andb_true_iff in Hwf. destruct Hwf as [Hwf Hnames]. apply andb_true_iff in Hwf. destruct Hwf as [Hwf Hw].
  apply andb_true_iff in Hwf. destruct Hwf as [Hwf Hrd]. apply andb_true_iff in Hwf. destruct Hwf as [Hids Hin].
  subst om.
  change (map (fun c : positive * str * bool => let (y, _) := c in let (i, _) := y in i) cs) with (map cid cs) in *.
  pose proof (pos_nodup_NoDup _ Hids) as Hnd_ids.
  set (names := map (fun c : cand => match c with (_, nm, _) => nm end) cs).
  assert (Hnames2 : Forall cname_ok cs /\ Forall (fun nm => forallb nick_char_ok (name_to_initials E nm) = true) names).
  { subst names. clear - Hnames. induction cs as [|[[i nm] w] t IH]; [split; constructor|].
    cbn [forallb] in Hnames. apply andb_true_iff in Hnames. destruct Hnames as [H1 H2]. apply andb_true_iff in H1. destruct H1 as [H1a H1b].
    destruct (IH H2) as [I1 I2]. split; constructor; assumption. }
  destruct Hnames2 as [Hcn Hini].
  destruct (candidate_nicks_good E names Hini) as [Hlen [Hnd Hg]].
  set (ns := candidate_nicks E names) in *.
  assert (Hl : length cs = length ns) by (rewrite Hlen; subst names; rewrite map_length; reflexivity).
  assert (Hshape : exists name x, (sys = SysVS name x \/ (sys = SysEv x /\ name = None)) /\ ev_ok x seats = true /\
                                  match name with Some t => text_ok t | None => true end = true).
  { destruct sys as [|name x|x]; [discriminate| |].
    - apply andb_true_iff in Hsys. destruct Hsys as [H1 H2]. exists name, x. split; [left; reflexivity|split; assumption].
    - exists None, x. split; [right; split; reflexivity|split; [exact Hsys|reflexivity]]. }
  destruct Hshape as [name [x [Hsysx [Hevok Hname]]]].
  destruct (ev_ok_shape x seats Hevok) as [fixed [tie [q [m [Hx [Hq [Htie Hfs]]]]]]]. subst x.
  assert (Hds : option_map (fun sl => sl ++ match seats with Some n => [kv "seats" (z_str n)] | None => [] end)
                           (dump_system false true sys) = Some (map kvline (sys_kvs name fixed tie q m seats))).
  { destruct Hsysx as [Hs|[Hs Hn]]; subst sys; [apply dump_system_shape; exact Hq|subst name; apply dump_system_shape_ev; exact Hq]. }
  unfold stv_dump_lines, dump_ballots in Hd. cbn [e_system e_output_method e_votes e_cands e_seats] in Hd.
  rewrite (uniq_cands_id cs [] Hnd_ids) in Hd by (intros c _ []).
  change (map (fun c : positive * str * bool => let (y, _) := c in let (i, _) := y in i) cs) with (map cid cs) in Hd.
  change (candidate_nicks E (map (fun c : positive * str * bool => let (y, _) := c in let (_, nm) := y in nm) cs)) with ns in Hd.
  destruct (ballot_lines E false votes (map cid cs) ns) as [bl'|] eqn:Hbl.
  2:{ destruct Hsysx as [Hs|[Hs Hn]]; subst sys; cbv iota in Hd; destruct (dump_system false true _); discriminate. }
  assert (Hzip : map (fun c => cand_line c (map cid cs) ns) cs = zip_lines cs ns) by exact (cand_lines_zip cs ns [] [] Hl eq_refl Hnd_ids).
  rewrite Hzip in Hd.
  destruct (dump_system false true sys) as [sl|] eqn:Hsl; [|discriminate]. cbn [option_map] in Hds. inversion Hds as [Hds']. clear Hds.
  assert (Hls : ls = (sl ++ match seats with Some n => [kv "seats" (z_str n)] | None => [] end)
                     ++ zip_lines cs ns ++ kv "ballots" (n_str (N.of_nat (length votes))) :: bl' ++ [s_end]).
  { destruct Hsysx as [Hs|[Hs Hn]]; subst sys; cbv iota in Hd; rewrite Hsl in Hd; inversion Hd; rewrite <- app_assoc; reflexivity. }
  rewrite Hls, Hds'.
  apply Forall_app. split; [apply sys_kvs_no_nl; assumption|].
  apply Forall_app. split; [apply zip_lines_no_nl; assumption|].
  constructor.
  - unfold kv. apply no_nl_app; [reflexivity|]. unfold no_nl. rewrite smem_cons. apply digits_no; [apply n_str_digits|reflexivity].
  - apply Forall_app. split; [eapply ballot_lines_no_nl; eauto|constructor; [reflexivity|constructor]].
Qed.

(* ================================================================ 11. no partial data: what was read does not depend on what follows *)
Lemma lbind_ok : forall (X Y : Type) (r : lres X) (f : X -> lres Y) y, lbind r f = Ok y -> exists x, r = Ok x /\ f x = Ok y.
Proof. intros X Y [x| |e] f y H; simpl in H; try discriminate. exists x. split; [reflexivity|exact H]. Qed.

Lemma load_system_app : forall E lg ls junk sc c m o h rest,
  load_system E lg ls sc c m o = Ok (h, rest) -> load_system E lg (ls ++ junk) sc c m o = Ok (h, rest ++ junk).
Proof.
  intros E lg ls junk. induction ls as [|l t IH]; intros sc c m o h rest H; cbn [load_system app] in *; [discriminate|].
  destruct (parse_header_line l) as [|k v|]; [apply IH; exact H| |discriminate].
  destruct (str_eqb k s_ballots).
  - destruct (match o with [] => Some m | _ :: _ => reorder_nicks m o [] end) as [nk|]; [|discriminate].
    apply lbind_ok in H. destruct H as [sys [H1 H]]. apply lbind_ok in H. destruct H as [nb [H2 H]].
    rewrite H1, H2. cbn [lbind]. inversion H; subst. reflexivity.
  - destruct (str_eqb k s_order); [apply IH; exact H|].
    destruct (str_eqb k s_candidate || str_eqb k s_withdrawn).
    + destruct (split1 v) as [[nick name]|]; [apply IH; exact H|discriminate].
    + destruct (sc_put sc k v); [apply IH; exact H|discriminate].
Qed.

Lemma load_votes_app : forall E lg ord nm ls junk i n acc v,
  load_votes E lg ord nm ls i n acc = Ok v -> load_votes E lg ord nm (ls ++ junk) i n acc = Ok v.
Proof.
  intros E lg ord nm ls junk. induction ls as [|l t IH]; intros i n acc v H; cbn [load_votes app] in *; [discriminate|].
  destruct (str_eqb (strip l) s_end); [exact H|].
  destruct (strip l) as [|c s]; [apply IH; exact H|].
  destruct (words (c :: s)) as [|first more]; [discriminate|].
  destruct (if last_is 88 first then match parse_multiplier E (removelast first) with Some m => Some (m, more) | None => None end
            else Some (1 # 1, first :: more)) as [[mult items]|]; [|discriminate].
  apply lbind_ok in H. destruct H as [vote [H1 H]]. rewrite H1. cbn [lbind]. apply IH. exact H.
Qed.

(* the file gives a ballot count (it is not in BLT mode) *)
Definition stv_mode (E : uenv) (ls : list str) : bool :=
  match load_system E false ls sc_empty [] [] [] with
  | Ok (h, _) => match h_n_ballots h with Some _ => true | None => false end
  | _ => false
  end.

Theorem stv_prefix_stable : forall E bl ls x, stv_load_lines E false bl ls = Ok x -> stv_mode E ls = true ->
  forall bl' junk, stv_load_lines E false bl' (ls ++ junk) = Ok x.
Proof.
  intros E bl ls x H Hm bl' junk. unfold stv_load_lines, stv_mode in *.
  destruct (load_system E false ls sc_empty [] [] []) as [[h rest]| |e] eqn:Hs; try discriminate.
  rewrite (load_system_app E false ls junk _ _ _ _ h rest Hs). cbn [lbind] in *.
  destruct (h_n_ballots h) as [n|]; [|discriminate].
  apply lbind_ok in H. destruct H as [v [H1 H2]]. rewrite (load_votes_app E false _ _ rest junk 0 n [] v H1). exact H2.
Qed.

(* ================================================================ 12. no partial data: every ranking names listed candidates *)
Definition in_range (n : nat) (v : list (list Z * Q)) : Prop :=
  Forall (fun rw => Forall (fun p => 1 <= p <= Z.of_nat n) (fst rw)) v.
Definition map_in_range (n : nat) (m : nickmap) : Prop := Forall (fun kv => 1 <= snd kv <= Z.of_nat n) m.

Lemma map_in_range_mono : forall n n' m, (n <= n')%nat -> map_in_range n m -> map_in_range n' m.
Proof. intros n n' m Hn H. eapply Forall_impl; [|exact H]. intros kv Hkv. simpl in Hkv. lia. Qed.

Lemma aset_in_range : forall n m k p, map_in_range n m -> 1 <= p <= Z.of_nat n -> map_in_range n (aset str_eqb m k p).
Proof.
  intros n m k p H Hp. induction H as [|[k' v'] m Hkv Hm IH]; cbn [aset].
  - constructor; [exact Hp|constructor].
  - destruct (str_eqb k k'); constructor; try assumption.
Qed.

Lemma nick_get_in_range : forall n m k p, map_in_range n m -> nick_get m k = Some p -> 1 <= p <= Z.of_nat n.
Proof.
  intros n m k p H. unfold nick_get. induction H as [|[k' v'] m Hkv Hm IH]; cbn [aget]; [discriminate|].
  destruct (str_eqb k k'); [intros Heq; inversion Heq; subst; exact Hkv|exact IH].
Qed.

Lemma reorder_in_range : forall n m order acc r, map_in_range n m -> map_in_range n acc ->
  reorder_nicks m order acc = Some r -> map_in_range n r.
Proof.
  intros n m order. induction order as [|k t IH]; intros acc r Hm Hacc H; cbn [reorder_nicks] in H.
  - inversion H; subst. exact Hacc.
  - destruct (nick_get m k) as [p|] eqn:Hg; [|discriminate].
    apply (IH (aset str_eqb acc k p) r Hm); [|exact H]. apply aset_in_range; [exact Hacc|exact (nick_get_in_range n m k p Hm Hg)].
Qed.

Lemma load_system_in_range : forall E lg ls sc c m o h rest, map_in_range (length c) m ->
  load_system E lg ls sc c m o = Ok (h, rest) -> map_in_range (length (h_cands h)) (h_nicks h).
Proof.
  intros E lg ls. induction ls as [|l t IH]; intros sc c m o h rest Hm H; cbn [load_system] in H; [discriminate|].
  destruct (parse_header_line l) as [|k v|]; [eapply IH; eauto| |discriminate].
  destruct (str_eqb k s_ballots).
  - destruct (match o with [] => Some m | _ :: _ => reorder_nicks m o [] end) as [nk|] eqn:Hr; [|discriminate].
    apply lbind_ok in H. destruct H as [sys [H1 H]]. apply lbind_ok in H. destruct H as [nb [H2 H]].
    inversion H; subst. cbn [h_cands h_nicks].
    destruct o; [inversion Hr; subst; exact Hm|]. eapply reorder_in_range; [exact Hm|constructor|exact Hr].
  - destruct (str_eqb k s_order); [eapply IH; eauto|].
    destruct (str_eqb k s_candidate || str_eqb k s_withdrawn).
    + destruct (split1 v) as [[nick name]|]; [|discriminate].
      eapply IH; [|exact H]. rewrite app_length. cbn [length].
      apply aset_in_range; [eapply map_in_range_mono; [|exact Hm]; lia|lia].
    + destruct (sc_put sc k v); [eapply IH; eauto|discriminate].
Qed.

Lemma lookup_in_range : forall n m items ps, map_in_range n m -> lookup_nicks m items = Some ps ->
  Forall (fun p => 1 <= p <= Z.of_nat n) ps.
Proof.
  intros n m items. induction items as [|it t IH]; intros ps Hm H; cbn [lookup_nicks] in H.
  - inversion H. constructor.
  - destruct (nick_get m it) as [p|] eqn:Hg; [|discriminate]. destruct (lookup_nicks m t) as [ps'|] eqn:Hl; [|discriminate].
    inversion H; subst. constructor; [eapply nick_get_in_range; eauto|apply IH; [exact Hm|reflexivity]].
Qed.

Lemma insert_forall : forall (P : Z * Z -> Prop) x l, P x -> Forall P l -> Forall P (insert_by_rank x l).
Proof.
  intros P x l Hx H. induction H as [|y l Hy Hl IH]; cbn [insert_by_rank]; [constructor; [exact Hx|constructor]|].
  destruct (snd x <? snd y); constructor; try assumption. constructor; assumption.
Qed.

Lemma sort_forall : forall (P : Z * Z -> Prop) l, Forall P l -> Forall P (sort_by_rank l).
Proof.
  intros P l H. unfold sort_by_rank.
  assert (Hgen : forall acc, Forall P acc -> Forall P (fold_left (fun a x => insert_by_rank x a) l acc)).
  { induction H as [|x l Hx Hl IH]; intros acc Hacc; cbn [fold_left]; [exact Hacc|]. apply IH. apply insert_forall; assumption. }
  apply Hgen. constructor.
Qed.

Lemma ordered_items_in_range : forall E lg n items pool i acc r, Forall (fun p => 1 <= p <= Z.of_nat n) pool ->
  Forall (fun cr => 1 <= fst cr <= Z.of_nat n) acc -> ordered_items E lg items pool i acc = Ok r ->
  Forall (fun cr => 1 <= fst cr <= Z.of_nat n) r.
Proof.
  intros E lg n items. induction items as [|it t IH]; intros pool i acc r Hp Hacc H; cbn [ordered_items] in H.
  - inversion H; subst. exact Hacc.
  - destruct (guarded_int E lg it) as [g|].
    + destruct (nth_error pool i) as [c|] eqn:Hn; [|discriminate]. apply lbind_ok in H. destruct H as [rank [_ H]].
      apply (IH pool (S i) (acc ++ [(c, rank)]) r Hp); [|exact H]. apply Forall_app. split; [exact Hacc|constructor; [|constructor]].
      cbn [fst]. rewrite Forall_forall in Hp. apply Hp. eapply nth_error_In; eauto.
    + destruct (str_eqb it [45]); [|discriminate]. eapply IH; eauto.
Qed.

Lemma ordered_vote_in_range : forall E lg n items pool v, Forall (fun p => 1 <= p <= Z.of_nat n) pool ->
  ordered_vote E lg items pool = Ok v -> Forall (fun p => 1 <= p <= Z.of_nat n) v.
Proof.
  intros E lg n items pool v Hp H. unfold ordered_vote in H. apply lbind_ok in H. destruct H as [co [H1 H2]].
  cbv zeta in H2. destruct (ranks_are (sort_by_rank co) 1); [|discriminate]. inversion H2; subst.
  pose proof (sort_forall _ co (ordered_items_in_range E lg n items pool 0 [] co Hp (Forall_nil _) H1)) as Hs.
  clear - Hs. induction Hs as [|x l Hx Hl IH]; cbn [map]; constructor; assumption.
Qed.

Lemma badd_in_range : forall n b r w, in_range n b -> Forall (fun p => 1 <= p <= Z.of_nat n) r -> in_range n (badd b r w).
Proof.
  intros n b r w H Hr. unfold in_range in *. induction H as [|[r' w'] b Hx Hb IH]; cbn [badd].
  - constructor; [exact Hr|constructor].
  - destruct (zlist_eqb r r'); constructor; try assumption.
Qed.

Lemma load_votes_in_range : forall E lg ord nm n ls i nb acc v, map_in_range n nm -> in_range n acc ->
  load_votes E lg ord nm ls i nb acc = Ok v -> in_range n v.
Proof.
  intros E lg ord nm n ls. induction ls as [|l t IH]; intros i nb acc v Hm Hacc H; cbn [load_votes] in H; [discriminate|].
  destruct (str_eqb (strip l) s_end); [destruct (i =? nb); [inversion H; subst; exact Hacc|discriminate]|].
  destruct (strip l) as [|c s]; [eapply IH; eauto|].
  destruct (words (c :: s)) as [|first more]; [discriminate|].
  destruct (if last_is 88 first then match parse_multiplier E (removelast first) with Some m => Some (m, more) | None => None end
            else Some (1 # 1, first :: more)) as [[mult items]|]; [|discriminate].
  apply lbind_ok in H. destruct H as [vote [H1 H]].
  apply (IH (i + 1) nb (vadd acc vote mult) v Hm); [|exact H]. apply badd_in_range; [exact Hacc|].
  destruct ord.
  - apply (ordered_vote_in_range E lg n items (map snd nm) vote); [|exact H1].
    clear - Hm. induction Hm as [|kv m Hkv Hm IH]; cbn [map]; constructor; assumption.
  - destruct (lookup_nicks nm items) as [ps|] eqn:Hl; [|discriminate]. inversion H1; subst. eapply lookup_in_range; eauto.
Qed.

(* the same for the BLT reader (token-level model) *)
Definition blt_in_range (y : BallotFile.loaded) : Prop :=
  match y with (bv, _, bc, _) => in_range (length bc) bv end.

Lemma check_ranking_range : forall n r r', check_ranking false n r = Ok r' -> Forall (fun i => 1 <= i <= n) r'.
Proof.
  intros n r. induction r as [|i t IH]; intros r' H; cbn [check_ranking] in H.
  - inversion H. constructor.
  - unfold check_index in H. destruct ((1 <=? i) && (i <=? n)) eqn:Hb; [|discriminate].
    destruct (check_ranking false n t) as [js| |e]; try discriminate. inversion H; subst.
    apply andb_true_iff in Hb. destruct Hb as [H1 H2]. apply Z.leb_le in H1. apply Z.leb_le in H2.
    constructor; [lia|apply IH; reflexivity].
Qed.

Lemma deindex_range : forall n b b', deindex false n b = Ok b' -> Forall (fun rw => Forall (fun i => 1 <= i <= n) (fst rw)) b'.
Proof.
  intros n b. induction b as [|[r w] t IH]; intros b' H; cbn [deindex] in H.
  - inversion H. constructor.
  - destruct (check_ranking false n r) as [r'| |e] eqn:Hr; try discriminate.
    destruct (deindex false n t) as [t'| |e]; try discriminate. inversion H; subst.
    constructor; [cbn [fst]; eapply check_ranking_range; eauto|apply IH; reflexivity].
Qed.

Theorem blt_loaded_in_range : forall op ls y, BallotFile.load_lines false op ls = Ok y -> blt_in_range y.
Proof.
  intros op ls y H. unfold BallotFile.load_lines in H. destruct ls as [|hd body]; [discriminate|].
  destruct (parse_numline false false hd) as [nums| |e]; try discriminate.
  destruct nums as [|nc [|ns [|z r]]]; try discriminate.
  destruct (parse_body false op body [] [] false) as [[[bl wd] rest]| |e]; try discriminate.
  destruct (parse_strings false rest (Qnum nc)) as [nr| |e]; try discriminate.
  destruct nr as [names title|s].
  - match type of H with match deindex false (Z.of_nat (length ?C)) bl with _ => _ end = _ => set (cands := C) in * end.
    destruct (deindex false (Z.of_nat (length cands)) bl) as [b| |e] eqn:Hd; try discriminate. inversion H; subst.
    unfold blt_in_range, in_range. eapply deindex_range; eauto.
  - match type of H with match deindex false (Z.of_nat (length ?C)) bl with _ => _ end = _ => set (cands := C) in * end.
    destruct (deindex false (Z.of_nat (length cands)) bl) as [b| |e] eqn:Hd; try discriminate. inversion H; subst.
    unfold blt_in_range, in_range. eapply deindex_range; eauto.
Qed.

Theorem stv_loaded_in_range : forall E bl ls x, (forall r y, bl r = Ok y -> blt_in_range y) ->
  stv_load_lines E false bl ls = Ok x -> in_range (length (l_pool x)) (l_votes x).
Proof.
  intros E bl ls x Hbl H. unfold stv_load_lines in H. apply lbind_ok in H. destruct H as [[h rest] [Hs H]].
  pose proof (load_system_in_range E false ls sc_empty [] [] [] h rest (Forall_nil _) Hs) as Hm.
  destruct (h_n_ballots h) as [n|].
  - apply lbind_ok in H. destruct H as [v [Hv H]]. inversion H; subst. cbn [l_pool l_votes].
    eapply load_votes_in_range; [exact Hm|constructor|exact Hv].
  - unfold finish_blt in H. destruct (bl rest) as [[[[bv bs] bc] bt]| |e] eqn:Hb; try discriminate.
    pose proof (Hbl rest _ Hb) as Hr. unfold blt_in_range in Hr.
    destruct (snd (h_system h)); inversion H; subst; cbn [l_pool l_votes]; rewrite map_length; exact Hr.
Qed.

(* ================================================================ 13. the nickname condition of stv_wf only concerns non-ASCII initials *)
Lemma word_char_ok : forall c, (48 <= c <= 57 \/ 97 <= c <= 122 \/ c = 95) -> nick_char_ok c = true.
Proof.
  intros c H. unfold nick_char_ok.
  replace (c =? 35) with false by (symmetry; apply Z.eqb_neq; lia).
  replace (c =? 88) with false by (symmetry; apply Z.eqb_neq; lia).
  unfold is_space, spaces. cbn [existsb].
  repeat match goal with |- context [c =? ?k] => replace (c =? k) with false by (symmetry; apply Z.eqb_neq; lia) end.
  reflexivity.
Qed.

Lemma ascii_lower_ok : forall E c, c <? 128 = true -> is_word E c = true -> forallb nick_char_ok (lower E c) = true.
Proof.
  intros E c Hc Hw. unfold is_word in Hw. rewrite Hc in Hw. unfold lower. rewrite Hc.
  assert (Hcases : 48 <= c <= 57 \/ 65 <= c <= 90 \/ 97 <= c <= 122 \/ c = 95).
  { rewrite !orb_true_iff, !andb_true_iff, !Z.leb_le, Z.eqb_eq in Hw. lia. }
  clear Hw. destruct ((65 <=? c) && (c <=? 90)) eqn:Hu; cbn [forallb]; rewrite andb_true_r; apply word_char_ok.
  - apply andb_true_iff in Hu. destruct Hu as [H1 H2]. apply Z.leb_le in H1. apply Z.leb_le in H2. lia.
  - apply andb_false_iff in Hu. destruct Hu as [Hu|Hu]; [apply Z.leb_gt in Hu|apply Z.leb_gt in Hu]; lia.
Qed.

Lemma ascii_initials_ok : forall E nm, forallb (fun c => c <? 128) nm = true ->
  forallb nick_char_ok (name_to_initials E nm) = true.
Proof.
  intros E nm H. unfold name_to_initials. generalize false. induction nm as [|c t IH]; intros b; cbn [initials_aux]; [reflexivity|].
  cbn [forallb] in H. apply andb_true_iff in H. destruct H as [Hc Ht].
  destruct (is_word E c) eqn:Hw; [|apply IH; exact Ht].
  destruct b; [apply IH; exact Ht|]. rewrite forallb_app, (ascii_lower_ok E c Hc Hw). apply IH. exact Ht.
Qed.

(* ================================================================ 14. BLT mode: the STV reader hands the rest of the file to the BLT reader *)
Definition blt_header : header :=
  {| h_system := (None, EvOther true); h_cands := []; h_nicks := []; h_n_ballots := None; h_ordered := false |}.

Lemma stv_blt_mode : forall E bl rest,
  stv_load_lines E false bl (blt_mode_lines rest) = finish_blt false blt_header (bl rest).
Proof. intros E bl rest. reflexivity. Qed.

Lemma stv_blt_mode_ok : forall E bl rest bv bs bc bt, bl rest = Ok (bv, bs, bc, bt) ->
  stv_load_lines E false bl (blt_mode_lines rest) =
  Ok {| l_votes := bv;
        l_system := (match bt with Some t => if nonempty t then Some t else None | None => None end, EvFixed (EvOther true) bs);
        l_cands := map (fun cw => (cname_str (fst cw), snd cw)) bc;
        l_pool := map (fun cw => (cname_str (fst cw), snd cw)) bc |}.
Proof.
  intros E bl rest bv bs bc bt H. rewrite stv_blt_mode, H. unfold finish_blt, blt_header. cbn [h_system h_cands fst snd].
  destruct bc; reflexivity.
Qed.
