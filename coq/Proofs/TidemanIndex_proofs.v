(* A tier of the Tideman alternative (Model/Hybrids.v, repaired elimination step) that starts on a profile whose pairwise
   dictionary is not empty keeps a pairwise contest in every round: it never runs into the IndexError of eliminate_one -
   repaired for a profile without a contest (sc) or not - and the repair changes nothing there: after an elimination without a tie the restricted
   profile still holds a pairwise contest.  Otherwise all survivors R would share one rank on every ballot that counts;
   the eliminated candidate c then has its first preferences only from ballots that rank it alone on top, every survivor
   beats it pairwise (first preferences of a survivor - of c <= pairwise margin of the survivor over c, ballot by
   ballot), R would be a dominating set, and the Smith set - which the round was restricted to - would not contain c. *)
From Coq Require Import ZArith QArith Qround Qreduction Setoid List Bool Lia Lqa Permutation Arith.
From VL Require Import Prelude.PyDict Model.GetNBest Model.Convert Model.STV Model.Condorcet Model.Hybrids
     Proofs.GetNBest_proofs Proofs.QOrd Proofs.Condorcet_proofs Proofs.Smith_proofs Proofs.STV_proofs Proofs.STV_resting_proofs
     Proofs.Hybrids_proofs Proofs.ShapeElim_proofs.
Import ListNotations.
Close Scope Q_scope.
Close Scope Z_scope.
Open Scope nat_scope.

Notation zcnt := Hybrids_proofs.cnt.
Notation qcnt := STV_resting_proofs.cnt.

(* ================================================================ pairwise coefficients of a ballot and its first rank *)
Lemma above_notin t x a : ~ In a (flatten t) -> above t x a = 0%Z.
Proof.
  induction t as [|i t IH]; intros H; [reflexivity|]. cbn [above]. rewrite flatten_cons in H.
  rewrite (cnt_notin a (flatten t)) by (intros Hi; apply H, in_or_app; right; exact Hi).
  rewrite IH by (intros Hi; apply H, in_or_app; right; exact Hi). lia.
Qed.

Lemma coef_top_zero cs i t y a : NoDup (flatten (i :: t)) -> In a (members i) -> coef cs (i :: t) y a = 0%Z.
Proof.
  intros Hnd Ha. unfold coef. cbn [above]. rewrite flatten_cons in Hnd.
  assert (Hat : ~ In a (flatten t)) by (intros H; exact (nodup_app_disj _ _ a Hnd Ha H)).
  rewrite (cnt_notin a (flatten t) Hat), (above_notin t y a Hat).
  rewrite (cnt_notin a (set_diff cs (flatten (i :: t)))); [lia|].
  intros H. apply set_diff_in in H. destruct H as [_ H]. apply H. rewrite flatten_cons. apply in_or_app. left. exact Ha.
Qed.

Lemma coef_top_one cs i t a y : In a (members i) -> In y cs -> ~ In y (members i) -> (1 <= coef cs (i :: t) a y)%Z.
Proof.
  intros Ha Hy Hny. unfold coef. cbn [above].
  pose proof (above_nonneg t a y) as H0. pose proof (proj2 (cnt_pos a (members i)) Ha) as H1.
  pose proof (cnt_nonneg y (flatten t)) as H2. pose proof (cnt_nonneg y (set_diff cs (flatten (i :: t)))) as H3.
  assert (H4 : (0 < zcnt a (flatten (i :: t)))%Z) by (apply cnt_pos; rewrite flatten_cons; apply in_or_app; left; exact Ha).
  destruct (in_dec Pos.eq_dec y (flatten t)) as [Hin|Hout].
  - apply cnt_pos in Hin. nia.
  - assert (Hd : In y (set_diff cs (flatten (i :: t)))).
    { apply set_diff_in. split; [exact Hy|]. rewrite flatten_cons. intros H. apply in_app_or in H. tauto. }
    apply cnt_pos in Hd. nia.
Qed.

Lemma above_notin_l t x a : ~ In x (flatten t) -> above t x a = 0%Z.
Proof.
  induction t as [|i t IH]; intros H; [reflexivity|]. cbn [above]. rewrite flatten_cons in H.
  rewrite (cnt_notin x (members i)) by (intros Hi; apply H, in_or_app; left; exact Hi).
  rewrite IH by (intros Hi; apply H, in_or_app; right; exact Hi). lia.
Qed.

Lemma coef_top_le_one cs i t c a : NoDup cs -> NoDup (flatten (i :: t)) -> In c (members i) -> (coef cs (i :: t) c a <= 1)%Z.
Proof.
  intros Hcs Hnd Hc. unfold coef. cbn [above]. pose proof Hnd as Hnd'. rewrite flatten_cons in Hnd'.
  assert (Hct : ~ In c (flatten t)) by (intros H; exact (nodup_app_disj _ _ c Hnd' Hc H)).
  rewrite (above_notin_l t c a Hct).
  rewrite (Hybrids_proofs.cnt_nodup c (members i) (nodup_app_l _ _ Hnd')), (Hybrids_proofs.cnt_nodup a (flatten t) (nodup_app_r _ _ Hnd')).
  rewrite (Hybrids_proofs.cnt_nodup c (flatten (i :: t)) Hnd).
  rewrite (Hybrids_proofs.cnt_nodup a (set_diff cs (flatten (i :: t)))) by (apply nodup_filter, Hcs).
  destruct (cmem a (flatten t)) eqn:E1; destruct (cmem a (set_diff cs (flatten (i :: t)))) eqn:E2;
    destruct (cmem c (members i)); destruct (cmem c (flatten (i :: t))); try lia.
  exfalso. apply cmem_iff in E1, E2. apply set_diff_in in E2. destruct E2 as [_ E2]. apply E2.
  rewrite flatten_cons. apply in_or_app. right. exact E1.
Qed.

(* ================================================================ first-preference shares of a ballot *)
Open Scope Q_scope.

Lemma first_share_zero b c : first_share b 0 c == 0.
Proof.
  destruct b as [|[c'|l] t]; cbn [first_share]; [reflexivity|destruct (ceqb c c'); reflexivity|].
  unfold Qdiv. ring.
Qed.

Lemma members_nodup i t : NoDup (flatten (i :: t)) -> NoDup (members i).
Proof. rewrite flatten_cons. apply nodup_app_l. Qed.

Lemma share_top i t w x : NoDup (members i) -> In x (members i) ->
  first_share (i :: t) w x == w / inject_Z (Z.of_nat (length (members i))).
Proof.
  intros Hnd Hx. destruct i as [c'|l]; cbn [first_share members length] in *.
  - destruct Hx as [<-|[]]. rewrite Hybrids_proofs.ceqb_refl. unfold Qdiv. change (inject_Z (Z.of_nat 1)) with 1. field.
  - rewrite (STV_resting_proofs.cnt_nodup l x Hnd). assert (E : cmem x l = true) by (apply cmem_iff, Hx). rewrite E. ring.
Qed.

Lemma share_not_top i t w x : NoDup (members i) -> ~ In x (members i) -> first_share (i :: t) w x == 0.
Proof.
  intros Hnd Hx. destruct i as [c'|l]; cbn [first_share members] in *.
  - destruct (ceqb x c') eqn:E; [|reflexivity]. apply Hybrids_proofs.ceqb_eq in E. subst. exfalso. apply Hx. left. reflexivity.
  - rewrite (STV_resting_proofs.cnt_nodup l x Hnd). assert (E : cmem x l = false) by (apply cmem_false, Hx). rewrite E. ring.
Qed.

Lemma div_le_self (w : Q) (k : nat) : 0 <= w -> (1 <= k)%nat -> w / inject_Z (Z.of_nat k) <= w.
Proof.
  intros Hw Hk. assert (HL : 1 <= inject_Z (Z.of_nat k)).
  { change 1 with (inject_Z 1). rewrite <- Zle_Qle. lia. }
  apply Qle_shift_div_r; [lra|]. nra.
Qed.

(* the ballot-by-ballot inequality: first preferences of a survivor a minus those of the eliminated c are bounded by the
   pairwise margin of a over c, when every survivor that heads a counting ballot shares that rank with a *)
Lemma ballot_ineq cs (R : list C) c a r (w : Z) : NoDup cs ->
  (0 <= w)%Z -> NoDup (flatten r) -> (forall i, In i r -> members i <> []) -> incl (flatten r) cs ->
  In a cs -> In c cs -> (forall y, In y cs -> y <> c -> In y R) ->
  ((0 < w)%Z -> forall y, In y R -> coef cs r y a = 0%Z) ->
  first_share r (inject_Z w) a - first_share r (inject_Z w) c <= inject_Z (w * (coef cs r a c - coef cs r c a)).
Proof.
  intros Hcs Hw Hnd Hne Hinc Ha Hc HR Hinsep.
  destruct (Z.eq_dec w 0) as [->|Hw0].
  { assert (E : (0 * (coef cs r a c - coef cs r c a) = 0)%Z) by lia. rewrite E. change (inject_Z 0) with 0. rewrite !first_share_zero. lra. }
  assert (Hpos : (0 < w)%Z) by lia. specialize (Hinsep Hpos).
  assert (HwQ : 0 <= inject_Z w) by (change 0 with (inject_Z 0); rewrite <- Zle_Qle; exact Hw).
  destruct r as [|i t].
  { cbn [first_share]. unfold coef. cbn. rewrite Z.mul_0_r. change (inject_Z 0) with 0. lra. }
  pose proof (members_nodup i t Hnd) as Hndt.
  assert (Htop : members i <> []) by (apply Hne; left; reflexivity).
  (* every member of the first rank other than c shares the rank with a *)
  assert (Hshare : forall y, In y (members i) -> y <> c -> In a (members i)).
  { intros y Hy Hyc. destruct (in_dec Pos.eq_dec a (members i)) as [H|H]; [exact H|exfalso].
    assert (Hycs : In y cs) by (apply Hinc; rewrite flatten_cons; apply in_or_app; left; exact Hy).
    pose proof (coef_top_one cs i t y a Hy Ha H) as H1. rewrite (Hinsep y (HR y Hycs Hyc)) in H1. lia. }
  destruct (in_dec Pos.eq_dec a (members i)) as [Hat|Hat]; destruct (in_dec Pos.eq_dec c (members i)) as [Hct|Hct].
  - rewrite (share_top i t _ a Hndt Hat), (share_top i t _ c Hndt Hct).
    rewrite (coef_top_zero cs i t a c Hnd Hct), (coef_top_zero cs i t c a Hnd Hat). rewrite Z.sub_diag, Z.mul_0_r. change (inject_Z 0) with 0. lra.
  - rewrite (share_top i t _ a Hndt Hat), (share_not_top i t _ c Hndt Hct).
    pose proof (coef_top_one cs i t a c Hat Hc Hct) as H1. rewrite (coef_top_zero cs i t c a Hnd Hat).
    assert (Hlen : (1 <= length (members i))%nat) by (destruct (members i); [congruence|cbn; lia]).
    pose proof (div_le_self (inject_Z w) (length (members i)) HwQ Hlen) as Hd.
    assert (Hz : inject_Z w <= inject_Z (w * (coef cs (i :: t) a c - 0))) by (rewrite <- Zle_Qle; nia). lra.
  - (* c heads the ballot without a: it heads it alone *)
    assert (Hone : members i = [c]).
    { destruct (members i) as [|y [|y2 l]] eqn:Em; [congruence| |].
      - destruct Hct as [->|[]]. reflexivity.
      - exfalso. inversion Hndt as [|? ? Hn1 Hn2]; subst.
        destruct (Pos.eq_dec y c) as [->|Hyc].
        + apply Hat, (Hshare y2); [right; left; reflexivity|]. intros ->. apply Hn1. left. reflexivity.
        + apply Hat, (Hshare y); [left; reflexivity|exact Hyc]. }
    rewrite (share_not_top i t _ a Hndt Hat), (share_top i t _ c Hndt Hct), Hone. cbn [length].
    pose proof (coef_top_le_one cs i t c a Hcs Hnd Hct) as H1. rewrite (coef_top_zero cs i t a c Hnd Hct).
    assert (Hz : - inject_Z w <= inject_Z (w * (0 - coef cs (i :: t) c a))) by (rewrite <- inject_Z_opp, <- Zle_Qle; nia).
    change (inject_Z (Z.of_nat 1)) with 1. assert (Hdiv : inject_Z w / 1 == inject_Z w) by (field).
    rewrite Hdiv. lra.
  - exfalso. destruct (members i) as [|y l] eqn:Em; [congruence|].
    apply Hat. apply (Hshare y); [left; reflexivity|]. intros ->. apply Hct. left. reflexivity.
Qed.
Close Scope Q_scope.

(* ================================================================ first-preference totals as sums over the ballots *)
Open Scope Q_scope.
Definition fs_total (votes : rvotes) (x : C) : Q :=
  fold_right (fun (bw : ranked * Z) acc => first_share (fst bw) (inject_Z (snd bw)) x + acc) 0 votes.

Lemma fs_sum_ineq cs (R : list C) c a : NoDup cs -> In a cs -> In c cs -> (forall y, In y cs -> y <> c -> In y R) ->
  forall votes : rvotes,
  (forall r w, In (r, w) votes -> (0 <= w)%Z /\ NoDup (flatten r) /\ (forall i, In i r -> members i <> []) /\ incl (flatten r) cs /\
                                  ((0 < w)%Z -> forall y, In y R -> coef cs r y a = 0%Z)) ->
  fs_total votes a - fs_total votes c
  <= inject_Z (Hybrids_proofs.wsum (fun r => coef cs r a c) votes - Hybrids_proofs.wsum (fun r => coef cs r c a) votes).
Proof.
  intros Hcs Ha Hc HR. induction votes as [|[r w] votes IH]; intros H.
  - unfold fs_total, Hybrids_proofs.wsum. cbn [fold_right]. change (inject_Z (0 - 0)) with 0. lra.
  - destruct (H r w (or_introl eq_refl)) as (H1 & H2 & H3 & H4 & H5).
    pose proof (ballot_ineq cs R c a r w Hcs H1 H2 H3 H4 Ha Hc HR H5) as Hb.
    assert (IH' := IH (fun r' w' Hin => H r' w' (or_intror Hin))).
    cbn [fs_total fold_right fst snd] in *. fold (fs_total votes a) (fs_total votes c) in *.
    rewrite !wsum_cons.
    replace (w * coef cs r a c + Hybrids_proofs.wsum (fun r0 => coef cs r0 a c) votes -
             (w * coef cs r c a + Hybrids_proofs.wsum (fun r0 => coef cs r0 c a) votes))%Z
      with (w * (coef cs r a c - coef cs r c a) +
            (Hybrids_proofs.wsum (fun r0 => coef cs r0 a c) votes - Hybrids_proofs.wsum (fun r0 => coef cs r0 c a) votes))%Z by ring.
    rewrite inject_Z_plus. lra.
Qed.

Lemma fold_right_qv (x : C) (votes : rvotes) :
  fold_right (fun (bw : ballot * Q) acc => (if true then first_share (fst bw) (snd bw) x else 0) + acc) 0 (qv votes) == fs_total votes x.
Proof. unfold qv, fs_total. induction votes as [|[r w] votes IH]; cbn [map fold_right]; [reflexivity|]. rewrite IH. reflexivity. Qed.

Lemma tot_value (votes : rvotes) x v : shared_first_nonempty (qv votes) = true ->
  In (x, v) (some_totals (totals (initial_allocation (qv votes)))) -> v == fs_total votes x.
Proof.
  intros Hne Hin. set (a := initial_allocation (qv votes)) in *.
  assert (Ht : In (Some x, v) (totals a)).
  { unfold some_totals in Hin. apply in_flat_map in Hin. destruct Hin as ([[k|] t] & Hkt & Hin); cbn [fst snd] in Hin; [|destruct Hin].
    destruct Hin as [[= -> ->]|[]]. exact Hkt. }
  destruct (initial_allocation_conserves (qv votes)) as [Hnd _]. fold a in Hnd.
  destruct (totals_get a x v Hnd Ht) as (p & Hg & ->).
  eapply Qeq_trans; [apply pile_sum_wsum|].
  pose proof (initial_allocation_shares (qv votes) (fun _ => true) x respects_all Hne) as Hs. fold a in Hs.
  unfold aweight in Hs. rewrite Hg in Hs. eapply Qeq_trans; [|apply fold_right_qv]. eapply Qeq_trans; [|exact Hs].
  unfold fweight, STV_proofs.wsum. reflexivity.
Qed.
Close Scope Q_scope.

(* ================================================================ the one candidate dropped without a tie has strictly fewer *)
Lemma map_cand_inj (a b : list C) : map Cand a = map Cand b -> a = b.
Proof. revert b. induction a as [|x a IH]; intros [|y b] H; try discriminate; [reflexivity|]. injection H as -> H. f_equal. apply IH, H. Qed.

Lemma nodup_fst_value {X} (l : list (C * X)) c u v : NoDup (map fst l) -> In (c, u) l -> In (c, v) l -> u = v.
Proof.
  induction l as [|[k x] l IH]; intros Hnd Hu Hv; [destruct Hu|]. cbn [map fst] in Hnd. inversion Hnd as [|? ? Hk Hn]; subst.
  destruct Hu as [Hu|Hu]; destruct Hv as [Hv|Hv].
  - congruence.
  - injection Hu as -> _. exfalso. apply Hk. apply in_map_iff. exists (c, v). split; [reflexivity|exact Hv].
  - injection Hv as -> _. exfalso. apply Hk. apply in_map_iff. exists (c, u). split; [reflexivity|exact Hu].
  - exact (IH Hn Hu Hv).
Qed.

Lemma gnb_dropped_strict (tot : list (C * Q)) m (R : list C) : NoDup (map fst tot) -> length tot = S (S m) ->
  get_n_best Qle_bool tot (S m) = map Cand R ->
  forall a va c vc, In (a, va) tot -> In (c, vc) tot -> In a R -> ~ In c R -> (vc < va)%Q.
Proof.
  intros Hnd Hlen Hr a va c vc Ha Hc HaR HcR.
  destruct (get_n_best_spec Qle_bool Qle_bool_total Qle_bool_trans tot (S m) ltac:(lia)) as [_ H]. specialize (H ltac:(lia)).
  destruct H as (above & level & below & thr & Hperm & _ & Habove & Hlevel & Hbelow & Hpos & Heq & Htie).
  destruct (Nat.eq_dec (length above + length level) (S m)) as [E|E].
  - specialize (Heq E). rewrite Hr in Heq. unfold cand_of in Heq. rewrite <- (map_map fst (@Cand C) (above ++ level)) in Heq. apply map_cand_inj in Heq.
    assert (HndP : NoDup (map fst (above ++ level ++ below))) by (eapply Permutation_NoDup; [apply Permutation_map, Permutation_sym, Hperm|exact Hnd]).
    (* a sits in above ++ level with its value *)
    assert (Hva : In (a, va) (above ++ level)).
    { rewrite Heq in HaR. apply in_map_iff in HaR. destruct HaR as ([a' va'] & Ea & Hin). cbn [fst] in Ea. subst a'.
      assert (Hin' : In (a, va') (above ++ level ++ below)) by (rewrite app_assoc; apply in_or_app; left; exact Hin).
      assert (Ha' : In (a, va) (above ++ level ++ below)) by (apply (Permutation_in _ (Permutation_sym Hperm)), Ha).
      rewrite (nodup_fst_value _ a va va' HndP Ha' Hin'). exact Hin. }
    assert (Hvc : In (c, vc) below).
    { assert (Hc' : In (c, vc) (above ++ level ++ below)) by (apply (Permutation_in _ (Permutation_sym Hperm)), Hc).
      rewrite app_assoc in Hc'. apply in_app_or in Hc'. destruct Hc' as [Hc'|Hc']; [|exact Hc'].
      exfalso. apply HcR. rewrite Heq. apply in_map_iff. exists (c, vc). split; [reflexivity|exact Hc']. }
    rewrite Forall_forall in Habove, Hlevel, Hbelow.
    specialize (Hbelow _ Hvc). cbn [snd] in Hbelow. unfold ltb in Hbelow. apply negb_true_iff in Hbelow.
    assert (Hlt : (vc < thr)%Q).
    { apply Qnot_le_lt. intros Hle. apply Qle_bool_iff in Hle. congruence. }
    apply in_app_or in Hva. destruct Hva as [Hva|Hva].
    + specialize (Habove _ Hva). cbn [snd] in Habove. unfold ltb in Habove. apply negb_true_iff in Habove.
      assert (Hlt2 : (thr < va)%Q) by (apply Qnot_le_lt; intros Hle; apply Qle_bool_iff in Hle; congruence).
      apply (Qlt_trans _ thr); assumption.
    + specialize (Hlevel _ Hva). cbn [snd] in Hlevel. unfold eqv in Hlevel. apply andb_true_iff in Hlevel. destruct Hlevel as [_ Hle].
      apply Qle_bool_iff in Hle. apply (Qlt_le_trans _ thr); assumption.
  - exfalso. assert (Hgt : S m < length above + length level) by lia. specialize (Htie Hgt).
    rewrite Hr in Htie. assert (Hin : In (TieR (map fst level)) (map Cand R)).
    { rewrite Htie. apply in_or_app. right. destruct (S m - length above) as [|k] eqn:Ek; [lia|]. left. reflexivity. }
    apply in_map_iff in Hin. destruct Hin as (? & Hd & _). discriminate.
Qed.

(* ================================================================ a restricted profile has no empty rank *)
Lemma subset_items_nonempty S votes r (w : Z) : In (r, w) (subset_votes S votes) -> forall i, In i r -> members i <> [].
Proof.
  intros Hin. assert (Hk : In r (map fst (subset_votes S votes))) by (apply in_map_iff; exists (r, w); auto).
  rewrite subset_votes_unfold in Hk. destruct (sub_from_keys _ _ _ _ Hk) as [[]|(r0 & w0 & _ & ->)].
  intros i Hi. exact (sub_ranked_nonempty S r0 i Hi).
Qed.

Lemma subset_shared_first S votes : shared_first_nonempty (qv (subset_votes S votes)) = true.
Proof.
  unfold shared_first_nonempty. apply forallb_forall. intros [b q] Hin. unfold qv in Hin. apply in_map_iff in Hin.
  destruct Hin as ([r w] & E & Hin). cbn [fst snd] in E. injection E as <- _. cbn [fst].
  destruct r as [|[c|[|x l]] t]; try reflexivity.
  exfalso. apply (subset_items_nonempty S votes _ w Hin (IS [])); [left; reflexivity|reflexivity].
Qed.

Lemma coef_nonneg cs r a b : (0 <= coef cs r a b)%Z.
Proof.
  unfold coef. pose proof (above_nonneg r a b). pose proof (cnt_nonneg a (flatten r)). pose proof (cnt_nonneg b (set_diff cs (flatten r))). nia.
Qed.

Lemma wsum_zero_terms (f : ranked -> Z) (votes : rvotes) :
  (forall r w, In (r, w) votes -> (0 <= w)%Z /\ (0 <= f r)%Z) -> Hybrids_proofs.wsum f votes = 0%Z ->
  forall r w, In (r, w) votes -> (0 < w)%Z -> f r = 0%Z.
Proof.
  induction votes as [|[r0 w0] votes IH]; intros Hnn Hs r w Hin Hw; [destruct Hin|].
  rewrite wsum_cons in Hs.
  assert (Htail : (0 <= Hybrids_proofs.wsum f votes)%Z).
  { clear - Hnn. induction votes as [|[r1 w1] votes IH]; [cbn; lia|]. rewrite wsum_cons.
    assert (H1 := Hnn r1 w1 (or_intror (or_introl eq_refl))).
    assert (H2 : (0 <= Hybrids_proofs.wsum f votes)%Z).
    { apply IH. intros r w [H|H]; [apply (Hnn r w); left; exact H|apply (Hnn r w); right; right; exact H]. }
    nia. }
  destruct (Hnn r0 w0 (or_introl eq_refl)) as [H1 H2].
  destruct Hin as [[= -> ->]|Hin].
  - nia.
  - apply (IH (fun r' w' H' => Hnn r' w' (or_intror H')) ltac:(nia) r w Hin Hw).
Qed.

Lemma exists_dropped (R K : list C) : NoDup K -> length R < length K -> exists c, In c K /\ ~ In c R.
Proof.
  intros HK Hl. destruct (forallb (fun x => cmem x R) K) eqn:E.
  - exfalso. rewrite forallb_forall in E. assert (Hi : incl K R) by (intros x Hx; apply cmem_iff, E, Hx).
    pose proof (NoDup_incl_length HK Hi). lia.
  - destruct (forallb_false _ _ E) as (c & Hc & Hm). exists c. split; [exact Hc|]. apply cmem_false, Hm.
Qed.

(* the candidates of the round restricted to its Smith set are the Smith set *)
Lemma smith_round_cands round : wf_votes round = true -> pairwise round <> [] ->
  forall x, In x (Kc (subset_votes (smith_schwartz (pairwise round) true) round)) <-> In x (smith_schwartz (pairwise round) true).
Proof.
  intros Hwf Hne x. rewrite arc_iff, subset_cands. split; [tauto|]. intros H. split; [exact H|].
  apply candidates_pairwise_in. apply (smith_subset _ (pairwise_two round Hwf Hne)). exact H.
Qed.

(* ================================================================ an elimination without a tie leaves a contest *)
Lemma elimination_keeps_contest round (R : list C) : wf_votes round = true -> pairwise round <> [] ->
  let sset := smith_schwartz (pairwise round) true in
  let round1 := subset_votes sset round in
  eliminate_one round1 = Some (map Cand R) -> 2 <= length R ->
  pairwise (subset_votes R round1) <> [].
Proof.
  intros Hwf Hne sset round1 Ee H2 Hempty.
  set (P := pairwise round) in *.
  pose proof (pairwise_two round Hwf Hne) as H2P. fold P in H2P.
  pose proof (pairwise_nonneg round Hwf) as Hnn. fold P in Hnn.
  pose proof (subset_wf sset round Hwf) as Hwf1. fold round1 in Hwf1.
  pose proof (smith_round_cands round Hwf Hne) as HK1. fold P sset round1 in HK1.
  assert (Et : has_tie (map Cand R) = false).
  { clear. induction R as [|x R IH]; [reflexivity|exact IH]. }
  destruct (elim_spec round1 _ Hwf1 Ee Et) as (R' & E1 & E2 & E3 & E4). apply map_cand_inj in E1. subst R'.
  set (K1 := Kc round1) in *.
  (* the totals the elimination looked at *)
  unfold eliminate_one in Ee. fold K1 in Ee. pose proof (totals_keys round1 Hwf1) as Hk. fold K1 in Hk.
  set (tot := some_totals (totals (initial_allocation (qv round1)))) in *.
  destruct (length K1) as [|[|m]] eqn:El; [discriminate|cbn [length] in E4; lia|]. injection Ee as Ee.
  assert (Hm : S m = length R) by lia.
  assert (Hlen : length tot = S (S m)) by (rewrite <- El, <- Hk, map_length; reflexivity).
  assert (Hndt : NoDup (map fst tot)) by (rewrite Hk; apply arc_nodup).
  destruct (exists_dropped R K1 (arc_nodup round1) ltac:(lia)) as (c & HcK & HcR).
  assert (HRc : forall y, In y K1 -> y <> c -> In y R).
  { intros y Hy Hyc. destruct (in_dec Pos.eq_dec y R) as [H|H]; [exact H|exfalso].
    apply Hyc. apply (drop_one R K1 y c E2 E3); [lia|exact Hy|exact HcK|exact H|exact HcR]. }
  set (cs := cands_of round1).
  assert (Hcs : forall x, In x cs <-> In x K1) by (intros x; symmetry; apply arc_iff).
  assert (Hval : forall x, In x K1 -> exists v, In (x, v) tot).
  { intros x Hx. rewrite <- Hk in Hx. apply in_map_iff in Hx. destruct Hx as ([x' v] & E & Hin). cbn [fst] in E. subst x'. exists v. exact Hin. }
  pose proof (proj1 (wf_votes_spec round1) Hwf1) as Hv1.
  (* every survivor beats the dropped candidate *)
  assert (Hbeats : forall a, In a R -> beats P a c).
  { intros a HaR. pose proof (E3 a HaR) as HaK.
    destruct (Hval a HaK) as (va & Hva). destruct (Hval c HcK) as (vc & Hvc).
    pose proof (gnb_dropped_strict tot m R Hndt Hlen Ee a va c vc Hva Hvc HaR HcR) as Hlt.
    pose proof (tot_value round1 a va (subset_shared_first sset round) Hva) as Ea.
    pose proof (tot_value round1 c vc (subset_shared_first sset round) Hvc) as Ec.
    assert (Hineq := fs_sum_ineq cs R c a (cands_of_nodup round1) (proj2 (Hcs a) HaK) (proj2 (Hcs c) HcK)
                       (fun y Hy Hyc => HRc y (proj1 (Hcs y) Hy) Hyc) round1).
    assert (Hhyp : forall r w, In (r, w) round1 -> (0 <= w)%Z /\ NoDup (flatten r) /\ (forall i, In i r -> members i <> []) /\ incl (flatten r) cs /\
                                  ((0 < w)%Z -> forall y, In y R -> coef cs r y a = 0%Z)).
    { intros r w Hin. destruct (Hv1 r w Hin) as [Hnd Hw]. split; [exact Hw|]. split; [exact Hnd|].
      split; [exact (subset_items_nonempty sset round r w Hin)|]. split.
      - intros x Hx. apply cands_of_spec. exists r, w. split; assumption.
      - intros Hpos y HyR.
        assert (H0 : pget0 (pairwise (subset_votes R round1)) (y, a) = 0%Z) by (rewrite Hempty; reflexivity).
        rewrite (subset_restriction R round1 y a Hwf1 HyR HaR), pairwise_get in H0. fold cs in H0.
        refine (wsum_zero_terms (fun r0 => coef cs r0 y a) round1 _ H0 r w Hin Hpos).
        intros r' w' Hin'. split; [apply (Hv1 r' w' Hin')|apply coef_nonneg]. }
    specialize (Hineq Hhyp).
    assert (Hpos : (0 < inject_Z (Hybrids_proofs.wsum (fun r => coef cs r a c) round1 - Hybrids_proofs.wsum (fun r => coef cs r c a) round1))%Q).
    { eapply Qlt_le_trans; [|exact Hineq]. rewrite <- Ea, <- Ec. lra. }
    change 0%Q with (inject_Z 0) in Hpos. rewrite <- Zlt_Qlt in Hpos.
    unfold beats, P.
    assert (HaS : In a sset) by (apply HK1, HaK). assert (HcS : In c sset) by (apply HK1, HcK).
    rewrite <- (subset_restriction sset round a c Hwf HaS HcS), <- (subset_restriction sset round c a Hwf HcS HaS).
    fold round1. rewrite !pairwise_get. fold cs. lia. }
  (* so the survivors would be a dominating set that misses a member of the Smith set *)
  assert (Hdom : forall a b, In a R -> In b (candidates P) -> ~ In b R -> beats P a b).
  { intros a b HaR Hb HbR. destruct (in_dec Pos.eq_dec b sset) as [HbS|HbS].
    - assert (b = c) as -> by (apply (drop_one R K1 b c E2 E3); [lia|apply HK1, HbS|exact HcK|exact HbR|exact HcR]).
      exact (Hbeats a HaR).
    - destruct (smith_dominating P H2P) as [_ Hd]. apply Hd; [apply HK1, E3, HaR|exact Hb|exact HbS]. }
  assert (HRne : R <> []) by (intros ->; cbn [length] in H2; lia).
  pose proof (smith_minimal P Hnn H2P R HRne Hdom) as Hmin. apply HcR, Hmin, HK1, HcK.
Qed.

(* ================================================================ the tier loop never raises IndexError *)
(* one round of a tier that starts with a pairwise contest: the winner set is the Smith set - two or more candidates, or
   the tier is decided -, the elimination answers, and a further round starts with a contest again *)
Lemma tier_round f round : wf_votes round = true -> pairwise round <> [] ->
  (exists w, forall sc, tideman_tier true sc (S f) round = inl (Cand w)) \/
  (forall sc, tideman_tier true sc (S f) round = inr H_nie) \/
  (exists round', wf_votes round' = true /\ pairwise round' <> [] /\
                  forall sc, tideman_tier true sc (S f) round = tideman_tier true sc f round').
Proof.
  intros Hwf Hne.
  assert (Hrne : round <> []) by (intros ->; apply Hne; reflexivity).
  pose proof (smith_round_cands round Hwf Hne) as HK1.
  pose proof (elimination_keeps_contest round) as HM. cbv zeta in HM.
  pose proof (smith_nonempty round Hwf Hne) as Hsne.
  pose proof (smith_nodup (pairwise round)) as Hsnd.
  assert (Hunf : forall sc, tideman_tier true sc (S f) round =
    match smith_schwartz (pairwise round) true with
    | [w] => inl (Cand w)
    | sset => let round1 := subset_votes sset round in
              match eliminate_one round1 with
              | None => inr H_index
              | Some rem => if true && has_tie rem then inr H_nie
                            else match rem with [r] => inl r | _ => tideman_tier true sc f (subset_votes (plain rem) round1) end
              end
    end).
  { intros sc. rewrite (tideman_tier_unfold true sc f round Hrne), (winner_set_contest sc round Hwf Hne). reflexivity. }
  destruct (smith_schwartz (pairwise round) true) as [|s [|s2 ss]] eqn:Es; [congruence|left; exists s; intros sc; rewrite Hunf; reflexivity|].
  set (sset := s :: s2 :: ss) in *. set (round1 := subset_votes sset round) in *.
  pose proof (subset_wf sset round Hwf) as Hwf1. fold round1 in Hwf1.
  assert (HlenK : 2 <= length (Kc round1)).
  { rewrite (same_keys_length (Kc round1) sset (arc_nodup round1) Hsnd HK1). cbn [sset length]. lia. }
  destruct (elim_nform round1 Hwf1 HlenK) as (rem & Ee & Hnf).
  assert (Hunf2 : forall sc, tideman_tier true sc (S f) round =
     if has_tie rem then inr H_nie else match rem with [r] => inl r | _ => tideman_tier true sc f (subset_votes (plain rem) round1) end).
  { intros sc. rewrite Hunf. cbv zeta. fold round1. rewrite Ee. reflexivity. }
  destruct (has_tie rem) eqn:Et; [right; left; exact Hunf2|].
  destruct (elim_spec round1 rem Hwf1 Ee Et) as (R & E1 & E2 & E3 & E4).
  destruct rem as [|r [|r2 rr]].
  - destruct R; [|discriminate]. cbn [length] in E4. lia.
  - left. destruct R as [|x [|y R]]; try discriminate. injection E1 as ->. exists x. exact Hunf2.
  - right. right. exists (subset_votes R round1).
    assert (H2 : 2 <= length R).
    { assert (El : length (r :: r2 :: rr) = length R) by (rewrite E1, map_length; reflexivity). cbn [length] in El. lia. }
    split; [apply subset_wf, Hwf1|]. split.
    + rewrite E1 in Ee. exact (HM R Hwf Hne Ee H2).
    + intros sc. rewrite Hunf2, E1, plain_map_cand. destruct R as [|x [|y R']]; [cbn [length] in H2; lia|cbn [length] in H2; lia|reflexivity].
Qed.

Lemma tier_no_index sc : forall fuel round, wf_votes round = true -> pairwise round <> [] ->
  tideman_tier true sc fuel round <> inr H_index.
Proof.
  induction fuel as [|f IH]; intros round Hwf Hne; [destruct round; discriminate|].
  destruct (tier_round f round Hwf Hne) as [(w & E)|[E|(round' & Hwf' & Hne' & E)]]; rewrite E; [discriminate|discriminate|].
  exact (IH _ Hwf' Hne').
Qed.

(* the repair for a profile without a pairwise contest is conservative: a tier that starts with a contest keeps one in every
   round, so the fallback of get_winner_set is never taken and the repaired tier answers exactly as the unrepaired one *)
Lemma tier_repair_conservative : forall fuel round, wf_votes round = true -> pairwise round <> [] ->
  tideman_tier true true fuel round = tideman_tier true false fuel round.
Proof.
  induction fuel as [|f IH]; intros round Hwf Hne; [destruct round; reflexivity|].
  destruct (tier_round f round Hwf Hne) as [(w & E)|[E|(round' & Hwf' & Hne' & E)]]; rewrite !E; [reflexivity|reflexivity|].
  exact (IH _ Hwf' Hne').
Qed.

(* one seat (all that the code without the tier repair can fill): with a pairwise contest never IndexError, and the same
   answer with and without the single-candidate repair *)
Theorem tideman_no_index sc tr votes : wf_votes votes = true -> pairwise votes <> [] -> tideman_alt true sc tr votes 1 <> H_index.
Proof.
  intros Hwf Hne. unfold tideman_alt. rewrite tideman_loop_S.
  destruct (tideman_tier true sc (tier_fuel_of votes) votes) as [[w|l]|e] eqn:Et.
  - destruct (cmem w _); [|discriminate]. cbn [app length Nat.eqb orb]. discriminate.
  - discriminate.
  - intros ->. exact (tier_no_index sc _ votes Hwf Hne Et).
Qed.

Theorem tideman_repair_conservative tr votes : wf_votes votes = true -> pairwise votes <> [] ->
  tideman_alt true true tr votes 1 = tideman_alt true false tr votes 1.
Proof.
  intros Hwf Hne. unfold tideman_alt. rewrite !tideman_loop_S, (tier_repair_conservative _ votes Hwf Hne).
  destruct (tideman_tier true false (tier_fuel_of votes) votes) as [[w|l]|e]; [|reflexivity|reflexivity].
  destruct (cmem w _); reflexivity.
Qed.
