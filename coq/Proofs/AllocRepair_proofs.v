(* Wave 6, fixes/C12-allocated-score-exhausted and C12-allocated-score-tie-seats (Model/AllocScore.v, the [_x]
   definitions with [arepairs]):
   - the subtraction loop without the overall-minimum bootstrap never fails: on positive weights it removes
     min(quota, support) from the strongest supporters first, whatever the ballots look like (empty ballots, nothing
     left) - the crash condition of the pinned loop is gone;
   - the allocation loop has no error outcome besides ZeroDivisionError of the quota for no seats;
   - with no repair applied the flagged definitions are the pinned ones. *)
From Coq Require Import ZArith QArith Qminmax Qround List Bool Arith Lia Lqa Permutation.
From VL Require Import Prelude.PyDict Model.GetNBest Model.Convert Model.Quota Model.AllocScore
     Proofs.GetNBest_proofs Proofs.QOrd Proofs.Dict_proofs Proofs.JR_proofs Proofs.AllocScore_proofs.
Import ListNotations.
Open Scope Q_scope.

(* ================================================================ no repair = the code as pinned *)
Lemma subtract_votes_x_pinned cur c g mx q : subtract_votes_x apinned cur c g mx q = subtract_votes cur c g mx q.
Proof. reflexivity. Qed.
Lemma elect_one_x_pinned cf cur el c : elect_one_x apinned cf cur el c = elect_one cf cur el c.
Proof. reflexivity. Qed.
Lemma elect_all_x_pinned cf tied : forall cur el, elect_all_x apinned cf tied cur el = elect_all cf tied cur el.
Proof.
  induction tied as [|c t IH]; intros cur el; [reflexivity|]. cbn [elect_all_x elect_all]. rewrite elect_one_x_pinned.
  destruct (elect_one cf cur el c) as [[cur' el']|e]; [apply IH|reflexivity].
Qed.
Lemma round_scores_pinned cands cf cur el : round_scores apinned cands cf cur el = sum_scores cur.
Proof. unfold round_scores. destruct (sum_scores cur); reflexivity. Qed.
Lemma alloc_step_x_pinned cands cf cur el rem : alloc_step_x apinned cands cf cur el rem = alloc_step cf cur el rem.
Proof.
  unfold alloc_step_x, alloc_step. destruct rem as [|rem]; [reflexivity|]. rewrite round_scores_pinned.
  destruct (get_n_best Qle_bool (sum_scores cur) 1) as [|[c|t] rest]; [reflexivity| |].
  - rewrite elect_one_x_pinned. reflexivity.
  - rewrite elect_all_x_pinned. reflexivity.
Qed.
Lemma alloc_loop_x_pinned cands cf : forall fuel cur el rem, alloc_loop_x apinned cands fuel cf cur el rem = alloc_loop fuel cf cur el rem.
Proof.
  induction fuel as [|f IH]; intros cur el rem; [reflexivity|]. cbn [alloc_loop_x alloc_loop]. rewrite alloc_step_x_pinned.
  destruct (alloc_step cf cur el rem); [apply IH|reflexivity|reflexivity].
Qed.
Lemma alloc_distribute_x_pinned qs orders votes n prev mx :
  alloc_distribute_x apinned qs orders votes n prev mx = alloc_distribute qs orders votes n prev mx.
Proof. unfold alloc_distribute_x, alloc_distribute. rewrite alloc_loop_x_pinned. reflexivity. Qed.
Lemma alloc_select_x_pinned qs orders votes n : alloc_select_x apinned qs orders votes n = alloc_select qs orders votes n.
Proof. unfold alloc_select_x, alloc_select. rewrite alloc_distribute_x_pinned. reflexivity. Qed.

(* ================================================================ the subtraction loop without the bootstrap *)
Lemma first_score_none cur c : first_score cur c = None -> no_supporters c cur.
Proof.
  unfold first_score. induction cur as [|bw cur IH]; intros H bw' Hin; [destruct Hin|]. cbn [flat_map] in H.
  destruct (dget (fst bw) c) as [s|] eqn:E; [discriminate|]. cbn [app] in H. destruct Hin as [<-|Hin]; [exact E|exact (IH H bw' Hin)].
Qed.

Lemma first_score_some cur c s : first_score cur c = Some s -> exists bw, In bw cur /\ dget (fst bw) c = Some s.
Proof.
  unfold first_score. induction cur as [|bw cur IH]; [discriminate|]. cbn [flat_map].
  destruct (dget (fst bw) c) as [s0|] eqn:E; cbn [app].
  - intros [= <-]. exists bw. split; [left; reflexivity|exact E].
  - intros H. destruct (IH H) as (bw' & Hin & Hs). exists bw'. split; [right; exact Hin|exact Hs].
Qed.

Theorem fraction_out_r_spec c : forall fuel cur ss, wpos cur -> (length cur < fuel)%nat -> 0 < ss ->
  match fraction_out_r fuel cur c ss with
  | inr _ => False
  | inl cur' =>
      exists t f, cur' = cut_at c t f cur /\ 0 <= f /\ f < 1 /\ (no_supporters c cur \/ has_score c cur t) /\
                  wtotal cur' == wtotal cur - Qmin ss (asupport c cur)
  end.
Proof.
  induction fuel as [|fuel IH]; intros cur ss Hp Hfuel Hss; [lia|].
  cbn [fraction_out_r]. assert (E0 : Qle_bool ss 0 = false) by (apply Qle_bool_false; exact Hss). rewrite E0.
  destruct (first_score cur c) as [bs0|] eqn:Efs.
  2:{ pose proof (first_score_none cur c Efs) as Hns.
      exists 0, 0. split; [symmetry; apply cut_at_no_supporters, Hns|]. split; [lra|]. split; [lra|]. split; [left; exact Hns|].
      pose proof (support_none c cur Hns) as Hs0. destruct (Q.min_spec ss (asupport c cur)) as [(Ha & Hb)|(Ha & Hb)]; rewrite Hb; lra. }
  destruct (first_score_some cur c bs0 Efs) as (bw0 & Hin0 & Hs0).
  destruct (best_score_spec c cur bs0) as (Hbs0 & Hmax & Hbs). cbv zeta in Hbs0, Hmax, Hbs.
  set (bs := best_score cur c bs0) in *.
  set (size := Qred (qsum (map snd (filter (fun bw : sballot * Q => is_best c bs (fst bw)) cur)))).
  assert (Hsize : size == lvl c bs cur).
  { unfold size. rewrite Qred_correct. apply (qsum_filter_lsum (fun bw => is_best c bs (fst bw))). }
  pose proof (lvl_le_support c bs cur Hp) as Hls. pose proof (support_le_total c cur Hp) as Hst.
  pose proof (lvl_nonneg c bs cur Hp) as Hl0.
  assert (Hhas : has_score c cur bs).
  { destruct Hbs as [Hbs|(bw' & Hin' & Hs')]; [exists bw0, bs0; rewrite Hbs; split; [exact Hin0|split; [exact Hs0|reflexivity]]|].
    exists bw', bs. split; [exact Hin'|split; [exact Hs'|reflexivity]]. }
  assert (Hlpos : 0 < lvl c bs cur).
  { destruct (Qlt_le_dec 0 (lvl c bs cur)) as [H|H]; [exact H|exfalso]. assert (Hz : lvl c bs cur == 0) by lra.
    pose proof (lvl_zero_none c bs cur Hp Hz) as Hnone. destruct Hhas as (bw' & s' & Hin' & Hs' & He').
    pose proof (Hnone bw' Hin') as H3. unfold is_best in H3. rewrite Hs' in H3. apply Qeq_bool_false in H3. exact (H3 He'). }
  assert (Ez : Qeq_bool size 0 = false) by (apply Qeq_bool_false; lra). rewrite Ez.
  destruct (lvl_pos_some c bs cur Hp) as (bwb & Hinb & Hbb); [intros H; lra|].
  destruct (Qle_bool size ss) eqn:Ele.
  - (* remove all best votes, one more round *)
    apply Qle_bool_iff in Ele.
    set (P1 := filter (fun bw : sballot * Q => negb (is_best c bs (fst bw))) cur).
    assert (Hp1 : wpos P1) by (apply wpos_filter, Hp).
    assert (Hlen : (length P1 < length cur)%nat).
    { apply (filter_length_lt _ cur bwb Hinb). rewrite Hbb. reflexivity. }
    pose proof (wtotal_filter_top c bs cur) as Ht1. pose proof (support_filter_top c bs cur) as Hs1. fold P1 in Ht1, Hs1.
    assert (Hss1 : Qred (ss - size) == ss - lvl c bs cur) by (rewrite Qred_correct; lra).
    destruct (Qlt_le_dec 0 (Qred (ss - size))) as [Hpos1|Hnp1].
    + specialize (IH P1 (Qred (ss - size)) Hp1 ltac:(lia) Hpos1).
      destruct (fraction_out_r fuel P1 c (Qred (ss - size))) as [cur'|e]; [|exact IH].
      destruct IH as (t & f & Hcut & Hf0 & Hf1 & Hwhere & Htot).
      destruct Hwhere as [Hns1|(bw1 & s1 & Hin1 & Hs1' & Heq1)].
      * exists bs, 0. split; [|split; [lra|split; [lra|split; [right; exact Hhas|]]]].
        { rewrite Hcut, (cut_at_no_supporters _ _ _ _ Hns1). apply filter_top_cut, Hmax. }
        pose proof (support_none c P1 Hns1) as Hz.
        destruct (Q.min_spec (Qred (ss - size)) (asupport c P1)) as [(Ha & Hb)|(Ha & Hb)]; rewrite Hb in Htot;
        destruct (Q.min_spec ss (asupport c cur)) as [(Ha' & Hb')|(Ha' & Hb')]; rewrite Hb'; lra.
      * apply filter_In in Hin1. destruct Hin1 as (Hin1 & Hnb1). apply negb_true_iff in Hnb1.
        unfold is_best in Hnb1. rewrite Hs1' in Hnb1. apply Qeq_bool_false in Hnb1.
        pose proof (Hmax bw1 s1 Hin1 Hs1') as Hle1.
        assert (Hlt : t < bs). { apply Qle_lt_or_eq in Hle1. destruct Hle1 as [H|H]; [lra|contradiction]. }
        exists t, f. split; [|split; [exact Hf0|split; [exact Hf1|split; [right; exists bw1, s1; auto|]]]].
        { rewrite Hcut. apply cut_at_filter_top, Hlt. }
        destruct (Q.min_spec (Qred (ss - size)) (asupport c P1)) as [(Ha & Hb)|(Ha & Hb)]; rewrite Hb in Htot;
        destruct (Q.min_spec ss (asupport c cur)) as [(Ha' & Hb')|(Ha' & Hb')]; rewrite Hb'; lra.
    + assert (Hnp : fraction_out_r fuel P1 c (Qred (ss - size)) = inl P1).
      { apply Qle_bool_iff in Hnp1. destruct fuel; cbn [fraction_out_r]; rewrite Hnp1; reflexivity. }
      rewrite Hnp. exists bs, 0. split; [apply filter_top_cut, Hmax|]. split; [lra|]. split; [lra|]. split; [right; exact Hhas|].
      destruct (Q.min_spec ss (asupport c cur)) as [(Ha' & Hb')|(Ha' & Hb')]; rewrite Hb'; lra.
  - (* spread the subtraction across the best votes *)
    apply Qle_bool_false in Ele.
    set (fr := Qred ((size - ss) / size)).
    assert (Hfr : fr == (lvl c bs cur - ss) / lvl c bs cur).
    { unfold fr. rewrite Qred_correct, Hsize. reflexivity. }
    assert (Hfrl : lvl c bs cur * fr == lvl c bs cur - ss) by (rewrite Hfr; field; lra).
    assert (Hfr0 : 0 < fr).
    { rewrite Hfr. apply Qlt_shift_div_l; lra. }
    assert (Hfr1 : fr < 1).
    { rewrite Hfr. apply Qlt_shift_div_r; lra. }
    exists bs, fr. split; [apply scale_top_cut; [exact Hmax|lra]|]. split; [lra|]. split; [exact Hfr1|]. split; [right; exact Hhas|].
    rewrite wtotal_scale_top, Hfrl.
    destruct (Q.min_spec ss (asupport c cur)) as [(Ha' & Hb')|(Ha' & Hb')]; rewrite Hb'; lra.
Qed.

(* ================================================================ one election, the loop: no error outcome *)
Section Exhausted.
  Variable ra : arepairs.
  Hypothesis Hra : ra_exhausted ra = true.

  Theorem subtract_votes_x_spec cur c gained mx q : wpos cur -> 0 < q ->
    exists cur', subtract_votes_x ra cur c gained mx q = inl cur' /\
      exists mid, removal_spec c q cur mid /\
                  cur' = (if eliminated gained mx then subset_out c mid else mid) /\
                  wtotal cur' == wtotal cur - Qmin q (asupport c cur) /\ wpos cur'.
  Proof.
    intros Hp Hq. unfold subtract_votes_x, fraction_out_x. rewrite Hra.
    pose proof (fraction_out_r_spec c (S (length cur)) cur q Hp (Nat.lt_succ_diag_r _) Hq) as H.
    destruct (fraction_out_r (S (length cur)) cur c q) as [mid|e]; [|destruct H].
    destruct H as (t & f & Hcut & Hf0 & Hf1 & Hw & Htot).
    assert (Hspec : removal_spec c q cur mid) by (exists t, f; auto).
    pose proof (removal_spec_wpos _ _ _ _ Hp Hspec) as Hpm.
    destruct (subset_out_spec c mid) as (S1 & _ & S3 & _).
    unfold eliminated. destruct mx as [m|]; [destruct (gained =? m)%Z|];
      (eexists; split; [reflexivity|]; exists mid; split; [exact Hspec|]; split; [reflexivity|]);
      [split; [rewrite S1; exact Htot|apply S3, Hpm]|split; [exact Htot|exact Hpm]|split; [exact Htot|exact Hpm]].
  Qed.

  Theorem elect_one_x_spec cf cur el c : wpos cur -> 0 < ac_quota cf ->
    exists cur', elect_one_x ra cf cur el c = inl (cur', eincr el c) /\
      exists mid, removal_spec c (ac_quota cf) cur mid /\
                  cur' = (if eliminated (gained_of cf el c) (dget (ac_max cf) c) then subset_out c mid else mid) /\
                  wtotal cur' == wtotal cur - Qmin (ac_quota cf) (asupport c cur) /\ wpos cur'.
  Proof.
    intros Hp Hq. unfold elect_one_x.
    destruct (subtract_votes_x_spec cur c (gained_of cf el c) (dget (ac_max cf) c) (ac_quota cf) Hp Hq) as (cur' & E & H).
    unfold gained_of in E. rewrite E. exists cur'. split; [reflexivity|exact H].
  Qed.

  Lemma elect_all_x_ok cf tied : forall cur el, wpos cur -> 0 < ac_quota cf ->
    exists cur' el', elect_all_x ra cf tied cur el = inl (cur', el') /\ wpos cur'.
  Proof.
    induction tied as [|c tied IH]; intros cur el Hp Hq; cbn [elect_all_x]; [exists cur, el; split; [reflexivity|exact Hp]|].
    destruct (elect_one_x_spec cf cur el c Hp Hq) as (cur1 & E & _ & _ & _ & _ & Hp1). rewrite E. exact (IH _ _ Hp1 Hq).
  Qed.

  (* a pass of the loop ends the count or fills at least one seat; it never fails *)
  Lemma alloc_step_x_ok cands cf cur el rem : wpos cur -> 0 < ac_quota cf ->
    match alloc_step_x ra cands cf cur el rem with
    | AS_next cur' el' rem' => wpos cur' /\ (rem' < rem)%nat
    | AS_done _ => True
    | AS_err _ => False
    end.
  Proof.
    intros Hp Hq. unfold alloc_step_x. destruct rem as [|r]; [exact I|]. rewrite Hra.
    destruct (get_n_best Qle_bool (round_scores ra cands cf cur el) 1) as [|[c|t] rest] eqn:Eb; [exact I| |].
    - destruct (elect_one_x_spec cf cur el c Hp Hq) as (cur1 & E & _ & _ & _ & _ & Hp1). rewrite E. split; [exact Hp1|lia].
    - destruct (Nat.leb (length t) (S r)); [|exact I].
      destruct (elect_all_x_ok cf (tie_iter (ac_orders cf) t) cur el Hp Hq) as (cur1 & el1 & E & Hp1). rewrite E. split; [exact Hp1|].
      assert (Ht : t <> []) by (apply (tie_nonempty (round_scores ra cands cf cur el) 1); rewrite Eb; left; reflexivity).
      destruct t; [congruence|]. cbn [length]. lia.
  Qed.

  Theorem alloc_loop_x_answers cands cf : forall fuel cur el rem, wpos cur -> 0 < ac_quota cf -> (rem < fuel)%nat ->
    exists e, alloc_loop_x ra cands fuel cf cur el rem = inl e.
  Proof.
    induction fuel as [|fuel IH]; intros cur el rem Hp Hq Hlt; [lia|]. cbn [alloc_loop_x].
    pose proof (alloc_step_x_ok cands cf cur el rem Hp Hq) as H.
    destruct (alloc_step_x ra cands cf cur el rem) as [cur' el' rem'|e'|e'].
    - destruct H as (Hp' & Hr). apply IH; [exact Hp'|exact Hq|lia].
    - eexists. reflexivity.
    - destruct H.
  Qed.

  (* fixes/C12-allocated-score-exhausted: the distributor and the selector answer for every profile with positive
     weights and a positive quota - no ValueError, no IndexError *)
  Theorem alloc_distribute_x_answers qs orders votes n prev mx :
    wpos votes -> 0 < ac_quota (alloc_cfg qs orders votes n prev mx) ->
    quota_divides_by_seats qs && Nat.eqb n 0 = false ->
    exists el, alloc_distribute_x ra qs orders votes n prev mx = inl el.
  Proof.
    intros Hp Hq Hz. unfold alloc_distribute_x. rewrite Hz.
    exact (alloc_loop_x_answers _ _ (S n) votes [] n Hp Hq (Nat.lt_succ_diag_r n)).
  Qed.

  Theorem alloc_select_x_answers qs orders votes n :
    wpos votes -> 0 < ac_quota (alloc_cfg qs orders votes n [] (map (fun c => (c, 1%Z)) (all_scored votes))) ->
    quota_divides_by_seats qs && Nat.eqb n 0 = false ->
    exists r, alloc_select_x ra qs orders votes n = inl r.
  Proof.
    intros Hp Hq Hz. unfold alloc_select_x.
    destruct (alloc_distribute_x_answers qs orders votes n [] _ Hp Hq Hz) as (el & ->). eexists. reflexivity.
  Qed.
End Exhausted.

(* ================================================================ the repairs change no answer the pinned code gave *)
Lemma is_best_compat c a b x : a == b -> is_best c a x = is_best c b x.
Proof.
  intros E. unfold is_best. destruct (dget x c) as [s|]; [|reflexivity].
  destruct (Qeq_bool s a) eqn:E1, (Qeq_bool s b) eqn:E2; try reflexivity.
  - apply Qeq_bool_iff in E1. apply Qeq_bool_false in E2. exfalso. apply E2. rewrite E1. exact E.
  - apply Qeq_bool_iff in E2. apply Qeq_bool_false in E1. exfalso. apply E1. rewrite E2. symmetry. exact E.
Qed.

Lemma best_score_start cur c m bs0 : overall_min cur = Some m -> first_score cur c = Some bs0 ->
  best_score cur c m == best_score cur c bs0.
Proof.
  intros Hm Hf. destruct (overall_min_some cur m Hm) as (_ & _ & Hmin).
  destruct (first_score_some cur c bs0 Hf) as (bw0 & Hin0 & Hs0).
  destruct (best_score_spec c cur m) as (A1 & A2 & A3). destruct (best_score_spec c cur bs0) as (B1 & B2 & B3). cbv zeta in *.
  apply Qle_antisym.
  - destruct A3 as [A3|(bw & Hin & Hs)]; [|exact (B2 bw _ Hin Hs)].
    rewrite A3. pose proof (Hmin bw0 (c, bs0) Hin0 (dget_In _ _ _ Hs0)) as H. cbn [snd] in H. lra.
  - destruct B3 as [B3|(bw & Hin & Hs)]; [|exact (A2 bw _ Hin Hs)].
    rewrite B3. exact (A2 bw0 bs0 Hin0 Hs0).
Qed.

Lemma fraction_out_conservative c : forall fuel cur ss cur',
  fraction_out fuel cur c ss = inl cur' -> fraction_out_r fuel cur c ss = inl cur'.
Proof.
  induction fuel as [|fuel IH]; intros cur ss cur'; cbn [fraction_out fraction_out_r]; destruct (Qle_bool ss 0); try (intros H; exact H).
  destruct (overall_min cur) as [m|] eqn:Em; [|discriminate].
  destruct (first_score cur c) as [bs0|] eqn:Ef.
  - pose proof (best_score_start cur c m bs0 Em Ef) as Hbs.
    assert (Hb : forall b, is_best c (best_score cur c m) b = is_best c (best_score cur c bs0) b) by (intros b; apply is_best_compat, Hbs).
    rewrite (filter_ext _ _ (fun bw : sballot * Q => Hb (fst bw))).
    set (size := Qred (qsum (map snd (filter (fun bw : sballot * Q => is_best c (best_score cur c bs0) (fst bw)) cur)))).
    destruct (Qeq_bool size 0); [intros H; exact H|].
    destruct (Qle_bool size ss).
    + rewrite (filter_ext (fun bw : sballot * Q => negb (is_best c (best_score cur c m) (fst bw))) (fun bw : sballot * Q => negb (is_best c (best_score cur c bs0) (fst bw))))
        by (intros bw; rewrite Hb; reflexivity).
      apply IH.
    + intros [= <-]. f_equal. apply map_ext. intros bw. rewrite Hb. reflexivity.
  - pose proof (first_score_none cur c Ef) as Hns.
    assert (Hnil : filter (fun bw : sballot * Q => is_best c (best_score cur c m) (fst bw)) cur = []).
    { assert (G : forall l : wprofile, (forall bw, In bw l -> dget (fst bw) c = None) ->
                filter (fun bw : sballot * Q => is_best c (best_score cur c m) (fst bw)) l = []).
      { induction l as [|bw l IHl]; intros Hl; [reflexivity|]. cbn [filter]. unfold is_best at 1. rewrite (Hl bw (or_introl eq_refl)).
        apply IHl. intros bw' Hin. apply Hl. right. exact Hin. }
      apply G, Hns. }
    rewrite Hnil. cbn [map qsum fold_left]. change (Qeq_bool (Qred 0) 0) with true. cbn iota. intros H. exact H.
Qed.

Section Conservative.
  Variable ra : arepairs.

  Lemma fraction_out_x_conservative c fuel cur ss cur' :
    fraction_out fuel cur c ss = inl cur' -> fraction_out_x ra fuel cur c ss = inl cur'.
  Proof. intros H. unfold fraction_out_x. destruct (ra_exhausted ra); [apply fraction_out_conservative, H|exact H]. Qed.

  Lemma subtract_votes_x_conservative cur c g mx q cur' :
    subtract_votes cur c g mx q = inl cur' -> subtract_votes_x ra cur c g mx q = inl cur'.
  Proof.
    unfold subtract_votes, subtract_votes_x. destruct (fraction_out (S (length cur)) cur c q) as [mid|e] eqn:E; [|discriminate].
    rewrite (fraction_out_x_conservative c _ _ _ _ E). intros H. exact H.
  Qed.

  Lemma elect_one_x_conservative cf cur el c r : elect_one cf cur el c = inl r -> elect_one_x ra cf cur el c = inl r.
  Proof.
    unfold elect_one, elect_one_x.
    destruct (subtract_votes cur c (eget (eincr el c) c + dget_or (ac_prev cf) c 0)%Z (dget (ac_max cf) c) (ac_quota cf)) as [cur'|e] eqn:E; [|discriminate].
    rewrite (subtract_votes_x_conservative _ _ _ _ _ _ E). intros H. exact H.
  Qed.

  Lemma elect_all_x_conservative cf tied : forall cur el r, elect_all cf tied cur el = inl r -> elect_all_x ra cf tied cur el = inl r.
  Proof.
    induction tied as [|c t IH]; intros cur el r; cbn [elect_all elect_all_x]; [intros H; exact H|].
    destruct (elect_one cf cur el c) as [[cur1 el1]|e] eqn:E; [|discriminate].
    rewrite (elect_one_x_conservative cf cur el c _ E). apply IH.
  Qed.

  Lemma alloc_step_x_conservative cands cf cur el rem : (forall e, alloc_step cf cur el rem <> AS_err e) ->
    alloc_step_x ra cands cf cur el rem = alloc_step cf cur el rem.
  Proof.
    unfold alloc_step, alloc_step_x. destruct rem as [|r]; [reflexivity|]. unfold round_scores.
    destruct (sum_scores cur) as [|p l] eqn:Es.
    - intros H. exfalso. apply (H AE_index). reflexivity.
    - rewrite <- Es. destruct (get_n_best Qle_bool (sum_scores cur) 1) as [|[c|t] rest].
      + intros H. exfalso. apply (H AE_index). reflexivity.
      + destruct (elect_one cf cur el c) as [[cur1 el1]|e] eqn:E; [|intros H; exfalso; apply (H e); reflexivity].
        rewrite (elect_one_x_conservative cf cur el c _ E). reflexivity.
      + destruct (Nat.leb (length t) (S r)); [|reflexivity].
        destruct (elect_all cf (tie_iter (ac_orders cf) t) cur el) as [[cur1 el1]|e] eqn:E; [|intros H; exfalso; apply (H e); reflexivity].
        rewrite (elect_all_x_conservative cf _ cur el _ E). reflexivity.
  Qed.

  Lemma alloc_loop_x_conservative cands cf : forall fuel cur el rem e,
    alloc_loop fuel cf cur el rem = inl e -> alloc_loop_x ra cands fuel cf cur el rem = inl e.
  Proof.
    induction fuel as [|f IH]; intros cur el rem e; cbn [alloc_loop alloc_loop_x]; [discriminate|].
    destruct (alloc_step cf cur el rem) as [cur' el' rem'|e'|e'] eqn:E; [| |discriminate];
      (rewrite (alloc_step_x_conservative cands cf cur el rem) by (intros e0; rewrite E; discriminate)); rewrite E; [apply IH|intros H; exact H].
  Qed.

  (* whatever the pinned distributor answered, the repaired one answers; so does the selector (listing a tie once per seat) *)
  Theorem alloc_distribute_x_conservative qs orders votes n prev mx e :
    alloc_distribute qs orders votes n prev mx = inl e -> alloc_distribute_x ra qs orders votes n prev mx = inl e.
  Proof.
    unfold alloc_distribute, alloc_distribute_x. destruct (quota_divides_by_seats qs && Nat.eqb n 0); [discriminate|].
    apply alloc_loop_x_conservative.
  Qed.
End Conservative.

(* ================================================================ a round of the repaired loop without a tie *)
Theorem alloc_round_x ra cands cf cur el rem c rest : ra_exhausted ra = true -> NoDup cands ->
  wpos cur -> 0 < ac_quota cf -> (0 < rem)%nat ->
  get_n_best Qle_bool (round_scores ra cands cf cur el) 1 = Cand c :: rest ->
  ((sum_scores cur <> [] -> scored c cur /\ forall d, scored d cur -> d <> c -> wscore cur d < wscore cur c) /\
   (sum_scores cur = [] -> In c cands /\ may_gain cf el c = true /\ forall d, In d cands -> may_gain cf el d = true -> d = c)) /\
  exists cur', alloc_step_x ra cands cf cur el rem = AS_next cur' (eincr el c) (rem - 1) /\
    exists mid, removal_spec c (ac_quota cf) cur mid /\
                cur' = (if eliminated (gained_of cf el c) (dget (ac_max cf) c) then subset_out c mid else mid) /\
                wtotal cur' == wtotal cur - Qmin (ac_quota cf) (asupport c cur) /\ wpos cur'.
Proof.
  intros Hra Hnd Hp Hq Hrem Hbest. split.
  - unfold round_scores in Hbest. destruct (sum_scores cur) as [|p l] eqn:Es.
    + split; [congruence|]. intros _. rewrite Hra in Hbest.
      set (z := map (fun c0 : C => (c0, 0)) (filter (may_gain cf el) cands)) in *.
      assert (Hkz : map fst z = filter (may_gain cf el) cands) by (unfold z; rewrite map_map; cbn [fst]; apply map_id).
      assert (Hndz : NoDup (map fst z)) by (rewrite Hkz; apply NoDup_filter, Hnd).
      destruct (get_n_best_1_cand Qle_bool Qle_bool_total Qle_bool_trans z c rest Hndz Hbest) as (_ & v & Hin & Hmax).
      assert (Hc : In c (filter (may_gain cf el) cands)) by (rewrite <- Hkz; apply in_map_iff; exists (c, v); auto).
      apply filter_In in Hc. split; [apply Hc|]. split; [apply Hc|]. intros d Hd Hg.
      destruct (Pos.eq_dec d c) as [E|E]; [exact E|exfalso].
      assert (Hdz : In (d, 0) z) by (unfold z; apply in_map_iff; exists d; split; [reflexivity|apply filter_In; auto]).
      assert (Hv : v = 0) by (unfold z in Hin; apply in_map_iff in Hin; destruct Hin as (x & Hx & _); congruence).
      specialize (Hmax d 0 Hdz E). rewrite Hv in Hmax. discriminate.
    + split; [|discriminate]. intros _. rewrite <- Es in Hbest. exact (alloc_winner_greatest cur c rest Hbest).
  - unfold alloc_step_x. destruct rem as [|r]; [lia|]. rewrite Hbest.
    destruct (elect_one_x_spec ra Hra cf cur el c Hp Hq) as (cur' & E & H). rewrite E. exists cur'. split; [reflexivity|exact H].
Qed.
