(* Wave 6, fixes/C12-allocated-score-exhausted and C12-allocated-score-tie-seats (Model/AllocScore.v, the [_x]
   definitions with [arepairs]):
   - the subtraction loop without the overall-minimum bootstrap never fails: on positive weights it removes
     min(quota, support) from the strongest supporters first, whatever the ballots look like (empty ballots, nothing
     left) - the crash condition of the pinned loop is gone;
   - the allocation loop has no error outcome besides ZeroDivisionError of the quota for no seats;
   - with no repair applied the flagged definitions are the pinned ones. *)
From Coq Require Import ZArith QArith Qminmax Qround List Bool Arith Lia Lqa Permutation.
From VL Require Import Prelude.PyDict Model.GetNBest Model.Convert Model.Quota Model.AllocScore
     Proofs.GetNBest_proofs Proofs.QOrd Proofs.Dict_proofs Proofs.JR_proofs Proofs.AllocScore_proofs.
Import ListNotations.
Open Scope Q_scope.

(* ================================================================ no repair = the code as pinned *)
Lemma subtract_votes_x_pinned cur c g mx q : subtract_votes_x apinned cur c g mx q = subtract_votes cur c g mx q.
Proof. reflexivity. Qed.
Lemma elect_one_x_pinned cf cur el c : elect_one_x apinned cf cur el c = elect_one cf cur el c.
Proof. reflexivity. Qed.
Lemma elect_all_x_pinned cf tied : forall cur el, elect_all_x apinned cf tied cur el = elect_all cf tied cur el.
Proof.
  induction tied as [|c t IH]; intros cur el; [reflexivity|]. cbn [elect_all_x elect_all]. rewrite elect_one_x_pinned.
  destruct (elect_one cf cur el c) as [[cur' el']|e]; [apply IH|reflexivity].
Qed.
Lemma round_scores_pinned cands cf cur el : round_scores apinned cands cf cur el = sum_scores cur.
Proof. unfold round_scores. destruct (sum_scores cur); reflexivity. Qed.
Lemma alloc_step_x_pinned cands cf cur el rem : alloc_step_x apinned cands cf cur el rem = alloc_step cf cur el rem.
Proof.
  unfold alloc_step_x, alloc_step. destruct rem as [|rem]; [reflexivity|]. rewrite round_scores_pinned.
  destruct (get_n_best Qle_bool (sum_scores cur) 1) as [|[c|t] rest]; [reflexivity| |].
  - rewrite elect_one_x_pinned. reflexivity.
  - rewrite elect_all_x_pinned. reflexivity.
Qed.
Lemma alloc_loop_x_pinned cands cf : forall fuel cur el rem, alloc_loop_x apinned cands fuel cf cur el rem = alloc_loop fuel cf cur el rem.
Proof.
  induction fuel as [|f IH]; intros cur el rem; [reflexivity|]. cbn [alloc_loop_x alloc_loop]. rewrite alloc_step_x_pinned.
  destruct (alloc_step cf cur el rem); [apply IH|reflexivity|reflexivity].
Qed.
Lemma alloc_distribute_x_pinned qs orders votes n prev mx :
  alloc_distribute_x apinned qs orders votes n prev mx = alloc_distribute qs orders votes n prev mx.
Proof. unfold alloc_distribute_x, alloc_distribute. rewrite alloc_loop_x_pinned. reflexivity. Qed.
Lemma alloc_select_x_pinned qs orders votes n : alloc_select_x apinned qs orders votes n = alloc_select qs orders votes n.
Proof. unfold alloc_select_x, alloc_select. rewrite alloc_distribute_x_pinned. reflexivity. Qed.

(* ================================================================ the subtraction loop without the bootstrap *)
Lemma first_score_none cur c : first_score cur c = None -> no_supporters c cur.
Proof.
  unfold first_score. induction cur as [|bw cur IH]; intros H bw' Hin; [destruct Hin|]. cbn [flat_map] in H.
  destruct (dget (fst bw) c) as [s|] eqn:E; [discriminate|]. cbn [app] in H. destruct Hin as [<-|Hin]; [exact E|exact (IH H bw' Hin)].
Qed.

Lemma first_score_some cur c s : first_score cur c = Some s -> exists bw, In bw cur /\ dget (fst bw) c = Some s.
Proof.
  unfold first_score. induction cur as [|bw cur IH]; [discriminate|]. cbn [flat_map].
  destruct (dget (fst bw) c) as [s0|] eqn:E; cbn [app].
  - intros [= <-]. exists bw. split; [left; reflexivity|exact E].
  - intros H. destruct (IH H) as (bw' & Hin & Hs). exists bw'. split; [right; exact Hin|exact Hs].
Qed.

Theorem fraction_out_r_spec c : forall fuel cur ss, wpos cur -> (length cur < fuel)%nat -> 0 < ss ->
  match fraction_out_r fuel cur c ss with
  | inr _ => False
  | inl cur' =>
      exists t f, cur' = cut_at c t f cur /\ 0 <= f /\ f < 1 /\ (no_supporters c cur \/ has_score c cur t) /\
                  wtotal cur' == wtotal cur - Qmin ss (asupport c cur)
  end.
Proof.
  induction fuel as [|fuel IH]; intros cur ss Hp Hfuel Hss; [lia|].
  cbn [fraction_out_r]. assert (E0 : Qle_bool ss 0 = false) by (apply Qle_bool_false; exact Hss). rewrite E0.
  destruct (first_score cur c) as [bs0|] eqn:Efs.
  2:{ pose proof (first_score_none cur c Efs) as Hns.
      exists 0, 0. split; [symmetry; apply cut_at_no_supporters, Hns|]. split; [lra|]. split; [lra|]. split; [left; exact Hns|].
      pose proof (support_none c cur Hns) as Hs0. destruct (Q.min_spec ss (asupport c cur)) as [(Ha & Hb)|(Ha & Hb)]; rewrite Hb; lra. }
  destruct (first_score_some cur c bs0 Efs) as (bw0 & Hin0 & Hs0).
  destruct (best_score_spec c cur bs0) as (Hbs0 & Hmax & Hbs). cbv zeta in Hbs0, Hmax, Hbs.
  set (bs := best_score cur c bs0) in *.
  set (size := Qred (qsum (map snd (filter (fun bw : sballot * Q => is_best c bs (fst bw)) cur)))).
  assert (Hsize : size == lvl c bs cur).
  { unfold size. rewrite Qred_correct. apply (qsum_filter_lsum (fun bw => is_best c bs (fst bw))). }
  pose proof (lvl_le_support c bs cur Hp) as Hls. pose proof (support_le_total c cur Hp) as Hst.
  pose proof (lvl_nonneg c bs cur Hp) as Hl0.
  assert (Hhas : has_score c cur bs).
  { destruct Hbs as [Hbs|(bw' & Hin' & Hs')]; [exists bw0, bs0; rewrite Hbs; split; [exact Hin0|split; [exact Hs0|reflexivity]]|].
    exists bw', bs. split; [exact Hin'|split; [exact Hs'|reflexivity]]. }
  assert (Hlpos : 0 < lvl c bs cur).
  { destruct (Qlt_le_dec 0 (lvl c bs cur)) as [H|H]; [exact H|exfalso]. assert (Hz : lvl c bs cur == 0) by lra.
    pose proof (lvl_zero_none c bs cur Hp Hz) as Hnone. destruct Hhas as (bw' & s' & Hin' & Hs' & He').
    pose proof (Hnone bw' Hin') as H3. unfold is_best in H3. rewrite Hs' in H3. apply Qeq_bool_false in H3. exact (H3 He'). }
  assert (Ez : Qeq_bool size 0 = false) by (apply Qeq_bool_false; lra). rewrite Ez.
  destruct (lvl_pos_some c bs cur Hp) as (bwb & Hinb & Hbb); [intros H; lra|].
  destruct (Qle_bool size ss) eqn:Ele.
  - (* remove all best votes, one more round *)
    apply Qle_bool_iff in Ele.
    set (P1 := filter (fun bw : sballot * Q => negb (is_best c bs (fst bw))) cur).
    assert (Hp1 : wpos P1) by (apply wpos_filter, Hp).
    assert (Hlen : (length P1 < length cur)%nat).
    { apply (filter_length_lt _ cur bwb Hinb). rewrite Hbb. reflexivity. }
    pose proof (wtotal_filter_top c bs cur) as Ht1. pose proof (support_filter_top c bs cur) as Hs1. fold P1 in Ht1, Hs1.
    assert (Hss1 : Qred (ss - size) == ss - lvl c bs cur) by (rewrite Qred_correct; lra).
    destruct (Qlt_le_dec 0 (Qred (ss - size))) as [Hpos1|Hnp1].
    + specialize (IH P1 (Qred (ss - size)) Hp1 ltac:(lia) Hpos1).
      destruct (fraction_out_r fuel P1 c (Qred (ss - size))) as [cur'|e]; [|exact IH].
      destruct IH as (t & f & Hcut & Hf0 & Hf1 & Hwhere & Htot).
      destruct Hwhere as [Hns1|(bw1 & s1 & Hin1 & Hs1' & Heq1)].
      * exists bs, 0. split; [|split; [lra|split; [lra|split; [right; exact Hhas|]]]].
        { rewrite Hcut, (cut_at_no_supporters _ _ _ _ Hns1). apply filter_top_cut, Hmax. }
        pose proof (support_none c P1 Hns1) as Hz.
        destruct (Q.min_spec (Qred (ss - size)) (asupport c P1)) as [(Ha & Hb)|(Ha & Hb)]; rewrite Hb in Htot;
        destruct (Q.min_spec ss (asupport c cur)) as [(Ha' & Hb')|(Ha' & Hb')]; rewrite Hb'; lra.
      * apply filter_In in Hin1. destruct Hin1 as (Hin1 & Hnb1). apply negb_true_iff in Hnb1.
        unfold is_best in Hnb1. rewrite Hs1' in Hnb1. apply Qeq_bool_false in Hnb1.
        pose proof (Hmax bw1 s1 Hin1 Hs1') as Hle1.
        assert (Hlt : t < bs). { apply Qle_lt_or_eq in Hle1. destruct Hle1 as [H|H]; [lra|contradiction]. }
        exists t, f. split; [|split; [exact Hf0|split; [exact Hf1|split; [right; exists bw1, s1; auto|]]]].
        { rewrite Hcut. apply cut_at_filter_top, Hlt. }
        destruct (Q.min_spec (Qred (ss - size)) (asupport c P1)) as [(Ha & Hb)|(Ha & Hb)]; rewrite Hb in Htot;
        destruct (Q.min_spec ss (asupport c cur)) as [(Ha' & Hb')|(Ha' & Hb')]; rewrite Hb'; lra.
    + assert (Hnp : fraction_out_r fuel P1 c (Qred (ss - size)) = inl P1).
      { apply Qle_bool_iff in Hnp1. destruct fuel; cbn [fraction_out_r]; rewrite Hnp1; reflexivity. }
      rewrite Hnp. exists bs, 0. split; [apply filter_top_cut, Hmax|]. split; [lra|]. split; [lra|]. split; [right; exact Hhas|].
      destruct (Q.min_spec ss (asupport c cur)) as [(Ha' & Hb')|(Ha' & Hb')]; rewrite Hb'; lra.
  - (* spread the subtraction across the best votes *)
    apply Qle_bool_false in Ele.
    set (fr := Qred ((size - ss) / size)).
    assert (Hfr : fr == (lvl c bs cur - ss) / lvl c bs cur).
    { unfold fr. rewrite Qred_correct, Hsize. reflexivity. }
    assert (Hfrl : lvl c bs cur * fr == lvl c bs cur - ss) by (rewrite Hfr; field; lra).
    assert (Hfr0 : 0 < fr).
    { rewrite Hfr. apply Qlt_shift_div_l; lra. }
    assert (Hfr1 : fr < 1).
    { rewrite Hfr. apply Qlt_shift_div_r; lra. }
    exists bs, fr. split; [apply scale_top_cut; [exact Hmax|lra]|]. split; [lra|]. split; [exact Hfr1|]. split; [right; exact Hhas|].
    rewrite wtotal_scale_top, Hfrl.
    destruct (Q.min_spec ss (asupport c cur)) as [(Ha' & Hb')|(Ha' & Hb')]; rewrite Hb'; lra.
Qed.

(* ================================================================ one election, the loop: no error outcome *)
Section Exhausted.
  Variable ra : arepairs.
  Hypothesis Hra : ra_exhausted ra = true.

  Theorem subtract_votes_x_spec cur c gained mx q : wpos cur -> 0 < q ->
    exists cur', subtract_votes_x ra cur c gained mx q = inl cur' /\
      exists mid, removal_spec c q cur mid /\
                  cur' = (if eliminated gained mx then subset_out c mid else mid) /\
                  wtotal cur' == wtotal cur - Qmin q (asupport c cur) /\ wpos cur'.
  Proof.
    intros Hp Hq. unfold subtract_votes_x, fraction_out_x. rewrite Hra.
    pose proof (fraction_out_r_spec c (S (length cur)) cur q Hp (Nat.lt_succ_diag_r _) Hq) as H.
    destruct (fraction_out_r (S (length cur)) cur c q) as [mid|e]; [|destruct H].
    destruct H as (t & f & Hcut & Hf0 & Hf1 & Hw & Htot).
    assert (Hspec : removal_spec c q cur mid) by (exists t, f; auto).
    pose proof (removal_spec_wpos _ _ _ _ Hp Hspec) as Hpm.
    destruct (subset_out_spec c mid) as (S1 & _ & S3 & _).
    unfold eliminated. destruct mx as [m|]; [destruct (gained =? m)%Z|];
      (eexists; split; [reflexivity|]; exists mid; split; [exact Hspec|]; split; [reflexivity|]);
      [split; [rewrite S1; exact Htot|apply S3, Hpm]|split; [exact Htot|exact Hpm]|split; [exact Htot|exact Hpm]].
  Qed.

  Theorem elect_one_x_spec cf cur el c : wpos cur -> 0 < ac_quota cf ->
    exists cur', elect_one_x ra cf cur el c = inl (cur', eincr el c) /\
      exists mid, removal_spec c (ac_quota cf) cur mid /\
                  cur' = (if eliminated (gained_of cf el c) (dget (ac_max cf) c) then subset_out c mid else mid) /\
                  wtotal cur' == wtotal cur - Qmin (ac_quota cf) (asupport c cur) /\ wpos cur'.
  Proof.
    intros Hp Hq. unfold elect_one_x.
    destruct (subtract_votes_x_spec cur c (gained_of cf el c) (dget (ac_max cf) c) (ac_quota cf) Hp Hq) as (cur' & E & H).
    unfold gained_of in E. rewrite E. exists cur'. split; [reflexivity|exact H].
  Qed.

  Lemma elect_all_x_ok cf tied : forall cur el, wpos cur -> 0 < ac_quota cf ->
    exists cur' el', elect_all_x ra cf tied cur el = inl (cur', el') /\ wpos cur'.
  Proof.
    induction tied as [|c tied IH]; intros cur el Hp Hq; cbn [elect_all_x]; [exists cur, el; split; [reflexivity|exact Hp]|].
    destruct (elect_one_x_spec cf cur el c Hp Hq) as (cur1 & E & _ & _ & _ & _ & Hp1). rewrite E. exact (IH _ _ Hp1 Hq).
  Qed.

  (* a pass of the loop ends the count or fills at least one seat; it never fails *)
  Lemma alloc_step_x_ok cands cf cur el rem : wpos cur -> 0 < ac_quota cf ->
    match alloc_step_x ra cands cf cur el rem with
    | AS_next cur' el' rem' => wpos cur' /\ (rem' < rem)%nat
    | AS_done _ => True
    | AS_err _ => False
    end.
  Proof.
    intros Hp Hq. unfold alloc_step_x. destruct rem as [|r]; [exact I|]. rewrite Hra.
    destruct (get_n_best Qle_bool (round_scores ra cands cf cur el) 1) as [|[c|t] rest] eqn:Eb; [exact I| |].
    - destruct (elect_one_x_spec cf cur el c Hp Hq) as (cur1 & E & _ & _ & _ & _ & Hp1). rewrite E. split; [exact Hp1|lia].
    - destruct (Nat.leb (length t) (S r)); [|exact I].
      destruct (elect_all_x_ok cf (tie_iter (ac_orders cf) t) cur el Hp Hq) as (cur1 & el1 & E & Hp1). rewrite E. split; [exact Hp1|].
      assert (Ht : t <> []) by (apply (tie_nonempty (round_scores ra cands cf cur el) 1); rewrite Eb; left; reflexivity).
      destruct t; [congruence|]. cbn [length]. lia.
  Qed.

  Theorem alloc_loop_x_answers cands cf : forall fuel cur el rem, wpos cur -> 0 < ac_quota cf -> (rem < fuel)%nat ->
    exists e, alloc_loop_x ra cands fuel cf cur el rem = inl e.
  Proof.
    induction fuel as [|fuel IH]; intros cur el rem Hp Hq Hlt; [lia|]. cbn [alloc_loop_x].
    pose proof (alloc_step_x_ok cands cf cur el rem Hp Hq) as H.
    destruct (alloc_step_x ra cands cf cur el rem) as [cur' el' rem'|e'|e'].
    - destruct H as (Hp' & Hr). apply IH; [exact Hp'|exact Hq|lia].
    - eexists. reflexivity.
    - destruct H.
  Qed.

  (* fixes/C12-allocated-score-exhausted: the distributor and the selector answer for every profile with positive
     weights and a positive quota - no ValueError, no IndexError *)
  Theorem alloc_distribute_x_answers qs orders votes n prev mx :
    wpos votes -> 0 < ac_quota (alloc_cfg qs orders votes n prev mx) ->
    quota_divides_by_seats qs && Nat.eqb n 0 = false ->
    exists el, alloc_distribute_x ra qs orders votes n prev mx = inl el.
  Proof.
    intros Hp Hq Hz. unfold alloc_distribute_x. rewrite Hz.
    exact (alloc_loop_x_answers _ _ (S n) votes [] n Hp Hq (Nat.lt_succ_diag_r n)).
  Qed.

  Theorem alloc_select_x_answers qs orders votes n :
    wpos votes -> 0 < ac_quota (alloc_cfg qs orders votes n [] (map (fun c => (c, 1%Z)) (all_scored votes))) ->
    quota_divides_by_seats qs && Nat.eqb n 0 = false ->
    exists r, alloc_select_x ra qs orders votes n = inl r.
  Proof.
    intros Hp Hq Hz. unfold alloc_select_x.
    destruct (alloc_distribute_x_answers qs orders votes n [] _ Hp Hq Hz) as (el & ->). eexists. reflexivity.
  Qed.
End Exhausted.
