(* AdjustedSeatCount inside a wrapper tree (Model/Wrappers.v: calc_allow / calc_level over dynamic values) composed with the
   seat count adjusters of Model/Overhang.v (allow_overhang / level_overhang over integer dictionaries, the subject of C15):
   whenever the proportional evaluator inside the calculator answers with integer distributions over candidates, the
   wrapper-level calculator computes exactly the adjustment of Model/Overhang.v - so every C15 theorem about that
   adjustment holds for an AdjustedSeatCount anywhere in a wrapper tree, around any wrapped evaluator. *)
From Coq Require Import ZArith List Bool Lia.
From VL Require Prelude.PyDict Model.Overhang.
From VL Require Import Model.Wrappers Proofs.TieBreak_proofs Proofs.Wrappers_proofs.
Import ListNotations.
Open Scope Z_scope.

Notation czd := (list (PyDict.C * Z)).

(* an integer dictionary over candidates as a wrapper value *)
Definition of_cz (d : czd) : dict := map (fun cz => (KC (fst cz), VInt (snd cz))) d.

Lemma dget_or_of_cz : forall (d : czd) c, dget_or (of_cz d) (KC c) (VInt 0) = VInt (PyDict.dget_or d c 0).
Proof.
  intros d c. unfold dget_or, PyDict.dget_or. induction d as [|[c0 z0] d IH]; [reflexivity|].
  simpl. unfold PyDict.ceqb. rewrite (Pos.eqb_sym c c0). destruct (Pos.eqb c0 c); [reflexivity|exact IH].
Qed.

Lemma dmem_of_cz : forall (d : czd) c, dmem (of_cz d) (KC c) = PyDict.dmem d c.
Proof.
  intros d c. unfold dmem, PyDict.dmem. induction d as [|[c0 z0] d IH]; [reflexivity|].
  simpl. unfold PyDict.ceqb. rewrite (Pos.eqb_sym c c0). destruct (Pos.eqb c0 c); [reflexivity|exact IH].
Qed.

Section Bridge.
  Variable Ev : val -> val -> res val.              (* the evaluator inside the calculator: seats, max_seats -> result *)
  Variable E : Z -> option czd.                     (* the same as Model/Overhang.v sees it *)
  Variable mx : val.
  Hypothesis HE : forall h p, E h = Some p -> Ev (VInt h) mx = Ok (VDict (of_cz p)).

  (* ---- AllowOverhang *)
  Lemma allow_fold : forall (prop prev : czd) adj,
    fold_left (fun acc cp => acc >>= fun adj =>
                 as_dict (VDict (of_cz prop)) >>= fun propd =>
                 let pc := dget_or propd (fst cp) (VInt 0) in
                 lt_val pc (snd cp) >>= fun b =>
                 if b then sub_val (snd cp) pc >>= add_val adj else Ok adj) (of_cz prev) (Ok (VInt adj))
    = Ok (VInt (fold_left (fun adj cp => let pc := PyDict.dget_or prop (fst cp) 0 in
                                          if pc <? snd cp then adj + (snd cp - pc) else adj) prev adj)).
  Proof.
    intros prop prev. induction prev as [|[c g] prev IH]; intro adj; [reflexivity|].
    cbn [of_cz map fold_left rbind as_dict fst snd]. rewrite dget_or_of_cz. cbn [lt_val rbind].
    destruct (PyDict.dget_or prop c 0 <? g); cbn [sub_val add_val rbind]; apply IH.
  Qed.

  Theorem calc_allow_bridge : forall n prev a,
    Overhang.allow_overhang E n prev = Some a ->
    calc_allow Ev (VInt n) (VDict (of_cz prev)) mx = Ok (VInt a).
  Proof.
    intros n prev a H. unfold Overhang.allow_overhang in H. destruct (E n) as [prop|] eqn:He; [|discriminate H].
    inversion H; subst a. unfold calc_allow. rewrite (HE n prop He). cbn [rbind as_dict].
    apply allow_fold.
  Qed.

  (* ---- LevelOverhang *)
  Lemma any_below_bridge : forall (prop pmins : czd),
    any_below (VDict (of_cz prop)) (of_cz pmins) = Ok (negb (Overhang.satisfied pmins prop)).
  Proof.
    intros prop pmins. induction pmins as [|[c m] pmins IH]; [reflexivity|].
    cbn [of_cz map any_below fst snd as_dict rbind]. rewrite dget_or_of_cz. cbn [lt_val rbind].
    unfold Overhang.satisfied. cbn [forallb fst snd].
    destruct (PyDict.dget_or prop c 0 <? m); cbn [negb andb]; [reflexivity|].
    exact IH.
  Qed.

  Lemma level_loop_bridge : forall fuel (pmins : czd) adj prop r,
    Overhang.level_loop E fuel pmins adj prop = Some r ->
    level_loop fuel Ev mx (of_cz pmins) (VInt adj) (VDict (of_cz prop)) = Ok (VInt r).
  Proof.
    induction fuel as [|f IH]; intros pmins adj prop r H; cbn [Overhang.level_loop] in H; cbn [level_loop];
      rewrite any_below_bridge; destruct (Overhang.satisfied pmins prop); cbn [negb rbind].
    - inversion H; reflexivity.
    - discriminate H.
    - inversion H; reflexivity.
    - destruct (E (adj + 1)) as [prop'|] eqn:He; [|discriminate H].
      cbn [add_val rbind]. rewrite (HE (adj + 1) prop' He). cbn [rbind]. apply IH. exact H.
  Qed.

  Lemma lowest_bridge : forall (prop prev : czd),
    map_res (fun pg => as_dict (VDict (of_cz prev)) >>= fun pd =>
                       max_val (dget_or pd (fst pg) (VInt 0)) (snd pg) >>= fun m => Ok (fst pg, m)) (of_cz prop)
    = Ok (of_cz (Overhang.lowest_allowed prop prev)).
  Proof.
    intros prop prev.
    set (f := fun pg : key * val => as_dict (VDict (of_cz prev)) >>= fun pd =>
                max_val (dget_or pd (fst pg) (VInt 0)) (snd pg) >>= fun m => Ok (fst pg, m)).
    induction prop as [|[c g] prop IH]; [reflexivity|].
    change (of_cz ((c, g) :: prop)) with ((KC c, VInt g) :: of_cz prop).
    cbn [map_res]. rewrite IH. unfold f. cbn [as_dict rbind fst snd]. rewrite dget_or_of_cz.
    unfold max_val. cbn [lt_val rbind].
    unfold Overhang.lowest_allowed. cbn [map fst snd of_cz].
    replace (if PyDict.dget_or prev c 0 <? g then VInt g else VInt (PyDict.dget_or prev c 0))
      with (VInt (Z.max (PyDict.dget_or prev c 0) g)); [reflexivity|].
    destruct (PyDict.dget_or prev c 0 <? g) eqn:Hlt; [apply Z.ltb_lt in Hlt|apply Z.ltb_ge in Hlt]; f_equal; lia.
  Qed.

  Lemma drop_fold : forall (lowest prev : czd) d,
    fold_left (fun acc cp => acc >>= fun dr => if dmem (of_cz lowest) (fst cp) then Ok dr else add_val dr (snd cp))
              (of_cz prev) (Ok (VInt d))
    = Ok (VInt (fold_left (fun d cp => if PyDict.dmem lowest (fst cp) then d else d + snd cp) prev d)).
  Proof.
    intros lowest prev. induction prev as [|[c g] prev IH]; intro d; [reflexivity|].
    cbn [of_cz map fold_left rbind fst snd]. rewrite dmem_of_cz.
    destruct (PyDict.dmem lowest c); cbn [add_val rbind]; apply IH.
  Qed.

  Theorem calc_level_bridge : forall fuel n prev a,
    Overhang.level_overhang E fuel n prev = Some a ->
    calc_level fuel Ev (VInt n) (VDict (of_cz prev)) mx = Ok (VInt a).
  Proof.
    intros fuel n prev a H. unfold Overhang.level_overhang in H.
    destruct (E n) as [prop|] eqn:He; [|discriminate H].
    destruct (Overhang.level_loop E fuel _ _ prop) as [adj|] eqn:Hl; [|discriminate H].
    inversion H; subst a. unfold calc_level. rewrite (HE n prop He). cbn [rbind].
    change (as_dict (VDict (of_cz prop))) with (Ok (of_cz prop)). cbn [rbind].
    rewrite lowest_bridge. cbn [rbind]. unfold Overhang.nonprop_drop in *.
    change (as_dict (VDict (of_cz prev))) with (Ok (of_cz prev)). cbn [rbind].
    rewrite drop_fold. cbn [rbind sub_val].
    rewrite (level_loop_bridge fuel _ _ prop adj Hl). cbn [rbind add_val sub_val]. reflexivity.
  Qed.
End Bridge.

(* ------------------------------------------------------------------ inside a wrapper tree *)
Section Tree.
  Variable leaf : positive -> val -> list (option val) -> res val.
  Variable conv : positive -> val -> res val.
  Notation RS := (run_spec leaf conv).

  (* the proportional evaluator [pe] of the calculator, on these votes and seat caps, seen as Model/Overhang.v's E *)
  Definition sees (pe : ev) (votes mx : val) (E : Z -> option czd) : Prop :=
    forall h p, E h = Some p -> RS pe votes (KW (Some (VInt h)) None (Some mx) None None None) = Ok (VDict (of_cz p)).

  Theorem adjusted_allow_tree : forall pe e votes n prev mx E a, sees pe votes mx E ->
    Overhang.allow_overhang E n prev = Some a ->
    RS (AdjAllow pe e) votes (sa_npm (VInt n) (VDict (of_cz prev)) mx)
    = RS e votes (sa_npm (VInt (n + a)) (VDict (of_cz prev)) mx).
  Proof.
    intros pe e votes n prev mx E a Hs Ha. cbn [run_spec]. unfold sa_npm. rewrite accept_adj. cbn [rbind].
    cbn [sa_get nget kget b_named odef].
    rewrite (calc_allow_bridge _ E mx Hs n prev a Ha). reflexivity.
  Qed.

  Theorem adjusted_level_tree : forall pe e fuel votes n prev mx E a, sees pe votes mx E ->
    Overhang.level_overhang E fuel n prev = Some a ->
    RS (AdjLevel pe e fuel) votes (sa_npm (VInt n) (VDict (of_cz prev)) mx)
    = RS e votes (sa_npm (VInt (n + a)) (VDict (of_cz prev)) mx).
  Proof.
    intros pe e fuel votes n prev mx E a Hs Ha. cbn [run_spec]. unfold sa_npm. rewrite accept_adj. cbn [rbind].
    cbn [sa_get nget kget b_named odef].
    rewrite (calc_level_bridge _ E mx Hs fuel n prev a Ha). reflexivity.
  Qed.
End Tree.
