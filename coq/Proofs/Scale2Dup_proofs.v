(* List facts behind the scale invariance of the score aggregates (C11): [dup m l] repeats every element of l
   m times in place - the list of per-voter scores of an m-fold electorate.  For m >= 1 the stable sort commutes
   with dup, the low median and the minimum are unchanged, the sum is m-fold and the mean is unchanged. *)
From Coq Require Import ZArith QArith List Bool Arith Lia Lqa Qfield.
From VL Require Import Model.Cardinal.
Import ListNotations.

Definition dup {X} (m : nat) (l : list X) : list X := flat_map (fun x => repeat x m) l.

Lemma dup_cons {X} m (x : X) l : dup m (x :: l) = repeat x m ++ dup m l.
Proof. reflexivity. Qed.

Lemma dup_app {X} m (a b : list X) : dup m (a ++ b) = dup m a ++ dup m b.
Proof. unfold dup. apply flat_map_app. Qed.

Lemma dup_repeat {X} m (x : X) j : dup m (repeat x j) = repeat x (j * m).
Proof. induction j as [|j IH]; [reflexivity|]. cbn [repeat]. rewrite dup_cons, IH, <- repeat_app. reflexivity. Qed.

Lemma dup_length {X} m (l : list X) : length (dup m l) = (m * length l)%nat.
Proof. induction l as [|x l IH]; [simpl; lia|]. rewrite dup_cons, app_length, repeat_length, IH. simpl. lia. Qed.

Lemma dup_nil_iff {X} m (l : list X) : (1 <= m)%nat -> (dup m l = [] <-> l = []).
Proof.
  intros Hm. split; [|intros ->; reflexivity]. destruct l as [|x l]; [reflexivity|].
  rewrite dup_cons. destruct m; [lia|]. discriminate.
Qed.

Lemma nth_repeat_in {X} (x d : X) m i : (i < m)%nat -> nth i (repeat x m) d = x.
Proof. revert i. induction m as [|m IH]; intros i Hi; [lia|]. destruct i; cbn [repeat nth]; [reflexivity|]. apply IH. lia. Qed.

Lemma nth_dup {X} m (l : list X) d i : (1 <= m)%nat -> nth i (dup m l) d = nth (i / m) l d.
Proof.
  intros Hm. revert i. induction l as [|x l IH]; intros i.
  - simpl. destruct i; destruct (_ / m)%nat; reflexivity.
  - rewrite dup_cons. destruct (Nat.lt_ge_cases i m) as [Hi|Hi].
    + rewrite app_nth1 by (rewrite repeat_length; exact Hi). rewrite Nat.div_small by exact Hi. cbn [nth].
      apply nth_repeat_in. exact Hi.
    + rewrite app_nth2 by (rewrite repeat_length; exact Hi). rewrite repeat_length, IH.
      replace i with ((i - m) + 1 * m)%nat at 2 by lia. rewrite Nat.div_add by lia.
      replace (((i - m) / m + 1)%nat) with (S ((i - m) / m)) by lia. reflexivity.
Qed.

(* ---------------------------------------------------------------- stable sort *)
Lemma iter_S {X} j (f : X -> X) a : Nat.iter (S j) f a = f (Nat.iter j f a).
Proof. reflexivity. Qed.

Lemma Qle_bool_refl x : Qle_bool x x = true.
Proof. apply Qle_bool_iff, Qle_refl. Qed.

Lemma insert_q_head_le x y l : Qle_bool x y = true -> insert_q x (y :: l) = x :: y :: l.
Proof. intros H. cbn [insert_q]. rewrite H. reflexivity. Qed.

Lemma insert_q_past x y j l : Qle_bool x y = false -> insert_q x (repeat y j ++ l) = repeat y j ++ insert_q x l.
Proof. intros H. induction j as [|j IH]; [reflexivity|]. cbn [repeat app insert_q]. rewrite H, IH. reflexivity. Qed.

Lemma iter_insert_front x j l : (forall y t, l = y :: t -> Qle_bool x y = true) ->
  Nat.iter j (insert_q x) l = repeat x j ++ l.
Proof.
  intros H. induction j as [|j IH]; [reflexivity|]. rewrite iter_S, IH.
  destruct j as [|j]; cbn [repeat app].
  - destruct l as [|y t]; [reflexivity|]. apply insert_q_head_le. exact (H y t eq_refl).
  - apply insert_q_head_le, Qle_bool_refl.
Qed.

Lemma iter_insert_past x y m j l : Qle_bool x y = false ->
  Nat.iter j (insert_q x) (repeat y m ++ l) = repeat y m ++ Nat.iter j (insert_q x) l.
Proof.
  intros H. induction j as [|j IH]; [reflexivity|]. rewrite iter_S, IH. apply insert_q_past, H.
Qed.

Lemma iter_insert_dup m x s : (1 <= m)%nat -> Nat.iter m (insert_q x) (dup m s) = dup m (insert_q x s).
Proof.
  intros Hm. induction s as [|y t IH].
  - cbn [dup flat_map insert_q]. rewrite iter_insert_front by (intros y t E; discriminate). reflexivity.
  - cbn [insert_q]. destruct (Qle_bool x y) eqn:E.
    + rewrite (dup_cons m x). apply iter_insert_front. intros y0 t0 E0. rewrite dup_cons in E0.
      destruct m as [|m]; [lia|]. cbn [repeat app] in E0. injection E0 as <- _. exact E.
    + rewrite !dup_cons, iter_insert_past by exact E. rewrite IH. reflexivity.
Qed.

Lemma fold_right_repeat {X Y} (f : X -> Y -> Y) x j a : fold_right f a (repeat x j) = Nat.iter j (f x) a.
Proof. induction j as [|j IH]; [reflexivity|]. cbn [repeat fold_right]. rewrite iter_S, IH. reflexivity. Qed.

Theorem sort_q_dup m l : (1 <= m)%nat -> sort_q (dup m l) = dup m (sort_q l).
Proof.
  intros Hm. induction l as [|x l IH]; [reflexivity|].
  rewrite dup_cons. unfold sort_q in *. rewrite fold_right_app, IH, fold_right_repeat. cbn [fold_right].
  apply iter_insert_dup, Hm.
Qed.

Lemma sort_q_length l : length (sort_q l) = length l.
Proof.
  assert (H : forall x s, length (insert_q x s) = S (length s)).
  { intros x s. induction s as [|y t IH]; [reflexivity|]. cbn [insert_q]. destruct (Qle_bool x y); cbn [length]; [reflexivity|]. rewrite IH. reflexivity. }
  induction l as [|x l IH]; [reflexivity|]. unfold sort_q in *. cbn [fold_right]. rewrite H, IH. reflexivity.
Qed.

(* ---------------------------------------------------------------- low median *)
Definition med_index (n : nat) : nat := if Nat.even n then (n / 2 - 1)%nat else (n / 2)%nat.

Lemma med_index_eq n : (1 <= n)%nat -> med_index n = ((n - 1) / 2)%nat.
Proof.
  intros Hn. unfold med_index. destruct (Nat.even n) eqn:E.
  - apply Nat.even_spec in E. destruct E as [j ->]. replace (2 * j - 1)%nat with (1 + (j - 1) * 2)%nat by lia.
    rewrite Nat.div_add by lia. rewrite (Nat.mul_comm 2 j), Nat.div_mul by lia. simpl. lia.
  - assert (O : Nat.odd n = true) by (rewrite <- Nat.negb_even, E; reflexivity).
    apply Nat.odd_spec in O. destruct O as [j ->]. replace (2 * j + 1 - 1)%nat with (j * 2)%nat by lia.
    rewrite Nat.div_mul by lia. replace (2 * j + 1)%nat with (1 + j * 2)%nat by lia. rewrite Nat.div_add by lia. reflexivity.
Qed.

Lemma med_index_scale m n : (1 <= m)%nat -> (1 <= n)%nat -> (med_index (m * n) / m)%nat = med_index n.
Proof.
  intros Hm Hn. rewrite !med_index_eq by nia. rewrite Nat.div_div by lia.
  pose proof (Nat.div_mod (n - 1) 2 ltac:(lia)) as D. pose proof (Nat.mod_upper_bound (n - 1) 2 ltac:(lia)) as B.
  set (q := ((n - 1) / 2)%nat) in *. set (r := ((n - 1) mod 2)%nat) in *.
  symmetry. apply (Nat.div_unique (m * n - 1) (2 * m) q (m * (r + 1) - 1)); nia.
Qed.

(* aggregate_one as a function of the materialised list *)
Definition agg_list (fn : aggfn) (l : list Q) : Q + serr :=
  match fn with
  | FSum => inl (Qred (fold_left Qplus l 0))
  | FMean => match l with [] => inr SE_zerodiv | _ => inl (Qred (fold_left Qplus l 0 / inject_Z (Z.of_nat (length l)))) end
  | FMedianLow => match l with
                  | [] => inr SE_stats
                  | _ => let s := sort_q l in
                         let n := length s in
                         inl (nth (if Nat.even n then n / 2 - 1 else n / 2) s 0)
                  end
  end.

Lemma aggregate_one_list fn d : aggregate_one fn d = agg_list fn (expand d).
Proof. destruct fn; reflexivity. Qed.

Theorem median_low_dup m l : (1 <= m)%nat -> agg_list FMedianLow (dup m l) = agg_list FMedianLow l.
Proof.
  intros Hm. destruct l as [|x l]; [reflexivity|].
  assert (Hne : dup m (x :: l) <> []) by (intros E; apply (proj1 (dup_nil_iff m _ Hm)) in E; discriminate).
  cbn [agg_list]. destruct (dup m (x :: l)) as [|x0 l0] eqn:E; [contradiction|]. rewrite <- E. clear E Hne x0 l0.
  cbv zeta. f_equal. rewrite (sort_q_dup m _ Hm), dup_length.
  fold (med_index (m * length (sort_q (x :: l)))). fold (med_index (length (sort_q (x :: l)))).
  rewrite (nth_dup m _ _ _ Hm), med_index_scale; [reflexivity|exact Hm|]. rewrite sort_q_length. simpl. lia.
Qed.

(* ---------------------------------------------------------------- minimum *)
Definition min_step (m y : Q) : Q := if Qle_bool y m then y else m.

Lemma min_step_idem y m : min_step (min_step m y) y = min_step m y.
Proof.
  unfold min_step. destruct (Qle_bool y m) eqn:E; [rewrite Qle_bool_refl; reflexivity|rewrite E; reflexivity].
Qed.

Lemma fold_min_repeat y j : forall m, (1 <= j)%nat -> fold_left min_step (repeat y j) m = min_step m y.
Proof.
  induction j as [|j IH]; intros m Hj; [lia|]. cbn [repeat fold_left].
  destruct j as [|j]; [reflexivity|]. rewrite IH by lia. apply min_step_idem.
Qed.

Lemma fold_min_dup k l : (1 <= k)%nat -> forall m, fold_left min_step (dup k l) m = fold_left min_step l m.
Proof.
  intros Hk. induction l as [|y l IH]; intros m; [reflexivity|].
  rewrite dup_cons, fold_left_app, fold_min_repeat by exact Hk. cbn [fold_left]. apply IH.
Qed.

Theorem list_min_dup k l : (1 <= k)%nat -> list_min (dup k l) = list_min l.
Proof.
  intros Hk. destruct l as [|x l]; [reflexivity|]. rewrite dup_cons.
  destruct k as [|k]; [lia|]. cbn [repeat app list_min]. f_equal.
  change (fun m y : Q => if Qle_bool y m then y else m) with min_step.
  rewrite fold_left_app. destruct k as [|k].
  - cbn [repeat fold_left]. apply fold_min_dup. lia.
  - rewrite fold_min_repeat by lia. unfold min_step at 2. rewrite Qle_bool_refl. apply fold_min_dup. lia.
Qed.

(* ---------------------------------------------------------------- sum and mean *)
Lemma fold_plus_shift l : forall a, fold_left Qplus l a == a + fold_left Qplus l 0.
Proof.
  induction l as [|x l IH]; intros a; cbn [fold_left]; [ring|]. rewrite (IH (a + x)), (IH (0 + x)). ring.
Qed.

Lemma sum_repeat x j : fold_left Qplus (repeat x j) 0 == inject_Z (Z.of_nat j) * x.
Proof.
  induction j as [|j IH]; [cbn; ring|]. cbn [repeat fold_left]. rewrite fold_plus_shift, IH.
  rewrite Nat2Z.inj_succ. unfold Z.succ. rewrite inject_Z_plus. ring.
Qed.

Theorem sum_dup m l : fold_left Qplus (dup m l) 0 == inject_Z (Z.of_nat m) * fold_left Qplus l 0.
Proof.
  induction l as [|x l IH]; [cbn; ring|]. rewrite dup_cons, fold_left_app, fold_plus_shift, sum_repeat, IH.
  cbn [fold_left]. rewrite (fold_plus_shift l (0 + x)). ring.
Qed.

Theorem agg_sum_dup m l a a' : agg_list FSum l = inl a -> agg_list FSum (dup m l) = inl a' ->
  a' == inject_Z (Z.of_nat m) * a.
Proof. cbn [agg_list]. intros [= <-] [= <-]. rewrite !Qred_correct. apply sum_dup. Qed.

Theorem mean_dup m l : (1 <= m)%nat -> agg_list FMean (dup m l) = agg_list FMean l.
Proof.
  intros Hm. destruct l as [|x l]; [reflexivity|].
  assert (Hne : dup m (x :: l) <> []) by (intros E; apply (proj1 (dup_nil_iff m _ Hm)) in E; discriminate).
  cbn [agg_list]. destruct (dup m (x :: l)) as [|x0 l0] eqn:E; [contradiction|]. rewrite <- E. clear E Hne x0 l0.
  f_equal. apply Qred_complete. rewrite sum_dup, dup_length, Nat2Z.inj_mul, inject_Z_mult.
  assert (H1 : ~ inject_Z (Z.of_nat m) == 0).
  { intros H0. unfold Qeq in H0. cbn [Qnum Qden inject_Z] in H0. lia. }
  assert (H2 : ~ inject_Z (Z.of_nat (length (x :: l))) == 0).
  { intros H0. unfold Qeq in H0. cbn [Qnum Qden inject_Z length] in H0. lia. }
  field. split; assumption.
Qed.
