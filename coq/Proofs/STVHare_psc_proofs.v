(* Proportionality for solid coalitions under the Hare (random whole-ballot) transferer (C04), for EVERY oracle.
   Model/STVHare.v; the invariant [Inv] and the counting lemmas are those of Proofs/STV_psc_proofs.v - only the two
   moves of a count (drawing ballots away from an elected candidate, pouring the pile of a removed candidate) differ:
     - whatever ballots the oracle draws from the pile of an elected member of the coalition, the solid ballots on it
       lose at most the quota drawn (cwp_hare);
     - a solid ballot leaving a member of the coalition goes WHOLE to the next continuing member (one target: no split,
       no draw), and shares of other ballots are never negative. *)
From Coq Require Import ZArith QArith Qround Qreduction Setoid List Bool Arith Lia Lqa Permutation.
From VL Require Import Prelude.PyDict Model.GetNBest Model.Convert Model.STV Model.STVHare Model.Quota Proofs.Dict_proofs
     Proofs.GetNBest_proofs Proofs.STV_proofs Proofs.STV_elim_proofs Proofs.STV_majority_proofs Proofs.STV_psc_proofs
     Proofs.STVHare_draws_proofs Proofs.STVHare_proofs Proofs.STVHare_count_proofs.
From VL Require Proofs.Threshold_proofs.
Import ListNotations.
Open Scope Q_scope.

Lemma pile_whole_nonneg p : pile_whole p -> pile_nonneg p.
Proof. unfold pile_whole, pile_nonneg. intros H. eapply Forall_impl; [|exact H]. intros bw. apply whole_nonneg_ge0. Qed.

Section HPSC.
  Variable SS : list C.

  (* ================================================================ one ballot handed out in shares *)
  Lemma cwa_gives_ge b L : (forall k s, In (k, s) L -> 0 <= s) -> forall a, cwa SS a <= cwa SS (gives a b L).
  Proof.
    induction L as [|[k s] L IH]; intros HL a; [simpl; lra|].
    change (gives a b ((k, s) :: L)) with (gives (alloc_add a k b s) b L).
    eapply Qle_trans; [|apply IH; intros k1 s1 H; apply (HL k1 s1); right; exact H].
    rewrite cwa_alloc_add. destruct (sw_bounds SS b s (HL k s (or_introl eq_refl))). destruct (inS SS k); lra.
  Qed.

  Lemma cwa_gives_nonsolid b L : solid_b SS b = false -> forall a, cwa SS (gives a b L) == cwa SS a.
  Proof.
    intros Hs. assert (H0 : forall x, sw SS b x = 0) by (intros x; unfold sw; rewrite Hs; reflexivity).
    induction L as [|[k s] L IH]; intros a; [reflexivity|].
    change (gives a b ((k, s) :: L)) with (gives (alloc_add a k b s) b L).
    rewrite IH, cwa_alloc_add, H0. destruct (inS SS k); ring.
  Qed.

  Lemma BB_gives K b L : (forall c, In (Some c) (map fst L) -> solid_b SS b = true -> okb SS K c b = true) ->
    forall a, BB SS K a -> BB SS K (gives a b L).
  Proof.
    induction L as [|[k s] L IH]; intros HL a HB; [exact HB|].
    change (gives a b ((k, s) :: L)) with (gives (alloc_add a k b s) b L).
    apply IH; [intros c Hc; apply HL; right; exact Hc|].
    apply BB_alloc_add; [exact HB|]. intros c ->. apply HL. left. reflexivity.
  Qed.

  Lemma keys_some_gives b L : forall a, (forall t, In (Some t) (map fst L) -> In t (keys_some a)) ->
    keys_some (gives a b L) = keys_some a.
  Proof.
    induction L as [|[k s] L IH]; intros a HL; [reflexivity|].
    change (gives a b ((k, s) :: L)) with (gives (alloc_add a k b s) b L).
    assert (Hk : keys_some (alloc_add a k b s) = keys_some a).
    { destruct k as [t|]; [apply keys_some_add_some, HL; left; reflexivity|apply keys_some_add_none]. }
    rewrite IH; [exact Hk|]. rewrite Hk. intros t Ht. apply HL. right. exact Ht.
  Qed.

  (* ---- pouring the pile of a leaving candidate over the continuing ones *)
  Lemma pour_h_psc cont c : ~ In c cont -> forall p a0 o r o',
    NoDup (akeys a0) -> alloc_whole a0 -> pile_whole p -> BB SS cont a0 -> incl cont (keys_some a0) ->
    (forall b w, In (b, w) p -> solid_b SS b = true -> okb SS cont c b = true) ->
    pour_h cont c p a0 o = HOk r o' ->
    NoDup (akeys r) /\ alloc_whole r /\ BB SS cont r /\ keys_some r = keys_some a0 /\
    alloc_get r (Some c) = alloc_get a0 (Some c) /\ cwa SS a0 <= cwa SS r /\
    (cmem c SS = true -> (exists d', In d' SS /\ In d' cont) -> cwa SS a0 + cwp SS p <= cwa SS r).
  Proof.
    intros Hc. induction p as [|[b w] p IH]; intros a0 o r o' Hnd Hwh Hp HB Hk Hok; cbn [pour_h].
    - intros [= <- <-]. repeat split; try assumption; try reflexivity; [lra|]. intros _ _. simpl. lra.
    - cbn [fst snd]. set (tg := ranked_next b c cont).
      destruct (move_h a0 tg b w o) as [a1 o1|s] eqn:Em; [|discriminate]. intros Hpour.
      inversion Hp as [|? ? Hw Hp']; subst. cbn [snd] in Hw.
      assert (Htg : incl tg cont) by apply ranked_next_allowed.
      assert (Hnc : ~ In c tg) by (intros H; apply Hc, Htg, H).
      destruct (move_h_keep a0 tg b w o a1 o1 c Hnc Hnd Em) as [G1 N1].
      destruct (move_h_gives _ _ _ _ _ _ _ Em) as (L & Ea1 & HL & HT & HW).
      assert (HTs : forall t, In (Some t) (map fst L) -> In t tg) by (intros t Ht; exact (HT _ Ht)).
      assert (K1 : keys_some a1 = keys_some a0).
      { rewrite Ea1. apply keys_some_gives. intros t Ht. apply Hk, Htg, HTs, Ht. }
      assert (B1 : BB SS cont a1).
      { rewrite Ea1. apply BB_gives; [|exact HB]. intros t Ht Hs.
        apply (proj1 (okb_targets SS cont cont c b Hs (Hok b w (or_introl eq_refl) Hs) (incl_refl _) Hc)). exact (HTs t Ht). }
      assert (W1 : alloc_whole a1) by (eapply move_h_whole; eassumption).
      destruct (IH a1 o1 r o' N1 W1 Hp' B1) as (R1 & R2 & R3 & R4 & R5 & R6 & R7).
      { rewrite K1. exact Hk. }
      { intros b0 w0 Hin. apply (Hok b0 w0). right. exact Hin. }
      { exact Hpour. }
      split; [exact R1|]. split; [exact R2|]. split; [exact R3|]. split; [rewrite R4; exact K1|].
      split; [rewrite R5; exact G1|].
      assert (M1 : cwa SS a0 <= cwa SS a1).
      { rewrite Ea1. apply cwa_gives_ge. intros k s Hin. apply whole_nonneg_ge0. exact (HW Hw k s Hin). }
      split; [lra|]. intros Ec Hex. specialize (R7 Ec Hex). cbn [cwp fold_right fst snd].
      fold (cwp SS p).
      assert (M2 : cwa SS a0 + sw SS b w <= cwa SS a1).
      { unfold sw. destruct (solid_b SS b) eqn:Hs; [|lra].
        destruct (proj2 (okb_targets SS cont cont c b Hs (Hok b w (or_introl eq_refl) Hs) (incl_refl _) Hc) Ec Hex) as (d & Hd1 & Hd2).
        fold tg in Hd1. rewrite Hd1 in Em. cbn [move_h] in Em. injection Em as <- _.
        rewrite cwa_alloc_add. cbn [inS]. apply cmem_In in Hd2. rewrite Hd2. unfold sw. rewrite Hs. lra. }
      lra.
  Qed.

  Lemma transfer_loop_psc cont : forall rem a0 o r o', (forall c, In c rem -> ~ In c cont) ->
    NoDup (akeys a0) -> alloc_whole a0 -> BB SS cont a0 -> incl cont (keys_some a0) ->
    transfer_loop cont rem a0 o = HOk r o' ->
    NoDup (akeys r) /\ alloc_whole r /\ BB SS cont r /\
    keys_some r = filter (fun x => negb (cmem x rem)) (keys_some a0) /\
    ((exists d', In d' SS /\ In d' cont) -> cwa SS a0 <= cwa SS r).
  Proof.
    induction rem as [|c rem IH]; intros a0 o r o' Hr Hnd Hwh HB Hk; cbn [transfer_loop].
    - intros [= <- <-]. repeat split; try assumption; [|intros _; lra].
      cbn [cmem negb]. clear. induction (keys_some a0) as [|x l IHl]; simpl; [reflexivity|]. rewrite <- IHl. reflexivity.
    - set (p := match alloc_get a0 (Some c) with Some p => p | None => [] end).
      destruct (pour_h cont c p a0 o) as [r0 o1|s] eqn:Ep; [|discriminate]. intros Hloop.
      assert (Hp : pile_whole p).
      { unfold p. destruct (alloc_get a0 (Some c)) eqn:E; [eapply alloc_get_whole; eassumption|constructor]. }
      assert (Hok : forall b w, In (b, w) p -> solid_b SS b = true -> okb SS cont c b = true).
      { unfold p. destruct (alloc_get a0 (Some c)) as [p0|] eqn:E; [|intros b w []].
        intros b w Hin Hs. apply (HB c p0 b w); [apply alloc_get_in, E|exact Hin|exact Hs]. }
      destruct (pour_h_psc cont c (Hr c (or_introl eq_refl)) p a0 o r0 o1 Hnd Hwh Hp HB Hk Hok Ep) as (P1 & P2 & P3 & P4 & P5 & P6 & P7).
      (* the step: remove the emptied pile *)
      assert (T1 : NoDup (akeys (alloc_del r0 (Some c)))).
      { destruct (alloc_get r0 (Some c)) as [p0|] eqn:E.
        - exact (proj2 (alloc_del_sum r0 (Some c) p0 P1 E)).
        - rewrite (alloc_del_none r0 _ E). exact P1. }
      assert (T4 : keys_some (alloc_del r0 (Some c)) = filter (fun x => negb (ceqb c x)) (keys_some a0))
        by (rewrite keys_some_del, P4; reflexivity).
      assert (T5 : (exists d', In d' SS /\ In d' cont) -> cwa SS a0 <= cwa SS (alloc_del r0 (Some c))).
      { intros Hex. destruct (alloc_get a0 (Some c)) as [p0|] eqn:E.
        - rewrite (cwa_alloc_del SS r0 (Some c) p0 P1) by (rewrite P5; reflexivity). cbn [inS].
          destruct (cmem c SS) eqn:Ec; [specialize (P7 eq_refl Hex); unfold p in P7; lra|lra].
        - rewrite (alloc_del_none r0 (Some c)) by (rewrite P5; reflexivity). exact P6. }
      destruct (IH (alloc_del r0 (Some c)) o1 r o' (fun x Hx => Hr x (or_intror Hx)) T1 (alloc_del_whole _ _ P2)
                   (BB_alloc_del SS cont r0 (Some c) P3)) as (R1 & R2 & R3 & R4 & R5); [|exact Hloop|].
      { rewrite T4. intros x Hx. apply filter_In. split; [apply Hk, Hx|].
        apply negb_true_iff, ceqb_neq. intros ->. exact (Hr x (or_introl eq_refl) Hx). }
      split; [exact R1|]. split; [exact R2|]. split; [exact R3|]. split.
      + rewrite R4, T4, filter_filter. apply filter_ext. intros x. cbn [cmem]. unfold ceqb. rewrite (Pos.eqb_sym x c).
        rewrite negb_orb. reflexivity.
      + intros Hex. specialize (T5 Hex). specialize (R5 Hex). lra.
  Qed.

  Theorem transfer_h_psc a elim o r o' : NoDup (akeys a) -> alloc_whole a -> BB SS (keys_some a) a ->
    transfer_h a elim o = HOk r o' ->
    let cont := filter (fun c => negb (cmem c elim)) (keys_some a) in
    NoDup (akeys r) /\ alloc_whole r /\ BB SS cont r /\ keys_some r = cont /\
    ((exists d', In d' SS /\ In d' cont) -> cwa SS a <= cwa SS r).
  Proof.
    intros Hnd Hwh HB Ht cont. unfold transfer_h in Ht. fold cont in Ht.
    set (rem := filter (fun c => cmem c elim) (keys_some a)) in *.
    assert (Hrem : forall c, In c rem -> ~ In c cont) by (apply transfer_split).
    assert (Hcont : incl cont (keys_some a)) by (intros x Hx; apply filter_In in Hx; tauto).
    destruct (transfer_loop_psc cont rem a o r o' Hrem Hnd Hwh (BB_mono SS _ _ a Hcont HB) Hcont Ht) as (R1 & R2 & R3 & R4 & R5).
    split; [exact R1|]. split; [exact R2|]. split; [exact R3|]. split; [|exact R5].
    rewrite R4. unfold cont. apply filter_ext_in. intros x Hx. f_equal.
    unfold rem. destruct (cmem x elim) eqn:E.
    - apply cmem_In. apply filter_In. split; [exact Hx|exact E].
    - apply cmem_nIn. intros H. apply filter_In in H. destruct H as [_ H]. congruence.
  Qed.

  (* ================================================================ drawing the quotas of the elected *)
  (* whatever is drawn, the solid ballots of the pile lose at most the number of draws *)
  Lemma cwp_hare_sub ds : nodupb ds = true -> forall p lo, pile_whole p ->
    cwp SS p - inject_Z (cnt_in ds lo (lo + pile_total p)) <= cwp SS (hare_sub_pile p lo ds).
  Proof.
    intros Hn. induction p as [|[b w] p IH]; intros lo Hp.
    - cbn [hare_sub_pile pile_total fold_right fst snd].
      pose proof (cnt_in_nonneg ds lo (lo + 0)) as H0. rewrite Zle_Qle in H0. change (inject_Z 0) with 0 in H0.
      cbn [cwp fold_right]. lra.
    - simpl. inversion Hp as [|? ? Hw Hp']; subst. pose proof Hw as Hw0. apply whole_nonneg_spec in Hw. simpl in Hw. destruct Hw as [Hw1 Hw2].
      specialize (IH (lo + Qfloor w)%Z Hp').
      pose proof (pile_total_nonneg p Hp') as Ht.
      rewrite (cnt_in_split ds lo (lo + Qfloor w) (lo + (Qfloor w + pile_total p))) by lia.
      replace (lo + (Qfloor w + pile_total p))%Z with (lo + Qfloor w + pile_total p)%Z by lia.
      pose proof (cnt_in_le ds lo (lo + Qfloor w) Hn ltac:(lia)) as Hk.
      pose proof (cnt_in_nonneg ds lo (lo + Qfloor w)) as Hk0.
      set (k := cnt_in ds lo (lo + Qfloor w)) in *. rewrite inject_Z_plus.
      set (rest := cnt_in ds (lo + Qfloor w) (lo + Qfloor w + pile_total p)) in *.
      assert (Hkq : 0 <= inject_Z k) by (rewrite <- (Zle_Qle 0); exact Hk0).
      assert (Hkw : inject_Z k <= w) by (rewrite Hw1; rewrite <- Zle_Qle; lia).
      destruct (k =? 0)%Z eqn:E0.
      + apply Z.eqb_eq in E0. rewrite E0. change (inject_Z 0) with 0. simpl. lra.
      + destruct (Qfloor w <=? k)%Z eqn:E1.
        * apply Z.leb_le in E1. assert (Hwk : w <= inject_Z k) by (rewrite Hw1; rewrite <- Zle_Qle; exact E1).
          unfold sw at 1. destruct (solid_b SS b); lra.
        * apply Z.leb_gt in E1. simpl. unfold sw. destruct (solid_b SS b); [|lra].
          unfold Zminus. rewrite inject_Z_plus, inject_Z_opp. lra.
  Qed.

  Lemma cwp_hare p amt o p' o' : hare_subtract p amt o = HOk p' o' -> cwp SS p - amt <= cwp SS p'.
  Proof.
    intros H. destruct (hare_subtract_spec _ _ _ _ _ H) as (Hp & _ & _ & _ & _ & (ds & _ & Hd & ->) & _).
    destruct (draws_ok_spec _ _ _ Hd) as (D1 & D2 & D3).
    pose proof (cwp_hare_sub ds D3 p 0%Z Hp) as Hc. rewrite Z.add_0_l, (cnt_in_all _ _ _ D2), D1 in Hc.
    unfold hare_subtract in H. destruct p as [|bw0 p0] eqn:Ep; [discriminate|]. rewrite <- Ep in *.
    destruct (forallb _ p); cbn [negb] in H; [|discriminate].
    destruct (Qle_bool 0 amt && _); cbn [negb] in H; [|discriminate].
    destruct (is_int amt) eqn:Ei; cbn [negb] in H; [|discriminate]. apply is_int_spec in Ei. rewrite Ei. exact Hc.
  Qed.

  Theorem subtract_h_psc K elected : forall a o a' o', NoDup (akeys a) -> NoDup (map fst elected) -> BB SS K a ->
    subtract_h a elected o = HOk a' o' ->
    cwa SS a - sumS SS elected <= cwa SS a' /\ BB SS K a'.
  Proof.
    induction elected as [|[c amt] t IH]; intros a o a' o' Hnd Hd HB; cbn [subtract_h].
    - intros [= <- <-]. split; [simpl; lra|exact HB].
    - destruct (alloc_get a (Some c)) as [p|] eqn:Eg; [|discriminate].
      destruct (hare_subtract p amt o) as [p' o1|s] eqn:Es; [|discriminate]. intros Hsub.
      destruct (replace_pile_sum a c p p' Hnd Eg) as [_ H2].
      pose proof (cwa_replace SS a c p p' Hnd Eg) as H1. fold (set_pile a c p') in H1, H2.
      inversion Hd as [|? ? Hc Hd']; subst.
      destruct (IH (set_pile a c p') o1 a' o') as [H3 H4].
      + unfold akeys in *. rewrite H2. exact Hnd.
      + exact Hd'.
      + intros c0 p0 b w Hin Hb Hs. unfold set_pile in Hin. apply in_map_iff in Hin. destruct Hin as ([k pk] & Heq & Hin).
        cbn -[okey_eqb] in Heq. destruct (okey_eqb (Some c) k) eqn:E.
        * apply okey_eqb_eq in E. subst k. injection Heq as <- <-.
          destruct (hare_subtract_spec _ _ _ _ _ Es) as (_ & _ & _ & _ & _ & _ & S7).
          destruct (S7 b w Hb) as (w1 & Hw1).
          apply (HB c p b w1); [apply alloc_get_in, Eg|exact Hw1|exact Hs].
        * injection Heq as -> ->. apply (HB c0 p0 b w Hin Hb Hs).
      + exact Hsub.
      + split; [|exact H4].
        pose proof (cwp_hare p amt o p' o1 Es) as Hg.
        cbn [sumS fold_right fst snd]. fold (sumS SS t). destruct (cmem c SS); lra.
  Qed.

  (* ================================================================ the invariant of the count loop *)
  Section RUNHPSC.
    Variable cf : cfg.
    Hypothesis Hae : c_accept_equal cf = true.
    Hypothesis Hstep : c_step cf = (-1)%Z.
    Variable qf : Q -> Z -> Q.
    Hypothesis Hqf : c_quota cf = Some qf.
    Variable n : Z.
    Variable total : Q.
    Hypothesis Htot : Qeq_bool total 0 = false.
    Hypothesis Hn0 : (n =? 0)%Z = false.
    Let q := qf total n.
    Hypothesis Hq : 0 < q.
    Variable caps : list (C * Z).
    Variable k : nat.

    Definition HInv (a : alloc) (seats : list (C * Z)) : Prop :=
      Inv SS qf n total caps k a seats /\ alloc_whole a.

    Lemma step_elect_h a seats el0 a1 o o1 a2 o2 : HInv a seats ->
      (forall c s, In (c, s) el0 -> s = 1%Z /\ exists p, alloc_get a (Some c) = Some p /\ inject_Z s * q <= wsum p) ->
      NoDup (map fst el0) ->
      subtract_h a (map (fun cs : C * Z => (fst cs, inject_Z (snd cs) * q)) el0) o = HOk a1 o1 ->
      transfer_h a1 (map fst el0) o1 = HOk a2 o2 ->
      asum a2 + inject_Z (seats_sum el0) * q == asum a ->
      HInv a2 (add_seats seats el0).
    Proof.
      intros [I Iw] Hel Hnd Hsub Htr Hcons. destruct I as [I1 I2 I3 I4 I5 Io Ik I6 I7 I8 I9].
      set (amts := map (fun cs : C * Z => (fst cs, inject_Z (snd cs) * q)) el0) in *.
      assert (Hndk : NoDup (map fst amts)) by (unfold amts; rewrite map_map; exact Hnd).
      destruct (subtract_h_psc (keys_some a) amts a o a1 o1 I1 Hndk I7 Hsub) as [S1 S2].
      destruct (subtract_h_conserves amts a o a1 o1 I1 Hndk Hsub) as [_ S3].
      pose proof (subtract_h_whole amts a o a1 o1 Iw Hsub) as S4.
      pose proof (keys_some_of_akeys a1 a S3) as S5.
      assert (S6 : NoDup (akeys a1)) by (rewrite S3; exact I1).
      assert (HsumS : sumS SS amts == inject_Z (Z.of_nat (cnt SS (map fst el0))) * q).
      { apply sumS_amounts. intros c s Hin. apply (Hel c s Hin). }
      set (E := map fst el0) in *.
      assert (HE : incl E (keys_some a)).
      { intros c Hc. unfold E in Hc. apply in_map_iff in Hc. destruct Hc as ([c0 s0] & <- & Hin).
        destruct (Hel c0 s0 Hin) as (_ & p & Hg & _). apply keys_some_akeys. unfold akeys. apply in_map_iff.
        exists (Some c0, p). split; [reflexivity|apply alloc_get_in, Hg]. }
      assert (S7 : BB SS (keys_some a1) a1) by (rewrite S5; exact S2).
      destruct (transfer_h_psc a1 E o1 a2 o2 S6 S4 S7 Htr) as (R1 & R2 & R3 & R4 & R5).
      rewrite S5 in R3, R4, R5. set (cont := filter (fun c => negb (cmem c E)) (keys_some a)) in *.
      assert (Hcont : incl cont (keys_some a)) by (intros x Hx; apply filter_In in Hx; tauto).
      assert (Hkeys : map fst (add_seats seats el0) = map fst seats ++ E).
      { apply add_seats_keys; [exact Hnd|]. intros c Hc. apply I4, HE, Hc. }
      split; [|exact R2]. constructor.
      - exact R1.
      - apply alloc_whole_nonneg, R2.
      - intros c Hc. rewrite R4 in Hc. apply I3, Hcont, Hc.
      - intros c Hc. rewrite R4 in Hc. rewrite Hkeys. intros Hin. apply in_app_or in Hin. destruct Hin as [Hin|Hin].
        + exact (I4 c (Hcont c Hc) Hin).
        + apply filter_In in Hc. destruct Hc as [_ Hc]. apply negb_true_iff, cmem_nIn in Hc. exact (Hc Hin).
      - apply add_seats_nonneg; [exact I5|]. intros c s Hin. destruct (Hel c s Hin) as [-> _]. lia.
      - intros c s Hin. rewrite add_seats_app in Hin; [|exact Hnd|intros c0 Hc0; apply I4, HE, Hc0].
        apply in_app_or in Hin. destruct Hin as [Hin|Hin]; [exact (Io c s Hin)|exact (proj1 (Hel c s Hin))].
      - rewrite Hkeys. apply Threshold_proofs.nodup_app_intro; [exact Ik|exact Hnd|].
        intros x Hx Hxe. exact (I4 x (HE x Hxe) Hx).
      - rewrite add_seats_sum, inject_Z_plus. fold q in I6. fold q. lra.
      - rewrite R4. exact R3.
      - rewrite R4. intros (c & Hc1 & Hc2). rewrite Hkeys, cnt_app, Nat2Z.inj_add, inject_Z_plus.
        assert (Hex : exists c, In c SS /\ In c (keys_some a)) by (exists c; split; [exact Hc1|apply Hcont, Hc2]).
        specialize (I8 Hex). assert (Hex' : exists d', In d' SS /\ In d' cont) by (exists c; tauto).
        specialize (R5 Hex'). fold q in I8. fold q. lra.
      - rewrite R4, Hkeys, cnt_app.
        pose proof (cnt_split SS (keys_some a) E (keys_some_nodup a I1) Hnd HE) as Hs. fold cont in Hs. lia.
    Qed.

    Lemma step_elim_h a seats elim o a2 o2 : HInv a seats ->
      (forall c p, In (Some c, p) a -> wsum p < q) ->
      incl elim (keys_some a) -> NoDup elim -> (length elim <= 1)%nat ->
      transfer_h a elim o = HOk a2 o2 ->
      HInv a2 seats.
    Proof.
      intros [I Iw] Hlt HE Hnd Hlen Htr. destruct I as [I1 I2 I3 I4 I5 Io Ik I6 I7 I8 I9].
      destruct (transfer_h_psc a elim o a2 o2 I1 Iw I7 Htr) as (R1 & R2 & R3 & R4 & R5).
      destruct (transfer_h_conserves a elim o a2 o2 I1 Htr) as [T1 _].
      set (cont := filter (fun c => negb (cmem c elim)) (keys_some a)) in *.
      assert (Hcont : incl cont (keys_some a)) by (intros x Hx; apply filter_In in Hx; tauto).
      pose proof (cnt_split SS (keys_some a) elim (keys_some_nodup a I1) Hnd HE) as Hs. fold cont in Hs.
      split; [|exact R2]. constructor.
      - exact R1.
      - apply alloc_whole_nonneg, R2.
      - intros c Hc. rewrite R4 in Hc. apply I3, Hcont, Hc.
      - intros c Hc. rewrite R4 in Hc. apply I4, Hcont, Hc.
      - exact I5.
      - exact Io.
      - exact Ik.
      - rewrite T1. exact I6.
      - rewrite R4. exact R3.
      - rewrite R4. intros (c & Hc1 & Hc2).
        assert (Hex : exists c, In c SS /\ In c (keys_some a)) by (exists c; split; [exact Hc1|apply Hcont, Hc2]).
        specialize (I8 Hex). assert (Hex' : exists d', In d' SS /\ In d' cont) by (exists c; tauto).
        specialize (R5 Hex'). lra.
      - rewrite R4. pose proof (cnt_le_length SS elim) as Hc.
        destruct (Nat.eq_dec (cnt SS elim) 0) as [H0|H0]; [lia|].
        assert (Hpos : (0 < cnt SS elim)%nat) by lia.
        destruct (cnt_pos_ex SS elim Hpos) as (e & He1 & He2).
        assert (Hm : (0 < cnt SS (keys_some a))%nat) by (apply (ex_cnt_pos SS _ e); [apply HE, He1|exact He2]).
        assert (Hex : exists c, In c SS /\ In c (keys_some a)) by (exists e; split; [exact He2|apply HE, He1]).
        specialize (I8 Hex).
        destruct (cwa_lt_quota SS a q I2 Hq Hlt) as [_ Hc2]. specialize (Hc2 Hm).
        assert (Hk : (k < cnt SS (keys_some a) + cnt SS (map fst seats))%nat).
        { destruct (le_lt_dec (cnt SS (keys_some a) + cnt SS (map fst seats)) k) as [Hge|Hl]; [exfalso|exact Hl].
          assert (Hz : (Z.of_nat (cnt SS (keys_some a)) + Z.of_nat (cnt SS (map fst seats)) <= Z.of_nat k)%Z) by lia.
          rewrite Zle_Qle, inject_Z_plus in Hz.
          assert (Hmul : (inject_Z (Z.of_nat (cnt SS (keys_some a))) + inject_Z (Z.of_nat (cnt SS (map fst seats)))) * q
                         <= inject_Z (Z.of_nat k) * q) by (apply Qmult_le_compat_r; [exact Hz|lra]).
          fold q in I8. lra. }
        lia.
    Qed.

    Lemma quota_is_h : quota_of cf total n = Some q.
    Proof. unfold quota_of. rewrite Hqf, Htot, Hn0. reflexivity. Qed.

    (* the invariant survives every count, whatever the oracle draws *)
    Theorem next_count_h_psc a seats o a' el o' : HInv a seats ->
      next_count_h cf a n total seats caps o = HC_next a' el o' -> HInv a' (add_seats seats el).
    Proof.
      intros HI Hn. pose proof HI as [I Iw].
      destruct (next_count_h_conserves cf a n total seats caps o a' el o' (i_nd _ _ _ _ _ _ _ _ I) (i_sn _ _ _ _ _ _ _ _ I)) as (N1 & N2 & N3);
        [intros qv Hqv; rewrite quota_is_h in Hqv; injection Hqv as <-; exact Hq|exact Hn|].
      rewrite quota_is_h in N3. revert Hn. unfold next_count_h. cbv zeta.
      destruct (negb _ && _ && _); [discriminate|].
      rewrite Hqf, Htot, Hn0. cbn [orb]. fold q.
      destruct (elect_by_quota cf (totals a) (Some q) _ seats caps) as [[el0|]|s] eqn:Ee; [| |discriminate].
      - destruct (subtract_h a _ o) as [a1 o1|s1] eqn:Es; [|discriminate].
        destruct (elect_by_quota_sound cf q Hq a _ seats caps el0 (i_nd _ _ _ _ _ _ _ _ I) (i_sn _ _ _ _ _ _ _ _ I) Ee) as [Hk Hs].
        pose proof (ebq_cap1 cf q a _ seats caps el0 (i_caps _ _ _ _ _ _ _ _ I) (i_sn _ _ _ _ _ _ _ _ I) Ee) as Hc1.
        assert (Hel : forall c s, In (c, s) el0 -> s = 1%Z /\ exists p, alloc_get a (Some c) = Some p /\ inject_Z s * q <= wsum p).
        { intros c s Hin. destruct (Hs c s Hin) as [Hp Hex]. pose proof (Hc1 c s Hin). split; [lia|exact Hex]. }
        rewrite (elim_map_fst caps seats el0).
        2:{ intros c s Hin. destruct (Hel c s Hin) as (-> & p & Hg & _). split; [|split; [lia|apply (i_sn _ _ _ _ _ _ _ _ I)]].
            apply (i_caps _ _ _ _ _ _ _ _ I). apply keys_some_akeys. unfold akeys. apply in_map_iff. exists (Some c, p).
            split; [reflexivity|apply alloc_get_in, Hg]. }
        destruct el0 as [|e0 r0].
        + cbn [map]. cbn [subtract_h map] in Es. injection Es as <- <-. intros [= <- <- <-]. exact HI.
        + cbn [map]. intros Hl. apply lift_h_next in Hl. destruct Hl as [Ht ->].
          apply (step_elect_h a seats (e0 :: r0) a1 o o1 a' o' HI Hel Hk Es Ht). exact N3.
      - destruct (existsb _ _) eqn:Etie; [discriminate|].
        match goal with |- context [transfer_h a ?e o] => set (elim := e) end.
        assert (Hdef : elim = eliminated cf a) by reflexivity.
        assert (Hlt : forall c p, In (Some c, p) a -> wsum p < q).
        { intros c p Hin. rewrite <- pile_sum_wsum.
          apply (ebq_none cf q a (n - zsum (map snd seats))%Z seats caps Hae Hq) with (c := c); [|exact Ee|apply totals_of_pile, Hin].
          intros c0 Hc0. split; [apply (i_caps _ _ _ _ _ _ _ _ I), Hc0|apply dget_or_notin, (i_disj _ _ _ _ _ _ _ _ I), Hc0]. }
        assert (HE : incl elim (keys_some a)).
        { rewrite Hdef. unfold eliminated. rewrite in_play_keys. intros x Hx. apply filter_In in Hx. tauto. }
        assert (Hnde : NoDup elim).
        { rewrite Hdef. unfold eliminated. rewrite in_play_keys. apply NoDup_filter_c, keys_some_nodup, (i_nd _ _ _ _ _ _ _ _ I). }
        assert (Hlen : (length elim <= 1)%nat).
        { rewrite Hdef. destruct (in_play a) as [|x0 l0] eqn:Eip.
          - unfold eliminated. rewrite Eip. simpl. lia.
          - assert (Hm : (1 <= length (in_play a))%nat) by (rewrite Eip; simpl; lia).
            assert (Hneg : (c_step cf < 0)%Z) by (rewrite Hstep; lia).
            destruct (retained_count_neg cf (length (in_play a)) Hneg Hm) as [Hrc Hd].
            rewrite (eliminated_count cf a); [| |exact Etie|exact Hrc].
            + rewrite Hd. rewrite Hstep. change (Z.to_nat (- -1)) with 1%nat. lia.
            + rewrite in_play_keys. apply keys_some_nodup, (i_nd _ _ _ _ _ _ _ _ I). }
        destruct elim as [|e es] eqn:Eel.
        + intros [= <- <- <-]. exact HI.
        + intros Hl. apply lift_h_next in Hl. destruct Hl as [Ht ->].
          apply (step_elim_h a seats (e :: es) o a' o' HI Hlt HE Hnde Hlen Ht).
    Qed.

    (* the elect-all-remaining shortcut does not look at the transferer *)
    Lemma next_count_h_all a seats o el : next_count_h cf a n total seats caps o = HC_all el ->
      next_count cf a n total seats caps = CR_all el.
    Proof.
      unfold next_count_h, next_count. cbv zeta.
      match goal with |- context [if ?c then HC_all ?av else _] => destruct c end; [intros [= <-]; reflexivity|].
      intros H. exfalso. revert H.
      repeat (match goal with
              | |- context [match ?x with _ => _ end] => destruct x
              | |- lift_h ?r _ = _ -> _ => destruct r; simpl
              end); discriminate.
    Qed.

    Theorem run_h_psc fuel : forall a seats o acc a0, HInv a seats -> total < inject_Z (n + 1) * q ->
      h_stop (run_h cf fuel a n total seats caps o acc a0) = None ->
      (Nat.min k (length SS) <= cnt SS (map fst (h_seats (run_h cf fuel a n total seats caps o acc a0))))%nat /\
      (forall c s, In (c, s) (h_seats (run_h cf fuel a n total seats caps o acc a0)) -> s = 1%Z) /\
      NoDup (map fst (h_seats (run_h cf fuel a n total seats caps o acc a0))).
    Proof.
      induction fuel as [|f IH]; intros a seats o acc a0 HI Hd; pose proof HI as [I _]; cbn [run_h].
      - destruct (zsum (map snd seats) =? n)%Z eqn:E; cbn [h_stop h_seats]; [|discriminate].
        intros _. split; [apply (done_psc SS qf n total Hq caps k a seats I); [apply Z.eqb_eq, E|exact Hd]|
                          split; [exact (i_one _ _ _ _ _ _ _ _ I)|exact (i_ndk _ _ _ _ _ _ _ _ I)]].
      - destruct (zsum (map snd seats) =? n)%Z eqn:E; cbn [h_stop h_seats].
        { intros _. split; [apply (done_psc SS qf n total Hq caps k a seats I); [apply Z.eqb_eq, E|exact Hd]|
                            split; [exact (i_one _ _ _ _ _ _ _ _ I)|exact (i_ndk _ _ _ _ _ _ _ _ I)]]. }
        destruct (next_count_h cf a n total seats caps o) as [el|a' el o'|s] eqn:En; cbn [h_stop h_seats]; [| |discriminate].
        + intros _. exact (all_psc SS cf qf n total caps k a seats el I (next_count_h_all a seats o el En)).
        + pose proof (next_count_h_psc a seats o a' el o' HI En) as I'. destruct el as [|e el'].
          * destruct (alloc_eqb a' a); cbn [h_stop]; [discriminate|]. apply IH; assumption.
          * apply IH; assumption.
    Qed.
  End RUNHPSC.

  (* ================================================================ the initial allocation *)
  Theorem initial_h_psc (votes : list (ballot * Q)) (K : list C) o a0 o' : SS <> [] -> votes_whole votes ->
    initial_allocation_h votes o = HOk a0 o' ->
    BB SS K a0 /\ keys_some a0 = all_ranked_candidates votes /\ cwa SS a0 == coalition_weight SS votes.
  Proof.
    intros Hne Hw. unfold initial_allocation_h, initial_direct. set (cands := all_ranked_candidates votes).
    set (base := map (fun c => (Some c, @nil (ballot * Q))) cands).
    assert (Hb : BB SS K base /\ keys_some base = cands /\ cwa SS base == 0).
    { unfold base. clear. induction cands as [|c l IH]; [repeat split; intros c p b w []|].
      destruct IH as (I2 & I3 & I4). cbn [map]. repeat split.
      - intros c0 p b w [H|H] Hb; [injection H as _ <-; destruct Hb|exact (I2 c0 p b w H Hb)].
      - change (keys_some ((Some c, []) :: map (fun c0 : C => (Some c0, [])) l)) with (c :: keys_some (map (fun c0 : C => (Some c0, @nil (ballot * Q))) l)).
        rewrite I3. reflexivity.
      - cbn [cwa fold_right fst snd]. fold (cwa SS (map (fun c0 : C => (Some c0, @nil (ballot * Q))) l)). rewrite I4.
        destruct (inS SS (Some c)); simpl; ring. }
    assert (Hd : forall (vs : list (ballot * Q)) a1, incl vs votes -> BB SS K a1 -> keys_some a1 = cands ->
       let r := fold_left (fun a bw => match fst bw with IP c :: _ => alloc_add a (Some c) (fst bw) (snd bw) | _ => a end) vs a1 in
       BB SS K r /\ keys_some r = cands /\ cwa SS r == cwa SS a1 + coalition_weight SS vs).
    { induction vs as [|[b w] vs IH]; intros a1 Hi HB Hk; cbv zeta; [simpl; repeat split; try assumption; ring|].
      assert (Hi' : incl vs votes) by (intros x Hx; apply Hi; right; exact Hx).
      assert (Hbw : In (b, w) votes) by (apply Hi; left; reflexivity).
      cbn [fold_left fst snd coalition_weight fold_right]. fold (coalition_weight SS vs).
      destruct b as [|[c|l] t].
      - destruct (IH a1 Hi' HB Hk) as (R2 & R3 & R4). repeat split; try assumption.
        rewrite R4, (solid_not_empty SS Hne). ring.
      - assert (Hc : In c (keys_some a1)).
        { rewrite Hk. apply (all_ranked_in votes (IP c :: t) w (IP c) c Hbw); left; reflexivity. }
        destruct (IH (alloc_add a1 (Some c) (IP c :: t) w) Hi') as (R2 & R3 & R4).
        + apply BB_alloc_add; [exact HB|]. intros c0 [= <-] Hs. unfold okb.
          destruct (solid_b_first SS _ Hne Hs) as (c1 & t1 & Heq & Hc1). injection Heq as <- _.
          apply cmem_In in Hc1. rewrite Hc1. cbn [STV_psc_proofs.rests_ok]. rewrite ceqb_refl. reflexivity.
        + rewrite keys_some_add_some; assumption.
        + repeat split; try assumption. rewrite R4, cwa_alloc_add. cbn [inS]. unfold sw.
          destruct (solid_b SS (IP c :: t)) eqn:Hs; [|destruct (cmem c SS); ring].
          destruct (solid_b_first SS _ Hne Hs) as (c1 & t1 & Heq & Hc1). injection Heq as <- _.
          apply cmem_In in Hc1. rewrite Hc1. ring.
      - destruct (IH a1 Hi' HB Hk) as (R2 & R3 & R4). repeat split; try assumption.
        rewrite R4, (solid_not_shared SS l t Hne). ring. }
    assert (Hs : forall (vs : list (ballot * Q)) a1 o1 r o2, incl vs votes -> BB SS K a1 -> keys_some a1 = cands ->
       initial_shared cands vs a1 o1 = HOk r o2 ->
       BB SS K r /\ keys_some r = cands /\ cwa SS r == cwa SS a1).
    { induction vs as [|[b w] vs IH]; intros a1 o1 r o2 Hi HB Hk; cbn [initial_shared fst snd].
      - intros [= <- <-]. repeat split; try assumption; reflexivity.
      - assert (Hi' : incl vs votes) by (intros x Hx; apply Hi; right; exact Hx).
        destruct b as [|[c|l] t]; [exact (IH a1 o1 r o2 Hi' HB Hk)|exact (IH a1 o1 r o2 Hi' HB Hk)|].
        destruct (move_h a1 (next_after (IS l :: t) cands) (IS l :: t) w o1) as [a2 o3|s] eqn:Em; [|discriminate]. intros Hsh.
        destruct (move_h_gives _ _ _ _ _ _ _ Em) as (L & -> & _ & HT & _).
        destruct (IH (gives a1 (IS l :: t) L) o3 r o2 Hi') as (R2 & R3 & R4); [| |exact Hsh|].
        + apply BB_gives; [|exact HB]. intros t0 _ Hsol. rewrite (solid_not_shared SS l t Hne) in Hsol. discriminate.
        + rewrite keys_some_gives; [exact Hk|]. intros t0 Ht0. rewrite Hk. apply (next_after_allowed (IS l :: t) cands). exact (HT _ Ht0).
        + repeat split; try assumption. rewrite R4. apply cwa_gives_nonsolid, solid_not_shared, Hne. }
    destruct Hb as (B2 & B3 & B4). intros Hi.
    destruct (Hd votes base (incl_refl _) B2 B3) as (D2 & D3 & D4).
    destruct (Hs votes _ o a0 o' (incl_refl _) D2 D3 Hi) as (S2 & S3 & S4).
    repeat split; try assumption. rewrite S4, D4, B4. ring.
  Qed.
End HPSC.

(* ================================================================ the theorem, for every oracle *)
Theorem psc_strong_h (cf : cfg) (qf : Q -> Z -> Q) (votes : list (ballot * Q)) (n : Z) (caps : list (C * Z)) (SS : list C) (k : nat)
        (orc : oracle) :
  c_accept_equal cf = true -> c_step cf = (-1)%Z -> c_quota cf = Some qf ->
  (forall c, In c (all_ranked_candidates votes) -> dget caps c = Some 1%Z) ->
  NoDup SS -> SS <> [] ->
  votes_whole votes ->
  let total := Qred (fold_left Qplus (map snd votes) 0) in
  let q := qf total n in
  0 < q -> total < inject_Z (n + 1) * q ->
  let t := stv_h cf votes n [] caps orc in
  h_stop t = None ->
  inject_Z (Z.of_nat k) * q <= coalition_weight SS votes -> (1 <= k)%nat ->
  (Nat.min k (length SS) <= length (filter (fun c => cmem c SS) (map fst (h_seats t))))%nat /\
  (forall c s, In (c, s) (h_seats t) -> s = 1%Z) /\ NoDup (map fst (h_seats t)).
Proof.
  intros Hae Hstep Hqf Hcaps Hnd Hne Hwh total q Hq Hdroop t Hstop Hk Hk1.
  assert (Hw : forall b w, In (b, w) votes -> 0 <= w) by (intros b w Hin; apply whole_nonneg_ge0, (Hwh b w Hin)).
  destruct k as [|k']; [lia|]. revert Hstop.
  pose proof (total_vsum votes) as Htv. fold total in Htv.
  pose proof (cw_le_vsum SS votes Hw) as Hcv.
  pose proof (cast_le_vsum votes Hw) as Hcast.
  assert (Hkq : q <= inject_Z (Z.of_nat (S k')) * q).
  { assert (H1 : 1 <= inject_Z (Z.of_nat (S k'))) by (change 1 with (inject_Z 1); rewrite <- Zle_Qle; lia).
    assert (H2 : 1 * q <= inject_Z (Z.of_nat (S k')) * q) by (apply Qmult_le_compat_r; [exact H1|lra]). lra. }
  assert (Htot : Qeq_bool total 0 = false).
  { apply not_true_iff_false. intros H. apply Qeq_bool_iff in H. lra. }
  assert (Hn0 : (n =? 0)%Z = false).
  { apply Z.eqb_neq. intros ->. change (inject_Z (0 + 1)) with 1 in Hdroop. lra. }
  unfold t, stv_h. fold total.
  destruct (initial_allocation_h votes orc) as [a0 o0|s] eqn:Ei; [|discriminate].
  destruct (initial_h_psc SS votes (keys_some a0) orc a0 o0 Hne Hwh Ei) as (P2 & P3 & P4).
  destruct (initial_allocation_h_spec votes orc a0 o0 Ei) as (C1 & C2 & C3 & _).
  assert (Hinv : HInv SS qf n total caps (S k') a0 []).
  { split; [|exact (C3 Hwh)]. constructor.
    - exact C1.
    - apply alloc_whole_nonneg, (C3 Hwh).
    - intros c Hc. rewrite P3 in Hc. exact (Hcaps c Hc).
    - intros c _ [].
    - intros c. unfold dget_or. simpl. lia.
    - intros c s [].
    - constructor.
    - change (zsum (map snd (@nil (C * Z)))) with 0%Z. change (inject_Z 0) with 0. fold q. rewrite C2. lra.
    - exact P2.
    - intros _. change (cnt SS (map fst (@nil (C * Z)))) with 0%nat. change (inject_Z (Z.of_nat 0)) with 0. fold q. rewrite P4. lra.
    - change (cnt SS (map fst (@nil (C * Z)))) with 0%nat. rewrite P3.
      destruct (cw_pos_solid SS votes) as (b & w & Hb1 & Hb2); [lra|].
      destruct (solid_b_shape SS b Hb2) as (top & rest & -> & _ & Htop).
      assert (Hlen : (length SS <= cnt SS (all_ranked_candidates votes))%nat).
      { unfold cnt. apply NoDup_incl_length; [exact Hnd|]. intros x Hx. apply filter_In. split; [|apply cmem_In, Hx].
        apply (all_ranked_in votes (map IP top ++ rest) w (IP x) x Hb1); [|left; reflexivity].
        apply in_or_app. left. apply in_map, Htop, Hx. }
      lia. }
  intros Hstop.
  exact (run_h_psc SS cf Hae Hstep qf Hqf n total Htot Hn0 Hq caps (S k') _ _ _ _ _ _ Hinv Hdroop Hstop).
Qed.

(* declarative form: a set W of distinct members of SS, each holding exactly one seat, with |W| >= min(k, |SS|) *)
Theorem psc_winners_h (cf : cfg) (qf : Q -> Z -> Q) (votes : list (ballot * Q)) (n : Z) (caps : list (C * Z)) (SS : list C) (k : nat)
        (orc : oracle) :
  c_accept_equal cf = true -> c_step cf = (-1)%Z -> c_quota cf = Some qf ->
  (forall c, In c (all_ranked_candidates votes) -> dget caps c = Some 1%Z) ->
  NoDup SS -> SS <> [] ->
  votes_whole votes ->
  let total := Qred (fold_left Qplus (map snd votes) 0) in
  let q := qf total n in
  0 < q -> total < inject_Z (n + 1) * q ->
  let t := stv_h cf votes n [] caps orc in
  h_stop t = None ->
  inject_Z (Z.of_nat k) * q <= coalition_weight SS votes ->
  exists W : list C, NoDup W /\ incl W SS /\ (forall c, In c W -> In (c, 1%Z) (h_seats t)) /\
                     (Nat.min k (length SS) <= length W)%nat.
Proof.
  intros Hae Hstep Hqf Hcaps Hnd Hne Hw total q Hq Hdroop t Hstop Hk.
  destruct k as [|k']; [exists []; repeat split; [constructor|intros x []|intros c []|simpl; lia]|].
  destruct (psc_strong_h cf qf votes n caps SS (S k') orc Hae Hstep Hqf Hcaps Hnd Hne Hw Hq Hdroop Hstop Hk ltac:(lia)) as (P1 & P2 & P3).
  fold t in P1, P2, P3.
  exists (filter (fun c => cmem c SS) (map fst (h_seats t))). split; [apply NoDup_filter_c, P3|]. split; [|split; [|exact P1]].
  - intros x Hx. apply filter_In in Hx. apply cmem_In. tauto.
  - intros c Hc. apply filter_In in Hc. destruct Hc as [Hc _]. apply in_map_iff in Hc. destruct Hc as ([c0 s0] & Heq & Hin).
    simpl in Heq. subst c0. rewrite <- (P2 c s0 Hin). exact Hin.
Qed.
