(* The Smith-set routine computes exactly the Smith set (C06): the output of [smith_schwartz v true]
   is a dominating set (non-empty, every member beats every outsider) and is contained in every dominating
   set.  Ingredients: the completed dictionary, the win-or-tie relation, Copeland scores (a member of a
   dominating set outscores every outsider by at least 2, so dominating sets are prefixes of the Copeland
   order), the closure of the single sorted pass (Condorcet_proofs.smith_schwartz_closed) and an upper bound
   on the pass by any dominating prefix. *)
From Coq Require Import ZArith List Bool Lia Arith Permutation Sorted.
From VL Require Import Prelude.PyDict Model.GetNBest Model.Condorcet Proofs.Dict_proofs Proofs.GetNBest_proofs
     Proofs.Condorcet_proofs.
Import ListNotations.
Open Scope Z_scope.

(* ---------------------------------------------------------------- generic facts on copeland_scores *)
Definition cntw (ws : list pair) (x : C) : Z := Z.of_nat (length (filter (fun p : pair => ceqb (fst p) x) ws)).
Definition cntl (ws : list pair) (x : C) : Z := Z.of_nat (length (filter (fun p : pair => ceqb (snd p) x) ws)).

Lemma dadd_get' d c k c' : dget_or (dadd d c k) c' 0 = dget_or d c' 0 + (if ceqb c' c then k else 0).
Proof.
  unfold dadd. rewrite dget_or_dset. destruct (ceqb c' c) eqn:E; [|lia].
  apply ceqb_eq in E. subst. lia.
Qed.

Lemma cscore_get (ws : list pair) x : dget_or (copeland_scores ws) x 0 = cntw ws x - cntl ws x.
Proof.
  unfold copeland_scores, cntw, cntl.
  assert (H : forall (l : list pair) d,
    dget_or (fold_left (fun d (p : pair) => dadd (dadd d (fst p) 1) (snd p) (-1)) l d) x 0 =
    dget_or d x 0 + Z.of_nat (length (filter (fun p : pair => ceqb (fst p) x) l))
                  - Z.of_nat (length (filter (fun p : pair => ceqb (snd p) x) l))).
  { induction l as [|p l IH]; intros d; simpl; [lia|]. rewrite IH, !dadd_get'.
    assert (H1 : ceqb x (fst p) = ceqb (fst p) x) by apply Pos.eqb_sym.
    assert (H2 : ceqb x (snd p) = ceqb (snd p) x) by apply Pos.eqb_sym. rewrite H1, H2.
    destruct (ceqb (fst p) x), (ceqb (snd p) x); simpl length; lia. }
  rewrite H. simpl. lia.
Qed.

Lemma dset_keys' {X} (d : list (C * X)) k x : NoDup (map fst d) -> NoDup (map fst (dset d k x)) /\
  (forall c, In c (map fst (dset d k x)) <-> c = k \/ In c (map fst d)).
Proof.
  induction d as [|[k0 x0] d IH]; simpl; intros H.
  - split; [constructor; [intros []|constructor]|]. intros c. split; [intros [<-|[]]; auto|intros [->|[]]; auto].
  - inversion H as [|? ? Hk Hn]; subst. destruct (ceqb k k0) eqn:E; simpl.
    + apply Pos.eqb_eq in E. subst. split; [exact H|]. intros c. split; [intros [<-|H']; auto|intros [->|[<-|H']]; auto].
    + destruct (IH Hn) as [IH1 IH2]. split.
      * constructor; [|exact IH1]. intros Hin. apply IH2 in Hin. destruct Hin as [->|Hin]; [|exact (Hk Hin)].
        rewrite Pos.eqb_refl in E. discriminate.
      * intros c. rewrite IH2. tauto.
Qed.

Lemma cscore_keys (ws : list pair) : NoDup (map fst (copeland_scores ws)) /\
  forall x, In x (map fst (copeland_scores ws)) <-> exists p, In p ws /\ (x = fst p \/ x = snd p).
Proof.
  unfold copeland_scores.
  assert (H : forall (l : list pair) d, NoDup (map fst d) ->
    let d' := fold_left (fun d (p : pair) => dadd (dadd d (fst p) 1) (snd p) (-1)) l d in
    NoDup (map fst d') /\ forall x, In x (map fst d') <-> In x (map fst d) \/ exists p, In p l /\ (x = fst p \/ x = snd p)).
  { induction l as [|[a b] l IH]; intros d Hd; simpl.
    - split; [exact Hd|]. intros x. split; [auto|intros [H|(p & [] & _)]; exact H].
    - destruct (dset_keys' d a (dget_or d a 0 + 1) Hd) as [N1 K1].
      destruct (dset_keys' (dadd d a 1) b (dget_or (dadd d a 1) b 0 + -1) N1) as [N2 K2].
      destruct (IH _ N2) as [I1 I2]. split; [exact I1|]. intros x. rewrite I2. unfold dadd at 1. rewrite K2. unfold dadd. rewrite K1. split.
      + intros [[->|[->|H]]|(p & Hp & Hx)]; [right; exists (a, b); simpl; auto|right; exists (a, b); simpl; auto|left; exact H|right; exists p; auto].
      + intros [H|(p & [<-|Hp] & Hx)]; [left; auto|simpl in Hx; left; destruct Hx as [->| ->]; auto|right; exists p; auto]. }
  destruct (H ws [] ltac:(constructor)) as [H1 H2]. split; [exact H1|]. intros x. rewrite H2. simpl. tauto.
Qed.

(* ---------------------------------------------------------------- the completed dictionary *)
Section SMITH.
  Variable v : pvotes.
  Hypothesis Hnn : forall p n, In (p, n) v -> 0 <= n.
  Hypothesis Hndv : NoDup (map fst v).
  Notation cs := (candidates v).
  Notation cv := (complete v).
  Hypothesis H2 : (2 <= length cs)%nat.

  Lemma cs_nodup : NoDup cs.
  Proof. apply candidates_NoDup. Qed.

  Lemma complete_in a b n : In ((a, b), n) cv <-> In a cs /\ In b cs /\ a <> b /\ n = pget0 v (a, b).
  Proof.
    unfold complete. rewrite in_flat_map. split.
    - intros (c1 & H1 & Hin). apply in_flat_map in Hin. destruct Hin as (c2 & Hc2 & Hin).
      destruct (ceqb c1 c2) eqn:E; [destruct Hin|]. destruct Hin as [Hin|[]]. inversion Hin; subst.
      apply ceqb_neq in E. tauto.
    - intros (Ha & Hb & Hab & ->). exists a. split; [exact Ha|]. apply in_flat_map. exists b. split; [exact Hb|].
      apply ceqb_neq in Hab. rewrite Hab. left. reflexivity.
  Qed.

  Lemma complete_keys_nodup : NoDup (map fst cv).
  Proof.
    unfold complete. pose proof cs_nodup as Hn.
    assert (G : forall l1 l2, NoDup l1 -> NoDup l2 ->
      NoDup (map fst (flat_map (fun c1 => flat_map (fun c2 => if ceqb c1 c2 then [] else [((c1, c2), pget0 v (c1, c2))]) l2) l1))).
    { induction l1 as [|c1 l1 IH]; intros l2 N1 N2; simpl; [constructor|].
      inversion N1 as [|? ? Hc1 N1']; subst. rewrite map_app. apply Threshold_proofs.nodup_app_intro.
      - clear IH. induction l2 as [|c2 l2 IH2]; simpl; [constructor|]. inversion N2 as [|? ? Hc2 N2']; subst.
        destruct (ceqb c1 c2); simpl; [apply IH2, N2'|]. constructor; [|apply IH2, N2'].
        intros Hin. apply in_map_iff in Hin. destruct Hin as ([[x y] m] & Hf & Hin). simpl in Hf. injection Hf as -> ->.
        apply in_flat_map in Hin. destruct Hin as (c & Hc & Hin). destruct (ceqb c1 c); [destruct Hin|].
        destruct Hin as [Hin|[]]. inversion Hin; subst. exact (Hc2 Hc).
      - apply IH; assumption.
      - intros [x y] Hx Hy. apply in_map_iff in Hx. destruct Hx as ([[x' y'] m] & Hf & Hx). simpl in Hf. injection Hf as -> ->.
        apply in_flat_map in Hx. destruct Hx as (c & _ & Hx). destruct (ceqb c1 c); [destruct Hx|]. destruct Hx as [Hx|[]]. inversion Hx; subst.
        apply in_map_iff in Hy. destruct Hy as ([[x' y'] m'] & Hf & Hy). simpl in Hf. injection Hf as -> ->.
        apply in_flat_map in Hy. destruct Hy as (c1' & Hc1' & Hy). apply in_flat_map in Hy. destruct Hy as (c' & _ & Hy).
        destruct (ceqb c1' c'); [destruct Hy|]. destruct Hy as [Hy|[]]. inversion Hy; subst. exact (Hc1 Hc1'). }
    apply G; exact Hn.
  Qed.

  Lemma complete_pget0 a b : In a cs -> In b cs -> a <> b -> pget0 cv (a, b) = pget0 v (a, b).
  Proof.
    intros Ha Hb Hab. unfold pget0 at 1.
    rewrite (In_pget cv (a, b) (pget0 v (a, b)) complete_keys_nodup); [reflexivity|].
    apply complete_in. tauto.
  Qed.

  Lemma complete_nonneg p n : In (p, n) cv -> 0 <= n.
  Proof.
    destruct p as [a b]. intros H. apply complete_in in H. destruct H as (_ & _ & _ & ->).
    unfold pget0. destruct (pget v (a, b)) as [m|] eqn:E; [|lia]. apply pget_In in E. exact (Hnn _ _ E).
  Qed.

  (* win-or-tie relation of the completed dictionary *)
  Notation WT := (pairwise_wins cv true).

  Lemma wt_iff a b : In (a, b) WT <-> In a cs /\ In b cs /\ a <> b /\ pget0 v (b, a) <= pget0 v (a, b).
  Proof.
    unfold pairwise_wins. rewrite in_map_iff. split.
    - intros ([[a' b'] n] & Hf & Hin). simpl in Hf. injection Hf as -> ->. apply filter_In in Hin. destruct Hin as [Hin Hc].
      apply complete_in in Hin. destruct Hin as (Ha & Hb & Hab & ->). simpl in Hc. unfold swap in Hc. simpl in Hc.
      rewrite (complete_pget0 b a Hb Ha) in Hc by congruence.
      split; [exact Ha|]. split; [exact Hb|]. split; [exact Hab|].
      apply orb_true_iff in Hc. destruct Hc as [Hc|Hc]; [apply Z.ltb_lt in Hc; lia|apply Z.eqb_eq in Hc; lia].
    - intros (Ha & Hb & Hab & Hle). exists ((a, b), pget0 v (a, b)). split; [reflexivity|]. apply filter_In. split.
      + apply complete_in. tauto.
      + simpl. unfold swap. simpl. rewrite (complete_pget0 b a Hb Ha) by congruence.
        destruct (Z.eq_dec (pget0 v (b, a)) (pget0 v (a, b))) as [E|E].
        * rewrite E, Z.eqb_refl, orb_true_r. reflexivity.
        * assert (pget0 v (b, a) <? pget0 v (a, b) = true) as -> by (apply Z.ltb_lt; lia). reflexivity.
  Qed.

  Lemma wt_nodup : NoDup WT.
  Proof. unfold pairwise_wins. apply filter_fst_NoDup. exact complete_keys_nodup. Qed.

  Lemma wt_total a b : In a cs -> In b cs -> a <> b -> In (a, b) WT \/ In (b, a) WT.
  Proof.
    intros Ha Hb Hab. destruct (Z.le_ge_cases (pget0 v (b, a)) (pget0 v (a, b))) as [H|H].
    - left. apply wt_iff. tauto.
    - right. apply wt_iff. split; [exact Hb|]. split; [exact Ha|]. split; [congruence|lia].
  Qed.

  Lemma not_beats_wt a b : In a cs -> In b cs -> a <> b -> ~ beats v a b -> In (b, a) WT.
  Proof. intros Ha Hb Hab Hn. apply wt_iff. unfold beats in Hn. split; [exact Hb|]. split; [exact Ha|]. split; [congruence|lia]. Qed.

  Lemma wt_not_beaten a b : In (a, b) WT -> ~ beats v b a.
  Proof. intros H. apply wt_iff in H. unfold beats. lia. Qed.

  (* keys of the score dictionary = the candidates *)
  Notation scores := (copeland_scores WT).
  Lemma scores_keys x : In x (map fst scores) <-> In x cs.
  Proof.
    destruct (cscore_keys WT) as [_ K]. rewrite K. split.
    - intros ([a b] & Hp & Hx). apply wt_iff in Hp. simpl in Hx. destruct Hx as [->| ->]; tauto.
    - intros Hx.
      (* some other candidate exists *)
      assert (Hy : exists y, In y cs /\ y <> x).
      { pose proof cs_nodup as Hn. destruct cs as [|c1 [|c2 t]] eqn:E; simpl in H2; try lia.
        destruct (Pos.eq_dec c1 x) as [->|N1]; [exists c2; split; [right; left; reflexivity|]|exists c1; split; [left; reflexivity|exact N1]].
        inversion Hn as [|? ? Hc _]; subst. intros ->. apply Hc. left. reflexivity. }
      destruct Hy as (y & Hy & Hyx). destruct (wt_total x y Hx Hy ltac:(congruence)) as [H|H].
      + exists (x, y). split; [exact H|left; reflexivity].
      + exists (y, x). split; [exact H|right; reflexivity].
  Qed.

  (* ---- a member of a dominating set outscores every outsider by at least 2 *)
  Variable D : list C.
  Hypothesis Hdom : forall a b, In a D -> In b cs -> ~ In b D -> beats v a b.

  Definition inS (x : C) : bool := if in_dec Pos.eq_dec x D then true else false.
  Lemma inS_iff x : inS x = true <-> In x D.
  Proof. unfold inS. destruct (in_dec Pos.eq_dec x D); split; auto; discriminate. Qed.
  Lemma inS_false x : inS x = false <-> ~ In x D.
  Proof. unfold inS. destruct (in_dec Pos.eq_dec x D); split; auto; try discriminate; tauto. Qed.

  Definition ins : list C := filter inS cs.
  Definition outs : list C := filter (fun x => negb (inS x)) cs.
  Lemma ins_iff x : In x ins <-> In x cs /\ In x D.
  Proof. unfold ins. rewrite filter_In, inS_iff. tauto. Qed.
  Lemma outs_iff x : In x outs <-> In x cs /\ ~ In x D.
  Proof. unfold outs. rewrite filter_In, negb_true_iff, inS_false. tauto. Qed.
  Lemma ins_nodup : NoDup ins.
  Proof. apply NoDup_filter, cs_nodup. Qed.
  Lemma outs_nodup : NoDup outs.
  Proof. apply NoDup_filter, cs_nodup. Qed.

  Lemma beats_wt a b : In a cs -> In b cs -> beats v a b -> In (a, b) WT.
  Proof.
    intros Ha Hb Hab. apply wt_iff. unfold beats in Hab. split; [exact Ha|]. split; [exact Hb|]. split; [|lia].
    intros ->. lia.
  Qed.

  Lemma map_inj_nodup {X Y} (g : X -> Y) (l : list X) : (forall x y, g x = g y -> x = y) -> NoDup l -> NoDup (map g l).
  Proof.
    intros Hg. induction 1 as [|x l Hx _ IH]; simpl; constructor; [|exact IH].
    intros Hin. apply in_map_iff in Hin. destruct Hin as (y & Hy & Hin). apply Hg in Hy. subst. exact (Hx Hin).
  Qed.

  Lemma filter_pairs_fst_nodup (W : list pair) a : NoDup W -> NoDup (map snd (filter (fun p : pair => ceqb (fst p) a) W)).
  Proof.
    induction W as [|[x y] W IH]; simpl; intros H; [constructor|]. inversion H as [|? ? Hn Hw]; subst.
    destruct (ceqb x a) eqn:E; simpl; [|apply IH, Hw]. apply ceqb_eq in E. subst x. constructor; [|apply IH, Hw].
    intros Hin. apply in_map_iff in Hin. destruct Hin as ([x' y'] & Hy & Hin). simpl in Hy. subst y'.
    apply filter_In in Hin. destruct Hin as [Hin Hc]. simpl in Hc. apply ceqb_eq in Hc. subst x'. exact (Hn Hin).
  Qed.
  Lemma filter_pairs_snd_nodup (W : list pair) a : NoDup W -> NoDup (map fst (filter (fun p : pair => ceqb (snd p) a) W)).
  Proof.
    induction W as [|[x y] W IH]; simpl; intros H; [constructor|]. inversion H as [|? ? Hn Hw]; subst.
    destruct (ceqb y a) eqn:E; simpl; [|apply IH, Hw]. apply ceqb_eq in E. subst y. constructor; [|apply IH, Hw].
    intros Hin. apply in_map_iff in Hin. destruct Hin as ([x' y'] & Hy & Hin). simpl in Hy. subst x'.
    apply filter_In in Hin. destruct Hin as [Hin Hc]. simpl in Hc. apply ceqb_eq in Hc. subst y'. exact (Hn Hin).
  Qed.

  Lemma score_gap a b : In a D -> In a cs -> In b cs -> ~ In b D ->
    dget_or scores b 0 + 2 <= dget_or scores a 0.
  Proof.
    intros HaS Ha Hb HbS. rewrite !cscore_get. unfold cntw, cntl.
    set (Fa := filter (fun p : pair => ceqb (fst p) a) WT). set (La := filter (fun p : pair => ceqb (snd p) a) WT).
    set (Fb := filter (fun p : pair => ceqb (fst p) b) WT). set (Lb := filter (fun p : pair => ceqb (snd p) b) WT).
    (* (i) a wins against every outsider *)
    assert (E1 : (length outs <= length Fa)%nat).
    { rewrite <- (map_length (fun y => (a, y)) outs). apply NoDup_incl_length.
      - apply map_inj_nodup; [intros x y H; congruence|apply outs_nodup].
      - intros p Hp. apply in_map_iff in Hp. destruct Hp as (y & <- & Hy). apply outs_iff in Hy. destruct Hy as [Hy HyS].
        apply filter_In. split; [apply beats_wt; [exact Ha|exact Hy|apply Hdom; assumption]|simpl; apply ceqb_refl]. }
    (* (ii) a loses or ties only against other members *)
    assert (E2 : (S (length La) <= length ins)%nat).
    { assert (G : (length (a :: map fst La) <= length ins)%nat); [|simpl in G; rewrite map_length in G; exact G]. apply NoDup_incl_length.
      - constructor; [|apply filter_pairs_snd_nodup, wt_nodup].
        intros Hin. apply in_map_iff in Hin. destruct Hin as ([x y] & Hx & Hin). simpl in Hx. subst x.
        apply filter_In in Hin. destruct Hin as [Hin Hc]. simpl in Hc. apply ceqb_eq in Hc. subst y. apply wt_iff in Hin. tauto.
      - intros x [<-|Hx]; [apply ins_iff; tauto|]. apply in_map_iff in Hx. destruct Hx as ([x' y] & Hf & Hin). simpl in Hf. subst x'.
        apply filter_In in Hin. destruct Hin as [Hin Hc]. simpl in Hc. apply ceqb_eq in Hc. subst y.
        pose proof (wt_not_beaten _ _ Hin) as Hnb. apply wt_iff in Hin. destruct Hin as (Hx & _ & _ & _).
        apply ins_iff. split; [exact Hx|]. destruct (in_dec Pos.eq_dec x D) as [Hi|Hn]; [exact Hi|].
        exfalso. apply Hnb. apply Hdom; assumption. }
    (* (iii) b wins or ties only against other outsiders *)
    assert (E3 : (S (length Fb) <= length outs)%nat).
    { assert (G : (length (b :: map snd Fb) <= length outs)%nat); [|simpl in G; rewrite map_length in G; exact G]. apply NoDup_incl_length.
      - constructor; [|apply filter_pairs_fst_nodup, wt_nodup].
        intros Hin. apply in_map_iff in Hin. destruct Hin as ([x y] & Hy & Hin). simpl in Hy. subst y.
        apply filter_In in Hin. destruct Hin as [Hin Hc]. simpl in Hc. apply ceqb_eq in Hc. subst x. apply wt_iff in Hin. tauto.
      - intros y [<-|Hy]; [apply outs_iff; tauto|]. apply in_map_iff in Hy. destruct Hy as ([x y'] & Hf & Hin). simpl in Hf. subst y'.
        apply filter_In in Hin. destruct Hin as [Hin Hc]. simpl in Hc. apply ceqb_eq in Hc. subst x.
        pose proof (wt_not_beaten _ _ Hin) as Hnb. apply wt_iff in Hin. destruct Hin as (_ & Hy & _ & _).
        apply outs_iff. split; [exact Hy|]. intros HyS. apply Hnb. apply Hdom; assumption. }
    (* (iv) every member wins against b *)
    assert (E4 : (length ins <= length Lb)%nat).
    { rewrite <- (map_length (fun y => (y, b)) ins). apply NoDup_incl_length.
      - apply map_inj_nodup; [intros x y H; congruence|apply ins_nodup].
      - intros p Hp. apply in_map_iff in Hp. destruct Hp as (y & <- & Hy). apply ins_iff in Hy. destruct Hy as [Hy HyS].
        apply filter_In. split; [apply beats_wt; [exact Hy|exact Hb|apply Hdom; assumption]|simpl; apply ceqb_refl]. }
    lia.
  Qed.
End SMITH.

(* ---------------------------------------------------------------- positions in the Copeland order *)
Close Scope Z_scope.
Open Scope nat_scope.

Lemma idx_lt_length c l : In c l -> index_of c l < length l.
Proof.
  induction l as [|x l IH]; simpl; [tauto|]. intros H. destruct (ceqb c x) eqn:E; [lia|].
  destruct H as [->|H]; [rewrite ceqb_refl in E; discriminate|]. specialize (IH H). lia.
Qed.

Lemma firstn_idx c : forall k l, In c (firstn k l) <-> (index_of c l < k /\ In c l).
Proof.
  induction k as [|k IH]; intros l; [simpl; split; [tauto|lia]|].
  destruct l as [|x l]; simpl; [tauto|]. destruct (ceqb c x) eqn:E.
  - apply ceqb_eq in E. subst. split; [intros _; split; [lia|left; reflexivity]|intros _; left; reflexivity].
  - apply ceqb_neq in E. rewrite IH. split.
    + intros [->|[H1 H2]]; [congruence|]. split; [lia|right; exact H2].
    + intros [H1 [->|H2]]; [congruence|]. right. split; [lia|exact H2].
Qed.

Lemma sorted_idx (sl : list (C * Z)) a sa b sb :
  StronglySorted (fun x y : C * Z => zle_bool (snd y) (snd x) = true) sl -> NoDup (map fst sl) ->
  In (a, sa) sl -> In (b, sb) sl -> (sb < sa)%Z -> index_of a (map fst sl) < index_of b (map fst sl).
Proof.
  induction 1 as [|[x sx] sl Hs IH Hall]; simpl; [tauto|]. intros Hnd Ha Hb Hlt.
  inversion Hnd as [|? ? Hx Hn]; subst.
  destruct Ha as [Ha|Ha]; destruct Hb as [Hb|Hb].
  - injection Ha as -> ->. injection Hb as <- <-. lia.
  - injection Ha as -> ->. rewrite ceqb_refl. destruct (ceqb b a) eqn:E; [|lia].
    apply ceqb_eq in E. subst b. exfalso. apply Hx. apply in_map_iff. exists (a, sb). auto.
  - injection Hb as -> ->. exfalso. rewrite Forall_forall in Hall. specialize (Hall (a, sa) Ha). simpl in Hall.
    unfold zle_bool in Hall. apply Z.leb_le in Hall. lia.
  - assert (Hax : ceqb a x = false).
    { apply ceqb_neq. intros ->. apply Hx. apply in_map_iff. exists (x, sa). auto. }
    assert (Hbx : ceqb b x = false).
    { apply ceqb_neq. intros ->. apply Hx. apply in_map_iff. exists (x, sb). auto. }
    rewrite Hax, Hbx. specialize (IH Hn Ha Hb Hlt). lia.
Qed.

(* a predicate whose members all precede its non-members cuts the list at some position k *)
Lemma prefix_cut (P : C -> bool) : forall l, NoDup l ->
  (forall a b, In a l -> In b l -> P a = true -> P b = false -> index_of a l < index_of b l) ->
  exists k, forall x, In x l -> (P x = true <-> index_of x l < k).
Proof.
  induction l as [|x l IH]; intros Hnd H; [exists 0; intros y []|].
  inversion Hnd as [|? ? Hx Hn]; subst.
  destruct (P x) eqn:Px.
  - destruct (IH Hn) as (k & Hk).
    { intros a b Ha Hb Pa Pb. specialize (H a b (or_intror Ha) (or_intror Hb) Pa Pb). simpl in H.
      assert (ceqb a x = false) as Ea by (apply ceqb_neq; intros ->; exact (Hx Ha)).
      assert (ceqb b x = false) as Eb by (apply ceqb_neq; intros ->; exact (Hx Hb)).
      rewrite Ea, Eb in H. lia. }
    exists (S k). intros y [<-|Hy]; simpl.
    + rewrite ceqb_refl. split; [lia|intros _; exact Px].
    + assert (ceqb y x = false) as -> by (apply ceqb_neq; intros ->; exact (Hx Hy)). rewrite (Hk y Hy). lia.
  - exists 0. intros y Hy. split; [|lia]. intros Py. exfalso.
    destruct Hy as [<-|Hy]; [congruence|].
    specialize (H y x (or_intror Hy) (or_introl eq_refl) Py Px). simpl in H. rewrite ceqb_refl in H.
    assert (ceqb y x = false) as E by (apply ceqb_neq; intros ->; exact (Hx Hy)). rewrite E in H. lia.
Qed.

(* the pass never leaves a prefix that is closed under "wins or ties against a member" *)
Lemma ss_loop_bound (order : list C) (P : C -> bool) (k : nat) :
  (forall x, In x order -> (P x = true <-> index_of x order < k)) ->
  forall ws e, (forall w l, In (w, l) ws -> In w order /\ In l order /\ (P l = true -> P w = true)) ->
  e <= k -> ss_loop order ws e <= k.
Proof.
  intros Hk. induction ws as [|[w l] ws IH]; intros e Hws He; simpl; [exact He|].
  assert (Hrest : forall w' l', In (w', l') ws -> In w' order /\ In l' order /\ (P l' = true -> P w' = true)).
  { intros w' l' Hin. apply Hws. right. exact Hin. }
  destruct (Nat.leb e (index_of w order) && Nat.ltb (index_of l order) e) eqn:Ec; [|apply IH; assumption].
  apply andb_true_iff in Ec. destruct Ec as [E1 E2]. apply Nat.leb_le in E1. apply Nat.ltb_lt in E2.
  destruct (Hws w l (or_introl eq_refl)) as (Hw & Hl & Himp).
  assert (Pw : P w = true) by (apply Himp; apply (Hk l Hl); lia).
  assert (Hwk : index_of w order < k) by (apply (Hk w Hw); exact Pw).
  destruct (Nat.eqb (length order) (S (index_of w order))); [lia|]. apply IH; [exact Hrest|lia].
Qed.

(* ---------------------------------------------------------------- the theorem *)
Open Scope Z_scope.
Section SMITHSET.
  Variable v : pvotes.
  Hypothesis Hnn : forall p n, In (p, n) v -> 0 <= n.
  Hypothesis Hndv : NoDup (map fst v).
  Hypothesis H2 : (2 <= length (candidates v))%nat.
  Notation cs := (candidates v).
  Notation WT := (pairwise_wins (complete v) true).
  Notation scores := (copeland_scores WT).
  Notation order := (map fst (sort_desc zle_bool scores)).

  Lemma order_perm : Permutation order (map fst scores).
  Proof. apply Permutation_map, sort_desc_perm. Qed.
  Lemma order_in x : In x order <-> In x cs.
  Proof.
    rewrite <- (scores_keys v H2 x). split; intros H; [apply (Permutation_in _ order_perm H)|apply (Permutation_in _ (Permutation_sym order_perm) H)].
  Qed.
  Lemma order_nodup : NoDup order.
  Proof. eapply Permutation_NoDup; [apply Permutation_sym, order_perm|]. apply (cscore_keys WT). Qed.

  Lemma score_of x s : In (x, s) (sort_desc zle_bool scores) -> s = dget_or scores x 0.
  Proof.
    intros H. apply (Permutation_in _ (sort_desc_perm zle_bool scores)) in H.
    symmetry. apply In_dget_or; [apply (cscore_keys WT)|exact H].
  Qed.

  Lemma order_idx_lt a b : In a cs -> In b cs -> dget_or scores b 0 < dget_or scores a 0 -> (index_of a order < index_of b order)%nat.
  Proof.
    intros Ha Hb Hlt.
    apply order_in, in_map_iff in Ha. destruct Ha as ([a' sa] & Ea & Ha). simpl in Ea. subst a'.
    apply order_in, in_map_iff in Hb. destruct Hb as ([b' sb] & Eb & Hb). simpl in Eb. subst b'.
    apply (sorted_idx (sort_desc zle_bool scores) a sa b sb).
    - pose proof (sort_desc_sorted zle_bool zle_total zle_trans scores) as Hs. exact Hs.
    - exact order_nodup.
    - exact Ha.
    - exact Hb.
    - rewrite (score_of a sa Ha), (score_of b sb Hb). exact Hlt.
  Qed.

  Lemma absent_pget0 a b : ~ In a cs -> pget0 v (a, b) = 0.
  Proof.
    intros Ha. unfold pget0. destruct (pget v (a, b)) as [n|] eqn:E; [|reflexivity]. exfalso. apply Ha.
    apply pget_In in E. apply (candidates_spec v). exists (a, b), n. split; [exact E|left; reflexivity].
  Qed.

  Lemma cs_inhabited : exists c0, In c0 cs.
  Proof. pose proof H2 as H. destruct cs as [|c0 t]; [simpl in H; lia|]. exists c0. left. reflexivity. Qed.

  Let O := smith_schwartz v true.

  Theorem smith_dominating : O <> [] /\ forall a b, In a O -> In b cs -> ~ In b O -> beats v a b.
  Proof.
    destruct (smith_schwartz_closed v true) as (HO & HE1 & Hcl). fold O in HO.
    set (E := ss_loop order (map fst (@sort_asc pair nat Nat.leb (map (fun p => (p, index_of (snd p) order)) WT))) 1) in *.
    split.
    - rewrite HO. assert (Hne : order <> []).
      { destruct cs_inhabited as (c0 & Hc0). assert (Hc : In c0 order) by (apply order_in; exact Hc0).
        intros E0. rewrite E0 in Hc. destruct Hc. }
      destruct order as [|x t]; [congruence|]. destruct E; [lia|]. simpl. discriminate.
    - intros a b Ha Hb Hnb. rewrite HO in Ha, Hnb.
      apply firstn_idx in Ha. destruct Ha as [Hia Hao]. apply order_in in Hao.
      assert (Hab : a <> b). { intros ->. apply Hnb. apply firstn_idx. split; [exact Hia|apply order_in; exact Hb]. }
      destruct (Z.lt_ge_cases (pget0 v (b, a)) (pget0 v (a, b))) as [Hlt|Hge]; [exact Hlt|exfalso].
      assert (Hwt : In (b, a) WT) by (apply (not_beats_wt v H2); [exact Hao|exact Hb|exact Hab|unfold beats; lia]).
      apply Hnb. apply firstn_idx. split; [|apply order_in; exact Hb].
      destruct Hcl as [Hall|Hcl].
      + rewrite Hall. apply idx_lt_length. apply order_in. exact Hb.
      + apply (Hcl b a Hwt Hia).
  Qed.

  Lemma smith_subset x : In x O -> In x cs.
  Proof.
    destruct (smith_schwartz_closed v true) as (HO & _ & _). fold O in HO. rewrite HO. intros H.
    apply firstn_idx in H. apply order_in. tauto.
  Qed.

  Theorem smith_minimal (D : list C) : D <> [] ->
    (forall a b, In a D -> In b cs -> ~ In b D -> beats v a b) -> incl O D.
  Proof.
    intros Dne Hdom.
    destruct (smith_schwartz_closed v true) as (HO & _ & _). fold O in HO.
    set (ws := map fst (@sort_asc pair nat Nat.leb (map (fun p => (p, index_of (snd p) order)) WT))) in *.
    (* some member of D is a candidate *)
    assert (Hmem : exists a0, In a0 D /\ In a0 cs).
    { destruct D as [|a0 D'] eqn:ED; [congruence|]. destruct (in_dec Pos.eq_dec a0 cs) as [Hi|Hn]; [exists a0; split; [left; reflexivity|exact Hi]|].
      (* a0 is not a candidate: it cannot beat anybody, so every candidate is in D *)
      destruct cs_inhabited as (c0 & Hc0).
      destruct (in_dec Pos.eq_dec c0 (a0 :: D')) as [Hi|Hni]; [exists c0; split; [exact Hi|exact Hc0]|].
      exfalso. assert (Hb : beats v a0 c0) by (apply Hdom; [left; reflexivity|exact Hc0|exact Hni]).
      unfold beats in Hb. rewrite (absent_pget0 a0 c0 Hn) in Hb.
      assert (0 <= pget0 v (c0, a0)).
      { unfold pget0. destruct (pget v (c0, a0)) as [n|] eqn:E; [|lia]. apply pget_In in E. exact (Hnn _ _ E). }
      lia. }
    destruct Hmem as (a0 & Ha0D & Ha0c).
    set (P := inS D).
    destruct (prefix_cut P order order_nodup) as (k & Hk).
    { intros a b Ha Hb Pa Pb. apply order_in in Ha. apply order_in in Hb.
      apply order_idx_lt; [exact Ha|exact Hb|].
      pose proof (score_gap v H2 D Hdom a b (proj1 (inS_iff D a) Pa) Ha Hb (proj1 (inS_false D b) Pb)). lia. }
    assert (Hk1 : (1 <= k)%nat).
    { assert (Hi : (index_of a0 order < k)%nat) by (apply (Hk a0 (proj2 (order_in a0) Ha0c)); apply inS_iff; exact Ha0D). lia. }
    assert (HE : (ss_loop order ws 1 <= k)%nat).
    { apply (ss_loop_bound order P k Hk); [|exact Hk1].
      intros w l Hin. assert (Hwt : In (w, l) WT).
      { destruct (sorted_wins order WT) as [Hp _]. fold ws in Hp. apply (Permutation_in _ Hp). exact Hin. }
      pose proof (wt_not_beaten v H2 _ _ Hwt) as Hnb. apply (wt_iff v H2) in Hwt. destruct Hwt as (Hw & Hl & _ & _).
      split; [apply order_in; exact Hw|]. split; [apply order_in; exact Hl|].
      intros Pl. apply inS_iff in Pl. apply inS_iff. destruct (in_dec Pos.eq_dec w D) as [Hi|Hn]; [exact Hi|].
      exfalso. apply Hnb. apply Hdom; assumption. }
    intros x Hx. rewrite HO in Hx. apply firstn_idx in Hx. destruct Hx as [Hix Hxo].
    apply (inS_iff D). apply (Hk x Hxo). fold ws in Hix. lia.
  Qed.
End SMITHSET.
